#!/bin/sh
# Build the generic Coq theory (full .vo build) from files on disk only.
cd "$(dirname "$0")" || exit 2
exec /venv/bin/python -B -c "
import sys; sys.path.insert(0, 'tools'); import vlib
vlib.regen_coqproject(); vlib.ensure_theory(); print('theory built')"
