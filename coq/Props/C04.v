(* C04 — every single expansion step preserves satisfiability exactly.
   Generated instance: coq/gen/C04/Obl.v gives, for every rule of every logic,
   the schema probed from the implementation and the kernel-decided finite
   obligations; these theorems lift them to all sentences / all evaluations
   (truth-functional rules) and to value lists of every length (quantifier and
   modal rules: domains and accessible-world sets of any size). *)
From Coq Require Import List Bool.
From PT Require Import Sem.Values Sem.Syntax Sem.Schema Sem.Gen.

Theorem C04_tf_exact : forall t r, rule_two_opd r = true ->
  tf_sound t r = None -> tf_complete t r = None ->
  forall ev ops, compositional t ev ->
    node_sat t ev (inst ops (ns_s (r_principal r))) (ns_d (r_principal r)) =
    inst_ext_sat t ev ops r.
Proof. exact tf_exact_lift. Qed.
Print Assumptions C04_tf_exact.

Theorem C04_tf_sound : forall t r, rule_two_opd r = true -> tf_sound t r = None ->
  forall ev ops, compositional t ev ->
    node_sat t ev (inst ops (ns_s (r_principal r))) (ns_d (r_principal r)) = true ->
    inst_ext_sat t ev ops r = true.
Proof. exact tf_sound_lift. Qed.
Print Assumptions C04_tf_sound.

Theorem C04_tf_complete : forall t r, rule_two_opd r = true -> tf_complete t r = None ->
  forall ev ops, compositional t ev ->
    inst_ext_sat t ev ops r = true ->
    node_sat t ev (inst ops (ns_s (r_principal r))) (ns_d (r_principal r)) = true.
Proof. exact tf_complete_lift. Qed.
Print Assumptions C04_tf_complete.

Theorem C04_gen_sound : forall t ge gu domain r, q_sound t ge gu domain r = None ->
  forall vs, (forall v, In v vs -> In v (t_vals t)) -> (domain = true -> vs <> nil) ->
    condP t ge gu vs (q_principal r) -> groupsP t ge gu vs r.
Proof. exact q_sound_lift. Qed.
Print Assumptions C04_gen_sound.

Theorem C04_gen_complete : forall t ge gu domain r, q_complete t ge gu domain r = None ->
  forall vs, (forall v, In v vs -> In v (t_vals t)) -> (domain = true -> vs <> nil) ->
    groupsP t ge gu vs r -> condP t ge gu vs (q_principal r).
Proof. exact q_complete_lift. Qed.
Print Assumptions C04_gen_complete.

(* frame rules: any saturated result of applying the reflexive / transitive / symmetric rules to a
   set of access pairs P on worlds W is exactly the least relation containing P with the frame
   property (clos), for every finite P and W *)
From PT Require Import Tab.Frame.
Theorem C04_frame_saturation_is_closure : forall F W P steps Q,
  run_steps F W P steps = Some Q -> saturated F W Q = true ->
  forall a b, In (a, b) Q <-> clos F W P a b.
Proof. exact frame_saturation_is_closure. Qed.
Print Assumptions C04_frame_saturation_is_closure.
