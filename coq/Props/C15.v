(* C15 — substitution and the derived attributes of sentences are exact.
   Model: coq/theories/Lang/Subst.v (mirrors the four substitute methods,
   unquantify, negative/negate and the lazily cached attributes of
   lang/lex.py); tied to /repo on every run by tools/c15.py (correspondence).
   All statements hold for EVERY sentence (structural induction); no
   well-formedness hypothesis is needed. *)
From Coq Require Import List NArith.
From PT Require Import Sem.Values Lang.Syntax Lang.Subst Lang.SubstProofs.
Import ListNotations.

(* substitute(new, old) = replace each parameter occurrence p by
   (if p = old then new else p); atoms, predicates, operators, quantifiers and
   binders stay in place. *)
Theorem C15_substitute_pointwise : forall pnew pold s,
  substitute pnew pold s = map_params (subst_param pnew pold) s.
Proof. exact substitute_pointwise. Qed.
Print Assumptions C15_substitute_pointwise.

(* the same, as skeleton + position-wise parameter list ... *)
Theorem C15_substitute_skeleton : forall pnew pold s,
  shape_of (substitute pnew pold s) = shape_of s /\
  params_of (substitute pnew pold s) = map (subst_param pnew pold) (params_of s).
Proof. exact substitute_skeleton. Qed.
Print Assumptions C15_substitute_skeleton.

(* ... which determine a sentence completely. *)
Theorem C15_shape_params_inj : forall a b,
  shape_of a = shape_of b -> params_of a = params_of b -> a = b.
Proof. exact shape_params_inj. Qed.
Print Assumptions C15_shape_params_inj.

Theorem C15_subst_removes_old : forall pnew pold s,
  pnew <> pold -> ~ In pold (params_of (substitute pnew pold s)).
Proof. exact subst_removes_old. Qed.
Print Assumptions C15_subst_removes_old.

Theorem C15_shortcut_sound : forall p s,
  substitute p p s = s /\ map_params (subst_param p p) s = s.
Proof. exact shortcut_sound. Qed.
Print Assumptions C15_shortcut_sound.

Theorem C15_unquantify_is_subst : forall c q vi vs b,
  unquantify c (Quant q vi vs b) = Some (map_params (subst_param c (Var vi vs)) b).
Proof. exact unquantify_is_subst. Qed.
Print Assumptions C15_unquantify_is_subst.

Theorem C15_negative_negate : forall s, negative (negate s) = s.
Proof. exact negative_negate. Qed.
Print Assumptions C15_negative_negate.

Theorem C15_negative_other : forall s,
  (forall a, s <> Un ONegation a) -> negative s = negate s.
Proof. exact negative_other. Qed.
Print Assumptions C15_negative_other.

Theorem C15_attrs_are_walks : forall s,
  same_set (constants s) (pick tk_const (tokens s)) /\
  same_set (variables s) (pick tk_var (tokens s)) /\
  same_set (predicates s) (pick tk_pred (tokens s)) /\
  same_set (atomics s) (pick tk_atom (tokens s)) /\
  operators s = pick tk_oper (tokens s) /\
  quantifiers s = pick tk_quant (tokens s).
Proof. exact attrs_are_walks. Qed.
Print Assumptions C15_attrs_are_walks.
