(* C02 — an 'invalid' verdict comes with a genuine countermodel.
   Two theorems.
   (1) C02_saturated_branch: for every logic L whose obligations complete_okF
   are discharged (the "if" direction of every rule schema over all value pairs /
   all 16 value subsets, closure completeness over all literal sets, per-logic
   weights under which every rule decreases), the model read off ANY branch b
   that is open and saturated - branch_okb: no rule instance the branch calls
   for is missing (unsaturated = []), no closure pattern matches, sentences closed,
   interpreted by L and not re-binding variables - satisfies EVERY node of b, with
   modal operators over the branch's access pairs and quantifiers over the
   branch's constants; if b extends the trunk the model is a countermodel; the
   access relation has the frame property the logic's frame rules saturate for.
   Any number of worlds, constants, nodes.
   Not claimed: normality of identity (the read-off interprets = as an ordinary
   predicate, as the library does), total denotation of constants absent from the
   branch, the sink world of serial frames; logics for which no decreasing weights
   exist (alt-Q / GO / MH / NH rewriting rules) have no complete_okF instance.
   (2) C02_countermodel_partial: the same for the propositional fragment stated
   on certificates (every legal run), for all 57 logics. *)
From Coq Require Import List Bool.
From PT Require Tab.PropDecide Tab.PropComplete.
From PT Require Import Sem.Values Sem.Syntax Sem.Closure Sem.Model Tab.Node Tab.PropTab Tab.PropSound
  Tab.FullTab Tab.FullSound Tab.Saturate Tab.FullComplete.
Import ListNotations.

Theorem C02_saturated_branch : forall L dv ws b tk, complete_okF L dv ws -> branch_okb L b tk = true ->
  forall n, In n b -> isat (fl_S L) (bmodel L dv b) idw n.
Proof. exact hintikka_b. Qed.
Print Assumptions C02_saturated_branch.

Theorem C02_saturated_branch_countermodel : forall L dv ws b tk,
  complete_okF L dv ws -> branch_ok L b tk -> forall prems concl,
  (forall n, In n (trunk (fl_hd L) 0 prems concl) -> In n b) ->
  (fl_hd L = false -> neg_flips_t (s_t (fl_S L)) = true) ->
  (forall p, In p prems -> t_des (s_t (fl_S L)) (eval (fl_S L) (bmodel L dv b) 0 env0 p) = true) /\
  t_des (s_t (fl_S L)) (eval (fl_S L) (bmodel L dv b) 0 env0 concl) = false.
Proof. exact hintikka_countermodel. Qed.
Print Assumptions C02_saturated_branch_countermodel.

Theorem C02_branch_model_frame : forall L dv b tk, branch_ok L b tk ->
  (fl_refl L = true -> forall u, In u (m_worlds (bmodel L dv b)) -> m_R (bmodel L dv b) u u = true) /\
  (fl_sym L = true -> forall u v, m_R (bmodel L dv b) u v = true -> m_R (bmodel L dv b) v u = true) /\
  (fl_trans L = true -> forall u v z, m_R (bmodel L dv b) u v = true -> m_R (bmodel L dv b) v z = true ->
                                      m_R (bmodel L dv b) u z = true).
Proof.
  intros L dv b tk BO. split; [|split].
  - exact (bmodel_reflexive L dv b tk BO).
  - exact (bmodel_symmetric L dv b tk BO).
  - exact (bmodel_transitive L dv b tk BO).
Qed.
Print Assumptions C02_branch_model_frame.

Theorem C02_countermodel_partial : forall L dv t prems concl, PropDecide.decide_ok L dv ->
  check L t (trunk (pl_hd L) 0 prems concl) [] = true -> all_closed t = false ->
  forall bl, In bl (PropComplete.open_leaves t (trunk (pl_hd L) 0 prems concl)) ->
    let v := PropDecide.read_off (pl_hd L) dv bl 0 in
    PropDecide.val_ok (pl_t L) v /\ PropDecide.countermodel (pl_t L) dv v prems concl /\
    bsat (pl_t L) (PropDecide.read_ev (pl_t L) (pl_hd L) dv bl) bl.
Proof. exact PropDecide.decide_complete. Qed.
Print Assumptions C02_countermodel_partial.
