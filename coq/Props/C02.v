(* C02 — an 'invalid' verdict comes with a genuine countermodel.
   PARTIAL: the unbounded theorem covers the propositional fragment of every
   logic (any number of letters, any size, any legal run).  For modal and
   first-order open branches the property is decided per reported countermodel
   by evaluating the exported model with Sem/Model.v eval inside Coq
   (tools/c02.py); the Hintikka induction for those fragments is not proved. *)
From Coq Require Import List Bool.
From PT Require Import Sem.Values Sem.Syntax Sem.Closure Tab.Node Tab.PropTab Tab.PropSound
  Tab.PropComplete Tab.PropDecide.
Import ListNotations.

Theorem C02_countermodel_partial : forall L dv t prems concl, decide_ok L dv ->
  check L t (trunk (pl_hd L) 0 prems concl) [] = true -> all_closed t = false ->
  forall bl, In bl (open_leaves t (trunk (pl_hd L) 0 prems concl)) ->
    let v := read_off (pl_hd L) dv bl 0 in
    val_ok (pl_t L) v /\ countermodel (pl_t L) dv v prems concl /\
    bsat (pl_t L) (read_ev (pl_t L) (pl_hd L) dv bl) bl.
Proof. exact decide_complete. Qed.
Print Assumptions C02_countermodel_partial.

(* the value the model builder reads off an open literal set satisfies it (C05's read-off) *)
Theorem C02_read_off_satisfies_literals : forall t hd ks dv bl,
  closure_complete t hd ks = None -> branch_closed ks bl = false -> des_ok hd bl ->
  forall n, In n bl -> lit_node n = true -> nsat_node t (read_ev t hd dv bl) n.
Proof. exact read_ev_literals. Qed.
Print Assumptions C02_read_off_satisfies_literals.
