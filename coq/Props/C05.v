(* C05 — branches close exactly when their literals are unsatisfiable. *)
From Coq Require Import List Bool.
From PT Require Import Sem.Values Sem.Closure.

Theorem C05_closure_sound : forall t hd ks, closure_sound t hd ks = None ->
  forall l x, In l (all_lits hd) -> closes ks l = true -> In x (t_vals t) -> lit_sat t l x = false.
Proof. exact closure_sound_spec. Qed.
Print Assumptions C05_closure_sound.

Theorem C05_closure_complete : forall t hd ks, closure_complete t hd ks = None ->
  forall l, In l (all_lits hd) -> closes ks l = false ->
    (exists x, In x (t_vals t) /\ lit_sat t l x = true) /\
    (forall x r, read_vals hd l = x :: r ->
       (forall y, In y r -> y = x) /\ In x (t_vals t) /\ lit_sat t l x = true).
Proof. exact closure_complete_spec. Qed.
Print Assumptions C05_closure_complete.

Theorem C05_all_literal_sets : forall l, In l (all_lits true).
Proof. exact all_lits_complete_des. Qed.
