(* C13 — parsers accept only closed well-formed sentences and fail only with ParseError.
   Statements about the executable model of ParseContext/DefaultParser/PolishParser
   (coq/theories/Lang/ParsePolish.v); coq/gen/C13/Obl.v instantiates them on the
   parse table regenerated from /repo on every run (obligation `table_ok`), and the
   correspondence run of tools/c13.py ties the model to the implementation. *)
From Coq Require Import List Bool Arith NArith.
From PT Require Import Lang.PSyntax Lang.ParsePolish Lang.ParsePolishProofs.
Import ListNotations.

(* Never an exception other than ParseError (and its subclasses), for every input, every
   predicate store, with or without auto-declaration — unless the store is frozen AND
   auto-declaration is on. Termination: OEFuel is one of the excluded outcomes. *)
Theorem C13_parse_never_other : forall C, table_ok (tab C) = true ->
  frozen C = false \/ auto_preds C = false ->
  forall P i k, fst (parse_polish C P i) <> OErr k.
Proof. exact parse_never_other. Qed.
Print Assumptions C13_parse_never_other.

Theorem C13_parse_terminates : forall C, table_ok (tab C) = true ->
  frozen C = false \/ auto_preds C = false ->
  forall P i, fst (parse_polish C P i) <> OErr OEFuel.
Proof. exact parse_terminates. Qed.
Print Assumptions C13_parse_terminates.

(* The excluded configuration is a genuine counterexample (known finding
   frozen-store-auto-declare): input "Fm" on a frozen store lets AttributeError escape. *)
Theorem C13_parse_frozen_refuted :
  forall T, tlookup T 70%N = Some (IPred 0) -> tlookup T 109%N = Some (IConst 0) ->
  exists P i, fst (parse_polish {| tab := T; auto_preds := true; frozen := true |} P i) = OErr OEAttr.
Proof. exact parse_frozen_refuted. Qed.
Print Assumptions C13_parse_frozen_refuted.
