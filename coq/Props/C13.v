(* C13 — parsers accept only closed well-formed sentences and fail only with ParseError.
   Statements about the executable model of ParseContext/DefaultParser/PolishParser
   (coq/theories/Lang/ParsePolish.v); coq/gen/C13/Obl.v instantiates them on the
   parse table regenerated from /repo on every run (obligation `table_ok`), and the
   correspondence run of tools/c13.py ties the model to the implementation. *)
From Coq Require Import List Bool Arith NArith.
From PT Require Import Lang.PSyntax Lang.ParsePolish Lang.ParsePolishProofs.
Import ListNotations.

(* Never an exception other than ParseError (and its subclasses), for every input, every
   predicate store, with or without auto-declaration — unless the store is frozen AND
   auto-declaration is on. Termination: OEFuel is one of the excluded outcomes. *)
Theorem C13_parse_never_other : forall C, table_ok (tab C) = true ->
  frozen C = false \/ auto_preds C = false ->
  forall P i k, fst (parse_polish C P i) <> OErr k.
Proof. exact parse_never_other. Qed.
Print Assumptions C13_parse_never_other.

Theorem C13_parse_terminates : forall C, table_ok (tab C) = true ->
  frozen C = false \/ auto_preds C = false ->
  forall P i, fst (parse_polish C P i) <> OErr OEFuel.
Proof. exact parse_terminates. Qed.
Print Assumptions C13_parse_terminates.

(* The excluded configuration is a genuine counterexample (known finding
   frozen-store-auto-declare): input "Fm" on a frozen store lets AttributeError escape. *)
Theorem C13_parse_frozen_refuted :
  forall T, tlookup T 70%N = Some (IPred 0) -> tlookup T 109%N = Some (IConst 0) ->
  exists P i, fst (parse_polish {| tab := T; auto_preds := true; frozen := true |} P i) = OErr OEAttr.
Proof. exact parse_frozen_refuted. Qed.
Print Assumptions C13_parse_frozen_refuted.

(* Every sentence a parser returns is constructible (index bounds, arity >= 1, #params =
   arity), closed, non-vacuous, binds no variable twice along a path, and applies every
   predicate to exactly the arity recorded for its symbol in the store after the parse. *)
Theorem C13_parse_wf : forall C, table_ok (tab C) = true ->
  forall P i s P', store_ok P = true ->
  parse_polish C P i = (OK s, P') ->
  wf_items s = true /\ closed s = true /\ nonvacuous s = true /\ norebind s = true /\
  arity_ok P' s = true.
Proof. exact parse_wf. Qed.
Print Assumptions C13_parse_wf.

(* non-vacuity of the implication: a concrete accepted input *)
Example C13_parse_wf_nonvacuous :
  let T := [(83, IQuant Existential); (120, IVar 0); (70, IPred 0); (75, IOper2 Conjunction);
            (109, IConst 0); (32, IWs); (49, IDigit 1)]%N in
  exists s P', parse_polish {| tab := T; auto_preds := true; frozen := false |} []
                 [75; 83; 120; 32; 49; 70; 120; 49; 109; 70; 109; 109]%N = (OK s, P').
Proof. eexists; eexists. vm_compute. reflexivity. Qed.

(* A parser instance is a state machine over its predicate store: the outcome of the next
   parse is that of a fresh parser created with the store the history left behind. *)
Theorem C13_parse_pure : forall C P hist i,
  run_history C P (hist ++ [i]) =
  (fst (run_history C P hist) ++ [fst (parse_polish C (snd (run_history C P hist)) i)],
   snd (parse_polish C (snd (run_history C P hist)) i)).
Proof. exact parse_pure. Qed.
Print Assumptions C13_parse_pure.

Theorem C13_parse_history_independent : forall C P Q h1 h2 i,
  snd (run_history C P h1) = snd (run_history C Q h2) ->
  last (fst (run_history C P (h1 ++ [i]))) (OErr OEFuel) =
  last (fst (run_history C Q (h2 ++ [i]))) (OErr OEFuel).
Proof. exact parse_history_independent. Qed.
Print Assumptions C13_parse_history_independent.

(* the store only grows by appending; without auto-declaration it never changes *)
Theorem C13_parse_store_grows : forall C P i, exists X, snd (parse_polish C P i) = P ++ X.
Proof. exact parse_store_grows. Qed.
Print Assumptions C13_parse_store_grows.

Theorem C13_parse_noauto_store : forall C, auto_preds C = false ->
  forall P i, snd (parse_polish C P i) = P.
Proof. exact parse_noauto_store. Qed.
Print Assumptions C13_parse_noauto_store.

(* ---- standard notation (model: Lang/ParseStd.v, incl. paren scan-ahead, infix
   predicates and the drop_parens retry) -------------------------------------------- *)
From PT Require Import Lang.ParseStd Lang.ParseStdProofs.

Theorem C13_parse_std_never_other : forall C, table_ok (tab C) = true ->
  frozen C = false \/ auto_preds C = false ->
  forall O P i k, fst (parse_std_opts C O P i) <> OErr k.
Proof. exact parse_std_never_other. Qed.
Print Assumptions C13_parse_std_never_other.

Theorem C13_parse_std_wf : forall C, table_ok (tab C) = true ->
  forall O P i s P', store_ok P = true ->
  parse_std_opts C O P i = (OK s, P') ->
  wf_items s = true /\ closed s = true /\ nonvacuous s = true /\ norebind s = true /\
  arity_ok P' s = true.
Proof. exact parse_std_wf. Qed.
Print Assumptions C13_parse_std_wf.

Theorem C13_parse_std_pure : forall C O P hist i,
  run_history_std_opts C O P (hist ++ [i]) =
  (fst (run_history_std_opts C O P hist) ++ [fst (parse_std_opts C O (snd (run_history_std_opts C O P hist)) i)],
   snd (parse_std_opts C O (snd (run_history_std_opts C O P hist)) i)).
Proof. exact parse_std_pure. Qed.
Print Assumptions C13_parse_std_pure.
