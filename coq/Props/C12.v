(* C12 — sentences and arguments survive a write/parse round trip.
   Polish notation (Stage 1): statements about the executable models of
   PolishLexWriter (Lang/WritePolish.v) and PolishParser (Lang/ParsePolish.v), for EVERY
   sentence of the parsers' language; coq/gen/C12/Obl.v discharges the side condition
   `agree_b` on the parse table and the string table regenerated from /repo each run and
   instantiates the theorems; tools/c12.py ties both models to the implementation. *)
From Coq Require Import List Bool Arith NArith.
From PT Require Import Lang.PSyntax Lang.ParsePolish Lang.WritePolish Lang.RoundTrip.
Import ListNotations.

(* For every closed, non-vacuous, non-rebinding, arity-consistent sentence built from
   constructible items: the Polish ASCII writer renders it (no exception) and the Polish
   parser maps the rendering back to the same sentence — with the sentence's predicates
   declared and auto-declaration off, and with the empty store under auto-declaration
   (which then holds exactly the sentence's predicates). *)
Theorem C12_polish_roundtrip : forall T W, agree_b T W = true ->
  forall s, roundtrippable s = true ->
  exists w, write_polish W s = Some w /\
            parse_polish (cfg_of T false) (decls s) w = (OK s, decls s) /\
            parse_polish (cfg_of T true) [] w = (OK s, decls s).
Proof. exact polish_roundtrip. Qed.
Print Assumptions C12_polish_roundtrip.

(* Within Polish notation distinct sentences never render to the same string. *)
Theorem C12_write_polish_injective : forall T W, agree_b T W = true ->
  forall s1 s2 w, roundtrippable s1 = true -> roundtrippable s2 = true ->
  write_polish W s1 = Some w -> write_polish W s2 = Some w -> s1 = s2.
Proof. exact write_polish_injective. Qed.
Print Assumptions C12_write_polish_injective.

(* non-vacuity: a concrete sentence with every feature meets the hypothesis *)
Example C12_roundtrippable_example :
  roundtrippable
    (Bin Conjunction
       (Quant Existential (0, 12%N)
          (Un Negation (Pred (PUser 0 3%N 2) [Var 0 12%N; Const 1 0%N])))
       (Bin Biconditional (Pred (PSys Identity) [Const 0 0%N; Const 3 7%N])
                          (Quant Universal (0, 12%N) (Pred (PUser 0 3%N 2) [Var 0 12%N; Var 0 12%N]))))
  = true.
Proof. vm_compute. reflexivity. Qed.

(* The canonical argument string (':'-joined Polish renderings, conclusion first) rebuilds
   an equal argument: from_argstr parses the pieces in order with one auto-declaring parser.
   argument_ok: non-empty, every sentence in the language, jointly arity-consistent. *)
From PT Require Import Lang.ArgStr.
Theorem C12_argstr_roundtrip : forall T W, agree_b T W = true -> tlookup T colon = None ->
  forall ss, argument_ok ss = true ->
  exists w, argstr W ss = Some w /\ from_argstr T w = OK ss.
Proof. intros T W H. exact (argstr_roundtrip T W (agree_b_sound T W H)). Qed.
Print Assumptions C12_argstr_roundtrip.

(* Whitespace: both parsers ignore whitespace characters entirely — the outcome (sentence or
   error class) and the store after parsing i equal those of parsing i with every whitespace
   character removed.  (Standard notation: incl. paren scan-ahead positions and the
   drop_parens retry; the wrapping parenthesis characters must not be whitespace.) *)
From PT Require Import Lang.ParsePolishProofs Lang.ParseStd Lang.Whitespace Lang.WhitespaceStd.
Theorem C12_parse_polish_ws : forall C, table_ok (tab C) = true ->
  frozen C = false \/ auto_preds C = false ->
  forall P i, parse_polish C P i = parse_polish C P (strip (tab C) i).
Proof. exact parse_polish_ws. Qed.
Print Assumptions C12_parse_polish_ws.

Theorem C12_parse_std_ws : forall C, table_ok (tab C) = true ->
  frozen C = false \/ auto_preds C = false ->
  forall O P i, is_ws (tab C) (popen O) = false -> is_ws (tab C) (pclose O) = false ->
  parse_std_opts C O P i = parse_std_opts C O P (strip (tab C) i).
Proof. exact parse_std_ws. Qed.
Print Assumptions C12_parse_std_ws.

(* Standard notation: every well-formed infix string denotes its sentence.  `Rtop W po pc s w`
   holds for ALL whitespace-free renderings w of s over the alphabet W (the reverse of the
   standard parse table): every predication of arity >= 2 infix or prefix, binary operations
   parenthesised, the outermost parentheses kept or dropped; d is any string that becomes w when
   its whitespace characters are removed (arbitrary extra whitespace, anywhere). *)
From PT Require Import Lang.StdDenotes.
Theorem C12_standard_denotes : forall T W O, table_ok T = true -> agree_b T W = true ->
  tlookup T (popen O) = Some IParenOpen -> tlookup T (pclose O) = Some IParenClose ->
  drop_parens O = true ->
  forall s w d, roundtrippable s = true -> Rtop W (popen O) (pclose O) s w -> strip T d = w ->
  parse_std_opts (cfg_of T false) O (decls s) d = (OK s, decls s) /\
  parse_std_opts (cfg_of T true) O [] d = (OK s, decls s).
Proof. exact std_denotes_lang. Qed.
Print Assumptions C12_standard_denotes.

(* Standard notation, writer then parser.  For every sentence of the parsers' language that is
   "plain" (no negated identity, which the writer renders with a symbol the parser does not have,
   and no Existence predication, whose written symbol differs from the parser's), the model of
   StandardLexWriter (default options) renders it and the standard parser maps the rendering back
   to the same sentence; e is the parser's character for Existence, which plain sentences never
   consult (patch_exist replaces only that entry).  Hence, within standard notation over such a
   table, distinct plain sentences never render to the same string. *)
From PT Require Import Lang.WriteStd Lang.StdRoundTrip.
Theorem C12_standard_roundtrip_plain : forall T S O e, table_ok T = true ->
  std_agree_b T (patch_exist S e) O = true ->
  forall s, roundtrippable s = true -> std_plain s = true ->
  exists w, write_std S s = Some w /\
            parse_std_opts (cfg_of T false) O (decls s) w = (OK s, decls s) /\
            parse_std_opts (cfg_of T true) O [] w = (OK s, decls s).
Proof. exact std_roundtrip_plain. Qed.
Print Assumptions C12_standard_roundtrip_plain.

Theorem C12_write_standard_injective_plain : forall T S O e, table_ok T = true ->
  std_agree_b T (patch_exist S e) O = true ->
  forall s1 s2 w, roundtrippable s1 = true -> std_plain s1 = true ->
  roundtrippable s2 = true -> std_plain s2 = true ->
  write_std S s1 = Some w -> write_std S s2 = Some w -> s1 = s2.
Proof. exact write_std_injective_plain. Qed.
Print Assumptions C12_write_standard_injective_plain.

(* non-vacuity: the example sentence above is plain *)
Example C12_std_plain_example :
  std_plain
    (Bin Conjunction
       (Quant Existential (0, 12%N)
          (Un Negation (Pred (PUser 0 3%N 2) [Var 0 12%N; Const 1 0%N])))
       (Bin Biconditional (Pred (PSys Identity) [Const 0 0%N; Const 3 7%N])
                          (Quant Universal (0, 12%N) (Pred (PUser 0 3%N 2) [Var 0 12%N; Var 0 12%N]))))
  = true.
Proof. vm_compute. reflexivity. Qed.

(* ... and for EVERY option combination OW of StandardLexWriter (drop_parens, identity_infix,
   max_infix: Lang/WriteStd.v write_stdo).  negid_ok OW s: s has no negated identity, or
   identity_infix is off (the `a != b` form is then not produced). *)
Theorem C12_standard_roundtrip_opts : forall T S O OW e, table_ok T = true ->
  std_agree_b T (patch_exist S e) O = true ->
  forall s, roundtrippable s = true -> negid_ok OW s = true -> no_exist s = true ->
  exists w, write_stdo OW S s = Some w /\
            parse_std_opts (cfg_of T false) O (decls s) w = (OK s, decls s) /\
            parse_std_opts (cfg_of T true) O [] w = (OK s, decls s).
Proof. exact std_roundtrip_opts_plain. Qed.
Print Assumptions C12_standard_roundtrip_opts.

Theorem C12_write_standard_injective_opts : forall T S O OW e, table_ok T = true ->
  std_agree_b T (patch_exist S e) O = true ->
  forall s1 s2 w, roundtrippable s1 = true -> negid_ok OW s1 = true -> no_exist s1 = true ->
  roundtrippable s2 = true -> negid_ok OW s2 = true -> no_exist s2 = true ->
  write_stdo OW S s1 = Some w -> write_stdo OW S s2 = Some w -> s1 = s2.
Proof. exact write_stdo_injective_plain. Qed.
Print Assumptions C12_write_standard_injective_opts.

(* the default options are the writer of C12_standard_roundtrip_plain *)
Theorem C12_write_stdo_default : forall S s, write_stdo wopts_default S s = write_std S s.
Proof. exact write_stdo_default. Qed.
Print Assumptions C12_write_stdo_default.

(* non-vacuity: with identity_infix off a negated identity inside an infixed ternary context is covered *)
Example C12_negid_ok_example :
  negid_ok {| wo_drop := false; wo_idinfix := false; wo_maxinfix := 4 |}
    (Bin Conjunction (Un Negation (Pred (PSys Identity) [Const 0 0%N; Const 1 0%N]))
                     (Pred (PUser 1 0%N 3) [Const 0 0%N; Const 1 0%N; Const 2 0%N])) = true.
Proof. vm_compute. reflexivity. Qed.

(* Injectivity of the Polish writer over ANY string table whose token renderings are uniquely
   decodable (code_ok W, Lang/Transfer.v: every symbol non-empty, distinct symbols prefix-
   incomparable, non-empty subscript delimiters, the closing one not starting with a digit, no
   symbol comparable with the opening one) - multi-character symbols allowed; by transfer from a
   reference table W0 that a parse table reads back (Polish ASCII). *)
From PT Require Import Lang.Transfer.
Theorem C12_write_polish_injective_code : forall T W0 W, agree_b T W0 = true -> code_ok W = true ->
  forall s1 s2 w, roundtrippable s1 = true -> roundtrippable s2 = true ->
  write_polish W s1 = Some w -> write_polish W s2 = Some w -> s1 = s2.
Proof. exact write_polish_injective_code. Qed.
Print Assumptions C12_write_polish_injective_code.
