(* C06 — new constants and new worlds are always fresh.
   Model: coq/theories/Tab/Branch.v (Branch.append/copy/new_constant/new_world,
   Constant.next and the order max() uses, Node.for_mapping); `maxi` is
   LexType.maxi of Constant, arbitrary here and re-read from /repo per run.
   A "sentence on the branch" is the sentence of a node the engine classifies as
   a SentenceNode; a "world on the branch" a world of a Modal node. *)
From Coq Require Import List Bool Arith.
From PT Require Import Tab.Branch Tab.BranchProofs.
Import ListNotations.

(* one branch, every append history *)
Theorem C06_fresh : forall maxi h, let b := fold_left (append maxi) h empty in
  ~ In (b_nextc b) (b_consts b) /\
  (forall w, In w (b_worlds b) -> w < b_nextw b) /\
  (forall n c, In n (b_nodes b) -> In c (seen_consts n) -> c <> b_nextc b) /\
  (forall n w, In n (b_nodes b) -> In w (seen_worlds n) -> w < b_nextw b).
Proof.
  intros maxi h b. destruct (Inv_history maxi h) as [Ic Iw Inc Inw _]. fold b in Ic, Iw, Inc, Inw.
  repeat split; [exact Inc|exact Inw| |].
  - intros n c Hn Hc E. apply Inc. rewrite <- E. apply Ic. exists n. auto.
  - intros n w Hn Hw. apply Inw, Iw. exists n. auto.
Qed.
Print Assumptions C06_fresh.

(* every branch object reachable by any interleaving of appends and copies *)
Theorem C06_fresh_heap : forall maxi ops b, In b (run maxi ops) ->
  ~ In (b_nextc b) (b_consts b) /\
  (forall w, In w (b_worlds b) -> w < b_nextw b) /\
  (forall c, In c (b_consts b) <-> const_on c b) /\
  (forall w, In w (b_worlds b) <-> world_on w b).
Proof.
  intros maxi ops b Hb. pose proof (Forall_run maxi ops) as F. rewrite Forall_forall in F.
  destruct (F b Hb) as [Ic Iw Inc Inw _]. auto.
Qed.
Print Assumptions C06_fresh_heap.

(* a rule that takes new_constant() / new_world() as its witness therefore introduces an item that
   occurs in no sentence node / modal node of the branch it is applied to (whatever the history);
   that the witness rules do take it from there is observed on real tableaux by the correspondence *)
Theorem C06_witness_fresh : forall maxi ops b, In b (run maxi ops) ->
  ~ const_on (b_nextc b) b /\ ~ world_on (b_nextw b) b.
Proof.
  intros maxi ops b Hb. destruct (C06_fresh_heap maxi ops b Hb) as (Nc & Nw & Ic & Iw). split.
  - intro H. apply Nc, Ic, H.
  - intro H. apply Iw in H. apply Nw in H. exact (Nat.lt_irrefl _ H).
Qed.
Print Assumptions C06_witness_fresh.

(* copies: the copy starts equal to its source; afterwards any sequence of
   operations that does not append to branch j leaves branch j exactly as it
   was (all four observables), whichever of the two j is *)
Theorem C06_copy_independent : forall maxi H i b,
  nth_error H i = Some b ->
  let H' := step maxi H (Copy i) in
  nth_error H' (length H) = Some b /\ nth_error H' i = Some b /\
  forall ops j, j < length H' -> forallb (fun o => negb (touches j o)) ops = true ->
    nth_error (fold_left (step maxi) ops H') j = nth_error H' j.
Proof.
  intros maxi H i b E H'. destruct (step_copy maxi H i b E) as [A B].
  repeat split; [exact A|exact B|]. intros ops j L T. apply steps_frame; assumption.
Qed.
Print Assumptions C06_copy_independent.

(* the theorem discriminates: the pre-41122ed append violates it on [Fb; Ga] *)
Theorem C06_old_refuted : exists h, let b := fold_left (append_old 3) h empty in In (b_nextc b) (b_consts b).
Proof. exact old_append_not_fresh. Qed.
Print Assumptions C06_old_refuted.

(* read literally over every mapping with a 'sentence' key the claim fails for
   mappings that Node.for_mapping classifies as flag/access nodes *)
Theorem C06_any_sentence_key_refuted :
  exists n, let b := append 3 empty n in exists c, In c (sent_consts n) /\ c = b_nextc b.
Proof. exact any_sentence_key_refuted. Qed.
Print Assumptions C06_any_sentence_key_refuted.
