(* C11 — declared logic extensions preserve validity. *)
From Coq Require Import List Bool.
From PT Require Import Sem.Values Sem.Syntax Sem.Model Sem.Extend Tab.Node Tab.PropTab Tab.PropSound
  Tab.FullTab Tab.FullSound Tab.Meta.
Import ListNotations.

(* L extends L' (sub_sem, frame_sub decided by the kernel on regenerated data): what L' proves has no countermodel in L *)
Theorem C11_general : forall L L', fsound_ok L' -> (fl_hd L' = false -> neg_flips_t (s_t (fl_S L')) = true) ->
  sub_sem (fl_S L) (fl_S L') = true -> frame_sub L L' = true ->
  forall t prems concl,
    forallb (interp (fl_S L')) (concl :: prems) = true ->    (* the argument is in L''s vocabulary *)
    gcheck L' t (trunk (fl_hd L') 0 prems concl) [] = true -> gall_closed t = true ->
    forall M, model_ok L M -> forall u, ~ fcountermodel (fl_S L) M u prems concl.
Proof. exact extension_sound. Qed.
Print Assumptions C11_general.

(* evaluation in the weaker logic coincides with evaluation in the extension on the extension's models *)
Theorem C11_same_evaluation : forall S S' M, sub_sem S S' = true -> model_wf S M ->
  forall s, interp S' s = true -> forall w env, eval S' M w env s = eval S M w env s.
Proof. exact eval_sub. Qed.
Print Assumptions C11_same_evaluation.
