(* C14 — lexical items have value semantics.
   Model: Lang/Lex.v (sort tuples, orderitems, comparisons, hash, arguments)
   and Lang/Cache.v (metacall + DequeCache as a state machine).  The rank /
   order tables are a parameter T : lextab; coq/gen/C14/Tab.v instantiates it
   from /repo on every run and proves tab_ok there. *)
From Coq Require Import List Bool ZArith NArith.
From PT Require Import Sem.Values Lang.Syntax Lang.Lex Lang.LexProofs Lang.Cache Lang.CacheProofs
  Lang.CacheSound.
Import ListNotations.
Open Scope Z_scope.

(* == / cmp is structural identity on well-formed items: the flattened sort
   tuples are a self-delimiting code, so zero padding identifies nothing. *)
Theorem C14_cmp_eq_iff : forall T, tab_ok T = true -> forall a b,
  wf_item a = true -> wf_item b = true -> (cmp T a b = Eq <-> a = b).
Proof. exact cmp_eq_iff. Qed.
Print Assumptions C14_cmp_eq_iff.

Theorem C14_eq_iff : forall T, tab_ok T = true -> forall a b,
  wf_item a = true -> wf_item b = true -> (eq T a b = true <-> a = b).
Proof. exact eq_iff. Qed.
Print Assumptions C14_eq_iff.

Theorem C14_sort_tuple_self_delimiting : forall T, tab_ok T = true -> forall a b r1 r2,
  wf_item a = true -> wf_item b = true ->
  sort_tuple T a ++ r1 = sort_tuple T b ++ r2 -> a = b /\ r1 = r2.
Proof. exact sort_tuple_inj. Qed.
Print Assumptions C14_sort_tuple_self_delimiting.

Theorem C14_cmp_antisym : forall T a b, cmp T b a = CompOpp (cmp T a b).
Proof. exact cmp_antisym. Qed.
Print Assumptions C14_cmp_antisym.

Theorem C14_lt_trans : forall T a b c, lt T a b = true -> lt T b c = true -> lt T a c = true.
Proof. exact lt_trans. Qed.
Print Assumptions C14_lt_trans.
Theorem C14_le_trans : forall T a b c, le T a b = true -> le T b c = true -> le T a c = true.
Proof. exact le_trans. Qed.
Print Assumptions C14_le_trans.
Theorem C14_eq_trans : forall T a b c, eq T a b = true -> eq T b c = true -> eq T a c = true.
Proof. exact eq_trans. Qed.
Print Assumptions C14_eq_trans.

(* one total order, consistent with == *)
Theorem C14_cmp_total : forall T a b,
  (le T a b = true \/ le T b a = true) /\
  lt T a b = negb (le T b a) /\
  gt T a b = lt T b a /\ ge T a b = le T b a /\
  eq T a b = le T a b && le T b a /\
  lt T a b = le T a b && negb (eq T a b).
Proof. exact cmp_total. Qed.
Print Assumptions C14_cmp_total.

Theorem C14_rank_first : forall T a b, rank T a < rank T b -> lt T a b = true.
Proof. exact rank_first. Qed.
Print Assumptions C14_rank_first.

Theorem C14_hash_respects : forall T, tab_ok T = true -> forall H a b,
  wf_item a = true -> wf_item b = true -> eq T a b = true -> hashitem T H a = hashitem T H b.
Proof. exact hash_respects. Qed.
Print Assumptions C14_hash_respects.

(* arguments: length first, then conclusion and premises in order *)
Theorem C14_arg_eq_iff : forall T, tab_ok T = true -> forall a b,
  wf_arg a = true -> wf_arg b = true -> (ord_arg T a b = 0 <-> a_seq a = a_seq b).
Proof. exact arg_eq_iff. Qed.
Print Assumptions C14_arg_eq_iff.
Theorem C14_arg_antisym : forall T a b, ord_arg T b a = - ord_arg T a b.
Proof. exact arg_antisym. Qed.
Print Assumptions C14_arg_antisym.
Theorem C14_arg_trans : forall T a b c, ord_arg T a b <= 0 -> ord_arg T b c <= 0 ->
  ord_arg T a c <= 0 /\ (ord_arg T a b < 0 \/ ord_arg T b c < 0 -> ord_arg T a c < 0).
Proof. exact arg_trans. Qed.
Print Assumptions C14_arg_trans.
Theorem C14_arg_length_first : forall T a b,
  (length (a_seq a) < length (a_seq b))%nat -> ord_arg T a b < 0.
Proof. exact arg_length_first. Qed.
Print Assumptions C14_arg_length_first.
Theorem C14_arg_hash_respects : forall T H HT a b,
  a_seq a = a_seq b -> hash_arg T H HT a = hash_arg T H HT b.
Proof. exact arg_hash_respects. Qed.
Print Assumptions C14_arg_hash_respects.

(* ---- the construction cache (current code: /repo 581cf1c) ----
   Histories are lists of constructor calls on Python-like argument values;
   [hist_wf]/[args_wf] only say that instance arguments are well-formed items
   (every Python instance is).  Fuel is a device of the model: with
   fuel >= size of the arguments + 2 no call starves. *)
Theorem C14_cache_transparent : forall ml fuel h o,
  hist_wf h = true -> args_wf (snd o) = true -> (pvsizes (snd o) + 2 <= fuel)%nat ->
  let st := snd (run fuel (cached ml) h empty) in
  let r := fst (call fuel (cached ml) (fst o) (snd o) st) in
  r <> Fuel /\ r = build0 fuel (fst o) (snd o) /\ Den (fst o) (snd o) r.
Proof. exact cache_transparent_total. Qed.
Print Assumptions C14_cache_transparent.

(* hits return items equal to what a miss would build *)
Theorem C14_cache_hit_sound : forall ml fuel h K args v, hist_wf h = true ->
  lookup (cached ml) (snd (run fuel (cached ml) h empty)) (cls_name K, args) = Some v ->
  wf_item v = true /\ Den K args (OK v).
Proof. exact cache_hit_sound. Qed.
Print Assumptions C14_cache_hit_sound.

(* rebuild: construct_cls (spec i) = OK i and construct (ident i) = OK i for
   every well-formed item, system predicates included *)
Theorem C14_rebuild : forall a fuel, wf_item a = true ->
  ((pvsizes (spec_args a) + 2 <= fuel)%nat -> rebuild_spec fuel a = OK a) /\
  ((pvsizes [ident_pv a] + 2 <= fuel)%nat -> rebuild_ident fuel a = OK a).
Proof. exact rebuild_total. Qed.
Print Assumptions C14_rebuild.

Theorem C14_rebuild_cached : forall ml fuel h a, hist_wf h = true -> wf_item a = true ->
  let st := snd (run fuel (cached ml) h empty) in
  ((pvsizes (spec_args a) + 2 <= fuel)%nat ->
     fst (call fuel (cached ml) (item_cls a) (spec_args a) st) = OK a) /\
  ((pvsizes [ident_pv a] + 2 <= fuel)%nat ->
     fst (call fuel (cached ml) CLexicalAbc [ident_pv a] st) = OK a).
Proof. exact rebuild_cached_total. Qed.
Print Assumptions C14_rebuild_cached.

(* ---- the code before the repair (sysfix := false): the same statements are
   refuted, i.e. the theorems above discriminate ---- *)
Theorem C14_old_cache_transparent_refuted : ~ cache_transparent_old.
Proof. exact cache_transparent_old_refuted. Qed.
Print Assumptions C14_old_cache_transparent_refuted.
Theorem C14_old_cache_visible_every_maxlen : forall ml, (1 <= ml)%nat ->
  transparent_old_b 20 ml [w_make] w_rebuild = false /\
  transparent_old_b 20 ml [w_make] w_rebuild_spec_old = false.
Proof. exact cache_visible_every_maxlen_old. Qed.
Print Assumptions C14_old_cache_visible_every_maxlen.
Theorem C14_old_rebuild_refuted : ~ rebuild_ok_old.
Proof. exact rebuild_old_refuted. Qed.
Print Assumptions C14_old_rebuild_refuted.
