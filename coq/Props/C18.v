(* C18 — ordered-set containers (placeholder while the proofs are being ported) *)
From Coq Require Import List Bool ZArith.
From PT Require Import Cont.Common Cont.Spec Cont.Qset Cont.Linqset Cont.Predicates Cont.Run.
Import ListNotations.

Theorem C18_linqset_setitem_witness :
  final_l false [0;1;2] [] [OExtend [0;1]; OSetIdx 0%Z 2] <> final_s [0;1;2] [] [OExtend [0;1]; OSetIdx 0%Z 2].
Proof. vm_compute. discriminate. Qed.
Print Assumptions C18_linqset_setitem_witness.
