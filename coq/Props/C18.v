(* C18 — ordered-set containers stay a set and a sequence at once.

   Models: coq/theories/Cont/{Qset,Linqset,Predicates}.v (the concrete
   representations, method by method); specification: Cont/Spec.v (a plain list
   without duplicates; for the predicate store additionally the admission
   check `pconf`).  `fixed`/`pfixed` = false is the code as it is, true the
   repaired variant of fixes/c18-*.diff.  `q_op_ok`/`l_op_ok` admit every
   operation of the menu except: slice assignment (qset, Predicates) resp. item
   and slice assignment (linqset) in the current variant — these are REFUTED
   below — and the methods a kind does not have (qset.wedge, linqset.sort). *)
From Coq Require Import List Bool ZArith.
From PT Require Import Cont.Common Cont.Spec Cont.Qset Cont.Linqset Cont.Predicates
  Cont.QsetProofs Cont.QsetInst Cont.LinqsetProofs Cont.PredicatesProofs Cont.PredicatesInst.
Import ListNotations.

(* ---- qset ---- *)
Theorem C18_qset_refines : forall fixed o st,
  q_op_ok fixed true o = true -> QInv st ->
  QInv (fst (qs_run fixed o st))
  /\ q_seq (fst (qs_run fixed o st)) = fst (s_run no_conf o (q_seq st))
  /\ snd (qs_run fixed o st) = snd (s_run no_conf o (q_seq st)).
Proof. exact qs_run_refines. Qed.
Print Assumptions C18_qset_refines.

Theorem C18_qset_sequences : forall fixed ops st,
  forallb (q_op_ok fixed true) ops = true -> QInv st ->
  QInv (fst (exec (qs_run fixed) ops st))
  /\ q_seq (fst (exec (qs_run fixed) ops st)) = fst (exec (s_run no_conf) ops (q_seq st))
  /\ snd (exec (qs_run fixed) ops st) = snd (exec (s_run no_conf) ops (q_seq st)).
Proof. exact qs_exec_refines. Qed.
Print Assumptions C18_qset_sequences.

Theorem C18_qset_setslice_refuted :
  exists st idxs vs, QInv st /\ ~ NoDup (q_seq (fst (qs_run false (OSetSlice idxs vs) st))).
Proof. exact qs_setslice_refuted. Qed.
Print Assumptions C18_qset_setslice_refuted.

(* ---- linqset ---- *)
Theorem C18_linqset_refines : forall fixed o st,
  l_op_ok fixed o = true -> LInv st ->
  LInv (fst (l_run fixed o st))
  /\ l_chain (fst (l_run fixed o st)) = fst (s_run no_conf o (l_chain st))
  /\ snd (l_run fixed o st) = snd (s_run no_conf o (l_chain st)).
Proof. exact l_run_refines. Qed.
Print Assumptions C18_linqset_refines.

Theorem C18_linqset_sequences : forall fixed ops st,
  forallb (l_op_ok fixed) ops = true -> LInv st ->
  LInv (fst (exec (l_run fixed) ops st))
  /\ l_chain (fst (exec (l_run fixed) ops st)) = fst (exec (s_run no_conf) ops (l_chain st))
  /\ snd (exec (l_run fixed) ops st) = snd (exec (s_run no_conf) ops (l_chain st)).
Proof. exact l_exec_refines. Qed.
Print Assumptions C18_linqset_sequences.

Theorem C18_linqset_setitem_refuted :
  (exists st i v, LInv st /\
     let st' := fst (l_run false (OSetIdx i v) st) in
     ~ LInv st' /\ l_contains st' v = false /\ mem v (l_chain st') = true)
  /\ (exists st idxs vs, LInv st /\
     let st' := fst (l_run false (OSetSlice idxs vs) st) in ~ NoDup (l_chain st')).
Proof. exact l_setitem_refuted. Qed.
Print Assumptions C18_linqset_setitem_refuted.

(* ---- Predicates (for every symbol function bi) ---- *)
Theorem C18_predicates_refines : forall bi pfixed fixed o st,
  q_op_ok fixed pfixed o = true -> PInv bi st ->
  PInv bi (fst (ps_run bi pfixed fixed o st))
  /\ q_seq (fst (ps_run bi pfixed fixed o st)) = fst (s_run (pconf bi) o (q_seq st))
  /\ snd (ps_run bi pfixed fixed o st) = snd (s_run (pconf bi) o (q_seq st)).
Proof. exact ps_run_refines. Qed.
Print Assumptions C18_predicates_refines.

Theorem C18_predicates_sequences : forall bi pfixed fixed ops st,
  forallb (q_op_ok fixed pfixed) ops = true -> PInv bi st ->
  PInv bi (fst (exec (ps_run bi pfixed fixed) ops st))
  /\ q_seq (fst (exec (ps_run bi pfixed fixed) ops st)) = fst (exec (s_run (pconf bi)) ops (q_seq st))
  /\ snd (exec (ps_run bi pfixed fixed) ops st) = snd (exec (s_run (pconf bi)) ops (q_seq st)).
Proof. exact ps_exec_refines. Qed.
Print Assumptions C18_predicates_sequences.

Theorem C18_predicates_no_conflict : forall bi pfixed fixed ops,
  forallb (q_op_ok fixed pfixed) ops = true ->
  let st := fst (exec (ps_run bi pfixed fixed) ops ps_init) in
  forall p q, In p (q_seq st) -> In q (q_seq st) -> bi p = bi q -> p = q.
Proof. exact predicates_no_conflict. Qed.
Print Assumptions C18_predicates_no_conflict.

Theorem C18_predicates_lookup_total : forall bi pfixed fixed ops,
  forallb (q_op_ok fixed pfixed) ops = true ->
  let st := fst (exec (ps_run bi pfixed fixed) ops ps_init) in
  (forall p r, In p (q_seq st) -> In r (keys bi p) -> p_get r st = Some p)
  /\ (forall r p, p_get r st = Some p -> In p (q_seq st) /\ In r (keys bi p)).
Proof. exact predicates_lookup_total. Qed.
Print Assumptions C18_predicates_lookup_total.

Theorem C18_predicates_setslice_refuted :
  exists st idxs vs, PInv Nat.div2 st /\
    let st' := fst (ps_run Nat.div2 false false (OSetSlice idxs vs) st) in
    ~ PSOK Nat.div2 (q_seq st').
Proof. exact ps_setslice_refuted. Qed.
Print Assumptions C18_predicates_setslice_refuted.

(* ---- observations and failed operations ---- *)
Theorem C18_observations_agree :
  (forall st v i, QInv st ->
     q_contains plain_hooks st v = mem v (q_seq st)
     /\ q_index plain_hooks v st = s_index v (q_seq st) /\ q_get i st = s_get i (q_seq st))
  /\ (forall st v i, LInv st ->
     l_len st = length (l_chain st) /\ l_contains st v = mem v (l_chain st)
     /\ l_index v st = s_index v (l_chain st) /\ l_get i st = s_get i (l_chain st)).
Proof. split; [exact qs_observations_agree|exact l_observations_agree]. Qed.
Print Assumptions C18_observations_agree.

Theorem C18_failed_single_op_is_noop :
  (forall X (H : hooks X) fixed o st e,
     single_op o = true -> snd (q_run H fixed o st) = Some e -> fst (q_run H fixed o st) = st)
  /\ (forall fixed o st e, LInv st ->
     single_op o = true -> snd (l_run fixed o st) = Some e -> fst (l_run fixed o st) = st).
Proof. split; [exact @q_failed_single_op_is_noop|exact l_failed_single_op_is_noop]. Qed.
Print Assumptions C18_failed_single_op_is_noop.
