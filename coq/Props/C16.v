(* C16 — a tableau's bookkeeping is consistent at every step.
   Model: Tab/Book.v (state machine of the observable bookkeeping, effects
   Trunk/Apply/Close/Finish in the order AdzHelper._apply / ClosingRule._apply /
   Tableau.__listen_on perform them) and Tab/Tree.v (Tableau.Tree._build).
   `run init es = Some st` = "es is a sequence of effects the step function accepts"
   (target taken from the open view, no empty group while forking, nothing after
   finish); the correspondence run checks that every real step is such an effect. *)
From Coq Require Import List Sorted Permutation.
Import ListNotations.
From PT Require Import Tab.Tree Tab.TreeProofs Tab.Book Tab.BookProofs.

Theorem C16_book_inv : forall es st, run init es = Some st -> inv st.
Proof. exact book_inv. Qed.
Print Assumptions C16_book_inv.

Theorem C16_growth : forall es2 es1 st1 st2 i b, run init es1 = Some st1 -> run st1 es2 = Some st2 ->
  nth_error (k_brs st1) i = Some b ->
  exists b', nth_error (k_brs st2) i = Some b' /\ (exists g, ids b' = ids b ++ g) /\ (b_closed b = true -> b' = b).
Proof. exact run_growth. Qed.
Print Assumptions C16_growth.

Theorem C16_closed_never_extended : forall st e st' i b, inv st -> step st e = Some st' ->
  nth_error (k_brs st) i = Some b ->
  exists b', nth_error (k_brs st') i = Some b' /\ (exists g, ids b' = ids b ++ g) /\ (b_closed b = true -> b' = b).
Proof. exact step_growth. Qed.
Print Assumptions C16_closed_never_extended.

Theorem C16_open_view : forall es st, run init es = Some st ->
  (forall i, In i (k_open st) <-> exists b, nth_error (k_brs st) i = Some b /\ b_closed b = false) /\
  StronglySorted lt (k_open st).
Proof. exact open_view_spec. Qed.
Print Assumptions C16_open_view.

Theorem C16_fork_extends_parent : forall st e st' j f, inv st -> step st e = Some st' ->
  length (k_brs st) <= j -> nth_error (k_brs st') j = Some f ->
  (exists n, e = Trunk n /\ j = 0 /\ b_parent f = None /\ ids f = seq (k_next st) n) \/
  (exists oi sizes tick bi b g, e = Apply oi sizes tick /\ nth_error (k_open st) oi = Some bi /\
     nth_error (k_brs st) bi = Some b /\ b_closed b = false /\ b_parent f = Some bi /\
     g <> [] /\ ids f = ids b ++ g /\ b_inh f = length (ids b) /\ b_added f = cur st).
Proof. exact step_forks. Qed.
Print Assumptions C16_fork_extends_parent.

Theorem C16_history : (forall st e st', step st e = Some st' ->
    k_hist st' = k_hist st ++ entry_of st e /\ cur st' = cur st + match e with Finish => 0 | _ => 1 end) /\
  (forall es st0 st, run st0 es = Some st -> length (k_hist st) = length (k_hist st0) + length (filter is_step es)).
Proof. split; [exact step_history | exact run_history_length]. Qed.
Print Assumptions C16_history.

Theorem C16_steps : forall es st, run init es = Some st -> steps_ok st.
Proof. exact run_steps. Qed.
Print Assumptions C16_steps.

Theorem C16_trunk : forall es n st, run init (Trunk n :: es) = Some st ->
  Forall (fun b => exists g, ids b = seq 0 n ++ g) (k_brs st) /\ k_brs st <> [].
Proof. exact run_trunk. Qed.
Print Assumptions C16_trunk.

Theorem C16_tree_precondition : forall st, inv st -> k_trunk st = true -> tree_okb (tree_input st) = true.
Proof. exact inv_tree_ok. Qed.
Print Assumptions C16_tree_precondition.

Theorem C16_tree_paths : forall accum bs, tree_okb bs = true ->
  exists t, make accum bs = Some t /\ Permutation (leaves t) (map proj bs).
Proof. exact tree_paths. Qed.
Print Assumptions C16_tree_paths.

Theorem C16_tree_counts : forall bs t, make true bs = Some t -> counts_ok t.
Proof. exact tree_counts. Qed.
Print Assumptions C16_tree_counts.

Theorem C16_tree_totals : forall bs t, tree_okb bs = true -> make true bs = Some t ->
  t_width t = length bs /\ t_snc t = t_dn t.
Proof. exact tree_totals. Qed.
Print Assumptions C16_tree_totals.

Theorem C16_prefix_counts_refuted :
  exists bs t, tree_okb bs = true /\ make false bs = Some t /\ t_dnc t <> r_desc t.
Proof. exact tree_counts_prefix_refuted. Qed.
Print Assumptions C16_prefix_counts_refuted.

Theorem C16_stats_agree : forall es st, run init es = Some st -> k_trunk st = true ->
  let s := compute_stats st in
  s_branches s = length (k_brs st) /\
  s_open s = length (filter (fun b => negb (b_closed b)) (k_brs st)) /\
  s_closed s = length (filter b_closed (k_brs st)) /\
  s_steps s = length (filter is_step es) /\
  exists t, tab_tree st = Some t /\ s_distinct s = Some (r_dn t) /\ t_width t = length (k_brs st) /\
            Permutation (leaves t) (map proj (tree_input st)).
Proof. exact stats_agree. Qed.
Print Assumptions C16_stats_agree.
