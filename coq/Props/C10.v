(* C10 — provability obeys the structural laws of a consequence relation. *)
From Coq Require Import List Bool.
From PT Require Import Sem.Values Sem.Syntax Sem.Model Sem.Closure Tab.Node Tab.PropTab Tab.PropSound
  Tab.FullTab Tab.FullSound Tab.Meta.
Import ListNotations.

(* reflexivity: the one-leaf closed certificate is accepted, i.e. the trunk itself matches a closure pattern *)
Theorem C10_reflexive : forall L prems concl, reflexive_ok (fl_hd L) (fl_ks L) = true ->
  In concl prems -> gcheck L GClosed (trunk (fl_hd L) 0 prems concl) [] = true /\ gall_closed GClosed = true.
Proof. exact trunk_closed_reflexive. Qed.
Print Assumptions C10_reflexive.

(* monotonicity: a valid argument has no countermodel after adding a premise *)
Theorem C10_monotone : forall L, fsound_ok L -> (fl_hd L = false -> neg_flips_t (s_t (fl_S L)) = true) ->
  forall t prems concl extra,
    gcheck L t (trunk (fl_hd L) 0 prems concl) [] = true -> gall_closed t = true ->
    forall M, model_ok L M -> forall u, ~ fcountermodel (fl_S L) M u (extra :: prems) concl.
Proof. exact monotone. Qed.
Print Assumptions C10_monotone.

(* renaming letters, predicates, constants (any maps fixing the system predicates) and bound
   variables (injectively): the renamed argument has no countermodel either *)
Theorem C10_rename : forall L, fsound_ok L -> (fl_hd L = false -> neg_flips_t (s_t (fl_S L)) = true) ->
  forall r, var_inj r -> pred_sys_fixed r ->
  forall t prems concl,
    gcheck L t (trunk (fl_hd L) 0 prems concl) [] = true -> gall_closed t = true ->
    forall M, model_ok L M -> forall u,
      ~ fcountermodel (fl_S L) M u (map (rename r) prems) (rename r concl).
Proof. exact rename_sound. Qed.
Print Assumptions C10_rename.

(* monotonicity over arbitrary (finite or infinite) structures *)
From PT Require Import Sem.AModel Tab.ASound.
Theorem C10_monotone_all_structures : forall L, fsound_ok L ->
  (fl_hd L = false -> neg_flips_t (s_t (fl_S L)) = true) ->
  forall t prems concl extra,
    gcheck L t (trunk (fl_hd L) 0 prems concl) [] = true -> gall_closed t = true ->
    forall (M : amodel (fl_S L)), amodel_ok L M -> forall u ce,
      ~ acountermodel (fl_S L) M u ce (extra :: prems) concl.
Proof.
  intros L OK Hn t prems concl extra Hck Hac M Hm u ce.
  apply (no_conflict_a L OK Hn t prems concl (extra :: prems) Hck Hac); [intros p Hp; right; exact Hp|exact Hm].
Qed.
Print Assumptions C10_monotone_all_structures.

(* renaming over arbitrary structures: names of constants and variables are permuted (the renaming
   comes with two-sided inverses), letters and predicates renamed by any maps fixing the system predicates *)
From PT Require Import Tab.ARename.
Theorem C10_rename_all_structures : forall L, fsound_ok L ->
  (fl_hd L = false -> neg_flips_t (s_t (fl_S L)) = true) ->
  forall R, pred_sys_fixed (pr R) ->
  forall t prems concl,
    gcheck L t (trunk (fl_hd L) 0 prems concl) [] = true -> gall_closed t = true ->
    forall (M : amodel (fl_S L)), amodel_ok L M -> forall u ce,
      ~ acountermodel (fl_S L) M u ce (map (rename (pr R)) prems) (rename (pr R) concl).
Proof. exact rename_sound_a. Qed.
Print Assumptions C10_rename_all_structures.
