(* C07 — each logic's truth tables are the documented ones.
   The generated instance (coq/gen/C07/Obl.v) supplies, for every registered
   logic, the table `code_L` extracted from the implementation and one
   vm_compute-decided obligation `c07_check code_L lit_L ob = None` per
   component; this theorem turns each into the universally quantified
   agreement over the logic's whole value set. *)
From Coq Require Import List.
From PT Require Import Sem.Values Sem.Lit Sem.TTCheck.

Theorem C07_component : forall c l ob, c07_check c l ob = None -> c07_holds c l ob.
Proof. exact c07_check_sound. Qed.
Print Assumptions C07_component.

Theorem C07_component_refuted : forall c l ob w, c07_check c l ob = Some w -> ~ c07_holds c l ob.
Proof. exact c07_check_refutes. Qed.
Print Assumptions C07_component_refuted.

Theorem C07_all : forall c l obs, c07_all c l obs = true -> Forall (c07_holds c l) obs.
Proof. exact c07_all_sound. Qed.
Print Assumptions C07_all.
