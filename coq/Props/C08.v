(* C08 — model evaluation is compositional and frame-correct. *)
From Coq Require Import List Bool Arith Relations.
From PT Require Import Sem.Values Sem.MSyntax Sem.LimitBest Sem.Access Sem.AccessProofs.
Import ListNotations.

(* (1) minfloor / maxceil with the early exit are the minimum / maximum whenever
   the limit bounds the values — for every list *)
Theorem C08_limit_best_is_fold :
  (forall floor xs d, (forall x, In x xs -> vleb floor x = true) -> minfloor floor xs d = vlist_min xs d) /\
  (forall ceil xs d, (forall x, In x xs -> vleb x ceil = true) -> maxceil ceil xs d = vlist_max xs d).
Proof. split; [exact minfloor_is_min | exact maxceil_is_max]. Qed.
Print Assumptions C08_limit_best_is_fold.
