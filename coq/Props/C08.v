(* C08 — model evaluation is compositional and frame-correct. *)
From Coq Require Import List Bool Arith Relations Permutation.
From PT Require Import Sem.Values Sem.MSyntax Sem.LimitBest Sem.Access Sem.AccessProofs
  Sem.PyModel Sem.Classical Sem.ClassicalFix Sem.ModelRun Sem.PyModelProofs Sem.OrderProofs
  Sem.CompleteProofs Sem.PyModelExamples.
Import ListNotations.

(* (1) minfloor / maxceil with the early exit = minimum / maximum whenever the
   limit bounds the values — for every list; and exactly what they return otherwise *)
Theorem C08_limit_best_is_fold :
  (forall floor xs d, (forall x, In x xs -> vleb floor x = true) -> minfloor floor xs d = vlist_min xs d) /\
  (forall ceil xs d, (forall x, In x xs -> vleb x ceil = true) -> maxceil ceil xs d = vlist_max xs d).
Proof. split; [exact minfloor_is_min | exact maxceil_is_max]. Qed.
Print Assumptions C08_limit_best_is_fold.

Theorem C08_limit_best_general :
  (forall floor x r d, minfloor floor (x :: r) d =
     match find (fun v => vleb v floor) r with Some v => v | None => vlist_min (x :: r) d end) /\
  (forall ceil x r d, maxceil ceil (x :: r) d =
     match find (fun v => vleb ceil v) r with Some v => v | None => vlist_max (x :: r) d end).
Proof. split; [exact minfloor_general | exact maxceil_general]. Qed.
Print Assumptions C08_limit_best_general.

Theorem C08_limit_best_unbounded_refuted :
  (exists floor xs d, minfloor floor xs d <> vlist_min xs d) /\
  (exists ceil xs d, maxceil ceil xs d <> vlist_max xs d).
Proof. split; [exact minfloor_unbounded_refuted | exact maxceil_unbounded_refuted]. Qed.
Print Assumptions C08_limit_best_unbounded_refuted.

(* (2) the enforce methods, for every finite relation *)
Theorem C08_reflexive_enforce a : acc_wf a ->
  let r := refl_enforce a in
  acc_wf r /\ (forall w, In w (aw r) <-> In w (aw a)) /\
  (forall x y, In (x, y) (ap r) <-> In (x, y) (ap a) \/ (x = y /\ In x (aw a))).
Proof. exact (refl_enforce_spec a). Qed.
Print Assumptions C08_reflexive_enforce.

Theorem C08_rt_enforce a : acc_wf a ->
  exists r, rt_enforce a = Some r /\ acc_wf r /\ (forall w, In w (aw r) <-> In w (aw a)) /\
    (forall x y, In (x, y) (ap r) <-> In x (aw a) /\ clos_refl_trans_1n nat (accR a) x y).
Proof. exact (rt_enforce_spec a). Qed.
Print Assumptions C08_rt_enforce.

Theorem C08_global_enforce a : acc_wf a ->
  exists r, global_enforce a = Some r /\ acc_wf r /\ (forall w, In w (aw r) <-> In w (aw a)) /\
    (forall x y, In (x, y) (ap r) <-> In x (aw a) /\ clos_refl_sym_trans nat (accR a) x y).
Proof. exact (global_enforce_spec a). Qed.
Print Assumptions C08_global_enforce.

(* S5's GlobalAccess yields the equivalence closure, NOT the universal relation *)
Theorem C08_global_not_universal :
  global_enforce (acc_touch acc_init 1) = Some {| aw := [0; 1]; ap := [(0, 0); (1, 1)] |}.
Proof. exact global_not_universal. Qed.
Print Assumptions C08_global_not_universal.

Theorem C08_serial_enforce a : acc_wf a ->
  let r := serial_enforce a in
  acc_wf r /\
  (forall w, In w (aw r) -> exists v, In (w, v) (ap r)) /\
  (forall w, In w (aw r) <-> In w (aw a) \/
     (w = S (list_max (aw a)) /\ exists d, In d (aw a) /\ dead_end a d = true)) /\
  (forall x y, In (x, y) (ap r) <-> In (x, y) (ap a) \/
     (exists d, In d (aw a) /\ dead_end a d = true) /\ y = S (list_max (aw a)) /\
     ((In x (aw a) /\ dead_end a x = true) \/ x = y)).
Proof. exact (serial_enforce_spec a). Qed.
Print Assumptions C08_serial_enforce.

Theorem C08_enforce_total a : acc_wf a -> forall k, exists r, enforce k a = Some r /\ acc_wf r.
Proof. exact (enforce_total a). Qed.
Print Assumptions C08_enforce_total.

(* (3) value_of as coded = the documented recursive semantics *)
Theorem C08_value_of_spec L : bounds_ok L = true ->
  forall st s w, s_finished st = true -> frame_ok L w = true ->
    denotes st [] s = true -> norebind s = true ->
    value_of L st s w = Val (eval L st [] s w).
Proof. intros HB st s w. exact (value_of_spec L st s w HB). Qed.
Print Assumptions C08_value_of_spec.

Theorem C08_value_of_no_fuel_exhaustion L st s w : value_of L st s w <> OutOfFuel.
Proof. exact (value_of_no_fuel_exhaustion L st s w). Qed.
Print Assumptions C08_value_of_no_fuel_exhaustion.

Theorem C08_value_of_rebind_refuted :
  exists L st s w,
    bounds_ok L = true /\ s_finished st = true /\ frame_ok L w = true /\ denotes st [] s = true /\
    norebind s = false /\ value_of L st s w <> Val (eval L st [] s w).
Proof. exact value_of_rebind_refuted. Qed.
Print Assumptions C08_value_of_rebind_refuted.

Theorem C08_value_of_order_independent L st st' s w :
  bounds_ok L = true ->
  (forall q, no_fold (ml_genq L q)) -> (forall o, no_fold (ml_genm L o)) ->
  same_up_to_order st st' ->
  s_finished st = true -> s_finished st' = true -> frame_ok L w = true ->
  denotes st [] s = true -> norebind s = true ->
  value_of L st s w = value_of L st' s w.
Proof. exact (value_of_order_independent L st st' s w). Qed.
Print Assumptions C08_value_of_order_independent.

Theorem C08_complete_frames_total L st st' :
  s_complete st = false -> complete_frames L st = Some st' ->
  (forall w, In w (s_fkeys st') <-> In w (s_fkeys st) \/ In w (aw (s_R st))) /\
  (forall w, In w (s_fkeys st') -> frame_ok L w = true) /\
  forall w, In w (s_fkeys st') ->
    (forall a, In a (known_atoms st) ->
       get_atom (s_atoms st') w a =
       Some (match get_atom (s_atoms st) w a with Some v => v | None => ml_unass L end)) /\
    (forall s, In s (known_opaques st) ->
       get_opaq (s_opaqs st') w s =
       Some (match get_opaq (s_opaqs st) w s with Some v => v | None => ml_unass L end)) /\
    (forall p, In p (known_preds st) -> In (w, p) (s_pkeys st')).
Proof. exact (complete_frames_total L st st'). Qed.
Print Assumptions C08_complete_frames_total.

(* (4) classical family.  `classical_finish` is REFUTED for cpl.Model.finish as it was coded
   before fix 08fe120 (run_old; kept as documentation of the old behaviour) *)
Theorem C08_classical_finish_old_refuted :
  exists os, forall cord, In cord [[0; 1]; [1; 0]] ->
    exists st, run_old ML_cfol cord all_pord os = Some st /\
               classical_okb st = false /\
               value_of ML_cfol st (SPred PIdentity [PC 0; PC 1]) 0 = Val VT /\
               value_of ML_cfol st (SPred PIdentity [PC 1; PC 0]) 0 = Val VF.
Proof. exact classical_finish_refuted. Qed.
Print Assumptions C08_classical_finish_old_refuted.

(* the completion loop of the current code, for every order of the constants and of the
   predicates: identity becomes an equivalence, every extension respects it, existence is universal *)
From PT Require Import Sem.ClassicalFixProofs.
Theorem C08_classical_completion cord pord st st' :
  tuples_ok st -> id_binary st ->
  (forall c, In c cord <-> In c (s_consts st)) -> pord_covers pord st ->
  cl_complete_fixed cord pord st = Some st' ->
  (forall w, In w (s_fkeys st) -> frame_classical st' w) /\
  s_fkeys st' = s_fkeys st /\ s_consts st' = s_consts st /\ tuples_ok st' /\ id_binary st'.
Proof. exact (classical_finish_repaired cord pord st st'). Qed.
Print Assumptions C08_classical_completion.

(* the state invariants hold after every history of API calls (op_ok: set_opaque_value only on
   sentences the logic treats as opaque; Identity predications are binary) *)
From PT Require Import Sem.ExportProofs Sem.ReachProofs.
Theorem C08_reachable_wf L os st :
  forallb (op_ok L) os = true -> apply_ops L init_state os = Some st -> inv L st.
Proof. exact (reachable_inv L os st). Qed.
Print Assumptions C08_reachable_wf.

(* finish() as coded now, every logic, every history: afterwards the worlds of R and the frame
   keys coincide (also for the world SerialAccess adds) and the state is well formed *)
Theorem C08_finish_frames L cord pord os st' :
  (ml_classical L = true -> val_ok L VT = true) -> forallb (op_ok L) os = true ->
  (forall st, apply_ops L init_state os = Some st -> forall c, In c cord -> In c (s_consts st)) ->
  run L cord pord os = Some st' ->
  (state_wfb L st' = true /\ acc_wf (s_R st') /\ s_finished st' = true /\
   (forall w, In w (aw (s_R st')) <-> In w (s_fkeys st'))) /\ tuples_ok st' /\ preds_fun st'.
Proof. exact (run_wf L cord pord os st'). Qed.
Print Assumptions C08_finish_frames.

(* finishing makes the access relation exactly the closure the logic requires *)
Theorem C08_finish_access_exact L cord pord st st' :
  (ml_classical L = true -> val_ok L VT = true) -> inv L st ->
  (forall c, In c cord -> In c (s_consts st)) -> finish L cord pord st = Some st' ->
  (ml_access L = AKAny -> forall x y, In (x, y) (ap (s_R st')) <-> In (x, y) (ap (s_R st))) /\
  (ml_access L = AKRefl -> forall x y, In (x, y) (ap (s_R st')) <->
     In (x, y) (ap (s_R st)) \/ (x = y /\ W0 st x)) /\
  (ml_access L = AKReflTrans -> forall x y, In (x, y) (ap (s_R st')) <->
     W0 st x /\ clos_refl_trans nat (accR (s_R st)) x y) /\
  (ml_access L = AKGlobal -> forall x y, In (x, y) (ap (s_R st')) <->
     W0 st x /\ clos_refl_sym_trans nat (accR (s_R st)) x y).
Proof. exact (finish_access_exact L cord pord st st'). Qed.
Print Assumptions C08_finish_access_exact.

Theorem C08_finish_serial_total L cord pord st st' :
  (ml_classical L = true -> val_ok L VT = true) -> inv L st ->
  (forall c, In c cord -> In c (s_consts st)) -> finish L cord pord st = Some st' ->
  ml_access L = AKSerial ->
  (forall w, In w (s_fkeys st') -> exists v, In (w, v) (ap (s_R st')) /\ In v (s_fkeys st')) /\
  (forall w, W0 st w -> In w (s_fkeys st')) /\
  (exists n, (forall w, W0 st w -> w < n) /\ forall w, In w (s_fkeys st') -> W0 st w \/ w = n) /\
  (forall x y, In (x, y) (ap (s_R st)) -> In (x, y) (ap (s_R st'))).
Proof. exact (finish_serial_total L cord pord st st'). Qed.
Print Assumptions C08_finish_serial_total.

(* classical_finish, positive, for cpl.Model.finish as coded now: every order, every state
   satisfying the API invariants / every history *)
Theorem C08_classical_finish L cord pord st st2 st' :
  ml_classical L = true -> val_ok L VT = true -> inv L st -> pre_complete L st = Some st2 ->
  (forall c, In c cord <-> In c (s_consts st)) -> pord_covers pord st2 ->
  finish L cord pord st = Some st' ->
  (forall w, In w (s_fkeys st') -> frame_classical st' w) /\ classical_okb st' = true /\
  finished_wf L st'.
Proof. exact (finish_classical L cord pord st st2 st'). Qed.
Print Assumptions C08_classical_finish.

Theorem C08_classical_finish_history L cord pord os st st2 st' :
  ml_classical L = true -> val_ok L VT = true -> forallb (op_ok L) os = true ->
  apply_ops L init_state os = Some st -> pre_complete L st = Some st2 ->
  (forall c, In c cord <-> In c (s_consts st)) -> pord_covers pord st2 ->
  run L cord pord os = Some st' ->
  (forall w, In w (s_fkeys st') -> frame_classical st' w) /\ classical_okb st' = true /\
  finished_wf L st'.
Proof. exact (run_classical_wf L cord pord os st st2 st'). Qed.
Print Assumptions C08_classical_finish_history.
