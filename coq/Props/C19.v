(* C19 — every finished tableau renders, deterministically and faithfully.
   Proved here: the TEXT writer's structure walk (Tab/Render.v, on the trees of the
   C16 Tree model) and string-table totality lifted to "writing never fails"
   (Tab/RenderLex.v).  Rendering without error / twice identically for html and
   latex, Jinja2 and the doctree translators are correspondence only. *)
From Coq Require Import List String Permutation.
Import ListNotations.
From PT Require Import Tab.Tree Tab.TreeProofs Tab.Render Tab.RenderLex.

(* the structure lines of the text rendering are the tree's structures in pre-order, each the
   template string of its nodes; every other line is a connector *)
Theorem C19_text_lines : forall tbl t pfx, bodies (wl tbl t pfx) = pre_sstr tbl t.
Proof. exact wl_bodies. Qed.
Print Assumptions C19_text_lines.

Theorem C19_text_paths : forall tbl bs, tree_okb bs = true ->
  exists t, make true bs = Some t /\
    Permutation (map (leafstr tbl) (leaves t))
                (map (fun b => (tb_id b, tb_closed b, nwcat tbl (tb_nodes b))) bs).
Proof. exact text_paths. Qed.
Print Assumptions C19_text_paths.

Theorem C19_text_closure_marks : forall tbl bs t, tree_okb bs = true -> closure_wf tbl bs ->
  make true bs = Some t ->
  forall i c p, In (i, c, p) (leaves t) -> marks tbl p = if c then 1 else 0.
Proof. exact text_closure_marks. Qed.
Print Assumptions C19_text_closure_marks.

Theorem C19_write_total : forall n T dp ii s, total n T = true -> wf s = true ->
  exists r, write n T dp ii s = Some r.
Proof. exact write_total. Qed.
Print Assumptions C19_write_total.
