(* C09 — the verdict does not depend on how the proof is searched.
   Every legal run is an accepted certificate, so these statements quantify over
   options, step-by-step vs one-shot building and tie-break orders at once. *)
From Coq Require Import List Bool.
From PT Require Import Sem.Values Sem.Syntax Sem.Model Tab.Node Tab.PropTab Tab.PropSound Tab.PropDecide
  Tab.TruthTable Tab.FullTab Tab.FullSound Tab.Meta.
Import ListNotations.

(* no run can end 'valid' while the same premises, in any order or multiplicity, have a genuine countermodel *)
Theorem C09_no_conflict : forall L, fsound_ok L -> (fl_hd L = false -> neg_flips_t (s_t (fl_S L)) = true) ->
  forall t prems concl prems',
    gcheck L t (trunk (fl_hd L) 0 prems concl) [] = true -> gall_closed t = true ->
    (forall p, In p prems -> In p prems') ->
    forall M, model_ok L M -> forall u, ~ fcountermodel (fl_S L) M u prems' concl.
Proof. exact no_conflict. Qed.
Print Assumptions C09_no_conflict.

(* on the propositional fragment any two legal complete runs give the same verdict *)
Theorem C09_prop_same_verdict : forall L dv t1 t2 prems concl, decide_ok L dv ->
  check L t1 (trunk (pl_hd L) 0 prems concl) [] = true ->
  check L t2 (trunk (pl_hd L) 0 prems concl) [] = true ->
  all_closed t1 = all_closed t2.
Proof.
  intros L dv t1 t2 prems concl OK H1 H2.
  rewrite (decide_tt L dv t1 prems concl OK H1), (decide_tt L dv t2 prems concl OK H2). reflexivity.
Qed.
Print Assumptions C09_prop_same_verdict.

(* the same over arbitrary (finite or infinite) structures *)
From PT Require Import Sem.AModel Tab.ASound.
Theorem C09_no_conflict_all_structures : forall L, fsound_ok L ->
  (fl_hd L = false -> neg_flips_t (s_t (fl_S L)) = true) ->
  forall t prems concl prems',
    gcheck L t (trunk (fl_hd L) 0 prems concl) [] = true -> gall_closed t = true ->
    (forall p, In p prems -> In p prems') ->
    forall (M : amodel (fl_S L)), amodel_ok L M -> forall u ce, ~ acountermodel (fl_S L) M u ce prems' concl.
Proof. exact no_conflict_a. Qed.
Print Assumptions C09_no_conflict_all_structures.
