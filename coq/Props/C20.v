(* C20 — the exported description says what the model evaluates. *)
From Coq Require Import List Bool Arith Sorted.
From PT Require Import Sem.Values Sem.MSyntax Sem.LimitBest Sem.Access Sem.PyModel Sem.Classical
  Sem.ClassicalFix Sem.Export Sem.ExportProofs.
Import ListNotations.

Definition evaluates_in (L : mlogic) (st : state) (w : nat) (p : pred) (ps : list param)
           (vs : list val) : Prop :=
  exists v, In v vs /\ value_of L st (SPred p ps) w = Val v.

(* export_faithful, positive part: for every well-formed finished state of every logic
   (i)   the exported worlds are the frame keys, sorted;
   (ii)  the exported access pairs are the pairs of R whose source has a frame, which is
         all of R when every world of R has a frame;
   (iii) per exported world every atom / opaque maps to its value_of, none is omitted,
         and the lists are sorted by the lexical order;
   (iv)  a tuple of constants is in P+ iff the predication evaluates to T or B;
   (v)   a tuple in P- evaluates to F or B; conversely only when the unassigned value is N. *)
Theorem C20_export_faithful L st :
  state_wfb L st = true -> s_finished st = true ->
  (ml_modal L = true ->
     Sorted (fun a b => Nat.leb a b = true) (x_worlds (export L st)) /\
     (forall w, In w (x_worlds (export L st)) <-> In w (s_fkeys st)) /\
     (forall a b, In (a, b) (x_access (export L st)) <-> In a (s_fkeys st) /\ In (a, b) (ap (s_R st))) /\
     (acc_wf (s_R st) -> (forall w, In w (aw (s_R st)) -> In w (s_fkeys st)) ->
      forall a b, In (a, b) (x_access (export L st)) <-> In (a, b) (ap (s_R st)))) /\
  forall w, In w (x_worlds (export L st)) -> frame_ok L w = true ->
    In (w, export_frame L st w) (x_frames (export L st)) /\
    (forall a v, In (a, v) (x_atoms (export_frame L st w)) -> value_of L st (SAtom a) w = Val v) /\
    (forall a, (exists v, In (w, a, v) (s_atoms st)) <-> exists v, In (a, v) (x_atoms (export_frame L st w))) /\
    Sorted (fun x y => Nat.leb (fst x) (fst y) = true) (x_atoms (export_frame L st w)) /\
    (forall s v, In (s, v) (x_opaqs (export_frame L st w)) -> value_of L st s w = Val v) /\
    (forall s, (exists v, In (w, s, v) (s_opaqs st)) <-> exists v, In (s, v) (x_opaqs (export_frame L st w))) /\
    Sorted (fun x y => key_leb (sent_key (fst x)) (sent_key (fst y)) = true) (x_opaqs (export_frame L st w)) /\
    forall p, In p (pkeys_of st w) ->
      In (p, true, isort tuple_leb (having L st w p [VT; VB])) (x_preds (export_frame L st w)) /\
      (ml_many L = true ->
         In (p, false, isort tuple_leb (having L st w p [VB; VF])) (x_preds (export_frame L st w))) /\
      forall ps, forallb (is_const st) ps = true ->
        ((ml_unass L = VF \/ ml_unass L = VN) ->
           (In ps (isort tuple_leb (having L st w p [VT; VB])) <-> evaluates_in L st w p ps [VT; VB])) /\
        (In ps (isort tuple_leb (having L st w p [VB; VF])) -> evaluates_in L st w p ps [VF; VB]) /\
        (ml_unass L = VN ->
           (In ps (isort tuple_leb (having L st w p [VB; VF])) <-> evaluates_in L st w p ps [VF; VB])).
Proof.
  intros WF F. split.
  - intro M. destruct (export_worlds L st M) as [_ [S W]].
    split; [exact S|]. split; [exact W|]. split; [exact (export_access L st M)|].
    intros A B. exact (export_access_exact L st M A B).
  - intros w Hw FO. split; [apply export_frame_at; exact Hw|].
    destruct (export_atoms L st w WF F FO) as [A1 [A2 A3]].
    destruct (export_opaques L st w WF F FO) as [O1 [O2 O3]].
    split; [exact A1|]. split; [exact A2|]. split; [exact A3|].
    split; [exact O1|]. split; [exact O2|]. split; [exact O3|].
    intros p Hp. destruct (export_preds_listed L st w p Hp) as [P1 [P2 _]].
    split; [exact P1|]. split; [exact P2|].
    intros ps C. unfold evaluates_in. split; [|split].
    + intro U. rewrite isort_in, (export_extension L st w p ps WF F FO C U). split.
      * intros [H|H]; [exists VT|exists VB]; simpl; auto.
      * intros [v [[<-|[<-|[]]] H]]; auto.
    + intro H. apply isort_in in H.
      destruct (export_anti_extension_sound L st w p ps WF F FO H) as [H'|H']; [exists VF|exists VB]; simpl; auto.
    + intro U. rewrite isort_in, (export_anti_extension L st w p ps WF F FO C U). split.
      * intros [H|H]; [exists VF|exists VB]; simpl; auto.
      * intros [v [[<-|[<-|[]]] H]]; auto.
Qed.
Print Assumptions C20_export_faithful.

(* export_faithful is REFUTED for the anti-extension when the unassigned value is F
   (LP, RM3, NH and their modal versions): LP model with Fa = T, Gb = B *)
Theorem C20_export_faithful_refuted :
  exists L st w p ps,
    run L [] (fun _ => []) lp_ops = Some st /\
    state_wfb L st = true /\ s_finished st = true /\ frame_ok L w = true /\
    forallb (is_const st) ps = true /\ In p (pkeys_of st w) /\ ml_many L = true /\
    value_of L st (SPred p ps) w = Val VF /\
    ~ In ps (having L st w p [VB; VF]).
Proof. exact export_faithful_refuted. Qed.
Print Assumptions C20_export_faithful_refuted.

(* BEFORE fix 422cec3 (run_old) the clause "exported worlds / access = R" failed under
   SerialAccess (D): the world added by enforce() had no frame and was not exported *)
Theorem C20_export_access_old_refuted :
  exists L st,
    run_old L [] (fun _ => []) [OAtomic 0 0 VT] = Some st /\ ml_modal L = true /\
    In (1, 1) (ap (s_R st)) /\ In 1 (aw (s_R st)) /\
    ~ In (1, 1) (x_access (export L st)) /\ ~ In 1 (x_worlds (export L st)) /\
    value_of L st (SMod Possibility (SMod Possibility (SAtom 0))) 0 = Val VF.
Proof. exact export_access_old_refuted. Qed.
Print Assumptions C20_export_access_old_refuted.

(* after every history of API calls followed by finish() as coded now, the hypotheses of
   export_faithful hold and — for EVERY access class, SerialAccess (D) included — the exported
   worlds are exactly the worlds of R and the exported access pairs exactly R *)
From PT Require Import Sem.ModelRun Sem.ReachProofs.
Theorem C20_export_faithful_history L cord pord os st :
  (ml_classical L = true -> val_ok L VT = true) -> forallb (op_ok L) os = true ->
  (forall st0, apply_ops L init_state os = Some st0 -> forall c, In c cord -> In c (s_consts st0)) ->
  run L cord pord os = Some st ->
  state_wfb L st = true /\ s_finished st = true /\
  (ml_modal L = true ->
   (forall w, In w (x_worlds (export L st)) <-> In w (aw (s_R st))) /\
   (forall a b, In (a, b) (x_access (export L st)) <-> In (a, b) (ap (s_R st)))).
Proof.
  intros CT OK Hc Hr.
  destruct (run_wf L cord pord os st CT OK Hc Hr) as [[WF [AW [F Sub]]] _].
  split; [exact WF|]. split; [exact F|].
  intro M. destruct (export_worlds L st M) as [_ [_ W]]. split.
  - intro w. rewrite W. symmetry. apply Sub.
  - apply (export_access_exact L st M AW). intros w Hw. apply Sub. exact Hw.
Qed.
Print Assumptions C20_export_faithful_history.
