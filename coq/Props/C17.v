(* C17 — limits and life cycle.  Model: coq/theories/Tab/Lifecycle.v (Tableau.__init__, the
   logic / argument setters, build_trunk, step, finish, build, _check_timeout,
   _is_max_steps_exceeded, valid / invalid / premature / completed, rule-set locking, branches
   added by hand with Tableau.branch() + one conjunction node).  The proof search is abstracted to
   a supply of rule applications (c_n for the trunk once built + c_h per hand-made branch of a
   tableau with a logic), the clock to one bit per consultation of the build timer; `run c ops`
   is the state after ANY sequence of Step / Finish / Build / SetArgument / SetLogic / BuildTrunk /
   AddRule / HandBranch. *)
From Coq Require Import List Bool Arith ZArith.
From PT Require Import Tab.Lifecycle Tab.LifecycleProofs.
Import ListNotations.

(* the number of recorded steps never exceeds a positive step limit *)
Theorem C17_steps_bounded : forall c ops z, c_max_steps c = Some z -> (0 < z)%Z ->
  (Z.of_nat (hist (run c ops)) <= z)%Z.
Proof. exact steps_bounded. Qed.
Print Assumptions C17_steps_bounded.

(* stopped by the step limit: finished, premature, no verdict, nothing recorded *)
Theorem C17_limit_premature_steps : forall c ops b b2, let s := run c ops in
  finished s = false -> exceeded c s = true -> has_time_limit c && b = false ->
  let '(s', r) := step c b b2 s in
  r = RNone /\ finished s' = true /\ premature s' = true /\ timed_out s' = false /\ hist s' = hist s /\
  valid c s' = None /\ invalid c s' = None.
Proof. intros c ops b b2 s. apply step_limit_stops, Inv_run. Qed.
Print Assumptions C17_limit_premature_steps.

(* stopped by the time limit: the timeout error, finished, premature, no verdict *)
Theorem C17_limit_premature_time : forall c ops b2, let s := run c ops in
  finished s = false -> has_time_limit c = true ->
  let '(s', r) := step c true b2 s in
  r = RErr Timeout /\ finished s' = true /\ premature s' = true /\ timed_out s' = true /\ hist s' = hist s /\
  valid c s' = None /\ invalid c s' = None.
Proof. intros c ops b2 s. apply time_limit_stops, Inv_run. Qed.
Print Assumptions C17_limit_premature_time.

(* in every state: premature means no verdict *)
Theorem C17_premature_no_verdict : forall c s, premature s = true -> valid c s = None /\ invalid c s = None.
Proof. exact premature_no_verdict. Qed.
Print Assumptions C17_premature_no_verdict.

(* a limit above the natural length of the proof that the run builds (supply = c_n once the trunk
   is built + c_h per hand-made branch of a tableau with a logic, read off the unlimited run)
   changes nothing; None, 0, negative mean unlimited *)
Theorem C17_big_limit_noop_run : forall c L ops,
  (Z.of_nat (supply c (run (with_limit c None) ops)) < L)%Z ->
  trace (with_limit c (Some L)) init ops = trace (with_limit c None) init ops.
Proof. exact big_limit_noop_run. Qed.
Print Assumptions C17_big_limit_noop_run.

(* ... in particular a limit above c_n + c_h * (number of HandBranch operations) *)
Theorem C17_big_limit_noop : forall c L ops, (Z.of_nat (c_n c + c_h c * count_hand ops) < L)%Z ->
  trace (with_limit c (Some L)) init ops = trace (with_limit c None) init ops.
Proof. exact big_limit_noop. Qed.
Print Assumptions C17_big_limit_noop.

(* ... and, without hand-made branches, above the natural length c_n of the argument's proof *)
Theorem C17_big_limit_noop_no_hand : forall c L ops, ~ In HandBranch ops -> (Z.of_nat (c_n c) < L)%Z ->
  trace (with_limit c (Some L)) init ops = trace (with_limit c None) init ops.
Proof. exact big_limit_noop_no_hand. Qed.
Print Assumptions C17_big_limit_noop_no_hand.

Theorem C17_nonpositive_limit_unlimited : forall c z ops, (z <= 0)%Z ->
  trace (with_limit c (Some z)) init ops = trace (with_limit c None) init ops.
Proof. exact nonpositive_limit_unlimited. Qed.
Print Assumptions C17_nonpositive_limit_unlimited.

(* whenever any operation raises the timeout error the tableau is left finished *)
Theorem C17_timeout_finishes : forall c s o s', exec c s o = (s', RErr Timeout) ->
  finished s' = true /\ timed_out s' = true.
Proof. exact timeout_finishes. Qed.
Print Assumptions C17_timeout_finishes.

(* stepping, finishing or building a finished tableau changes nothing *)
Theorem C17_finished_idempotent : forall c s, finished s = true ->
  (forall b b2, exec c s (Step b b2) = (s, RNone)) /\
  (forall b2, exec c s (Finish b2) = (s, ROk)) /\
  (forall k b2, exec c s (Build k b2) = (s, ROk)).
Proof. exact finished_idempotent. Qed.
Print Assumptions C17_finished_idempotent.

(* once started (by build_trunk or by the first rule application on a hand-made branch): the
   setters and build_trunk raise IllegalState and change nothing; every operation (HandBranch
   included) keeps the logic, the argument and the rule set; the rule set refuses additions *)
Theorem C17_setters_locked : forall c ops o, let s := run c ops in started s = true ->
  exec c s SetArgument = (s, RErr IllegalState) /\
  exec c s SetLogic = (s, RErr IllegalState) /\
  exec c s BuildTrunk = (s, RErr IllegalState) /\
  exec c s AddRule = (s, RErr IllegalState) /\
  (let s' := fst (exec c s o) in
   started s' = true /\ has_logic s' = has_logic s /\ has_arg s' = has_arg s /\ locked s' = true /\
   added s' = added s /\ nrules s' = nrules s).
Proof.
  intros c ops o s St. pose proof (Inv_run c ops) as I. fold s in I.
  destruct (setters_locked c s St) as (A & B & C).
  repeat split; try assumption.
  - cbn [exec]. apply rules_locked. apply (i_started _ _ I St).
  - apply (started_frozen c s o I St).
  - apply (started_frozen c s o I St).
  - apply (started_frozen c s o I St).
  - apply (started_frozen c s o I St).
  - apply (started_frozen c s o I St).
  - apply (started_frozen c s o I St).
Qed.
Print Assumptions C17_setters_locked.

(* the hypothesis of C17_setters_locked covers tableaux started without a trunk *)
Theorem C17_started_without_trunk : exists c ops, let s := run c ops in
  started s = true /\ trunk s = false /\ has_arg s = false /\ hist s = 1 /\ finished s = false /\
  exec c s SetArgument = (s, RErr IllegalState).
Proof. exists (ex_cfg None None), [SetLogic; HandBranch; Step false false]. exact ex_hand_started. Qed.
Print Assumptions C17_started_without_trunk.

(* a tableau that was never given an argument never reports a verdict *)
Theorem C17_no_argument_no_verdict : forall c ops, ~ In SetArgument ops ->
  valid c (run c ops) = None /\ invalid c (run c ops) = None.
Proof. exact no_argument_no_verdict. Qed.
Print Assumptions C17_no_argument_no_verdict.

(* build() = call step() until it yields no entry (same state, same error), and terminates *)
Theorem C17_build_is_step_loop : forall c k b2 s,
  exists m, m <= supply c s - hist s /\
    Forall (fun r => r = REntry) (snd (step_seq c k b2 0 m s)) /\
    let p := step c (clock k m) b2 (fst (step_seq c k b2 0 m s)) in
    snd p <> REntry /\ build c k b2 s = (fst p, build_res (snd p)).
Proof. exact build_is_step_loop. Qed.
Print Assumptions C17_build_is_step_loop.

Theorem C17_build_total : forall c k b2 s, snd (build c k b2 s) <> RFuel.
Proof. exact build_total. Qed.
Print Assumptions C17_build_total.

(* outside the property's letter, recorded because the faithful model shows them: with the two
   probed behaviour flags off (the tree this was written against) the strengthenings are false *)
Theorem C17_verdict_needs_trunk_refuted :
  exists c ops, let s := run c ops in trunk s = false /\ has_logic s = false /\ valid c s = Some true.
Proof. exact verdict_needs_trunk_refuted. Qed.
Print Assumptions C17_verdict_needs_trunk_refuted.

Theorem C17_hand_started_verdict_without_trunk_refuted :
  exists c ops, let s := run c ops in
    started s = true /\ trunk s = false /\ snd (exec c s BuildTrunk) = RErr IllegalState /\ invalid c s = Some true.
Proof. exact hand_started_verdict_without_trunk. Qed.
Print Assumptions C17_hand_started_verdict_without_trunk_refuted.

(* Tableau.branch() has no guard: on a finished, valid tableau it turns valid into invalid *)
Theorem C17_hand_branch_flips_verdict :
  exists c ops, valid c (run c ops) = Some true /\ finished (run c ops) = true /\
    valid c (run c (ops ++ [HandBranch])) = Some false /\ invalid c (run c (ops ++ [HandBranch])) = Some true.
Proof. exact hand_branch_flips_verdict. Qed.
Print Assumptions C17_hand_branch_flips_verdict.

Theorem C17_finished_locked_refuted :
  exists c ops, let s := run c ops in let '(s', r) := exec c s SetArgument in
    finished s = true /\ r = ROk /\ trunk s' = true /\ hist s' = 0 /\ invalid c s' = Some true.
Proof. exact finished_locked_refuted. Qed.
Print Assumptions C17_finished_locked_refuted.

(* ... and they hold for a tree on which the probe finds the flags set *)
Theorem C17_verdict_needs_trunk_if_flag : forall c s, c_trunk_verdict c = true -> trunk s = false ->
  valid c s = None /\ invalid c s = None.
Proof. exact verdict_needs_trunk. Qed.
Print Assumptions C17_verdict_needs_trunk_if_flag.

Theorem C17_finished_locks_setters_if_flag : forall c s, c_fin_lock c = true -> finished s = true ->
  exec c s SetArgument = (s, RErr IllegalState) /\
  exec c s SetLogic = (s, RErr IllegalState) /\
  exec c s BuildTrunk = (s, RErr IllegalState).
Proof. exact finished_locks_setters. Qed.
Print Assumptions C17_finished_locks_setters_if_flag.
