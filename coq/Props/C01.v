(* C01 — a 'valid' verdict is sound in every logic.
   gcheck is the executable checker of tableau certificates (Tab/FullTab.v):
   truth-functional rules, quantifier and modal rules (witness: fresh constant /
   fresh world; per-instance: any constant / any accessible world), the frame
   rules (reflexive, transitive, symmetric, serial) and classical identity.
   For every logic L whose generated obligations fsound_ok L are discharged
   (rule soundness over all value pairs / all 16 value subsets, closure
   soundness over all literal sets, closed tables and generalisers), every
   accepted certificate all of whose leaves are closed - i.e. every legal run
   that ends 'valid', whatever options or tie-break order produced it - has no
   countermodel among the finite constant-domain Kripke models of L's frame
   class, of any size. *)
From Coq Require Import List Bool.
From PT Require Import Sem.Values Sem.Syntax Sem.Model Tab.Node Tab.PropTab Tab.PropSound Tab.FullTab Tab.FullSound.
Import ListNotations.

Theorem C01_sound : forall L, fsound_ok L ->
  (fl_hd L = false -> neg_flips_t (s_t (fl_S L)) = true) ->
  forall t prems concl,
    gcheck L t (trunk (fl_hd L) 0 prems concl) [] = true -> gall_closed t = true ->
    forall M, model_ok L M -> forall u, ~ fcountermodel (fl_S L) M u prems concl.
Proof. exact argument_sound. Qed.
Print Assumptions C01_sound.

Theorem C01_branch_unsat : forall L, fsound_ok L -> forall t b tk,
  gcheck L t b tk = true -> gall_closed t = true -> des_ok (fl_hd L) b ->
  forall M f, model_ok L M -> fmap_ok M f -> ~ ibsat (fl_S L) M f b.
Proof. exact gcheck_sound. Qed.
Print Assumptions C01_branch_unsat.

(* The same for ARBITRARY (finite or infinite) many-valued Kripke structures with constant domain:
   a structure (Sem/AModel.v) is any frame + domain + evaluation function obeying the semantic clauses
   (operators by the tables; a quantified / modal sentence gets the logic's generalisation of the set
   of values of its instances / at the accessible worlds). No axioms. *)
From PT Require Import Sem.AModel Tab.ASound.
Theorem C01_sound_all_structures : forall L, fsound_ok L ->
  (fl_hd L = false -> neg_flips_t (s_t (fl_S L)) = true) ->
  forall t prems concl,
    gcheck L t (trunk (fl_hd L) 0 prems concl) [] = true -> gall_closed t = true ->
    forall (M : amodel (fl_S L)), amodel_ok L M -> forall u ce, ~ acountermodel (fl_S L) M u ce prems concl.
Proof. exact argument_sound_a. Qed.
Print Assumptions C01_sound_all_structures.
