(* C03 — propositional arguments are decided exactly.
   For every logic L whose generated obligations `decide_ok L dv` are
   discharged (coq/gen/C03/Obl.v: rule exactness over all value pairs, closure
   soundness/completeness over all literal sets, closed tables), every
   certificate accepted by the checker — i.e. every legal run of the tableau
   rules from the argument's trunk, whatever the search order or options —
   ends with all branches closed exactly when the truth-table enumeration says
   the argument is valid; and from any open leaf the valuation the model
   builder reads off is a countermodel satisfying every node of that branch. *)
From Coq Require Import List Bool.
From PT Require Import Sem.Values Sem.Syntax Tab.Node Tab.PropTab Tab.PropSound
  Tab.PropComplete Tab.PropDecide Tab.TruthTable.
Import ListNotations.

Theorem C03_decides : forall L dv t prems concl, decide_ok L dv ->
  check L t (trunk (pl_hd L) 0 prems concl) [] = true ->
  all_closed t = tt_valid_b (pl_t L) dv prems concl.
Proof. exact decide_tt. Qed.
Print Assumptions C03_decides.

Theorem C03_tt_valid_meaning : forall t dv prems concl, In dv (t_vals t) ->
  (tt_valid_b t dv prems concl = true <->
   forall v, val_ok t v -> ~ countermodel t dv v prems concl).
Proof. exact tt_valid_b_spec. Qed.
Print Assumptions C03_tt_valid_meaning.

Theorem C03_open_branch_countermodel : forall L dv t prems concl, decide_ok L dv ->
  check L t (trunk (pl_hd L) 0 prems concl) [] = true -> all_closed t = false ->
  forall bl, In bl (open_leaves t (trunk (pl_hd L) 0 prems concl)) ->
    let v := read_off (pl_hd L) dv bl 0 in
    val_ok (pl_t L) v /\ countermodel (pl_t L) dv v prems concl /\
    bsat (pl_t L) (read_ev (pl_t L) (pl_hd L) dv bl) bl.
Proof. exact decide_complete. Qed.
Print Assumptions C03_open_branch_countermodel.

(* soundness alone needs only the soundness half of the obligations *)
Theorem C03_closed_unsat : forall L, sound_ok L -> forall t b tk,
  check L t b tk = true -> all_closed t = true -> des_ok (pl_hd L) b ->
  forall ev, wcomp (pl_t L) ev -> ~ bsat (pl_t L) ev b.
Proof. exact check_sound. Qed.
Print Assumptions C03_closed_unsat.

(* Termination: under a linear weight assignment for which every rule strictly
   decreases (obligation term_ok, generated and kernel-checked per logic), every
   accepted certificate - every legal run - performs at most (m+1)^(total weight
   of the trunk) expansion steps, m the largest branching of a rule. *)
From Coq Require Import Arith.
From PT Require Import Tab.PropTerm.
Theorem C03_terminates : forall L ws m, term_ok L ws m -> forall t b tk,
  check L t b tk = true -> (forall j, memn j tk = true -> j < length b) ->
  tf_count t <= (S m) ^ (phi ws b tk).
Proof. exact tf_steps_bounded. Qed.
Print Assumptions C03_terminates.
