(* Executable truth-table validity (the brute-force oracle) and its
   equivalence with the quantified statement. *)
From Coq Require Import List Bool Arith Lia.
From PT Require Import Util.Finite Sem.Values Sem.Syntax Sem.Schema Tab.Node Tab.PropTab
  Tab.PropSound Tab.PropDecide.
Import ListNotations.

Fixpoint assignments (vals : list val) (ats : list nat) : list (list (nat * val)) :=
  match ats with
  | [] => [[]]
  | a :: r => flat_map (fun x => map (cons (a, x)) (assignments vals r)) vals
  end.

Definition assoc_val (dv : val) (l : list (nat * val)) (n : nat) : val :=
  match find (fun p => Nat.eqb (fst p) n) l with Some p => snd p | None => dv end.

Definition arg_atoms (prems : list sent) (concl : sent) : list nat :=
  nodup Nat.eq_dec (flat_map atoms prems ++ atoms concl).

Definition cm_b (t : tables) (dv : val) (v : nat -> val) (prems : list sent) (concl : sent) : bool :=
  forallb (fun p => t_des t (eval t dv v p)) prems && negb (t_des t (eval t dv v concl)).

Definition tt_valid_b (t : tables) (dv : val) (prems : list sent) (concl : sent) : bool :=
  forallb (fun a => negb (cm_b t dv (assoc_val dv a) prems concl))
          (assignments (t_vals t) (arg_atoms prems concl)).

Lemma cm_b_spec t dv v prems concl : cm_b t dv v prems concl = true <-> countermodel t dv v prems concl.
Proof.
  unfold cm_b, countermodel. rewrite andb_true_iff, forallb_forall, negb_true_iff. tauto.
Qed.

(* coincidence: evaluation depends only on the letters that occur *)
Lemma eval_coincide t dv v v' s : (forall n, In n (atoms s) -> v n = v' n) ->
  eval t dv v s = eval t dv v' s.
Proof.
  induction s as [n|p ts|o a IH|o a IHa b IHb|o a IH|q x a IH]; simpl; intro H; try reflexivity.
  - apply H. left. reflexivity.
  - rewrite IH; auto.
  - rewrite IHa, IHb; auto; intros n Hn; apply H; apply in_or_app; auto.
Qed.

Lemma assignments_complete vals ats (v : nat -> val) : (forall n, In (v n) vals) ->
  exists a, In a (assignments vals ats) /\ forall n dv, In n ats -> assoc_val dv a n = v n.
Proof.
  intro Hv. induction ats as [|x r IH]; simpl.
  - exists []. split; [left; reflexivity|]. intros n dv [].
  - destruct IH as [a [Ha Hr]]. exists ((x, v x) :: a). split.
    + apply in_flat_map. exists (v x). split; [apply Hv|]. apply in_map. exact Ha.
    + intros n dv Hn. unfold assoc_val. simpl. destruct (Nat.eqb x n) eqn:E.
      * apply Nat.eqb_eq in E. subst. reflexivity.
      * destruct Hn as [->|Hn]; [rewrite Nat.eqb_refl in E; discriminate|].
        apply (Hr n dv Hn).
Qed.

Lemma assignments_vals vals ats a : In a (assignments vals ats) ->
  forall p, In p a -> In (snd p) vals.
Proof.
  revert a. induction ats as [|x r IH]; simpl; intros a Ha p Hp.
  - destruct Ha as [<-|[]]. contradiction.
  - apply in_flat_map in Ha. destruct Ha as [y [Hy Ha]]. apply in_map_iff in Ha.
    destruct Ha as [a' [<- Ha']]. destruct Hp as [<-|Hp]; [exact Hy|]. apply (IH a' Ha' p Hp).
Qed.

Lemma assoc_val_ok vals ats a dv : In a (assignments vals ats) -> In dv vals ->
  forall n, In (assoc_val dv a n) vals.
Proof.
  intros Ha Hd n. unfold assoc_val. destruct (find _ a) as [p|] eqn:E; [|exact Hd].
  apply List.find_some in E. destruct E as [Hp _]. apply (assignments_vals vals ats a Ha p Hp).
Qed.

Theorem tt_valid_b_spec t dv prems concl : In dv (t_vals t) ->
  (tt_valid_b t dv prems concl = true <->
   forall v, val_ok t v -> ~ countermodel t dv v prems concl).
Proof.
  intro Hd. unfold tt_valid_b. rewrite forallb_forall. split.
  - intros H v Hv Hcm.
    destruct (assignments_complete (t_vals t) (arg_atoms prems concl) v Hv) as [a [Ha Hag]].
    specialize (H a Ha). apply negb_true_iff in H.
    assert (Hcm' : countermodel t dv (assoc_val dv a) prems concl).
    { destruct Hcm as [H1 H2]. split.
      - intros p Hp. rewrite <- (H1 p Hp). f_equal. apply eval_coincide. intros n Hn.
        apply Hag. unfold arg_atoms. apply nodup_In. apply in_or_app. left.
        apply in_flat_map. exists p. auto.
      - rewrite <- H2. f_equal. apply eval_coincide. intros n Hn.
        apply Hag. unfold arg_atoms. apply nodup_In. apply in_or_app. right. exact Hn. }
    apply cm_b_spec in Hcm'. congruence.
  - intros H a Ha. apply negb_true_iff. destruct (cm_b t dv (assoc_val dv a) prems concl) eqn:E; [|reflexivity].
    exfalso. apply cm_b_spec in E. apply (H (assoc_val dv a)); [|exact E].
    intro n. apply (assoc_val_ok (t_vals t) (arg_atoms prems concl) a dv Ha Hd).
Qed.

(* THE DECISION THEOREM in executable form *)
Theorem decide_tt L dv t prems concl : decide_ok L dv ->
  check L t (trunk (pl_hd L) 0 prems concl) [] = true ->
  all_closed t = tt_valid_b (pl_t L) dv prems concl.
Proof.
  intros OK Hck.
  pose proof (decide_iff L dv t prems concl OK Hck) as H1.
  pose proof (tt_valid_b_spec (pl_t L) dv prems concl (do_dv _ _ OK)) as H2.
  destruct (all_closed t), (tt_valid_b (pl_t L) dv prems concl); try reflexivity.
  - exfalso. assert (false = true) by (apply H2; apply H1; reflexivity). discriminate.
  - exfalso. assert (false = true) by (apply H1; apply H2; reflexivity). discriminate.
Qed.
