(* Consequences of soundness at the level of the consequence relation:
   C09 (search independence), C10 (structural laws), C11 (extensions). *)
From Coq Require Import List Bool Arith Lia.
From PT Require Tab.PropDecide.
From PT Require Import Util.Finite Sem.Values Sem.Lit Sem.Syntax Sem.Schema Sem.Gen Sem.Closure Sem.Model
  Sem.Extend Tab.Node Tab.PropTab Tab.PropSound Tab.FullTab Tab.FullSound.
Import ListNotations.

(* ---- premises as a set ---- *)
Lemma fcountermodel_set S M u prems prems' concl :
  (forall p, In p prems' -> In p prems) ->
  fcountermodel S M u prems concl -> fcountermodel S M u prems' concl.
Proof. intros H [Hu [Hp Hc]]. split; [exact Hu|]. split; [|exact Hc]. intros p Hp'. apply Hp. apply H. exact Hp'. Qed.

(* C09: no legal run can end 'valid' while some ordering / duplication of the same premises
   has a genuine countermodel *)
Theorem no_conflict L : fsound_ok L -> (fl_hd L = false -> neg_flips_t (s_t (fl_S L)) = true) ->
  forall t prems concl prems',
    gcheck L t (trunk (fl_hd L) 0 prems concl) [] = true -> gall_closed t = true ->
    (forall p, In p prems -> In p prems') ->
    forall M, model_ok L M -> forall u, ~ fcountermodel (fl_S L) M u prems' concl.
Proof.
  intros OK Hn t prems concl prems' Hck Hac Hsub M Hm u Hcm.
  apply (argument_sound L OK Hn t prems concl Hck Hac M Hm u).
  apply (fcountermodel_set _ _ _ prems'); assumption.
Qed.

(* C10 reflexivity: the trunk of an argument whose conclusion is a premise is closed *)
Definition reflexive_ok (hd : bool) (ks : list ckind) : bool :=
  if hd then existsb (fun k => match k with KDesignation => true | _ => false end) ks
  else existsb (fun k => match k with KContradiction => true | _ => false end) ks.

Lemma negative_neg s : negative (Un Negation s) = s.
Proof. reflexivity. Qed.

Theorem trunk_closed_reflexive L prems concl : reflexive_ok (fl_hd L) (fl_ks L) = true ->
  In concl prems -> gcheck L GClosed (trunk (fl_hd L) 0 prems concl) [] = true /\ gall_closed GClosed = true.
Proof.
  intros Hr Hin. split; [|reflexivity]. simpl. unfold gclosed. apply orb_true_iff. left.
  unfold branch_closed. apply existsb_exists. unfold reflexive_ok in Hr.
  destruct (fl_hd L) eqn:Eh.
  - exists (NS concl true 0). split.
    + unfold trunk. apply in_or_app. left. apply in_map_iff. exists concl. auto.
    + simpl. apply existsb_exists in Hr. destruct Hr as [k [Hk Hkk]]. apply existsb_exists. exists k.
      split; [exact Hk|]. destruct k; try discriminate. apply has_In. unfold trunk. apply in_or_app. right. left. reflexivity.
  - exists (NS (Un Negation concl) true 0). split.
    + unfold trunk. apply in_or_app. right. left. reflexivity.
    + simpl. apply existsb_exists in Hr. destruct Hr as [k [Hk Hkk]]. apply existsb_exists. exists k.
      split; [exact Hk|]. destruct k; try discriminate. apply has_In. unfold trunk. apply in_or_app. left.
      apply in_map_iff. exists concl. auto.
Qed.

(* C10 monotonicity: a countermodel of the larger premise set is one of the smaller *)
Theorem monotone L : fsound_ok L -> (fl_hd L = false -> neg_flips_t (s_t (fl_S L)) = true) ->
  forall t prems concl extra,
    gcheck L t (trunk (fl_hd L) 0 prems concl) [] = true -> gall_closed t = true ->
    forall M, model_ok L M -> forall u, ~ fcountermodel (fl_S L) M u (extra :: prems) concl.
Proof.
  intros OK Hn t prems concl extra Hck Hac M Hm u Hcm.
  apply (argument_sound L OK Hn t prems concl Hck Hac M Hm u).
  apply (fcountermodel_set _ _ _ (extra :: prems)); [intros p Hp; right; exact Hp|exact Hcm].
Qed.

(* ---- C10 renaming ---- *)
Record renaming := {
  rn_atom : nat -> nat;
  rn_pred : nat -> nat;
  rn_const : nat -> nat;
  rn_var : nat -> nat }.

Definition rn_term (r : renaming) (t : term) : term :=
  match t with TC c => TC (rn_const r c) | TV x => TV (rn_var r x) end.

Fixpoint rename (r : renaming) (s : sent) : sent :=
  match s with
  | Atom n => Atom (rn_atom r n)
  | Pred p ts => Pred (rn_pred r p) (map (rn_term r) ts)
  | Un o a => Un o (rename r a)
  | Bin o a b => Bin o (rename r a) (rename r b)
  | Mod o a => Mod o (rename r a)
  | Qu q x a => Qu q (rn_var r x) (rename r a)
  end.

(* the model seen through the renaming *)
Definition pullback (r : renaming) (M : model) : model :=
  {| m_worlds := m_worlds M; m_R := m_R M; m_dom := m_dom M;
     m_const := fun c => m_const M (rn_const r c);
     m_atom := fun w n => m_atom M w (rn_atom r n);
     m_pred := fun w p ds => m_pred M w (rn_pred r p) ds;
     m_opq := fun w s => m_opq M w (rename r s) |}.

Definition var_inj (r : renaming) : Prop := forall x y, rn_var r x = rn_var r y -> x = y.

Theorem eval_rename S r M : var_inj r -> forall s w env,
  eval S (pullback r M) w (fun y => env (rn_var r y)) s = eval S M w env (rename r s).
Proof.
  intros Hinj. induction s as [n|p ts|o a IH|o a IHa b IHb|o a IH|q x a IH]; intros w env; simpl.
  - reflexivity.
  - f_equal. rewrite map_map. apply map_ext. intros [c|y]; reflexivity.
  - rewrite IH. reflexivity.
  - rewrite IHa, IHb. reflexivity.
  - destruct (s_modal S); [|reflexivity]. f_equal. f_equal. apply map_ext. intro u. apply IH.
  - destruct (s_quant S); [|reflexivity]. f_equal. f_equal. apply map_ext. intro d.
    rewrite <- IH. apply eval_env_ext. intro z. unfold upd.
    destruct (Nat.eqb z x) eqn:E.
    + apply Nat.eqb_eq in E. subst. rewrite Nat.eqb_refl. reflexivity.
    + destruct (Nat.eqb (rn_var r z) (rn_var r x)) eqn:E2; [|reflexivity].
      apply Nat.eqb_eq in E2. apply Hinj in E2. subst. rewrite Nat.eqb_refl in E. discriminate.
Qed.

(* closed sentences do not depend on the environment; we state renaming for the fixed env0 by
   requiring the variable renaming to be the identity outside bound variables: env0 is constant *)
Lemma env0_rn r : forall y, (fun y0 => env0 (rn_var r y0)) y = env0 y.
Proof. reflexivity. Qed.

Definition pred_sys_fixed (r : renaming) : Prop :=
  rn_pred r 0 = 0 /\ rn_pred r 1 = 1.

Lemma pullback_model_ok L r M : pred_sys_fixed r -> model_ok L M -> model_ok L (pullback r M).
Proof.
  intros [P0 P1] [[W1 W2 W3 W4 W5] H2 H3 H4 H5 H6 H7]. constructor.
  - constructor; simpl; intros; auto.
  - exact H2.
  - exact H3.
  - exact H4.
  - exact H5.
  - intros Hc w d1 d2. simpl. rewrite P0. apply H6. exact Hc.
  - intros Hc w d. simpl. rewrite P1. apply H7. exact Hc.
Qed.

Theorem rename_sound L : fsound_ok L -> (fl_hd L = false -> neg_flips_t (s_t (fl_S L)) = true) ->
  forall r, var_inj r -> pred_sys_fixed r ->
  forall t prems concl,
    gcheck L t (trunk (fl_hd L) 0 prems concl) [] = true -> gall_closed t = true ->
    forall M, model_ok L M -> forall u,
      ~ fcountermodel (fl_S L) M u (map (rename r) prems) (rename r concl).
Proof.
  intros OK Hn r Hinj Hsys t prems concl Hck Hac M Hm u [Hu [Hp Hc]].
  apply (argument_sound L OK Hn t prems concl Hck Hac (pullback r M) (pullback_model_ok L r M Hsys Hm) u).
  split; [exact Hu|]. split.
  - intros p Hin. pose proof (eval_rename (fl_S L) r M Hinj p u env0) as E. simpl in E.
    unfold env0 in *. rewrite E. apply Hp. apply in_map. exact Hin.
  - pose proof (eval_rename (fl_S L) r M Hinj concl u env0) as E. unfold env0 in *. rewrite E. exact Hc.
Qed.

(* ---- C11: declared extensions ---- *)
Definition frame_sub (L L' : flogic) : bool :=
  implb (fl_refl L') (fl_refl L) && implb (fl_trans L') (fl_trans L) && implb (fl_sym L') (fl_sym L) &&
  implb (fl_serial L') (fl_serial L || fl_refl L) && implb (fl_classical L') (fl_classical L).

Lemma sub_model_ok L L' M : sub_sem (fl_S L) (fl_S L') = true -> frame_sub L L' = true ->
  model_ok L M -> model_ok L' M.
Proof.
  intros Hs Hf [H1 H2 H3 H4 H5 H6 H7]. unfold frame_sub in Hf. rewrite !andb_true_iff in Hf.
  destruct Hf as [[[[F1 F2] F3] F4] F5].
  constructor.
  - eapply sub_model_wf; eauto.
  - intro E. rewrite E in F1. simpl in F1. exact (H2 F1).
  - intro E. rewrite E in F2. simpl in F2. exact (H3 F2).
  - intro E. rewrite E in F3. simpl in F3. exact (H4 F3).
  - intro E. rewrite E in F4. simpl in F4. apply orb_true_iff in F4. destruct F4 as [F4|F4]; [exact (H5 F4)|].
    intros u Hu. exists u. unfold acc. apply filter_In. split; [exact Hu|]. apply H2; assumption.
  - intro E. rewrite E in F5. simpl in F5. exact (H6 F5).
  - intro E. rewrite E in F5. simpl in F5. exact (H7 F5).
Qed.

(* L extends L': whatever L' proves has no countermodel in L *)
Theorem extension_sound L L' : fsound_ok L' -> (fl_hd L' = false -> neg_flips_t (s_t (fl_S L')) = true) ->
  sub_sem (fl_S L) (fl_S L') = true -> frame_sub L L' = true ->
  forall t prems concl,
    forallb (interp (fl_S L')) (concl :: prems) = true ->
    gcheck L' t (trunk (fl_hd L') 0 prems concl) [] = true -> gall_closed t = true ->
    forall M, model_ok L M -> forall u, ~ fcountermodel (fl_S L) M u prems concl.
Proof.
  intros OK Hn Hs Hf t prems concl Hint Hck Hac M Hm u [Hu [Hp Hc]].
  rewrite forallb_forall in Hint.
  apply (argument_sound L' OK Hn t prems concl Hck Hac M (sub_model_ok L L' M Hs Hf Hm) u).
  pose proof (mo_wf _ _ Hm) as Hwf.
  assert (Hvals : forall s, In (eval (fl_S L) M u env0 s) (t_vals (s_t (fl_S L)))).
  { intro s. unfold sub_sem in Hs. rewrite !andb_true_iff in Hs. destruct Hs as [[_ Hc0] Hg0].
    apply eval_vals; assumption. }
  split; [exact Hu|]. split.
  - intros p Hin. rewrite (eval_sub _ _ M Hs Hwf p (Hint p (or_intror Hin))).
    rewrite (sub_des _ _ _ Hs (Hvals p)). apply Hp. exact Hin.
  - rewrite (eval_sub _ _ M Hs Hwf concl (Hint concl (or_introl eq_refl))).
    rewrite (sub_des _ _ _ Hs (Hvals concl)). exact Hc.
Qed.
