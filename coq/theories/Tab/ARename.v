(* C10 renaming over ARBITRARY structures (Sem/AModel.v).
   A structure is pulled back along a renaming of symbols: the pulled-back
   structure evaluates s as the original evaluates (rename r s).  Because an
   arbitrary structure carries its evaluation function (characterised by the
   semantic clauses) rather than computing it, the renaming of constants and
   variables has to come with two-sided inverses (a permutation of names): the
   environments of the pulled-back structure are the original ones composed
   with the inverse.  No axioms. *)
From Coq Require Import List Bool Arith Lia.
From PT Require Tab.PropDecide.
From PT Require Import Util.Finite Sem.Values Sem.Lit Sem.Syntax Sem.Schema Sem.Gen Sem.Closure Sem.Model Sem.AModel
  Tab.Node Tab.PropTab Tab.PropSound Tab.FullTab Tab.FullSound Tab.Meta Tab.ASound.
Import ListNotations.

Record perm_renaming := {
  pr : renaming;
  pc_inv : nat -> nat;
  pv_inv : nat -> nat;
  pc_l : forall c, pc_inv (rn_const pr c) = c;
  pc_r : forall c, rn_const pr (pc_inv c) = c;
  pv_l : forall x, pv_inv (rn_var pr x) = x;
  pv_r : forall x, rn_var pr (pv_inv x) = x }.

Section Pull.
  Variable S : sem.
  Variable M : amodel S.
  Variable R : perm_renaming.
  Let r := pr R.

  Definition pev (w : aW S M) (ce ve : nat -> aD S M) (s : sent) : val :=
    aev S M w (fun c => ce (pc_inv R c)) (fun y => ve (pv_inv R y)) (rename r s).

  Lemma pev_pred w ce ve p ts :
    pev w ce ve (Pred p ts) =
    apred S M w (rn_pred r p) (map (fun t => match t with TC c => ce c | TV x => ve x end) ts).
  Proof.
    unfold pev. simpl. rewrite a_pred. f_equal. rewrite map_map. apply map_ext.
    intros [c|x]; simpl; unfold r; [rewrite pc_l|rewrite pv_l]; reflexivity.
  Qed.

  Lemma updg_inv (ve : nat -> aD S M) x d y :
    updg (fun y0 => ve (pv_inv R y0)) (rn_var r x) d y = updg ve x d (pv_inv R y).
  Proof.
    unfold updg. destruct (Nat.eqb y (rn_var r x)) eqn:E1, (Nat.eqb (pv_inv R y) x) eqn:E2; try reflexivity.
    - apply Nat.eqb_eq in E1. subst y. unfold r in E2. rewrite pv_l, Nat.eqb_refl in E2. discriminate.
    - apply Nat.eqb_eq in E2. subst x. unfold r in E1. rewrite pv_r, Nat.eqb_refl in E1. discriminate.
  Qed.

  Lemma pev_mod : s_modal S = true -> forall w ce ve o a, exists m : vset,
      (forall x, m x = true <-> exists u, aR S M w u /\ pev u ce ve a = x) /\
      pev w ce ve (Mod o a) = gapp (gsel_m S o) m.
  Proof.
    intros Hm w ce ve o a. unfold pev. simpl.
    destruct (a_mod S M Hm w (fun c => ce (pc_inv R c)) (fun y => ve (pv_inv R y)) o (rename r a)) as [m [H1 H2]].
    exists m. split; assumption.
  Qed.

  Lemma pev_qu : s_quant S = true -> forall w ce ve q x a, exists m : vset,
      (forall v, m v = true <-> exists d, pev w ce (updg ve x d) a = v) /\
      pev w ce ve (Qu q x a) = gapp (gsel_q S q) m.
  Proof.
    intros Hq w ce ve q x a. unfold pev. simpl.
    destruct (a_qu S M Hq w (fun c => ce (pc_inv R c)) (fun y => ve (pv_inv R y)) q (rn_var r x) (rename r a))
      as [m [H1 H2]].
    exists m. split; [|exact H2]. intro v. rewrite H1. split; intros [d Hd]; exists d; rewrite <- Hd.
    - apply aev_ext; [reflexivity|]. intro y. symmetry. apply updg_inv.
    - apply aev_ext; [reflexivity|]. intro y. apply updg_inv.
  Qed.

  Definition apull : amodel S :=
    {| aW := aW S M; aD := aD S M; aR := aR S M;
       aatom := fun w n => aatom S M w (rn_atom r n);
       apred := fun w p ds => apred S M w (rn_pred r p) ds;
       aopq := fun w s => aopq S M w (rename r s);
       aev := pev;
       a_atom := fun w ce ve n => a_atom S M w _ _ (rn_atom r n);
       a_pred := pev_pred;
       a_un := fun w ce ve o a => a_un S M w _ _ o (rename r a);
       a_bin := fun w ce ve o a b => a_bin S M w _ _ o (rename r a) (rename r b);
       a_mod := pev_mod;
       a_qu := pev_qu;
       a_mod_opq := fun Hm w ce ve o a => a_mod_opq S M Hm w _ _ o (rename r a);
       a_qu_opq := fun Hq w ce ve q x a => a_qu_opq S M Hq w _ _ q (rn_var r x) (rename r a);
       a_vals := fun w ce ve s => a_vals S M w _ _ (rename r s);
       a_inh := a_inh S M |}.

  (* the pulled-back structure at (ce o rn_const) is the original at ce on renamed sentences *)
  Lemma apull_eval w (ce : nat -> aD S M) s :
    aev S apull w (fun c => ce (rn_const r c)) (fun _ => a_inh S M) s =
    aev S M w ce (fun _ => a_inh S M) (rename r s).
  Proof.
    simpl. unfold pev. apply aev_ext; [|reflexivity]. intro c. unfold r. rewrite pc_r. reflexivity.
  Qed.
End Pull.

Lemma apull_ok L (M : amodel (fl_S L)) R : pred_sys_fixed (pr R) -> amodel_ok L M -> amodel_ok L (apull (fl_S L) M R).
Proof.
  intros [P0 P1] [H1 H2 H3 H4 H5 H6]. constructor; simpl; auto.
  - intros Hc w d1 d2. rewrite P0. apply H5. exact Hc.
  - intros Hc w d. rewrite P1. apply H6. exact Hc.
Qed.

(* C10 (renaming), all structures: if the tableau of an argument closes, the argument obtained by
   permuting the names of atoms, predicates (system predicates fixed), constants and variables has no
   countermodel in any structure of the logic. *)
Theorem rename_sound_a L : fsound_ok L -> (fl_hd L = false -> neg_flips_t (s_t (fl_S L)) = true) ->
  forall R, pred_sys_fixed (pr R) ->
  forall t prems concl,
    gcheck L t (trunk (fl_hd L) 0 prems concl) [] = true -> gall_closed t = true ->
    forall (M : amodel (fl_S L)), amodel_ok L M -> forall u ce,
      ~ acountermodel (fl_S L) M u ce (map (rename (pr R)) prems) (rename (pr R) concl).
Proof.
  intros OK Hn R Hsys t prems concl Hck Hac M Hm u ce [Hp Hc].
  apply (argument_sound_a L OK Hn t prems concl Hck Hac (apull (fl_S L) M R) (apull_ok L M R Hsys Hm) u
           (fun c => ce (rn_const (pr R) c))).
  split.
  - intros p Hin. change (a_inh (fl_S L) (apull (fl_S L) M R)) with (a_inh (fl_S L) M).
    rewrite apull_eval. apply Hp. apply in_map. exact Hin.
  - change (a_inh (fl_S L) (apull (fl_S L) M R)) with (a_inh (fl_S L) M). rewrite apull_eval. exact Hc.
Qed.
