(* Completeness for saturated open branches of the general calculus: the model
   read off a saturated, unclosed branch satisfies every node of the branch.
   (Hintikka lemma by induction on a per-logic weight; modal and quantifier
   rules included.  Restrictions are stated at the theorem.) *)
From Coq Require Import List Bool Arith Lia.
From PT Require Tab.PropDecide.
From PT Require Import Util.Finite Sem.Values Sem.Lit Sem.Syntax Sem.Schema Sem.Gen Sem.Closure Sem.Model
  Tab.Node Tab.PropTab Tab.PropSound Tab.PropTerm Tab.FullTab Tab.FullSound Tab.Saturate.
Import ListNotations.

(* ---- reading literals off a branch, for an arbitrary atomic-like sentence ---- *)
Definition lits_on (b : list node) (w : nat) (s : sent) : lits :=
  {| lpp := has b (NS s true w); lpm := has b (NS s false w);
     lnp := has b (NS (Un Negation s) true w); lnm := has b (NS (Un Negation s) false w) |}.

Definition not_neg (s : sent) : bool := match s with Un Negation _ => false | _ => true end.

Lemma negative_not_neg s : not_neg s = true -> negative s = Un Negation s.
Proof. destruct s as [| |o a| | |]; simpl; try reflexivity. destruct o; [reflexivity|discriminate]. Qed.

Lemma closes_on_branch_closed ks b w s : not_neg s = true ->
  closes ks (lits_on b w s) = true -> branch_closed ks b = true.
Proof.
  intro Hnn. unfold closes. rewrite existsb_exists. intros [k [Hk Hc]].
  unfold branch_closed. apply existsb_exists.
  pose proof (negative_not_neg s Hnn) as En.
  destruct k; simpl in Hc.
  - apply orb_true_iff in Hc. destruct Hc as [Hc|Hc]; apply andb_true_iff in Hc; destruct Hc as [H1 H2].
    + exists (NS s true w). split; [apply has_In; exact H1|].
      simpl. apply existsb_exists. exists KDesignation. auto.
    + exists (NS (Un Negation s) true w). split; [apply has_In; exact H1|].
      simpl. apply existsb_exists. exists KDesignation. auto.
  - apply andb_true_iff in Hc. destruct Hc as [H1 H2].
    exists (NS s true w). split; [apply has_In; exact H1|].
    simpl. apply existsb_exists. exists KGlut. rewrite En. auto.
  - apply andb_true_iff in Hc. destruct Hc as [H1 H2].
    exists (NS s false w). split; [apply has_In; exact H1|].
    simpl. apply existsb_exists. exists KGap. rewrite En. auto.
  - apply andb_true_iff in Hc. destruct Hc as [H1 H2].
    exists (NS s true w). split; [apply has_In; exact H1|].
    simpl. apply existsb_exists. exists KContradiction. rewrite En. auto.
Qed.

Lemma lits_on_in hd b w s : des_ok hd b -> In (lits_on b w s) (all_lits hd).
Proof.
  intro H. destruct hd; [apply all_lits_complete_des|].
  apply all_lits_complete_nodes; simpl.
  - destruct (has b (NS s false w)) eqn:E; [|reflexivity].
    apply has_In in E. specialize (H _ E). discriminate.
  - destruct (has b (NS (Un Negation s) false w)) eqn:E; [|reflexivity].
    apply has_In in E. specialize (H _ E). discriminate.
Qed.

Section Read.
  Variables (t : tables) (hd : bool) (ks : list ckind) (dv : val) (b : list node).
  Hypothesis Hcc : closure_complete t hd ks = None.
  Hypothesis Hopen : branch_closed ks b = false.
  Hypothesis Hdo : des_ok hd b.
  Hypothesis Hdv : In dv (t_vals t).

  Definition rd (w : nat) (s : sent) : val :=
    match read_vals hd (lits_on b w s) with x :: _ => x | [] => dv end.

  Lemma lits_on_open w s : not_neg s = true -> closes ks (lits_on b w s) = false.
  Proof.
    intro Hn. destruct (closes ks (lits_on b w s)) eqn:E; [|reflexivity].
    apply (closes_on_branch_closed ks b w s Hn) in E. congruence.
  Qed.

  Lemma rd_vals w s : not_neg s = true -> In (rd w s) (t_vals t).
  Proof.
    intro Hn. unfold rd. destruct (read_vals hd (lits_on b w s)) as [|x r] eqn:E; [exact Hdv|].
    destruct (closure_complete_spec t hd ks Hcc _ (lits_on_in hd b w s Hdo) (lits_on_open w s Hn)) as [_ H].
    destruct (H x r E) as [_ [Hx _]]. exact Hx.
  Qed.

  Lemma rd_sat w s : not_neg s = true ->
    lpp (lits_on b w s) || lpm (lits_on b w s) || lnp (lits_on b w s) || lnm (lits_on b w s) = true ->
    lit_sat t (lits_on b w s) (rd w s) = true.
  Proof.
    intros Hn Hf. unfold rd.
    pose proof (PropDecide.read_vals_nonempty hd _ (lits_on_in hd b w s Hdo) Hf) as Hne.
    destruct (read_vals hd (lits_on b w s)) as [|x r] eqn:E; [congruence|].
    destruct (closure_complete_spec t hd ks Hcc _ (lits_on_in hd b w s Hdo) (lits_on_open w s Hn)) as [_ H].
    destruct (H x r E) as [_ [_ Hs]]. exact Hs.
  Qed.

  (* a positive or negated literal node on the branch is satisfied by the read-off value *)
  Lemma rd_pos w s d : not_neg s = true -> In (NS s d w) b -> t_des t (rd w s) = d.
  Proof.
    intros Hn Hin. apply has_In in Hin.
    assert (Hf : lpp (lits_on b w s) || lpm (lits_on b w s) || lnp (lits_on b w s) || lnm (lits_on b w s) = true).
    { simpl. destruct d; rewrite Hin; rewrite ?orb_true_r; reflexivity. }
    pose proof (rd_sat w s Hn Hf) as Hs. unfold lit_sat in Hs.
    rewrite !andb_true_iff in Hs. destruct Hs as [[[S1 S2] _] _]. destruct d.
    - simpl in S1. rewrite Hin in S1. exact S1.
    - simpl in S2. rewrite Hin in S2. simpl in S2. apply negb_true_iff in S2. exact S2.
  Qed.

  Lemma rd_neg w s d : not_neg s = true -> In (NS (Un Negation s) d w) b ->
    t_des t (t_un t Negation (rd w s)) = d.
  Proof.
    intros Hn Hin. apply has_In in Hin.
    assert (Hf : lpp (lits_on b w s) || lpm (lits_on b w s) || lnp (lits_on b w s) || lnm (lits_on b w s) = true).
    { simpl. destruct d; rewrite Hin; rewrite ?orb_true_r; reflexivity. }
    pose proof (rd_sat w s Hn Hf) as Hs. unfold lit_sat in Hs.
    rewrite !andb_true_iff in Hs. destruct Hs as [[_ S3] S4]. destruct d.
    - simpl in S3. rewrite Hin in S3. exact S3.
    - simpl in S4. rewrite Hin in S4. simpl in S4. apply negb_true_iff in S4. exact S4.
  Qed.
End Read.

(* ---- weights for all sentences ---- *)
Record gwspec := { gw_base : wspec; gw_mod : mop -> nat * nat; gw_qu : quant -> nat * nat }.

Fixpoint gsw (ws : gwspec) (s : sent) : nat :=
  match s with
  | Un o a => let '(k, c) := w_un (gw_base ws) o in k * gsw ws a + c
  | Bin o a b => let '(al, be, ga) := w_bin (gw_base ws) o in al * gsw ws a + be * gsw ws b + ga
  | Mod o a => let '(k, c) := gw_mod ws o in k * gsw ws a + c
  | Qu q _ a => let '(k, c) := gw_qu ws q in k * gsw ws a + c
  | _ => 1
  end.

Definition gws_ok (ws : gwspec) : bool :=
  ws_ok (gw_base ws) &&
  Nat.leb 1 (fst (gw_mod ws Possibility)) && Nat.leb 1 (fst (gw_mod ws Necessity)) &&
  Nat.leb 1 (fst (gw_qu ws Existential)) && Nat.leb 1 (fst (gw_qu ws Universal)).

Lemma gsw_pos ws s : gws_ok ws = true -> 1 <= gsw ws s.
Proof.
  unfold gws_ok, ws_ok. rewrite !andb_true_iff, !forallb_forall.
  intros [[[[[[_ Hu] Hb] Hp] Hn] He] Ha].
  apply Nat.leb_le in Hp, Hn, He, Ha.
  induction s as [n|p ts|o a IH|o a IHa b IHb|o a IH|q x a IH]; simpl; try lia.
  - specialize (Hu o (all_uops_complete o)). destruct (w_un (gw_base ws) o) as [k c]. cbn [fst] in Hu.
    apply Nat.leb_le in Hu. nia.
  - specialize (Hb o (all_bops_complete o)). destruct (w_bin (gw_base ws) o) as [[al be] ga].
    apply andb_true_iff in Hb. destruct Hb as [H1 H2]. apply Nat.leb_le in H1, H2. nia.
  - destruct o; [destruct (gw_mod ws Possibility) as [k c]|destruct (gw_mod ws Necessity) as [k c]]; cbn [fst] in *; nia.
  - destruct q; [destruct (gw_qu ws Existential) as [k c]|destruct (gw_qu ws Universal) as [k c]]; cbn [fst] in *; nia.
Qed.

Lemma gsw_subst ws x c s : gsw ws (subst x c s) = gsw ws s.
Proof. induction s; simpl; try reflexivity; try (rewrite IHs; reflexivity). rewrite IHs1, IHs2. reflexivity. Qed.

(* two-operand linear forms for truth-functional schemas, w.r.t. gsw *)
Lemma glw_inst ws ops s : two_opd s = true ->
  gsw ws (inst ops s) = lf_eval (lw (gw_base ws) s) (gsw ws (ops 0)) (gsw ws (ops 1)).
Proof.
  induction s as [i|o a IH|o a IHa b IHb]; simpl; intro H.
  - destruct i as [|[|i]]; simpl; try lia. discriminate.
  - rewrite IH by exact H. destruct (w_un (gw_base ws) o) as [k c]. destruct (lw (gw_base ws) a) as [[a0 a1] ak].
    unfold lf_eval. nia.
  - apply andb_true_iff in H. destruct H as [H1 H2]. rewrite IHa, IHb by assumption.
    destruct (w_bin (gw_base ws) o) as [[al be] ga]. destruct (lw (gw_base ws) a) as [[a0 a1] ak].
    destruct (lw (gw_base ws) b) as [[b0 b1] bk]. unfold lf_eval. nia.
Qed.

(* one-variable linear forms k * x + c for element contexts *)
Definition lf1 := (nat * nat)%type.
Definition lf1_eval (f : lf1) (x : nat) : nat := fst f * x + snd f.
Definition lf1_comp (g f : lf1) : lf1 := (fst g * fst f, fst g * snd f + snd g).   (* g after f *)
Definition lf1_lt (f g : lf1) : bool := Nat.leb (fst f) (fst g) && Nat.ltb (fst f + snd f) (fst g + snd g).

Lemma lf1_comp_eval g f x : lf1_eval (lf1_comp g f) x = lf1_eval g (lf1_eval f x).
Proof. unfold lf1_comp, lf1_eval. simpl. nia. Qed.
Lemma lf1_lt_spec f g x : lf1_lt f g = true -> 1 <= x -> lf1_eval f x < lf1_eval g x.
Proof.
  unfold lf1_lt, lf1_eval. rewrite andb_true_iff. intros [H1 H2] Hx.
  apply Nat.leb_le in H1. apply Nat.ltb_lt in H2. nia.
Qed.

Fixpoint fw (ws : gwspec) (f : vfun) : lf1 :=
  match f with
  | FId => (1, 0)
  | FUn o f => lf1_comp (w_un (gw_base ws) o) (fw ws f)
  | FBin o f g => let '(al, be, ga) := w_bin (gw_base ws) o in
                  (al * fst (fw ws f) + be * fst (fw ws g), al * snd (fw ws f) + be * snd (fw ws g) + ga)
  end.

Lemma gsw_finst ws f a : gsw ws (finst f a) = lf1_eval (fw ws f) (gsw ws a).
Proof.
  induction f as [|o f IH|o f IHf g IHg]; simpl.
  - unfold lf1_eval. simpl. lia.
  - rewrite IH. destruct (w_un (gw_base ws) o) as [k c]. unfold lf1_comp, lf1_eval. simpl. nia.
  - rewrite IHf, IHg. destruct (w_bin (gw_base ws) o) as [[al be] ga]. unfold lf1_eval. simpl. nia.
Qed.

Definition genw (ws : gwspec) (isq univ : bool) : lf1 :=
  if isq then gw_qu ws (if univ then Universal else Existential)
  else gw_mod ws (if univ then Necessity else Possibility).

Lemma gsw_mkgen ws isq univ x a : gsw ws (mkgen isq univ x a) = lf1_eval (genw ws isq univ) (gsw ws a).
Proof.
  unfold mkgen, genw, lf1_eval. destruct isq; simpl.
  - destruct (gw_qu ws (if univ then Universal else Existential)) as [k c]. reflexivity.
  - destruct (gw_mod ws (if univ then Necessity else Possibility)) as [k c]. reflexivity.
Qed.

Definition negw (ws : gwspec) (neg : bool) : lf1 := if neg then w_un (gw_base ws) Negation else (1, 0).
Lemma gsw_wrapneg ws neg s : gsw ws (wrapneg neg s) = lf1_eval (negw ws neg) (gsw ws s).
Proof.
  unfold wrapneg, negw, lf1_eval. destruct neg; simpl; [|lia].
  destruct (w_un (gw_base ws) Negation) as [k c]. reflexivity.
Qed.

Definition dscale (ws : gwspec) (d : bool) : lf1 := if d then (1, 0) else w_ud (gw_base ws).
Definition gnw (ws : gwspec) (n : node) : nat :=
  match n with NS s d _ => lf1_eval (dscale ws d) (gsw ws s) | NA _ _ => 0 end.

(* the form of the principal of a generalising rule and of the nodes of its conditions, in x = gsw body *)
Definition gprincipal_form (ws : gwspec) (gr : grule) : lf1 :=
  lf1_comp (dscale ws (g_d gr)) (lf1_comp (negw ws (g_neg gr)) (genw ws (g_isq gr) (g_univ gr))).

Definition cond_forms (ws : gwspec) (isq : bool) (c : cond) : list lf1 :=
  match c with
  | CEx cs => map (fun fd => lf1_comp (dscale ws (snd fd)) (fw ws (fst fd))) cs
  | CAll f d' => [lf1_comp (dscale ws d') (fw ws f)]
  | CGen u f outer d' =>
      [lf1_comp (dscale ws d') (lf1_comp (fw ws outer) (lf1_comp (genw ws isq u) (fw ws f)))]
  end.

Definition grule_decreases (ws : gwspec) (gr : grule) : bool :=
  forallb (fun g => forallb (fun c => forallb (fun f => lf1_lt f (gprincipal_form ws gr))
                                               (cond_forms ws (g_isq gr) c)) g)
          (q_groups (g_q gr)).

(* every node of a truth-functional extension group weighs less than the principal *)
Definition tf_node_decreases (ws : gwspec) (r : tfrule) : bool :=
  forallb (forallb (fun n => lf_lt (nform (gw_base ws) n) (nform (gw_base ws) (r_principal r)))) (r_exts r).

(* ---- the model of a branch and the Hintikka theorem ---- *)
Fixpoint has_quant (s : sent) : bool :=
  match s with
  | Atom _ | Pred _ _ => false
  | Un _ a | Mod _ a => has_quant a
  | Bin _ a b => has_quant a || has_quant b
  | Qu _ _ _ => true
  end.

Section Hintikka.
  Variable L : flogic.
  Variable dv : val.
  Variable ws : gwspec.
  Let S := fl_S L.
  Let t := s_t S.

  Record complete_okF : Prop := {
    cf_two : forallb rule_two_opd (fl_rules L) = true;
    cf_rules : forallb (fun r => is_none (tf_complete t r)) (fl_rules L) = true;
    cf_grules : forallb (fun gr => is_none (q_complete t (s_ge S) (s_gu S) (g_isq gr) (gq gr)) && wit_ok gr
                                   && (if g_isq gr then s_quant S else s_modal S)) (fl_grules L) = true;
    cf_cc : closure_complete t (fl_hd L) (fl_ks L) = None;
    cf_closed : closed_ok t = true;
    cf_gen : gen_closed S = true;
    cf_dv : In dv (t_vals t);
    cf_ws : gws_ok ws = true;
    cf_tfdec : forallb (tf_node_decreases ws) (fl_rules L) = true;
    cf_gdec : forallb (grule_decreases ws) (fl_grules L) = true }.

  Variable b : list node.
  Variable tk : list nat.

  Record branch_ok : Prop := {
    bo_sat : unsaturated L b tk = [];
    bo_open : branch_closed (fl_ks L) b = false;
    bo_des : des_ok (fl_hd L) b;
    bo_interp : forall s d w, In (NS s d w) b -> interp S s = true;
    bo_wfq : forall s d w, In (NS s d w) b -> wfq s = true;
    bo_closed : forall s d w, In (NS s d w) b -> closedb [] s = true;
    bo_dom : existsb (fun n => match n with NS s _ _ => has_quant s | _ => false end) b = true ->
             branch_consts b <> [] }.

  Definition bmodel : model :=
    {| m_worlds := branch_worlds b;
       m_R := fun a c => has b (NA a c);
       m_dom := branch_consts b;
       m_const := fun c => c;
       m_atom := fun w n => rd (fl_hd L) dv b w (Atom n);
       m_pred := fun w p ds => rd (fl_hd L) dv b w (Pred p (map TC ds));
       m_opq := fun w s => if not_neg s then rd (fl_hd L) dv b w s else dv |}.

  Definition idw : nat -> nat := fun w => w.

  Hypothesis OK : complete_okF.
  Hypothesis BO : branch_ok.

  Lemma rd_in_vals w s : not_neg s = true -> In (rd (fl_hd L) dv b w s) (t_vals t).
  Proof.
    intro Hn. apply (rd_vals t (fl_hd L) (fl_ks L) dv b (cf_cc OK) (bo_open BO) (bo_des BO) (cf_dv OK) w s Hn).
  Qed.

  Lemma bmodel_vals : forall s w env, In (eval S bmodel w env s) (t_vals t).
  Proof.
    apply eval_vals3; [exact (cf_closed OK)|exact (cf_gen OK)| | |].
    - intros w n. simpl. apply rd_in_vals. reflexivity.
    - intros w p ds. simpl. apply rd_in_vals. reflexivity.
    - intros w s. simpl. destruct (not_neg s) eqn:E; [apply rd_in_vals; exact E|exact (cf_dv OK)].
  Qed.

  Lemma bcomp w env : compositional t (eval S bmodel w env).
  Proof. constructor; [reflexivity|reflexivity|intro s; apply bmodel_vals]. Qed.

  (* ---- saturation, node by node ---- *)
  Lemma clauses_from_nil b0 : forall l k, clauses_from L b0 tk k l = [] ->
    forall j n, nth_error l j = Some n -> node_clauses L b0 tk (k + j) n = [].
  Proof.
    induction l as [|m r IH]; intros k H j n Hn; [destruct j; discriminate|].
    simpl in H. apply app_eq_nil in H. destruct H as [H1 H2].
    destruct j as [|j]; simpl in Hn.
    - injection Hn as <-. rewrite Nat.add_0_r. exact H1.
    - replace (k + Datatypes.S j) with (Datatypes.S k + j) by lia. apply (IH (Datatypes.S k) H2 j n Hn).
  Qed.

  Lemma node_saturated i n : nth_error b i = Some n -> node_clauses L b tk i n = [].
  Proof.
    intro Hn. pose proof (bo_sat BO) as H. unfold unsaturated in H. apply app_eq_nil in H. destruct H as [H _].
    apply (clauses_from_nil b b 0 H i n Hn).
  Qed.

  Lemma incl_nodes_spec g : incl_nodes g b = true -> forall m, In m g -> In m b.
  Proof. unfold incl_nodes. rewrite forallb_forall. intros H m Hm. apply has_In. apply H. exact Hm. Qed.

  (* ---- literals ---- *)
  Lemma closed_terms_id ts : forallb (term_closed []) ts = true -> map TC (map (tval bmodel env0) ts) = ts.
  Proof.
    induction ts as [|x r IH]; simpl; intro H; [reflexivity|].
    apply andb_true_iff in H. destruct H as [H1 H2]. rewrite IH by exact H2.
    destruct x as [c|v]; simpl in *; [reflexivity|discriminate].
  Qed.

  Lemma eval_atomic_like w s : atomic_like S s = true -> closedb [] s = true ->
    eval S bmodel w env0 s = rd (fl_hd L) dv b w s /\ not_neg s = true.
  Proof.
    intros Ha Hc. destruct s as [n|p ts|o a|o a c|o a|q x a]; simpl in Ha; try discriminate; simpl.
    - auto.
    - simpl in Hc. rewrite (closed_terms_id ts Hc). auto.
    - apply negb_true_iff in Ha. rewrite Ha. auto.
    - apply negb_true_iff in Ha. rewrite Ha. auto.
  Qed.

  Lemma literal_sat s d w : In (NS s d w) b -> literal_like S s = true -> isat S bmodel idw (NS s d w).
  Proof.
    intros Hin Hl. simpl. unfold idw. pose proof (bo_closed BO _ _ _ Hin) as Hc.
    unfold literal_like in Hl. apply orb_true_iff in Hl. destruct Hl as [Hl|Hl].
    - destruct (eval_atomic_like w s Hl Hc) as [E Hn]. rewrite E.
      apply (rd_pos t (fl_hd L) (fl_ks L) dv b (cf_cc OK) (bo_open BO) (bo_des BO) w s d Hn Hin).
    - destruct s as [| |o a| | |]; try discriminate. destruct o; try discriminate.
      simpl in Hc. destruct (eval_atomic_like w a Hl Hc) as [E Hn].
      change (eval S bmodel w env0 (Un Negation a)) with (t_un t Negation (eval S bmodel w env0 a)).
      rewrite E.
      apply (rd_neg t (fl_hd L) (fl_ks L) dv b (cf_cc OK) (bo_open BO) (bo_des BO) w a d Hn Hin).
  Qed.

  (* ---- weights of instantiated nodes ---- *)
  Lemma nwd_dscale d x : nwd (gw_base ws) d x = lf1_eval (dscale ws d) x.
  Proof. unfold nwd, dscale, lf1_eval. destruct d; simpl; lia. Qed.

  Lemma gnw_inst ops n0 w : two_opd (ns_s n0) = true ->
    gnw ws (NS (inst ops (ns_s n0)) (ns_d n0) w) =
    lf_eval (nform (gw_base ws) n0) (gsw ws (ops 0)) (gsw ws (ops 1)).
  Proof. intro H. simpl. rewrite nform_eval, <- nwd_dscale, glw_inst by exact H. reflexivity. Qed.

  Lemma acc_bmodel w u : In u (acc bmodel w) <-> In (NA w u) b.
  Proof.
    unfold acc. simpl. rewrite filter_In. split.
    - intros [_ H]. apply has_In. exact H.
    - intro H. split; [|apply has_In; exact H].
      unfold branch_worlds. apply nodup_In. apply in_flat_map. exists (NA w u). split; [exact H|]. simpl. auto.
  Qed.

  (* the principal node of a generalising rule: satisfied iff its condition holds *)
  Lemma principal_iff u gr x a s d :
    s = wrapneg (g_neg gr) (mkgen (g_isq gr) (g_univ gr) x a) -> d = g_d gr -> interp S s = true ->
    (t_des t (eval S bmodel u env0 s) = d <->
     condP t (s_ge S) (s_gu S) (if g_isq gr then vsQ L bmodel u x a else vsM L bmodel u a) (gr_principal gr)).
  Proof.
    intros Es Ed Hi. unfold t, S in *. unfold gr_principal. cbn [condP]. rewrite map_fval_id.
    subst s d. rewrite interp_wrapneg, interp_mkgen in Hi. apply andb_true_iff in Hi. destruct Hi as [Hq Hi].
    rewrite eval_wrapneg. destruct (g_isq gr).
    - rewrite (eval_mkgen_q L _ _ _ _ _ _ Hq). unfold vsQ. tauto.
    - rewrite (eval_mkgen_m L _ _ _ _ _ _ Hq). unfold vsM. tauto.
  Qed.

  Lemma cgen_iff_q u x a univ' f outer d' : s_quant S = true ->
    (condP t (s_ge S) (s_gu S) (vsQ L bmodel u x a) (CGen univ' f outer d') <->
     t_des t (eval S bmodel u env0 (finst outer (mkgen true univ' x (finst f a)))) = d').
  Proof.
    intros Hq. unfold t, S in *. cbn [condP]. rewrite eval_finst, (eval_mkgen_q L _ _ _ _ _ _ Hq).
    unfold vsQ. rewrite map_map.
    rewrite (map_ext (fun dd => eval (fl_S L) bmodel u (upd env0 x dd) (finst f a)) _
                     (fun dd => eval_finst (fl_S L) bmodel u (upd env0 x dd) f a)).
    tauto.
  Qed.

  Lemma cgen_iff_m u x a univ' f outer d' : s_modal S = true ->
    (condP t (s_ge S) (s_gu S) (vsM L bmodel u a) (CGen univ' f outer d') <->
     t_des t (eval S bmodel u env0 (finst outer (mkgen false univ' x (finst f a)))) = d').
  Proof.
    intros Hq. unfold t, S in *. cbn [condP]. rewrite eval_finst, (eval_mkgen_m L _ _ _ _ _ _ Hq).
    unfold vsM. rewrite map_map.
    rewrite (map_ext (fun v => eval (fl_S L) bmodel v env0 (finst f a)) _
                     (fun v => eval_finst (fl_S L) bmodel v env0 f a)).
    tauto.
  Qed.

  Lemma grule_c gr : In gr (fl_grules L) ->
    q_complete t (s_ge S) (s_gu S) (g_isq gr) (gq gr) = None /\ wit_ok gr = true /\
    (if g_isq gr then s_quant S else s_modal S) = true /\ grule_decreases ws gr = true.
  Proof.
    intro Hin. pose proof (cf_grules OK) as H. rewrite forallb_forall in H. specialize (H gr Hin).
    rewrite !andb_true_iff in H. destruct H as [[H1 H2] H3]. apply is_none_true in H1.
    pose proof (cf_gdec OK) as H4. rewrite forallb_forall in H4. specialize (H4 gr Hin). auto.
  Qed.

  Lemma wfq_parts neg isq univ x a : wfq (wrapneg neg (mkgen isq univ x a)) = true ->
    wfq a = true /\ (isq = true -> nobind x a = true).
  Proof.
    unfold wrapneg, mkgen. destruct neg, isq; simpl; intro H;
      try (apply andb_true_iff in H; destruct H); auto; split; auto; discriminate.
  Qed.

  (* THE HINTIKKA THEOREM: the model read off a saturated open branch satisfies every node *)
  Theorem hintikka : forall n, In n b -> isat S bmodel idw n.
  Proof.
    assert (G : forall k n, gnw ws n <= k -> In n b -> isat S bmodel idw n).
    { intro k. induction k as [k IH] using lt_wf_ind. intros n Hle Hin.
      assert (Sub : forall m, In m b -> gnw ws m < gnw ws n -> isat S bmodel idw m).
      { intros m Hm Hlt. apply (IH (gnw ws m)); [lia|lia|exact Hm]. }
      destruct n as [s d w|w1 w2].
      2:{ simpl. unfold idw. apply acc_bmodel. exact Hin. }
      destruct (In_nth_error _ _ Hin) as [i Hi].
      pose proof (node_saturated i _ Hi) as Hcl. unfold node_clauses in Hcl.
      destruct (literal_like (fl_S L) s) eqn:El; [apply literal_sat; assumption|].
      pose proof (bo_interp BO _ _ _ Hin) as Hint.
      pose proof (bo_wfq BO _ _ _ Hin) as Hwf.
      pose proof (bo_closed BO _ _ _ Hin) as Hcb.
      destruct (find_rule (fl_rules L) s d) as [[r p]|] eqn:Ef.
      - (* truth-functional *)
        apply app_eq_nil in Hcl. destruct Hcl as [_ Hcl].
        destruct (existsb (fun g => incl_nodes g b) (inst_groups r p w)) eqn:Eg; [|discriminate].
        apply existsb_exists in Eg. destruct Eg as [g [Hg Hinc]].
        apply find_rule_spec in Ef. destruct Ef as [Hr Hm]. apply match_rule_spec in Hm. destruct Hm as [Es Ed].
        pose proof (cf_two OK) as H2. rewrite forallb_forall in H2. specialize (H2 r Hr).
        pose proof (cf_rules OK) as H3. rewrite forallb_forall in H3. specialize (H3 r Hr). apply is_none_true in H3.
        pose proof (cf_tfdec OK) as H4. rewrite forallb_forall in H4. specialize (H4 r Hr).
        pose proof H2 as H2'. unfold rule_two_opd in H2'. apply andb_true_iff in H2'. destruct H2' as [H2p H2g].
        unfold inst_groups in Hg. apply in_map_iff in Hg. destruct Hg as [g0 [<- Hg0]].
        assert (Hgs : bsat t (fun w0 => eval S bmodel w0 env0) (inst_group (ops_of p) w g0)).
        { intros m Hm. pose proof (incl_nodes_spec _ Hinc m Hm) as Hmb.
          unfold inst_group in Hm. apply in_map_iff in Hm. destruct Hm as [n0 [<- Hn0]].
          assert (Hlt : gnw ws (NS (inst (ops_of p) (ns_s n0)) (ns_d n0) w) < gnw ws (NS s d w)).
          { rewrite forallb_forall in H2g. specialize (H2g g0 Hg0). rewrite forallb_forall in H2g.
            rewrite (gnw_inst (ops_of p) n0 w (H2g n0 Hn0)).
            replace (gnw ws (NS s d w)) with
              (lf_eval (nform (gw_base ws) (r_principal r)) (gsw ws (ops_of p 0)) (gsw ws (ops_of p 1))).
            2:{ rewrite Es, Ed. symmetry. apply (gnw_inst (ops_of p) (r_principal r) w H2p). }
            unfold tf_node_decreases in H4. rewrite forallb_forall in H4. specialize (H4 g0 Hg0).
            rewrite forallb_forall in H4. specialize (H4 n0 Hn0).
            apply lf_lt_spec; [exact H4| apply gsw_pos; exact (cf_ws OK) | apply gsw_pos; exact (cf_ws OK)]. }
          specialize (Sub _ Hmb Hlt). simpl in Sub. unfold idw in Sub. simpl. exact Sub. }
        pose proof (groups_inst_ext_sat t (fun w0 => eval S bmodel w0 env0) r p w (inst_group (ops_of p) w g0)
                      (in_map _ _ _ Hg0) Hgs) as Hext.
        pose proof (tf_complete_lift _ _ H2 H3 (eval S bmodel w env0) (ops_of p) (bcomp w env0) Hext) as Hns.
        unfold node_sat in Hns. apply Bool.eqb_prop in Hns. simpl. unfold idw. rewrite Es, Ed. exact Hns.
      - destruct (find_grule true (fl_grules L) s d) as [[gr [x a]]|] eqn:Efg.
        + (* witness rule *)
          apply app_eq_nil in Hcl. destruct Hcl as [_ Hcl].
          match type of Hcl with (if ?c then _ else _) = _ => destruct c eqn:Eg; [|discriminate] end.
          apply existsb_exists in Eg. destruct Eg as [cg [Hcg Hwit]].
          apply find_grule_spec in Efg. destruct Efg as [Hgr [Htick Hgm]]. apply gmatch_spec in Hgm.
          destruct Hgm as [Es Ed].
          destruct (grule_c gr Hgr) as [Hqc [Hwo [Hflag Hdec]]].
          destruct (wfq_parts _ _ _ _ _ (eq_ind _ (fun z => wfq z = true) Hwf _ Es)) as [Hwfa Hnb].
          assert (Hia : interp S a = true).
          { unfold S in *. rewrite Es, interp_wrapneg, interp_mkgen in Hint. apply andb_true_iff in Hint. tauto. }
          (* weights of the group's nodes *)
          assert (Hx : 1 <= gsw ws a) by (apply gsw_pos; exact (cf_ws OK)).
          assert (Hpw : gnw ws (NS s d w) = lf1_eval (gprincipal_form ws gr) (gsw ws a)).
          { simpl. rewrite Es, Ed, gsw_wrapneg, gsw_mkgen. unfold gprincipal_form.
            rewrite !lf1_comp_eval. reflexivity. }
          assert (Hcdec : forall c0, In c0 cg -> forall f0, In f0 (cond_forms ws (g_isq gr) c0) ->
                     lf1_eval f0 (gsw ws a) < gnw ws (NS s d w)).
          { intros c0 Hc0 f0 Hf0. rewrite Hpw. apply lf1_lt_spec; [|exact Hx].
            unfold grule_decreases in Hdec. rewrite forallb_forall in Hdec. specialize (Hdec cg Hcg).
            rewrite forallb_forall in Hdec. specialize (Hdec c0 Hc0). rewrite forallb_forall in Hdec. auto. }
          apply (principal_iff (idw w) gr x a s d Es Ed Hint).
          destruct (g_isq gr) eqn:Eq.
          * (* quantifier witness *)
            apply (q_complete_lift t (s_ge S) (s_gu S) true (gq gr) Hqc).
            { intros v Hv. unfold vsQ in Hv. apply in_map_iff in Hv. destruct Hv as [dd [<- _]]. apply bmodel_vals. }
            { intros _ E. unfold vsQ in E. apply map_eq_nil in E. simpl in E.
              apply (bo_dom BO); [|exact E]. apply existsb_exists. exists (NS s d w). split; [exact Hin|].
              rewrite Es. unfold wrapneg, mkgen. destruct (g_neg gr); reflexivity. }
            exists cg. split; [exact Hcg|]. intros c0 Hc0.
            apply orb_true_iff in Hwit. destruct Hwit as [Hwit|Hwit].
            -- apply existsb_exists in Hwit. destruct Hwit as [c [Hc Hinc]].
               assert (Hnodes : forall m, In m (cond_nodes true x a (subst x c a) w w c0) -> In m b).
               { intros m Hm. apply (incl_nodes_spec _ Hinc). unfold group_nodes. apply in_flat_map. exists c0. auto. }
               assert (Hsub : forall f0, eval S bmodel w env0 (finst f0 (subst x c a)) =
                                         fval t f0 (eval S bmodel w (upd env0 x c) a)).
               { intro f0. rewrite eval_finst, subst_eval; [reflexivity|exact Hia|apply Hnb; reflexivity]. }
               destruct c0 as [cs|f0 d0|u0 f0 outer d0].
               ++ cbn [condP]. exists (eval S bmodel w (upd env0 x c) a). split.
                  ** unfold vsQ. apply in_map_iff. exists c. split; [reflexivity|exact Hc].
                  ** intros fd Hfd.
                     assert (Hm : In (NS (finst (fst fd) (subst x c a)) (snd fd) w) b).
                     { apply Hnodes. simpl. apply in_map_iff. exists fd. auto. }
                     assert (Hlt : gnw ws (NS (finst (fst fd) (subst x c a)) (snd fd) w) < gnw ws (NS s d w)).
                     { cbn [gnw]. rewrite gsw_finst, gsw_subst, <- lf1_comp_eval.
                       apply (Hcdec (CEx cs) Hc0). simpl. apply in_map_iff. exists fd. auto. }
                     pose proof (Sub _ Hm Hlt) as Hs. simpl in Hs. unfold idw in Hs. rewrite Hsub in Hs. exact Hs.
               ++ exfalso. unfold wit_ok in Hwo. apply andb_true_iff in Hwo. destruct Hwo as [_ Hwo].
                  rewrite Htick in Hwo. simpl in Hwo. rewrite forallb_forall in Hwo. specialize (Hwo cg Hcg).
                  rewrite forallb_forall in Hwo. specialize (Hwo _ Hc0). discriminate.
               ++ apply (cgen_iff_q (idw w) x a u0 f0 outer d0 Hflag).
                  assert (Hm : In (NS (finst outer (mkgen true u0 x (finst f0 a))) d0 w) b).
                  { apply Hnodes. simpl. auto. }
                  assert (Hlt : gnw ws (NS (finst outer (mkgen true u0 x (finst f0 a))) d0 w) < gnw ws (NS s d w)).
                  { cbn [gnw]. rewrite gsw_finst, gsw_mkgen, gsw_finst.
                    pose proof (Hcdec (CGen u0 f0 outer d0) Hc0 _ (or_introl eq_refl)) as Hd.
                    rewrite !lf1_comp_eval in Hd. exact Hd. }
                  pose proof (Sub _ Hm Hlt) as Hs. simpl in Hs. exact Hs.
            -- apply andb_true_iff in Hwit. destruct Hwit as [Hnoex Hinc]. apply negb_true_iff in Hnoex.
               assert (Hnodes : forall m, In m (cond_nodes true x a a w w c0) -> In m b).
               { intros m Hm. apply (incl_nodes_spec _ Hinc). unfold group_nodes. apply in_flat_map. exists c0. auto. }
               destruct c0 as [cs|f0 d0|u0 f0 outer d0].
               ++ exfalso. assert (existsb is_ex cg = true) by (apply existsb_exists; exists (CEx cs); auto). congruence.
               ++ exfalso. unfold wit_ok in Hwo. apply andb_true_iff in Hwo. destruct Hwo as [_ Hwo].
                  rewrite Htick in Hwo. simpl in Hwo. rewrite forallb_forall in Hwo. specialize (Hwo cg Hcg).
                  rewrite forallb_forall in Hwo. specialize (Hwo _ Hc0). discriminate.
               ++ apply (cgen_iff_q (idw w) x a u0 f0 outer d0 Hflag).
                  assert (Hm : In (NS (finst outer (mkgen true u0 x (finst f0 a))) d0 w) b).
                  { apply Hnodes. simpl. auto. }
                  assert (Hlt : gnw ws (NS (finst outer (mkgen true u0 x (finst f0 a))) d0 w) < gnw ws (NS s d w)).
                  { cbn [gnw]. rewrite gsw_finst, gsw_mkgen, gsw_finst.
                    pose proof (Hcdec (CGen u0 f0 outer d0) Hc0 _ (or_introl eq_refl)) as Hd.
                    rewrite !lf1_comp_eval in Hd. exact Hd. }
                  pose proof (Sub _ Hm Hlt) as Hs. simpl in Hs. exact Hs.
          * (* modal witness *)
            apply (q_complete_lift t (s_ge S) (s_gu S) false (gq gr) Hqc).
            { intros v Hv. unfold vsM in Hv. apply in_map_iff in Hv. destruct Hv as [dd [<- _]]. apply bmodel_vals. }
            { discriminate. }
            exists cg. split; [exact Hcg|]. intros c0 Hc0.
            apply orb_true_iff in Hwit. destruct Hwit as [Hwit|Hwit].
            -- apply existsb_exists in Hwit. destruct Hwit as [w' [Hw' Hinc]].
               assert (Hnodes : forall m, In m (cond_nodes false x a a w w' c0) -> In m b).
               { intros m Hm. apply (incl_nodes_spec _ Hinc). apply in_or_app. right.
                 unfold group_nodes. apply in_flat_map. exists c0. auto. }
               destruct c0 as [cs|f0 d0|u0 f0 outer d0].
               ++ assert (Hacc : In (NA w w') b).
                  { apply (incl_nodes_spec _ Hinc). apply in_or_app. left. unfold acc_node.
                    assert (Hex : existsb is_ex cg = true) by (apply existsb_exists; exists (CEx cs); auto).
                    rewrite Hex. left. reflexivity. }
                  cbn [condP]. exists (eval S bmodel w' env0 a). split.
                  ** unfold vsM. apply in_map_iff. exists w'. split; [reflexivity|]. apply acc_bmodel. exact Hacc.
                  ** intros fd Hfd.
                     assert (Hm : In (NS (finst (fst fd) a) (snd fd) w') b).
                     { apply Hnodes. simpl. apply in_map_iff. exists fd. auto. }
                     assert (Hlt : gnw ws (NS (finst (fst fd) a) (snd fd) w') < gnw ws (NS s d w)).
                     { cbn [gnw]. rewrite gsw_finst, <- lf1_comp_eval.
                       apply (Hcdec (CEx cs) Hc0). simpl. apply in_map_iff. exists fd. auto. }
                     pose proof (Sub _ Hm Hlt) as Hs. simpl in Hs. unfold idw in Hs. rewrite eval_finst in Hs. exact Hs.
               ++ exfalso. unfold wit_ok in Hwo. apply andb_true_iff in Hwo. destruct Hwo as [_ Hwo].
                  rewrite Htick in Hwo. simpl in Hwo. rewrite forallb_forall in Hwo. specialize (Hwo cg Hcg).
                  rewrite forallb_forall in Hwo. specialize (Hwo _ Hc0). discriminate.
               ++ apply (cgen_iff_m (idw w) x a u0 f0 outer d0 Hflag).
                  assert (Hm : In (NS (finst outer (mkgen false u0 x (finst f0 a))) d0 w) b).
                  { apply Hnodes. simpl. auto. }
                  assert (Hlt : gnw ws (NS (finst outer (mkgen false u0 x (finst f0 a))) d0 w) < gnw ws (NS s d w)).
                  { cbn [gnw]. rewrite gsw_finst, gsw_mkgen, gsw_finst.
                    pose proof (Hcdec (CGen u0 f0 outer d0) Hc0 _ (or_introl eq_refl)) as Hd.
                    rewrite !lf1_comp_eval in Hd. exact Hd. }
                  pose proof (Sub _ Hm Hlt) as Hs. simpl in Hs. exact Hs.
            -- apply andb_true_iff in Hwit. destruct Hwit as [Hnoex Hinc]. apply negb_true_iff in Hnoex.
               assert (Hnodes : forall m, In m (cond_nodes false x a a w w c0) -> In m b).
               { intros m Hm. apply (incl_nodes_spec _ Hinc). unfold group_nodes. apply in_flat_map. exists c0. auto. }
               destruct c0 as [cs|f0 d0|u0 f0 outer d0].
               ++ exfalso. assert (existsb is_ex cg = true) by (apply existsb_exists; exists (CEx cs); auto). congruence.
               ++ exfalso. unfold wit_ok in Hwo. apply andb_true_iff in Hwo. destruct Hwo as [_ Hwo].
                  rewrite Htick in Hwo. simpl in Hwo. rewrite forallb_forall in Hwo. specialize (Hwo cg Hcg).
                  rewrite forallb_forall in Hwo. specialize (Hwo _ Hc0). discriminate.
               ++ apply (cgen_iff_m (idw w) x a u0 f0 outer d0 Hflag).
                  assert (Hm : In (NS (finst outer (mkgen false u0 x (finst f0 a))) d0 w) b).
                  { apply Hnodes. simpl. auto. }
                  assert (Hlt : gnw ws (NS (finst outer (mkgen false u0 x (finst f0 a))) d0 w) < gnw ws (NS s d w)).
                  { cbn [gnw]. rewrite gsw_finst, gsw_mkgen, gsw_finst.
                    pose proof (Hcdec (CGen u0 f0 outer d0) Hc0 _ (or_introl eq_refl)) as Hd.
                    rewrite !lf1_comp_eval in Hd. exact Hd. }
                  pose proof (Sub _ Hm Hlt) as Hs. simpl in Hs. exact Hs.
        + (* per-instance rule *)
          destruct (find_grule false (fl_grules L) s d) as [[gr [x a]]|] eqn:Efg2; [|discriminate].
          destruct (q_groups (g_q gr)) as [|[|[|f0 d0|] [|]] [|]] eqn:Egr; try discriminate.
          apply find_grule_spec in Efg2. destruct Efg2 as [Hgr [Htick Hgm]]. apply gmatch_spec in Hgm.
          destruct Hgm as [Es Ed].
          destruct (grule_c gr Hgr) as [Hqc [Hwo [Hflag Hdec]]].
          destruct (wfq_parts _ _ _ _ _ (eq_ind _ (fun z => wfq z = true) Hwf _ Es)) as [Hwfa Hnb].
          assert (Hia : interp S a = true).
          { unfold S in *. rewrite Es, interp_wrapneg, interp_mkgen in Hint. apply andb_true_iff in Hint. tauto. }
          assert (Hx : 1 <= gsw ws a) by (apply gsw_pos; exact (cf_ws OK)).
          assert (Hpw : gnw ws (NS s d w) = lf1_eval (gprincipal_form ws gr) (gsw ws a)).
          { simpl. rewrite Es, Ed, gsw_wrapneg, gsw_mkgen. unfold gprincipal_form.
            rewrite !lf1_comp_eval. reflexivity. }
          assert (Hfdec : lf1_eval (lf1_comp (dscale ws d0) (fw ws f0)) (gsw ws a) < gnw ws (NS s d w)).
          { rewrite Hpw. apply lf1_lt_spec; [|exact Hx].
            unfold grule_decreases in Hdec. rewrite Egr in Hdec. simpl in Hdec. rewrite !andb_true_r in Hdec. exact Hdec. }
          apply (principal_iff (idw w) gr x a s d Es Ed Hint).
          destruct (g_isq gr) eqn:Eq.
          * match type of Hcl with (if ?c then _ else _) = _ => destruct c eqn:Eg; [|discriminate] end.
            apply andb_true_iff in Eg. destruct Eg as [Hall Hne].
            apply (q_complete_lift t (s_ge S) (s_gu S) true (gq gr) Hqc).
            { intros v Hv. unfold vsQ in Hv. apply in_map_iff in Hv. destruct Hv as [dd [<- _]]. apply bmodel_vals. }
            { intros _ E. unfold vsQ in E. apply map_eq_nil in E. simpl in E. rewrite E in Hne. discriminate. }
            exists [CAll f0 d0]. split; [simpl; rewrite Egr; left; reflexivity|].
            intros c0 [<-|[]]. cbn [condP]. intros v Hv. unfold vsQ in Hv. apply in_map_iff in Hv.
            destruct Hv as [c [<- Hc]]. simpl in Hc.
            rewrite forallb_forall in Hall. specialize (Hall c Hc). apply has_In in Hall.
            assert (Hlt : gnw ws (NS (finst f0 (subst x c a)) d0 w) < gnw ws (NS s d w)).
            { cbn [gnw]. rewrite gsw_finst, gsw_subst, <- lf1_comp_eval. exact Hfdec. }
            pose proof (Sub _ Hall Hlt) as Hs. simpl in Hs. unfold idw in Hs.
            rewrite eval_finst, subst_eval in Hs; [exact Hs|exact Hia|apply Hnb; reflexivity].
          * match type of Hcl with (if ?c then _ else _) = _ => destruct c eqn:Eg; [|discriminate] end.
            apply (q_complete_lift t (s_ge S) (s_gu S) false (gq gr) Hqc).
            { intros v Hv. unfold vsM in Hv. apply in_map_iff in Hv. destruct Hv as [dd [<- _]]. apply bmodel_vals. }
            { discriminate. }
            exists [CAll f0 d0]. split; [simpl; rewrite Egr; left; reflexivity|].
            intros c0 [<-|[]]. cbn [condP]. intros v Hv. unfold vsM in Hv. apply in_map_iff in Hv.
            destruct Hv as [u [<- Hu]]. apply acc_bmodel in Hu.
            rewrite forallb_forall in Eg. specialize (Eg _ Hu). simpl in Eg. rewrite Nat.eqb_refl in Eg. simpl in Eg.
            apply has_In in Eg.
            assert (Hlt : gnw ws (NS (finst f0 a) d0 u) < gnw ws (NS s d w)).
            { cbn [gnw]. rewrite gsw_finst, <- lf1_comp_eval. exact Hfdec. }
            pose proof (Sub _ Eg Hlt) as Hs. simpl in Hs. unfold idw in Hs. rewrite eval_finst in Hs. exact Hs. }
    intros n Hin. apply (G (gnw ws n) n (le_n _) Hin).
  Qed.
End Hintikka.

(* ---- consequences ---- *)
Section HintikkaCor.
  Variable L : flogic.
  Variable dv : val.
  Variable ws : gwspec.
  Variable b : list node.
  Variable tk : list nat.
  Hypothesis OK : complete_okF L dv ws.
  Hypothesis BO : branch_ok L b tk.

  (* the model of a saturated open branch that contains the trunk is a countermodel *)
  Theorem hintikka_countermodel prems concl :
    (forall n, In n (trunk (fl_hd L) 0 prems concl) -> In n b) ->
    (fl_hd L = false -> neg_flips_t (s_t (fl_S L)) = true) ->
    (forall p, In p prems -> t_des (s_t (fl_S L)) (eval (fl_S L) (bmodel L dv b) 0 env0 p) = true) /\
    t_des (s_t (fl_S L)) (eval (fl_S L) (bmodel L dv b) 0 env0 concl) = false.
  Proof.
    intros Hsub Hneg. split.
    - intros p Hp.
      assert (Hin : In (NS p true 0) b).
      { apply Hsub. unfold trunk. apply in_or_app. left. apply in_map_iff. exists p. auto. }
      exact (hintikka L dv ws b tk OK BO _ Hin).
    - assert (Hin : In (if fl_hd L then NS concl false 0 else NS (Un Negation concl) true 0) b).
      { apply Hsub. unfold trunk. apply in_or_app. right. left. reflexivity. }
      pose proof (hintikka L dv ws b tk OK BO _ Hin) as Hs.
      destruct (fl_hd L) eqn:Eh; simpl in Hs; [exact Hs|].
      specialize (Hneg eq_refl). unfold neg_flips_t in Hneg. rewrite forallb_forall in Hneg.
      specialize (Hneg _ (bmodel_vals L dv ws b tk OK BO concl 0 env0)).
      apply Bool.eqb_prop in Hneg. unfold idw in Hs. rewrite Hneg in Hs. apply negb_true_iff in Hs. exact Hs.
  Qed.

  (* the access relation of the branch model has the frame property the logic's rules saturate for *)
  Theorem bmodel_reflexive : fl_refl L = true ->
    forall u, In u (m_worlds (bmodel L dv b)) -> m_R (bmodel L dv b) u u = true.
  Proof.
    intros Hr u Hu. simpl in *. pose proof (bo_sat _ _ _ BO) as Hs. unfold unsaturated in Hs.
    apply app_eq_nil in Hs. destruct Hs as [_ Hf]. unfold frame_clauses in Hf. rewrite Hr in Hf.
    apply app_eq_nil in Hf. destruct Hf as [Hf _].
    destruct (has b (NA u u)) eqn:E; [reflexivity|]. exfalso.
    assert (Hin : In (u, 4) (flat_map (fun w => if has b (NA w w) then [] else [(w, 4)]) (branch_worlds b))).
    { apply in_flat_map. exists u. split; [exact Hu|]. rewrite E. left. reflexivity. }
    rewrite Hf in Hin. contradiction.
  Qed.

  Theorem bmodel_symmetric : fl_sym L = true ->
    forall u v, m_R (bmodel L dv b) u v = true -> m_R (bmodel L dv b) v u = true.
  Proof.
    intros Hy u v Huv. simpl in *. apply has_In in Huv. destruct (In_nth_error _ _ Huv) as [i Hi].
    pose proof (node_saturated L b tk BO i _ Hi) as Hc. simpl in Hc. rewrite Hy in Hc. simpl in Hc.
    apply app_eq_nil in Hc. destruct Hc as [Hc _].
    destruct (has b (NA v u)); [reflexivity|discriminate].
  Qed.

  Theorem bmodel_transitive : fl_trans L = true ->
    forall u v z, m_R (bmodel L dv b) u v = true -> m_R (bmodel L dv b) v z = true -> m_R (bmodel L dv b) u z = true.
  Proof.
    intros Ht u v z Huv Hvz. simpl in *. apply has_In in Huv. apply has_In in Hvz.
    destruct (In_nth_error _ _ Huv) as [i Hi].
    pose proof (node_saturated L b tk BO i _ Hi) as Hc. simpl in Hc. rewrite Ht in Hc. simpl in Hc.
    apply app_eq_nil in Hc. destruct Hc as [_ Hc].
    destruct (has b (NA u z)) eqn:E; [reflexivity|]. exfalso.
    match type of Hc with (if ?c then _ else _) = _ => assert (Hx : c = true) end.
    { apply existsb_exists. exists (NA v z). split; [exact Hvz|]. rewrite Nat.eqb_refl, E. reflexivity. }
    rewrite Hx in Hc. discriminate.
  Qed.
End HintikkaCor.

(* ---- the branch conditions as one boolean ---- *)
Definition branch_okb (L : flogic) (b : list node) (tk : list nat) : bool :=
  match unsaturated L b tk with [] => true | _ => false end &&
  negb (branch_closed (fl_ks L) b) &&
  forallb (node_des_ok (fl_hd L)) b &&
  forallb (fun n => match n with
                    | NS s _ _ => interp (fl_S L) s && wfq s && closedb [] s
                    | NA _ _ => true end) b &&
  (negb (existsb (fun n => match n with NS s _ _ => has_quant s | _ => false end) b) ||
   negb (match branch_consts b with [] => true | _ => false end)).

Lemma branch_okb_spec L b tk : branch_okb L b tk = true -> branch_ok L b tk.
Proof.
  unfold branch_okb. rewrite !andb_true_iff. intros [[[[H1 H2] H3] H4] H5].
  rewrite forallb_forall in H3, H4.
  constructor.
  - destruct (unsaturated L b tk); [reflexivity|discriminate].
  - apply negb_true_iff in H2. exact H2.
  - intros n Hn. apply H3. exact Hn.
  - intros s d w Hin. specialize (H4 _ Hin). simpl in H4. rewrite !andb_true_iff in H4. tauto.
  - intros s d w Hin. specialize (H4 _ Hin). simpl in H4. rewrite !andb_true_iff in H4. tauto.
  - intros s d w Hin. specialize (H4 _ Hin). simpl in H4. rewrite !andb_true_iff in H4. tauto.
  - intros Hq E. apply orb_true_iff in H5. destruct H5 as [H5|H5].
    + rewrite Hq in H5. discriminate.
    + rewrite E in H5. discriminate.
Qed.

Theorem hintikka_b L dv ws b tk : complete_okF L dv ws -> branch_okb L b tk = true ->
  forall n, In n b -> isat (fl_S L) (bmodel L dv b) idw n.
Proof. intros OK H. apply (hintikka L dv ws b tk OK (branch_okb_spec L b tk H)). Qed.
