(* Tab/BranchProofs.v — freshness invariant of the Branch model, for all histories. *)
From Coq Require Import List Bool Arith Lia.
From PT Require Import Tab.Branch.
Import ListNotations.

(* ---- the order on constants ------------------------------------------- *)
Ltac cbool :=
  unfold clt, ceqb, cidx, csub in *; simpl fst in *; simpl snd in *;
  repeat match goal with
  | H : _ || _ = true |- _ => apply orb_true_iff in H; destruct H as [H|H]
  | H : _ && _ = true |- _ => apply andb_true_iff in H; destruct H as [? H]
  | H : _ || _ = false |- _ => apply orb_false_iff in H; destruct H as [? H]
  | H : _ && _ = false |- _ => apply andb_false_iff in H; destruct H as [H|H]
  | H : (_ <? _) = true |- _ => apply Nat.ltb_lt in H
  | H : (_ <? _) = false |- _ => apply Nat.ltb_ge in H
  | H : (_ =? _) = true |- _ => apply Nat.eqb_eq in H
  | H : (_ =? _) = false |- _ => apply Nat.eqb_neq in H
  end.

Lemma ceqb_eq a b : ceqb a b = true <-> a = b.
Proof.
  destruct a as [ai asu], b as [bi bs]. unfold ceqb, cidx, csub; simpl.
  rewrite andb_true_iff, !Nat.eqb_eq. split; [intros [-> ->]; reflexivity|].
  intro E; injection E; auto.
Qed.

Lemma ceqb_refl a : ceqb a a = true.
Proof. apply ceqb_eq. reflexivity. Qed.

Lemma clt_irrefl a : clt a a = false.
Proof.
  destruct a as [i s]. unfold clt, cidx, csub; simpl.
  rewrite !Nat.ltb_irrefl, Nat.eqb_refl. reflexivity.
Qed.

Lemma clt_spec a b : clt a b = true <-> (csub a < csub b \/ (csub a = csub b /\ cidx a < cidx b)).
Proof.
  unfold clt. rewrite orb_true_iff, andb_true_iff, !Nat.ltb_lt, Nat.eqb_eq. tauto.
Qed.

Lemma clt_false_spec a b : clt a b = false <-> (csub b < csub a \/ (csub a = csub b /\ cidx b <= cidx a)).
Proof.
  destruct (clt a b) eqn:E.
  - apply clt_spec in E. split; [discriminate|]. lia.
  - split; [intros _|reflexivity].
    destruct (Nat.lt_trichotomy (csub a) (csub b)) as [L|[L|L]].
    + assert (clt a b = true) by (apply clt_spec; lia). congruence.
    + destruct (Nat.lt_ge_cases (cidx a) (cidx b)) as [M|M].
      * assert (clt a b = true) by (apply clt_spec; lia). congruence.
      * lia.
    + lia.
Qed.

Lemma clt_trans a b c : clt a b = true -> clt b c = true -> clt a c = true.
Proof. rewrite !clt_spec. lia. Qed.

Lemma clt_total a b : clt a b = false -> clt b a = false -> a = b.
Proof.
  rewrite !clt_false_spec. destruct a as [ai asu], b as [bi bs]; unfold cidx, csub; simpl.
  intros H1 H2. f_equal; lia.
Qed.

(* clt a b = false means b <= a *)
Lemma cle_trans a b c : clt b a = false -> clt c b = false -> clt c a = false.
Proof. rewrite !clt_false_spec. lia. Qed.

Lemma cnext_gt maxi c : clt c (cnext maxi c) = true.
Proof.
  unfold cnext. destruct (cidx c <? maxi) eqn:E; apply clt_spec; unfold cidx, csub in *; simpl.
  - right. split; [reflexivity|lia].
  - left. lia.
Qed.

Lemma cmax_ge l : forall c, In c l -> clt (cmax l) c = false.
Proof.
  induction l as [|x r IH]; intros c Hc; [contradiction|].
  simpl. destruct Hc as [<-|Hc].
  - destruct (clt (cmax r) x) eqn:E; [apply clt_irrefl|exact E].
  - specialize (IH c Hc). destruct (clt (cmax r) x) eqn:E; [|exact IH].
    (* c <= cmax r < x *)
    apply clt_false_spec. apply clt_false_spec in IH. apply clt_spec in E. lia.
Qed.

Lemma cmax_in l : l <> [] -> In (cmax l) l \/ cmax l = cfirst.
Proof.
  induction l as [|x r IH]; intros H; [congruence|].
  simpl. destruct (clt (cmax r) x); [left; left; reflexivity|].
  destruct r as [|y r']; [right; reflexivity|].
  destruct IH as [I|I]; [discriminate|left; right; exact I|right; exact I].
Qed.

Lemma cnext_cmax_fresh maxi l : ~ In (cnext maxi (cmax l)) l.
Proof.
  intro H. apply cmax_ge in H. rewrite cnext_gt in H. discriminate.
Qed.

Lemma cnext_cmax_above maxi l c : In c l -> clt c (cnext maxi (cmax l)) = true.
Proof.
  intro H. apply cmax_ge in H. pose proof (cnext_gt maxi (cmax l)) as G.
  apply clt_spec. apply clt_spec in G. apply clt_false_spec in H. lia.
Qed.

(* ---- sets as sorted lists ---------------------------------------------- *)
Lemma cmem_In c l : cmem c l = true <-> In c l.
Proof.
  induction l as [|x r IH]; simpl; [split; [discriminate|contradiction]|].
  rewrite orb_true_iff, IH, ceqb_eq. split; intros [H|H]; auto.
Qed.

Lemma cinsert_In c l x : In x (cinsert c l) <-> x = c \/ In x l.
Proof.
  induction l as [|y r IH]; simpl; [intuition|].
  destruct (clt c y) eqn:E1; simpl; [intuition|].
  destruct (ceqb c y) eqn:E2; simpl.
  - apply ceqb_eq in E2. subst y. intuition.
  - rewrite IH. intuition.
Qed.

Lemma fold_cinsert_In cs l x : In x (fold_right cinsert l cs) <-> In x cs \/ In x l.
Proof.
  induction cs as [|c r IH]; simpl; [intuition|].
  rewrite cinsert_In, IH. intuition.
Qed.

Lemma winsert_In w l x : In x (winsert w l) <-> x = w \/ In x l.
Proof.
  induction l as [|y r IH]; simpl; [intuition|].
  destruct (w <? y) eqn:E1; simpl; [intuition|].
  destruct (w =? y) eqn:E2; simpl.
  - apply Nat.eqb_eq in E2. subst y. intuition.
  - rewrite IH. intuition.
Qed.

Lemma fold_winsert_In ws l x : In x (fold_right winsert l ws) <-> In x ws \/ In x l.
Proof.
  induction ws as [|c r IH]; simpl; [intuition|].
  rewrite winsert_In, IH. intuition.
Qed.

(* canonical form: the sets stay strictly increasing, hence duplicate-free *)
Fixpoint csorted (l : list const) : bool :=
  match l with
  | [] => true
  | x :: r => match r with [] => true | y :: _ => clt x y end && csorted r
  end.

Lemma cinsert_sorted c l : csorted l = true -> csorted (cinsert c l) = true.
Proof.
  induction l as [|x r IH]; intro S; [reflexivity|].
  cbn [cinsert]. destruct (clt c x) eqn:E1.
  - cbn [csorted] in *. rewrite E1. exact S.
  - destruct (ceqb c x) eqn:E2; [exact S|].
    cbn [csorted] in S. apply andb_true_iff in S. destruct S as [S1 S2].
    specialize (IH S2).
    assert (L : clt x c = true).
    { destruct (clt x c) eqn:E3; [reflexivity|].
      rewrite (clt_total _ _ E1 E3), ceqb_refl in E2. discriminate. }
    cbn [csorted]. rewrite IH, andb_true_r.
    destruct r as [|y r']; cbn [cinsert]; [exact L|].
    destruct (clt c y); [exact L|]. destruct (ceqb c y); exact S1.
Qed.

(* ---- worlds ----------------------------------------------------------- *)
Lemma next_world_ge nw ws : nw <= next_world nw ws.
Proof.
  unfold next_world. destruct ws as [|w r]; [lia|].
  destruct (nw <=? list_max (w :: r)) eqn:E; [apply Nat.leb_le in E|]; lia.
Qed.

Lemma next_world_gt nw ws w : In w ws -> w < next_world nw ws.
Proof.
  intro H. unfold next_world. destruct ws as [|w0 r]; [contradiction|].
  assert (L : w <= list_max (w0 :: r)).
  { pose proof (proj1 (list_max_le (w0 :: r) (list_max (w0 :: r))) (Nat.le_refl _)) as F.
    rewrite Forall_forall in F. apply F. exact H. }
  destruct (nw <=? list_max (w0 :: r)) eqn:E; [lia|]. apply Nat.leb_gt in E. lia.
Qed.

(* ---- the invariant ----------------------------------------------------- *)
(* "occurs in a sentence on the branch": some node that the engine treats as a
   sentence node carries it; likewise worlds of modal nodes *)
Definition const_on (c : const) (b : branch) : Prop :=
  exists n, In n (b_nodes b) /\ In c (seen_consts n).
Definition world_on (w : nat) (b : branch) : Prop :=
  exists n, In n (b_nodes b) /\ In w (seen_worlds n).

Record Inv (b : branch) : Prop := {
  inv_consts : forall c, In c (b_consts b) <-> const_on c b;
  inv_worlds : forall w, In w (b_worlds b) <-> world_on w b;
  inv_nextc : ~ In (b_nextc b) (b_consts b);
  inv_nextw : forall w, In w (b_worlds b) -> w < b_nextw b;
  inv_sorted : csorted (b_consts b) = true }.

Lemma Inv_empty : Inv empty.
Proof.
  constructor; simpl; try tauto; try reflexivity.
  - intro c. split; [contradiction|]. intros [n [[] _]].
  - intro w. split; [contradiction|]. intros [n [[] _]].
Qed.

Lemma fold_cinsert_sorted cs l : csorted l = true -> csorted (fold_right cinsert l cs) = true.
Proof. induction cs as [|c r IH]; simpl; intro H; [exact H|]. apply cinsert_sorted, IH, H. Qed.

Lemma append_unfold maxi b n : closed b = false ->
  append maxi b n =
  mkB (n :: b_nodes b) (fold_right cinsert (b_consts b) (seen_consts n))
      (fold_right winsert (b_worlds b) (seen_worlds n))
      (if cmem (b_nextc b) (seen_consts n)
       then cnext maxi (cmax (fold_right cinsert (b_consts b) (seen_consts n))) else b_nextc b)
      (next_world (b_nextw b) (seen_worlds n)).
Proof. intro E. unfold append. rewrite E. reflexivity. Qed.

Lemma append_closed maxi b n : closed b = true -> append maxi b n = b.
Proof. intro E. unfold append. rewrite E. reflexivity. Qed.

Lemma Inv_append maxi b n : Inv b -> Inv (append maxi b n).
Proof.
  intros I. destruct (closed b) eqn:C; [rewrite append_closed by exact C; exact I|].
  rewrite append_unfold by exact C. destruct I as [Ic Iw Inc Inw Is].
  constructor; cbn [b_nodes b_consts b_worlds b_nextc b_nextw].
  - intro c. rewrite fold_cinsert_In, Ic. unfold const_on; cbn [b_nodes]. split.
    + intros [H|[m [Hm Hc]]]; [exists n; simpl; auto|exists m; simpl; auto].
    + intros [m [[<-|Hm] Hc]]; [left; exact Hc|right; exists m; auto].
  - intro w. rewrite fold_winsert_In, Iw. unfold world_on; cbn [b_nodes]. split.
    + intros [H|[m [Hm Hc]]]; [exists n; simpl; auto|exists m; simpl; auto].
    + intros [m [[<-|Hm] Hc]]; [left; exact Hc|right; exists m; auto].
  - destruct (cmem (b_nextc b) (seen_consts n)) eqn:E.
    + apply cnext_cmax_fresh.
    + rewrite fold_cinsert_In. intros [H|H]; [|exact (Inc H)].
      apply cmem_In in H. congruence.
  - intros w. rewrite fold_winsert_In. intros [H|H].
    + apply next_world_gt. exact H.
    + pose proof (next_world_ge (b_nextw b) (seen_worlds n)). specialize (Inw w H). lia.
  - apply fold_cinsert_sorted. exact Is.
Qed.

(* ---- single branch, all append histories -------------------------------- *)
Lemma Inv_history maxi h : Inv (fold_left (append maxi) h empty).
Proof.
  assert (G : forall b, Inv b -> Inv (fold_left (append maxi) h b)).
  { induction h as [|n r IH]; intros b I; simpl; [exact I|]. apply IH, Inv_append, I. }
  apply G, Inv_empty.
Qed.

(* ---- heap, all append/copy histories ------------------------------------ *)
Lemma set_nth_length {A} i (a : A) l : length (set_nth i a l) = length l.
Proof. revert i. induction l as [|x r IH]; intros [|i]; simpl; auto. Qed.

Lemma set_nth_same {A} i (a : A) l : i < length l -> nth_error (set_nth i a l) i = Some a.
Proof.
  revert i. induction l as [|x r IH]; intros [|i] H; simpl in *; try lia; [reflexivity|].
  apply IH. lia.
Qed.

Lemma set_nth_other {A} i j (a : A) l : i <> j -> nth_error (set_nth i a l) j = nth_error l j.
Proof.
  revert i j. induction l as [|x r IH]; intros [|i] [|j] H; simpl; try reflexivity; try congruence.
  apply IH. congruence.
Qed.

Lemma set_nth_In {A} i (a : A) l x : In x (set_nth i a l) -> x = a \/ In x l.
Proof.
  revert i. induction l as [|y r IH]; intros [|i] H; simpl in *; try tauto.
  - destruct H as [<-|H]; auto.
  - destruct H as [<-|H]; auto. destruct (IH _ H); auto.
Qed.

Lemma Forall_step maxi H o : Forall Inv H -> Forall Inv (step maxi H o).
Proof.
  intro F. destruct o as [i n|i]; cbn [step].
  - destruct (nth_error H i) as [b|] eqn:E; [|exact F].
    rewrite Forall_forall in *. intros x Hx. apply set_nth_In in Hx. destruct Hx as [->|Hx]; [|auto].
    apply Inv_append, F. eapply nth_error_In, E.
  - destruct (nth_error H i) as [b|] eqn:E; [|exact F].
    apply Forall_app. split; [exact F|]. constructor; [|constructor].
    rewrite Forall_forall in F. apply F. eapply nth_error_In, E.
Qed.

Lemma Forall_run maxi ops : Forall Inv (run maxi ops).
Proof.
  unfold run.
  assert (G : forall H, Forall Inv H -> Forall Inv (fold_left (step maxi) ops H)).
  { induction ops as [|o r IH]; intros H F; simpl; [exact F|]. apply IH, Forall_step, F. }
  apply G. constructor; [exact Inv_empty|constructor].
Qed.

(* the op's target branch *)
Definition touches (j : nat) (o : op) : bool :=
  match o with Append i _ => i =? j | Copy _ => false end.

Lemma step_frame maxi H o j : touches j o = false -> j < length H ->
  nth_error (step maxi H o) j = nth_error H j.
Proof.
  intros T L. destruct o as [i n|i]; cbn [step touches] in *.
  - destruct (nth_error H i); [|reflexivity]. apply set_nth_other. apply Nat.eqb_neq in T. exact T.
  - destruct (nth_error H i); [|reflexivity]. apply nth_error_app1. exact L.
Qed.

Lemma step_length maxi H o : length H <= length (step maxi H o).
Proof.
  destruct o as [i n|i]; cbn [step]; destruct (nth_error H i); try lia.
  - rewrite set_nth_length. lia.
  - rewrite app_length. simpl. lia.
Qed.

Lemma steps_frame maxi ops : forall H j, forallb (fun o => negb (touches j o)) ops = true -> j < length H ->
  nth_error (fold_left (step maxi) ops H) j = nth_error H j.
Proof.
  induction ops as [|o r IH]; intros H j T L; simpl; [reflexivity|].
  simpl in T. apply andb_true_iff in T. destruct T as [T1 T2]. apply negb_true_iff in T1.
  rewrite IH; [apply step_frame; assumption|exact T2|].
  pose proof (step_length maxi H o). lia.
Qed.

Lemma step_copy maxi H i b : nth_error H i = Some b ->
  nth_error (step maxi H (Copy i)) (length H) = Some b /\ nth_error (step maxi H (Copy i)) i = Some b.
Proof.
  intro E. cbn [step]. rewrite E. split.
  - rewrite nth_error_app2 by lia. rewrite Nat.sub_diag. reflexivity.
  - rewrite nth_error_app1; [exact E|]. apply nth_error_Some. congruence.
Qed.

(* ---- the pre-fix append is refuted -------------------------------------- *)
Definition sent (cs : list const) : node := mkNode FNone (Some cs) false None None None.

Lemma old_append_not_fresh :
  exists h, let b := fold_left (append_old 3) h empty in In (b_nextc b) (b_consts b).
Proof. exists [sent [(1,0)]; sent [(0,0)]]. vm_compute. auto. Qed.

(* the current append on the same history *)
Example new_append_fresh_on_witness :
  fresh_b (fold_left (append 3) [sent [(1,0)]; sent [(0,0)]] empty) = true.
Proof. vm_compute. reflexivity. Qed.

(* roll-over of the subscript when the index is maximal *)
Example rollover : b_nextc (fold_left (append 3) [sent [(0,0)]; sent [(3,0)]; sent [(1,0)]] empty) = (0,1).
Proof. vm_compute. reflexivity. Qed.

(* full-strength variant refuted: a mapping that carries a sentence but is
   classified as a flag node does not register its constants (artificial: no
   rule of the package builds such a node) *)
Lemma any_sentence_key_refuted :
  exists n, let b := append 3 empty n in exists c, In c (sent_consts n) /\ c = b_nextc b.
Proof.
  exists (mkNode FOther (Some [(0,0)]) false None None None). vm_compute. exists (0,0). auto.
Qed.

(* non-vacuity: a heap with a copy whose source and copy then diverge *)
Example ex_copy_diverges :
  let H := run 3 [Append 0 (sent [(1,0)]); Copy 0; Append 1 (sent [(0,0)]); Append 0 (sent [(3,0)])] in
  map observe H = [((0,0), 0, [(1,0); (3,0)], [], false); ((2,0), 0, [(0,0); (1,0)], [], false)].
Proof. vm_compute. reflexivity. Qed.
