(* Completeness of certified tableaux for truth-functional steps: the branch of
   every open leaf is satisfied by the valuation read off its literals. *)
From Coq Require Import List Bool Arith Lia.
From PT Require Import Util.Finite Sem.Values Sem.Syntax Sem.Schema Sem.Closure
  Tab.Node Tab.PropTab Tab.PropSound.
Import ListNotations.

Definition concat2 {A B C} (f : A -> B -> list C) : list A -> list B -> list C :=
  fix go (la : list A) (lb : list B) {struct la} : list C :=
    match la with
    | [] => []
    | a :: la' => match lb with [] => [] | b :: lb' => f a b ++ go la' lb' end
    end.

Lemma in_concat2 {A B C} (f : A -> B -> list C) la : forall lb c,
  In c (concat2 f la lb) -> exists a b, In a la /\ In b lb /\ In c (f a b) /\
    exists k, nth_error la k = Some a /\ nth_error lb k = Some b.
Proof.
  induction la as [|a la IH]; intros [|b lb] c H; simpl in H; try contradiction.
  apply in_app_or in H. destruct H as [H|H].
  - exists a, b. simpl. repeat split; auto. exists 0. auto.
  - destruct (IH lb c H) as [a' [b' [Ha [Hb [Hc [k [Hk1 Hk2]]]]]]].
    exists a', b'. simpl. repeat split; auto. exists (S k). auto.
Qed.

(* The branches at the open leaves of a certificate rooted at b. *)
Fixpoint open_leaves (t : tree) (b : list node) {struct t} : list (list node) :=
  match t with
  | TClosed => []
  | TOpen => [b]
  | TStep _ gs ts => concat2 (fun t' g => open_leaves t' (b ++ g)) ts gs
  end.

Lemma all_closed_no_open t : forall b, all_closed t = true -> open_leaves t b = [].
Proof.
  induction t as [| |st gs ts IH] using tree_ind'; intros b H; simpl in *; try reflexivity; try discriminate.
  revert gs. induction ts as [|t' ts IHts]; intros gs; [reflexivity|].
  destruct gs as [|g gs]; [reflexivity|]. simpl.
  simpl in H. apply andb_true_iff in H. destruct H as [H1 H2].
  inversion IH as [|? ? IH1 IH2]; subst.
  rewrite (IH1 (b ++ g) H1). simpl. apply IHts; assumption.
Qed.

Lemma open_leaf_prefix : forall t b bl, In bl (open_leaves t b) -> exists rest, bl = b ++ rest.
Proof.
  intro t. induction t as [| |st gs ts IH] using tree_ind'; intros b bl Hbl; simpl in Hbl.
  - contradiction.
  - destruct Hbl as [<-|[]]. exists []. rewrite app_nil_r. reflexivity.
  - apply in_concat2 in Hbl. destruct Hbl as [t' [g [Ht' [_ [Hbl _]]]]].
    rewrite Forall_forall in IH. destruct (IH t' Ht' (b ++ g) bl Hbl) as [rest E].
    exists (g ++ rest). rewrite E, app_assoc. reflexivity.
Qed.

Definition unticked_sat (t : tables) (ev : wev) (b : list node) (tk : list nat) : Prop :=
  forall k n, nth_error b k = Some n -> memn k tk = false -> nsat_node t ev n.

Definition lit_node (n : node) : bool :=
  match n with NS s _ _ => is_literal s | NA _ _ => true end.

Lemma leaf_ok_spec b : forall k0 tk, leaf_ok_from k0 b tk = true ->
  forall k n, nth_error b k = Some n -> memn (k0 + k) tk = false -> lit_node n = true.
Proof.
  induction b as [|m r IH]; intros k0 tk H k n Hn Hm; [destruct k; discriminate|].
  simpl in H. apply andb_true_iff in H. destruct H as [H1 H2].
  destruct k as [|k]; simpl in Hn.
  - injection Hn as <-. rewrite Nat.add_0_r in Hm. rewrite Hm in H1. simpl in H1.
    destruct m; simpl; auto.
  - apply (IH (S k0) tk H2 k n Hn). replace (S k0 + k) with (k0 + S k) by lia. exact Hm.
Qed.

Record complete_ok (L : plogic) : Prop := {
  co_two : forallb rule_two_opd (pl_rules L) = true;
  co_rules : forallb (fun r => is_none (tf_complete (pl_t L) r)) (pl_rules L) = true }.

Lemma memn_cons i k tk : memn k (i :: tk) = Nat.eqb k i || memn k tk.
Proof. reflexivity. Qed.

(* Every unticked node of the root is satisfied by any evaluation satisfying the
   literals of an open leaf below it. *)
Theorem check_hintikka L : complete_ok L -> forall t b tk,
  check L t b tk = true -> (forall k, memn k tk = true -> k < length b) ->
  forall bl, In bl (open_leaves t b) ->
  forall ev, wcomp (pl_t L) ev ->
    (forall n, In n bl -> lit_node n = true -> nsat_node (pl_t L) ev n) ->
    unticked_sat (pl_t L) ev bl tk.
Proof.
  intros OK t. induction t as [| |st gs ts IH] using tree_ind'; intros b tk Hck Htk bl Hbl ev C Hlit.
  - simpl in Hbl. contradiction.
  - simpl in Hbl. destruct Hbl as [<-|[]]. simpl in Hck. apply andb_true_iff in Hck.
    destruct Hck as [_ Hleaf]. intros k n Hn Hm.
    apply Hlit; [eapply nth_error_In; eauto|].
    apply (leaf_ok_spec b 0 tk Hleaf k n Hn). exact Hm.
  - simpl in Hck, Hbl. destruct st as [i|w1 w2].
    + apply andb_true_iff in Hck. destruct Hck as [Hnt Hck].
      destruct (nth_error b i) as [[s d w|]|] eqn:En; try discriminate.
      destruct (find_rule (pl_rules L) s d) as [[r p]|] eqn:Ef; [|discriminate].
      rewrite !andb_true_iff in Hck. destruct Hck as [[Hg Hdes] Hall].
      apply groups_eqb_eq in Hg.
      apply find_rule_spec in Ef. destruct Ef as [Hr Hm].
      apply match_rule_spec in Hm. destruct Hm as [Es Ed].
      apply in_concat2 in Hbl. destruct Hbl as [t' [g [Ht' [Hg' [Hbl [j [Hj1 Hj2]]]]]]].
      apply all2_Forall2 in Hall.
      assert (Hck' : check L t' (b ++ g) (i :: tk) = true).
      { clear - Hall Hj1 Hj2. revert gs j Hall Hj1 Hj2.
        induction ts as [|x ts IHts]; intros gs j Hall Hj1 Hj2; [destruct j; discriminate|].
        inversion Hall as [|? y ? gs' Hxy Hrest]; subst.
        destruct j as [|j]; simpl in *.
        - injection Hj1 as <-. injection Hj2 as <-. exact Hxy.
        - eapply IHts; eauto. }
      assert (Hi : i < length b) by (apply nth_error_Some; rewrite En; discriminate).
      assert (Htk' : forall k, memn k (i :: tk) = true -> k < length (b ++ g)).
      { intros k Hk. rewrite memn_cons in Hk. rewrite app_length.
        apply orb_true_iff in Hk. destruct Hk as [Hk|Hk].
        - apply Nat.eqb_eq in Hk. subst. lia.
        - specialize (Htk k Hk). lia. }
      rewrite Forall_forall in IH.
      pose proof (IH t' Ht' (b ++ g) (i :: tk) Hck' Htk' bl Hbl ev C Hlit) as Q.
      intros k n Hn Hm.
      destruct (Nat.eqb k i) eqn:Eki.
      * (* the principal node: satisfied because its group is *)
        apply Nat.eqb_eq in Eki. subst k.
        destruct (open_leaf_prefix t' (b ++ g) bl Hbl) as [rest Ebl].
        rewrite Ebl in Hn. rewrite <- app_assoc in Hn. rewrite nth_error_app1 in Hn by exact Hi.
        rewrite En in Hn. injection Hn as <-.
        assert (Hgs : bsat (pl_t L) ev g).
        { intros m Hmg. apply In_nth_error in Hmg. destruct Hmg as [q Hq].
          apply (Q (length b + q) m).
          - rewrite Ebl, <- app_assoc. rewrite nth_error_app2 by lia.
            replace (length b + q - length b) with q by lia.
            rewrite nth_error_app1; [exact Hq|]. apply nth_error_Some. rewrite Hq. discriminate.
          - rewrite memn_cons. apply orb_false_iff. split.
            + apply Nat.eqb_neq. lia.
            + destruct (memn (length b + q) tk) eqn:E; [|reflexivity].
              specialize (Htk _ E). lia. }
        subst gs.
        pose proof (groups_inst_ext_sat _ ev r p w g Hg' Hgs) as Hext.
        pose proof (co_two _ OK) as H2. rewrite forallb_forall in H2. specialize (H2 r Hr).
        pose proof (co_rules _ OK) as H3. rewrite forallb_forall in H3. specialize (H3 r Hr).
        apply is_none_true in H3.
        pose proof (tf_complete_lift _ _ H2 H3 (ev w) (ops_of p) (C w) Hext) as Hns.
        unfold node_sat in Hns. apply Bool.eqb_prop in Hns. simpl. rewrite Es, Ed. exact Hns.
      * apply (Q k n); [exact Hn|].
        rewrite memn_cons, Eki, Hm. reflexivity.
    + apply andb_true_iff in Hck. destruct Hck as [Hg Hck].
      apply groups_eqb_eq in Hg. subst gs.
      destruct ts as [|t' [|]]; try discriminate.
      simpl in Hbl. rewrite app_nil_r in Hbl.
      inversion IH as [|? ? IH1 _]; subst.
      assert (Htk' : forall k, memn k tk = true -> k < length (b ++ [NA w1 w2])).
      { intros k Hk. rewrite app_length. specialize (Htk k Hk). lia. }
      pose proof (IH1 (b ++ [NA w1 w2]) tk Hck Htk' bl Hbl ev C Hlit) as Q.
      exact Q.
Qed.
