(* Theorems about the model of Tableau.Tree._build (Tree.v). *)
From Coq Require Import List Bool Arith Lia Permutation.
Import ListNotations.
From PT Require Import Tab.Tree.

(* ---- generic ------------------------------------------------------------------ *)

Lemma fold_left_add : forall {A} (f : A -> nat) l a,
  fold_left (fun a c => a + f c) l a = a + list_sum (map f l).
Proof.
  induction l as [|x l IH]; intros a; cbn [fold_left map].
  - unfold list_sum; cbn; lia.
  - rewrite IH. unfold list_sum; cbn [fold_right]; lia.
Qed.

Lemma mapM_Forall2 : forall {A B} (f : A -> option B) l ys,
  mapM f l = Some ys -> Forall2 (fun x y => f x = Some y) l ys.
Proof.
  induction l as [|a l IH]; cbn; intros ys H.
  - inversion H; constructor.
  - destruct (f a) eqn:E; try discriminate.
    destruct (mapM f l) eqn:E2; try discriminate.
    inversion H; subst. constructor; auto.
Qed.

Lemma mapM_ex : forall {A B} (f : A -> option B) (P : A -> B -> Prop) l,
  (forall x, In x l -> exists y, f x = Some y /\ P x y) ->
  exists ys, mapM f l = Some ys /\ Forall2 P l ys.
Proof.
  induction l as [|a l IH]; intros H; cbn.
  - exists []; split; auto.
  - destruct (H a (or_introl eq_refl)) as [y [Hy Py]].
    destruct IH as [ys [Hys Pys]]; [intros x Hx; apply H; right; exact Hx|].
    rewrite Hy, Hys. exists (y :: ys); split; auto.
Qed.

Lemma list_sum_map_ext : forall {A} (f g : A -> nat) l,
  (forall a, In a l -> f a = g a) -> list_sum (map f l) = list_sum (map g l).
Proof. intros A f g l H. rewrite (map_ext_in f g l H). reflexivity. Qed.

Lemma flat_map_map_out : forall {A B C} (g : B -> C) (G : A -> list B) l,
  flat_map (fun h => map g (G h)) l = map g (flat_map G l).
Proof. induction l as [|a l IH]; cbn; [reflexivity | rewrite map_app, IH; reflexivity]. Qed.

Lemma flat_map_ext_in' : forall {A B} (f g : A -> list B) l,
  (forall a, In a l -> f a = g a) -> flat_map f l = flat_map g l.
Proof.
  induction l as [|a l IH]; intros H; cbn; [reflexivity|].
  rewrite H by (left; reflexivity). rewrite IH; [reflexivity | intros; apply H; right; assumption].
Qed.

Lemma filter_partition_perm : forall {A} (p : A -> bool) l,
  Permutation l (filter p l ++ filter (fun a => negb (p a)) l).
Proof.
  induction l as [|a l IH]; cbn; [constructor|].
  destruct (p a); cbn.
  - constructor; exact IH.
  - apply Permutation_cons_app; exact IH.
Qed.

Lemma filter_filter : forall {A} (p q : A -> bool) l,
  filter p (filter q l) = filter (fun a => q a && p a) l.
Proof.
  induction l as [|a l IH]; cbn; [reflexivity|].
  destruct (q a); cbn; [destruct (p a); rewrite IH; reflexivity | exact IH].
Qed.

Lemma filter_ext_in' : forall {A} (p q : A -> bool) l,
  (forall a, In a l -> p a = q a) -> filter p l = filter q l.
Proof.
  induction l as [|a l IH]; intros H; cbn; [reflexivity|].
  rewrite (H a (or_introl eq_refl)). rewrite IH; [reflexivity | intros; apply H; right; assumption].
Qed.

(* ---- dedup ----------------------------------------------------------------------- *)

Lemma dedup_In : forall l x, In x (dedup l) <-> In x l.
Proof.
  induction l as [|a l IH]; intros x; cbn; [tauto|].
  rewrite filter_In, IH. destruct (Nat.eq_dec x a) as [->|N].
  - tauto.
  - assert (negb (x =? a) = true) by (apply negb_true_iff, Nat.eqb_neq; exact N).
    split; [intros [->|[H1 _]]; tauto | intros [->|H1]; [tauto | right; split; assumption]].
Qed.

Lemma dedup_NoDup : forall l, NoDup (dedup l).
Proof.
  induction l as [|a l IH]; cbn; constructor.
  - rewrite filter_In. intros [_ H]. rewrite Nat.eqb_refl in H. discriminate.
  - apply NoDup_filter; exact IH.
Qed.

(* ---- counts ------------------------------------------------------------------------ *)

Lemma counts_ok_fields : forall c, counts_ok c ->
  t_width c = r_width c /\ t_dnc c = r_desc c /\ t_dn c = r_dn c.
Proof. intros c H. destruct c; cbn in H |- *. tauto. Qed.

Lemma counts_fold : forall cs, Forall counts_ok cs -> fold_right (fun c P => counts_ok c /\ P) True cs.
Proof. induction 1; cbn; auto. Qed.

Lemma counts_leaf : forall ns b d ho hc, counts_ok (leaf_of ns b d ho hc).
Proof. intros. cbn. repeat split; lia. Qed.

Lemma counts_node : forall ns cs d ho hc, Forall counts_ok cs -> counts_ok (node_of true ns cs d ho hc).
Proof.
  intros ns cs d ho hc H. unfold node_of. cbn [counts_ok r_width r_desc r_dn].
  rewrite !fold_left_add.
  assert (E1 : list_sum (map t_width cs) = list_sum (map r_width cs)).
  { apply list_sum_map_ext. intros a Ha. rewrite Forall_forall in H. apply counts_ok_fields; auto. }
  assert (E2 : list_sum (map cw cs) = list_sum (map (fun c => length (t_nodes c) + r_desc c) cs)).
  { apply list_sum_map_ext. intros a Ha. rewrite Forall_forall in H.
    unfold cw. destruct (counts_ok_fields a (H a Ha)) as [_ [E _]]. rewrite E. reflexivity. }
  assert (E3 : list_sum (map t_dn cs) = list_sum (map r_dn cs)).
  { apply list_sum_map_ext. intros a Ha. rewrite Forall_forall in H. apply counts_ok_fields; auto. }
  rewrite E1, E2, E3. cbn. repeat split; try lia. apply counts_fold; exact H.
Qed.

Lemma build_counts : forall fuel depth bs t, build true fuel depth bs = Some t -> counts_ok t.
Proof.
  induction fuel as [|f IH]; intros depth bs t H; cbn [build] in H; [discriminate|].
  destruct (strip (size bs) bs []) as [[[ns bs'] hs]|]; [|discriminate].
  assert (G : forall X, (if existsb (fun b => isnil (tb_nodes b)) bs' && negb (isnil hs) then None
            else match mapM (fun h => build true f (S depth) (filter (hd_is h) bs')) hs with
                 | None => None
                 | Some cs => Some (node_of true ns cs depth X (existsb (fun b => negb (isnil (tb_nodes b)) && tb_closed b) bs))
                 end) = Some t -> counts_ok t).
  { intros X H0. destruct (existsb _ bs' && _); [discriminate|].
    destruct (mapM _ hs) as [cs|] eqn:E; [|discriminate].
    inversion H0; subst. apply counts_node.
    apply mapM_Forall2 in E. clear H0 H.
    induction E; constructor; eauto. }
  destruct bs' as [|b [|b2 r]].
  - eapply G; exact H.
  - inversion H; subst. apply counts_leaf.
  - eapply G; exact H.
Qed.

(* ---- prefix-freeness ----------------------------------------------------------------- *)

Definition PF (bs : list tbr) : Prop := pfree (map tb_nodes bs) = true.

Lemma is_prefix_cons : forall x a b, is_prefix (x :: a) (x :: b) = is_prefix a b.
Proof. intros. cbn. rewrite Nat.eqb_refl. reflexivity. Qed.

Lemma PF_nonempty : forall b1 b2 r b, PF (b1 :: b2 :: r) -> In b (b1 :: b2 :: r) -> tb_nodes b <> [].
Proof.
  intros b1 b2 r b H Hin. unfold PF in H. cbn [map pfree] in H.
  apply andb_true_iff in H as [H _].
  destruct Hin as [<-|Hin].
  - cbn [forallb] in H. apply andb_true_iff in H as [H _]. apply andb_true_iff in H as [H _].
    intros E. rewrite E in H. cbn in H. discriminate.
  - rewrite forallb_forall in H.
    specialize (H (tb_nodes b)).
    assert (In (tb_nodes b) (map tb_nodes (b2 :: r))) as Hi by (apply in_map; exact Hin).
    specialize (H Hi). apply andb_true_iff in H as [_ H].
    intros E. rewrite E in H. cbn in H. discriminate.
Qed.

Lemma PF_filter : forall f bs, PF bs -> PF (filter f bs).
Proof.
  unfold PF. induction bs as [|a bs IH]; intros H; cbn; [reflexivity|].
  cbn in H. apply andb_true_iff in H as [H1 H2].
  destruct (f a); cbn; [|auto].
  apply andb_true_iff; split; [|auto].
  rewrite forallb_forall in H1 |- *. intros x Hx. apply H1.
  apply in_map_iff in Hx as [b [<- Hb]]. apply filter_In in Hb as [Hb _]. apply in_map; exact Hb.
Qed.

Lemma PF_tails : forall x bs, (forall b, In b bs -> exists r, tb_nodes b = x :: r) -> PF bs -> PF (map tl_br bs).
Proof.
  unfold PF. induction bs as [|a bs IH]; intros Hh H; cbn; [reflexivity|].
  cbn in H. apply andb_true_iff in H as [H1 H2].
  apply andb_true_iff; split.
  - rewrite forallb_forall in H1 |- *. intros y Hy.
    apply in_map_iff in Hy as [b' [<- Hb']]. apply in_map_iff in Hb' as [b [<- Hb]].
    destruct (Hh a (or_introl eq_refl)) as [ra Ea].
    destruct (Hh b (or_intror Hb)) as [rb Eb].
    specialize (H1 (tb_nodes b) (in_map _ _ _ Hb)).
    rewrite Ea, Eb, !is_prefix_cons in H1. cbn. rewrite Ea, Eb. cbn. exact H1.
  - apply IH; [intros b Hb; apply Hh; right; exact Hb | exact H2].
Qed.

(* ---- size ------------------------------------------------------------------------------ *)

Lemma size_cons : forall b bs, size (b :: bs) = S (length (tb_nodes b)) + size bs.
Proof. reflexivity. Qed.

Lemma size_tails : forall bs, bs <> [] -> (forall b, In b bs -> tb_nodes b <> []) -> size (map tl_br bs) < size bs.
Proof.
  induction bs as [|a bs IH]; intros Hn Hne; [congruence|].
  cbn [map]. rewrite !size_cons.
  assert (Ha : tb_nodes a <> []) by (apply Hne; left; reflexivity).
  destruct (tb_nodes a) as [|x ra] eqn:Ea; [congruence|].
  cbn [tl_br tb_nodes tl length]. rewrite Ea. cbn [tl length].
  destruct bs as [|b bs'].
  - cbn. lia.
  - assert (size (map tl_br (b :: bs')) < size (b :: bs')).
    { apply IH; [discriminate | intros c Hc; apply Hne; right; exact Hc]. }
    lia.
Qed.

Lemma size_filter_le : forall f bs, size (filter f bs) <= size bs.
Proof.
  induction bs as [|a bs IH]; cbn [filter]; [lia|].
  destruct (f a); rewrite ?size_cons; lia.
Qed.

Lemma size_filter_lt : forall f bs b, In b bs -> f b = false -> size (filter f bs) < size bs.
Proof.
  induction bs as [|a bs IH]; intros b Hin Hf; [destruct Hin|].
  cbn [filter]. destruct Hin as [->|Hin].
  - rewrite Hf. rewrite size_cons. pose proof (size_filter_le f bs). lia.
  - specialize (IH b Hin Hf). destruct (f a); rewrite ?size_cons; lia.
Qed.

Definition pre (p : list nat) (b : tbr) : tbr :=
  {| tb_id := tb_id b; tb_nodes := p ++ tb_nodes b; tb_closed := tb_closed b |}.

Lemma size_pre : forall p bs, size bs <= size (map (pre p) bs).
Proof.
  induction bs as [|a bs IH]; cbn [map]; [lia|].
  rewrite !size_cons. cbn [pre tb_nodes]. rewrite app_length. lia.
Qed.

Lemma pre_nil : forall bs, map (pre []) bs = bs.
Proof. induction bs as [|a bs IH]; cbn; [reflexivity|]. rewrite IH. destruct a; reflexivity. Qed.

Lemma pre_app : forall p q bs, map (pre p) (map (pre q) bs) = map (pre (p ++ q)) bs.
Proof.
  intros. rewrite map_map. apply map_ext. intros a. unfold pre; cbn. rewrite app_assoc. reflexivity.
Qed.

(* ---- heads --------------------------------------------------------------------------------- *)

Lemma heads_all_same : forall bs x, bs <> [] -> PF bs -> heads bs = [x] ->
  forall b, In b bs -> exists r, tb_nodes b = x :: r.
Proof.
  intros bs x Hn Hpf Hh b Hb.
  assert (K : forall c y r, In c bs -> tb_nodes c = y :: r -> y = x).
  { intros c y r Hc Ec.
    assert (In y (heads bs)).
    { unfold heads. apply dedup_In. apply in_flat_map. exists c. split; [exact Hc|]. unfold hd1. rewrite Ec. left; reflexivity. }
    rewrite Hh in H. destruct H as [<-|[]]. reflexivity. }
  destruct bs as [|b1 [|b2 rest]]; [congruence| |].
  - destruct Hb as [<-|[]].
    destruct (tb_nodes b1) as [|y r] eqn:E.
    + unfold heads in Hh. cbn in Hh. unfold hd1 in Hh. rewrite E in Hh. cbn in Hh. discriminate.
    + exists r. f_equal. eapply K; [left; reflexivity | exact E].
  - pose proof (PF_nonempty _ _ _ b Hpf Hb) as Hne.
    destruct (tb_nodes b) as [|y r] eqn:E; [congruence|].
    exists r. f_equal. eapply K; [exact Hb | exact E].
Qed.

Lemma tails_pre : forall x bs, (forall b, In b bs -> exists r, tb_nodes b = x :: r) ->
  bs = map (pre [x]) (map tl_br bs).
Proof.
  induction bs as [|a bs IH]; intros H; cbn [map]; [reflexivity|].
  rewrite <- IH by (intros b Hb; apply H; right; exact Hb).
  f_equal. destruct (H a (or_introl eq_refl)) as [r E].
  destruct a as [i n c]. cbn in E. subst n. reflexivity.
Qed.

Lemma strip_ok : forall fuel bs acc, bs <> [] -> PF bs -> size bs <= fuel ->
  exists p bs' hs, strip fuel bs acc = Some (acc ++ p, bs', hs) /\ bs = map (pre p) bs' /\
                   hs = heads bs' /\ length hs <> 1 /\ PF bs'.
Proof.
  induction fuel as [|f IH]; intros bs acc Hn Hpf Hsz.
  - destruct bs; [congruence|]. rewrite size_cons in Hsz. lia.
  - cbn [strip].
    destruct (heads bs) as [|x [|y hs']] eqn:Hh.
    + exists [], bs, []. rewrite app_nil_r, pre_nil. repeat split; auto.
    + pose proof (heads_all_same bs x Hn Hpf Hh) as Hall.
      assert (Hne : forall b, In b bs -> tb_nodes b <> []).
      { intros b Hb. destruct (Hall b Hb) as [r E]. rewrite E. discriminate. }
      destruct (IH (map tl_br bs) (acc ++ [x])) as [p [bs' [hs [E1 [E2 [E3 [E4 E5]]]]]]].
      * destruct bs; [congruence | discriminate].
      * eapply PF_tails; eauto.
      * pose proof (size_tails bs Hn Hne). lia.
      * exists (x :: p), bs', hs. rewrite E1. rewrite <- app_assoc. cbn [app].
        repeat split; auto.
        rewrite (tails_pre x bs Hall). rewrite E2. rewrite pre_app. reflexivity.
    + exists [], bs, (x :: y :: hs'). rewrite app_nil_r, pre_nil. repeat split; auto. cbn. lia.
Qed.

(* ---- grouping by head -------------------------------------------------------------------------- *)

Lemma hd_is_fun : forall h h' b, hd_is h b = true -> hd_is h' b = true -> h = h'.
Proof.
  unfold hd_is. intros h h' b H H'. destruct (tb_nodes b); [discriminate|].
  apply Nat.eqb_eq in H, H'. congruence.
Qed.

Lemma groups_perm : forall hs l, NoDup hs ->
  (forall b, In b l -> exists h, In h hs /\ hd_is h b = true) ->
  Permutation (flat_map (fun h => filter (hd_is h) l) hs) l.
Proof.
  induction hs as [|h hs IH]; intros l Hnd Hc.
  - destruct l as [|b l]; [constructor|]. destruct (Hc b (in_eq b l)) as [h [[] _]].
  - cbn [flat_map]. inversion Hnd as [|? ? Hni Hnd']; subst.
    set (l' := filter (fun b => negb (hd_is h b)) l).
    assert (E : flat_map (fun h' => filter (hd_is h') l) hs = flat_map (fun h' => filter (hd_is h') l') hs).
    { apply flat_map_ext_in'. intros h' Hh'. unfold l'. rewrite filter_filter.
      apply filter_ext_in'. intros b _. destruct (hd_is h' b) eqn:E'; [|rewrite andb_false_r; reflexivity].
      destruct (hd_is h b) eqn:E''; [|reflexivity].
      exfalso. apply Hni. rewrite (hd_is_fun h h' b E'' E'). exact Hh'. }
    rewrite E.
    eapply Permutation_trans; [|apply Permutation_sym, (filter_partition_perm (hd_is h))].
    apply Permutation_app_head. apply IH; [exact Hnd'|].
    intros b Hb. unfold l' in Hb. apply filter_In in Hb as [Hb Hf].
    destruct (Hc b Hb) as [h' [[<-|Hin] Hh']].
    + rewrite Hh' in Hf. discriminate.
    + exists h'. split; assumption.
Qed.

Lemma heads_cover : forall bs b, In b bs -> tb_nodes b <> [] -> exists h, In h (heads bs) /\ hd_is h b = true.
Proof.
  intros bs b Hb Hne. destruct (tb_nodes b) as [|x r] eqn:E; [congruence|].
  exists x. split.
  - unfold heads. apply dedup_In, in_flat_map. exists b. split; [exact Hb|]. unfold hd1. rewrite E. left; reflexivity.
  - unfold hd_is. rewrite E. apply Nat.eqb_refl.
Qed.

Lemma heads_witness : forall bs h, In h (heads bs) -> exists b, In b bs /\ hd_is h b = true.
Proof.
  intros bs h H. unfold heads in H. apply dedup_In, in_flat_map in H as [b [Hb Hh]].
  exists b. split; [exact Hb|]. unfold hd1 in Hh. unfold hd_is.
  destruct (tb_nodes b); [destruct Hh|]. destruct Hh as [<-|[]]. apply Nat.eqb_refl.
Qed.

Lemma other_head : forall (hs : list nat) h, NoDup hs -> length hs <> 1 -> In h hs -> exists h', In h' hs /\ h' <> h.
Proof.
  intros hs h Hnd Hl Hin. destruct hs as [|h1 [|h2 r]]; [destruct Hin | cbn in Hl; lia |].
  inversion Hnd as [|? ? Hni _]; subst.
  destruct (Nat.eq_dec h h1) as [->|N].
  - exists h2. split; [right; left; reflexivity|]. intros ->. apply Hni. left; reflexivity.
  - exists h1. split; [left; reflexivity | congruence].
Qed.

(* ---- tree_paths ---------------------------------------------------------------------------------- *)

Lemma leaves_node : forall a ns cs d ho hc,
  leaves (node_of a ns cs d ho hc) = flat_map (fun c => map (prep ns) (leaves c)) cs.
Proof. reflexivity. Qed.

Lemma leaves_leaf : forall ns b d ho hc, leaves (leaf_of ns b d ho hc) = [(tb_id b, tb_closed b, ns)].
Proof. reflexivity. Qed.

Lemma existsb_isnil_false : forall bs, (forall b, In b bs -> tb_nodes b <> []) ->
  existsb (fun b => isnil (tb_nodes b)) bs = false.
Proof.
  induction bs as [|a bs IH]; intros H; cbn; [reflexivity|].
  rewrite IH by (intros; apply H; right; assumption).
  specialize (H a (or_introl eq_refl)). destruct (tb_nodes a); [congruence | reflexivity].
Qed.

Lemma perm_flat : forall (p : list nat) (G : nat -> list leafrec) hs cs,
  Forall2 (fun h c => Permutation (leaves c) (G h)) hs cs ->
  Permutation (flat_map (fun c => map (prep p) (leaves c)) cs) (flat_map (fun h => map (prep p) (G h)) hs).
Proof.
  intros p G hs cs HF. induction HF; cbn; [constructor|].
  apply Permutation_app; [apply Permutation_map; assumption | assumption].
Qed.

Theorem build_paths : forall accum fuel depth bs, bs <> [] -> PF bs -> size bs <= fuel ->
  exists t, build accum fuel depth bs = Some t /\ Permutation (leaves t) (map proj bs).
Proof.
  induction fuel as [|f IH]; intros depth bs Hn Hpf Hsz.
  - destruct bs; [congruence|]. rewrite size_cons in Hsz. lia.
  - cbn [build].
    destruct (strip_ok (size bs) bs [] Hn Hpf (le_n _)) as [p [bs' [hs [E1 [E2 [E3 [E4 E5]]]]]]].
    rewrite E1. cbn [app].
    set (hc := existsb (fun b => negb (isnil (tb_nodes b)) && tb_closed b) bs).
    set (ho := existsb (fun b => negb (isnil (tb_nodes b)) && negb (tb_closed b)) bs).
    destruct bs' as [|b [|b2 r]].
    + subst bs. cbn in Hn. congruence.
    + eexists; split; [reflexivity|]. rewrite leaves_leaf. subst bs. cbn [map].
      assert (tb_nodes b = []).
      { destruct (tb_nodes b) as [|x l] eqn:E; [reflexivity|]. exfalso. apply E4. subst hs.
        unfold heads. cbn. unfold hd1. rewrite E. reflexivity. }
      unfold proj, pre; cbn. rewrite H, app_nil_r. apply Permutation_refl.
    + set (l := b :: b2 :: r) in *.
      assert (Hne : forall c, In c l -> tb_nodes c <> []) by (intros c Hc; eapply PF_nonempty; eauto).
      rewrite (existsb_isnil_false l Hne). cbn [andb].
      assert (Hnd : NoDup hs) by (subst hs; apply dedup_NoDup).
      destruct (mapM_ex (fun h => build accum f (S depth) (filter (hd_is h) l))
                        (fun h c => Permutation (leaves c) (map proj (filter (hd_is h) l))) hs) as [cs [Hcs HF]].
      { intros h Hh. apply IH.
        - subst hs. destruct (heads_witness l h Hh) as [c [Hc Hhc]].
          intros E. assert (In c (filter (hd_is h) l)) by (apply filter_In; split; assumption).
          rewrite E in H. destruct H.
        - apply PF_filter; exact E5.
        - destruct (other_head hs h Hnd E4 Hh) as [h' [Hh' Hneq]].
          subst hs. destruct (heads_witness l h' Hh') as [c [Hc Hhc]].
          assert (hd_is h c = false).
          { destruct (hd_is h c) eqn:E; [|reflexivity]. exfalso. apply Hneq. eapply hd_is_fun; eauto. }
          pose proof (size_filter_lt (hd_is h) l c Hc H).
          pose proof (size_pre p l). rewrite <- E2 in H1. lia. }
      rewrite Hcs. eexists; split; [reflexivity|].
      rewrite leaves_node.
      assert (P1 : Permutation (flat_map (fun c => map (prep p) (leaves c)) cs)
                               (flat_map (fun h => map (prep p) (map proj (filter (hd_is h) l))) hs)).
      { apply (perm_flat p (fun h => map proj (filter (hd_is h) l))). exact HF. }
      eapply Permutation_trans; [exact P1|].
      rewrite flat_map_map_out.
      assert (P2 : Permutation (flat_map (fun h => map proj (filter (hd_is h) l)) hs) (map proj l)).
      { rewrite flat_map_map_out. apply Permutation_map. apply groups_perm; [exact Hnd|].
        intros c Hc. subst hs. apply heads_cover; auto. }
      eapply Permutation_trans; [apply Permutation_map; exact P2|].
      rewrite E2. rewrite !map_map. apply Permutation_refl.
Qed.

Lemma tree_okb_spec : forall bs, tree_okb bs = true -> bs <> [] /\ PF bs.
Proof.
  intros bs H. unfold tree_okb in H. apply andb_true_iff in H as [H1 H2].
  split; [destruct bs; [discriminate | discriminate] | exact H2].
Qed.

(* tree_paths: for every list of branches no one of which is a prefix of another, the
   builder succeeds and the leaves, read root-to-leaf, are exactly the branches
   (index, closed flag, node list) *)
Theorem tree_paths : forall accum bs, tree_okb bs = true ->
  exists t, make accum bs = Some t /\ Permutation (leaves t) (map proj bs).
Proof.
  intros accum bs H. destruct (tree_okb_spec bs H) as [Hn Hpf].
  apply build_paths; auto.
Qed.

(* tree_counts: every stored count of every structure equals the recomputed one *)
Theorem tree_counts : forall bs t, make true bs = Some t -> counts_ok t.
Proof. intros bs t H. eapply build_counts; exact H. Qed.

Lemma width_sum : forall ns cs, Forall (fun c => r_width c = length (leaves c)) cs ->
  list_sum (map r_width cs) = length (flat_map (fun c => map (prep ns) (leaves c)) cs).
Proof.
  induction 1 as [|c cs Hc _ IH]; [reflexivity|].
  cbn [map flat_map]. rewrite app_length, map_length, <- IH, <- Hc. reflexivity.
Qed.

Lemma r_width_leaves : forall fuel accum depth bs t, build accum fuel depth bs = Some t -> r_width t = length (leaves t).
Proof.
  induction fuel as [|f IH]; intros accum depth bs t H; cbn [build] in H; [discriminate|].
  destruct (strip (size bs) bs []) as [[[ns bs'] hs]|]; [|discriminate].
  assert (G : forall X Y, (if existsb (fun b => isnil (tb_nodes b)) bs' && negb (isnil hs) then None
            else match mapM (fun h => build accum f (S depth) (filter (hd_is h) bs')) hs with
                 | None => None
                 | Some cs => Some (node_of accum ns cs depth X Y)
                 end) = Some t -> r_width t = length (leaves t)).
  { intros X Y H0. destruct (existsb _ bs' && _); [discriminate|].
    destruct (mapM _ hs) as [cs|] eqn:E; [|discriminate].
    inversion H0; subst. rewrite leaves_node. cbn [node_of r_width].
    apply mapM_Forall2 in E. clear H0 H.
    apply width_sum. induction E; constructor; eauto. }
  destruct bs' as [|b [|b2 r]].
  - eapply G; exact H.
  - inversion H; subst. reflexivity.
  - eapply G; exact H.
Qed.

Lemma r_dn_desc : forall t, r_dn t = length (t_nodes t) + r_desc t.
Proof.
  fix REC 1. intros [ns cs lf cl w dnc snc dn d ho hc bid]. cbn [r_dn r_desc t_nodes]. f_equal.
  induction cs as [|c cs IH]; [reflexivity|].
  cbn [map]. unfold list_sum in *. cbn [fold_right]. rewrite IH, (REC c). reflexivity.
Qed.

(* totals at the root: width = number of branches, structure_node_count = distinct_nodes *)
Theorem tree_totals : forall bs t, tree_okb bs = true -> make true bs = Some t ->
  t_width t = length bs /\ t_snc t = t_dn t.
Proof.
  intros bs t Hok H.
  destruct (tree_paths true bs Hok) as [t' [H' P]]. rewrite H in H'. inversion H'; subst t'.
  pose proof (tree_counts bs t H) as C.
  split.
  - destruct (counts_ok_fields t C) as [W _]. rewrite W.
    unfold make in H. rewrite (r_width_leaves _ _ _ _ _ H).
    rewrite (Permutation_length P), map_length. reflexivity.
  - pose proof (r_dn_desc t) as R.
    destruct t as [ns cs lf cl w dnc snc dn d ho hc bid]; cbn [counts_ok] in C. cbn [t_snc t_dn t_nodes] in *.
    destruct C as [_ [_ [S [D _]]]]. rewrite S, D, R. reflexivity.
Qed.

(* the pre-4f09b7e assignment `descendant_node_count = ...` is refuted: a root with two
   children that both have descendants *)
Definition wit : list tbr :=
  [ {| tb_id := 0; tb_nodes := [0;1;2]; tb_closed := true |};
    {| tb_id := 1; tb_nodes := [0;1;3]; tb_closed := false |};
    {| tb_id := 2; tb_nodes := [0;4;5]; tb_closed := true |};
    {| tb_id := 3; tb_nodes := [0;4;6]; tb_closed := false |} ].

Theorem tree_counts_prefix_refuted :
  exists bs t, tree_okb bs = true /\ make false bs = Some t /\ t_dnc t <> r_desc t.
Proof.
  exists wit. eexists. split; [vm_compute; reflexivity|]. split; [vm_compute; reflexivity|].
  vm_compute. discriminate.
Qed.

(* non-vacuity *)
Example tree_paths_nonvacuous : tree_okb wit = true /\
  exists t, make true wit = Some t /\ t_width t = 4 /\ t_dnc t = 6 /\ t_dn t = 7.
Proof. split; [vm_compute; reflexivity|]. eexists. vm_compute. repeat split. Qed.
