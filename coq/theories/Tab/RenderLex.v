(* String tables (lang/_symdata.py string_tables, lang/writing.py StringTable) and the
   lexical writers (lang/writing.py PolishLexWriter / StandardLexWriter) as far as C19
   needs them: WHICH keys a writer looks up, and that with a table that has a proper
   (str) entry for every key of `required` the writer never fails (KeyError / TypeError
   on a NotImplemented entry) on any sentence.  Output is a token list (strings of
   the table and subscript numbers; `str(int)` is not modelled).  `max_infix` is
   fixed at its default 0. *)
From Coq Require Import List Bool Arith String Lia.
Import ListNotations.

Inductive oper := Assertion | Negation | Conjunction | Disjunction | MaterialConditional
  | MaterialBiconditional | Conditional | Biconditional | Possibility | Necessity.
Inductive quant := Existential | Universal.
Inductive spred := Identity | Existence.

Inductive key :=
| KOper (o : oper) | KQuant (q : quant) | KSys (p : spred) | KNegIdent
| KAtomic (i : nat) | KVar (i : nat) | KConst (i : nat) | KPred (i : nat)
| KParenO | KParenC | KWs | KSubO | KSubC
| KDes (b : bool) | KFlagClosure | KFlagQuit | KAccess | KEllipsis.

Definition table := key -> option string.
Inductive notation := Polish | Standard.

Definition all_opers := [Assertion; Negation; Conjunction; Disjunction; MaterialConditional;
  MaterialBiconditional; Conditional; Biconditional; Possibility; Necessity].

(* maxi: largest index of the character sequences (Atomic 4, Variable/Constant/Predicate 3);
   regenerated from TYPE.maxi and checked against these constants on every run *)
Definition max_atomic := 4.
Definition max_other := 3.

Definition required (n : notation) : list key :=
  map KOper all_opers ++ [KQuant Existential; KQuant Universal; KSys Identity; KSys Existence]
  ++ map KAtomic (seq 0 (S max_atomic)) ++ map KVar (seq 0 (S max_other))
  ++ map KConst (seq 0 (S max_other)) ++ map KPred (seq 0 (S max_other))
  ++ [KSubO; KSubC; KDes true; KDes false; KFlagClosure; KFlagQuit; KAccess; KEllipsis]
  ++ match n with Polish => [] | Standard => [KNegIdent; KParenO; KParenC; KWs] end.

Definition has (T : table) (k : key) : bool := match T k with Some _ => true | None => false end.
Definition total (n : notation) (T : table) : bool := forallb (has T) (required n).
Definition missing (n : notation) (T : table) : list key := filter (fun k => negb (has T k)) (required n).

(* ---- sentences ------------------------------------------------------------------------------ *)

Inductive param := PConst (i s : nat) | PVar (i s : nat).
Inductive pred := PSys (p : spred) | PUser (i s : nat).
Inductive sent :=
| SAtom (i s : nat)
| SPred (p : pred) (ps : list param)
| SQuant (q : quant) (vi vs : nat) (body : sent)
| SUn (o : oper) (a : sent)
| SBin (o : oper) (a b : sent).

Inductive tok := TS (s : string) | TN (n : nat).

Definition bind {A B} (x : option A) (f : A -> option B) : option B :=
  match x with Some a => f a | None => None end.

Definition sub (T : table) (s : nat) : option (list tok) :=
  if s =? 0 then Some []
  else bind (T KSubO) (fun o => bind (T KSubC) (fun c => Some [TS o; TN s; TS c])).

Definition coords (T : table) (k : key) (s : nat) : option (list tok) :=
  bind (T k) (fun c => bind (sub T s) (fun r => Some (TS c :: r))).

Definition w_param (T : table) (p : param) : option (list tok) :=
  match p with PConst i s => coords T (KConst i) s | PVar i s => coords T (KVar i) s end.

Fixpoint w_params (T : table) (ps : list param) : option (list tok) :=
  match ps with
  | [] => Some []
  | p :: r => bind (w_param T p) (fun a => bind (w_params T r) (fun b => Some (a ++ b)))
  end.

Definition w_pred (T : table) (p : pred) : option (list tok) :=
  match p with
  | PSys sp => bind (T (KSys sp)) (fun c => Some [TS c])
  | PUser i s => coords T (KPred i) s
  end.

Definition w_plain (T : table) (k : key) : option (list tok) := bind (T k) (fun c => Some [TS c]).

(* PolishLexWriter *)
Fixpoint w_polish (T : table) (s : sent) : option (list tok) :=
  match s with
  | SAtom i sb => coords T (KAtomic i) sb
  | SPred p ps => bind (w_pred T p) (fun a => bind (w_params T ps) (fun b => Some (a ++ b)))
  | SQuant q vi vs body =>
    bind (w_plain T (KQuant q)) (fun a => bind (coords T (KVar vi) vs) (fun b =>
    bind (w_polish T body) (fun c => Some (a ++ b ++ c))))
  | SUn o a => bind (w_plain T (KOper o)) (fun x => bind (w_polish T a) (fun y => Some (x ++ y)))
  | SBin o a b => bind (w_plain T (KOper o)) (fun x => bind (w_polish T a) (fun y =>
                  bind (w_polish T b) (fun z => Some (x ++ y ++ z))))
  end.

(* StandardLexWriter with options drop_parens (dp, only at the top) and identity_infix (ii) *)
Definition w_std_pred (T : table) (ii : bool) (p : pred) (ps : list param) : option (list tok) :=
  match p, ps, ii with
  | PSys Identity, [a; b], true =>
    bind (T KWs) (fun ws => bind (w_param T a) (fun x => bind (w_pred T p) (fun y =>
    bind (w_param T b) (fun z => Some (x ++ [TS ws] ++ y ++ [TS ws] ++ z)))))
  | _, _, _ => bind (w_pred T p) (fun a => bind (w_params T ps) (fun b => Some (a ++ b)))
  end.

Fixpoint w_std (T : table) (ii : bool) (parens : bool) (s : sent) : option (list tok) :=
  match s with
  | SAtom i sb => coords T (KAtomic i) sb
  | SPred p ps => w_std_pred T ii p ps
  | SQuant q vi vs body =>
    bind (w_plain T (KQuant q)) (fun a => bind (coords T (KVar vi) vs) (fun b =>
    bind (w_std T ii true body) (fun c => Some (a ++ b ++ c))))
  | SUn o a =>
    bind (T KWs) (fun ws =>
    match o, a, ii with
    | Negation, SPred (PSys Identity) [x; y], true =>
      bind (w_param T x) (fun px => bind (T KNegIdent) (fun ne => bind (w_param T y) (fun py =>
      Some (px ++ [TS ws; TS ne; TS ws] ++ py))))
    | _, _, _ => bind (w_plain T (KOper o)) (fun x => bind (w_std T ii true a) (fun y => Some (x ++ y)))
    end)
  | SBin o a b =>
    bind (T KWs) (fun ws =>
    bind (if parens then T KParenO else Some EmptyString) (fun po =>
    bind (if parens then T KParenC else Some EmptyString) (fun pc =>
    bind (w_std T ii true a) (fun x => bind (w_plain T (KOper o)) (fun y => bind (w_std T ii true b) (fun z =>
    Some ([TS po] ++ x ++ [TS ws] ++ y ++ [TS ws] ++ z ++ [TS pc])))))))
  end.

Definition write (n : notation) (T : table) (dp ii : bool) (s : sent) : option (list tok) :=
  match n with
  | Polish => w_polish T s
  | Standard => w_std T ii (negb dp) s
  end.

(* indices within the ranges the lexical constructors allow *)
Definition wf_param (p : param) : bool :=
  match p with PConst i _ => i <=? max_other | PVar i _ => i <=? max_other end.
Definition wf_pred (p : pred) : bool := match p with PSys _ => true | PUser i _ => i <=? max_other end.
Fixpoint wf (s : sent) : bool :=
  match s with
  | SAtom i _ => i <=? max_atomic
  | SPred p ps => wf_pred p && forallb wf_param ps
  | SQuant _ vi _ b => (vi <=? max_other) && wf b
  | SUn _ a => wf a
  | SBin _ a b => wf a && wf b
  end.

(* ---- totality -------------------------------------------------------------------------------- *)

Section Total.
Variables (n : notation) (T : table).
Hypothesis HT : total n T = true.

Lemma req_has : forall k, In k (required n) -> exists v, T k = Some v.
Proof.
  intros k Hk. unfold total in HT. rewrite forallb_forall in HT. specialize (HT k Hk).
  unfold has in HT. destruct (T k) as [v|]; [exists v; reflexivity | discriminate].
Qed.

Ltac inreq := unfold required; repeat (apply in_or_app; first [left; cbn; tauto | right]); cbn; tauto.

Lemma has_oper : forall o, exists v, T (KOper o) = Some v.
Proof. intros o. apply req_has. destruct o; inreq. Qed.
Lemma has_quant : forall q, exists v, T (KQuant q) = Some v.
Proof. intros q. apply req_has. destruct q; inreq. Qed.
Lemma has_sys : forall p, exists v, T (KSys p) = Some v.
Proof. intros p. apply req_has. destruct p; inreq. Qed.
Lemma has_subo : exists v, T KSubO = Some v. Proof. apply req_has. inreq. Qed.
Lemma has_subc : exists v, T KSubC = Some v. Proof. apply req_has. inreq. Qed.

Lemma has_atomic : forall i, i <=? max_atomic = true -> exists v, T (KAtomic i) = Some v.
Proof.
  intros i H. apply Nat.leb_le in H. unfold max_atomic in H. apply req_has.
  do 5 (destruct i as [|i]; [inreq|]). lia.
Qed.
Lemma has_var : forall i, i <=? max_other = true -> exists v, T (KVar i) = Some v.
Proof.
  intros i H. apply Nat.leb_le in H. unfold max_other in H. apply req_has.
  do 4 (destruct i as [|i]; [inreq|]). lia.
Qed.
Lemma has_const : forall i, i <=? max_other = true -> exists v, T (KConst i) = Some v.
Proof.
  intros i H. apply Nat.leb_le in H. unfold max_other in H. apply req_has.
  do 4 (destruct i as [|i]; [inreq|]). lia.
Qed.
Lemma has_pred : forall i, i <=? max_other = true -> exists v, T (KPred i) = Some v.
Proof.
  intros i H. apply Nat.leb_le in H. unfold max_other in H. apply req_has.
  do 4 (destruct i as [|i]; [inreq|]). lia.
Qed.

Lemma sub_total : forall s, exists r, sub T s = Some r.
Proof.
  intros s. unfold sub. destruct (s =? 0); [eexists; reflexivity|].
  destruct has_subo as [o ->]. destruct has_subc as [c ->]. cbn. eexists; reflexivity.
Qed.

Lemma coords_total : forall k s, (exists v, T k = Some v) -> exists r, coords T k s = Some r.
Proof.
  intros k s [v Hv]. unfold coords. rewrite Hv. cbn. destruct (sub_total s) as [r ->]. cbn. eexists; reflexivity.
Qed.

Lemma param_total : forall p, wf_param p = true -> exists r, w_param T p = Some r.
Proof.
  intros [i s|i s] H; cbn in *; apply coords_total; [apply has_const | apply has_var]; exact H.
Qed.

Lemma params_total : forall ps, forallb wf_param ps = true -> exists r, w_params T ps = Some r.
Proof.
  induction ps as [|p ps IH]; intros H; cbn in *; [eexists; reflexivity|].
  apply andb_true_iff in H as [H1 H2].
  destruct (param_total p H1) as [a ->]. destruct (IH H2) as [b ->]. cbn. eexists; reflexivity.
Qed.

Lemma pred_total : forall p, wf_pred p = true -> exists r, w_pred T p = Some r.
Proof.
  intros [sp|i s] H; cbn in *.
  - destruct (has_sys sp) as [v ->]. cbn. eexists; reflexivity.
  - apply coords_total. apply has_pred. exact H.
Qed.

Lemma plain_oper : forall o, exists r, w_plain T (KOper o) = Some r.
Proof. intros o. unfold w_plain. destruct (has_oper o) as [v ->]. cbn. eexists; reflexivity. Qed.
Lemma plain_quant : forall q, exists r, w_plain T (KQuant q) = Some r.
Proof. intros q. unfold w_plain. destruct (has_quant q) as [v ->]. cbn. eexists; reflexivity. Qed.

Theorem polish_total : forall s, wf s = true -> exists r, w_polish T s = Some r.
Proof.
  induction s as [i sb|p ps|q vi vs body IH|o a IH|o a IHa b IHb]; intros H; cbn [w_polish wf] in *.
  - apply coords_total, has_atomic; exact H.
  - apply andb_true_iff in H as [H1 H2].
    destruct (pred_total p H1) as [x ->]. destruct (params_total ps H2) as [y ->]. cbn. eexists; reflexivity.
  - apply andb_true_iff in H as [H1 H2].
    destruct (plain_quant q) as [x ->]. destruct (coords_total (KVar vi) vs (has_var vi H1)) as [y ->].
    destruct (IH H2) as [z ->]. cbn. eexists; reflexivity.
  - destruct (plain_oper o) as [x ->]. destruct (IH H) as [y ->]. cbn. eexists; reflexivity.
  - apply andb_true_iff in H as [H1 H2].
    destruct (plain_oper o) as [x ->]. destruct (IHa H1) as [y ->]. destruct (IHb H2) as [z ->].
    cbn. eexists; reflexivity.
Qed.
End Total.

Section TotalStd.
Variable T : table.
Hypothesis HT : total Standard T = true.

Ltac inreq := unfold required; repeat (apply in_or_app; first [left; cbn; tauto | right]); cbn; tauto.

Lemma has_ws : exists v, T KWs = Some v. Proof. apply (req_has Standard T HT). inreq. Qed.
Lemma has_po : exists v, T KParenO = Some v. Proof. apply (req_has Standard T HT). inreq. Qed.
Lemma has_pc : exists v, T KParenC = Some v. Proof. apply (req_has Standard T HT). inreq. Qed.
Lemma has_ne : exists v, T KNegIdent = Some v. Proof. apply (req_has Standard T HT). inreq. Qed.

Lemma std_pred_total : forall ii p ps, wf_pred p = true -> forallb wf_param ps = true ->
  exists r, w_std_pred T ii p ps = Some r.
Proof.
  intros ii p ps H1 H2.
  assert (D : exists r, bind (w_pred T p) (fun a => bind (w_params T ps) (fun b => Some (a ++ b))) = Some r).
  { destruct (pred_total Standard T HT p H1) as [x ->]. destruct (params_total Standard T HT ps H2) as [y ->].
    cbn. eexists; reflexivity. }
  unfold w_std_pred. destruct p as [[|]|i s]; try exact D.
  destruct ps as [|a [|b [|c r]]]; try exact D. destruct ii; try exact D.
  cbn in H2. apply andb_true_iff in H2 as [Ha H2]. apply andb_true_iff in H2 as [Hb _].
  destruct has_ws as [ws ->]. destruct (param_total Standard T HT a Ha) as [x ->].
  destruct (pred_total Standard T HT (PSys Identity) eq_refl) as [y ->].
  destruct (param_total Standard T HT b Hb) as [z ->]. cbn. eexists; reflexivity.
Qed.

Theorem std_total : forall ii s parens, wf s = true -> exists r, w_std T ii parens s = Some r.
Proof.
  intros ii. induction s as [i sb|p ps|q vi vs body IH|o a IH|o a IHa b IHb]; intros parens H; cbn [w_std wf] in *.
  - apply (coords_total Standard T HT). apply (has_atomic Standard T HT); exact H.
  - apply andb_true_iff in H as [H1 H2]. apply std_pred_total; assumption.
  - apply andb_true_iff in H as [H1 H2].
    destruct (plain_quant Standard T HT q) as [x ->].
    destruct (coords_total Standard T HT (KVar vi) vs (has_var Standard T HT vi H1)) as [y ->].
    destruct (IH true H2) as [z ->]. cbn. eexists; reflexivity.
  - destruct has_ws as [ws ->]. cbn [bind].
    assert (D : exists r, bind (w_plain T (KOper o)) (fun x => bind (w_std T ii true a) (fun y => Some (x ++ y))) = Some r).
    { destruct (plain_oper Standard T HT o) as [x ->]. destruct (IH true H) as [y ->]. cbn. eexists; reflexivity. }
    destruct o; try exact D. destruct a as [| p ps | | |]; try exact D.
    destruct p as [[|]|]; try exact D. destruct ps as [|x [|y [|z r]]]; try exact D. destruct ii; try exact D.
    cbn in H. apply andb_true_iff in H as [Hx H]. apply andb_true_iff in H as [Hy _].
    destruct (param_total Standard T HT x Hx) as [px ->]. destruct has_ne as [ne ->].
    destruct (param_total Standard T HT y Hy) as [py ->]. cbn. eexists; reflexivity.
  - apply andb_true_iff in H as [H1 H2].
    destruct has_ws as [ws ->]. cbn [bind].
    assert (Po : exists v, (if parens then T KParenO else Some EmptyString) = Some v)
      by (destruct parens; [apply has_po | eexists; reflexivity]).
    assert (Pc : exists v, (if parens then T KParenC else Some EmptyString) = Some v)
      by (destruct parens; [apply has_pc | eexists; reflexivity]).
    destruct Po as [po ->]. destruct Pc as [pc ->]. cbn [bind].
    destruct (IHa true H1) as [x ->]. destruct (plain_oper Standard T HT o) as [y ->].
    destruct (IHb true H2) as [z ->]. cbn. eexists; reflexivity.
Qed.
End TotalStd.

(* tables_total lifted: with a table that has every required key, writing never fails *)
Theorem write_total : forall n T dp ii s, total n T = true -> wf s = true ->
  exists r, write n T dp ii s = Some r.
Proof.
  intros [|] T dp ii s HT Hs; unfold write.
  - apply (polish_total Polish T HT); exact Hs.
  - apply std_total; assumption.
Qed.

(* and it does fail when a key it needs is missing (the obligation is not vacuous) *)
Example write_fails_without_key :
  write Standard (fun k => match k with KWs => None | _ => Some "x"%string end) true true
        (SBin Conjunction (SAtom 0 0) (SAtom 1 0)) = None.
Proof. reflexivity. Qed.
