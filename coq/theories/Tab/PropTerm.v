(* Termination bound for truth-functional expansion: under a linear weight
   assignment for which every rule's extension groups weigh strictly less than
   the expanded node, every accepted certificate contains at most
   (m+1)^(weight of the unticked nodes) expansion steps, m the maximal
   branching of a rule. *)
From Coq Require Import List Bool Arith Lia.
From PT Require Import Util.Finite Sem.Values Sem.Syntax Sem.Schema Sem.Closure
  Tab.Node Tab.PropTab Tab.PropSound.
Import ListNotations.

Record wspec := {
  w_un : uop -> nat * nat;              (* w(o a)   = k * w(a) + c *)
  w_bin : bop -> nat * nat * nat;       (* w(a o b) = al * w(a) + be * w(b) + ga *)
  w_ud : nat * nat }.                   (* an undesignated node weighs k * w(s) + c *)

Fixpoint sw (ws : wspec) (s : sent) : nat :=
  match s with
  | Un o a => let '(k, c) := w_un ws o in k * sw ws a + c
  | Bin o a b => let '(al, be, ga) := w_bin ws o in al * sw ws a + be * sw ws b + ga
  | _ => 1
  end.

Definition ws_ok (ws : wspec) : bool :=
  Nat.leb 1 (fst (w_ud ws)) &&
  forallb (fun o => Nat.leb 1 (fst (w_un ws o))) all_uops &&
  forallb (fun o => let '(al, be, _) := w_bin ws o in Nat.leb 1 al && Nat.leb 1 be) all_bops.

Lemma sw_pos ws s : ws_ok ws = true -> 1 <= sw ws s.
Proof.
  unfold ws_ok. rewrite !andb_true_iff, !forallb_forall. intros [[_ Hu] Hb].
  induction s as [n|p ts|o a IH|o a IHa b IHb|o a IH|q x a IH]; simpl; try lia.
  - specialize (Hu o (all_uops_complete o)). destruct (w_un ws o) as [k c]. cbn [fst] in Hu.
    apply Nat.leb_le in Hu. nia.
  - specialize (Hb o (all_bops_complete o)). destruct (w_bin ws o) as [[al be] ga].
    apply andb_true_iff in Hb. destruct Hb as [H1 H2]. apply Nat.leb_le in H1, H2. nia.
Qed.

(* linear forms c0 * x0 + c1 * x1 + k over the operand weights *)
Definition lform := (nat * nat * nat)%type.
Fixpoint lw (ws : wspec) (s : ssch) : lform :=
  match s with
  | Opd 0 => (1, 0, 0)
  | Opd _ => (0, 1, 0)
  | SUn o a => let '(k, c) := w_un ws o in let '(a0, a1, ak) := lw ws a in (k * a0, k * a1, k * ak + c)
  | SBin o a b =>
      let '(al, be, ga) := w_bin ws o in
      let '(a0, a1, ak) := lw ws a in let '(b0, b1, bk) := lw ws b in
      (al * a0 + be * b0, al * a1 + be * b1, al * ak + be * bk + ga)
  end.

Definition lf_eval (f : lform) (x0 x1 : nat) : nat := let '(c0, c1, k) := f in c0 * x0 + c1 * x1 + k.
Definition lf_add (f g : lform) : lform :=
  let '(a0, a1, ak) := f in let '(b0, b1, bk) := g in (a0 + b0, a1 + b1, ak + bk).
Definition lf_lt (f g : lform) : bool :=
  let '(a0, a1, ak) := f in let '(b0, b1, bk) := g in
  Nat.leb a0 b0 && Nat.leb a1 b1 && Nat.ltb (a0 + a1 + ak) (b0 + b1 + bk).

Lemma lf_lt_spec f g x0 x1 : lf_lt f g = true -> 1 <= x0 -> 1 <= x1 -> lf_eval f x0 x1 < lf_eval g x0 x1.
Proof.
  destruct f as [[a0 a1] ak], g as [[b0 b1] bk]. unfold lf_lt, lf_eval.
  rewrite !andb_true_iff. intros [[H0 H1] H2] X0 X1.
  apply Nat.leb_le in H0, H1. apply Nat.ltb_lt in H2. nia.
Qed.

Lemma lf_add_eval f g x0 x1 : lf_eval (lf_add f g) x0 x1 = lf_eval f x0 x1 + lf_eval g x0 x1.
Proof. destruct f as [[a0 a1] ak], g as [[b0 b1] bk]. unfold lf_add, lf_eval. nia. Qed.

Lemma lw_inst ws ops s : two_opd s = true ->
  sw ws (inst ops s) = lf_eval (lw ws s) (sw ws (ops 0)) (sw ws (ops 1)).
Proof.
  induction s as [i|o a IH|o a IHa b IHb]; simpl; intro H.
  - destruct i as [|[|i]]; simpl; try lia. discriminate.
  - rewrite IH by exact H. destruct (w_un ws o) as [k c]. destruct (lw ws a) as [[a0 a1] ak].
    unfold lf_eval. nia.
  - apply andb_true_iff in H. destruct H as [H1 H2]. rewrite IHa, IHb by assumption.
    destruct (w_bin ws o) as [[al be] ga]. destruct (lw ws a) as [[a0 a1] ak].
    destruct (lw ws b) as [[b0 b1] bk]. unfold lf_eval. nia.
Qed.

Definition lf_scale (kc : nat * nat) (f : lform) : lform :=
  let '(a0, a1, ak) := f in (fst kc * a0, fst kc * a1, fst kc * ak + snd kc).
Definition nwd (ws : wspec) (d : bool) (x : nat) : nat :=
  if d then x else fst (w_ud ws) * x + snd (w_ud ws).
Definition nform (ws : wspec) (n : nsch) : lform :=
  if ns_d n then lw ws (ns_s n) else lf_scale (w_ud ws) (lw ws (ns_s n)).

Lemma nform_eval ws n x0 x1 : lf_eval (nform ws n) x0 x1 = nwd ws (ns_d n) (lf_eval (lw ws (ns_s n)) x0 x1).
Proof.
  unfold nform, nwd. destruct (ns_d n); [reflexivity|].
  destruct (lw ws (ns_s n)) as [[a0 a1] ak]. unfold lf_scale, lf_eval. nia.
Qed.

Definition group_form (ws : wspec) (g : list nsch) : lform :=
  fold_right (fun n f => lf_add (nform ws n) f) (0, 0, 0) g.

Definition rule_decreases (ws : wspec) (r : tfrule) : bool :=
  forallb (fun g => lf_lt (group_form ws g) (nform ws (r_principal r))) (r_exts r).

Definition nw (ws : wspec) (n : node) : nat :=
  match n with NS s d _ => nwd ws d (sw ws s) | NA _ _ => 0 end.
Definition gw (ws : wspec) (g : list node) : nat := fold_right (fun n k => nw ws n + k) 0 g.

Lemma group_form_inst ws ops w g : forallb (fun n => two_opd (ns_s n)) g = true ->
  gw ws (inst_group ops w g) = lf_eval (group_form ws g) (sw ws (ops 0)) (sw ws (ops 1)).
Proof.
  induction g as [|n g IH]; simpl; intro H; [reflexivity|].
  apply andb_true_iff in H. destruct H as [H1 H2].
  rewrite lf_add_eval, <- IH by exact H2. rewrite nform_eval, lw_inst by exact H1. reflexivity.
Qed.

Lemma memn_cons' i k tk : memn k (i :: tk) = Nat.eqb k i || memn k tk.
Proof. reflexivity. Qed.

(* potential of a branch: total weight of its unticked nodes *)
Fixpoint phi_from (ws : wspec) (k : nat) (b : list node) (tk : list nat) : nat :=
  match b with
  | [] => 0
  | n :: r => (if memn k tk then 0 else nw ws n) + phi_from ws (S k) r tk
  end.
Definition phi ws b tk := phi_from ws 0 b tk.

Lemma phi_from_app ws b : forall k g tk,
  phi_from ws k (b ++ g) tk = phi_from ws k b tk + phi_from ws (k + length b) g tk.
Proof.
  induction b as [|n r IH]; intros k g tk; simpl.
  - rewrite Nat.add_0_r. reflexivity.
  - rewrite IH. replace (S k + length r) with (k + S (length r)) by lia. lia.
Qed.

Lemma phi_from_fresh ws g : forall k tk, (forall j, memn j tk = true -> j < k) ->
  phi_from ws k g tk = gw ws g.
Proof.
  induction g as [|n r IH]; intros k tk H; simpl; [reflexivity|].
  destruct (memn k tk) eqn:E; [specialize (H k E); lia|].
  rewrite IH; [reflexivity|]. intros j Hj. specialize (H j Hj). lia.
Qed.

Lemma phi_from_skip ws r : forall j k tk, k < j ->
  phi_from ws j r (k :: tk) = phi_from ws j r tk.
Proof.
  induction r as [|x r IH]; intros j k tk H; simpl; [reflexivity|].
  rewrite IH by lia. destruct (Nat.eqb j k) eqn:E; [apply Nat.eqb_eq in E; lia|]. reflexivity.
Qed.

Lemma phi_from_tick ws b : forall k j tk n, k <= j ->
  nth_error b (j - k) = Some n -> memn j tk = false ->
  phi_from ws k b (j :: tk) + nw ws n = phi_from ws k b tk.
Proof.
  induction b as [|m r IH]; intros k j tk n Hkj Hn Hm; [destruct (j - k); discriminate|].
  cbn [phi_from]. rewrite memn_cons'.
  destruct (Nat.eqb k j) eqn:E.
  - apply Nat.eqb_eq in E. subst j. rewrite Nat.sub_diag in Hn. simpl in Hn. injection Hn as <-.
    rewrite Hm. rewrite phi_from_skip by lia. simpl. lia.
  - apply Nat.eqb_neq in E. assert (Hlt : S k <= j) by lia.
    replace (j - k) with (S (j - S k)) in Hn by lia. simpl in Hn.
    specialize (IH (S k) j tk n Hlt Hn Hm). simpl. lia.
Qed.

Definition sum_counts (f : tree -> nat) (ts : list tree) : nat := fold_right (fun t n => f t + n) 0 ts.

Fixpoint tf_count (t : tree) : nat :=
  match t with
  | TClosed | TOpen => 0
  | TStep st _ ts =>
      (match st with StTF _ => 1 | StAcc _ _ => 0 end) + fold_right (fun t n => tf_count t + n) 0 ts
  end.

Record term_ok (L : plogic) (ws : wspec) (m : nat) : Prop := {
  to_ws : ws_ok ws = true;
  to_two : forallb rule_two_opd (pl_rules L) = true;
  to_dec : forallb (rule_decreases ws) (pl_rules L) = true;
  to_m : forallb (fun r => Nat.leb (length (r_exts r)) m) (pl_rules L) = true }.

Lemma sum_bound (f : tree -> nat) ts K m :
  Forall (fun t => f t <= K) ts -> length ts <= m -> fold_right (fun t n => f t + n) 0 ts <= m * K.
Proof.
  revert m. induction ts as [|t ts IH]; intros m H Hl; simpl; [lia|].
  inversion H; subst. simpl in Hl. destruct m as [|m]; [lia|].
  specialize (IH m H3 ltac:(lia)). simpl. lia.
Qed.

Lemma pow_step m n : 1 <= n -> 1 + m * (S m) ^ (n - 1) <= (S m) ^ n.
Proof.
  intro H. destruct n as [|n]; [lia|]. simpl. rewrite Nat.sub_0_r.
  assert (1 <= (S m) ^ n).
  { clear. induction n as [|n IHn]; simpl; [lia|nia]. }
  nia.
Qed.

Lemma Forall2_length {A B} (R : A -> B -> Prop) la lb : Forall2 R la lb -> length la = length lb.
Proof. induction 1; simpl; congruence. Qed.

Theorem tf_steps_bounded L ws m : term_ok L ws m -> forall t b tk,
  check L t b tk = true -> (forall j, memn j tk = true -> j < length b) ->
  tf_count t <= (S m) ^ (phi ws b tk).
Proof.
  intros OK t. induction t as [| |st gs ts IH] using tree_ind'; intros b tk Hck Htk; simpl; try lia.
  simpl in Hck. destruct st as [i|w1 w2].
  - apply andb_true_iff in Hck. destruct Hck as [Hnt Hck]. apply negb_true_iff in Hnt.
    destruct (nth_error b i) as [[s d w|]|] eqn:En; try discriminate.
    destruct (find_rule (pl_rules L) s d) as [[r p]|] eqn:Ef; [|discriminate].
    rewrite !andb_true_iff in Hck. destruct Hck as [[Hg Hdes] Hall].
    apply groups_eqb_eq in Hg.
    apply find_rule_spec in Ef. destruct Ef as [Hr Hm]. apply match_rule_spec in Hm. destruct Hm as [Es Ed].
    apply all2_Forall2 in Hall.
    pose proof (to_two _ _ _ OK) as H2. rewrite forallb_forall in H2. specialize (H2 r Hr).
    unfold rule_two_opd in H2. apply andb_true_iff in H2. destruct H2 as [H2p H2g].
    pose proof (to_dec _ _ _ OK) as Hd. rewrite forallb_forall in Hd. specialize (Hd r Hr).
    pose proof (to_m _ _ _ OK) as Hmm. rewrite forallb_forall in Hmm. specialize (Hmm r Hr).
    apply Nat.leb_le in Hmm.
    assert (Hi : i < length b) by (apply nth_error_Some; rewrite En; discriminate).
    set (x0 := sw ws (ops_of p 0)). set (x1 := sw ws (ops_of p 1)).
    assert (X0 : 1 <= x0) by apply (sw_pos _ _ (to_ws _ _ _ OK)).
    assert (X1 : 1 <= x1) by apply (sw_pos _ _ (to_ws _ _ _ OK)).
    assert (Hsw : nw ws (NS s d w) = lf_eval (nform ws (r_principal r)) x0 x1).
    { simpl. rewrite nform_eval, Es, Ed. f_equal. apply lw_inst. exact H2p. }
    assert (Hphi : phi ws b tk = phi_from ws 0 b (i :: tk) + nw ws (NS s d w)).
    { symmetry. apply (phi_from_tick ws b 0 i tk (NS s d w)); [lia| rewrite Nat.sub_0_r; exact En | exact Hnt]. }
    assert (Hpos : 1 <= nw ws (NS s d w)).
    { simpl. pose proof (sw_pos ws s (to_ws _ _ _ OK)) as Hp. unfold nwd. destruct d; [exact Hp|].
      pose proof (to_ws _ _ _ OK) as Hw. unfold ws_ok in Hw. rewrite !andb_true_iff in Hw.
      destruct Hw as [[Hk _] _]. apply Nat.leb_le in Hk. nia. }
    (* every child has potential at most phi - 1 *)
    assert (Hch : Forall (fun t' => tf_count t' <= (S m) ^ (phi ws b tk - 1)) ts).
    { rewrite Forall_forall in IH. apply Forall_forall. intros t' Ht'.
      apply In_nth_error in Ht'. destruct Ht' as [j Hj].
      assert (exists g, nth_error gs j = Some g /\ check L t' (b ++ g) (i :: tk) = true) as [g [Hgj Hck']].
      { clear - Hall Hj. revert gs j Hall Hj. induction ts as [|x ts IHts]; intros gs j Hall Hj; [destruct j; discriminate|].
        inversion Hall as [|? y ? gs' Hxy Hrest]; subst. destruct j as [|j]; simpl in *.
        - injection Hj as <-. exists y. auto.
        - apply (IHts gs' j Hrest Hj). }
      assert (Htk' : forall j0, memn j0 (i :: tk) = true -> j0 < length (b ++ g)).
      { intros j0 Hj0. rewrite memn_cons' in Hj0. rewrite app_length. apply orb_true_iff in Hj0.
        destruct Hj0 as [Hj0|Hj0]; [apply Nat.eqb_eq in Hj0; lia | specialize (Htk _ Hj0); lia]. }
      pose proof (IH t' (nth_error_In _ _ Hj) (b ++ g) (i :: tk) Hck' Htk') as Hb.
      eapply Nat.le_trans; [exact Hb|]. apply Nat.pow_le_mono_r; [lia|].
      (* potential of the child *)
      unfold phi. rewrite phi_from_app. simpl.
      rewrite (phi_from_fresh ws g (length b) (i :: tk)).
      2:{ intros j0 Hj0. rewrite memn_cons' in Hj0. apply orb_true_iff in Hj0.
          destruct Hj0 as [Hj0|Hj0]; [apply Nat.eqb_eq in Hj0; lia | exact (Htk _ Hj0)]. }
      subst gs. apply nth_error_In in Hgj. unfold inst_groups in Hgj. apply in_map_iff in Hgj.
      destruct Hgj as [g0 [<- Hg0]].
      rewrite forallb_forall in H2g. specialize (H2g g0 Hg0).
      rewrite group_form_inst by exact H2g. fold x0 x1.
      unfold rule_decreases in Hd. rewrite forallb_forall in Hd. specialize (Hd g0 Hg0).
      pose proof (lf_lt_spec _ _ x0 x1 Hd X0 X1) as Hlt. unfold phi in Hphi. lia. }
    assert (Hlen : length ts <= m).
    { rewrite (Forall2_length _ _ _ Hall). subst gs. unfold inst_groups. rewrite map_length. exact Hmm. }
    pose proof (sum_bound tf_count ts _ m Hch Hlen) as Hsum.
    assert (Hp1 : 1 <= phi ws b tk) by lia.
    pose proof (pow_step m (phi ws b tk) Hp1). lia.
  - apply andb_true_iff in Hck. destruct Hck as [Hg Hck].
    destruct ts as [|t' [|]]; try discriminate.
    inversion IH as [|? ? IH1 _]; subst. simpl. rewrite Nat.add_0_r.
    assert (Htk' : forall j, memn j tk = true -> j < length (b ++ [NA w1 w2])).
    { intros j Hj. rewrite app_length. specialize (Htk _ Hj). lia. }
    pose proof (IH1 (b ++ [NA w1 w2]) tk Hck Htk') as Hb.
    eapply Nat.le_trans; [exact Hb|]. apply Nat.pow_le_mono_r; [lia|].
    unfold phi. rewrite phi_from_app. simpl. destruct (memn (length b) tk); simpl; lia.
Qed.
