(* Tab/LifecycleProofs.v — theorems about the life-cycle model, for every operation sequence
   (Step / Finish / Build / SetArgument / SetLogic / BuildTrunk / AddRule / HandBranch). *)
From Coq Require Import List Bool Arith ZArith Lia.
From PT Require Import Tab.Lifecycle.
Import ListNotations.

Ltac ifs :=
  repeat match goal with
  | |- context [if ?b then _ else _] => let E := fresh "E" in destruct b eqn:E
  | |- context [match ?b with Some _ => _ | None => _ end] => let E := fresh "E" in destruct b eqn:E
  end.

(* ---- finish ------------------------------------------------------------- *)
Lemma finish_finished c b2 s : finished (fst (finish c b2 s)) = true.
Proof.
  unfold finish. destruct (finished s) eqn:F; [exact F|].
  destruct (invalid c (set_finished s)) as [[|]|]; try reflexivity.
  destruct (c_models c && has_logic (set_finished s) && has_time_limit c && b2); reflexivity.
Qed.

Lemma finish_on_finished c b2 s : finished s = true -> finish c b2 s = (s, false).
Proof. intro F. unfold finish. rewrite F. reflexivity. Qed.

(* everything but the FINISHED / TIMED_OUT flags is kept by finish *)
Lemma finish_keeps c b2 s : let s' := fst (finish c b2 s) in
  premature s' = premature s /\ trunk s' = trunk s /\ started s' = started s /\ has_logic s' = has_logic s /\
  has_arg s' = has_arg s /\ locked s' = locked s /\ added s' = added s /\ nhand s' = nhand s /\
  hist s' = hist s /\ nrules s' = nrules s /\ (timed_out s = true -> timed_out s' = true).
Proof.
  unfold finish. destruct (finished s); [simpl; tauto|].
  destruct (invalid c (set_finished s)) as [[|]|]; simpl; try tauto.
  destruct (c_models c && has_logic s && has_time_limit c && b2); simpl; tauto.
Qed.

Lemma finish_timeout c b2 s s' : finish c b2 s = (s', true) -> finished s' = true /\ timed_out s' = true.
Proof.
  unfold finish. destruct (finished s); [intro H; inversion H|].
  destruct (invalid c (set_finished s)) as [[|]|]; try (intro H; inversion H; fail).
  destruct (c_models c && has_logic (set_finished s) && has_time_limit c && b2); intro H; inversion H.
  split; reflexivity.
Qed.

Lemma finish_no_timeout_flag c b2 s s' : finish c b2 s = (s', false) -> timed_out s' = timed_out s.
Proof.
  unfold finish. destruct (finished s); [intro H; inversion H; reflexivity|].
  destruct (invalid c (set_finished s)) as [[|]|]; try (intro H; inversion H; reflexivity).
  destruct (c_models c && has_logic (set_finished s) && has_time_limit c && b2); intro H; inversion H; reflexivity.
Qed.

(* ---- the supply of rule applications ------------------------------------------ *)
Lemma supply_eq c s s0 : trunk s = trunk s0 -> has_logic s = has_logic s0 -> nhand s = nhand s0 ->
  supply c s = supply c s0.
Proof. intros A B C. unfold supply. rewrite A, B, C. reflexivity. Qed.

Lemma supply_le c s : supply c s <= c_n c + c_h c * nhand s.
Proof. unfold supply. destruct (trunk s); destruct (has_logic s); lia. Qed.

(* ---- invariant ------------------------------------------------------------ *)
Record Inv (c : cfg) (s : st) : Prop := {
  i_prem : finished s = false -> premature s = true;
  i_hist : hist s <= supply c s;
  i_lim : forall z, c_max_steps c = Some z -> (0 < z)%Z -> (Z.of_nat (hist s) <= z)%Z;
  i_to : timed_out s = true -> finished s = true;
  i_trunk : trunk s = true -> started s = true /\ has_logic s = true /\ has_arg s = true /\ locked s = true;
  i_hist0 : 0 < hist s -> started s = true;
  i_started : started s = true -> has_logic s = true /\ locked s = true;
  i_hand : 0 < nhand s -> locked s = true }.

Lemma Inv_init c : Inv c init.
Proof.
  constructor.
  - intros _. reflexivity.
  - unfold supply. simpl. lia.
  - intros z M P. simpl. lia.
  - intro H. discriminate H.
  - intro H. discriminate H.
  - simpl. intro H. lia.
  - intro H. discriminate H.
  - simpl. intro H. lia.
Qed.

(* an operation that records no step keeps the invariant if it keeps these *)
Lemma Inv_update c s s' : Inv c s ->
  (finished s' = false -> premature s' = true) ->
  hist s' = hist s -> supply c s <= supply c s' ->
  (timed_out s' = true -> finished s' = true) ->
  (trunk s' = true -> started s' = true /\ has_logic s' = true /\ has_arg s' = true /\ locked s' = true) ->
  (started s = true -> started s' = true) ->
  (started s' = true -> has_logic s' = true /\ locked s' = true) ->
  (0 < nhand s' -> locked s' = true) -> Inv c s'.
Proof.
  intros I P H S T Tr Mono St Hd. destruct I as [ip ih il it itr ih0 ist ihd].
  constructor.
  - exact P.
  - rewrite H. lia.
  - intros z M Pz. rewrite H. exact (il z M Pz).
  - exact T.
  - exact Tr.
  - intro Q. rewrite H in Q. apply Mono, ih0, Q.
  - exact St.
  - exact Hd.
Qed.

Lemma supply_pos c s : Inv c s -> 0 < supply c s -> has_logic s = true /\ locked s = true.
Proof.
  intros I H. unfold supply in H. destruct (trunk s) eqn:T.
  - destruct (i_trunk _ _ I T) as (_ & L & _ & K). split; assumption.
  - destruct (has_logic s) eqn:L; [|simpl in H; lia]. split; [reflexivity|].
    apply (i_hand _ _ I). destruct (nhand s) as [|m]; [rewrite Nat.mul_0_r in H; simpl in H; lia|lia].
Qed.

Lemma exceeded_false_lim c s z : exceeded c s = false -> c_max_steps c = Some z -> (0 < z)%Z ->
  (Z.of_nat (hist s) < z)%Z.
Proof.
  unfold exceeded, has_step_limit, positive. intros E M P. rewrite M in E.
  assert (Q : (0 <? z)%Z = true) by (apply Z.ltb_lt; exact P). rewrite Q in E. simpl in E.
  apply Z.leb_gt in E. exact E.
Qed.

Definition same_core (s s0 : st) : Prop :=
  trunk s = trunk s0 /\ started s = started s0 /\ has_logic s = has_logic s0 /\ has_arg s = has_arg s0 /\
  locked s = locked s0 /\ added s = added s0 /\ nhand s = nhand s0 /\ hist s = hist s0 /\ nrules s = nrules s0.

Lemma same_core_refl s : same_core s s.
Proof. unfold same_core. repeat split. Qed.

(* finish re-establishes the invariant whatever PREMATURE / TIMED_OUT were *)
Lemma Inv_finish_gen c b2 s s0 : Inv c s0 -> same_core s s0 -> Inv c (fst (finish c b2 s)).
Proof.
  intros I (C1 & C2 & C3 & C4 & C5 & C6 & C7 & C8 & C9).
  pose proof (finish_keeps c b2 s) as K. pose proof (finish_finished c b2 s) as F.
  cbv zeta in K. destruct K as (K1 & K2 & K3 & K4 & K5 & K6 & K7 & K8 & K9 & K10 & K11).
  apply (Inv_update c s0); [exact I| | | | | | | |].
  - intro Q. rewrite F in Q. discriminate Q.
  - rewrite K9. exact C8.
  - apply Nat.eq_le_incl. symmetry. apply supply_eq; congruence.
  - intros _. exact F.
  - rewrite K2, K3, K4, K5, K6, C1, C2, C3, C4, C5. apply (i_trunk _ _ I).
  - rewrite K3, C2. intro Q. exact Q.
  - rewrite K3, K4, K6, C2, C3, C5. apply (i_started _ _ I).
  - rewrite K8, K6, C7, C5. apply (i_hand _ _ I).
Qed.

Lemma Inv_finish c b2 s : Inv c s -> Inv c (fst (finish c b2 s)).
Proof. intro I. apply Inv_finish_gen with (s0 := s); [exact I|apply same_core_refl]. Qed.

Lemma Inv_apply_rule c s : Inv c s -> exceeded c s = false -> available c s = true -> Inv c (apply_rule s).
Proof.
  intros I X A. unfold available in A. apply Nat.ltb_lt in A.
  assert (Pos : 0 < supply c s) by lia.
  destruct (supply_pos c s I Pos) as [HL LK].
  destruct I as [ip ih il it itr ih0 ist ihd].
  constructor.
  - exact ip.
  - change (S (hist s) <= supply c s). lia.
  - intros z M P. change (Z.of_nat (S (hist s)) <= z)%Z. pose proof (exceeded_false_lim c s z X M P). lia.
  - exact it.
  - intro T. change (trunk s = true) in T. destruct (itr T) as (_ & H2 & H3 & H4).
    change (true = true /\ has_logic s = true /\ has_arg s = true /\ locked s = true). auto.
  - intros _. reflexivity.
  - intros _. change (has_logic s = true /\ locked s = true). auto.
  - exact ihd.
Qed.

Lemma Inv_step c b b2 s : Inv c s -> Inv c (fst (step c b b2 s)).
Proof.
  intros I. unfold step. destruct (finished s) eqn:F; [exact I|].
  destruct (has_time_limit c && b) eqn:T.
  - apply Inv_finish_gen with (s0 := s); [exact I|]. unfold same_core; simpl; tauto.
  - destruct (negb (exceeded c s)) eqn:X.
    + destruct (available c s) eqn:A.
      * apply negb_true_iff in X. cbn [fst]. apply Inv_apply_rule; assumption.
      * destruct (finish c b2 (clear_premature s)) as [s2 t] eqn:Q.
        change s2 with (fst (s2, t)). rewrite <- Q. apply Inv_finish_gen with (s0 := s); [exact I|].
        unfold same_core; simpl; tauto.
    + destruct (finish c b2 s) as [s2 t] eqn:Q. change s2 with (fst (s2, t)). rewrite <- Q.
      apply Inv_finish. exact I.
Qed.

Lemma Inv_build_loop c fuel : forall i k b2 s, Inv c s -> Inv c (fst (build_loop c fuel i k b2 s)).
Proof.
  induction fuel as [|f IH]; intros i k b2 s I; simpl; [exact I|].
  pose proof (Inv_step c (clock k i) b2 s I) as J.
  destruct (step c (clock k i) b2 s) as [s' r]. simpl in J.
  destruct r; simpl; try exact J. apply IH. exact J.
Qed.

Lemma refuses_false c s : refuses c s = false -> started s = false.
Proof. unfold refuses. intro H. apply orb_false_iff in H. tauto. Qed.

Lemma refuses_started c s : started s = true -> refuses c s = true.
Proof. unfold refuses. intros ->. reflexivity. Qed.

Lemma Inv_build_trunk c s : Inv c s -> Inv c (fst (build_trunk c s)).
Proof.
  intro I. unfold build_trunk.
  destruct (trunk s) eqn:T; [exact I|].
  destruct (negb (has_arg s)) eqn:A; [exact I|].
  destruct (negb (has_logic s)) eqn:L; [exact I|].
  destruct (refuses c s) eqn:S; [exact I|].
  apply negb_false_iff in A, L. cbn [fst].
  apply (Inv_update c s); [exact I| | | | | | | |].
  - exact (i_prem _ _ I).
  - reflexivity.
  - change (supply c (do_trunk s)) with (c_n c + (if has_logic s then c_h c * nhand s else 0)).
    unfold supply. rewrite T. lia.
  - exact (i_to _ _ I).
  - intros _. change (true = true /\ has_logic s = true /\ has_arg s = true /\ true = true). auto.
  - intros _. reflexivity.
  - intros _. change (has_logic s = true /\ true = true). auto.
  - intros _. reflexivity.
Qed.

Lemma Inv_set_argument c s : Inv c s -> Inv c (fst (set_argument c s)).
Proof.
  intro I. unfold set_argument. destruct (refuses c s) eqn:R; [exact I|]. pose proof (refuses_false c s R) as S.
  cbv zeta.
  match goal with |- context [build_trunk c ?x] => set (s1 := x) end.
  assert (I1 : Inv c s1).
  { apply (Inv_update c s); [exact I| | | | | | | |].
    - exact (i_prem _ _ I).
    - reflexivity.
    - change (supply c s <= supply c s). lia.
    - exact (i_to _ _ I).
    - intro T. change (trunk s = true) in T. destruct (i_trunk _ _ I T) as (H1 & _). congruence.
    - intro Q. exact Q.
    - intro Q. exact (i_started _ _ I Q).
    - exact (i_hand _ _ I). }
  destruct (has_logic s1 && c_auto c); [apply Inv_build_trunk; exact I1|exact I1].
Qed.

Lemma Inv_set_logic c s : Inv c s -> Inv c (fst (set_logic c s)).
Proof.
  intro I. unfold set_logic. destruct (refuses c s) eqn:R; [exact I|]. pose proof (refuses_false c s R) as S.
  destruct (locked s) eqn:L; [exact I|].
  cbv zeta.
  match goal with |- context [build_trunk c ?x] => set (s1 := x) end.
  assert (I1 : Inv c s1).
  { apply (Inv_update c s); [exact I| | | | | | | |].
    - exact (i_prem _ _ I).
    - reflexivity.
    - change (supply c s1) with ((if trunk s then c_n c else 0) + c_h c * nhand s).
      unfold supply. destruct (has_logic s); lia.
    - exact (i_to _ _ I).
    - intro T. change (trunk s = true) in T. destruct (i_trunk _ _ I T) as (_ & _ & _ & H4). congruence.
    - intro Q. exact Q.
    - intro Q. change (started s = true) in Q. congruence.
    - intro Q. change (0 < nhand s) in Q. pose proof (i_hand _ _ I Q) as H. congruence. }
  destruct (has_arg s1 && c_auto c); [apply Inv_build_trunk; exact I1|exact I1].
Qed.

Lemma Inv_add_rule c s : Inv c s -> Inv c (fst (add_rule s)).
Proof.
  intro I. unfold add_rule. destruct (locked s) eqn:L; [exact I|]. destruct (added s); [exact I|].
  cbn [fst]. apply (Inv_update c s); [exact I| | | | | | | |].
  - exact (i_prem _ _ I).
  - reflexivity.
  - match goal with |- _ <= supply c ?x => change (supply c x) with (supply c s) end. lia.
  - exact (i_to _ _ I).
  - intro T. change (trunk s = true) in T. destruct (i_trunk _ _ I T) as (_ & _ & _ & H4). congruence.
  - intro Q. exact Q.
  - intro Q. change (started s = true) in Q. destruct (i_started _ _ I Q) as (_ & H2). congruence.
  - intro Q. change (0 < nhand s) in Q. pose proof (i_hand _ _ I Q) as H. congruence.
Qed.

Lemma supply_hand_branch c s : supply c s <= supply c (fst (hand_branch s)).
Proof.
  change (supply c (fst (hand_branch s))) with
    ((if trunk s then c_n c else 0) + (if has_logic s then c_h c * S (nhand s) else 0)).
  unfold supply. rewrite Nat.mul_succ_r. destruct (has_logic s); lia.
Qed.

Lemma Inv_hand_branch c s : Inv c s -> Inv c (fst (hand_branch s)).
Proof.
  intro I. apply (Inv_update c s); [exact I| | | | | | | |].
  - exact (i_prem _ _ I).
  - reflexivity.
  - apply supply_hand_branch.
  - exact (i_to _ _ I).
  - intro T. change (trunk s = true) in T. destruct (i_trunk _ _ I T) as (H1 & H2 & H3 & _).
    change (started s = true /\ has_logic s = true /\ has_arg s = true /\ true = true). auto.
  - intro Q. exact Q.
  - intro Q. change (started s = true) in Q. destruct (i_started _ _ I Q) as (H1 & _).
    change (has_logic s = true /\ true = true). auto.
  - intros _. reflexivity.
Qed.

Lemma Inv_exec c s o : Inv c s -> Inv c (fst (exec c s o)).
Proof.
  intro I. destruct o as [b b2|b2|k b2| | | | |]; cbn [exec].
  - apply Inv_step, I.
  - pose proof (Inv_finish c b2 s I) as J. destruct (finish c b2 s) as [s' t]. exact J.
  - apply Inv_build_loop, I.
  - apply Inv_set_argument, I.
  - apply Inv_set_logic, I.
  - apply Inv_build_trunk, I.
  - apply Inv_add_rule, I.
  - apply Inv_hand_branch, I.
Qed.

Lemma Inv_fold c ops : forall s, Inv c s -> Inv c (fold_left (fun s o => fst (exec c s o)) ops s).
Proof. induction ops as [|o r IH]; intros s I; simpl; [exact I|]. apply IH, Inv_exec, I. Qed.

Lemma Inv_run c ops : Inv c (run c ops).
Proof. apply Inv_fold, Inv_init. Qed.

(* In every reachable state STARTED implies a locked rule set, so the logic setter's own test of
   Flag.STARTED is redundant: rules.clear() raises the same IllegalStateError first.  (A mutant
   that weakens that test is behaviourally equivalent up to the error message.) *)
Definition set_logic_no_started_guard (c : cfg) (s : st) : st * res :=
  if c_fin_lock c && finished s then (s, RErr IllegalState) else
  if locked s then (s, RErr IllegalState) else
  let s1 := mkSt (premature s) (finished s) (timed_out s) (trunk s) (started s) true (has_arg s) (locked s) false
                 (nhand s) (hist s) (c_nrules c) in
  if has_arg s1 && c_auto c then build_trunk c s1 else (s1, ROk).

Lemma logic_started_guard_redundant c ops : let s := run c ops in
  set_logic c s = set_logic_no_started_guard c s.
Proof.
  intro s. pose proof (Inv_run c ops) as I. fold s in I.
  unfold set_logic, set_logic_no_started_guard, refuses.
  destruct (started s) eqn:St.
  - destruct (i_started _ _ I St) as (_ & L). rewrite L. cbn [orb].
    destruct (c_fin_lock c && finished s); reflexivity.
  - cbn [orb]. reflexivity.
Qed.

(* ---- steps_bounded ------------------------------------------------------------- *)
Theorem steps_bounded c ops z : c_max_steps c = Some z -> (0 < z)%Z -> (Z.of_nat (hist (run c ops)) <= z)%Z.
Proof. intros M P. exact (i_lim _ _ (Inv_run c ops) z M P). Qed.

(* ---- verdicts --------------------------------------------------------------------- *)
Lemma premature_no_verdict c s : premature s = true -> valid c s = None /\ invalid c s = None.
Proof. intro P. unfold valid, invalid, verdict_ok, completed. rewrite P, andb_false_r. simpl. auto. Qed.

Lemma no_argument_no_verdict_state c s : has_arg s = false -> valid c s = None /\ invalid c s = None.
Proof. intro A. unfold valid, invalid, verdict_ok. rewrite A, andb_false_r. auto. Qed.

(* ---- limit_premature ----------------------------------------------------------------- *)
(* stopped by the step limit *)
Lemma step_limit_stops c b b2 s : Inv c s -> finished s = false -> exceeded c s = true ->
  has_time_limit c && b = false ->
  let '(s', r) := step c b b2 s in
  r = RNone /\ finished s' = true /\ premature s' = true /\ timed_out s' = false /\ hist s' = hist s /\
  valid c s' = None /\ invalid c s' = None.
Proof.
  intros I F X T. unfold step. rewrite F, T, X. cbn [negb].
  assert (P : premature s = true) by (apply (i_prem _ _ I), F).
  assert (TO : timed_out s = false).
  { destruct (timed_out s) eqn:Q; [|reflexivity]. pose proof (i_to _ _ I Q). congruence. }
  unfold finish. rewrite F.
  assert (V : invalid c (set_finished s) = None).
  { apply premature_no_verdict. exact P. }
  rewrite V. cbn [fst snd]. repeat split; auto.
  - apply (premature_no_verdict c (set_finished s)). exact P.
Qed.

(* stopped by the time limit *)
Lemma time_limit_stops c b2 s : Inv c s -> finished s = false -> has_time_limit c = true ->
  let '(s', r) := step c true b2 s in
  r = RErr Timeout /\ finished s' = true /\ premature s' = true /\ timed_out s' = true /\ hist s' = hist s /\
  valid c s' = None /\ invalid c s' = None.
Proof.
  intros I F T. unfold step. rewrite F, T. cbn [andb].
  assert (P : premature s = true) by (apply (i_prem _ _ I), F).
  unfold finish. cbn [finished set_timed_out]. rewrite F.
  assert (V : invalid c (set_finished (set_timed_out s)) = None).
  { apply premature_no_verdict. exact P. }
  rewrite V. cbn [fst snd]. repeat split; auto.
  apply (premature_no_verdict c (set_finished (set_timed_out s))). exact P.
Qed.

(* ---- timeout_finishes -------------------------------------------------------------- *)
Lemma step_timeout c b b2 s s' : step c b b2 s = (s', RErr Timeout) -> finished s' = true /\ timed_out s' = true.
Proof.
  unfold step. destruct (finished s) eqn:F; [intro H; inversion H|].
  destruct (has_time_limit c && b).
  - intro H. inversion H. split; [apply finish_finished|].
    pose proof (finish_keeps c b2 (set_timed_out s)) as K. cbv zeta in K. apply K. reflexivity.
  - destruct (negb (exceeded c s)).
    + destruct (available c s); [intro H; inversion H|].
      destruct (finish c b2 (clear_premature s)) as [s2 t] eqn:Q. destruct t; intro H; inversion H. subst.
      eapply finish_timeout, Q.
    + destruct (finish c b2 s) as [s2 t] eqn:Q. destruct t; intro H; inversion H. subst.
      eapply finish_timeout, Q.
Qed.

Lemma build_loop_timeout c fuel : forall i k b2 s s', build_loop c fuel i k b2 s = (s', RErr Timeout) ->
  finished s' = true /\ timed_out s' = true.
Proof.
  induction fuel as [|f IH]; intros i k b2 s s'; simpl; [intro H; inversion H|].
  destruct (step c (clock k i) b2 s) as [s1 r] eqn:Q.
  destruct r as [| | |e|]; try (intro H; inversion H; fail).
  - apply IH.
  - intro H. inversion H. subst. eapply step_timeout, Q.
Qed.

Theorem timeout_finishes c s o s' : exec c s o = (s', RErr Timeout) -> finished s' = true /\ timed_out s' = true.
Proof.
  destruct o as [b b2|b2|k b2| | | | |]; cbn [exec].
  - apply step_timeout.
  - destruct (finish c b2 s) as [s2 t] eqn:Q. destruct t; intro H; inversion H. subst. eapply finish_timeout, Q.
  - apply build_loop_timeout.
  - unfold set_argument, build_trunk. ifs; intro H; inversion H.
  - unfold set_logic, build_trunk. ifs; intro H; inversion H.
  - unfold build_trunk. ifs; intro H; inversion H.
  - unfold add_rule. ifs; intro H; inversion H.
  - unfold hand_branch. intro H; inversion H.
Qed.

(* ---- finished_idempotent -------------------------------------------------------------- *)
Lemma build_loop_finished c fuel i k b2 s : finished s = true -> 0 < fuel -> build_loop c fuel i k b2 s = (s, ROk).
Proof. intros F L. destruct fuel; [lia|]. simpl. unfold step. rewrite F. reflexivity. Qed.

Theorem finished_idempotent c s : finished s = true ->
  (forall b b2, exec c s (Step b b2) = (s, RNone)) /\
  (forall b2, exec c s (Finish b2) = (s, ROk)) /\
  (forall k b2, exec c s (Build k b2) = (s, ROk)).
Proof.
  intro F. repeat split; intros; cbn [exec].
  - unfold step. rewrite F. reflexivity.
  - rewrite finish_on_finished by exact F. reflexivity.
  - apply build_loop_finished; [exact F|lia].
Qed.

(* ---- setters_locked ------------------------------------------------------------------ *)
Theorem setters_locked c s : started s = true ->
  exec c s SetArgument = (s, RErr IllegalState) /\
  exec c s SetLogic = (s, RErr IllegalState) /\
  exec c s BuildTrunk = (s, RErr IllegalState).
Proof.
  intro S. cbn [exec]. unfold set_argument, set_logic, build_trunk. rewrite (refuses_started c s S).
  repeat split. ifs; reflexivity.
Qed.

Theorem rules_locked s : locked s = true -> add_rule s = (s, RErr IllegalState).
Proof. intro L. unfold add_rule. rewrite L. reflexivity. Qed.

(* once started: stays started, keeps its logic, argument and rule set *)
Lemma step_keeps c b b2 s : let s' := fst (step c b b2 s) in
  (started s = true -> started s' = true) /\ has_logic s' = has_logic s /\ has_arg s' = has_arg s /\
  locked s' = locked s /\ added s' = added s /\ nrules s' = nrules s /\ trunk s' = trunk s /\ nhand s' = nhand s.
Proof.
  unfold step. destruct (finished s); [simpl; tauto|].
  destruct (has_time_limit c && b).
  - pose proof (finish_keeps c b2 (set_timed_out s)) as K. cbv zeta in K. cbv zeta.
    destruct K as (K1 & K2 & K3 & K4 & K5 & K6 & K7 & K8 & K9 & K10 & K11). cbn [fst].
    rewrite K2, K3, K4, K5, K6, K7, K8, K10. simpl. tauto.
  - destruct (negb (exceeded c s)).
    + destruct (available c s); [simpl; tauto|].
      pose proof (finish_keeps c b2 (clear_premature s)) as K. cbv zeta in K.
      destruct (finish c b2 (clear_premature s)) as [s2 t]. cbn [fst] in *.
      destruct K as (K1 & K2 & K3 & K4 & K5 & K6 & K7 & K8 & K9 & K10 & K11).
      rewrite K2, K3, K4, K5, K6, K7, K8, K10. simpl. tauto.
    + pose proof (finish_keeps c b2 s) as K. cbv zeta in K.
      destruct (finish c b2 s) as [s2 t]. simpl in *.
      destruct K as (K1 & K2 & K3 & K4 & K5 & K6 & K7 & K8 & K9 & K10 & K11).
      rewrite K2, K3, K4, K5, K6, K7, K8, K10. tauto.
Qed.

Lemma build_loop_keeps c fuel : forall i k b2 s, let s' := fst (build_loop c fuel i k b2 s) in
  (started s = true -> started s' = true) /\ has_logic s' = has_logic s /\ has_arg s' = has_arg s /\
  locked s' = locked s /\ added s' = added s /\ nrules s' = nrules s /\ trunk s' = trunk s /\ nhand s' = nhand s.
Proof.
  induction fuel as [|f IH]; intros i k b2 s; simpl; [tauto|].
  pose proof (step_keeps c (clock k i) b2 s) as K. cbv zeta in K.
  destruct (step c (clock k i) b2 s) as [s1 r]. simpl in K.
  destruct K as (K1 & K2 & K3 & K4 & K5 & K6 & K7 & K8).
  destruct r; simpl; try tauto.
  specialize (IH (S i) k b2 s1). cbv zeta in IH. destruct IH as (J1 & J2 & J3 & J4 & J5 & J6 & J7 & J8).
  rewrite J2, J3, J4, J5, J6, J7, J8. tauto.
Qed.

Theorem started_frozen c s o : Inv c s -> started s = true -> let s' := fst (exec c s o) in
  started s' = true /\ has_logic s' = has_logic s /\ has_arg s' = has_arg s /\
  locked s' = true /\ added s' = added s /\ nrules s' = nrules s.
Proof.
  intros I St. destruct (i_started _ _ I St) as (_ & L).
  destruct o as [b b2|b2|k b2| | | | |]; cbn [exec]; cbv zeta.
  - pose proof (step_keeps c b b2 s) as K. cbv zeta in K. destruct K as (K1 & K2 & K3 & K4 & K5 & K6 & K7 & K8).
    rewrite K2, K3, K4, K5, K6. repeat split; auto.
  - pose proof (finish_keeps c b2 s) as K. cbv zeta in K. destruct (finish c b2 s) as [s2 t]. simpl in *.
    destruct K as (K1 & K2 & K3 & K4 & K5 & K6 & K7 & K8 & K9 & K10 & K11). rewrite K3, K4, K5, K6, K7, K10. repeat split; auto.
  - pose proof (build_loop_keeps c (S (supply c s - hist s)) 0 k b2 s) as K. cbv zeta in K.
    destruct K as (K1 & K2 & K3 & K4 & K5 & K6 & K7 & K8). unfold build. rewrite K2, K3, K4, K5, K6. repeat split; auto.
  - destruct (setters_locked c s St) as (H & _ & _). cbn [exec] in H. rewrite H. simpl. repeat split; auto.
  - destruct (setters_locked c s St) as (_ & H & _). cbn [exec] in H. rewrite H. simpl. repeat split; auto.
  - destruct (setters_locked c s St) as (_ & _ & H). cbn [exec] in H. rewrite H. simpl. repeat split; auto.
  - rewrite (rules_locked s L). simpl. repeat split; auto.
  - unfold hand_branch. simpl. repeat split; auto.
Qed.

(* ---- no_argument_no_verdict ---------------------------------------------------------- *)
Lemma exec_keeps_no_arg c s o : o <> SetArgument -> has_arg s = false -> has_arg (fst (exec c s o)) = false.
Proof.
  intros N A. destruct o as [b b2|b2|k b2| | | | |]; cbn [exec].
  - pose proof (step_keeps c b b2 s) as K. cbv zeta in K. destruct K as (_ & _ & K & _). congruence.
  - pose proof (finish_keeps c b2 s) as K. cbv zeta in K. destruct (finish c b2 s) as [s2 t]. cbn [fst] in *.
    destruct K as (_ & _ & _ & _ & K & _). congruence.
  - pose proof (build_loop_keeps c (S (supply c s - hist s)) 0 k b2 s) as K. cbv zeta in K.
    destruct K as (_ & _ & K & _). unfold build. congruence.
  - congruence.
  - unfold set_logic. destruct (refuses c s); [exact A|]. destruct (locked s); [exact A|].
    simpl. rewrite A. simpl. first [reflexivity | exact A].
  - unfold build_trunk. destruct (trunk s); [exact A|]. rewrite A. simpl. first [reflexivity | exact A].
  - unfold add_rule. destruct (locked s); [exact A|]. destruct (added s); simpl; first [reflexivity | exact A].
  - unfold hand_branch. simpl. exact A.
Qed.

Theorem no_argument_no_verdict c ops : ~ In SetArgument ops ->
  valid c (run c ops) = None /\ invalid c (run c ops) = None.
Proof.
  intro N. apply no_argument_no_verdict_state. unfold run.
  assert (G : forall s, has_arg s = false -> has_arg (fold_left (fun s o => fst (exec c s o)) ops s) = false).
  { induction ops as [|o r IH]; intros s A; simpl; [exact A|].
    apply IH; [intro H; apply N; right; exact H|].
    apply exec_keeps_no_arg; [intro E; apply N; left; exact E|exact A]. }
  apply G. reflexivity.
Qed.

(* ---- big_limit_noop ------------------------------------------------------------------ *)
Definition same_but_limit (c c' : cfg) : Prop :=
  c_n c = c_n c' /\ c_closes c = c_closes c' /\ c_h c = c_h c' /\ c_nrules c = c_nrules c' /\ c_auto c = c_auto c' /\
  c_models c = c_models c' /\ c_timeout c = c_timeout c' /\ c_fin_lock c = c_fin_lock c' /\
  c_trunk_verdict c = c_trunk_verdict c'.

Lemma supply_ext c c' s : same_but_limit c c' -> supply c s = supply c' s.
Proof. intros (N & C & H & _). unfold supply. rewrite N, H. reflexivity. Qed.

Lemma finish_ext c c' b2 s : same_but_limit c c' -> finish c b2 s = finish c' b2 s.
Proof.
  intros (N & C & H & R & A & M & T & FL & TV).
  assert (O : forall x, open_zero c x = open_zero c' x) by (intro x; unfold open_zero; rewrite N, C; reflexivity).
  assert (I : forall x, invalid c x = invalid c' x) by (intro x; unfold invalid, verdict_ok; rewrite TV, O; reflexivity).
  unfold finish, has_time_limit. rewrite I, M, T. reflexivity.
Qed.

Lemma step_ext c c' b b2 s : same_but_limit c c' -> exceeded c s = exceeded c' s -> step c b b2 s = step c' b b2 s.
Proof.
  intros Sm X. pose proof Sm as (N & C & H & R & A & M & T & FL & TV).
  assert (Av : available c s = available c' s) by (unfold available; rewrite (supply_ext c c' s Sm); reflexivity).
  assert (TL : has_time_limit c = has_time_limit c') by (unfold has_time_limit; rewrite T; reflexivity).
  unfold step. rewrite Av, TL, X, !(finish_ext c c' b2 _ Sm). reflexivity.
Qed.

Lemma step_supply c b b2 s : supply c (fst (step c b b2 s)) = supply c s.
Proof.
  pose proof (step_keeps c b b2 s) as K. cbv zeta in K. destruct K as (_ & K2 & _ & _ & _ & _ & K7 & K8).
  apply supply_eq; assumption.
Qed.

Lemma build_loop_supply c fuel : forall i k b2 s, supply c (fst (build_loop c fuel i k b2 s)) = supply c s.
Proof.
  intros i k b2 s. pose proof (build_loop_keeps c fuel i k b2 s) as K. cbv zeta in K.
  destruct K as (_ & K2 & _ & _ & _ & _ & K7 & K8). apply supply_eq; assumption.
Qed.

(* the two configurations agree on `exceeded` in every state with n rule applications to make *)
Lemma build_loop_ext c c' n : same_but_limit c c' ->
  (forall s, Inv c s -> supply c s = n -> exceeded c s = exceeded c' s) ->
  forall fuel i k b2 s, Inv c s -> supply c s = n -> build_loop c fuel i k b2 s = build_loop c' fuel i k b2 s.
Proof.
  intros Sm X. induction fuel as [|f IH]; intros i k b2 s I E; simpl; [reflexivity|].
  rewrite <- (step_ext c c' _ _ _ Sm (X s I E)).
  pose proof (Inv_step c (clock k i) b2 s I) as J. pose proof (step_supply c (clock k i) b2 s) as SS.
  destruct (step c (clock k i) b2 s) as [s' r]. simpl in J, SS. destruct r; try reflexivity.
  apply IH; [exact J|congruence].
Qed.

Lemma exec_ext c c' s : same_but_limit c c' ->
  (forall s', Inv c s' -> supply c s' = supply c s -> exceeded c s' = exceeded c' s') ->
  forall o, Inv c s -> exec c s o = exec c' s o.
Proof.
  intros Sm X o I. pose proof Sm as (N & C & H & R & A & M & T & FL & TV).
  destruct o as [b b2|b2|k b2| | | | |]; cbn [exec].
  - apply step_ext; [exact Sm|]. apply X; [exact I|reflexivity].
  - rewrite (finish_ext c c' b2 s Sm). reflexivity.
  - unfold build. rewrite <- (supply_ext c c' s Sm). apply (build_loop_ext c c' (supply c s)); auto.
  - unfold set_argument, build_trunk, refuses. rewrite A, FL. reflexivity.
  - unfold set_logic, build_trunk, refuses. rewrite A, R, FL. reflexivity.
  - unfold build_trunk, refuses. rewrite FL. reflexivity.
  - reflexivity.
  - reflexivity.
Qed.

Lemma trace_ext c c' : same_but_limit c c' -> (forall s, Inv c s -> exceeded c s = exceeded c' s) ->
  forall ops s, Inv c s -> trace c s ops = trace c' s ops.
Proof.
  intros Sm X. induction ops as [|o r IH]; intros s I; simpl; [reflexivity|].
  rewrite <- (exec_ext c c' s Sm (fun s' I' _ => X s' I') o I). pose proof (Inv_exec c s o I) as J.
  destruct (exec c s o) as [s' x]. simpl in J. rewrite (IH s' J). reflexivity.
Qed.

Definition with_limit (c : cfg) (m : option Z) : cfg :=
  mkCfg (c_n c) (c_closes c) (c_h c) (c_nrules c) (c_auto c) (c_models c) m (c_timeout c) (c_fin_lock c)
        (c_trunk_verdict c).

Lemma same_with_limit c m m' : same_but_limit (with_limit c m) (with_limit c m').
Proof. unfold same_but_limit; simpl; tauto. Qed.

Lemma supply_with_limit c m s : supply (with_limit c m) s = supply c s.
Proof. reflexivity. Qed.

Lemma exceeded_none c s : exceeded (with_limit c None) s = false.
Proof. reflexivity. Qed.

Lemma exceeded_nonpositive c z s : (z <= 0)%Z -> exceeded (with_limit c (Some z)) s = false.
Proof.
  intro H. unfold exceeded, has_step_limit, positive. simpl.
  assert (E : (0 <? z)%Z = false) by (apply Z.ltb_ge; exact H). rewrite E. reflexivity.
Qed.

Lemma exceeded_big c L s : (Z.of_nat (hist s) < L)%Z -> exceeded (with_limit c (Some L)) s = false.
Proof.
  intro H. unfold exceeded, has_step_limit, positive. simpl.
  assert (E : (L <=? Z.of_nat (hist s))%Z = false) by (apply Z.leb_gt; exact H).
  rewrite E. apply andb_false_r.
Qed.

(* the supply only grows along a run: the natural length of the proof a run builds *)
Lemma supply_build_trunk c s : supply c s <= supply c (fst (build_trunk c s)).
Proof.
  unfold build_trunk.
  destruct (trunk s) eqn:T; [cbn [fst]; lia|].
  destruct (negb (has_arg s)); [cbn [fst]; lia|].
  destruct (negb (has_logic s)); [cbn [fst]; lia|].
  destruct (refuses c s); [cbn [fst]; lia|]. cbn [fst].
  change (supply c (do_trunk s)) with (c_n c + (if has_logic s then c_h c * nhand s else 0)).
  unfold supply. rewrite T. lia.
Qed.

Lemma supply_mono_exec c s o : supply c s <= supply c (fst (exec c s o)).
Proof.
  destruct o as [b b2|b2|k b2| | | | |]; cbn [exec].
  - rewrite step_supply. lia.
  - pose proof (finish_keeps c b2 s) as K. cbv zeta in K. destruct (finish c b2 s) as [s2 t]. cbn [fst] in *.
    destruct K as (_ & K2 & _ & K4 & _ & _ & _ & K8 & _).
    rewrite (supply_eq c s2 s K2 K4 K8). lia.
  - unfold build. rewrite build_loop_supply. lia.
  - unfold set_argument. destruct (refuses c s); [cbn [fst]; lia|]. cbv zeta.
    match goal with |- context [build_trunk c ?x] => set (s1 := x) end.
    assert (E : supply c s1 = supply c s) by reflexivity.
    destruct (has_logic s1 && c_auto c); [|cbn [fst]; lia].
    pose proof (supply_build_trunk c s1). lia.
  - unfold set_logic. destruct (refuses c s); [cbn [fst]; lia|]. destruct (locked s); [cbn [fst]; lia|]. cbv zeta.
    match goal with |- context [build_trunk c ?x] => set (s1 := x) end.
    assert (E : supply c s <= supply c s1).
    { change (supply c s1) with ((if trunk s then c_n c else 0) + c_h c * nhand s).
      unfold supply. destruct (has_logic s); lia. }
    destruct (has_arg s1 && c_auto c); [|cbn [fst]; lia].
    pose proof (supply_build_trunk c s1). lia.
  - apply supply_build_trunk.
  - unfold add_rule. destruct (locked s); [cbn [fst]; lia|]. destruct (added s); [cbn [fst]; lia|]. cbn [fst].
    match goal with |- _ <= supply c ?x => change (supply c x) with (supply c s) end. lia.
  - apply supply_hand_branch.
Qed.

Lemma supply_mono_fold c ops : forall s, supply c s <= supply c (fold_left (fun s o => fst (exec c s o)) ops s).
Proof.
  induction ops as [|o r IH]; intros s; cbn [fold_left]; [lia|].
  pose proof (supply_mono_exec c s o). pose proof (IH (fst (exec c s o))). lia.
Qed.

Lemma big_limit_gen c L : forall ops s, Inv (with_limit c (Some L)) s ->
  (Z.of_nat (supply c (fold_left (fun s o => fst (exec (with_limit c None) s o)) ops s)) < L)%Z ->
  trace (with_limit c (Some L)) s ops = trace (with_limit c None) s ops.
Proof.
  induction ops as [|o r IH]; intros s I B; cbn [trace]; [reflexivity|].
  assert (E : exec (with_limit c (Some L)) s o = exec (with_limit c None) s o).
  { apply exec_ext; [apply same_with_limit| |exact I].
    intros s' I' S'. rewrite exceeded_none. apply exceeded_big.
    pose proof (i_hist _ _ I') as Hh. rewrite S' in Hh. rewrite supply_with_limit in Hh.
    pose proof (supply_mono_fold (with_limit c None) (o :: r) s) as Mo. rewrite !supply_with_limit in Mo. lia. }
  cbn [fold_left] in B. rewrite <- E in B. rewrite <- E.
  pose proof (Inv_exec _ s o I) as J.
  destruct (exec (with_limit c (Some L)) s o) as [s' x]. cbn [fst] in J, B.
  rewrite (IH s' J B). reflexivity.
Qed.

(* a limit above the natural length of the proof that the (unlimited) run builds — c_n once its
   trunk is built plus c_h per usable hand-made branch — changes nothing, for every operation
   sequence *)
Theorem big_limit_noop_run c L ops : (Z.of_nat (supply c (run (with_limit c None) ops)) < L)%Z ->
  trace (with_limit c (Some L)) init ops = trace (with_limit c None) init ops.
Proof. intro H. apply big_limit_gen; [apply Inv_init|]. exact H. Qed.

Definition is_hand (o : op) : nat := match o with HandBranch => 1 | _ => 0 end.
Fixpoint count_hand (ops : list op) : nat :=
  match ops with [] => 0 | o :: r => is_hand o + count_hand r end.

Lemma nhand_exec c s o : nhand (fst (exec c s o)) = nhand s + is_hand o.
Proof.
  destruct o as [b b2|b2|k b2| | | | |]; cbn [exec is_hand].
  - pose proof (step_keeps c b b2 s) as K. cbv zeta in K. destruct K as (_ & _ & _ & _ & _ & _ & _ & K8). lia.
  - pose proof (finish_keeps c b2 s) as K. cbv zeta in K. destruct (finish c b2 s) as [s2 t]. cbn [fst] in *.
    destruct K as (_ & _ & _ & _ & _ & _ & _ & K8 & _). lia.
  - pose proof (build_loop_keeps c (S (supply c s - hist s)) 0 k b2 s) as K. cbv zeta in K. unfold build.
    destruct K as (_ & _ & _ & _ & _ & _ & _ & K8). lia.
  - unfold set_argument, build_trunk. cbv zeta. ifs; simpl; lia.
  - unfold set_logic, build_trunk. cbv zeta. ifs; simpl; lia.
  - unfold build_trunk. ifs; simpl; lia.
  - unfold add_rule. ifs; simpl; lia.
  - simpl. lia.
Qed.

Lemma nhand_fold c ops : forall s, nhand (fold_left (fun s o => fst (exec c s o)) ops s) = nhand s + count_hand ops.
Proof.
  induction ops as [|o r IH]; intros s; cbn [fold_left count_hand]; [lia|].
  rewrite IH, nhand_exec. lia.
Qed.

(* ... in particular a limit above c_n + c_h * (number of HandBranch operations) *)
Theorem big_limit_noop c L ops : (Z.of_nat (c_n c + c_h c * count_hand ops) < L)%Z ->
  trace (with_limit c (Some L)) init ops = trace (with_limit c None) init ops.
Proof.
  intro H. apply big_limit_noop_run.
  pose proof (supply_le c (run (with_limit c None) ops)) as S1.
  assert (N : nhand (run (with_limit c None) ops) = count_hand ops).
  { unfold run. rewrite nhand_fold. reflexivity. }
  rewrite N in S1. lia.
Qed.

Lemma count_hand_0 ops : ~ In HandBranch ops -> count_hand ops = 0.
Proof.
  induction ops as [|o r IH]; intro N; cbn [count_hand]; [reflexivity|].
  rewrite IH by (intro H; apply N; right; exact H).
  destruct o; cbn [is_hand]; try reflexivity. exfalso. apply N. left. reflexivity.
Qed.

(* ... and without hand-made branches a limit above the trunk's natural length *)
Theorem big_limit_noop_no_hand c L ops : ~ In HandBranch ops -> (Z.of_nat (c_n c) < L)%Z ->
  trace (with_limit c (Some L)) init ops = trace (with_limit c None) init ops.
Proof. intros N H. apply big_limit_noop. rewrite (count_hand_0 ops N). lia. Qed.

(* None, 0 and negative limits are all "unlimited" *)
Theorem nonpositive_limit_unlimited c z ops : (z <= 0)%Z ->
  trace (with_limit c (Some z)) init ops = trace (with_limit c None) init ops.
Proof.
  intro H. apply trace_ext; [apply same_with_limit| |apply Inv_init].
  intros s _. rewrite exceeded_none. apply exceeded_nonpositive, H.
Qed.

(* likewise a non-positive build_timeout is no time limit: the clock bits are ignored *)
Lemma no_time_limit_ignores_clock c b b' b2 b2' s : has_time_limit c = false ->
  step c b b2 s = step c b' b2' s.
Proof.
  intro T. unfold step, finish. rewrite T. rewrite !andb_false_r. simpl.
  destruct (finished s); [reflexivity|]. reflexivity.
Qed.

(* ---- build_is_step_loop ------------------------------------------------------------------ *)
Fixpoint step_seq (c : cfg) (k : option nat) (b2 : bool) (i m : nat) (s : st) : st * list res :=
  match m with
  | 0 => (s, [])
  | S m' => let p := step c (clock k i) b2 s in
            let q := step_seq c k b2 (S i) m' (fst p) in (fst q, snd p :: snd q)
  end.

Definition build_res (r : res) : res := match r with RNone => ROk | _ => r end.

Lemma step_entry c b b2 s s' : step c b b2 s = (s', REntry) ->
  hist s' = S (hist s) /\ hist s < supply c s /\ supply c s' = supply c s.
Proof.
  intro Q. pose proof (step_supply c b b2 s) as SS. rewrite Q in SS. cbn [fst] in SS.
  revert Q. unfold step. destruct (finished s); [intro H; inversion H|].
  destruct (has_time_limit c && b); [intro H; inversion H|].
  destruct (negb (exceeded c s)).
  - destruct (available c s) eqn:A.
    + intro H. inversion H. subst. cbn [hist apply_rule]. split; [reflexivity|]. split; [|exact SS].
      unfold available in A. apply Nat.ltb_lt in A. exact A.
    + destruct (finish c b2 (clear_premature s)) as [s2 t]. destruct t; intro H; inversion H.
  - destruct (finish c b2 s) as [s2 t]. destruct t; intro H; inversion H.
Qed.

Lemma step_not_fuel c b b2 s : snd (step c b b2 s) <> RFuel /\ snd (step c b b2 s) <> ROk.
Proof.
  unfold step. destruct (finished s); [simpl; split; discriminate|].
  destruct (has_time_limit c && b); [simpl; split; discriminate|].
  destruct (negb (exceeded c s)).
  - destruct (available c s); [simpl; split; discriminate|].
    destruct (finish c b2 (clear_premature s)) as [s2 t]. destruct t; simpl; split; discriminate.
  - destruct (finish c b2 s) as [s2 t]. destruct t; simpl; split; discriminate.
Qed.

Lemma build_loop_is_steps c k b2 : forall fuel i s, supply c s - hist s < fuel ->
  exists m, m <= supply c s - hist s /\
    Forall (fun r => r = REntry) (snd (step_seq c k b2 i m s)) /\
    let p := step c (clock k (i + m)) b2 (fst (step_seq c k b2 i m s)) in
    snd p <> REntry /\ build_loop c fuel i k b2 s = (fst p, build_res (snd p)).
Proof.
  induction fuel as [|f IH]; intros i s L; [lia|].
  simpl. destruct (step c (clock k i) b2 s) as [s' r] eqn:Q.
  destruct r.
  - exists 0. simpl. rewrite Nat.add_0_r, Q. simpl. repeat split; [lia|constructor|discriminate].
  - destruct (step_entry _ _ _ _ _ Q) as (H1 & H2 & H3).
    destruct (IH (S i) s') as (m & Lm & Fm & P); [lia|].
    exists (S m). split; [lia|]. simpl. rewrite Q. simpl. split; [constructor; [reflexivity|exact Fm]|].
    cbv zeta in P. rewrite <- Nat.add_succ_comm. exact P.
  - exists 0. simpl. rewrite Nat.add_0_r, Q. simpl. repeat split; [lia|constructor|discriminate].
  - exists 0. simpl. rewrite Nat.add_0_r, Q. simpl. repeat split; [lia|constructor|discriminate].
  - exists 0. simpl. rewrite Nat.add_0_r, Q. simpl. repeat split; [lia|constructor|discriminate].
Qed.

(* build() is exactly: call step() until it returns no entry; same final state, same exception *)
Theorem build_is_step_loop c k b2 s :
  exists m, m <= supply c s - hist s /\
    Forall (fun r => r = REntry) (snd (step_seq c k b2 0 m s)) /\
    let p := step c (clock k m) b2 (fst (step_seq c k b2 0 m s)) in
    snd p <> REntry /\ build c k b2 s = (fst p, build_res (snd p)).
Proof. unfold build. apply (build_loop_is_steps c k b2 (S (supply c s - hist s)) 0 s). lia. Qed.

Theorem build_total c k b2 s : snd (build c k b2 s) <> RFuel.
Proof.
  destruct (build_is_step_loop c k b2 s) as (m & _ & _ & P). cbv zeta in P. destruct P as [_ P].
  rewrite P. simpl. pose proof (step_not_fuel c (clock k m) b2 (fst (step_seq c k b2 0 m s))) as [N _].
  destruct (snd (step c (clock k m) b2 (fst (step_seq c k b2 0 m s)))); simpl; congruence.
Qed.

(* ---- non-vacuity and observations ------------------------------------------------------- *)
Definition ex_cfg (m : option Z) (t : option Z) : cfg := mkCfg 4 true 1 20 true false m t false false.

Example ex_limit_cut : observe (ex_cfg (Some 2%Z) None) ROk (run (ex_cfg (Some 2%Z) None) [SetLogic; SetArgument; Build None false]) =
  (ROk, (true, true, false, true, true), (None, None), (true, 2, 20), false).
Proof. vm_compute. reflexivity. Qed.

Example ex_complete : observe (ex_cfg (Some 5%Z) None) ROk (run (ex_cfg (Some 5%Z) None) [SetLogic; SetArgument; Build None false]) =
  (ROk, (false, true, false, true, true), (Some true, Some false), (true, 4, 20), true).
Proof. vm_compute. reflexivity. Qed.

Example ex_limit_equal_n_is_premature :
  is_premature (run (ex_cfg (Some 4%Z) None) [SetLogic; SetArgument; Build None false]) = true.
Proof. vm_compute. reflexivity. Qed.

Example ex_timeout : trace (ex_cfg None (Some 1000%Z)) init [SetLogic; SetArgument; Step false false; Step true false; Step false false] =
  let s1 := mkSt true false false false false true false false false 0 0 20 in
  let s2 := mkSt true false false true true true true true false 0 0 20 in
  let s3 := mkSt true false false true true true true true false 0 1 20 in
  let s4 := mkSt true true true true true true true true false 0 1 20 in
  [(ROk, s1); (ROk, s2); (REntry, s3); (RErr Timeout, s4); (RNone, s4)].
Proof. vm_compute. reflexivity. Qed.

(* a timeout raised while the models of a completed invalid tableau are generated: the tableau is
   finished, flagged TIMED_OUT, but completed, so it keeps its verdict *)
Example ex_timeout_in_models :
  let c := mkCfg 1 false 1 20 true true None (Some 1000%Z) false false in
  let p := trace c init [SetLogic; SetArgument; Build None true] in
  map fst p = [ROk; ROk; RErr Timeout] /\
  (let s := run c [SetLogic; SetArgument; Build None true] in
   finished s = true /\ timed_out s = true /\ premature s = false /\ invalid c s = Some true).
Proof. vm_compute. repeat (split; [reflexivity|]). reflexivity. Qed.

(* a tableau started by hand: STARTED without TRUNK_BUILT, and it refuses an argument *)
Example ex_hand_started :
  let c := ex_cfg None None in let s := run c [SetLogic; HandBranch; Step false false] in
  started s = true /\ trunk s = false /\ has_arg s = false /\ hist s = 1 /\ finished s = false /\
  exec c s SetArgument = (s, RErr IllegalState).
Proof. vm_compute. repeat (split; [reflexivity|]). reflexivity. Qed.

(* a hand-made branch before the logic: the rule set is locked, the logic can never be set *)
Example ex_hand_before_logic :
  let c := ex_cfg None None in
  map fst (trace c init [HandBranch; SetLogic; SetArgument; Step false false; SetLogic]) =
    [ROk; RErr IllegalState; ROk; RNone; RErr IllegalState] /\
  has_logic (run c [HandBranch; SetLogic; SetArgument; Step false false; SetLogic]) = false.
Proof. vm_compute. repeat (split; [reflexivity|]). reflexivity. Qed.

(* trunk after a hand-made branch (allowed: not started), two branches' worth of steps, limit 3 of 5 *)
Example ex_hand_then_trunk :
  let c := ex_cfg (Some 3%Z) None in let s := run c [SetLogic; HandBranch; SetArgument; Build None false] in
  trunk s = true /\ hist s = 3 /\ supply c s = 5 /\ is_premature s = true /\ valid c s = None.
Proof. vm_compute. repeat (split; [reflexivity|]). reflexivity. Qed.

Example ex_hand_keeps_open :
  let c := ex_cfg None None in let s := run c [SetLogic; HandBranch; SetArgument; Build None false] in
  hist s = 5 /\ completed s = true /\ valid c s = Some false /\ invalid c s = Some true.
Proof. vm_compute. repeat (split; [reflexivity|]). reflexivity. Qed.

(* Observations about states the property text does not speak about (API misuse).  A natural
   strengthening "a verdict needs a built trunk" is false of the code: *)
Lemma verdict_needs_trunk_refuted :
  exists c ops, let s := run c ops in trunk s = false /\ has_logic s = false /\ valid c s = Some true.
Proof. exists (ex_cfg None None), [SetArgument; Build None false]. vm_compute. auto. Qed.

(* ... also for a tableau started by hand whose trunk can no longer be built *)
Lemma hand_started_verdict_without_trunk :
  exists c ops, let s := run c ops in
    started s = true /\ trunk s = false /\ snd (exec c s BuildTrunk) = RErr IllegalState /\ invalid c s = Some true.
Proof.
  exists (mkCfg 4 true 1 20 false false None None false false),
         [SetLogic; SetArgument; HandBranch; Step false false; Build None false].
  vm_compute. repeat (split; [reflexivity|]). reflexivity.
Qed.

(* ... and "a finished tableau is locked" is false too: a tableau finished before it started
   accepts an argument afterwards, builds a trunk and reports `invalid` with an empty history *)
Lemma finished_locked_refuted :
  exists c ops, let s := run c ops in let '(s', r) := exec c s SetArgument in
    finished s = true /\ r = ROk /\ trunk s' = true /\ hist s' = 0 /\ invalid c s' = Some true.
Proof. exists (ex_cfg None None), [SetLogic; Build None false]. vm_compute. auto. Qed.

(* ... and Tableau.branch() is not guarded at all: on a finished, valid tableau it flips the verdict *)
Lemma hand_branch_flips_verdict :
  exists c ops, valid c (run c ops) = Some true /\ finished (run c ops) = true /\
    valid c (run c (ops ++ [HandBranch])) = Some false /\ invalid c (run c (ops ++ [HandBranch])) = Some true.
Proof. exists (ex_cfg None None), [SetLogic; SetArgument; Build None false]. vm_compute. auto. Qed.

(* ... while for a tree whose probed behaviour flags are set both strengthenings hold *)
Lemma verdict_needs_trunk c s : c_trunk_verdict c = true -> trunk s = false ->
  valid c s = None /\ invalid c s = None.
Proof. intros V T. unfold valid, invalid, verdict_ok. rewrite V, T. simpl. rewrite andb_false_r. auto. Qed.

Lemma finished_locks_setters c s : c_fin_lock c = true -> finished s = true ->
  exec c s SetArgument = (s, RErr IllegalState) /\
  exec c s SetLogic = (s, RErr IllegalState) /\
  exec c s BuildTrunk = (s, RErr IllegalState).
Proof.
  intros L F. assert (R : refuses c s = true) by (unfold refuses; rewrite L, F; apply orb_true_r).
  cbn [exec]. unfold set_argument, set_logic, build_trunk. rewrite R. repeat split. ifs; reflexivity.
Qed.

(* non-vacuity of the hypotheses of the limit / lock theorems *)
Example ex_exceeded_unfinished :
  let c := ex_cfg (Some 2%Z) None in let s := run c [SetLogic; SetArgument; Step false false; Step false false] in
  finished s = false /\ exceeded c s = true /\ hist s = 2.
Proof. vm_compute. repeat (split; [reflexivity|]). reflexivity. Qed.

Example ex_exceeded_unfinished_hand :
  let c := ex_cfg (Some 1%Z) None in let s := run c [SetLogic; HandBranch; HandBranch; Step false false] in
  finished s = false /\ exceeded c s = true /\ hist s = 1 /\ trunk s = false.
Proof. vm_compute. repeat (split; [reflexivity|]). reflexivity. Qed.

Example ex_time_limit_unfinished :
  let c := ex_cfg None (Some 5%Z) in let s := run c [SetLogic; SetArgument; Step false false] in
  finished s = false /\ has_time_limit c = true.
Proof. vm_compute. repeat (split; [reflexivity|]). reflexivity. Qed.

Example ex_started : started (run (ex_cfg None None) [SetArgument; AddRule; SetLogic]) = true.
Proof. vm_compute. reflexivity. Qed.

Example ex_big_limit : (Z.of_nat (c_n (ex_cfg None None)) < 5)%Z.
Proof. vm_compute. reflexivity. Qed.

(* the bound of big_limit_noop_run is sharp: with the limit equal to the run's natural length the
   tableau ends premature instead of completed *)
Example ex_big_limit_sharp :
  let c := ex_cfg None None in let ops := [SetLogic; HandBranch; SetArgument; HandBranch; Build None false] in
  supply c (run (with_limit c None) ops) = 6 /\
  is_premature (run (with_limit c (Some 6%Z)) ops) = true /\ completed (run (with_limit c None) ops) = true /\
  trace (with_limit c (Some 7%Z)) init ops = trace (with_limit c None) init ops.
Proof. vm_compute. repeat (split; [reflexivity|]). reflexivity. Qed.
