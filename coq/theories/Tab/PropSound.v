(* Soundness of certified tableaux for truth-functional steps: if the checker
   accepts a certificate all of whose leaves are closed, no world-indexed
   compositional evaluation satisfies the root branch. *)
From Coq Require Import List Bool Arith Lia.
From PT Require Import Util.Finite Sem.Values Sem.Syntax Sem.Schema Sem.Closure Tab.Node Tab.PropTab.
Import ListNotations.

Definition wev := nat -> sent -> val.

Definition nsat_node (t : tables) (ev : wev) (n : node) : Prop :=
  match n with
  | NS s d w => t_des t (ev w s) = d
  | NA _ _ => True
  end.
Definition bsat (t : tables) (ev : wev) (b : list node) : Prop := forall n, In n b -> nsat_node t ev n.
Definition wcomp (t : tables) (ev : wev) : Prop := forall w, compositional t (ev w).

Definition des_ok (hd : bool) (b : list node) : Prop := forall n, In n b -> node_des_ok hd n = true.

Lemma bsat_app t ev b g : bsat t ev (b ++ g) <-> bsat t ev b /\ bsat t ev g.
Proof.
  unfold bsat. split.
  - intro H. split; intros n Hn; apply H; apply in_or_app; auto.
  - intros [H1 H2] n Hn. apply in_app_or in Hn. destruct Hn; auto.
Qed.

Lemma des_ok_app hd b g : des_ok hd b -> forallb (node_des_ok hd) g = true -> des_ok hd (b ++ g).
Proof.
  intros H1 H2 n Hn. apply in_app_or in Hn. destruct Hn as [Hn|Hn]; [auto|].
  rewrite forallb_forall in H2. auto.
Qed.

(* ---- rule matching ---- *)
Lemma match_rule_spec r s d p : match_rule r s d = Some p ->
  s = inst (ops_of p) (ns_s (r_principal r)) /\ d = ns_d (r_principal r).
Proof.
  unfold match_rule. destruct (Bool.eqb (ns_d (r_principal r)) d) eqn:Ed; [|discriminate].
  apply Bool.eqb_prop in Ed. intro H. apply List.find_some in H. destruct H as [_ H].
  apply sent_eqb_eq in H. auto.
Qed.

Lemma find_rule_spec rules s d r p : find_rule rules s d = Some (r, p) ->
  In r rules /\ match_rule r s d = Some p.
Proof.
  induction rules as [|r0 rs IH]; simpl; [discriminate|].
  destruct (match_rule r0 s d) eqn:E.
  - intro H. injection H as <- <-. auto.
  - intro H. destruct (IH H). auto.
Qed.

(* ---- one truth-functional step preserves satisfaction ---- *)
Lemma inst_ext_sat_groups t ev r p w :
  inst_ext_sat t (ev w) (ops_of p) r = true ->
  exists g, In g (inst_groups r p w) /\ bsat t ev g.
Proof.
  unfold inst_ext_sat, inst_groups. rewrite existsb_exists. intros [g [Hg Hs]].
  exists (inst_group (ops_of p) w g). split; [apply in_map; exact Hg|].
  rewrite forallb_forall in Hs. intros n Hn. unfold inst_group in Hn.
  apply in_map_iff in Hn. destruct Hn as [m [<- Hm]]. simpl.
  specialize (Hs m Hm). unfold node_sat in Hs. apply Bool.eqb_prop in Hs. exact Hs.
Qed.

Lemma groups_inst_ext_sat t ev r p w g :
  In g (inst_groups r p w) -> bsat t ev g -> inst_ext_sat t (ev w) (ops_of p) r = true.
Proof.
  unfold inst_groups, inst_ext_sat. intros Hg Hs. apply in_map_iff in Hg.
  destruct Hg as [g0 [<- Hg0]]. apply existsb_exists. exists g0. split; [exact Hg0|].
  apply forallb_forall. intros m Hm. unfold node_sat.
  assert (Hn : In (NS (inst (ops_of p) (ns_s m)) (ns_d m) w) (inst_group (ops_of p) w g0)).
  { unfold inst_group. apply in_map_iff. exists m. auto. }
  specialize (Hs _ Hn). simpl in Hs. rewrite Hs. apply Bool.eqb_reflx.
Qed.

(* ---- closure soundness on concrete branches ---- *)
Definition base (s : sent) : sent := match s with Un Negation a => a | _ => s end.
Definition is_neg (s : sent) : bool := match s with Un Negation _ => true | _ => false end.

(* The constraint a satisfied node puts on the value x of its base sentence. *)
Lemma node_val t ev s d w : wcomp t ev -> nsat_node t ev (NS s d w) ->
  t_des t (if is_neg s then t_un t Negation (ev w (base s)) else ev w (base s)) = d.
Proof.
  intros C H. simpl in H. destruct s as [| |o a| | |]; simpl; try exact H.
  destruct o; simpl; try exact H. rewrite <- (cmp_un _ _ (C w)). exact H.
Qed.

Lemma node_val_negative t ev s d w : wcomp t ev -> nsat_node t ev (NS (negative s) d w) ->
  t_des t (if is_neg s then ev w (base s) else t_un t Negation (ev w (base s))) = d.
Proof.
  intros C H. simpl in H. destruct s as [| |o a| | |]; simpl in *;
    try (rewrite <- (cmp_un _ _ (C w)); exact H).
  destruct o; simpl in *; [rewrite <- (cmp_un _ _ (C w) Negation); exact H | exact H].
Qed.

Definition ks_ok (hd : bool) (ks : list ckind) : bool :=
  forallb (fun k => match k with KContradiction => negb hd | _ => true end) ks.

Lemma lits_pn_in hd : In {| lpp := true; lpm := false; lnp := true; lnm := false |} (all_lits hd).
Proof. destruct hd; simpl; auto 20. Qed.

Lemma closed_unsat t hd ks ev b :
  wcomp t ev -> closure_sound t hd ks = None -> ks_ok hd ks = true -> des_ok hd b ->
  branch_closed ks b = true -> bsat t ev b -> False.
Proof.
  intros C Hcs Hks Hdo Hbc Hs.
  unfold branch_closed in Hbc. apply existsb_exists in Hbc. destruct Hbc as [n [Hn Hc]].
  destruct n as [s d w|]; [|discriminate]. simpl in Hc.
  apply existsb_exists in Hc. destruct Hc as [k [Hk Hc]].
  pose proof (Hs _ Hn) as H1.
  pose proof (node_val t ev s d w C H1) as V1.
  set (x := ev w (base s)) in *.
  assert (Hx : In x (t_vals t)) by apply (cmp_vals _ _ (C w)).
  destruct k.
  - (* designation *)
    apply has_In in Hc. pose proof (Hs _ Hc) as H2. simpl in H1, H2. rewrite H1 in H2.
    destruct d; discriminate.
  - (* glut *)
    apply andb_true_iff in Hc. destruct Hc as [Hd Hc]. destruct d; [|discriminate].
    apply has_In in Hc. pose proof (node_val_negative t ev s true w C (Hs _ Hc)) as V2.
    fold x in V2.
    pose proof (closure_sound_spec t hd ks Hcs _ x (lits_pn_in hd)) as G.
    assert (Hcl : closes ks {| lpp := true; lpm := false; lnp := true; lnm := false |} = true).
    { apply existsb_exists. exists KGlut. auto. }
    specialize (G Hcl Hx). unfold lit_sat in G. simpl in G.
    destruct (is_neg s); rewrite V1, V2 in G; discriminate.
  - (* gap *)
    apply andb_true_iff in Hc. destruct Hc as [Hd Hc]. destruct d; [discriminate|].
    pose proof (Hdo _ Hn) as Hdn. simpl in Hdn. rewrite orb_false_r in Hdn. subst hd.
    apply has_In in Hc. pose proof (node_val_negative t ev s false w C (Hs _ Hc)) as V2.
    fold x in V2.
    assert (Hin : In {| lpp := false; lpm := true; lnp := false; lnm := true |} (all_lits true))
      by apply all_lits_complete_des.
    pose proof (closure_sound_spec t true ks Hcs _ x Hin) as G.
    assert (Hcl : closes ks {| lpp := false; lpm := true; lnp := false; lnm := true |} = true).
    { apply existsb_exists. exists KGap. auto. }
    specialize (G Hcl Hx). unfold lit_sat in G. simpl in G.
    destruct (is_neg s); rewrite V1, V2 in G; discriminate.
  - (* contradiction: only in logics without markers, so d = true *)
    unfold ks_ok in Hks. rewrite forallb_forall in Hks. specialize (Hks _ Hk). simpl in Hks.
    destruct hd; [discriminate|].
    pose proof (Hdo _ Hn) as Hdn. simpl in Hdn. destruct d; [|discriminate].
    apply has_In in Hc. pose proof (node_val_negative t ev s true w C (Hs _ Hc)) as V2.
    fold x in V2.
    pose proof (closure_sound_spec t false ks Hcs _ x (lits_pn_in false)) as G.
    assert (Hcl : closes ks {| lpp := true; lpm := false; lnp := true; lnm := false |} = true).
    { apply existsb_exists. exists KContradiction. auto. }
    specialize (G Hcl Hx). unfold lit_sat in G. simpl in G.
    destruct (is_neg s); rewrite V1, V2 in G; discriminate.
Qed.

(* ---- induction principle for certificates ---- *)
Section TreeInd.
  Variable P : tree -> Prop.
  Hypothesis Hc : P TClosed.
  Hypothesis Ho : P TOpen.
  Hypothesis Hs : forall st gs ts, Forall P ts -> P (TStep st gs ts).
  Fixpoint tree_ind' (t : tree) : P t :=
    match t with
    | TClosed => Hc
    | TOpen => Ho
    | TStep st gs ts =>
        Hs st gs ts ((fix go (l : list tree) : Forall P l :=
                        match l with
                        | [] => Forall_nil P
                        | x :: r => Forall_cons x (tree_ind' x) (go r)
                        end) ts)
    end.
End TreeInd.

Record sound_ok (L : plogic) : Prop := {
  so_two : forallb rule_two_opd (pl_rules L) = true;
  so_rules : forallb (fun r => is_none (tf_sound (pl_t L) r)) (pl_rules L) = true;
  so_clos : closure_sound (pl_t L) (pl_hd L) (pl_ks L) = None;
  so_ks : ks_ok (pl_hd L) (pl_ks L) = true }.

Lemma Forall2_in_r {A B} (R : A -> B -> Prop) la lb b :
  Forall2 R la lb -> In b lb -> exists a, In a la /\ R a b.
Proof.
  induction 1 as [|x y la lb Hxy H IH]; intro Hb; [contradiction|].
  destruct Hb as [<-|Hb]; [exists x; simpl; auto|].
  destruct (IH Hb) as [a [Ha Hr]]. exists a. simpl. auto.
Qed.

(* MAIN SOUNDNESS THEOREM for certified truth-functional tableaux. *)
Theorem check_sound L : sound_ok L -> forall t b tk,
  check L t b tk = true -> all_closed t = true -> des_ok (pl_hd L) b ->
  forall ev, wcomp (pl_t L) ev -> ~ bsat (pl_t L) ev b.
Proof.
  intros OK t. induction t as [| |st gs ts IH] using tree_ind'; intros b tk Hck Hac Hdo ev C Hs.
  - simpl in Hck. eapply closed_unsat; eauto using so_clos, so_ks.
  - discriminate.
  - simpl in Hck, Hac. destruct st as [i|w1 w2].
    + apply andb_true_iff in Hck. destruct Hck as [_ Hck].
      destruct (nth_error b i) as [[s d w|]|] eqn:En; try discriminate.
      destruct (find_rule (pl_rules L) s d) as [[r p]|] eqn:Ef; [|discriminate].
      rewrite !andb_true_iff in Hck. destruct Hck as [[Hg Hdes] Hall].
      apply groups_eqb_eq in Hg. subst gs.
      apply find_rule_spec in Ef. destruct Ef as [Hr Hm].
      apply match_rule_spec in Hm. destruct Hm as [Es Ed].
      assert (Hn : In (NS s d w) b) by (eapply nth_error_In; eauto).
      pose proof (Hs _ Hn) as Hsat. simpl in Hsat.
      pose proof (so_two _ OK) as H2. rewrite forallb_forall in H2. specialize (H2 r Hr).
      pose proof (so_rules _ OK) as H3. rewrite forallb_forall in H3. specialize (H3 r Hr).
      apply is_none_true in H3.
      assert (Hns : node_sat (pl_t L) (ev w) (inst (ops_of p) (ns_s (r_principal r)))
                      (ns_d (r_principal r)) = true).
      { unfold node_sat. rewrite <- Es, <- Ed, Hsat. apply Bool.eqb_reflx. }
      pose proof (tf_sound_lift _ _ H2 H3 (ev w) (ops_of p) (C w) Hns) as Hext.
      apply inst_ext_sat_groups in Hext. destruct Hext as [g [Hg Hgs]].
      apply all2_Forall2 in Hall.
      destruct (Forall2_in_r _ _ _ _ Hall Hg) as [t' [Ht' Hck']].
      rewrite Forall_forall in IH. rewrite forallb_forall in Hac.
      apply (IH t' Ht' (b ++ g) (i :: tk) Hck' (Hac t' Ht')) with (ev := ev); auto.
      * apply des_ok_app; [exact Hdo|]. rewrite forallb_forall in Hdes. apply Hdes. exact Hg.
      * apply bsat_app. auto.
    + apply andb_true_iff in Hck. destruct Hck as [Hg Hck].
      destruct ts as [|t' [|]]; try discriminate.
      inversion IH as [|? ? IH1 _]; subst. simpl in Hac. rewrite andb_true_r in Hac.
      apply (IH1 (b ++ [NA w1 w2]) tk Hck Hac) with (ev := ev); auto.
      * apply des_ok_app; [exact Hdo|reflexivity].
      * apply bsat_app. split; [exact Hs|]. intros n [<-|[]]. exact I.
Qed.
