(* State machine of the OBSERVABLE bookkeeping of pytableaux.proof.tableaux.Tableau
   (proof/tableaux.py Tableau.__listen_on, step, branch/add, build_trunk, finish;
   proof/helpers.py AdzHelper._apply; proof/rules.py ClosingRule._apply;
   proof/common.py Branch.append/tick/close/copy).

   Node identity = creation order (a natural number); the model allocates the
   identities itself in the order in which the code appends the nodes, so that
   an effect only carries group SIZES.  An effect is what one public operation
   does to the bookkeeping:

     Trunk n              build_trunk(): Tableau.branch() then n appends
     Apply oi sizes tick  Rule.apply of a non-closing rule (AdzHelper._apply) on
                          the oi-th branch of the `open` view, target['adds'] has
                          group sizes `sizes`, `tick` = Some target.node for a
                          ticking rule
     Close oi             ClosingRule._apply: branch.close() appends one
                          ClosureNode
     Finish               Tableau.finish()

   Order of effects of Apply, exactly as AdzHelper._apply does it:
   for every group but the first, in order: fork a copy of the target branch AS IT
   IS BEFORE THE STEP (Tableau.branch(parent) -> Branch.copy: nodes and the
   `_ticked` set are copied, the tableau's per-node stat records are not),
   add the branch at the end of the branch list and of the open view, append the
   group's nodes (each stamped STEP_ADDED = current step), tick the target node
   on the copy; only then is the first group appended to the target branch and
   the node ticked there.  The history entry is appended AFTER the rule body
   (AFTER_RULE_APPLY), so all stamps of the k-th application are
   current_step = len(history) + TRUNK_BUILT = k, and trunk stamps are 0.

   Per-node stat record on a branch: None = no record (KeyError in
   tab.stat(branch, node)), Some (added, ticked).  after_tick on a node that has
   no record (an inherited node of a forked branch) creates the default record
   with STEP_ADDED = 0 -- modelled as coded. *)
From Coq Require Import List Bool Arith Lia.
Import ListNotations.
From PT Require Import Tab.Tree.

Record nent := { e_id : nat; e_tk : bool; e_stat : option (nat * option nat) }.

Record branch := {
  b_ents : list nent;
  b_closed : bool;           (* CLOSED in stat(branch, FLAGS) *)
  b_parent : option nat;     (* index of stat(branch, PARENT) *)
  b_added : nat;             (* stat(branch, STEP_ADDED) *)
  b_cstep : nat;             (* stat(branch, STEP_CLOSED), default 0 *)
  b_inh : nat }.             (* ghost: number of nodes inherited at fork time *)

Inductive hkind := HApply | HClose.
Record hent := { h_kind : hkind; h_branch : nat; h_node : option nat }.

Record tab := {
  k_brs : list branch;
  k_open : list nat;
  k_hist : list hent;
  k_trunk : bool;
  k_next : nat;
  k_fin : bool }.

Inductive effect :=
| Trunk (n : nat)
| Apply (oi : nat) (sizes : list nat) (tick : option nat)
| Close (oi : nat)
| Finish.

Definition init : tab := {| k_brs := []; k_open := []; k_hist := []; k_trunk := false; k_next := 0; k_fin := false |}.

Definition cur (st : tab) : nat := length (k_hist st) + (if k_trunk st then 1 else 0).

Definition fresh (nx n c : nat) : list nent :=
  map (fun i => {| e_id := i; e_tk := false; e_stat := Some (c, None) |}) (seq nx n).

Definition tick_ent (c n : nat) (e : nent) : nent :=
  if e_id e =? n then
    if e_tk e then e
    else {| e_id := e_id e; e_tk := true;
            e_stat := match e_stat e with
                      | None => Some (0, Some c)
                      | Some (a, _) => Some (a, Some c)
                      end |}
  else e.

Definition tick_opt (c : nat) (tick : option nat) (es : list nent) : list nent :=
  match tick with None => es | Some n => map (tick_ent c n) es end.

Definition nostat (e : nent) : nent := {| e_id := e_id e; e_tk := e_tk e; e_stat := None |}.

Definition mkfork (b : branch) (bi c nx s : nat) (tick : option nat) : branch :=
  {| b_ents := tick_opt c tick (map nostat (b_ents b) ++ fresh nx s c);
     b_closed := false; b_parent := Some bi; b_added := c; b_cstep := 0;
     b_inh := length (b_ents b) |}.

Fixpoint forks (b : branch) (bi c nx : nat) (tick : option nat) (sizes : list nat) : list branch :=
  match sizes with
  | [] => []
  | s :: r => mkfork b bi c nx s tick :: forks b bi c (nx + s) tick r
  end.

Fixpoint set_nth {A} (i : nat) (x : A) (l : list A) : list A :=
  match l, i with
  | [], _ => []
  | _ :: r, 0 => x :: r
  | y :: r, S j => y :: set_nth j x r
  end.

Definition extend (b : branch) (c nx s : nat) (tick : option nat) : branch :=
  {| b_ents := tick_opt c tick (b_ents b ++ fresh nx s c);
     b_closed := b_closed b; b_parent := b_parent b; b_added := b_added b;
     b_cstep := b_cstep b; b_inh := b_inh b |}.

Definition close_br (b : branch) (c nx : nat) : branch :=
  {| b_ents := b_ents b ++ fresh nx 1 c;
     b_closed := true; b_parent := b_parent b; b_added := b_added b;
     b_cstep := c; b_inh := b_inh b |}.

Definition trunk_result (st : tab) (n : nat) : tab :=
  {| k_brs := [ {| b_ents := fresh (k_next st) n 0; b_closed := false; b_parent := None;
                   b_added := 0; b_cstep := 0; b_inh := 0 |} ];
     k_open := [0]; k_hist := []; k_trunk := true;
     k_next := k_next st + n; k_fin := false |}.

Definition apply_result (st : tab) (bi : nat) (b : branch) (s0 : nat) (rest : list nat) (tick : option nat) : tab :=
  let c := cur st in
  let nx := k_next st + list_sum rest in
  {| k_brs := set_nth bi (extend b c nx s0 tick) (k_brs st) ++ forks b bi c (k_next st) tick rest;
     k_open := k_open st ++ seq (length (k_brs st)) (length rest);
     k_hist := k_hist st ++ [ {| h_kind := HApply; h_branch := bi; h_node := tick |} ];
     k_trunk := k_trunk st; k_next := nx + s0; k_fin := false |}.

Definition close_result (st : tab) (bi : nat) (b : branch) : tab :=
  {| k_brs := set_nth bi (close_br b (cur st) (k_next st)) (k_brs st);
     k_open := filter (fun i => negb (i =? bi)) (k_open st);
     k_hist := k_hist st ++ [ {| h_kind := HClose; h_branch := bi; h_node := None |} ];
     k_trunk := k_trunk st; k_next := S (k_next st); k_fin := false |}.

Definition finish_result (st : tab) : tab :=
  {| k_brs := k_brs st; k_open := k_open st; k_hist := k_hist st;
     k_trunk := k_trunk st; k_next := k_next st; k_fin := true |}.

Definition step (st : tab) (e : effect) : option tab :=
  if k_fin st then match e with Finish => Some st | _ => None end else
  match e with
  | Trunk n =>
    if k_trunk st || negb (isnil (k_brs st)) || negb (isnil (k_hist st)) then None
    else Some (trunk_result st n)
  | Apply oi sizes tick =>
    match nth_error (k_open st) oi, sizes with
    | Some bi, s0 :: rest =>
      match nth_error (k_brs st) bi with
      | Some b =>
        if negb (isnil rest) && existsb (Nat.eqb 0) sizes then None
        else Some (apply_result st bi b s0 rest tick)
      | None => None
      end
    | _, _ => None
    end
  | Close oi =>
    match nth_error (k_open st) oi with
    | Some bi =>
      match nth_error (k_brs st) bi with
      | Some b => Some (close_result st bi b)
      | None => None
      end
    | None => None
    end
  | Finish => Some (finish_result st)
  end.

Fixpoint run (st : tab) (es : list effect) : option tab :=
  match es with
  | [] => Some st
  | e :: r => match step st e with None => None | Some st' => run st' r end
  end.

(* ---- observable projections ------------------------------------------------ *)

Definition ids (b : branch) : list nat := map e_id (b_ents b).
Definition ticked (b : branch) : list nat := map e_id (filter e_tk (b_ents b)).
(* indices (from k) of the unclosed branches, in order *)
Fixpoint opens_of (k : nat) (brs : list branch) : list nat :=
  match brs with
  | [] => []
  | b :: r => (if b_closed b then [] else [k]) ++ opens_of (S k) r
  end.
Definition open_view (brs : list branch) : list nat := opens_of 0 brs.

Definition tree_input_from (k : nat) (brs : list branch) : list tbr :=
  map (fun p => {| tb_id := fst p; tb_nodes := ids (snd p); tb_closed := b_closed (snd p) |})
      (combine (seq k (length brs)) brs).
Definition tree_input (st : tab) : list tbr := tree_input_from 0 (k_brs st).

(* Tableau.finish(): tree (accum = code at HEAD) and the plain-count stats *)
Definition tab_tree (st : tab) : option tree := make true (tree_input st).

Record stats := { s_branches : nat; s_open : nat; s_closed : nat; s_steps : nat; s_distinct : option nat }.
Definition compute_stats (st : tab) : stats :=
  {| s_branches := length (k_brs st);
     s_open := length (k_open st);
     s_closed := length (k_brs st) - length (k_open st);
     s_steps := length (k_hist st);
     s_distinct := match tab_tree st with Some t => Some (t_dn t) | None => None end |}.

(* ---- projection printed for the correspondence (lists of naturals only) ------ *)
Definition b2n (b : bool) : nat := if b then 1 else 0.
Definition a_code (e : nent) : nat := match e_stat e with None => 0 | Some (a, _) => S a end.
Definition t_code (e : nent) : nat := match e_stat e with Some (_, Some t) => S t | _ => 0 end.
Definition view_branch (b : branch) : list (list nat) :=
  [ ids b; ticked b; [b2n (b_closed b); b_added b; b_cstep b; b_inh b];
    match b_parent b with None => [] | Some p => [p] end;
    map a_code (b_ents b); map t_code (b_ents b) ].
Definition view_tail (st : tab) : list (list nat) :=
  [ k_open st; [length (k_hist st); cur st; k_next st; b2n (k_fin st)] ].
Definition view (st : tab) : list (list (list nat)) := map view_branch (k_brs st) ++ [view_tail st].
Definition fp (st : tab) : list (list nat) :=
  map (fun b => [length (b_ents b); b2n (b_closed b); length (ticked b);
                 list_sum (map a_code (b_ents b)) + list_sum (map t_code (b_ents b))]) (k_brs st)
  ++ view_tail st.
Fixpoint trace (st : tab) (es : list effect) : list (list (list nat)) :=
  match es with
  | [] => []
  | e :: r => match step st e with None => [[]] | Some st' => fp st' :: trace st' r end
  end.
Fixpoint flat (t : tree) : list (list nat) :=
  match t with
  | Tree ns cs lf cl w dnc snc dn d ho hc bid =>
    ([d; b2n lf; b2n cl; w; dnc; snc; b2n ho; b2n hc; match bid with Some i => S i | None => 0 end] ++ ns)
      :: flat_map flat cs
  end.
Definition stats_list (s : stats) : list nat :=
  [s_branches s; s_open s; s_closed s; s_steps s] ++ match s_distinct s with Some d => [d] | None => [] end.
Definition report (es : list effect) :=
  (trace init es,
   match run init es with
   | Some st => (view st, match tab_tree st with Some t => flat t | None => [] end,
                 stats_list (compute_stats st))
   | None => ([], [], [])
   end).
