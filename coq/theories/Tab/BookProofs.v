(* Invariants of the bookkeeping state machine (Book.v), for EVERY effect sequence. *)
From Coq Require Import List Bool Arith Lia Sorted Permutation.
Import ListNotations.
From PT Require Import Tab.Tree Tab.TreeProofs Tab.Book.

(* ---- inversion of step ---------------------------------------------------------- *)

Lemma step_trunk_inv : forall st n st', step st (Trunk n) = Some st' ->
  k_fin st = false /\ k_trunk st = false /\ k_brs st = [] /\ k_hist st = [] /\ st' = trunk_result st n.
Proof.
  unfold step; intros st n st' H. destruct (k_fin st) eqn:E1; [discriminate|].
  destruct (k_trunk st) eqn:E2; [discriminate|]. destruct (k_brs st) eqn:E3; [|discriminate].
  destruct (k_hist st) eqn:E4; [|discriminate]. cbn in H. inversion H. auto.
Qed.

Lemma step_apply_inv : forall st oi sizes tick st', step st (Apply oi sizes tick) = Some st' ->
  exists bi b s0 rest, k_fin st = false /\ nth_error (k_open st) oi = Some bi /\ sizes = s0 :: rest /\
    nth_error (k_brs st) bi = Some b /\ (rest = [] \/ Forall (fun s => s <> 0) sizes) /\
    st' = apply_result st bi b s0 rest tick.
Proof.
  unfold step; intros st oi sizes tick st' H. destruct (k_fin st) eqn:E1; [discriminate|].
  destruct (nth_error (k_open st) oi) as [bi|] eqn:E2; [|discriminate].
  destruct sizes as [|s0 rest]; [discriminate|].
  destruct (nth_error (k_brs st) bi) as [b|] eqn:E3; [|discriminate].
  destruct (negb (isnil rest) && existsb (Nat.eqb 0) (s0 :: rest)) eqn:E; [discriminate|].
  inversion H; subst. exists bi, b, s0, rest. repeat split; auto.
  destruct rest as [|s1 r]; [left; reflexivity|right].
  cbn [isnil negb andb] in E. apply Forall_forall. intros x Hx ->.
  assert (existsb (Nat.eqb 0) (s0 :: s1 :: r) = true) by (apply existsb_exists; exists 0; split; auto).
  congruence.
Qed.

Lemma step_close_inv : forall st oi st', step st (Close oi) = Some st' ->
  exists bi b, k_fin st = false /\ nth_error (k_open st) oi = Some bi /\
    nth_error (k_brs st) bi = Some b /\ st' = close_result st bi b.
Proof.
  unfold step; intros st oi st' H. destruct (k_fin st) eqn:E1; [discriminate|].
  destruct (nth_error (k_open st) oi) as [bi|] eqn:E2; [|discriminate].
  destruct (nth_error (k_brs st) bi) as [b|] eqn:E3; [|discriminate].
  inversion H; subst. exists bi, b. auto.
Qed.

Lemma step_finish_inv : forall st st', step st Finish = Some st' -> st' = st \/ st' = finish_result st.
Proof. unfold step; intros st st' H. destruct (k_fin st); inversion H; auto. Qed.

(* ---- ids of the updated / new branches ------------------------------------------------ *)

Lemma ids_tick_opt : forall c t es, map e_id (tick_opt c t es) = map e_id es.
Proof.
  intros c [n|] es; [|reflexivity]. cbn. rewrite map_map. apply map_ext. intros e.
  unfold tick_ent. destruct (e_id e =? n); [destruct (e_tk e)|]; reflexivity.
Qed.

Lemma ids_fresh : forall nx n c, map e_id (fresh nx n c) = seq nx n.
Proof. intros. unfold fresh. rewrite map_map. cbn. apply map_id. Qed.

Lemma ids_extend : forall b c nx s t, ids (extend b c nx s t) = ids b ++ seq nx s.
Proof. intros. unfold ids, extend; cbn [b_ents]. rewrite ids_tick_opt, map_app, ids_fresh. reflexivity. Qed.

Lemma ids_mkfork : forall b bi c nx s t, ids (mkfork b bi c nx s t) = ids b ++ seq nx s.
Proof.
  intros. unfold ids, mkfork; cbn [b_ents]. rewrite ids_tick_opt, map_app, ids_fresh, map_map. reflexivity.
Qed.

Lemma ids_close : forall b c nx, ids (close_br b c nx) = ids b ++ [nx].
Proof. intros. unfold ids, close_br; cbn [b_ents]. rewrite map_app, ids_fresh. reflexivity. Qed.

Lemma set_nth_split : forall {A} (l : list A) i old x, nth_error l i = Some old ->
  exists l1 l2, l = l1 ++ old :: l2 /\ length l1 = i /\ set_nth i x l = l1 ++ x :: l2.
Proof.
  induction l as [|a l IH]; intros i old x H; destruct i; cbn in H; try discriminate.
  - inversion H; subst. exists [], l. auto.
  - destruct (IH i old x H) as [l1 [l2 [E1 [E2 E3]]]].
    exists (a :: l1), l2. cbn. rewrite <- E1, E2, E3. auto.
Qed.

Lemma forks_length : forall b bi c nx t sizes, length (forks b bi c nx t sizes) = length sizes.
Proof. intros b bi c nx t sizes; revert nx. induction sizes; intros; cbn; auto. Qed.

Lemma forks_spec : forall b bi c t sizes nx f, In f (forks b bi c nx t sizes) ->
  exists m s, In s sizes /\ nx <= m /\ ids f = ids b ++ seq m s /\ b_parent f = Some bi /\
              b_inh f = length (ids b) /\ b_closed f = false /\ b_added f = c.
Proof.
  induction sizes as [|s r IH]; intros nx f H; cbn in H; [destruct H|].
  destruct H as [<-|H].
  - exists nx, s. rewrite ids_mkfork. unfold ids. cbn. rewrite map_length. repeat split; auto.
  - destruct (IH _ _ H) as [m [s' [H1 [H2 H3]]]]. exists m, s'. repeat split; try tauto; try lia. right; tauto.
Qed.

(* ---- prefixes --------------------------------------------------------------------------- *)

Lemma is_prefix_iff : forall a b, is_prefix a b = true <-> exists s, b = a ++ s.
Proof.
  induction a as [|x a IH]; intros b; cbn.
  - split; [intros _; exists b; reflexivity | auto].
  - destruct b as [|y b]; [split; [discriminate | intros [s E]; discriminate]|].
    rewrite andb_true_iff, Nat.eqb_eq, IH. split.
    + intros [-> [s ->]]. exists s. reflexivity.
    + intros [s E]. inversion E; subst. split; [reflexivity | exists s; reflexivity].
Qed.

Lemma prefix_total : forall (l a b : list nat), (exists s, l = a ++ s) -> (exists s, l = b ++ s) ->
  (exists s, b = a ++ s) \/ (exists s, a = b ++ s).
Proof.
  induction l as [|x l IH]; intros a b [sa Ea] [sb Eb].
  - destruct a; [|discriminate]. left. exists b. reflexivity.
  - destruct a as [|xa a]; [left; exists b; reflexivity|].
    destruct b as [|xb b]; [right; exists (xa :: a); reflexivity|].
    inversion Ea; inversion Eb; subst.
    destruct (IH a b) as [[s ->]|[s ->]]; [eexists; eauto | eexists; eauto | |].
    + left. exists s. reflexivity.
    + right. exists s. reflexivity.
Qed.

Definition inc (a b : list nat) : bool := negb (is_prefix a b) && negb (is_prefix b a).

Lemma inc_sym : forall a b, inc a b = inc b a.
Proof. intros. unfold inc. apply andb_comm. Qed.

(* F1: extending one of two incomparable lists keeps them incomparable *)
Lemma inc_extend : forall old g c, inc old c = true -> inc (old ++ g) c = true.
Proof.
  intros old g c H. unfold inc in *. apply andb_true_iff in H as [H1 H2].
  apply negb_true_iff in H1, H2. apply andb_true_iff; split; apply negb_true_iff.
  - destruct (is_prefix (old ++ g) c) eqn:E; [|reflexivity].
    apply is_prefix_iff in E as [s ->].
    assert (is_prefix old ((old ++ g) ++ s) = true) by (apply is_prefix_iff; exists (g ++ s); rewrite app_assoc; reflexivity).
    congruence.
  - destruct (is_prefix c (old ++ g)) eqn:E; [|reflexivity].
    apply is_prefix_iff in E.
    destruct (prefix_total (old ++ g) c old E) as [P|P]; [exists g; reflexivity | |];
      apply is_prefix_iff in P; congruence.
Qed.

Lemma is_prefix_app_cancel : forall o a b, is_prefix (o ++ a) (o ++ b) = is_prefix a b.
Proof. induction o; intros; cbn; [reflexivity | rewrite Nat.eqb_refl; cbn; apply IHo]. Qed.

(* F2: two different fresh continuations of the same list *)
Lemma inc_siblings : forall o m1 s1 m2 s2, s1 <> 0 -> s2 <> 0 -> m1 <> m2 ->
  inc (o ++ seq m1 s1) (o ++ seq m2 s2) = true.
Proof.
  intros o m1 s1 m2 s2 H1 H2 Hm. unfold inc. rewrite !is_prefix_app_cancel.
  destruct s1; [congruence|]. destruct s2; [congruence|]. cbn.
  apply Nat.eqb_neq in Hm. rewrite Hm. rewrite Nat.eqb_sym, Hm. reflexivity.
Qed.

Lemma pfree_app : forall l1 l2, pfree (l1 ++ l2) = true <->
  pfree l1 = true /\ pfree l2 = true /\ (forall a b, In a l1 -> In b l2 -> inc a b = true).
Proof.
  induction l1 as [|x l1 IH]; intros l2; cbn [app pfree].
  - split; [intros H; repeat split; auto; intros ? ? [] | tauto].
  - rewrite andb_true_iff, forallb_app, andb_true_iff, IH, andb_true_iff, !forallb_forall. split.
    + intros [[A B] [C [D E]]]. repeat split; auto.
      intros a b [<-|Ha] Hb; [apply B; auto | apply E; auto].
    + intros [[A C] [D E]]. repeat split; auto.
      * intros b Hb. apply E; [left; reflexivity | exact Hb].
      * intros a b Ha Hb. apply E; [right; exact Ha | exact Hb].
Qed.

Lemma pfree_cons : forall x l, pfree (x :: l) = true <-> (forall b, In b l -> inc x b = true) /\ pfree l = true.
Proof. intros. cbn [pfree]. rewrite andb_true_iff, forallb_forall. tauto. Qed.

(* the shape of every update: position i is replaced by an extension of its old
   value, and extensions of the old value are appended *)
Lemma pfree_grow : forall l1 old l2 x news,
  pfree (l1 ++ old :: l2) = true ->
  (forall y, In y (x :: news) -> exists g, y = old ++ g) ->
  pfree (x :: news) = true ->
  pfree ((l1 ++ x :: l2) ++ news) = true.
Proof.
  intros l1 old l2 x news H Hext Hn.
  apply pfree_app in H as [P1 [P2 C12]]. apply pfree_cons in P2 as [Co P2].
  apply pfree_cons in Hn as [Cx Pn].
  assert (EX : forall y c, In y (x :: news) -> inc old c = true -> inc y c = true).
  { intros y c Hy Hc. destruct (Hext y Hy) as [g ->]. apply inc_extend; exact Hc. }
  rewrite <- app_assoc. apply pfree_app. repeat split; [exact P1 | |].
  - cbn [app]. apply pfree_cons. split.
    + intros b Hb. apply in_app_or in Hb as [Hb|Hb]; [apply EX; [left; reflexivity | apply Co; exact Hb] | apply Cx; exact Hb].
    + apply pfree_app. repeat split; auto.
      intros a b Ha Hb. rewrite inc_sym. apply EX; [right; exact Hb | apply Co; exact Ha].
  - intros a b Ha Hb. cbn [app] in Hb.
    assert (Hao : inc a old = true) by (apply C12; [exact Ha | left; reflexivity]).
    destruct Hb as [<-|Hb].
    + rewrite inc_sym. apply EX; [left; reflexivity | rewrite inc_sym; exact Hao].
    + apply in_app_or in Hb as [Hb|Hb].
      * apply C12; [exact Ha | right; exact Hb].
      * rewrite inc_sym. apply EX; [right; exact Hb | rewrite inc_sym; exact Hao].
Qed.

Lemma pfree_forks : forall b bi c t sizes nx, Forall (fun s => s <> 0) sizes ->
  pfree (map ids (forks b bi c nx t sizes)) = true.
Proof.
  induction sizes as [|s r IH]; intros nx H; cbn [forks map pfree]; [reflexivity|].
  inversion H as [|? ? Hs Hr]; subst.
  apply andb_true_iff; split; [|apply IH; exact Hr].
  apply forallb_forall. intros y Hy. apply in_map_iff in Hy as [f [<- Hf]].
  destruct (forks_spec _ _ _ _ _ _ _ Hf) as [m [s' [Hs' [Hm [E _]]]]].
  rewrite ids_mkfork, E. apply inc_siblings; auto; [|lia].
  rewrite Forall_forall in Hr. apply Hr; exact Hs'.
Qed.

Lemma forks_bound : forall b bi c t sizes nx f, In f (forks b bi c nx t sizes) ->
  exists m s, In s sizes /\ nx <= m /\ m < nx + list_sum sizes + (if s =? 0 then 1 else 0) /\ ids f = ids b ++ seq m s.
Proof.
  induction sizes as [|s r IH]; intros nx f H; cbn in H; [destruct H|].
  destruct H as [<-|H].
  - exists nx, s. rewrite ids_mkfork. split; [left; reflexivity|]. split; [lia|]. split; [|reflexivity].
    change (list_sum (s :: r)) with (s + list_sum r). destruct (s =? 0) eqn:E; [lia|]. apply Nat.eqb_neq in E. lia.
  - destruct (IH _ _ H) as [m [s' [H1 [H2 [H3 H4]]]]]. exists m, s'.
    change (list_sum (s :: r)) with (s + list_sum r).
    split; [right; exact H1|]. split; [lia|]. split; [lia | exact H4].
Qed.

(* ---- open view --------------------------------------------------------------------------------- *)

Lemma opens_app : forall l1 l2 k, opens_of k (l1 ++ l2) = opens_of k l1 ++ opens_of (k + length l1) l2.
Proof.
  induction l1 as [|a l1 IH]; intros l2 k; cbn.
  - rewrite Nat.add_0_r. reflexivity.
  - rewrite IH, <- app_assoc. replace (k + S (length l1)) with (S k + length l1) by lia. reflexivity.
Qed.

Lemma opens_bound : forall l k i, In i (opens_of k l) -> k <= i < k + length l.
Proof.
  induction l as [|a l IH]; intros k i H; cbn in H; [destruct H|].
  apply in_app_or in H as [H|H].
  - destruct (b_closed a); [destruct H|]. destruct H as [<-|[]]. cbn. lia.
  - apply IH in H. cbn. lia.
Qed.

Lemma opens_In : forall l k i, In i (opens_of k l) <->
  exists b, k <= i /\ nth_error l (i - k) = Some b /\ b_closed b = false.
Proof.
  induction l as [|a l IH]; intros k i; cbn.
  - split; [intros [] | intros [b [_ [H _]]]; destruct (i - k); discriminate].
  - rewrite in_app_iff, IH. split.
    + intros [H|[b [H1 [H2 H3]]]].
      * destruct (b_closed a) eqn:E; [destruct H|]. destruct H as [<-|[]].
        exists a. rewrite Nat.sub_diag. auto.
      * exists b. split; [lia|]. replace (i - k) with (S (i - S k)) by lia. auto.
    + intros [b [H1 [H2 H3]]]. destruct (i - k) as [|j] eqn:E.
      * cbn in H2. inversion H2; subst. left. rewrite H3. left. lia.
      * right. exists b. split; [lia|]. replace (i - S k) with j by lia. auto.
Qed.

Lemma opens_all_open : forall l k, Forall (fun b => b_closed b = false) l -> opens_of k l = seq k (length l).
Proof.
  induction l as [|a l IH]; intros k H; cbn; [reflexivity|].
  inversion H; subst. rewrite H2. cbn. rewrite IH; auto.
Qed.

Lemma filter_id : forall {A} (p : A -> bool) l, (forall a, In a l -> p a = true) -> filter p l = l.
Proof.
  induction l as [|a l IH]; intros H; cbn; [reflexivity|].
  rewrite H by (left; reflexivity). rewrite IH; [reflexivity | intros; apply H; right; assumption].
Qed.

(* ---- stamps --------------------------------------------------------------------------------------- *)

Definition a_val (e : nent) : nat := match e_stat e with None => 0 | Some (a, _) => a end.

Definition stat_le (c : nat) (e : nent) : Prop :=
  match e_stat e with
  | None => True
  | Some (a, t) => a <= c /\ match t with None => True | Some t => a <= t /\ t <= c end
  end.

Lemma stat_le_mono : forall c e, stat_le c e -> stat_le (S c) e.
Proof. unfold stat_le. intros c e. destruct (e_stat e) as [[a [t|]]|]; lia. Qed.

Lemma tick_ent_le : forall c n e, stat_le c e -> stat_le (S c) (tick_ent c n e).
Proof.
  intros c n e H. unfold tick_ent. destruct (e_id e =? n); [|apply stat_le_mono; exact H].
  destruct (e_tk e); [apply stat_le_mono; exact H|].
  unfold stat_le in *. cbn. destruct (e_stat e) as [[a [t|]]|]; lia.
Qed.

Lemma a_val_tick : forall c n e, a_val (tick_ent c n e) = a_val e.
Proof.
  intros. unfold tick_ent. destruct (e_id e =? n); [|reflexivity]. destruct (e_tk e); [reflexivity|].
  unfold a_val; cbn. destruct (e_stat e) as [[a t]|]; reflexivity.
Qed.

Lemma a_val_tick_opt : forall c t es, map a_val (tick_opt c t es) = map a_val es.
Proof. intros c [n|] es; [|reflexivity]. cbn. rewrite map_map. apply map_ext. intros; apply a_val_tick. Qed.

Lemma tick_opt_le : forall c t es, Forall (stat_le c) es -> Forall (stat_le (S c)) (tick_opt c t es).
Proof.
  intros c [n|] es H; cbn.
  - apply Forall_map. eapply Forall_impl; [|exact H]. intros; apply tick_ent_le; assumption.
  - eapply Forall_impl; [|exact H]. apply stat_le_mono.
Qed.

Lemma fresh_le : forall nx n c, Forall (stat_le c) (fresh nx n c).
Proof. intros. unfold fresh. apply Forall_map. apply Forall_forall. intros x _. unfold stat_le; cbn. lia. Qed.

Lemma a_val_fresh : forall nx n c, map a_val (fresh nx n c) = repeat c n.
Proof.
  intros nx n c; revert nx. induction n; intros; cbn; [reflexivity|].
  f_equal. apply IHn.
Qed.

Lemma ss_repeat : forall c n, StronglySorted le (repeat c n).
Proof.
  induction n; cbn; constructor; auto. apply Forall_forall. intros x Hx. apply repeat_spec in Hx. lia.
Qed.

Lemma ss_app_repeat : forall l c n, StronglySorted le l -> Forall (fun x => x <= c) l ->
  StronglySorted le (l ++ repeat c n).
Proof.
  induction l as [|a l IH]; intros c n H F; cbn; [apply ss_repeat|].
  inversion H; subst. inversion F; subst. constructor; [apply IH; auto|].
  apply Forall_app; split; [assumption|]. apply Forall_forall. intros x Hx. apply repeat_spec in Hx. lia.
Qed.

Lemma a_val_le : forall c es, Forall (stat_le c) es -> Forall (fun x => x <= c) (map a_val es).
Proof.
  intros c es H. apply Forall_map. eapply Forall_impl; [|exact H].
  intros e He. unfold stat_le, a_val in *. destruct (e_stat e) as [[a t]|]; lia.
Qed.

Lemma a_val_nostat : forall es c, Forall (fun x => x <= c) (map a_val (map nostat es)) /\
  StronglySorted le (map a_val (map nostat es)).
Proof.
  induction es as [|e es IH]; intros c; cbn; [split; constructor|].
  destruct (IH c) as [A B]. destruct (IH 0) as [A0 _]. split; constructor; auto.
  - unfold a_val; cbn. lia.
  - unfold a_val at 1; cbn. eapply Forall_impl; [|exact A0]. cbn. intros; lia.
Qed.

(* ---- the invariant ------------------------------------------------------------------------------------ *)

Definition br_ok (c : nat) (b : branch) : Prop :=
  b_added b <= c /\ b_cstep b <= c /\ Forall (stat_le c) (b_ents b) /\
  StronglySorted le (map a_val (b_ents b)).

Record inv (st : tab) : Prop := {
  inv_open : k_open st = open_view (k_brs st);
  inv_pf : pfree (map ids (k_brs st)) = true;
  inv_trunk : k_trunk st = negb (isnil (k_brs st));
  inv_steps : Forall (br_ok (cur st)) (k_brs st);
  inv_parent : forall i b p, nth_error (k_brs st) i = Some b -> b_parent b = Some p -> p < i }.

Lemma br_ok_mono : forall c b, br_ok c b -> br_ok (S c) b.
Proof.
  intros c b [A [B [C D]]]. repeat split; try lia; auto.
  eapply Forall_impl; [|exact C]. apply stat_le_mono.
Qed.

Lemma br_ok_extend : forall c b nx s t, br_ok c b -> br_ok (S c) (extend b c nx s t).
Proof.
  intros c b nx s t [A [B [C D]]]. unfold extend, br_ok; cbn. repeat split; try lia.
  - apply tick_opt_le. apply Forall_app; split; [exact C | apply fresh_le].
  - rewrite a_val_tick_opt, map_app, a_val_fresh. apply ss_app_repeat; [exact D | apply a_val_le; exact C].
Qed.

Lemma br_ok_fork : forall c b bi nx s t, br_ok (S c) (mkfork b bi c nx s t).
Proof.
  intros. unfold mkfork, br_ok; cbn. repeat split; try lia.
  - apply tick_opt_le. apply Forall_app; split; [|apply fresh_le].
    apply Forall_map. apply Forall_forall. intros e _. unfold stat_le, nostat; cbn. exact I.
  - rewrite a_val_tick_opt, map_app, a_val_fresh.
    destruct (a_val_nostat (b_ents b) c) as [A B]. apply ss_app_repeat; assumption.
Qed.

Lemma br_ok_close : forall c b nx, br_ok c b -> br_ok (S c) (close_br b c nx).
Proof.
  intros c b nx [A [B [C D]]]. unfold close_br, br_ok; cbn [b_added b_cstep b_ents]. repeat split; try lia.
  - apply Forall_app; split; [eapply Forall_impl; [|exact C]; apply stat_le_mono|].
    eapply Forall_impl; [|apply fresh_le]. apply stat_le_mono.
  - rewrite map_app, a_val_fresh. apply ss_app_repeat; [exact D | apply a_val_le; exact C].
Qed.

Lemma open_target : forall st oi bi b, inv st -> nth_error (k_open st) oi = Some bi ->
  nth_error (k_brs st) bi = Some b -> b_closed b = false.
Proof.
  intros st oi bi b I H1 H2. apply nth_error_In in H1. rewrite (inv_open st I) in H1.
  apply opens_In in H1 as [b' [_ [H3 H4]]]. rewrite Nat.sub_0_r in H3. congruence.
Qed.

Lemma cur_apply : forall st bi b s0 rest t, cur (apply_result st bi b s0 rest t) = S (cur st).
Proof. intros. unfold cur; cbn. rewrite app_length. cbn. lia. Qed.

Lemma cur_close : forall st bi b, cur (close_result st bi b) = S (cur st).
Proof. intros. unfold cur; cbn. rewrite app_length. cbn. lia. Qed.

Lemma map_ids_split : forall l1 (x : branch) l2, map ids (l1 ++ x :: l2) = map ids l1 ++ ids x :: map ids l2.
Proof. intros. rewrite map_app. reflexivity. Qed.

Lemma nth_error_parent_update : forall (l1 l2 news : list branch) old x,
  b_parent x = b_parent old ->
  (forall i b p, nth_error (l1 ++ old :: l2) i = Some b -> b_parent b = Some p -> p < i) ->
  (forall f, In f news -> b_parent f = Some (length l1)) ->
  forall i b p, nth_error ((l1 ++ x :: l2) ++ news) i = Some b -> b_parent b = Some p -> p < i.
Proof.
  intros l1 l2 news old x Hp Hold Hnew i b p Hi Hb.
  destruct (Nat.lt_ge_cases i (length (l1 ++ x :: l2))) as [L|L].
  - rewrite nth_error_app1 in Hi by exact L.
    destruct (Nat.lt_ge_cases i (length l1)) as [L1|L1].
    + rewrite nth_error_app1 in Hi by exact L1. apply (Hold i b p); [rewrite nth_error_app1 by exact L1; exact Hi | exact Hb].
    + rewrite nth_error_app2 in Hi by exact L1.
      destruct (i - length l1) as [|j] eqn:E.
      * cbn in Hi. inversion Hi; subst b. apply (Hold i old p); [|congruence].
        rewrite nth_error_app2 by exact L1. rewrite E. reflexivity.
      * apply (Hold i b p); [|exact Hb]. rewrite nth_error_app2 by exact L1. rewrite E. exact Hi.
  - rewrite nth_error_app2 in Hi by exact L. apply nth_error_In in Hi.
    rewrite (Hnew b Hi) in Hb. inversion Hb; subst p. rewrite app_length in L. cbn [length] in L. lia.
Qed.

Theorem step_inv : forall st e st', inv st -> step st e = Some st' -> inv st'.
Proof.
  intros st e st' I H. destruct e as [n|oi sizes tick|oi|].
  - (* Trunk *)
    apply step_trunk_inv in H as [Hf [Ht [Hb [Hh ->]]]].
    constructor; cbn; auto.
    + constructor; [|constructor]. unfold br_ok; cbn. repeat split; try lia.
      * eapply Forall_impl; [|apply fresh_le]. intros a Ha. unfold stat_le in *. destruct (e_stat a) as [[x [y|]]|]; lia.
      * rewrite a_val_fresh. apply ss_repeat.
    + intros [|i] b p Hi Hp; cbn in Hi; [inversion Hi; subst; cbn in Hp; discriminate | destruct i; discriminate].
  - (* Apply *)
    apply step_apply_inv in H as [bi [b [s0 [rest [Hf [Ho [-> [Hb [Hs ->]]]]]]]]].
    pose proof (open_target st oi bi b I Ho Hb) as Hopen.
    destruct (set_nth_split (k_brs st) bi b (extend b (cur st) (k_next st + list_sum rest) s0 tick) Hb)
      as [l1 [l2 [E1 [E2 E3]]]].
    constructor.
    + (* open view *)
      cbn [apply_result k_open k_brs]. rewrite (inv_open st I). unfold open_view.
      rewrite E3, opens_app. f_equal.
      * rewrite E1, !opens_app. reflexivity.
      * rewrite opens_all_open.
        -- rewrite forks_length. f_equal. cbn. rewrite E1, !app_length. cbn. reflexivity.
        -- apply Forall_forall. intros f Hf'. destruct (forks_spec _ _ _ _ _ _ _ Hf') as [m [s [_ [_ [_ [_ [_ [C _]]]]]]]]. exact C.
    + (* prefix-free *)
      cbn [apply_result k_brs]. rewrite E3, map_app, map_ids_split.
      pose proof (inv_pf st I) as P. rewrite E1, map_ids_split in P.
      eapply pfree_grow; [exact P | |].
      * intros y [<-|Hy]; [rewrite ids_extend; eexists; reflexivity|].
        apply in_map_iff in Hy as [f [<- Hf']].
        destruct (forks_spec _ _ _ _ _ _ _ Hf') as [m [s [_ [_ [E _]]]]]. rewrite E. eexists; reflexivity.
      * destruct Hs as [->|Hs]; [cbn; reflexivity|].
        apply pfree_cons. split; [|apply pfree_forks; inversion Hs; assumption].
        intros y Hy. apply in_map_iff in Hy as [f [<- Hf']].
        inversion Hs as [|? ? Hs0 Hr]; subst.
        destruct (forks_bound _ _ _ _ _ _ _ Hf') as [m [s [Hin [Hm1 [Hm2 E]]]]].
        rewrite ids_extend, E.
        assert (s <> 0) by (rewrite Forall_forall in Hr; apply Hr; exact Hin).
        apply inc_siblings; auto. apply Nat.eqb_neq in H. rewrite H in Hm2. lia.
    + cbn [apply_result k_trunk k_brs]. rewrite (inv_trunk st I), E3, E1.
      destruct l1; reflexivity.
    + (* stamps *)
      rewrite cur_apply. cbn [apply_result k_brs]. rewrite E3.
      pose proof (inv_steps st I) as S. rewrite E1 in S.
      apply Forall_app in S as [S1 S2]. inversion S2 as [|? ? Sb S3]; subst.
      apply Forall_app; split; [apply Forall_app; split|].
      * eapply Forall_impl; [|exact S1]. apply br_ok_mono.
      * constructor; [apply br_ok_extend; exact Sb | eapply Forall_impl; [|exact S3]; apply br_ok_mono].
      * clear. generalize (k_next st). induction rest as [|s r IH]; intros nx; cbn; constructor; auto. apply br_ok_fork.
    + (* parents *)
      cbn [apply_result k_brs]. rewrite E3.
      eapply nth_error_parent_update with (old := b).
      * reflexivity.
      * rewrite <- E1. apply (inv_parent st I).
      * intros f Hf'. destruct (forks_spec _ _ _ _ _ _ _ Hf') as [m [s [_ [_ [_ [C _]]]]]]. rewrite C, E2. reflexivity.
  - (* Close *)
    apply step_close_inv in H as [bi [b [Hf [Ho [Hb ->]]]]].
    pose proof (open_target st oi bi b I Ho Hb) as Hopen.
    destruct (set_nth_split (k_brs st) bi b (close_br b (cur st) (k_next st)) Hb) as [l1 [l2 [E1 [E2 E3]]]].
    constructor.
    + cbn [close_result k_open k_brs]. rewrite (inv_open st I). unfold open_view.
      rewrite E3, E1, !opens_app. cbn [opens_of close_br b_closed]. rewrite Hopen. cbn [app].
      rewrite !filter_app. cbn [filter]. rewrite E2, Nat.add_0_l, Nat.eqb_refl. cbn [negb].
      f_equal; apply filter_id; intros a Ha; apply opens_bound in Ha; apply negb_true_iff, Nat.eqb_neq; lia.
    + cbn [close_result k_brs]. rewrite E3, map_ids_split.
      pose proof (inv_pf st I) as P. rewrite E1, map_ids_split in P.
      rewrite <- (app_nil_r (map ids l1 ++ _ :: map ids l2)).
      eapply pfree_grow; [exact P | | reflexivity].
      intros y [<-|[]]. rewrite ids_close. eexists; reflexivity.
    + cbn [close_result k_trunk k_brs]. rewrite (inv_trunk st I), E3, E1. destruct l1; reflexivity.
    + rewrite cur_close. cbn [close_result k_brs]. rewrite E3.
      pose proof (inv_steps st I) as S. rewrite E1 in S.
      apply Forall_app in S as [S1 S2]. inversion S2 as [|? ? Sb S3]; subst.
      apply Forall_app; split; [eapply Forall_impl; [|exact S1]; apply br_ok_mono|].
      constructor; [apply br_ok_close; exact Sb | eapply Forall_impl; [|exact S3]; apply br_ok_mono].
    + cbn [close_result k_brs]. rewrite E3. rewrite <- (app_nil_r (l1 ++ _ :: l2)).
      eapply nth_error_parent_update with (old := b); [reflexivity | rewrite <- E1; apply (inv_parent st I) | intros f []].
  - (* Finish *)
    apply step_finish_inv in H as [->| ->]; [exact I|].
    destruct I as [A B C D E]. constructor; auto.
Qed.

Lemma inv_init : inv init.
Proof. constructor; cbn; auto. intros [|i] b p H; discriminate. Qed.

(* book_inv: the invariant holds after every effect sequence the step function accepts *)
Theorem book_inv : forall es st, run init es = Some st -> inv st.
Proof.
  assert (G : forall es st0 st, inv st0 -> run st0 es = Some st -> inv st).
  { induction es as [|e es IH]; intros st0 st I H; cbn in H; [inversion H; subst; exact I|].
    destruct (step st0 e) as [st1|] eqn:E; [|discriminate]. eapply IH; [eapply step_inv; eauto | exact H]. }
  intros es st H. eapply G; [apply inv_init | exact H].
Qed.

(* ---- transitions ---------------------------------------------------------------------------------------- *)

(* branches only grow; a closed branch is never touched *)
Theorem step_growth : forall st e st' i b, inv st -> step st e = Some st' ->
  nth_error (k_brs st) i = Some b ->
  exists b', nth_error (k_brs st') i = Some b' /\ (exists g, ids b' = ids b ++ g) /\
             (b_closed b = true -> b' = b).
Proof.
  intros st e st' i b I H Hi. destruct e as [n|oi sizes tick|oi|].
  - apply step_trunk_inv in H as [_ [_ [Hb _]]]. rewrite Hb in Hi. destruct i; discriminate.
  - apply step_apply_inv in H as [bi [b0 [s0 [rest [Hf [Ho [-> [Hb [Hs ->]]]]]]]]].
    pose proof (open_target st oi bi b0 I Ho Hb) as Hopen.
    destruct (set_nth_split (k_brs st) bi b0 (extend b0 (cur st) (k_next st + list_sum rest) s0 tick) Hb)
      as [l1 [l2 [E1 [E2 E3]]]].
    cbn [apply_result k_brs]. rewrite E3. rewrite E1 in Hi.
    assert (Li : i < length (l1 ++ b0 :: l2)) by (apply nth_error_Some; congruence).
    rewrite nth_error_app1 by (rewrite app_length in *; cbn in *; lia).
    destruct (Nat.lt_ge_cases i (length l1)) as [L|L].
    + rewrite nth_error_app1 in Hi |- * by exact L. exists b. repeat split; auto. exists []. rewrite app_nil_r; reflexivity.
    + rewrite nth_error_app2 in Hi |- * by exact L. destruct (i - length l1) as [|j]; cbn in Hi |- *.
      * inversion Hi; subst b0. eexists; split; [reflexivity|]. split; [rewrite ids_extend; eexists; reflexivity | congruence].
      * exists b. repeat split; auto. exists []. rewrite app_nil_r; reflexivity.
  - apply step_close_inv in H as [bi [b0 [Hf [Ho [Hb ->]]]]].
    pose proof (open_target st oi bi b0 I Ho Hb) as Hopen.
    destruct (set_nth_split (k_brs st) bi b0 (close_br b0 (cur st) (k_next st)) Hb) as [l1 [l2 [E1 [E2 E3]]]].
    cbn [close_result k_brs]. rewrite E3. rewrite E1 in Hi.
    destruct (Nat.lt_ge_cases i (length l1)) as [L|L].
    + rewrite nth_error_app1 in Hi |- * by exact L. exists b. repeat split; auto. exists []. rewrite app_nil_r; reflexivity.
    + rewrite nth_error_app2 in Hi |- * by exact L. destruct (i - length l1) as [|j]; cbn in Hi |- *.
      * inversion Hi; subst b0. eexists; split; [reflexivity|]. split; [rewrite ids_close; eexists; reflexivity | congruence].
      * exists b. repeat split; auto. exists []. rewrite app_nil_r; reflexivity.
  - apply step_finish_inv in H as [->| ->]; cbn; exists b; repeat split; auto; exists []; rewrite app_nil_r; reflexivity.
Qed.

(* a branch created by a step is a copy of the target as it was before the step plus a
   non-empty group; its parent is the target, which is an open branch *)
Theorem step_forks : forall st e st' j f, inv st -> step st e = Some st' ->
  length (k_brs st) <= j -> nth_error (k_brs st') j = Some f ->
  (exists n, e = Trunk n /\ j = 0 /\ b_parent f = None /\ ids f = seq (k_next st) n) \/
  (exists oi sizes tick bi b g, e = Apply oi sizes tick /\ nth_error (k_open st) oi = Some bi /\
     nth_error (k_brs st) bi = Some b /\ b_closed b = false /\ b_parent f = Some bi /\
     g <> [] /\ ids f = ids b ++ g /\ b_inh f = length (ids b) /\ b_added f = cur st).
Proof.
  intros st e st' j f I H Hj Hf. destruct e as [n|oi sizes tick|oi|].
  - left. apply step_trunk_inv in H as [_ [_ [Hb [_ ->]]]]. cbn in Hf.
    destruct j; [|destruct j; discriminate]. inversion Hf; subst. exists n. cbn. unfold ids; cbn. rewrite ids_fresh. auto.
  - right. apply step_apply_inv in H as [bi [b [s0 [rest [Hfin [Ho [-> [Hb [Hs ->]]]]]]]]].
    pose proof (open_target st oi bi b I Ho Hb) as Hopen.
    destruct (set_nth_split (k_brs st) bi b (extend b (cur st) (k_next st + list_sum rest) s0 tick) Hb)
      as [l1 [l2 [E1 [E2 E3]]]].
    cbn [apply_result k_brs] in Hf. rewrite E3 in Hf.
    assert (L : length (l1 ++ extend b (cur st) (k_next st + list_sum rest) s0 tick :: l2) <= j).
    { rewrite E1 in Hj. rewrite app_length in *. cbn in *. lia. }
    rewrite nth_error_app2 in Hf by exact L. apply nth_error_In in Hf.
    destruct (forks_spec _ _ _ _ _ _ _ Hf) as [m [s [Hin [_ [E [P [Inh [_ A]]]]]]]].
    exists oi, (s0 :: rest), tick, bi, b, (seq m s). repeat split; auto.
    destruct Hs as [->|Hs]; [destruct Hin|].
    inversion Hs; subst. rewrite Forall_forall in H2. specialize (H2 s Hin). destruct s; [congruence | discriminate].
  - exfalso. apply step_close_inv in H as [bi [b [_ [_ [Hb ->]]]]].
    destruct (set_nth_split (k_brs st) bi b (close_br b (cur st) (k_next st)) Hb) as [l1 [l2 [E1 [E2 E3]]]].
    cbn [close_result k_brs] in Hf. rewrite E3 in Hf. rewrite E1 in Hj.
    assert (nth_error (l1 ++ close_br b (cur st) (k_next st) :: l2) j = None).
    { apply nth_error_None. rewrite app_length in *. cbn in *. lia. }
    congruence.
  - exfalso. apply step_finish_inv in H as [->| ->]; cbn in Hf;
      assert (nth_error (k_brs st) j = None) by (apply nth_error_None; exact Hj); congruence.
Qed.

(* exactly one history entry per Apply / Close, carrying the target branch and node *)
Definition entry_of (st : tab) (e : effect) : list hent :=
  match e with
  | Apply oi _ tick => match nth_error (k_open st) oi with
                       | Some bi => [ {| h_kind := HApply; h_branch := bi; h_node := tick |} ]
                       | None => [] end
  | Close oi => match nth_error (k_open st) oi with
                | Some bi => [ {| h_kind := HClose; h_branch := bi; h_node := None |} ]
                | None => [] end
  | _ => []
  end.

Theorem step_history : forall st e st', step st e = Some st' ->
  k_hist st' = k_hist st ++ entry_of st e /\
  cur st' = cur st + match e with Finish => 0 | _ => 1 end.
Proof.
  intros st e st' H. destruct e as [n|oi sizes tick|oi|].
  - apply step_trunk_inv in H as [_ [Ht [_ [Hh ->]]]]. unfold cur; cbn. rewrite Hh, Ht. auto.
  - apply step_apply_inv in H as [bi [b [s0 [rest [_ [Ho [-> [_ [_ ->]]]]]]]]].
    rewrite cur_apply. cbn. rewrite Ho. split; [reflexivity | lia].
  - apply step_close_inv in H as [bi [b [_ [Ho [_ ->]]]]].
    rewrite cur_close. cbn. rewrite Ho. split; [reflexivity | lia].
  - apply step_finish_inv in H as [->| ->]; cbn; rewrite app_nil_r; split; auto; unfold cur; cbn; lia.
Qed.

Definition is_step (e : effect) : bool := match e with Apply _ _ _ | Close _ => true | _ => false end.

Theorem run_history_length : forall es st0 st, run st0 es = Some st ->
  length (k_hist st) = length (k_hist st0) + length (filter is_step es).
Proof.
  induction es as [|e es IH]; intros st0 st H; cbn in H.
  - inversion H; subst. cbn. lia.
  - destruct (step st0 e) as [st1|] eqn:E; [|discriminate].
    rewrite (IH _ _ H). destruct (step_history _ _ _ E) as [Hh _]. rewrite Hh, app_length.
    destruct e as [n|oi sizes tick|oi|]; cbn [entry_of is_step filter length]; try lia.
    + apply step_apply_inv in E as [bi [b [s0 [rest [_ [Ho _]]]]]]. rewrite Ho. cbn. lia.
    + apply step_close_inv in E as [bi [b [_ [Ho _]]]]. rewrite Ho. cbn. lia.
Qed.

(* the trunk is a prefix of every branch, for ever *)
Theorem run_trunk : forall es n st, run init (Trunk n :: es) = Some st ->
  Forall (fun b => exists g, ids b = seq 0 n ++ g) (k_brs st) /\ k_brs st <> [].
Proof.
  intros es n st H. cbn [run] in H. destruct (step init (Trunk n)) as [st1|] eqn:E; [|discriminate].
  assert (I1 : inv st1) by (eapply step_inv; [apply inv_init | exact E]).
  apply step_trunk_inv in E as [_ [_ [_ [_ ->]]]].
  assert (G : forall es st0 st, inv st0 ->
            (Forall (fun b => exists g, ids b = seq 0 n ++ g) (k_brs st0) /\ k_brs st0 <> []) ->
            run st0 es = Some st ->
            Forall (fun b => exists g, ids b = seq 0 n ++ g) (k_brs st) /\ k_brs st <> []).
  { clear. induction es as [|e es IH]; intros st0 st I [F N] H; cbn in H; [inversion H; subst; auto|].
    destruct (step st0 e) as [st1|] eqn:E; [|discriminate].
    apply (IH st1 st); [eapply step_inv; eauto | | exact H].
    assert (N1 : k_brs st1 <> []).
    { destruct (k_brs st0) as [|b0 r] eqn:E0; [congruence|].
      destruct (step_growth st0 e st1 0 b0 I E) as [b' [Hb' _]]; [rewrite E0; reflexivity|].
      intros C. rewrite C in Hb'. discriminate. }
    split; [|exact N1].
    apply Forall_forall. intros f Hf. apply In_nth_error in Hf as [j Hj].
    destruct (Nat.lt_ge_cases j (length (k_brs st0))) as [L|L].
    - destruct (nth_error (k_brs st0) j) as [b|] eqn:Eb; [|apply nth_error_None in Eb; lia].
      destruct (step_growth st0 e st1 j b I E Eb) as [b' [Hb' [[g Hg] _]]].
      rewrite Hb' in Hj. inversion Hj; subst f.
      rewrite Forall_forall in F. destruct (F b (nth_error_In _ _ Eb)) as [g0 Hg0].
      exists (g0 ++ g). rewrite Hg, Hg0, app_assoc. reflexivity.
    - destruct (step_forks st0 e st1 j f I E L Hj) as [[n' [-> [_ _]]]|[oi [sizes [tick [bi [b [g [_ [_ [Hb [_ [_ [_ [Hg _]]]]]]]]]]]]]].
      + apply step_trunk_inv in E as [_ [_ [Hb _]]]. congruence.
      + rewrite Forall_forall in F. destruct (F b (nth_error_In _ _ Hb)) as [g0 Hg0].
        exists (g0 ++ g). rewrite Hg, Hg0, app_assoc. reflexivity. }
  apply (G es _ st I1); [|exact H].
  cbn. split; [|discriminate]. constructor; [|constructor]. exists []. unfold ids; cbn. rewrite ids_fresh, app_nil_r. reflexivity.
Qed.

(* ---- finished tableaux: tree precondition and stats --------------------------------------------------------- *)

Lemma tree_input_nodes : forall brs k, map tb_nodes (tree_input_from k brs) = map ids brs.
Proof.
  induction brs as [|b brs IH]; intros k; [reflexivity|].
  unfold tree_input_from in *. cbn. f_equal. apply IH.
Qed.

Lemma tree_input_length : forall brs k, length (tree_input_from k brs) = length brs.
Proof. intros. unfold tree_input_from. rewrite map_length, combine_length, seq_length. lia. Qed.

(* every reachable state with a trunk meets the precondition of tree_paths *)
Theorem inv_tree_ok : forall st, inv st -> k_trunk st = true -> tree_okb (tree_input st) = true.
Proof.
  intros st I T. unfold tree_okb, tree_input. rewrite tree_input_nodes, (inv_pf st I), andb_true_r.
  rewrite (inv_trunk st I) in T. destruct (k_brs st); [discriminate | reflexivity].
Qed.

Lemma opens_length : forall l k, length (opens_of k l) = length (filter (fun b => negb (b_closed b)) l).
Proof.
  induction l as [|a l IH]; intros k; cbn; [reflexivity|].
  rewrite app_length, IH. destruct (b_closed a); reflexivity.
Qed.

Lemma filter_length_split : forall {A} (p : A -> bool) l,
  length l = length (filter p l) + length (filter (fun a => negb (p a)) l).
Proof. induction l as [|a l IH]; cbn; [reflexivity|]. destruct (p a); cbn; lia. Qed.

(* stats_agree: the plain-count fields of _compute_stats equal the observable counts *)
Theorem stats_agree : forall es st, run init es = Some st -> k_trunk st = true ->
  let s := compute_stats st in
  s_branches s = length (k_brs st) /\
  s_open s = length (filter (fun b => negb (b_closed b)) (k_brs st)) /\
  s_closed s = length (filter b_closed (k_brs st)) /\
  s_steps s = length (filter is_step es) /\
  exists t, tab_tree st = Some t /\ s_distinct s = Some (r_dn t) /\ t_width t = length (k_brs st) /\
            Permutation (leaves t) (map proj (tree_input st)).
Proof.
  intros es st H T. pose proof (book_inv es st H) as I. cbn zeta.
  unfold compute_stats; cbn [s_branches s_open s_closed s_steps s_distinct].
  pose proof (opens_length (k_brs st) 0) as OL.
  rewrite (inv_open st I). unfold open_view. rewrite OL.
  repeat split.
  - rewrite (filter_length_split b_closed (k_brs st)) at 1. lia.
  - rewrite (run_history_length es init st H). reflexivity.
  - pose proof (inv_tree_ok st I T) as OK.
    destruct (tree_paths true (tree_input st) OK) as [t [Ht P]].
    exists t. unfold tab_tree. rewrite Ht.
    destruct (tree_totals _ _ OK Ht) as [W _].
    pose proof (tree_counts _ _ Ht) as C. destruct (counts_ok_fields t C) as [_ [_ D]].
    split; [reflexivity|]. split; [rewrite D; reflexivity|]. split; [|exact P].
    rewrite W. unfold tree_input. apply tree_input_length.
Qed.

(* non-vacuity: a concrete forking, closing run *)
Example book_nonvacuous :
  exists st, run init [Trunk 3; Apply 0 [1;1] (Some 0); Close 0; Close 0; Finish] = Some st /\
             k_trunk st = true /\ length (k_brs st) = 2 /\ k_open st = [].
Proof. eexists. split; [vm_compute; reflexivity|]. vm_compute. auto. Qed.

(* ---- corollaries used by Props/C16.v ------------------------------------------------------------------------ *)

Lemma run_inv : forall es st0 st, inv st0 -> run st0 es = Some st -> inv st.
Proof.
  induction es as [|e es IH]; intros st0 st I H; cbn in H; [inversion H; subst; exact I|].
  destruct (step st0 e) as [st1|] eqn:E; [|discriminate]. eapply IH; [eapply step_inv; eauto | exact H].
Qed.

(* over any continuation of any run: branches only grow, closed ones are frozen *)
Theorem run_growth : forall es2 es1 st1 st2 i b, run init es1 = Some st1 -> run st1 es2 = Some st2 ->
  nth_error (k_brs st1) i = Some b ->
  exists b', nth_error (k_brs st2) i = Some b' /\ (exists g, ids b' = ids b ++ g) /\ (b_closed b = true -> b' = b).
Proof.
  intros es2 es1 st1 st2 i b H1. pose proof (book_inv es1 st1 H1) as I. clear H1. revert st1 st2 b I.
  induction es2 as [|e es IH]; intros st1 st2 b I H Hi; cbn in H.
  - inversion H; subst. exists b. repeat split; auto. exists []. rewrite app_nil_r. reflexivity.
  - destruct (step st1 e) as [st'|] eqn:E; [|discriminate].
    destruct (step_growth st1 e st' i b I E Hi) as [b1 [H1 [[g1 G1] C1]]].
    destruct (IH st' st2 b1 (step_inv _ _ _ I E) H H1) as [b2 [H2 [[g2 G2] C2]]].
    exists b2. split; [exact H2|]. split.
    + exists (g1 ++ g2). rewrite G2, G1, app_assoc. reflexivity.
    + intros Hc. pose proof (C1 Hc) as Eb. subst b1. apply C2. exact Hc.
Qed.

Lemma opens_sorted : forall l k, StronglySorted lt (opens_of k l).
Proof.
  induction l as [|a l IH]; intros k; cbn; [constructor|].
  destruct (b_closed a); cbn; [apply IH|].
  constructor; [apply IH|]. apply Forall_forall. intros x Hx. apply opens_bound in Hx. lia.
Qed.

Theorem open_view_spec : forall es st, run init es = Some st ->
  (forall i, In i (k_open st) <-> exists b, nth_error (k_brs st) i = Some b /\ b_closed b = false) /\
  StronglySorted lt (k_open st).
Proof.
  intros es st H. pose proof (book_inv es st H) as I. rewrite (inv_open st I). unfold open_view. split.
  - intros i. rewrite opens_In. rewrite Nat.sub_0_r. split.
    + intros [b [_ Hb]]. exists b. exact Hb.
    + intros [b Hb]. exists b. split; [lia | exact Hb].
  - apply opens_sorted.
Qed.

(* recorded step numbers: never in the future, non-decreasing along a branch (a node without a
   record counts as 0, the value the code records when a later tick creates the record) *)
Definition steps_ok (st : tab) : Prop :=
  Forall (fun b => b_added b <= cur st /\ b_cstep b <= cur st /\
                   Forall (stat_le (cur st)) (b_ents b) /\
                   StronglySorted le (map a_val (b_ents b))) (k_brs st).

Theorem run_steps : forall es st, run init es = Some st -> steps_ok st.
Proof. intros es st H. exact (inv_steps st (book_inv es st H)). Qed.
