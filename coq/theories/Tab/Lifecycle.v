(* Tab/Lifecycle.v — executable model of the Tableau life cycle (C17).

   Modelled from the CURRENT source of pytableaux/proof/tableaux.py:
     Tableau.__init__ (flags PREMATURE, HAS_STEP_LIMIT iff max_steps is not None
     and > 0, HAS_TIME_LIMIT iff build_timeout is not None and > 0), the
     argument / logic setters, build_trunk, step, finish, build (= stepiter),
     _check_timeout, _is_max_steps_exceeded, valid / invalid / completed /
     premature / finished, RulesRoot locking on the first branch
     (rules.append / rules.clear raise IllegalState when locked; appending the
     same rule class twice raises DuplicateKeyError).
   Abstracted:
     the proof search is a supply of `c_n` rule applications available once the
     trunk is built (`next()` returns an entry iff the trunk is built and fewer
     than c_n entries are in the history), ending with no open branch iff
     `c_closes`; the clock is one bit per consultation of the build timer
     ("elapsed_ms() > build_timeout"), read from the real timer by the
     correspondence: `b` for the check at the start of step(), `b2` for the
     checks inside model generation in finish().
   Not modelled: branches added by hand with Tableau.branch(), malformed
   arguments / unknown logic names, the tree / stats / models themselves. *)
From Coq Require Import List Bool Arith ZArith Lia.
Import ListNotations.

Record cfg := mkCfg {
  c_n : nat;                 (* natural length of the proof *)
  c_closes : bool;           (* no open branch at its natural end *)
  c_nrules : nat;            (* number of rules of the logic *)
  c_auto : bool;             (* opts['auto_build_trunk'] *)
  c_models : bool;           (* opts['is_build_models'] *)
  c_max_steps : option Z;    (* opts['max_steps'] *)
  c_timeout : option Z;      (* opts['build_timeout'] *)
  (* two behaviours of the code that are probed on every run (both false on the tree this was
     written against; see fixes/tableau-verdict-needs-trunk-and-finished-locks.diff) *)
  c_fin_lock : bool;         (* the setters and build_trunk also refuse a FINISHED tableau *)
  c_trunk_verdict : bool }.  (* valid / invalid are None unless the trunk is built *)

Record st := mkSt {
  premature : bool;          (* Flag.PREMATURE *)
  finished : bool;           (* Flag.FINISHED *)
  timed_out : bool;          (* Flag.TIMED_OUT *)
  trunk : bool;              (* Flag.TRUNK_BUILT *)
  started : bool;            (* Flag.STARTED *)
  has_logic : bool;
  has_arg : bool;
  locked : bool;             (* tab.rules.locked *)
  added : bool;              (* the extra rule class is in tab.rules *)
  open_zero : bool;          (* len(tab.open) == 0 *)
  hist : nat;                (* len(tab.history) *)
  nrules : nat }.            (* len(tab.rules) *)

Definition positive (o : option Z) : bool := match o with Some z => (0 <? z)%Z | None => false end.
Definition has_step_limit (c : cfg) : bool := positive (c_max_steps c).
Definition has_time_limit (c : cfg) : bool := positive (c_timeout c).

(* the constructor called with options only: neither logic nor argument *)
Definition init : st := mkSt true false false false false false false false false true 0 0.

Definition completed (s : st) : bool := finished s && negb (premature s).
Definition is_premature (s : st) : bool := finished s && premature s.
Definition verdict_ok (c : cfg) (s : st) : bool :=
  completed s && has_arg s && (negb (c_trunk_verdict c) || trunk s).
Definition valid (c : cfg) (s : st) : option bool := if verdict_ok c s then Some (open_zero s) else None.
Definition invalid (c : cfg) (s : st) : option bool := if verdict_ok c s then Some (negb (open_zero s)) else None.

Inductive err := IllegalState | Timeout | DuplicateKey.
Inductive res := ROk | REntry | RNone | RErr (e : err) | RFuel.

(* _is_max_steps_exceeded *)
Definition exceeded (c : cfg) (s : st) : bool :=
  has_step_limit c && match c_max_steps c with Some z => (z <=? Z.of_nat (hist s))%Z | None => false end.

(* next() returns an entry *)
Definition available (c : cfg) (s : st) : bool := trunk s && (hist s <? c_n c).

Definition set_finished (s : st) : st :=
  mkSt (premature s) true (timed_out s) (trunk s) (started s) (has_logic s) (has_arg s) (locked s) (added s)
       (open_zero s) (hist s) (nrules s).
Definition set_timed_out (s : st) : st :=
  mkSt (premature s) (finished s) true (trunk s) (started s) (has_logic s) (has_arg s) (locked s) (added s)
       (open_zero s) (hist s) (nrules s).
Definition clear_premature (s : st) : st :=
  mkSt false (finished s) (timed_out s) (trunk s) (started s) (has_logic s) (has_arg s) (locked s) (added s)
       (open_zero s) (hist s) (nrules s).

(* finish(): returns the state and whether ProofTimeoutError is re-raised *)
Definition finish (c : cfg) (b2 : bool) (s : st) : st * bool :=
  if finished s then (s, false) else
  let s1 := set_finished s in
  match invalid c s1 with
  | Some true =>
      if c_models c && has_logic s1 && has_time_limit c && b2
      then (set_timed_out s1, true) else (s1, false)
  | _ => (s1, false)
  end.

Definition apply_rule (c : cfg) (s : st) : st :=
  mkSt (premature s) (finished s) (timed_out s) (trunk s) true (has_logic s) (has_arg s) (locked s) (added s)
       (if S (hist s) =? c_n c then c_closes c else false) (S (hist s)) (nrules s).

(* step() *)
Definition step (c : cfg) (b b2 : bool) (s : st) : st * res :=
  if finished s then (s, RNone) else
  if has_time_limit c && b then (fst (finish c b2 (set_timed_out s)), RErr Timeout) else
  if negb (exceeded c s) then
    if available c s then (apply_rule c s, REntry)
    else let '(s2, t) := finish c b2 (clear_premature s) in (s2, if t then RErr Timeout else RNone)
  else let '(s2, t) := finish c b2 s in (s2, if t then RErr Timeout else RNone).

(* the clock of a build(): fires at the k-th call of step() *)
Definition clock (k : option nat) (i : nat) : bool := match k with Some j => i =? j | None => false end.

(* build(): for _ in stepiter(): pass *)
Fixpoint build_loop (c : cfg) (fuel i : nat) (k : option nat) (b2 : bool) (s : st) : st * res :=
  match fuel with
  | 0 => (s, RFuel)
  | S f => let '(s', r) := step c (clock k i) b2 s in
           match r with
           | REntry => build_loop c f (S i) k b2 s'
           | RNone => (s', ROk)
           | _ => (s', r)
           end
  end.
Definition build (c : cfg) (k : option nat) (b2 : bool) (s : st) : st * res :=
  build_loop c (S (c_n c - hist s)) 0 k b2 s.

(* build_trunk() *)
Definition do_trunk (s : st) : st :=
  mkSt (premature s) (finished s) (timed_out s) true true (has_logic s) (has_arg s) true (added s)
       false (hist s) (nrules s).
Definition refuses (c : cfg) (s : st) : bool := started s || (c_fin_lock c && finished s).
Definition build_trunk (c : cfg) (s : st) : st * res :=
  if trunk s then (s, RErr IllegalState) else
  if negb (has_arg s) then (s, RErr IllegalState) else
  if negb (has_logic s) then (s, RErr IllegalState) else
  if refuses c s then (s, RErr IllegalState) else (do_trunk s, ROk).

(* argument setter *)
Definition set_argument (c : cfg) (s : st) : st * res :=
  if refuses c s then (s, RErr IllegalState) else
  let s1 := mkSt (premature s) (finished s) (timed_out s) (trunk s) (started s) (has_logic s) true (locked s) (added s)
                 (open_zero s) (hist s) (nrules s) in
  if has_logic s1 && c_auto c then build_trunk c s1 else (s1, ROk).

(* logic setter: rules.clear() then the logic's rules *)
Definition set_logic (c : cfg) (s : st) : st * res :=
  if refuses c s then (s, RErr IllegalState) else
  if locked s then (s, RErr IllegalState) else
  let s1 := mkSt (premature s) (finished s) (timed_out s) (trunk s) (started s) true (has_arg s) (locked s) false
                 (open_zero s) (hist s) (c_nrules c) in
  if has_arg s1 && c_auto c then build_trunk c s1 else (s1, ROk).

(* tab.rules.append(ExtraRule) *)
Definition add_rule (s : st) : st * res :=
  if locked s then (s, RErr IllegalState) else
  if added s then (s, RErr DuplicateKey) else
  (mkSt (premature s) (finished s) (timed_out s) (trunk s) (started s) (has_logic s) (has_arg s) (locked s) true
        (open_zero s) (hist s) (S (nrules s)), ROk).

Inductive op :=
| Step (b b2 : bool)
| Finish (b2 : bool)
| Build (k : option nat) (b2 : bool)
| SetArgument
| SetLogic
| BuildTrunk
| AddRule.

Definition exec (c : cfg) (s : st) (o : op) : st * res :=
  match o with
  | Step b b2 => step c b b2 s
  | Finish b2 => let '(s', t) := finish c b2 s in (s', if t then RErr Timeout else ROk)
  | Build k b2 => build c k b2 s
  | SetArgument => set_argument c s
  | SetLogic => set_logic c s
  | BuildTrunk => build_trunk c s
  | AddRule => add_rule s
  end.

Fixpoint trace (c : cfg) (s : st) (ops : list op) : list (res * st) :=
  match ops with
  | [] => []
  | o :: r => let '(s', x) := exec c s o in (x, s') :: trace c s' r
  end.

Definition run (c : cfg) (ops : list op) : st := fold_left (fun s o => fst (exec c s o)) ops init.

(* what the correspondence compares after every call *)
Definition obs := (res * (bool * bool * bool * bool * bool) * (option bool * option bool) * (bool * nat * nat))%type.
Definition observe (c : cfg) (x : res) (s : st) : obs :=
  (x, (premature s, finished s, timed_out s, trunk s, started s), (valid c s, invalid c s), (locked s, hist s, nrules s)).
Definition otrace (c : cfg) (ops : list op) : list obs := map (fun p => observe c (fst p) (snd p)) (trace c init ops).
