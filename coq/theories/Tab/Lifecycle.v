(* Tab/Lifecycle.v — executable model of the Tableau life cycle (C17).

   Modelled from the CURRENT source of pytableaux/proof/tableaux.py:
     Tableau.__init__ (flags PREMATURE, HAS_STEP_LIMIT iff max_steps is not None
     and > 0, HAS_TIME_LIMIT iff build_timeout is not None and > 0), the
     argument / logic setters, build_trunk, step, finish, build (= stepiter),
     _check_timeout, _is_max_steps_exceeded, valid / invalid / completed /
     premature / finished, RulesRoot locking on the first branch
     (rules.append / rules.clear raise IllegalState when locked; appending the
     same rule class twice raises DuplicateKeyError).
     Branches added by hand: the operation `HandBranch` is
       b = tab.branch(); b.append(<one node carrying the conjunction a & b>)
     (node properties as the logic needs: designated=True / world=0).  Tableau.branch() has no
     guard at all (it works on a started and on a finished tableau); the first branch locks the
     rule set (RulesRoot.lock on AFTER_BRANCH_ADD), so a tableau that gets a hand-made branch
     before it has a logic can never be given one (the logic setter raises IllegalState from
     rules.clear(); its branches are inert: no rule, next() is None).  With a logic each
     hand-made branch supplies `c_h` rule applications (measured per logic on every run: 1 =
     the conjunction rule, 2 with a reflexive access relation) and stays open for ever.  The
     first rule application sets Flag.STARTED (the after_rule_apply listener), so a tableau can
     be STARTED without TRUNK_BUILT; build_trunk after a hand-made branch is allowed until then.
   Abstracted:
     the proof search is a supply of rule applications: `c_n` for the trunk once it is built
     plus `c_h` per hand-made branch of a tableau that has a logic (`next()` returns an entry
     iff fewer than `supply` entries are in the history; the order in which the branches are
     served is not modelled, only the count); no branch is open iff there is no hand-made
     branch and the trunk (if built) is at its natural end and `c_closes`; the clock is one bit
     per consultation of the build timer ("elapsed_ms() > build_timeout"), read from the real
     timer by the correspondence: `b` for the check at the start of step(), `b2` for the
     checks inside model generation in finish().
   Assumed by the abstraction and re-measured by the correspondence on every run: rule
   applications on different branches do not influence each other's count (false for logic D,
   whose Serial rule consults the tableau-wide history: two hand-made branches loop for ever;
   the driver measures this per logic and uses HandBranch only where c_h is additive).
   Not modelled: hand-made branches with other contents, Tableau.branch(parent), malformed
   arguments / unknown logic names, the tree / stats / models themselves. *)
From Coq Require Import List Bool Arith ZArith Lia.
Import ListNotations.

Record cfg := mkCfg {
  c_n : nat;                 (* natural length of the proof from the trunk *)
  c_closes : bool;           (* no open branch at its natural end *)
  c_h : nat;                 (* rule applications one hand-made branch supplies *)
  c_nrules : nat;            (* number of rules of the logic *)
  c_auto : bool;             (* opts['auto_build_trunk'] *)
  c_models : bool;           (* opts['is_build_models'] *)
  c_max_steps : option Z;    (* opts['max_steps'] *)
  c_timeout : option Z;      (* opts['build_timeout'] *)
  (* two behaviours of the code that are probed on every run (both false on the tree this was
     written against; see fixes/tableau-verdict-needs-trunk-and-finished-locks.diff) *)
  c_fin_lock : bool;         (* the setters and build_trunk also refuse a FINISHED tableau *)
  c_trunk_verdict : bool }.  (* valid / invalid are None unless the trunk is built *)

Record st := mkSt {
  premature : bool;          (* Flag.PREMATURE *)
  finished : bool;           (* Flag.FINISHED *)
  timed_out : bool;          (* Flag.TIMED_OUT *)
  trunk : bool;              (* Flag.TRUNK_BUILT *)
  started : bool;            (* Flag.STARTED *)
  has_logic : bool;
  has_arg : bool;
  locked : bool;             (* tab.rules.locked *)
  added : bool;              (* the extra rule class is in tab.rules *)
  nhand : nat;               (* number of hand-made branches (all open) *)
  hist : nat;                (* len(tab.history) *)
  nrules : nat }.            (* len(tab.rules) *)

Definition positive (o : option Z) : bool := match o with Some z => (0 <? z)%Z | None => false end.
Definition has_step_limit (c : cfg) : bool := positive (c_max_steps c).
Definition has_time_limit (c : cfg) : bool := positive (c_timeout c).

(* the constructor called with options only: neither logic nor argument *)
Definition init : st := mkSt true false false false false false false false false 0 0 0.

(* the rule applications there are to make: the trunk's and those of the hand-made branches *)
Definition supply (c : cfg) (s : st) : nat :=
  (if trunk s then c_n c else 0) + (if has_logic s then c_h c * nhand s else 0).

(* len(tab.open) == 0 *)
Definition open_zero (c : cfg) (s : st) : bool :=
  (nhand s =? 0) && (if trunk s then (hist s =? c_n c) && c_closes c else true).

Definition completed (s : st) : bool := finished s && negb (premature s).
Definition is_premature (s : st) : bool := finished s && premature s.
Definition verdict_ok (c : cfg) (s : st) : bool :=
  completed s && has_arg s && (negb (c_trunk_verdict c) || trunk s).
Definition valid (c : cfg) (s : st) : option bool := if verdict_ok c s then Some (open_zero c s) else None.
Definition invalid (c : cfg) (s : st) : option bool := if verdict_ok c s then Some (negb (open_zero c s)) else None.

Inductive err := IllegalState | Timeout | DuplicateKey.
Inductive res := ROk | REntry | RNone | RErr (e : err) | RFuel.

(* _is_max_steps_exceeded *)
Definition exceeded (c : cfg) (s : st) : bool :=
  has_step_limit c && match c_max_steps c with Some z => (z <=? Z.of_nat (hist s))%Z | None => false end.

(* next() returns an entry *)
Definition available (c : cfg) (s : st) : bool := hist s <? supply c s.

Definition set_finished (s : st) : st :=
  mkSt (premature s) true (timed_out s) (trunk s) (started s) (has_logic s) (has_arg s) (locked s) (added s)
       (nhand s) (hist s) (nrules s).
Definition set_timed_out (s : st) : st :=
  mkSt (premature s) (finished s) true (trunk s) (started s) (has_logic s) (has_arg s) (locked s) (added s)
       (nhand s) (hist s) (nrules s).
Definition clear_premature (s : st) : st :=
  mkSt false (finished s) (timed_out s) (trunk s) (started s) (has_logic s) (has_arg s) (locked s) (added s)
       (nhand s) (hist s) (nrules s).

(* finish(): returns the state and whether ProofTimeoutError is re-raised *)
Definition finish (c : cfg) (b2 : bool) (s : st) : st * bool :=
  if finished s then (s, false) else
  let s1 := set_finished s in
  match invalid c s1 with
  | Some true =>
      if c_models c && has_logic s1 && has_time_limit c && b2
      then (set_timed_out s1, true) else (s1, false)
  | _ => (s1, false)
  end.

Definition apply_rule (s : st) : st :=
  mkSt (premature s) (finished s) (timed_out s) (trunk s) true (has_logic s) (has_arg s) (locked s) (added s)
       (nhand s) (S (hist s)) (nrules s).

(* step() *)
Definition step (c : cfg) (b b2 : bool) (s : st) : st * res :=
  if finished s then (s, RNone) else
  if has_time_limit c && b then (fst (finish c b2 (set_timed_out s)), RErr Timeout) else
  if negb (exceeded c s) then
    if available c s then (apply_rule s, REntry)
    else let '(s2, t) := finish c b2 (clear_premature s) in (s2, if t then RErr Timeout else RNone)
  else let '(s2, t) := finish c b2 s in (s2, if t then RErr Timeout else RNone).

(* the clock of a build(): fires at the k-th call of step() *)
Definition clock (k : option nat) (i : nat) : bool := match k with Some j => i =? j | None => false end.

(* build(): for _ in stepiter(): pass *)
Fixpoint build_loop (c : cfg) (fuel i : nat) (k : option nat) (b2 : bool) (s : st) : st * res :=
  match fuel with
  | 0 => (s, RFuel)
  | S f => let '(s', r) := step c (clock k i) b2 s in
           match r with
           | REntry => build_loop c f (S i) k b2 s'
           | RNone => (s', ROk)
           | _ => (s', r)
           end
  end.
Definition build (c : cfg) (k : option nat) (b2 : bool) (s : st) : st * res :=
  build_loop c (S (supply c s - hist s)) 0 k b2 s.

(* build_trunk() *)
Definition do_trunk (s : st) : st :=
  mkSt (premature s) (finished s) (timed_out s) true true (has_logic s) (has_arg s) true (added s)
       (nhand s) (hist s) (nrules s).
Definition refuses (c : cfg) (s : st) : bool := started s || (c_fin_lock c && finished s).
Definition build_trunk (c : cfg) (s : st) : st * res :=
  if trunk s then (s, RErr IllegalState) else
  if negb (has_arg s) then (s, RErr IllegalState) else
  if negb (has_logic s) then (s, RErr IllegalState) else
  if refuses c s then (s, RErr IllegalState) else (do_trunk s, ROk).

(* argument setter *)
Definition set_argument (c : cfg) (s : st) : st * res :=
  if refuses c s then (s, RErr IllegalState) else
  let s1 := mkSt (premature s) (finished s) (timed_out s) (trunk s) (started s) (has_logic s) true (locked s) (added s)
                 (nhand s) (hist s) (nrules s) in
  if has_logic s1 && c_auto c then build_trunk c s1 else (s1, ROk).

(* logic setter: rules.clear() then the logic's rules *)
Definition set_logic (c : cfg) (s : st) : st * res :=
  if refuses c s then (s, RErr IllegalState) else
  if locked s then (s, RErr IllegalState) else
  let s1 := mkSt (premature s) (finished s) (timed_out s) (trunk s) (started s) true (has_arg s) (locked s) false
                 (nhand s) (hist s) (c_nrules c) in
  if has_arg s1 && c_auto c then build_trunk c s1 else (s1, ROk).

(* tab.rules.append(ExtraRule) *)
Definition add_rule (s : st) : st * res :=
  if locked s then (s, RErr IllegalState) else
  if added s then (s, RErr DuplicateKey) else
  (mkSt (premature s) (finished s) (timed_out s) (trunk s) (started s) (has_logic s) (has_arg s) (locked s) true
        (nhand s) (hist s) (S (nrules s)), ROk).

(* b = tab.branch(); b.append(node): no guard at all; the first branch locks the rule set *)
Definition hand_branch (s : st) : st * res :=
  (mkSt (premature s) (finished s) (timed_out s) (trunk s) (started s) (has_logic s) (has_arg s) true (added s)
        (S (nhand s)) (hist s) (nrules s), ROk).

Inductive op :=
| Step (b b2 : bool)
| Finish (b2 : bool)
| Build (k : option nat) (b2 : bool)
| SetArgument
| SetLogic
| BuildTrunk
| AddRule
| HandBranch.

Definition exec (c : cfg) (s : st) (o : op) : st * res :=
  match o with
  | Step b b2 => step c b b2 s
  | Finish b2 => let '(s', t) := finish c b2 s in (s', if t then RErr Timeout else ROk)
  | Build k b2 => build c k b2 s
  | SetArgument => set_argument c s
  | SetLogic => set_logic c s
  | BuildTrunk => build_trunk c s
  | AddRule => add_rule s
  | HandBranch => hand_branch s
  end.

Fixpoint trace (c : cfg) (s : st) (ops : list op) : list (res * st) :=
  match ops with
  | [] => []
  | o :: r => let '(s', x) := exec c s o in (x, s') :: trace c s' r
  end.

Definition run (c : cfg) (ops : list op) : st := fold_left (fun s o => fst (exec c s o)) ops init.

(* what the correspondence compares after every call *)
Definition obs := (res * (bool * bool * bool * bool * bool) * (option bool * option bool) * (bool * nat * nat) * bool)%type.
Definition observe (c : cfg) (x : res) (s : st) : obs :=
  (x, (premature s, finished s, timed_out s, trunk s, started s), (valid c s, invalid c s), (locked s, hist s, nrules s), open_zero c s).
Definition otrace (c : cfg) (ops : list op) : list obs := map (fun p => observe c (fst p) (snd p)) (trace c init ops).
