(* Model of the plain-text tableau writer:
   proof/writers/jinja.py TextTabWriter.__call__/_write_structure and the template
   proof/writers/templates/text/nodes.jinja2 (macro `nw` + the structure line).
   The text writer does NOT use the string table for its marks: ' w<k>', ' [+]',
   ' [-]', 'w<i>Rw<j>', ' ...', ' *', '(x)' and the node separator '; ' are literals
   of the template.  The sentence string lw(node.sentence) is opaque here (a field
   of the node table); it is the subject of RenderLex.v.

   Jinja2 itself (whitespace control, attribute lookup falling back to item lookup)
   is not modelled; the correspondence compares the model's lines with the real
   output character for character. *)
From Coq Require Import List Bool Arith String Ascii DecimalString Permutation Lia.
Import ListNotations.
From PT Require Import Tab.Tree Tab.TreeProofs.
Open Scope string_scope.

Record rnode := {
  r_sent : option string;          (* lw(node.sentence) if node.has('sentence') *)
  r_world : option nat;
  r_des : option bool;
  r_acc : option (nat * nat);
  r_ell : bool;
  r_tick : bool;                   (* node.ticked *)
  r_closure : bool }.              (* node.flag == 'closure' *)

Definition dec (n : nat) : string := NilZero.string_of_uint (Nat.to_uint n).

Definition opt_s (o : option string) : string := match o with Some s => s | None => "" end.

(* macro nw(node) *)
Definition nw (n : rnode) : string :=
  opt_s (r_sent n)
  ++ match r_world n with Some k => " w" ++ dec k | None => "" end
  ++ match r_des n with Some true => " [+]" | Some false => " [-]" | None => "" end
  ++ match r_acc n with Some (a, b) => "w" ++ dec a ++ "Rw" ++ dec b | None => "" end
  ++ (if r_ell n then " ..." else "")
  ++ (if r_tick n then " *" else "")
  ++ (if r_closure n then "(x)" else "; ").

Definition nwcat (tbl : nat -> rnode) (ns : list nat) : string :=
  String.concat "" (map (fun i => nw (tbl i)) ns).

(* the template body for one structure *)
Definition sstr (tbl : nat -> rnode) (ns : list nat) (depth : nat) (has_children : bool) : string :=
  (if Nat.eqb depth 0 then "" else "-- ") ++ nwcat tbl ns ++ (if has_children then " ." else "").

Fixpoint spaces (n : nat) : string := match n with 0 => "" | S k => " " ++ spaces k end.

(* _write_structure: the lines, each as (prefix, Some structure-string) or (prefix, None)
   for the connector line between siblings *)
Fixpoint wl (tbl : nat -> rnode) (t : tree) (pfx : string) {struct t} : list (string * option string) :=
  match t with
  | Tree ns cs _ _ _ _ _ _ d _ _ _ =>
    let s := sstr tbl ns d (negb (isnil cs)) in
    let pfx' := pfx ++ spaces (String.length s - 1) in
    (pfx, Some s) ::
    (fix go (cs : list tree) : list (string * option string) :=
       match cs with
       | [] => []
       | c :: r =>
         match r with
         | [] => wl tbl c (pfx' ++ " ")
         | _ => app (wl tbl c (pfx' ++ "|")) ((pfx' ++ "|", None) :: go r)
         end
       end) cs
  end.

Definition line_of (l : string * option string) : string := fst l ++ opt_s (snd l).
Definition render_lines (tbl : nat -> rnode) (t : tree) : list string := map line_of (wl tbl t "").

(* ---- what the lines contain ---------------------------------------------------------------- *)

(* structure strings in pre-order *)
Fixpoint pre_sstr (tbl : nat -> rnode) (t : tree) : list string :=
  match t with
  | Tree ns cs _ _ _ _ _ _ d _ _ _ => sstr tbl ns d (negb (isnil cs)) :: flat_map (pre_sstr tbl) cs
  end.

Definition bodies (ls : list (string * option string)) : list string :=
  flat_map (fun l => match snd l with Some s => [s] | None => [] end) ls.

Lemma bodies_app : forall a b, bodies (app a b) = app (bodies a) (bodies b).
Proof. intros. unfold bodies. apply flat_map_app. Qed.

(* the structure lines of the rendering are exactly the structures of the tree, in pre-order,
   each carrying its template string; all other lines are connectors *)
Theorem wl_bodies : forall tbl t pfx, bodies (wl tbl t pfx) = pre_sstr tbl t.
Proof.
  intros tbl. fix REC 1. intros [ns cs lf cl w dnc snc dn d ho hc bid] pfx.
  cbn [wl pre_sstr]. unfold bodies at 1. cbn [flat_map snd app]. fold bodies. f_equal.
  generalize (pfx ++ spaces (String.length (sstr tbl ns d (negb (isnil cs))) - 1)). intros p.
  induction cs as [|c r IH]; [reflexivity|].
  cbn [flat_map]. destruct r as [|c2 r'].
  - rewrite REC. cbn. rewrite app_nil_r. reflexivity.
  - rewrite bodies_app. rewrite REC. f_equal.
    change (bodies ((p ++ "|", None) :: ?x)) with (bodies x). exact IH.
Qed.

(* root-to-leaf concatenation of the node strings *)
Definition leafstr (tbl : nat -> rnode) (l : leafrec) : nat * bool * string :=
  let '(i, c, p) := l in (i, c, nwcat tbl p).

(* text_paths: for every tree the Tree model builds from a prefix-free list of branches, the
   node strings along each root-to-leaf path are exactly that branch's nodes in order *)
Theorem text_paths : forall tbl bs, tree_okb bs = true ->
  exists t, make true bs = Some t /\
    Permutation (map (leafstr tbl) (leaves t))
                (map (fun b => (tb_id b, tb_closed b, nwcat tbl (tb_nodes b))) bs).
Proof.
  intros tbl bs H. destruct (tree_paths true bs H) as [t [Ht P]].
  exists t. split; [exact Ht|].
  apply (Permutation_map (leafstr tbl)) in P. rewrite map_map in P. exact P.
Qed.

(* closure marks: a node renders '(x)' iff it is the closure flag node; if closure nodes occur
   exactly once on closed branches and never on open ones (Branch.closed = last node is the
   ClosureNode, C16), then every leaf path carries exactly one mark iff its branch is closed *)
Definition marks (tbl : nat -> rnode) (ns : list nat) : nat :=
  List.length (filter (fun i => r_closure (tbl i)) ns).

Definition closure_wf (tbl : nat -> rnode) (bs : list tbr) : Prop :=
  forall b, In b bs -> marks tbl (tb_nodes b) = if tb_closed b then 1 else 0.

Theorem text_closure_marks : forall tbl bs t, tree_okb bs = true -> closure_wf tbl bs ->
  make true bs = Some t ->
  forall i c p, In (i, c, p) (leaves t) -> marks tbl p = if c then 1 else 0.
Proof.
  intros tbl bs t H W Ht i c p Hin.
  destruct (tree_paths true bs H) as [t' [Ht' P]]. rewrite Ht in Ht'. inversion Ht'; subst t'.
  apply (Permutation_in _ P) in Hin. apply in_map_iff in Hin as [b [E Hb]].
  unfold proj in E. inversion E; subst. apply W. exact Hb.
Qed.

(* the correspondence entry point: 0 = lines equal, 1 = lines differ, 2 = the tree model fails *)
Fixpoint lines_eqb (a b : list string) : bool :=
  match a, b with
  | [], [] => true
  | x :: a', y :: b' => String.eqb x y && lines_eqb a' b'
  | _, _ => false
  end.

Definition check_text (tbl : list rnode) (bs : list tbr) (expected : list string) : nat :=
  let dflt := {| r_sent := None; r_world := None; r_des := None; r_acc := None;
                 r_ell := false; r_tick := false; r_closure := false |} in
  match make true bs with
  | Some t => if lines_eqb (render_lines (fun i => nth i tbl dflt) t) expected then 0 else 1
  | None => 2
  end.

Example render_example :
  let tbl := [ {| r_sent := Some "KNaNb"; r_world := None; r_des := Some true; r_acc := None; r_ell := false; r_tick := true; r_closure := false |};
               {| r_sent := Some "Na"; r_world := Some 0; r_des := Some false; r_acc := None; r_ell := false; r_tick := false; r_closure := false |};
               {| r_sent := None; r_world := None; r_des := None; r_acc := None; r_ell := false; r_tick := false; r_closure := true |};
               {| r_sent := None; r_world := None; r_des := None; r_acc := Some (0, 1); r_ell := false; r_tick := false; r_closure := false |} ] in
  check_text tbl [ {| tb_id := 0; tb_nodes := [0; 1; 2]; tb_closed := true |};
                   {| tb_id := 1; tb_nodes := [0; 3]; tb_closed := false |} ]
    [ "KNaNb [+] *;  .";
      "              |-- Na w0 [-]; (x)";
      "              |";
      "               -- w0Rw1; " ] = 0.
Proof. vm_compute. reflexivity. Qed.
