(* The tableau certificate checker for truth-functional steps (plus access
   nodes added by frame rules, which the propositional reading ignores). *)
From Coq Require Import List Bool Arith.
From PT Require Import Util.Finite Sem.Values Sem.Syntax Sem.Schema Sem.Closure Tab.Node.
Import ListNotations.

Record plogic := {
  pl_t : tables;
  pl_hd : bool;                 (* nodes carry designation markers *)
  pl_ks : list ckind;
  pl_rules : list tfrule }.

(* Match a node against a rule's principal schema. The candidate operand
   pairs come from the four shapes u(A), o(A,B), ~u(A), ~o(A,B); a candidate
   is accepted when instantiating the schema gives back the sentence. *)
Definition ops_of (p : sent * sent) : nat -> sent := fun i => match i with 0 => fst p | _ => snd p end.

Definition cands (s : sent) : list (sent * sent) :=
  match s with
  | Un Negation x =>
      match x with
      | Un _ a => [(a, a); (x, x)]
      | Bin _ a b => [(a, b); (x, x)]
      | _ => [(x, x)]
      end
  | Un _ a => [(a, a)]
  | Bin _ a b => [(a, b)]
  | _ => []
  end.

Definition match_rule (r : tfrule) (s : sent) (d : bool) : option (sent * sent) :=
  if Bool.eqb (ns_d (r_principal r)) d then
    find (fun p => sent_eqb s (inst (ops_of p) (ns_s (r_principal r)))) (cands s)
  else None.

Fixpoint find_rule (rules : list tfrule) (s : sent) (d : bool) : option (tfrule * (sent * sent)) :=
  match rules with
  | [] => None
  | r :: rs => match match_rule r s d with
               | Some p => Some (r, p)
               | None => find_rule rs s d
               end
  end.

Definition inst_group (ops : nat -> sent) (w : nat) (g : list nsch) : list node :=
  map (fun n => NS (inst ops (ns_s n)) (ns_d n) w) g.

Definition inst_groups (r : tfrule) (p : sent * sent) (w : nat) : list (list node) :=
  map (inst_group (ops_of p) w) (r_exts r).

(* Literal sentences: letters and negated letters (the only shapes without a rule). *)
Definition is_literal (s : sent) : bool :=
  match s with
  | Atom _ => true
  | Un Negation (Atom _) => true
  | _ => false
  end.

Inductive step :=
| StTF (i : nat)              (* expand the i-th node of the branch by its rule *)
| StAcc (w1 w2 : nat).        (* a frame rule adds the access node w1 R w2 *)

Inductive tree :=
| TClosed
| TOpen
| TStep (st : step) (gs : list (list node)) (ts : list tree).

Fixpoint groups_eqb (a b : list (list node)) : bool :=
  match a, b with
  | [], [] => true
  | x :: r, y :: s => nodes_eqb x y && groups_eqb r s
  | _, _ => false
  end.

Lemma groups_eqb_eq a : forall b, groups_eqb a b = true <-> a = b.
Proof.
  induction a as [|x r IH]; intros [|y s]; simpl; try (split; intro H; [discriminate|discriminate]);
    try (split; reflexivity).
  rewrite andb_true_iff, nodes_eqb_eq, IH. split.
  - intros [-> ->]. reflexivity.
  - intro H. injection H as -> ->. auto.
Qed.

Definition all2 {A B} (f : A -> B -> bool) : list A -> list B -> bool :=
  fix go (la : list A) (lb : list B) {struct la} : bool :=
    match la with
    | [] => match lb with [] => true | _ => false end
    | a :: la' => match lb with [] => false | b :: lb' => f a b && go la' lb' end
    end.

Lemma all2_Forall2 {A B} (f : A -> B -> bool) la : forall lb,
  all2 f la lb = true <-> Forall2 (fun a b => f a b = true) la lb.
Proof.
  induction la as [|a la IH]; intros [|b lb]; simpl; split; intro H; try discriminate;
    try constructor; try (inversion H; fail).
  - apply andb_true_iff in H. tauto.
  - apply IH. apply andb_true_iff in H. tauto.
  - inversion H; subst. apply andb_true_iff. split; [assumption|]. apply IH. assumption.
Qed.

Definition memn (i : nat) (l : list nat) : bool := existsb (Nat.eqb i) l.

(* unticked nodes of an open leaf must be literals (or access nodes) *)
Fixpoint leaf_ok_from (k : nat) (b : list node) (tk : list nat) : bool :=
  match b with
  | [] => true
  | n :: r =>
      (memn k tk || match n with NS s _ _ => is_literal s | NA _ _ => true end)
      && leaf_ok_from (S k) r tk
  end.

Section Check.
  Variable L : plogic.

  Fixpoint check (t : tree) (b : list node) (tk : list nat) {struct t} : bool :=
    match t with
    | TClosed => branch_closed (pl_ks L) b
    | TOpen => negb (branch_closed (pl_ks L) b) && leaf_ok_from 0 b tk
    | TStep st gs ts =>
        match st with
        | StTF i =>
            negb (memn i tk) &&
            match nth_error b i with
            | Some (NS s d w) =>
                match find_rule (pl_rules L) s d with
                | Some (r, p) =>
                    groups_eqb gs (inst_groups r p w) &&
                    forallb (forallb (node_des_ok (pl_hd L))) gs &&
                    all2 (fun t' g => check t' (b ++ g) (i :: tk)) ts gs
                | None => false
                end
            | _ => false
            end
        | StAcc w1 w2 =>
            groups_eqb gs [[NA w1 w2]] &&
            match ts with
            | t' :: nil => check t' (b ++ [NA w1 w2]) tk
            | _ => false
            end
        end
    end.
End Check.

Fixpoint all_closed (t : tree) : bool :=
  match t with
  | TClosed => true
  | TOpen => false
  | TStep _ _ ts => forallb all_closed ts
  end.

Fixpoint tree_size (t : tree) : nat :=
  match t with
  | TClosed | TOpen => 1
  | TStep _ _ ts => S (fold_right (fun t n => tree_size t + n) 0 ts)
  end.

(* The trunk of an argument. designation-marked logics: premises designated,
   conclusion undesignated; unmarked logics: premises, negated conclusion. *)
Definition trunk (hd : bool) (w : nat) (prems : list sent) (concl : sent) : list node :=
  map (fun s => NS s true w) prems ++
  [if hd then NS concl false w else NS (Un Negation concl) true w].
