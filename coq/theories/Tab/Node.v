(* Tableau nodes, branches, closure on concrete branches. *)
From Coq Require Import List Bool Arith.
From PT Require Import Util.Finite Sem.Values Sem.Syntax Sem.Closure.
Import ListNotations.

(* Sentence node (designation marker: logics without markers use true; world:
   logics without worlds use 0) or access node. *)
Inductive node := NS (s : sent) (d : bool) (w : nat) | NA (w1 w2 : nat).

Definition node_eqb (a b : node) : bool :=
  match a, b with
  | NS s d w, NS s' d' w' => sent_eqb s s' && Bool.eqb d d' && Nat.eqb w w'
  | NA x y, NA x' y' => Nat.eqb x x' && Nat.eqb y y'
  | _, _ => false
  end.

Lemma node_eqb_eq a b : node_eqb a b = true <-> a = b.
Proof.
  destruct a as [s d w|x y], b as [s' d' w'|x' y']; simpl; try (split; intro H; discriminate).
  - rewrite !andb_true_iff, sent_eqb_eq, Nat.eqb_eq. split.
    + intros [[-> H] ->]. apply Bool.eqb_prop in H. subst. reflexivity.
    + intro H. injection H as -> -> ->. rewrite Bool.eqb_reflx. auto.
  - rewrite andb_true_iff, !Nat.eqb_eq. split.
    + intros [-> ->]. reflexivity.
    + intro H. injection H as -> ->. auto.
Qed.

Definition has (b : list node) (n : node) : bool := existsb (node_eqb n) b.

Lemma has_In b n : has b n = true <-> In n b.
Proof.
  unfold has. rewrite existsb_exists. split.
  - intros [x [Hx E]]. apply node_eqb_eq in E. subst. exact Hx.
  - intro H. exists n. split; [exact H|]. apply node_eqb_eq. reflexivity.
Qed.

Fixpoint nodes_eqb (a b : list node) : bool :=
  match a, b with
  | [], [] => true
  | x :: r, y :: s => node_eqb x y && nodes_eqb r s
  | _, _ => false
  end.

Lemma nodes_eqb_eq a : forall b, nodes_eqb a b = true <-> a = b.
Proof.
  induction a as [|x r IH]; intros [|y s]; simpl; try (split; intro H; [discriminate|discriminate]);
    try (split; reflexivity).
  rewrite andb_true_iff, node_eqb_eq, IH. split.
  - intros [-> ->]. reflexivity.
  - intro H. injection H as -> ->. auto.
Qed.

(* lang.Sentence.negative: strips one negation, else negates. *)
Definition negative (s : sent) : sent :=
  match s with Un Negation a => a | _ => Un Negation s end.

(* The closure rules as the code applies them to a branch: some node together
   with its counterpart at the same world. *)
Definition node_closes (ks : list ckind) (b : list node) (n : node) : bool :=
  match n with
  | NA _ _ => false
  | NS s d w =>
      existsb (fun k =>
        match k with
        | KDesignation => has b (NS s (negb d) w)
        | KGlut => d && has b (NS (negative s) true w)
        | KGap => negb d && has b (NS (negative s) false w)
        | KContradiction => has b (NS (negative s) d w)
        end) ks
  end.

Definition branch_closed (ks : list ckind) (b : list node) : bool :=
  existsb (node_closes ks b) b.

(* worlds and designation discipline *)
Definition node_des_ok (has_des : bool) (n : node) : bool :=
  match n with NS _ d _ => has_des || d | NA _ _ => true end.
