(* Certified propositional tableaux decide truth-table validity:
   all leaves closed  <->  no valuation designates the premises but not the conclusion;
   and the valuation read off an open leaf is a countermodel. *)
From Coq Require Import List Bool Arith Lia.
From PT Require Import Util.Finite Sem.Values Sem.Lit Sem.Syntax Sem.Schema Sem.Closure
  Tab.Node Tab.PropTab Tab.PropSound Tab.PropComplete.
Import ListNotations.

(* Evaluation of a sentence under a valuation of the letters; sentences outside the
   propositional language get the fixed value dv. *)
Fixpoint eval (t : tables) (dv : val) (v : nat -> val) (s : sent) : val :=
  match s with
  | Atom n => v n
  | Un o a => t_un t o (eval t dv v a)
  | Bin o a b => t_bin t o (eval t dv v a) (eval t dv v b)
  | _ => dv
  end.

Lemma closed_ok_spec t : closed_ok t = true ->
  (forall o a, In a (t_vals t) -> In (t_un t o a) (t_vals t)) /\
  (forall o a b, In a (t_vals t) -> In b (t_vals t) -> In (t_bin t o a b) (t_vals t)).
Proof.
  unfold closed_ok. rewrite forallb_forall. intro H. split.
  - intros o a Ha. specialize (H a Ha). apply andb_true_iff in H. destruct H as [H _].
    rewrite forallb_forall in H. apply vmem_In. apply H. apply all_uops_complete.
  - intros o a b Ha Hb. specialize (H a Ha). apply andb_true_iff in H. destruct H as [_ H].
    rewrite forallb_forall in H. specialize (H b Hb). rewrite forallb_forall in H.
    apply vmem_In. apply H. apply all_bops_complete.
Qed.

Lemma eval_comp t dv v : closed_ok t = true -> In dv (t_vals t) ->
  (forall n, In (v n) (t_vals t)) -> compositional t (eval t dv v).
Proof.
  intros Hc Hd Hv. destruct (closed_ok_spec t Hc) as [Hu Hb]. constructor.
  - reflexivity.
  - reflexivity.
  - induction s; simpl; auto.
Qed.

(* ---- the valuation read off an open branch ---- *)
Definition lits_at (b : list node) (w n : nat) : lits :=
  {| lpp := has b (NS (Atom n) true w); lpm := has b (NS (Atom n) false w);
     lnp := has b (NS (Un Negation (Atom n)) true w);
     lnm := has b (NS (Un Negation (Atom n)) false w) |}.

Definition read_off (hd : bool) (dv : val) (b : list node) (w n : nat) : val :=
  match read_vals hd (lits_at b w n) with x :: _ => x | [] => dv end.

Lemma closes_branch_closed ks b w n :
  closes ks (lits_at b w n) = true -> branch_closed ks b = true.
Proof.
  unfold closes. rewrite existsb_exists. intros [k [Hk Hc]].
  unfold branch_closed. apply existsb_exists.
  destruct k; simpl in Hc.
  - apply orb_true_iff in Hc. destruct Hc as [Hc|Hc]; apply andb_true_iff in Hc; destruct Hc as [H1 H2].
    + exists (NS (Atom n) true w). split; [apply has_In; exact H1|].
      simpl. apply existsb_exists. exists KDesignation. auto.
    + exists (NS (Un Negation (Atom n)) true w). split; [apply has_In; exact H1|].
      simpl. apply existsb_exists. exists KDesignation. auto.
  - apply andb_true_iff in Hc. destruct Hc as [H1 H2].
    exists (NS (Atom n) true w). split; [apply has_In; exact H1|].
    simpl. apply existsb_exists. exists KGlut. auto.
  - apply andb_true_iff in Hc. destruct Hc as [H1 H2].
    exists (NS (Atom n) false w). split; [apply has_In; exact H1|].
    simpl. apply existsb_exists. exists KGap. auto.
  - apply andb_true_iff in Hc. destruct Hc as [H1 H2].
    exists (NS (Atom n) true w). split; [apply has_In; exact H1|].
    simpl. apply existsb_exists. exists KContradiction. auto.
Qed.

Lemma lits_at_in hd b w n : des_ok hd b -> In (lits_at b w n) (all_lits hd).
Proof.
  intro H. destruct hd; [apply all_lits_complete_des|].
  apply all_lits_complete_nodes; simpl.
  - destruct (has b (NS (Atom n) false w)) eqn:E; [|reflexivity].
    apply has_In in E. specialize (H _ E). discriminate.
  - destruct (has b (NS (Un Negation (Atom n)) false w)) eqn:E; [|reflexivity].
    apply has_In in E. specialize (H _ E). discriminate.
Qed.

Lemma read_vals_nonempty hd l : In l (all_lits hd) ->
  lpp l || lpm l || lnp l || lnm l = true -> read_vals hd l <> [].
Proof.
  destruct hd; destruct l as [[|] [|] [|] [|]]; simpl; intros Hin H; try discriminate;
    repeat (destruct Hin as [Hin|Hin]; try discriminate).
  all: contradiction.
Qed.

Section ReadOff.
  Variables (t : tables) (hd : bool) (ks : list ckind) (dv : val) (bl : list node).
  Hypothesis Hcc : closure_complete t hd ks = None.
  Hypothesis Hopen : branch_closed ks bl = false.
  Hypothesis Hdo : des_ok hd bl.
  Hypothesis Hdv : In dv (t_vals t).

  Lemma lits_open w n : closes ks (lits_at bl w n) = false.
  Proof.
    destruct (closes ks (lits_at bl w n)) eqn:E; [|reflexivity].
    apply closes_branch_closed in E. congruence.
  Qed.

  Lemma read_off_vals w n : In (read_off hd dv bl w n) (t_vals t).
  Proof.
    unfold read_off. destruct (read_vals hd (lits_at bl w n)) as [|x r] eqn:E; [exact Hdv|].
    destruct (closure_complete_spec t hd ks Hcc _ (lits_at_in hd bl w n Hdo) (lits_open w n)) as [_ H].
    destruct (H x r E) as [_ [Hx _]]. exact Hx.
  Qed.

  Lemma read_off_sat w n : lpp (lits_at bl w n) || lpm (lits_at bl w n) ||
      lnp (lits_at bl w n) || lnm (lits_at bl w n) = true ->
    lit_sat t (lits_at bl w n) (read_off hd dv bl w n) = true.
  Proof.
    intro Hf. unfold read_off.
    pose proof (read_vals_nonempty hd _ (lits_at_in hd bl w n Hdo) Hf) as Hne.
    destruct (read_vals hd (lits_at bl w n)) as [|x r] eqn:E; [congruence|].
    destruct (closure_complete_spec t hd ks Hcc _ (lits_at_in hd bl w n Hdo) (lits_open w n)) as [_ H].
    destruct (H x r E) as [_ [_ Hs]]. exact Hs.
  Qed.

  Definition read_ev : wev := fun w => eval t dv (read_off hd dv bl w).

  Lemma read_ev_literals : forall n, In n bl -> lit_node n = true -> nsat_node t read_ev n.
  Proof.
    intros [s d w|w1 w2] Hn Hl; [|exact I]. simpl in Hl. simpl.
    destruct s as [n| |o a| | |]; try discriminate.
    - (* letter *)
      unfold read_ev. simpl.
      assert (Hf : lpp (lits_at bl w n) || lpm (lits_at bl w n) || lnp (lits_at bl w n)
                   || lnm (lits_at bl w n) = true).
      { apply has_In in Hn. simpl. destruct d; rewrite Hn; rewrite ?orb_true_r; reflexivity. }
      pose proof (read_off_sat w n Hf) as Hs. unfold lit_sat in Hs.
      rewrite !andb_true_iff in Hs. destruct Hs as [[[S1 S2] _] _].
      apply has_In in Hn. destruct d.
      + simpl in S1. rewrite Hn in S1. exact S1.
      + simpl in S2. rewrite Hn in S2. simpl in S2. apply negb_true_iff in S2. exact S2.
    - destruct o; try discriminate. destruct a as [n| | | | |]; try discriminate.
      unfold read_ev. simpl.
      assert (Hf : lpp (lits_at bl w n) || lpm (lits_at bl w n) || lnp (lits_at bl w n)
                   || lnm (lits_at bl w n) = true).
      { apply has_In in Hn. simpl. destruct d; rewrite Hn; rewrite ?orb_true_r; reflexivity. }
      pose proof (read_off_sat w n Hf) as Hs. unfold lit_sat in Hs.
      rewrite !andb_true_iff in Hs. destruct Hs as [[_ S3] S4].
      apply has_In in Hn. destruct d.
      + simpl in S3. rewrite Hn in S3. exact S3.
      + simpl in S4. rewrite Hn in S4. simpl in S4. apply negb_true_iff in S4. exact S4.
  Qed.
End ReadOff.

(* ---- facts about leaves ---- *)
Lemma open_leaf_props L : forall t b tk, check L t b tk = true -> des_ok (pl_hd L) b ->
  forall bl, In bl (open_leaves t b) ->
    branch_closed (pl_ks L) bl = false /\ des_ok (pl_hd L) bl.
Proof.
  intro t. induction t as [| |st gs ts IH] using tree_ind'; intros b tk Hck Hdo bl Hbl.
  - contradiction.
  - simpl in Hbl. destruct Hbl as [<-|[]]. simpl in Hck. apply andb_true_iff in Hck.
    destruct Hck as [Hc _]. apply negb_true_iff in Hc. auto.
  - simpl in Hck, Hbl. destruct st as [i|w1 w2].
    + apply andb_true_iff in Hck. destruct Hck as [_ Hck].
      destruct (nth_error b i) as [[s d w|]|] eqn:En; try discriminate.
      destruct (find_rule (pl_rules L) s d) as [[r p]|] eqn:Ef; [|discriminate].
      rewrite !andb_true_iff in Hck. destruct Hck as [[Hg Hdes] Hall].
      apply in_concat2 in Hbl. destruct Hbl as [t' [g [Ht' [Hg' [Hbl [j [Hj1 Hj2]]]]]]].
      apply all2_Forall2 in Hall.
      assert (Hck' : check L t' (b ++ g) (i :: tk) = true).
      { clear - Hall Hj1 Hj2. revert gs j Hall Hj1 Hj2.
        induction ts as [|x ts IHts]; intros gs j Hall Hj1 Hj2; [destruct j; discriminate|].
        inversion Hall as [|? y ? gs' Hxy Hrest]; subst.
        destruct j as [|j]; simpl in *.
        - injection Hj1 as <-. injection Hj2 as <-. exact Hxy.
        - eapply IHts; eauto. }
      rewrite Forall_forall in IH.
      apply (IH t' Ht' (b ++ g) (i :: tk) Hck'); [|exact Hbl].
      apply des_ok_app; [exact Hdo|]. rewrite forallb_forall in Hdes. apply Hdes. exact Hg'.
    + apply andb_true_iff in Hck. destruct Hck as [Hg Hck].
      apply groups_eqb_eq in Hg. subst gs.
      destruct ts as [|t' [|]]; try discriminate.
      simpl in Hbl. rewrite app_nil_r in Hbl.
      inversion IH as [|? ? IH1 _]; subst.
      apply (IH1 (b ++ [NA w1 w2]) tk Hck); [|exact Hbl].
      apply des_ok_app; [exact Hdo|reflexivity].
Qed.

Lemma not_closed_has_open L : forall t b tk, check L t b tk = true -> all_closed t = false ->
  open_leaves t b <> [].
Proof.
  intro t. induction t as [| |st gs ts IH] using tree_ind'; intros b tk Hck Hac.
  - simpl in Hac. discriminate.
  - simpl. intro H; discriminate H.
  - simpl in Hck, Hac.
    assert (Hlen : exists f, all2 (fun t' g => check L t' (b ++ g) (f tk)) ts gs = true).
    { destruct st as [i|w1 w2].
      - apply andb_true_iff in Hck. destruct Hck as [_ Hck].
        destruct (nth_error b i) as [[s d w|]|]; try discriminate.
        destruct (find_rule (pl_rules L) s d) as [[r p]|]; [|discriminate].
        rewrite !andb_true_iff in Hck. destruct Hck as [_ Hall]. exists (cons i). exact Hall.
      - apply andb_true_iff in Hck. destruct Hck as [Hg Hck]. apply groups_eqb_eq in Hg. subst gs.
        destruct ts as [|t' [|]]; try discriminate. exists (fun x => x). simpl. rewrite Hck. reflexivity. }
    destruct Hlen as [f Hall]. apply all2_Forall2 in Hall. simpl.
    clear Hck. revert gs Hall. induction ts as [|t' ts IHts]; intros gs Hall; [discriminate|].
    inversion Hall as [|? g ? gs' Hxy Hrest]; subst. simpl.
    inversion IH as [|? ? IH1 IH2]; subst.
    simpl in Hac. apply andb_false_iff in Hac. destruct Hac as [Hac|Hac].
    + pose proof (IH1 (b ++ g) (f tk) Hxy Hac) as Hne.
      destruct (open_leaves t' (b ++ g)); [congruence|discriminate].
    + specialize (IHts IH2 Hac gs' Hrest).
      destruct (open_leaves t' (b ++ g)); simpl; [exact IHts|discriminate].
Qed.

(* ---- the decision theorem ---- *)
Definition val_ok (t : tables) (v : nat -> val) : Prop := forall n, In (v n) (t_vals t).

Definition countermodel (t : tables) (dv : val) (v : nat -> val) (prems : list sent) (concl : sent) : Prop :=
  (forall p, In p prems -> t_des t (eval t dv v p) = true) /\ t_des t (eval t dv v concl) = false.

(* in logics without designation markers the trunk negates the conclusion: negation must flip designation *)
Definition neg_flips (t : tables) : bool :=
  forallb (fun x => Bool.eqb (t_des t (t_un t Negation x)) (negb (t_des t x))) (t_vals t).

Record decide_ok (L : plogic) (dv : val) : Prop := {
  do_sound : sound_ok L;
  do_complete : complete_ok L;
  do_cc : closure_complete (pl_t L) (pl_hd L) (pl_ks L) = None;
  do_closed : closed_ok (pl_t L) = true;
  do_dv : In dv (t_vals (pl_t L));
  do_neg : pl_hd L = false -> neg_flips (pl_t L) = true }.

Lemma trunk_des_ok hd w prems concl : des_ok hd (trunk hd w prems concl).
Proof.
  intros n Hn. unfold trunk in Hn. apply in_app_or in Hn. destruct Hn as [Hn|Hn].
  - apply in_map_iff in Hn. destruct Hn as [s [<- _]]. simpl. apply orb_true_r.
  - destruct Hn as [<-|[]]. destruct hd; reflexivity.
Qed.

Lemma trunk_sat_iff L dv v w prems concl : decide_ok L dv -> val_ok (pl_t L) v ->
  bsat (pl_t L) (fun _ => eval (pl_t L) dv v) (trunk (pl_hd L) w prems concl) <->
  countermodel (pl_t L) dv v prems concl.
Proof.
  intros OK Hv. unfold countermodel, trunk. rewrite bsat_app. split.
  - intros [H1 H2]. split.
    + intros p Hp. apply (H1 (NS p true w)). apply in_map_iff. exists p. auto.
    + specialize (H2 _ (or_introl eq_refl)). destruct (pl_hd L) eqn:Eh; simpl in H2; [exact H2|].
      pose proof (do_neg _ _ OK Eh) as Hn. unfold neg_flips in Hn. rewrite forallb_forall in Hn.
      specialize (Hn (eval (pl_t L) dv v concl)
        (cmp_vals _ _ (eval_comp _ dv v (do_closed _ _ OK) (do_dv _ _ OK) Hv) concl)).
      apply Bool.eqb_prop in Hn. rewrite H2 in Hn. symmetry in Hn. apply negb_true_iff in Hn. exact Hn.
  - intros [H1 H2]. split.
    + intros n Hn. apply in_map_iff in Hn. destruct Hn as [p [<- Hp]]. simpl. auto.
    + intros n [<-|[]]. destruct (pl_hd L) eqn:Eh; simpl; [exact H2|].
      pose proof (do_neg _ _ OK Eh) as Hn. unfold neg_flips in Hn. rewrite forallb_forall in Hn.
      specialize (Hn (eval (pl_t L) dv v concl)
        (cmp_vals _ _ (eval_comp _ dv v (do_closed _ _ OK) (do_dv _ _ OK) Hv) concl)).
      apply Bool.eqb_prop in Hn. rewrite Hn, H2. reflexivity.
Qed.

Theorem decide_sound L dv t prems concl : decide_ok L dv ->
  check L t (trunk (pl_hd L) 0 prems concl) [] = true -> all_closed t = true ->
  forall v, val_ok (pl_t L) v -> ~ countermodel (pl_t L) dv v prems concl.
Proof.
  intros OK Hck Hac v Hv Hcm.
  apply (check_sound L (do_sound _ _ OK) t _ [] Hck Hac (trunk_des_ok _ _ _ _)
           (fun _ => eval (pl_t L) dv v)).
  - intro w. apply eval_comp; [exact (do_closed _ _ OK)|exact (do_dv _ _ OK)|exact Hv].
  - apply trunk_sat_iff; assumption.
Qed.

Theorem decide_complete L dv t prems concl : decide_ok L dv ->
  check L t (trunk (pl_hd L) 0 prems concl) [] = true -> all_closed t = false ->
  forall bl, In bl (open_leaves t (trunk (pl_hd L) 0 prems concl)) ->
    let v := read_off (pl_hd L) dv bl 0 in
    val_ok (pl_t L) v /\ countermodel (pl_t L) dv v prems concl /\
    bsat (pl_t L) (read_ev (pl_t L) (pl_hd L) dv bl) bl.
Proof.
  intros OK Hck Hac bl Hbl v.
  destruct (open_leaf_props L t _ [] Hck (trunk_des_ok _ _ _ _) bl Hbl) as [Hop Hdo].
  assert (Hv : val_ok (pl_t L) v).
  { intro n. apply (read_off_vals (pl_t L) (pl_hd L) (pl_ks L) dv bl);
      [exact (do_cc _ _ OK)|exact Hop|exact Hdo|exact (do_dv _ _ OK)]. }
  split; [exact Hv|].
  set (ev := read_ev (pl_t L) (pl_hd L) dv bl).
  assert (C : wcomp (pl_t L) ev).
  { intro w. apply eval_comp; [exact (do_closed _ _ OK)|exact (do_dv _ _ OK)|].
    intro n. apply (read_off_vals (pl_t L) (pl_hd L) (pl_ks L) dv bl);
      [exact (do_cc _ _ OK)|exact Hop|exact Hdo|exact (do_dv _ _ OK)]. }
  pose proof (check_hintikka L (do_complete _ _ OK) t _ [] Hck (fun k H => match Bool.diff_false_true H with end)
                bl Hbl ev C
                (read_ev_literals (pl_t L) (pl_hd L) (pl_ks L) dv bl (do_cc _ _ OK) Hop Hdo)) as Q.
  assert (Hall : bsat (pl_t L) ev bl).
  { intros n Hn. apply In_nth_error in Hn. destruct Hn as [k Hk]. exact (Q k n Hk eq_refl). }
  split; [|exact Hall].
  (* the trunk is at world 0, where ev is the evaluation under v *)
  destruct (open_leaf_prefix t _ bl Hbl) as [rest Ebl].
  assert (Hb : bsat (pl_t L) (fun _ => eval (pl_t L) dv v) (trunk (pl_hd L) 0 prems concl)).
  { intros n Hn.
    assert (Hs : nsat_node (pl_t L) ev n) by (apply Hall; rewrite Ebl; apply in_or_app; auto).
    apply In_nth_error in Hn. destruct Hn as [k Hk].
    assert (Hw : match n with NS _ _ w => w = 0 | NA _ _ => True end).
    { apply nth_error_In in Hk. unfold trunk in Hk. apply in_app_or in Hk. destruct Hk as [Hk|Hk].
      - apply in_map_iff in Hk. destruct Hk as [s [<- _]]. reflexivity.
      - destruct Hk as [<-|[]]. destruct (pl_hd L); reflexivity. }
    destruct n as [s d w|]; [|exact I]. subst w. exact Hs. }
  apply trunk_sat_iff in Hb; assumption.
Qed.

(* all leaves closed  <->  truth-table valid *)
Theorem decide_iff L dv t prems concl : decide_ok L dv ->
  check L t (trunk (pl_hd L) 0 prems concl) [] = true ->
  (all_closed t = true <->
   forall v, val_ok (pl_t L) v -> ~ countermodel (pl_t L) dv v prems concl).
Proof.
  intros OK Hck. split.
  - intro Hac. apply (decide_sound L dv t prems concl OK Hck Hac).
  - intro Hno. destruct (all_closed t) eqn:Hac; [reflexivity|]. exfalso.
    pose proof (not_closed_has_open L t _ [] Hck Hac) as Hne.
    destruct (open_leaves t (trunk (pl_hd L) 0 prems concl)) as [|bl r] eqn:E; [congruence|].
    assert (Hbl : In bl (open_leaves t (trunk (pl_hd L) 0 prems concl))) by (rewrite E; left; reflexivity).
    destruct (decide_complete L dv t prems concl OK Hck Hac bl Hbl) as [Hv [Hcm _]].
    exact (Hno _ Hv Hcm).
Qed.
