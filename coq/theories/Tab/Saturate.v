(* "Completed means saturated": an executable predicate saying that an open
   branch calls for no further rule instance, and the model read off a branch
   as data (for certifying reported countermodels with the evaluator). *)
From Coq Require Import List Bool Arith.
From PT Require Import Util.Finite Sem.Values Sem.Syntax Sem.Schema Sem.Gen Sem.Closure Sem.Model
  Tab.Node Tab.PropTab Tab.FullTab.
Import ListNotations.

Definition branch_worlds (b : list node) : list nat := nodup Nat.eq_dec (flat_map node_worlds b).

Fixpoint sent_consts (s : sent) : list nat :=
  match s with
  | Atom _ => []
  | Pred _ ts => flat_map (fun t => match t with TC c => [c] | TV _ => [] end) ts
  | Un _ a | Mod _ a | Qu _ _ a => sent_consts a
  | Bin _ a b => sent_consts a ++ sent_consts b
  end.
Definition branch_consts (b : list node) : list nat :=
  nodup Nat.eq_dec (flat_map (fun n => match n with NS s _ _ => sent_consts s | NA _ _ => [] end) b).

Definition incl_nodes (g b : list node) : bool := forallb (has b) g.

(* a sentence the logic treats as a literal: letter, predication, uninterpreted
   sentence, or the negation of one *)
Definition atomic_like (S : sem) (s : sent) : bool :=
  match s with
  | Atom _ | Pred _ _ => true
  | Mod _ _ => negb (s_modal S)
  | Qu _ _ _ => negb (s_quant S)
  | _ => false
  end.
Definition literal_like (S : sem) (s : sent) : bool :=
  atomic_like S s || match s with Un Negation a => atomic_like S a | _ => false end.

(* clause codes: 1 unticked compound, 2 no extension group on the branch, 3 missing instance,
   4 frame rule, 5 no rule for the shape *)
Section Sat.
  Variable L : flogic.

  Definition node_clauses (b : list node) (tk : list nat) (i : nat) (n : node) : list (nat * nat) :=
    match n with
    | NA w1 w2 =>
        (if fl_sym L && negb (has b (NA w2 w1)) then [(i, 4)] else []) ++
        (if fl_trans L &&
            existsb (fun m => match m with
                              | NA w2' w3 => Nat.eqb w2 w2' && negb (has b (NA w1 w3))
                              | _ => false end) b
         then [(i, 4)] else [])
    | NS s d w =>
        if literal_like (fl_S L) s then [] else
        match find_rule (fl_rules L) s d with
        | Some (r, p) =>
            (if memn i tk then [] else [(i, 1)]) ++
            (if existsb (fun g => incl_nodes g b) (inst_groups r p w) then [] else [(i, 2)])
        | None =>
            match find_grule true (fl_grules L) s d with
            | Some (gr, (x, a)) =>
                (if memn i tk then [] else [(i, 1)]) ++
                (if existsb (fun cg =>
                      if g_isq gr then
                        existsb (fun c => incl_nodes (group_nodes true x a (subst x c a) w w cg) b)
                                (branch_consts b)
                        || (negb (existsb is_ex cg) && incl_nodes (group_nodes true x a a w w cg) b)
                      else
                        existsb (fun w' => incl_nodes (acc_node w w' cg ++ group_nodes false x a a w w' cg) b)
                                (branch_worlds b)
                        || (negb (existsb is_ex cg) && incl_nodes (group_nodes false x a a w w cg) b))
                    (q_groups (g_q gr)) then [] else [(i, 2)])
            | None =>
                match find_grule false (fl_grules L) s d with
                | Some (gr, (x, a)) =>
                    match q_groups (g_q gr) with
                    | [[CAll f d']] =>
                        if g_isq gr then
                          if forallb (fun c => has b (NS (finst f (subst x c a)) d' w)) (branch_consts b)
                             && negb (match branch_consts b with [] => true | _ => false end)
                          then [] else [(i, 3)]
                        else
                          if forallb (fun m => match m with
                                               | NA w1 w3 => negb (Nat.eqb w1 w) || has b (NS (finst f a) d' w3)
                                               | _ => true end) b
                          then [] else [(i, 3)]
                    | _ => [(i, 5)]
                    end
                | None => [(i, 5)]
                end
            end
        end
    end.

  Fixpoint clauses_from (b0 : list node) (tk : list nat) (k : nat) (b : list node) : list (nat * nat) :=
    match b with
    | [] => []
    | n :: r => node_clauses b0 tk k n ++ clauses_from b0 tk (S k) r
    end.

  Definition frame_clauses (b : list node) : list (nat * nat) :=
    (if fl_refl L then
       flat_map (fun w => if has b (NA w w) then [] else [(w, 4)]) (branch_worlds b) else []) ++
    (if fl_serial L then
       flat_map (fun w => if existsb (fun m => match m with NA w1 _ => Nat.eqb w1 w | _ => false end) b
                          then [] else [(w, 6)])
                (nodup Nat.eq_dec (flat_map (fun n => match n with NS _ _ w => [w] | _ => [] end) b))
     else []).

  Definition unsaturated (b : list node) (tk : list nat) : list (nat * nat) :=
    clauses_from b tk 0 b ++ frame_clauses b.

  (* classical identity: an open branch is saturated under indiscernibility of identicals when, for every
     a = b on it (a, b distinct), the mirror image b = a is there (code 7) and every positive predication at
     the same world has each of its single-occurrence replacements a -> b, b -> a on the branch (code 8;
     results of the form x = x are exempt, they are closed under by SelfIdentityClosure).  Kept apart from
     `unsaturated` (whose emptiness is the hypothesis of the Hintikka theorem, which treats identity as an
     ordinary predicate). *)
  Fixpoint repl_one (o n : term) (args : list term) : list (list term) :=
    match args with
    | [] => []
    | x :: r => (if term_eqb x o then [n :: r] else []) ++ map (cons x) (repl_one o n r)
    end.
  Definition self_ident (p : nat) (args : list term) : bool :=
    match p, args with 0, [x; y] => term_eqb x y | _, _ => false end.
  Fixpoint ident_from (b0 : list node) (k : nat) (b : list node) : list (nat * nat) :=
    match b with
    | [] => []
    | NS (Pred 0 [ta; tb]) true w :: r =>
        (if term_eqb ta tb then [] else
           (if has b0 (NS (Pred 0 [tb; ta]) true w) then [] else [(k, 7)]) ++
           (if forallb (fun m => match m with
                                 | NS (Pred p args) true w' =>
                                     negb (Nat.eqb w w') ||
                                     forallb (fun a' => self_ident p a' || has b0 (NS (Pred p a') true w))
                                             (repl_one ta tb args ++ repl_one tb ta args)
                                 | _ => true end) b0
            then [] else [(k, 8)]) ++
           (* code 9: the substitution the rule itself performs (every occurrence of a by b if a occurs, else every
              occurrence of b by a) into another positive predication at the same world *)
           (if forallb (fun m => match m with
                                 | NS (Pred p args) true w' =>
                                     negb (Nat.eqb w w') || node_eqb m (NS (Pred 0 [ta; tb]) true w) ||
                                     (let a' := if existsb (term_eqb ta) args then map (replace_term ta tb) args
                                                else map (replace_term tb ta) args in
                                      self_ident p a' || has b0 (NS (Pred p a') true w))
                                 | _ => true end) b0
            then [] else [(k, 9)])) ++ ident_from b0 (S k) r
    | _ :: r => ident_from b0 (S k) r
    end.
  Definition ident_unsaturated (b : list node) : list (nat * nat) :=
    if fl_classical L then ident_from b 0 b else [].

  (* Would the branch close if identity were fully applied?  The positive predications (world, predicate, arguments)
     are closed, for a bounded number of rounds, under the mirror image of identities and one-occurrence replacement
     at the same world; a conflict is a negated predication whose atom is derived, or a derived / stated ~ x = x.
     Used only to decide whether a refusal of the model builder is explained by the identity rule's known
     incompleteness (no theorem depends on it). *)
  Fixpoint terms_eqb (a b : list term) : bool :=
    match a, b with
    | [], [] => true
    | x :: r, y :: r' => term_eqb x y && terms_eqb r r'
    | _, _ => false
    end.
  Definition fact := (nat * nat * list term)%type.
  Definition fact_eqb (f g : fact) : bool :=
    let '(w, p, a) := f in let '(w', p', a') := g in Nat.eqb w w' && Nat.eqb p p' && terms_eqb a a'.
  Definition add_fact (fs : list fact) (f : fact) : list fact := if existsb (fact_eqb f) fs then fs else fs ++ [f].
  Definition pos_facts (b : list node) : list fact :=
    flat_map (fun n => match n with NS (Pred p args) true w => [(w, p, args)] | _ => [] end) b.
  Definition ident_round (fs : list fact) : list fact :=
    let ids := flat_map (fun f => match f with (w, 0, [ta; tb]) => [(w, ta, tb)] | _ => [] end) fs in
    fold_left add_fact
      (flat_map (fun i => let '(w, ta, tb) := i in
                          (w, 0, [tb; ta]) ::
                          flat_map (fun f => let '(w', p, args) := f in
                                             if Nat.eqb w w' then map (fun a' => (w, p, a')) (repl_one ta tb args ++ repl_one tb ta args)
                                             else []) fs) ids) fs.
  Fixpoint ident_close (fuel : nat) (fs : list fact) : list fact :=
    match fuel with 0 => fs | S k => ident_close k (ident_round fs) end.
  Definition ident_conflict (b : list node) : bool :=
    fl_classical L &&
    let fs := ident_close 4 (pos_facts b) in
    existsb (fun n => match n with
                      | NS (Un Negation (Pred p args)) true w => existsb (fact_eqb (w, p, args)) fs || self_ident p args
                      | _ => false end) b.
End Sat.

(* ---- certifying a reported countermodel: the model as data ---- *)
Definition assoc_nat {A} (dflt : A) (l : list (nat * A)) (k : nat) : A :=
  match find (fun p => Nat.eqb (fst p) k) l with Some p => snd p | None => dflt end.

Fixpoint nats_eqb (a b : list nat) : bool :=
  match a, b with
  | [], [] => true
  | x :: r, y :: s => Nat.eqb x y && nats_eqb r s
  | _, _ => false
  end.

Record mdata := {
  md_worlds : list nat;
  md_pairs : list (nat * nat);
  md_consts : list nat;
  md_unassigned : val;
  md_atoms : list (nat * list (nat * val));                    (* world -> letter -> value *)
  md_preds : list (nat * list (nat * list (list nat * val)));  (* world -> predicate -> tuple -> value *)
  md_opqs : list (nat * list (sent * val)) }.                  (* world -> sentence -> value *)

Definition model_of (D : mdata) : model :=
  {| m_worlds := md_worlds D;
     m_R := fun a b => existsb (fun p => Nat.eqb (fst p) a && Nat.eqb (snd p) b) (md_pairs D);
     m_dom := md_consts D;
     m_const := fun c => c;
     m_atom := fun w n => assoc_nat (md_unassigned D) (assoc_nat [] (md_atoms D) w) n;
     m_pred := fun w p ds =>
       match find (fun q => nats_eqb (fst q) ds) (assoc_nat [] (assoc_nat [] (md_preds D) w) p) with
       | Some q => snd q | None => md_unassigned D end;
     m_opq := fun w s =>
       match find (fun q => sent_eqb (fst q) s) (assoc_nat [] (md_opqs D) w) with
       | Some q => snd q | None => md_unassigned D end |}.

Definition node_holds (S : sem) (M : model) (n : node) : bool :=
  match n with
  | NS s d w => Bool.eqb (t_des (s_t S) (eval S M w (fun _ => 0) s)) d
  | NA w1 w2 => m_R M w1 w2
  end.

(* indices of the branch nodes the model does not satisfy *)
Fixpoint failing_from (Sm : sem) (M : model) (k : nat) (b : list node) : list nat :=
  match b with
  | [] => []
  | n :: r => (if node_holds Sm M n then [] else [k]) ++ failing_from Sm M (S k) r
  end.

Definition is_countermodel (S : sem) (M : model) (prems : list sent) (concl : sent) : bool :=
  forallb (fun p => t_des (s_t S) (eval S M 0 (fun _ => 0) p)) prems &&
  negb (t_des (s_t S) (eval S M 0 (fun _ => 0) concl)).
