(* Tab/Branch.v — executable model of the fresh-constant / fresh-world
   bookkeeping of pytableaux.proof.common.Branch (C06).

   Modelled (faithfully, from the CURRENT source):
     lang/lex.py   CoordsItem.next, Constant.first, the order used by max():
                   sort_tuple = (rank, subscript, index)  ->  lexicographic on
                   (subscript, index); `maxi` (LexType.maxi) is a parameter,
                   re-read from the source on every run.
     proof/common.py  Node.for_mapping (classification of a mapping into
                   Closure / Flag / Access / Sentence(+World) / Designation /
                   World / other), Node.worlds, Branch.__init__, Branch.closed,
                   Branch.append (incl. the IllegalState guard on a closed
                   branch), Branch.copy, new_constant, new_world, constants,
                   worlds.
   A heap of branches models object identity: `Copy i` pushes a copy of
   branch i, `Append i n` appends to branch i only.
   Not modelled: the node index, ticking, events, DuplicateValueError (every
   appended node is a new object), negative worlds / indices (never produced by
   the package), aliasing of the mutable sets (correspondence only). *)
From Coq Require Import List Bool Arith Lia.
Import ListNotations.

(* ---- constants ------------------------------------------------------- *)
Definition const := (nat * nat)%type.           (* (index, subscript) *)
Definition cidx (c : const) : nat := fst c.
Definition csub (c : const) : nat := snd c.
Definition cfirst : const := (0, 0).

(* CoordsItem.next *)
Definition cnext (maxi : nat) (c : const) : const :=
  if cidx c <? maxi then (S (cidx c), csub c) else (0, S (csub c)).

(* Lexical.orderitems on two constants: compare (subscript, index) *)
Definition clt (a b : const) : bool :=
  (csub a <? csub b) || ((csub a =? csub b) && (cidx a <? cidx b)).
Definition ceqb (a b : const) : bool := (cidx a =? cidx b) && (csub a =? csub b).

Fixpoint cmem (c : const) (l : list const) : bool :=
  match l with [] => false | x :: r => ceqb c x || cmem c r end.

(* sets are kept as strictly increasing lists (canonical form) *)
Fixpoint cinsert (c : const) (l : list const) : list const :=
  match l with
  | [] => [c]
  | x :: r => if clt c x then c :: l else if ceqb c x then l else x :: cinsert c r
  end.

(* max() of a constant set (cfirst is the least constant, so it is a neutral default) *)
Definition cmax (l : list const) : const :=
  fold_right (fun c m => if clt m c then c else m) cfirst l.

Fixpoint winsert (w : nat) (l : list nat) : list nat :=
  match l with
  | [] => [w]
  | x :: r => if w <? x then w :: l else if w =? x then l else x :: winsert w r
  end.

(* ---- nodes ------------------------------------------------------------ *)
Inductive flagk := FNone | FClosure | FQuit | FOther.

Record node := mkNode {
  n_flag : flagk;                   (* the 'flag' property *)
  n_sent : option (list const);     (* constants of the 'sentence' property, if present *)
  n_des : bool;                     (* has a 'designated' property *)
  n_world : option nat;
  n_w1 : option nat;
  n_w2 : option nat }.

Definition is_some {A} (o : option A) : bool := match o with Some _ => true | None => false end.

Inductive nclass := KClosure | KFlag | KAccess | KSent (modal : bool) | KDesig | KWorld | KOther.

(* Node.for_mapping *)
Definition classify (n : node) : nclass :=
  match n_flag n with
  | FClosure => KClosure
  | FQuit | FOther => KFlag
  | FNone =>
    if is_some (n_w1 n) && is_some (n_w2 n) then KAccess else
    match n_sent n with
    | Some _ => KSent (is_some (n_world n))
    | None => if n_des n then KDesig else if is_some (n_world n) then KWorld else KOther
    end
  end.

Definition is_sentence (n : node) : bool :=
  match classify n with KSent _ => true | _ => false end.
Definition is_modal (n : node) : bool :=
  match classify n with KAccess | KSent true | KWorld => true | _ => false end.
Definition is_closure (n : node) : bool :=
  match classify n with KClosure => true | _ => false end.

Definition olist {A} (o : option A) : list A := match o with Some a => [a] | None => [] end.
(* Node.worlds *)
Definition node_worlds (n : node) : list nat := olist (n_world n) ++ olist (n_w1 n) ++ olist (n_w2 n).
Definition sent_consts (n : node) : list const := match n_sent n with Some l => l | None => [] end.

(* what append looks at *)
Definition seen_consts (n : node) : list const := if is_sentence n then sent_consts n else [].
Definition seen_worlds (n : node) : list nat := if is_modal n then node_worlds n else [].

(* ---- branches --------------------------------------------------------- *)
Record branch := mkB {
  b_nodes : list node;      (* newest first *)
  b_consts : list const;    (* Branch.constants *)
  b_worlds : list nat;      (* Branch.worlds *)
  b_nextc : const;          (* Branch.new_constant() *)
  b_nextw : nat }.          (* Branch.new_world() *)

Definition empty : branch := mkB [] [] [] cfirst 0.

Definition closed (b : branch) : bool :=
  match b_nodes b with n :: _ => is_closure n | [] => false end.

Definition next_world (nw : nat) (ws : list nat) : nat :=
  match ws with
  | [] => nw
  | _ => let m := list_max ws in if nw <=? m then S m else nw
  end.

(* Branch.append, current source (after 41122ed) *)
Definition append (maxi : nat) (b : branch) (n : node) : branch :=
  if closed b then b else
  let cs := seen_consts n in
  let consts' := fold_right cinsert (b_consts b) cs in
  let nextc' := if cmem (b_nextc b) cs then cnext maxi (cmax consts') else b_nextc b in
  let ws := seen_worlds n in
  mkB (n :: b_nodes b) consts' (fold_right winsert (b_worlds b) ws) nextc' (next_world (b_nextw b) ws).

(* Branch.append before 41122ed: the next constant is recomputed from the arriving node only *)
Definition append_old (maxi : nat) (b : branch) (n : node) : branch :=
  if closed b then b else
  let cs := seen_consts n in
  let consts' := fold_right cinsert (b_consts b) cs in
  let nextc' := if cmem (b_nextc b) cs then cnext maxi (cmax cs) else b_nextc b in
  let ws := seen_worlds n in
  mkB (n :: b_nodes b) consts' (fold_right winsert (b_worlds b) ws) nextc' (next_world (b_nextw b) ws).

(* ---- heap of branches: object identity ---------------------------------- *)
Inductive op := Append (i : nat) (n : node) | Copy (i : nat).

Fixpoint set_nth {A} (i : nat) (a : A) (l : list A) : list A :=
  match l, i with
  | [], _ => []
  | _ :: r, 0 => a :: r
  | x :: r, S j => x :: set_nth j a r
  end.

Definition step (maxi : nat) (H : list branch) (o : op) : list branch :=
  match o with
  | Append i n => match nth_error H i with Some b => set_nth i (append maxi b n) H | None => H end
  | Copy i => match nth_error H i with Some b => H ++ [b] | None => H end
  end.

Definition run (maxi : nat) (ops : list op) : list branch := fold_left (step maxi) ops [empty].

(* IllegalState('Already closed') raised by this op? *)
Definition step_err (H : list branch) (o : op) : bool :=
  match o with
  | Append i _ => match nth_error H i with Some b => closed b | None => false end
  | Copy _ => false
  end.

(* ---- observations for the correspondence ------------------------------- *)
Definition obs := (const * nat * list const * list nat * bool)%type.
Definition observe (b : branch) : obs := (b_nextc b, b_nextw b, b_consts b, b_worlds b, closed b).

Fixpoint errs (maxi : nat) (H : list branch) (ops : list op) : list bool :=
  match ops with
  | [] => []
  | o :: r => step_err H o :: errs maxi (step maxi H o) r
  end.

(* final heap + which ops raised *)
Definition final (maxi : nat) (ops : list op) : list bool * list obs :=
  (errs maxi [empty] ops, map observe (run maxi ops)).

(* heap after every op *)
Fixpoint trace (maxi : nat) (H : list branch) (ops : list op) : list (bool * list obs) :=
  match ops with
  | [] => []
  | o :: r => let H' := step maxi H o in (step_err H o, map observe H') :: trace maxi H' r
  end.

(* boolean form of the freshness claim on a model branch (used on run data) *)
Definition fresh_b (b : branch) : bool :=
  negb (cmem (b_nextc b) (b_consts b)) && forallb (fun w => w <? b_nextw b) (b_worlds b).
