(* The general tableau certificate checker: truth-functional rules, quantifier
   and modal rules (witness and per-instance), frame rules, classical identity. *)
From Coq Require Import List Bool Arith.
From PT Require Import Util.Finite Sem.Values Sem.Syntax Sem.Schema Sem.Gen Sem.Closure Sem.Model
  Tab.Node Tab.PropTab.
Import ListNotations.

Record grule := {
  g_isq : bool;        (* quantifier rule (else modal) *)
  g_univ : bool;       (* Universal / Necessity (else Existential / Possibility) *)
  g_neg : bool;        (* principal is negated *)
  g_d : bool;          (* principal's designation *)
  g_tick : bool;       (* witness rule (ticks, new constant / world) or per-instance rule *)
  g_q : qrule }.

Record flogic := {
  fl_S : sem;
  fl_hd : bool;
  fl_ks : list ckind;
  fl_classical : bool;
  fl_rules : list tfrule;
  fl_grules : list grule;
  fl_refl : bool; fl_trans : bool; fl_sym : bool; fl_serial : bool }.

Definition is_univ (q : quant) : bool := match q with Universal => true | _ => false end.
Definition is_nec (o : mop) : bool := match o with Necessity => true | _ => false end.

Definition strip_neg (neg : bool) (s : sent) : option sent :=
  if neg then match s with Un Negation a => Some a | _ => None end else Some s.

(* bound variable (0 for modal rules) and body of the generalised sentence *)
Definition gmatch (gr : grule) (s : sent) (d : bool) : option (nat * sent) :=
  if Bool.eqb (g_d gr) d then
    match strip_neg (g_neg gr) s with
    | Some (Qu q x a) => if g_isq gr && Bool.eqb (g_univ gr) (is_univ q) then Some (x, a) else None
    | Some (Mod o a) => if negb (g_isq gr) && Bool.eqb (g_univ gr) (is_nec o) then Some (0, a) else None
    | _ => None
    end
  else None.

Fixpoint find_grule (tick : bool) (rs : list grule) (s : sent) (d : bool) : option (grule * (nat * sent)) :=
  match rs with
  | [] => None
  | r :: rs' =>
      if Bool.eqb (g_tick r) tick then
        match gmatch r s d with Some p => Some (r, p) | None => find_grule tick rs' s d end
      else find_grule tick rs' s d
  end.

Definition mkgen (isq univ : bool) (x : nat) (b : sent) : sent :=
  if isq then Qu (if univ then Universal else Existential) x b
  else Mod (if univ then Necessity else Possibility) b.

(* the nodes a condition of a rule group stands for *)
Definition cond_nodes (isq : bool) (x : nat) (a ainst : sent) (w wt : nat) (c : cond) : list node :=
  match c with
  | CEx cs => map (fun fd => NS (finst (fst fd) ainst) (snd fd) wt) cs
  | CGen u f outer d' => [NS (finst outer (mkgen isq u x (finst f a))) d' w]
  | CAll f d' => [NS (finst f ainst) d' wt]
  end.
Definition group_nodes isq x a ainst w wt (g : list cond) : list node :=
  flat_map (cond_nodes isq x a ainst w wt) g.

Definition is_ex (c : cond) : bool := match c with CEx _ => true | _ => false end.
Definition acc_node (w w' : nat) (cg : list cond) : list node :=
  if existsb is_ex cg then [NA w w'] else [].

Definition node_worlds (n : node) : list nat := match n with NS _ _ w => [w] | NA a b => [a; b] end.
Definition fresh_world (w : nat) (b : list node) : bool :=
  forallb (fun n => negb (existsb (Nat.eqb w) (node_worlds n))) b.
Definition on_branch_world (w : nat) (b : list node) : bool :=
  existsb (fun n => existsb (Nat.eqb w) (node_worlds n)) b.
Definition fresh_const (c : nat) (b : list node) : bool :=
  forallb (fun n => match n with NS s _ _ => negb (has_const c s) | NA _ _ => true end) b.

Definition replace_term (old new : term) (t : term) : term := if term_eqb t old then new else t.

(* indiscernibility of identicals: args' is args with ANY of the occurrences of ta / tb exchanged for the
   other term (all occurrences at once, one occurrence at a time, and the mirror image b = a of a = b
   are instances) *)
Fixpoint ident_args (ta tb : term) (a a' : list term) : bool :=
  match a, a' with
  | [], [] => true
  | x :: r, x' :: r' =>
      (term_eqb x x' || (term_eqb x ta && term_eqb x' tb) || (term_eqb x tb && term_eqb x' ta)) &&
      ident_args ta tb r r'
  | _, _ => false
  end.
Definition ident_new (gs : list (list node)) : list term :=
  match gs with (NS (Pred _ a) _ _ :: _) :: _ => a | _ => [] end.

(* classical identity / existence closures *)
Definition special_closes (n : node) : bool :=
  match n with
  | NS (Un Negation (Pred 0 [t1; t2])) true _ => term_eqb t1 t2
  | NS (Un Negation (Pred 1 [_])) true _ => true
  | _ => false
  end.

Inductive gstep :=
| GTF (i : nat)
| GRefl (w : nat)
| GTrans (i j : nat)
| GSym (i : nat)
| GSerial (w w' : nat)
| GWitW (i : nat) (w' : nat)
| GAllW (i j : nat)
| GWitC (i : nat) (c : nat)
| GAllC (i : nat) (c : nat)
| GIdent (i j : nat).

Inductive gtree :=
| GClosed
| GOpen
| GStep (st : gstep) (gs : list (list node)) (ts : list gtree).

Definition one_child (ts : list gtree) : option gtree :=
  match ts with t :: nil => Some t | _ => None end.

Section GCheck.
  Variable L : flogic.

  Definition gclosed (b : list node) : bool :=
    branch_closed (fl_ks L) b || (fl_classical L && existsb special_closes b).

  (* all2 over three lists: children, actual groups, rule groups *)
  Definition all3 {A B C} (f : A -> B -> C -> bool) : list A -> list B -> list C -> bool :=
    fix go (la : list A) (lb : list B) (lc : list C) {struct la} : bool :=
      match la with
      | [] => match lb, lc with [], [] => true | _, _ => false end
      | a :: la' =>
          match lb, lc with
          | b :: lb', c :: lc' => f a b c && go la' lb' lc'
          | _, _ => false
          end
      end.

  Fixpoint gcheck (t : gtree) (b : list node) (tk : list nat) {struct t} : bool :=
    match t with
    | GClosed => gclosed b
    | GOpen => true
    | GStep st gs ts =>
        forallb (forallb (node_des_ok (fl_hd L))) gs &&
        match st with
        | GTF i =>
            negb (memn i tk) &&
            match nth_error b i with
            | Some (NS s d w) =>
                match find_rule (fl_rules L) s d with
                | Some (r, p) =>
                    groups_eqb gs (inst_groups r p w) &&
                    all2 (fun t' g => gcheck t' (b ++ g) (i :: tk)) ts gs
                | None => false
                end
            | _ => false
            end
        | GRefl w =>
            fl_refl L && on_branch_world w b && groups_eqb gs [[NA w w]] &&
            all2 (fun t' g => gcheck t' (b ++ g) tk) ts gs
        | GTrans i j =>
            fl_trans L &&
            match nth_error b i, nth_error b j with
            | Some (NA w1 w2), Some (NA w2' w3) =>
                Nat.eqb w2 w2' && groups_eqb gs [[NA w1 w3]] &&
                all2 (fun t' g => gcheck t' (b ++ g) tk) ts gs
            | _, _ => false
            end
        | GSym i =>
            fl_sym L &&
            match nth_error b i with
            | Some (NA w1 w2) =>
                groups_eqb gs [[NA w2 w1]] && all2 (fun t' g => gcheck t' (b ++ g) tk) ts gs
            | _ => false
            end
        | GSerial w w' =>
            fl_serial L && on_branch_world w b && fresh_world w' b && groups_eqb gs [[NA w w']] &&
            all2 (fun t' g => gcheck t' (b ++ g) tk) ts gs
        | GWitW i w' =>
            negb (memn i tk) && fresh_world w' b &&
            match nth_error b i with
            | Some (NS s d w) =>
                match find_grule true (fl_grules L) s d with
                | Some (gr, (x, a)) =>
                    negb (g_isq gr) && interp (fl_S L) s &&
                    all3 (fun t' g cg =>
                            forallb (has (acc_node w w' cg ++ group_nodes false x a a w w' cg)) g &&
                            gcheck t' (b ++ g) (i :: tk))
                         ts gs (q_groups (g_q gr))
                | None => false
                end
            | _ => false
            end
        | GAllW i j =>
            match nth_error b i, nth_error b j with
            | Some (NS s d w), Some (NA w1 w3) =>
                Nat.eqb w w1 &&
                match find_grule false (fl_grules L) s d with
                | Some (gr, (x, a)) =>
                    negb (g_isq gr) && interp (fl_S L) s &&
                    match q_groups (g_q gr) with
                    | [[CAll f d']] =>
                        groups_eqb gs [[NS (finst f a) d' w3]] &&
                        all2 (fun t' g => gcheck t' (b ++ g) tk) ts gs
                    | _ => false
                    end
                | None => false
                end
            | _, _ => false
            end
        | GWitC i c =>
            negb (memn i tk) && fresh_const c b &&
            match nth_error b i with
            | Some (NS s d w) =>
                match find_grule true (fl_grules L) s d with
                | Some (gr, (x, a)) =>
                    g_isq gr && interp (fl_S L) s && nobind x a &&
                    all3 (fun t' g cg =>
                            forallb (has (group_nodes true x a (subst x c a) w w cg)) g &&
                            gcheck t' (b ++ g) (i :: tk))
                         ts gs (q_groups (g_q gr))
                | None => false
                end
            | _ => false
            end
        | GAllC i c =>
            match nth_error b i with
            | Some (NS s d w) =>
                match find_grule false (fl_grules L) s d with
                | Some (gr, (x, a)) =>
                    g_isq gr && interp (fl_S L) s && nobind x a &&
                    match q_groups (g_q gr) with
                    | [[CAll f d']] =>
                        groups_eqb gs [[NS (finst f (subst x c a)) d' w]] &&
                        all2 (fun t' g => gcheck t' (b ++ g) tk) ts gs
                    | _ => false
                    end
                | None => false
                end
            | _ => false
            end
        | GIdent i j =>
            fl_classical L &&
            match nth_error b i, nth_error b j with
            | Some (NS (Pred 0 [ta; tb]) true w), Some (NS (Pred p args) true w') =>
                Nat.eqb w w' &&
                (ident_args ta tb args (ident_new gs) &&
                 groups_eqb gs [[NS (Pred p (ident_new gs)) true w]]) &&
                all2 (fun t' g => gcheck t' (b ++ g) tk) ts gs
            | _, _ => false
            end
        end
    end.
End GCheck.

Fixpoint gall_closed (t : gtree) : bool :=
  match t with
  | GClosed => true
  | GOpen => false
  | GStep _ _ ts => forallb gall_closed ts
  end.
