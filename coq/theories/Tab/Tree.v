(* Functional model of pytableaux.proof.tableaux.Tableau.Tree._build /
   _build_leaf / _build_branches  (proof/tableaux.py l.1399-1505).

   A branch, as the tree builder sees it, is (index in the tableau, node
   identities still to be placed, closed flag from tab.stat(branch, FLAGS)).
   Python indexes the full node list with a running `depth`; the model keeps the
   suffix `branch[depth:]` instead, so `branch[depth]` is the head of the
   suffix and `len(branch) <= depth` is "suffix empty".  Node identity is a
   natural number (Node.__eq__ is `is`).

   `memo['distinct_nodes'] += len(tree.nodes)` is a threaded accumulator; the
   model stores in every structure the amount its subtree contributed (t_dn),
   the root's value is `tree.distinct_nodes`.  `left/right/step/ticksteps/
   balanced_line_*` are not modelled.

   `accum = true` is the code at HEAD (`descendant_node_count +=`), `accum =
   false` the pre-4f09b7e assignment (`=`). *)
From Coq Require Import List Bool Arith Lia.
Import ListNotations.

Record tbr := { tb_id : nat; tb_nodes : list nat; tb_closed : bool }.

Inductive tree := Tree {
  t_nodes : list nat;
  t_children : list tree;
  t_leaf : bool;
  t_closed : bool;
  t_width : nat;
  t_dnc : nat;          (* descendant_node_count *)
  t_snc : nat;          (* structure_node_count *)
  t_dn : nat;           (* contribution to memo['distinct_nodes'] *)
  t_depth : nat;
  t_hasopen : bool;
  t_hasclosed : bool;
  t_bid : option nat }.

(* qset(): distinct values, first occurrence kept, insertion order *)
Fixpoint dedup (l : list nat) : list nat :=
  match l with
  | [] => []
  | x :: r => x :: filter (fun y => negb (y =? x)) (dedup r)
  end.

Definition isnil {A} (l : list A) : bool := match l with [] => true | _ => false end.
Definition hd1 (b : tbr) : list nat := match tb_nodes b with [] => [] | x :: _ => [x] end.
Definition heads (bs : list tbr) : list nat := dedup (flat_map hd1 bs).
Definition tl_br (b : tbr) : tbr :=
  {| tb_id := tb_id b; tb_nodes := tl (tb_nodes b); tb_closed := tb_closed b |}.
Definition hd_is (h : nat) (b : tbr) : bool :=
  match tb_nodes b with [] => false | x :: _ => x =? h end.

Definition size (bs : list tbr) : nat := list_sum (map (fun b => S (length (tb_nodes b))) bs).

(* the `while True` loop of _build: collects the nodes shared by all branches *)
Fixpoint strip (fuel : nat) (bs : list tbr) (acc : list nat)
  : option (list nat * list tbr * list nat) :=
  match heads bs with
  | [x] => match fuel with
           | 0 => None
           | S f => strip f (map tl_br bs) (acc ++ [x])
           end
  | hs => Some (acc, bs, hs)
  end.

Fixpoint mapM {A B} (f : A -> option B) (l : list A) : option (list B) :=
  match l with
  | [] => Some []
  | x :: r => match f x with
              | None => None
              | Some y => match mapM f r with None => None | Some ys => Some (y :: ys) end
              end
  end.

Definition cw (c : tree) : nat := length (t_nodes c) + t_dnc c.

Definition leaf_of (ns : list nat) (b : tbr) (depth : nat) (ho hc : bool) : tree :=
  Tree ns [] true (tb_closed b) 1 0 (length ns) (length ns) depth
       (ho || negb (tb_closed b)) (hc || tb_closed b) (Some (tb_id b)).

Definition node_of (accum : bool) (ns : list nat) (cs : list tree) (depth : nat) (ho hc : bool) : tree :=
  let dnc := fold_left (fun a c => if accum then a + cw c else cw c) cs 0 in
  Tree ns cs false false (fold_left (fun a c => a + t_width c) cs 0)
       dnc (dnc + length ns) (fold_left (fun a c => a + t_dn c) cs (length ns))
       depth ho hc None.

(* None = out of fuel, or the IndexError of `b[depth] == node` on an exhausted branch *)
Fixpoint build (accum : bool) (fuel depth : nat) (bs : list tbr) : option tree :=
  match fuel with
  | 0 => None
  | S f =>
    match strip (size bs) bs [] with
    | None => None
    | Some (ns, bs', hs) =>
      let hc := existsb (fun b => negb (isnil (tb_nodes b)) && tb_closed b) bs in
      let ho := existsb (fun b => negb (isnil (tb_nodes b)) && negb (tb_closed b)) bs in
      match bs' with
      | [b] => Some (leaf_of ns b depth ho hc)
      | _ =>
        if existsb (fun b => isnil (tb_nodes b)) bs' && negb (isnil hs) then None
        else
          match mapM (fun h => build accum f (S depth) (filter (hd_is h) bs')) hs with
          | None => None
          | Some cs => Some (node_of accum ns cs depth ho hc)
          end
      end
    end
  end.

Definition make (accum : bool) (bs : list tbr) : option tree := build accum (size bs) 0 bs.

(* ---- recomputation from the structure (the specification side) ---------- *)

Definition leafrec := (nat * bool * list nat)%type.
Definition prep (ns : list nat) (l : leafrec) : leafrec :=
  let '(i, c, p) := l in (i, c, ns ++ p).

Fixpoint leaves (t : tree) : list leafrec :=
  match t with
  | Tree ns cs lf cl _ _ _ _ _ _ _ bid =>
    if lf then [(match bid with Some i => i | None => 0 end, cl, ns)]
    else flat_map (fun c => map (prep ns) (leaves c)) cs
  end.

Fixpoint r_desc (t : tree) : nat :=
  match t with
  | Tree _ cs _ _ _ _ _ _ _ _ _ _ =>
    list_sum (map (fun c => length (t_nodes c) + r_desc c) cs)
  end.

Fixpoint r_dn (t : tree) : nat :=
  match t with
  | Tree ns cs _ _ _ _ _ _ _ _ _ _ => length ns + list_sum (map r_dn cs)
  end.

Fixpoint r_width (t : tree) : nat :=
  match t with
  | Tree _ cs lf _ _ _ _ _ _ _ _ _ => if lf then 1 else list_sum (map r_width cs)
  end.

(* every stored count of every structure equals the recomputed one *)
Fixpoint counts_ok (t : tree) : Prop :=
  match t with
  | Tree ns cs lf _ w dnc snc dn _ _ _ _ =>
    w = r_width t /\ dnc = r_desc t /\ snc = length ns + r_desc t /\ dn = r_dn t
    /\ fold_right (fun c P => counts_ok c /\ P) True cs
  end.

(* ---- the precondition: no branch is a prefix of another ------------------ *)

Fixpoint is_prefix (a b : list nat) : bool :=
  match a, b with
  | [], _ => true
  | x :: a', y :: b' => (x =? y) && is_prefix a' b'
  | _ :: _, [] => false
  end.

Fixpoint pfree (ls : list (list nat)) : bool :=
  match ls with
  | [] => true
  | a :: r => forallb (fun b => negb (is_prefix a b) && negb (is_prefix b a)) r && pfree r
  end.

Definition tree_okb (bs : list tbr) : bool := negb (isnil bs) && pfree (map tb_nodes bs).

Definition proj (b : tbr) : leafrec := (tb_id b, tb_closed b, tb_nodes b).
