(* Soundness of the general certificate checker with respect to ARBITRARY
   (finite or infinite) many-valued Kripke structures with constant domain
   (Sem/AModel.v).  No axioms: a structure carries its evaluation function, which
   only has to satisfy the semantic clauses. *)
From Coq Require Import List Bool Arith Lia.
From PT Require Tab.PropDecide.
From PT Require Import Util.Finite Sem.Values Sem.Lit Sem.Syntax Sem.Schema Sem.Gen Sem.Closure Sem.Model Sem.AModel
  Tab.Node Tab.PropTab Tab.PropSound Tab.FullTab Tab.FullSound.
Import ListNotations.

Section AS.
  Variable L : flogic.
  Hypothesis OK : fsound_ok L.
  Let S := fl_S L.
  Let t := s_t S.

  Record amodel_ok (M : amodel S) : Prop := {
    ao_refl : fl_refl L = true -> forall u, aR S M u u;
    ao_trans : fl_trans L = true -> forall u v z, aR S M u v -> aR S M v z -> aR S M u z;
    ao_sym : fl_sym L = true -> forall u v, aR S M u v -> aR S M v u;
    ao_serial : fl_serial L = true -> forall u, exists v, aR S M u v;
    ao_ident : fl_classical L = true -> forall w d1 d2,
        (apred S M w 0 [d1; d2] = VT <-> d1 = d2) /\ (apred S M w 0 [d1; d2] = VT \/ apred S M w 0 [d1; d2] = VF);
    ao_exist : fl_classical L = true -> forall w d, apred S M w 1 [d] = VT }.

  Section WithModel.
  Variable M : amodel S.
  Hypothesis MO : amodel_ok M.
  Let ve0 : nat -> aD S M := fun _ => a_inh S M.

  Definition asat (f : nat -> aW S M) (ce : nat -> aD S M) (n : node) : Prop :=
    match n with
    | NS s d w => t_des t (aev S M (f w) ce ve0 s) = d
    | NA w1 w2 => aR S M (f w1) (f w2)
    end.
  Definition absat f ce (b : list node) : Prop := forall n, In n b -> asat f ce n.

  Lemma absat_app f ce b g : absat f ce (b ++ g) <-> absat f ce b /\ absat f ce g.
  Proof.
    unfold absat. split.
    - intro H. split; intros n Hn; apply H; apply in_or_app; auto.
    - intros [H1 H2] n Hn. apply in_app_or in Hn. destruct Hn; auto.
  Qed.

  Lemma acomp u ce : compositional t (aev S M u ce ve0).
  Proof. constructor; [apply a_un|apply a_bin|apply a_vals]. Qed.

  Lemma absat_bsat f ce b : absat f ce b -> bsat t (fun w => aev S M (f w) ce ve0) b.
  Proof. intros H n Hn. specialize (H n Hn). destruct n; simpl in *; auto. Qed.

  Lemma aclosed_unsat f ce b : des_ok (fl_hd L) b -> gclosed L b = true -> absat f ce b -> False.
  Proof.
    intros Hdo Hc Hs. unfold gclosed in Hc. apply orb_true_iff in Hc. destruct Hc as [Hc|Hc].
    - eapply (closed_unsat t (fl_hd L) (fl_ks L) (fun w => aev S M (f w) ce ve0) b); eauto using absat_bsat.
      + intro w. apply acomp.
      + exact (fo_clos _ OK).
      + exact (fo_ks _ OK).
    - apply andb_true_iff in Hc. destruct Hc as [Hcl Hc]. apply existsb_exists in Hc.
      destruct Hc as [n [Hn Hsp]]. specialize (Hs n Hn).
      destruct (fo_classical _ OK Hcl) as [HT [HF HnT]].
      destruct n as [s d w|]; [|discriminate]. simpl in Hsp.
      destruct s as [| |o a| | |]; try discriminate. destruct o; try discriminate.
      destruct a as [|p ts| | | |]; try discriminate.
      destruct p as [|[|p]]; try discriminate.
      + destruct ts as [|t1 [|t2 [|]]]; try discriminate. destruct d; try discriminate.
        apply term_eqb_eq in Hsp. subst t2. simpl in Hs. rewrite a_un, a_pred in Hs. simpl in Hs.
        destruct (ao_ident M MO Hcl (f w) (match t1 with TC c => ce c | TV x => ve0 x end)
                                          (match t1 with TC c => ce c | TV x => ve0 x end)) as [Hi _].
        rewrite (proj2 Hi eq_refl) in Hs. unfold t, S in *. congruence.
      + destruct ts as [|t1 [|]]; try discriminate. destruct d; try discriminate. simpl in Hs.
        rewrite a_un, a_pred in Hs. simpl in Hs. rewrite (ao_exist M MO Hcl) in Hs. unfold t, S in *. congruence.
  Qed.

  (* fresh items *)
  Lemma absat_fresh_const f ce c dd b : fresh_const c b = true -> absat f ce b -> absat f (updg ce c dd) b.
  Proof.
    intros Hf Hs n Hn. unfold fresh_const in Hf. rewrite forallb_forall in Hf. specialize (Hf n Hn).
    specialize (Hs n Hn). destruct n as [s d w|]; simpl in *; [|exact Hs].
    apply negb_true_iff in Hf. rewrite (afresh S M s c dd Hf). exact Hs.
  Qed.

  Definition updfw (f : nat -> aW S M) (w : nat) (u : aW S M) : nat -> aW S M :=
    fun z => if Nat.eqb z w then u else f z.

  Lemma absat_updfw f ce w' u b : fresh_world w' b = true -> absat f ce b -> absat (updfw f w' u) ce b.
  Proof.
    intros Hf Hs n Hn. unfold fresh_world in Hf. rewrite forallb_forall in Hf. specialize (Hf n Hn).
    apply negb_true_iff in Hf. specialize (Hs n Hn).
    destruct n as [s d w|w1 w2]; simpl in *; unfold updfw.
    - rewrite orb_false_r in Hf. rewrite Nat.eqb_sym in Hf. rewrite Hf. exact Hs.
    - apply orb_false_iff in Hf. destruct Hf as [H1 H2]. rewrite orb_false_r in H2.
      rewrite Nat.eqb_sym in H1, H2. rewrite H1, H2. exact Hs.
  Qed.

  (* evaluation of generalised sentences through a membership function *)
  Lemma aev_wrapneg u ce (neg : bool) s :
    aev S M u ce ve0 (wrapneg neg s) = fval t (if neg then FUn Negation FId else FId) (aev S M u ce ve0 s).
  Proof. destruct neg; simpl; [apply a_un|reflexivity]. Qed.

  Definition gsel (isq univ : bool) : gen4 := if univ then s_gu S else s_ge S.

  (* the set of values a generalised sentence ranges over *)
  Definition inst_val (isq : bool) (u : aW S M) (ce : nat -> aD S M) (x : nat) (a : sent) (v : val) : Prop :=
    if isq then exists d, aev S M u ce (updg ve0 x d) a = v
    else exists u', aR S M u u' /\ aev S M u' ce ve0 a = v.

  Lemma aev_mkgen (isq univ : bool) u ce x a : (if isq then s_quant S else s_modal S) = true ->
    exists m : vset, (forall v, m v = true <-> inst_val isq u ce x a v) /\
                     aev S M u ce ve0 (mkgen isq univ x a) = gapp (gsel isq univ) m.
  Proof.
    intro Hf. unfold mkgen, inst_val, gsel. destruct isq.
    - destruct (a_qu S M Hf u ce ve0 (if univ then Universal else Existential) x a) as [m [Hm E]].
      exists m. split; [exact Hm|]. rewrite E. destruct univ; reflexivity.
    - destruct (a_mod S M Hf u ce ve0 (if univ then Necessity else Possibility) a) as [m [Hm E]].
      exists m. split; [exact Hm|]. rewrite E. destruct univ; reflexivity.
  Qed.

  Lemma inst_val_finst (isq : bool) u ce x a f v :
    inst_val isq u ce x (finst f a) v <-> exists v0, inst_val isq u ce x a v0 /\ fval t f v0 = v.
  Proof.
    unfold inst_val. destruct isq.
    - split.
      + intros [d Hd]. exists (aev S M u ce (updg ve0 x d) a). split; [exists d; reflexivity|].
        rewrite <- Hd. symmetry. apply aev_finst.
      + intros [v0 [[d Hd] Hv]]. exists d. rewrite aev_finst, Hd. exact Hv.
    - split.
      + intros [u' [Hu Hd]]. exists (aev S M u' ce ve0 a). split; [exists u'; auto|].
        rewrite <- Hd. symmetry. apply aev_finst.
      + intros [v0 [[u' [Hu Hd]] Hv]]. exists u'. split; [exact Hu|]. rewrite aev_finst, Hd. exact Hv.
  Qed.

  (* condP of the principal and of whole-sentence conditions, on the list of values present *)
  Lemma principal_condP_a u ce gr x a s d m :
    s = wrapneg (g_neg gr) (mkgen (g_isq gr) (g_univ gr) x a) -> d = g_d gr -> interp S s = true ->
    (forall v, m v = true <-> inst_val (g_isq gr) u ce x a v) ->
    t_des t (aev S M u ce ve0 s) = d ->
    condP t (s_ge S) (s_gu S) (vlist m) (gr_principal gr).
  Proof.
    intros Es Ed Hi Hm Hs. unfold gr_principal. cbn [condP]. unfold t, S in *. rewrite map_fval_id.
    subst s d. rewrite interp_wrapneg, interp_mkgen in Hi. apply andb_true_iff in Hi. destruct Hi as [Hq Hi].
    rewrite aev_wrapneg in Hs.
    destruct (aev_mkgen (g_isq gr) (g_univ gr) u ce x a Hq) as [m' [Hm' E]]. unfold t, S in *. rewrite E in Hs.
    rewrite (gapp_ext _ _ _ (vlist_mem m)). unfold gsel in *.
    rewrite (gapp_same (if g_univ gr then s_gu (fl_S L) else s_ge (fl_S L)) m m' _ Hm Hm'). exact Hs.
  Qed.

  Lemma cgen_node_a (isq : bool) (Hf : (if isq then s_quant S else s_modal S) = true) u ce x a m univ' f outer d' :
    (forall v, m v = true <-> inst_val isq u ce x a v) ->
    condP t (s_ge S) (s_gu S) (vlist m) (CGen univ' f outer d') ->
    t_des t (aev S M u ce ve0 (finst outer (mkgen isq univ' x (finst f a)))) = d'.
  Proof.
    intros Hm Hc. cbn [condP] in Hc. rewrite aev_finst.
    destruct (aev_mkgen isq univ' u ce x (finst f a) Hf) as [m' [Hm' E]]. unfold t, S in *. rewrite E.
    assert (G : gapp (gsel isq univ') m' = gapp (if univ' then s_gu (fl_S L) else s_ge (fl_S L))
                                               (mem_of (map (fval (s_t (fl_S L)) f) (vlist m)))).
    { unfold gsel. apply gapp_ext. intro v.
      destruct (m' v) eqn:E1, (mem_of (map (fval (s_t (fl_S L)) f) (vlist m)) v) eqn:E2; try reflexivity.
      - apply Hm' in E1. apply inst_val_finst in E1. destruct E1 as [v0 [Hv0 Hfv]].
        apply Hm in Hv0. apply vlist_In in Hv0.
        assert (In v (map (fval (s_t (fl_S L)) f) (vlist m))) by (apply in_map_iff; exists v0; auto).
        apply vmem_In in H. unfold mem_of in E2. congruence.
      - unfold mem_of in E2. apply vmem_In in E2. apply in_map_iff in E2. destruct E2 as [v0 [Hfv Hin]].
        apply vlist_In in Hin. apply Hm in Hin.
        assert (m' v = true) by (apply Hm'; apply inst_val_finst; exists v0; auto). congruence. }
    rewrite G. exact Hc.
  Qed.

  Lemma grule_ok_a gr : In gr (fl_grules L) ->
    q_sound t (s_ge S) (s_gu S) (g_isq gr) (gq gr) = None /\ wit_ok gr = true.
  Proof. apply (grule_ok L OK). Qed.

  Lemma vlist_vals (isq : bool) u ce x a m : (forall v, m v = true <-> inst_val isq u ce x a v) ->
    forall v, In v (vlist m) -> In v (t_vals t).
  Proof.
    intros Hm v Hv. apply vlist_In in Hv. apply Hm in Hv. unfold inst_val in Hv. destruct isq.
    - destruct Hv as [d <-]. apply a_vals.
    - destruct Hv as [u' [_ <-]]. apply a_vals.
  Qed.

  (* ---- quantifier witness ---- *)
  Lemma witC_a f ce b i c s d w gr x a :
    absat f ce b -> nth_error b i = Some (NS s d w) -> fresh_const c b = true ->
    find_grule true (fl_grules L) s d = Some (gr, (x, a)) -> g_isq gr = true ->
    interp S s = true -> nobind x a = true ->
    exists cg ce', In cg (q_groups (g_q gr)) /\ absat f ce' b /\
      absat f ce' (group_nodes true x a (subst x c a) w w cg).
  Proof.
    intros Hs Hn Hfr Hf Hq Hi Hnb.
    apply find_grule_spec in Hf. destruct Hf as [Hin [Htick Hg]]. apply gmatch_spec in Hg. destruct Hg as [Es Ed].
    assert (Hnode : In (NS s d w) b) by (eapply nth_error_In; eauto).
    pose proof (Hs _ Hnode) as Hsat. simpl in Hsat.
    assert (Hia : s_quant S = true /\ interp S a = true).
    { unfold S in *. rewrite Es, interp_wrapneg, interp_mkgen, Hq in Hi. apply andb_true_iff in Hi. exact Hi. }
    destruct Hia as [Hsq Hia].
    assert (Hflag : (if g_isq gr then s_quant S else s_modal S) = true) by (rewrite Hq; exact Hsq).
    destruct (aev_mkgen (g_isq gr) (g_univ gr) (f w) ce x a Hflag) as [m [Hm _]].
    pose proof (principal_condP_a (f w) ce gr x a s d m Es Ed Hi Hm Hsat) as Hp.
    destruct (grule_ok_a gr Hin) as [Hqs Hw]. rewrite Hq in Hqs, Hm.
    assert (Hne : true = true -> vlist m <> []).
    { intros _ E. assert (Hin0 : In (aev S M (f w) ce (updg ve0 x (a_inh S M)) a) (vlist m)).
      { apply vlist_In. apply Hm. exists (a_inh S M). reflexivity. }
      rewrite E in Hin0. contradiction. }
    pose proof (q_sound_lift t (s_ge S) (s_gu S) true (gq gr) Hqs _ (vlist_vals true (f w) ce x a m Hm) Hne Hp)
      as [cg [Hcg Hconds]].
    simpl in Hcg.
    assert (Hca : has_const c a = false).
    { unfold fresh_const in Hfr. rewrite forallb_forall in Hfr. specialize (Hfr _ Hnode). simpl in Hfr.
      apply negb_true_iff in Hfr. rewrite Es, has_const_wrapneg, has_const_mkgen in Hfr. exact Hfr. }
    assert (Hdd : exists dd : aD S M,
              forall cs, In (CEx cs) cg ->
                forall fd, In fd cs -> t_des t (fval t (fst fd) (aev S M (f w) ce (updg ve0 x dd) a)) = snd fd).
    { destruct (find is_ex cg) as [c1|] eqn:Efind.
      - apply List.find_some in Efind. destruct Efind as [Hc1 Hex]. destruct c1 as [cs1| |]; try discriminate.
        pose proof (Hconds _ Hc1) as Hc. simpl in Hc. destruct Hc as [v [Hv Hcs]].
        apply vlist_In in Hv. apply Hm in Hv. destruct Hv as [dd Ev].
        exists dd. intros cs Hcs' fd Hfd.
        unfold wit_ok in Hw. apply andb_true_iff in Hw. destruct Hw as [Hw _].
        rewrite forallb_forall in Hw. specialize (Hw cg Hcg). apply Nat.leb_le in Hw.
        assert (E : CEx cs = CEx cs1) by (apply (ex_unique cg); auto). injection E as ->.
        rewrite Ev. apply Hcs. exact Hfd.
      - exists (a_inh S M). intros cs Hcs'. exfalso. pose proof (find_none _ _ Efind _ Hcs') as Hx. discriminate. }
    destruct Hdd as [dd Hwit].
    exists cg, (updg ce c dd). split; [exact Hcg|]. split; [apply absat_fresh_const; assumption|].
    assert (Hinst : forall f0, aev S M (f w) (updg ce c dd) ve0 (finst f0 (subst x c a)) =
                               fval t f0 (aev S M (f w) ce (updg ve0 x dd) a)).
    { intro f0. rewrite aev_finst, asubst by assumption. f_equal.
      assert (E : updg ce c dd c = dd) by (unfold updg; rewrite Nat.eqb_refl; reflexivity).
      rewrite E. apply afresh. exact Hca. }
    intros n Hn'. unfold group_nodes in Hn'. apply in_flat_map in Hn'. destruct Hn' as [c0 [Hc0 Hn']].
    pose proof (Hconds _ Hc0) as Hc. destruct c0 as [cs|f0 d0|u f0 outer d0]; simpl in Hn'.
    - apply in_map_iff in Hn'. destruct Hn' as [fd [<- Hfd]]. simpl. rewrite Hinst. apply (Hwit cs Hc0 fd Hfd).
    - destruct Hn' as [<-|[]]. simpl. rewrite Hinst. simpl in Hc. apply Hc.
      apply vlist_In. apply Hm. exists dd. reflexivity.
    - destruct Hn' as [<-|[]]. simpl. rewrite afresh.
      + apply (cgen_node_a true Hsq (f w) ce x a m u f0 outer d0 Hm Hc).
      + apply has_const_finst_false. simpl. apply has_const_finst_false. exact Hca.
  Qed.

  (* ---- modal witness ---- *)
  Lemma witW_a f ce b i w' s d w gr x a :
    absat f ce b -> nth_error b i = Some (NS s d w) -> fresh_world w' b = true ->
    find_grule true (fl_grules L) s d = Some (gr, (x, a)) -> g_isq gr = false -> interp S s = true ->
    exists cg f', In cg (q_groups (g_q gr)) /\ absat f' ce b /\
      absat f' ce (acc_node w w' cg ++ group_nodes false x a a w w' cg).
  Proof.
    intros Hs Hn Hfr Hf Hq Hi.
    apply find_grule_spec in Hf. destruct Hf as [Hin [Htick Hg]]. apply gmatch_spec in Hg. destruct Hg as [Es Ed].
    assert (Hnode : In (NS s d w) b) by (eapply nth_error_In; eauto).
    pose proof (Hs _ Hnode) as Hsat. simpl in Hsat.
    assert (Hia : s_modal S = true /\ interp S a = true).
    { unfold S in *. rewrite Es, interp_wrapneg, interp_mkgen, Hq in Hi. apply andb_true_iff in Hi. exact Hi. }
    destruct Hia as [Hsm Hia].
    assert (Hflag : (if g_isq gr then s_quant S else s_modal S) = true) by (rewrite Hq; exact Hsm).
    destruct (aev_mkgen (g_isq gr) (g_univ gr) (f w) ce x a Hflag) as [m [Hm _]].
    pose proof (principal_condP_a (f w) ce gr x a s d m Es Ed Hi Hm Hsat) as Hp.
    destruct (grule_ok_a gr Hin) as [Hqs Hw]. rewrite Hq in Hqs, Hm.
    assert (Hne : false = true -> vlist m <> []) by discriminate.
    pose proof (q_sound_lift t (s_ge S) (s_gu S) false (gq gr) Hqs _ (vlist_vals false (f w) ce x a m Hm) Hne Hp)
      as [cg [Hcg Hconds]].
    simpl in Hcg.
    assert (Hww' : Nat.eqb w w' = false).
    { apply (on_branch_not_fresh w w' b); [|exact Hfr]. unfold on_branch_world. apply existsb_exists.
      exists (NS s d w). split; [exact Hnode|]. simpl. rewrite Nat.eqb_refl. reflexivity. }
    assert (Hu : exists u : aW S M, (existsb is_ex cg = true -> aR S M (f w) u) /\
              forall cs, In (CEx cs) cg ->
                forall fd, In fd cs -> t_des t (fval t (fst fd) (aev S M u ce ve0 a)) = snd fd).
    { destruct (find is_ex cg) as [c1|] eqn:Efind.
      - apply List.find_some in Efind. destruct Efind as [Hc1 Hex]. destruct c1 as [cs1| |]; try discriminate.
        pose proof (Hconds _ Hc1) as Hc. simpl in Hc. destruct Hc as [v [Hv Hcs]].
        apply vlist_In in Hv. apply Hm in Hv. destruct Hv as [u [Hu Ev]].
        exists u. split; [auto|]. intros cs Hcs' fd Hfd.
        unfold wit_ok in Hw. apply andb_true_iff in Hw. destruct Hw as [Hw _].
        rewrite forallb_forall in Hw. specialize (Hw cg Hcg). apply Nat.leb_le in Hw.
        assert (E : CEx cs = CEx cs1) by (apply (ex_unique cg); auto). injection E as ->.
        rewrite Ev. apply Hcs. exact Hfd.
      - exists (f w'). split.
        + intro Hex. apply existsb_exists in Hex. destruct Hex as [c0 [Hc0 He]].
          pose proof (find_none _ _ Efind _ Hc0) as Hx. congruence.
        + intros cs Hcs'. exfalso. pose proof (find_none _ _ Efind _ Hcs') as Hx. discriminate. }
    destruct Hu as [u [Hacc Hwit]].
    assert (Fs : updfw f w' u w' = u) by (unfold updfw; rewrite Nat.eqb_refl; reflexivity).
    assert (Fo : updfw f w' u w = f w) by (unfold updfw; rewrite Hww'; reflexivity).
    exists cg, (updfw f w' u). split; [exact Hcg|]. split; [apply absat_updfw; assumption|].
    intros n Hn'. apply in_app_or in Hn'. destruct Hn' as [Hn'|Hn'].
    - unfold acc_node in Hn'. destruct (existsb is_ex cg) eqn:Eex; [|contradiction].
      destruct Hn' as [<-|[]]. simpl. rewrite Fs, Fo. apply Hacc. reflexivity.
    - unfold group_nodes in Hn'. apply in_flat_map in Hn'. destruct Hn' as [c0 [Hc0 Hn']].
      pose proof (Hconds _ Hc0) as Hc. destruct c0 as [cs|f0 d0|u0 f0 outer d0]; simpl in Hn'.
      + apply in_map_iff in Hn'. destruct Hn' as [fd [<- Hfd]]. simpl. rewrite Fs, aev_finst.
        apply (Hwit cs Hc0 fd Hfd).
      + exfalso. unfold wit_ok in Hw. apply andb_true_iff in Hw. destruct Hw as [_ Hw].
        rewrite Htick in Hw. simpl in Hw. rewrite forallb_forall in Hw. specialize (Hw cg Hcg).
        rewrite forallb_forall in Hw. specialize (Hw _ Hc0). discriminate.
      + destruct Hn' as [<-|[]]. simpl. rewrite Fo.
        apply (cgen_node_a false Hsm (f w) ce x a m u0 f0 outer d0 Hm Hc).
  Qed.

  (* ---- per-instance steps ---- *)
  Lemma allC_a f ce b i c s d w gr x a f0 d0 :
    absat f ce b -> nth_error b i = Some (NS s d w) ->
    find_grule false (fl_grules L) s d = Some (gr, (x, a)) -> g_isq gr = true ->
    interp S s = true -> nobind x a = true -> q_groups (g_q gr) = [[CAll f0 d0]] ->
    asat f ce (NS (finst f0 (subst x c a)) d0 w).
  Proof.
    intros Hs Hn Hf Hq Hi Hnb Hgr.
    apply find_grule_spec in Hf. destruct Hf as [Hin [_ Hg]]. apply gmatch_spec in Hg. destruct Hg as [Es Ed].
    assert (Hnode : In (NS s d w) b) by (eapply nth_error_In; eauto).
    pose proof (Hs _ Hnode) as Hsat. simpl in Hsat.
    assert (Hia : s_quant S = true /\ interp S a = true).
    { unfold S in *. rewrite Es, interp_wrapneg, interp_mkgen, Hq in Hi. apply andb_true_iff in Hi. exact Hi. }
    destruct Hia as [Hsq Hia].
    assert (Hflag : (if g_isq gr then s_quant S else s_modal S) = true) by (rewrite Hq; exact Hsq).
    destruct (aev_mkgen (g_isq gr) (g_univ gr) (f w) ce x a Hflag) as [m [Hm _]].
    pose proof (principal_condP_a (f w) ce gr x a s d m Es Ed Hi Hm Hsat) as Hp.
    destruct (grule_ok_a gr Hin) as [Hqs _]. rewrite Hq in Hqs, Hm.
    assert (Hne : true = true -> vlist m <> []).
    { intros _ E. assert (Hin0 : In (aev S M (f w) ce (updg ve0 x (a_inh S M)) a) (vlist m)).
      { apply vlist_In. apply Hm. exists (a_inh S M). reflexivity. }
      rewrite E in Hin0. contradiction. }
    pose proof (q_sound_lift t (s_ge S) (s_gu S) true (gq gr) Hqs _ (vlist_vals true (f w) ce x a m Hm) Hne Hp)
      as [cg [Hcg Hconds]].
    simpl in Hcg. rewrite Hgr in Hcg. destruct Hcg as [<-|[]].
    specialize (Hconds _ (or_introl eq_refl)). simpl in Hconds.
    simpl. rewrite aev_finst, asubst by assumption. apply Hconds.
    apply vlist_In. apply Hm. exists (ce c). reflexivity.
  Qed.

  Lemma allW_a f ce b i j s d w w3 gr x a f0 d0 :
    absat f ce b -> nth_error b i = Some (NS s d w) -> nth_error b j = Some (NA w w3) ->
    find_grule false (fl_grules L) s d = Some (gr, (x, a)) -> g_isq gr = false ->
    interp S s = true -> q_groups (g_q gr) = [[CAll f0 d0]] ->
    asat f ce (NS (finst f0 a) d0 w3).
  Proof.
    intros Hs Hn Hj Hf Hq Hi Hgr.
    apply find_grule_spec in Hf. destruct Hf as [Hin [_ Hg]]. apply gmatch_spec in Hg. destruct Hg as [Es Ed].
    assert (Hnode : In (NS s d w) b) by (eapply nth_error_In; eauto).
    assert (Hacc : In (NA w w3) b) by (eapply nth_error_In; eauto).
    pose proof (Hs _ Hnode) as Hsat. simpl in Hsat. pose proof (Hs _ Hacc) as Ha. simpl in Ha.
    assert (Hia : s_modal S = true /\ interp S a = true).
    { unfold S in *. rewrite Es, interp_wrapneg, interp_mkgen, Hq in Hi. apply andb_true_iff in Hi. exact Hi. }
    destruct Hia as [Hsm Hia].
    assert (Hflag : (if g_isq gr then s_quant S else s_modal S) = true) by (rewrite Hq; exact Hsm).
    destruct (aev_mkgen (g_isq gr) (g_univ gr) (f w) ce x a Hflag) as [m [Hm _]].
    pose proof (principal_condP_a (f w) ce gr x a s d m Es Ed Hi Hm Hsat) as Hp.
    destruct (grule_ok_a gr Hin) as [Hqs _]. rewrite Hq in Hqs, Hm.
    assert (Hne : false = true -> vlist m <> []) by discriminate.
    pose proof (q_sound_lift t (s_ge S) (s_gu S) false (gq gr) Hqs _ (vlist_vals false (f w) ce x a m Hm) Hne Hp)
      as [cg [Hcg Hconds]].
    simpl in Hcg. rewrite Hgr in Hcg. destruct Hcg as [<-|[]].
    specialize (Hconds _ (or_introl eq_refl)). simpl in Hconds.
    simpl. rewrite aev_finst. apply Hconds. apply vlist_In. apply Hm. exists (f w3). auto.
  Qed.

  (* ---- classical identity ---- *)
  Lemma ident_args_map {A} (tv : term -> A) ta tb : tv ta = tv tb -> forall a a',
    ident_args ta tb a a' = true -> map tv a' = map tv a.
  Proof.
    intros E. induction a as [|x r IH]; intros [|x' r'] H; simpl in H; try discriminate; [reflexivity|].
    apply andb_true_iff in H. destruct H as [H1 H2]. simpl. rewrite (IH _ H2). f_equal.
    rewrite !orb_true_iff, !andb_true_iff in H1. destruct H1 as [[H1|[H1 H1']]|[H1 H1']];
      apply term_eqb_eq in H1; try apply term_eqb_eq in H1'; subst; auto.
  Qed.

  Lemma ident_a f ce b i j ta tb p args args' w : absat f ce b -> fl_classical L = true ->
    nth_error b i = Some (NS (Pred 0 [ta; tb]) true w) -> nth_error b j = Some (NS (Pred p args) true w) ->
    ident_args ta tb args args' = true ->
    asat f ce (NS (Pred p args') true w).
  Proof.
    intros Hs Hc Hi Hj Hia.
    pose proof (Hs _ (nth_error_In _ _ Hi)) as H1. pose proof (Hs _ (nth_error_In _ _ Hj)) as H2.
    simpl in H1, H2. rewrite a_pred in H1, H2.
    destruct (fo_classical _ OK Hc) as [HT [HF _]].
    pose (tvl := fun tm : term => match tm with TC c => ce c | TV x => ve0 x end).
    assert (H1' : t_des t (apred S M (f w) 0 [tvl ta; tvl tb]) = true) by exact H1.
    assert (H2' : t_des t (apred S M (f w) p (map tvl args)) = true) by exact H2.
    destruct (ao_ident M MO Hc (f w) (tvl ta) (tvl tb)) as [Hiff Hor].
    assert (E : tvl ta = tvl tb).
    { apply Hiff. destruct Hor as [Ho|Ho]; [exact Ho|]. rewrite Ho in H1'. unfold t, S in *. congruence. }
    simpl; rewrite a_pred.
    change (t_des t (apred S M (f w) p (map tvl args')) = true).
    rewrite (ident_args_map tvl ta tb E _ _ Hia). exact H2'.
  Qed.

  (* MAIN THEOREM: accepted + all leaves closed => no arbitrary structure satisfies the root *)
  Theorem gcheck_sound_a : forall t0 b tk,
    gcheck L t0 b tk = true -> gall_closed t0 = true -> des_ok (fl_hd L) b ->
    forall f ce, ~ absat f ce b.
  Proof.
    intro t0. induction t0 as [| |st gs ts IH] using gtree_ind'; intros b tk Hck Hac Hdo f ce Hs.
    - simpl in Hck. eapply aclosed_unsat; eauto.
    - discriminate.
    - simpl in Hck, Hac. apply andb_true_iff in Hck. destruct Hck as [Hdes Hck].
      rewrite Forall_forall in IH. rewrite forallb_forall in Hac.
      assert (Fin : forall t' g tk' f' ce', In t' ts -> In g gs -> gcheck L t' (b ++ g) tk' = true ->
                 absat f' ce' b -> absat f' ce' g -> False).
      { intros t' g tk' f' ce' Ht Hg Hck' Hb Hgsat.
        apply (IH t' Ht (b ++ g) tk' Hck' (Hac t' Ht) (des_ok_group L b gs g Hdo Hdes Hg) f' ce').
        apply absat_app. auto. }
      destruct st as [i|w|i j|i|w w'|i w'|i j|i c|i c|i j].
      + apply andb_true_iff in Hck. destruct Hck as [_ Hck].
        destruct (nth_error b i) as [[s d w|]|] eqn:En; try discriminate.
        destruct (find_rule (fl_rules L) s d) as [[r p]|] eqn:Ef; [|discriminate].
        apply andb_true_iff in Hck. destruct Hck as [Hg Hall]. apply groups_eqb_eq in Hg.
        apply find_rule_spec in Ef. destruct Ef as [Hr Hmr]. apply match_rule_spec in Hmr. destruct Hmr as [Es Ed].
        pose proof (Hs _ (nth_error_In _ _ En)) as Hsat. simpl in Hsat.
        pose proof (fo_two _ OK) as H2. rewrite forallb_forall in H2. specialize (H2 r Hr).
        pose proof (fo_rules _ OK) as H3. rewrite forallb_forall in H3. specialize (H3 r Hr). apply is_none_true in H3.
        assert (Hns : node_sat t (aev S M (f w) ce ve0) (inst (ops_of p) (ns_s (r_principal r))) (ns_d (r_principal r)) = true).
        { unfold node_sat. rewrite <- Es, <- Ed. unfold t, S in *. rewrite Hsat. apply Bool.eqb_reflx. }
        pose proof (tf_sound_lift _ _ H2 H3 (aev S M (f w) ce ve0) (ops_of p) (acomp (f w) ce) Hns) as Hext.
        apply (inst_ext_sat_groups t (fun w0 => aev S M (f w0) ce ve0) r p w) in Hext. destruct Hext as [g [Hg' Hgs]].
        rewrite <- Hg in Hg'. destruct (all2_pick _ ts gs g Hall Hg') as [t' [Ht' Hck']].
        apply (Fin t' g (i :: tk) f ce Ht' Hg' Hck' Hs).
        intros n Hn. specialize (Hgs n Hn). destruct n; simpl in *; auto.
        rewrite Hg in Hg'. unfold inst_groups in Hg'. apply in_map_iff in Hg'. destruct Hg' as [g0 [<- _]].
        unfold inst_group in Hn. apply in_map_iff in Hn. destruct Hn as [m0 [Hm0 _]]. discriminate.
      + rewrite !andb_true_iff in Hck. destruct Hck as [[[Hr Hon] Hg] Hall]. apply groups_eqb_eq in Hg. subst gs.
        destruct (all2_single _ ts _ Hall) as [t' [-> Hck']].
        apply (Fin t' [NA w w] tk f ce (or_introl eq_refl) (or_introl eq_refl) Hck' Hs).
        intros n [<-|[]]. simpl. apply (ao_refl M MO Hr).
      + apply andb_true_iff in Hck. destruct Hck as [Htr Hck].
        destruct (nth_error b i) as [[|w1 w2]|] eqn:Ei; try discriminate.
        destruct (nth_error b j) as [[|w2' w3]|] eqn:Ej; try discriminate.
        rewrite !andb_true_iff in Hck. destruct Hck as [[Hw Hg] Hall]. apply Nat.eqb_eq in Hw. subst w2'.
        apply groups_eqb_eq in Hg. subst gs.
        destruct (all2_single _ ts _ Hall) as [t' [-> Hck']].
        apply (Fin t' [NA w1 w3] tk f ce (or_introl eq_refl) (or_introl eq_refl) Hck' Hs).
        intros n [<-|[]]. simpl.
        apply (ao_trans M MO Htr _ (f w2)); [exact (Hs _ (nth_error_In _ _ Ei))|exact (Hs _ (nth_error_In _ _ Ej))].
      + apply andb_true_iff in Hck. destruct Hck as [Hsy Hck].
        destruct (nth_error b i) as [[|w1 w2]|] eqn:Ei; try discriminate.
        apply andb_true_iff in Hck. destruct Hck as [Hg Hall]. apply groups_eqb_eq in Hg. subst gs.
        destruct (all2_single _ ts _ Hall) as [t' [-> Hck']].
        apply (Fin t' [NA w2 w1] tk f ce (or_introl eq_refl) (or_introl eq_refl) Hck' Hs).
        intros n [<-|[]]. simpl. apply (ao_sym M MO Hsy). exact (Hs _ (nth_error_In _ _ Ei)).
      + rewrite !andb_true_iff in Hck. destruct Hck as [[[[Hser Hon] Hfr] Hg] Hall]. apply groups_eqb_eq in Hg. subst gs.
        destruct (all2_single _ ts _ Hall) as [t' [-> Hck']].
        destruct (ao_serial M MO Hser (f w)) as [v Hv].
        apply (Fin t' [NA w w'] tk (updfw f w' v) ce (or_introl eq_refl) (or_introl eq_refl) Hck'
                 (absat_updfw f ce w' v b Hfr Hs)).
        intros n [<-|[]]. simpl. unfold updfw. rewrite Nat.eqb_refl.
        rewrite (on_branch_not_fresh w w' b Hon Hfr). exact Hv.
      + rewrite !andb_true_iff in Hck. destruct Hck as [[_ Hfr] Hck].
        destruct (nth_error b i) as [[s d w|]|] eqn:En; try discriminate.
        destruct (find_grule true (fl_grules L) s d) as [[gr [x a]]|] eqn:Ef; [|discriminate].
        rewrite !andb_true_iff in Hck. destruct Hck as [[Hq Hi] Hall]. apply negb_true_iff in Hq.
        destruct (witW_a f ce b i w' s d w gr x a Hs En Hfr Ef Hq Hi) as [cg [f' [Hcg [Hb' Hexp]]]].
        destruct (all3_pick _ ts gs _ cg Hall Hcg) as [t' [g [Ht' [Hg HF]]]].
        apply andb_true_iff in HF. destruct HF as [Hsub Hck'].
        apply (Fin t' g (i :: tk) f' ce Ht' Hg Hck' Hb').
        intros n Hn. rewrite forallb_forall in Hsub. specialize (Hsub n Hn). apply has_In in Hsub. apply Hexp. exact Hsub.
      + destruct (nth_error b i) as [[s d w|]|] eqn:En; try discriminate.
        destruct (nth_error b j) as [[|w1 w3]|] eqn:Ej; try discriminate.
        apply andb_true_iff in Hck. destruct Hck as [Hw Hck]. apply Nat.eqb_eq in Hw. subst w1.
        destruct (find_grule false (fl_grules L) s d) as [[gr [x a]]|] eqn:Ef; [|discriminate].
        rewrite !andb_true_iff in Hck. destruct Hck as [[Hq Hi] Hck]. apply negb_true_iff in Hq.
        destruct (q_groups (g_q gr)) as [|[|[|f0 d0|] [|]] [|]] eqn:Egr; try discriminate.
        apply andb_true_iff in Hck. destruct Hck as [Hg Hall]. apply groups_eqb_eq in Hg. subst gs.
        destruct (all2_single _ ts _ Hall) as [t' [-> Hck']].
        apply (Fin t' [NS (finst f0 a) d0 w3] tk f ce (or_introl eq_refl) (or_introl eq_refl) Hck' Hs).
        intros n [<-|[]]. eapply allW_a; eauto.
      + rewrite !andb_true_iff in Hck. destruct Hck as [[_ Hfr] Hck].
        destruct (nth_error b i) as [[s d w|]|] eqn:En; try discriminate.
        destruct (find_grule true (fl_grules L) s d) as [[gr [x a]]|] eqn:Ef; [|discriminate].
        rewrite !andb_true_iff in Hck. destruct Hck as [[[Hq Hi] Hnb] Hall].
        destruct (witC_a f ce b i c s d w gr x a Hs En Hfr Ef Hq Hi Hnb) as [cg [ce' [Hcg [Hb' Hexp]]]].
        destruct (all3_pick _ ts gs _ cg Hall Hcg) as [t' [g [Ht' [Hg HF]]]].
        apply andb_true_iff in HF. destruct HF as [Hsub Hck'].
        apply (Fin t' g (i :: tk) f ce' Ht' Hg Hck' Hb').
        intros n Hn. rewrite forallb_forall in Hsub. specialize (Hsub n Hn). apply has_In in Hsub. apply Hexp. exact Hsub.
      + destruct (nth_error b i) as [[s d w|]|] eqn:En; try discriminate.
        destruct (find_grule false (fl_grules L) s d) as [[gr [x a]]|] eqn:Ef; [|discriminate].
        rewrite !andb_true_iff in Hck. destruct Hck as [[[Hq Hi] Hnb] Hck].
        destruct (q_groups (g_q gr)) as [|[|[|f0 d0|] [|]] [|]] eqn:Egr; try discriminate.
        apply andb_true_iff in Hck. destruct Hck as [Hg Hall]. apply groups_eqb_eq in Hg. subst gs.
        destruct (all2_single _ ts _ Hall) as [t' [-> Hck']].
        apply (Fin t' [NS (finst f0 (subst x c a)) d0 w] tk f ce (or_introl eq_refl) (or_introl eq_refl) Hck' Hs).
        intros n [<-|[]]. eapply allC_a; eauto.
      + apply andb_true_iff in Hck. destruct Hck as [Hcl Hck].
        destruct (nth_error b i) as [[s1 d1 w1|]|] eqn:Ei; try discriminate.
        destruct s1 as [|p1 ts1| | | |]; try discriminate. destruct p1 as [|p1]; try discriminate.
        destruct ts1 as [|ta [|tb [|]]]; try discriminate. destruct d1; try discriminate.
        destruct (nth_error b j) as [[s2 d2 w2|]|] eqn:Ej; try discriminate.
        destruct s2 as [|p args| | | |]; try discriminate. destruct d2; try discriminate.
        rewrite !andb_true_iff in Hck. destruct Hck as [[Hw Hg] Hall]. apply Nat.eqb_eq in Hw. subst w2.
        destruct Hg as [Hia Hg]. remember (ident_new gs) as args' eqn:Ea. apply groups_eqb_eq in Hg. subst gs.
        pose proof (ident_a f ce b i j ta tb p args args' w1 Hs Hcl Ei Ej Hia) as I1.
        destruct (all2_single _ ts _ Hall) as [t' [-> Hck']].
        apply (Fin t' _ tk f ce (or_introl eq_refl) (or_introl eq_refl) Hck' Hs). intros n [<-|[]]. exact I1.
  Qed.
  End WithModel.
End AS.

(* ---- argument level, arbitrary structures ---- *)
Definition acountermodel (S : sem) (M : amodel S) (u : aW S M) (ce : nat -> aD S M)
  (prems : list sent) (concl : sent) : Prop :=
  (forall p, In p prems -> t_des (s_t S) (aev S M u ce (fun _ => a_inh S M) p) = true) /\
  t_des (s_t S) (aev S M u ce (fun _ => a_inh S M) concl) = false.

Theorem argument_sound_a L : fsound_ok L -> (fl_hd L = false -> neg_flips_t (s_t (fl_S L)) = true) ->
  forall t prems concl,
    gcheck L t (trunk (fl_hd L) 0 prems concl) [] = true -> gall_closed t = true ->
    forall (M : amodel (fl_S L)), amodel_ok L M -> forall u ce, ~ acountermodel (fl_S L) M u ce prems concl.
Proof.
  intros OK Hneg t prems concl Hck Hac M Hm u ce [Hp Hc].
  apply (gcheck_sound_a L OK M Hm t _ [] Hck Hac (PropDecide.trunk_des_ok _ _ _ _) (fun _ => u) ce).
  intros n Hn. unfold trunk in Hn. apply in_app_or in Hn. destruct Hn as [Hn|Hn].
  - apply in_map_iff in Hn. destruct Hn as [p [<- Hin]]. simpl. apply Hp. exact Hin.
  - destruct Hn as [<-|[]]. destruct (fl_hd L) eqn:Eh; simpl; [exact Hc|].
    specialize (Hneg eq_refl). unfold neg_flips_t in Hneg. rewrite forallb_forall in Hneg.
    rewrite a_un. specialize (Hneg _ (a_vals (fl_S L) M u ce (fun _ => a_inh (fl_S L) M) concl)).
    apply Bool.eqb_prop in Hneg. rewrite Hneg, Hc. reflexivity.
Qed.

(* premises as a set; adding premises *)
Lemma acountermodel_set S M u ce prems prems' concl :
  (forall p, In p prems' -> In p prems) ->
  acountermodel S M u ce prems concl -> acountermodel S M u ce prems' concl.
Proof. intros H [Hp Hc]. split; [|exact Hc]. intros p Hp'. apply Hp. apply H. exact Hp'. Qed.


(* C09 / C10 over arbitrary structures: premises as a set, added premises *)
Theorem no_conflict_a L : fsound_ok L -> (fl_hd L = false -> neg_flips_t (s_t (fl_S L)) = true) ->
  forall t prems concl prems',
    gcheck L t (trunk (fl_hd L) 0 prems concl) [] = true -> gall_closed t = true ->
    (forall p, In p prems -> In p prems') ->
    forall (M : amodel (fl_S L)), amodel_ok L M -> forall u ce, ~ acountermodel (fl_S L) M u ce prems' concl.
Proof.
  intros OK Hn t prems concl prems' Hck Hac Hsub M Hm u ce Hcm.
  apply (argument_sound_a L OK Hn t prems concl Hck Hac M Hm u ce).
  apply (acountermodel_set _ _ _ _ prems'); assumption.
Qed.
