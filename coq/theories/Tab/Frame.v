(* C04, frame-rule clause: saturating a set of access pairs under the
   reflexive / transitive / symmetric rules yields exactly the closure the frame
   condition requires - for every finite set of pairs and worlds. *)
From Coq Require Import List Bool Arith.
From PT Require Import Util.Finite.
Import ListNotations.

Record fflags := { f_refl : bool; f_trans : bool; f_sym : bool }.
Definition pair := (nat * nat)%type.

Definition pair_eqb (p q : pair) : bool := Nat.eqb (fst p) (fst q) && Nat.eqb (snd p) (snd q).
Lemma pair_eqb_eq p q : pair_eqb p q = true <-> p = q.
Proof.
  destruct p as [a b], q as [c d]. unfold pair_eqb. simpl. rewrite andb_true_iff, !Nat.eqb_eq.
  split; [intros [-> ->]; reflexivity | intro H; injection H; auto].
Qed.
Definition pmem (p : pair) (Q : list pair) : bool := existsb (pair_eqb p) Q.
Lemma pmem_In p Q : pmem p Q = true <-> In p Q.
Proof.
  unfold pmem. rewrite existsb_exists. split.
  - intros [x [Hx E]]. apply pair_eqb_eq in E. subst. exact Hx.
  - intro H. exists p. split; [exact H|]. apply pair_eqb_eq. reflexivity.
Qed.
Definition wmem (w : nat) (W : list nat) : bool := existsb (Nat.eqb w) W.
Lemma wmem_In w W : wmem w W = true <-> In w W.
Proof.
  unfold wmem. rewrite existsb_exists. split.
  - intros [x [Hx E]]. apply Nat.eqb_eq in E. subst. exact Hx.
  - intro H. exists w. split; [exact H|]. apply Nat.eqb_refl.
Qed.

(* the closure required by the frame condition, on the worlds W of the branch *)
Inductive clos (F : fflags) (W : list nat) (P : list pair) : nat -> nat -> Prop :=
| cl_base a b : In (a, b) P -> clos F W P a b
| cl_refl w : f_refl F = true -> In w W -> clos F W P w w
| cl_trans a b c : f_trans F = true -> clos F W P a b -> clos F W P b c -> clos F W P a c
| cl_sym a b : f_sym F = true -> clos F W P a b -> clos F W P b a.

(* one application of a frame rule to the current pairs Q *)
Definition legal_step (F : fflags) (W : list nat) (Q : list pair) (p : pair) : bool :=
  (f_refl F && Nat.eqb (fst p) (snd p) && wmem (fst p) W) ||
  (f_trans F && existsb (fun q => Nat.eqb (fst q) (fst p) && pmem (snd q, snd p) Q) Q) ||
  (f_sym F && pmem (snd p, fst p) Q).

Fixpoint run_steps (F : fflags) (W : list nat) (Q : list pair) (steps : list pair) : option (list pair) :=
  match steps with
  | [] => Some Q
  | p :: r => if legal_step F W Q p then run_steps F W (Q ++ [p]) r else None
  end.

Definition saturated (F : fflags) (W : list nat) (Q : list pair) : bool :=
  (negb (f_refl F) || forallb (fun w => pmem (w, w) Q) W) &&
  (negb (f_trans F) || forallb (fun p => forallb (fun q =>
        negb (Nat.eqb (snd p) (fst q)) || pmem (fst p, snd q) Q) Q) Q) &&
  (negb (f_sym F) || forallb (fun p => pmem (snd p, fst p) Q) Q).

Lemma legal_step_clos F W P Q p :
  (forall a b, In (a, b) Q -> clos F W P a b) -> legal_step F W Q p = true -> clos F W P (fst p) (snd p).
Proof.
  intros HQ H. unfold legal_step in H. destruct p as [a c]. simpl in *.
  apply orb_true_iff in H. destruct H as [H|H]; [apply orb_true_iff in H; destruct H as [H|H]|].
  - rewrite !andb_true_iff in H. destruct H as [[Hr He] Hw]. apply Nat.eqb_eq in He. subst c.
    apply cl_refl; [exact Hr|]. apply wmem_In. exact Hw.
  - apply andb_true_iff in H. destruct H as [Ht H]. apply existsb_exists in H. destruct H as [[a' b] [Hq H]].
    simpl in H. apply andb_true_iff in H. destruct H as [Ha Hb]. apply Nat.eqb_eq in Ha. subst a'.
    apply pmem_In in Hb. apply (cl_trans F W P a b c Ht); apply HQ; assumption.
  - apply andb_true_iff in H. destruct H as [Hs H]. apply pmem_In in H. apply cl_sym; [exact Hs|]. apply HQ. exact H.
Qed.

Lemma run_steps_sound F W P : forall steps Q Q',
  (forall a b, In (a, b) Q -> clos F W P a b) -> run_steps F W Q steps = Some Q' ->
  (forall a b, In (a, b) Q' -> clos F W P a b) /\ (forall p, In p Q -> In p Q').
Proof.
  induction steps as [|p r IH]; intros Q Q' HQ H; simpl in H.
  - injection H as <-. auto.
  - destruct (legal_step F W Q p) eqn:E; [|discriminate].
    assert (HQ' : forall a b, In (a, b) (Q ++ [p]) -> clos F W P a b).
    { intros a b Hin. apply in_app_or in Hin. destruct Hin as [Hin|[Ep|[]]]; [apply HQ; exact Hin|].
      subst p. apply (legal_step_clos F W P Q (a, b) HQ E). }
    destruct (IH (Q ++ [p]) Q' HQ' H) as [H1 H2]. split; [exact H1|].
    intros q Hq. apply H2. apply in_or_app. left. exact Hq.
Qed.

Lemma saturated_closed F W Q : saturated F W Q = true ->
  forall P, (forall p, In p P -> In p Q) -> forall a b, clos F W P a b -> In (a, b) Q.
Proof.
  unfold saturated. rewrite !andb_true_iff. intros [[Hr Ht] Hs] P Hsub a b Hc.
  induction Hc as [a b Hin|w Hf Hw|a b c Hf _ IH1 _ IH2|a b Hf _ IH].
  - apply Hsub. exact Hin.
  - rewrite Hf in Hr. simpl in Hr. rewrite forallb_forall in Hr. apply pmem_In. apply Hr. exact Hw.
  - rewrite Hf in Ht. simpl in Ht. rewrite forallb_forall in Ht. specialize (Ht _ IH1).
    rewrite forallb_forall in Ht. specialize (Ht _ IH2). simpl in Ht. rewrite Nat.eqb_refl in Ht. simpl in Ht.
    apply pmem_In. exact Ht.
  - rewrite Hf in Hs. simpl in Hs. rewrite forallb_forall in Hs. specialize (Hs _ IH). simpl in Hs.
    apply pmem_In. exact Hs.
Qed.

(* THE THEOREM: any saturated result of applying frame rules to P is exactly the closure of P *)
Theorem frame_saturation_is_closure F W P steps Q :
  run_steps F W P steps = Some Q -> saturated F W Q = true ->
  forall a b, In (a, b) Q <-> clos F W P a b.
Proof.
  intros Hrun Hsat a b.
  destruct (run_steps_sound F W P steps P Q (fun a b H => cl_base F W P a b H) Hrun) as [Hs Hsub].
  split; [apply Hs|]. apply (saturated_closed F W Q Hsat P Hsub).
Qed.

(* the closure has the documented shape *)
Lemma clos_reflexive F W P : f_refl F = true -> forall w, In w W -> clos F W P w w.
Proof. intros. apply cl_refl; assumption. Qed.
Lemma clos_transitive F W P : f_trans F = true -> forall a b c, clos F W P a b -> clos F W P b c -> clos F W P a c.
Proof. intros. eapply cl_trans; eauto. Qed.
Lemma clos_symmetric F W P : f_sym F = true -> forall a b, clos F W P a b -> clos F W P b a.
Proof. intros. apply cl_sym; assumption. Qed.
Lemma clos_least F W P (R : nat -> nat -> Prop) :
  (forall a b, In (a, b) P -> R a b) ->
  (f_refl F = true -> forall w, In w W -> R w w) ->
  (f_trans F = true -> forall a b c, R a b -> R b c -> R a c) ->
  (f_sym F = true -> forall a b, R a b -> R b a) ->
  forall a b, clos F W P a b -> R a b.
Proof. intros Hb Hr Ht Hs a b H. induction H; eauto. Qed.

Example frame_example :
  run_steps {| f_refl := true; f_trans := true; f_sym := false |} [0; 1; 2] [(0, 1); (1, 2)]
            [(0, 0); (1, 1); (2, 2); (0, 2)] = Some [(0, 1); (1, 2); (0, 0); (1, 1); (2, 2); (0, 2)] /\
  saturated {| f_refl := true; f_trans := true; f_sym := false |} [0; 1; 2]
            [(0, 1); (1, 2); (0, 0); (1, 1); (2, 2); (0, 2)] = true.
Proof. vm_compute. auto. Qed.
