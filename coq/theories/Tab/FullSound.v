(* Soundness of the general certificate checker: an accepted certificate all
   of whose leaves are closed has no satisfying interpretation among the finite
   constant-domain Kripke models of the logic's frame class. *)
From Coq Require Import List Bool Arith Lia.
From PT Require Tab.PropDecide.
From PT Require Import Util.Finite Sem.Values Sem.Lit Sem.Syntax Sem.Schema Sem.Gen Sem.Closure Sem.Model
  Tab.Node Tab.PropTab Tab.PropSound Tab.FullTab.
Import ListNotations.

Definition env0 : nat -> nat := fun _ => 0.

Definition isat (S : sem) (M : model) (f : nat -> nat) (n : node) : Prop :=
  match n with
  | NS s d w => t_des (s_t S) (eval S M (f w) env0 s) = d
  | NA w1 w2 => In (f w2) (acc M (f w1))
  end.
Definition ibsat S M f (b : list node) : Prop := forall n, In n b -> isat S M f n.
Definition fmap_ok (M : model) (f : nat -> nat) : Prop := forall w, In (f w) (m_worlds M).

Lemma ibsat_app S M f b g : ibsat S M f (b ++ g) <-> ibsat S M f b /\ ibsat S M f g.
Proof.
  unfold ibsat. split.
  - intro H. split; intros n Hn; apply H; apply in_or_app; auto.
  - intros [H1 H2] n Hn. apply in_app_or in Hn. destruct Hn; auto.
Qed.

Record model_ok (L : flogic) (M : model) : Prop := {
  mo_wf : model_wf (fl_S L) M;
  mo_refl : fl_refl L = true -> forall u, In u (m_worlds M) -> m_R M u u = true;
  mo_trans : fl_trans L = true -> forall u v z, m_R M u v = true -> m_R M v z = true -> m_R M u z = true;
  mo_sym : fl_sym L = true -> forall u v, m_R M u v = true -> m_R M v u = true;
  mo_serial : fl_serial L = true -> forall u, In u (m_worlds M) -> exists v, In v (acc M u);
  mo_ident : fl_classical L = true -> forall w d1 d2,
      m_pred M w 0 [d1; d2] = if Nat.eqb d1 d2 then VT else VF;
  mo_exist : fl_classical L = true -> forall w d, m_pred M w 1 [d] = VT }.

Definition gr_principal (gr : grule) : cond :=
  CGen (g_univ gr) FId (if g_neg gr then FUn Negation FId else FId) (g_d gr).
Definition gq (gr : grule) : qrule := {| q_principal := gr_principal gr; q_groups := q_groups (g_q gr) |}.

Definition is_all (c : cond) : bool := match c with CAll _ _ => true | _ => false end.
Definition wit_ok (gr : grule) : bool :=
  forallb (fun g => Nat.leb (length (filter is_ex g)) 1) (q_groups (g_q gr)) &&
  (negb (g_tick gr) || forallb (forallb (fun c => negb (is_all c))) (q_groups (g_q gr))).

Record fsound_ok (L : flogic) : Prop := {
  fo_two : forallb rule_two_opd (fl_rules L) = true;
  fo_rules : forallb (fun r => is_none (tf_sound (s_t (fl_S L)) r)) (fl_rules L) = true;
  fo_grules : forallb (fun gr => is_none (q_sound (s_t (fl_S L)) (s_ge (fl_S L)) (s_gu (fl_S L))
                                           (g_isq gr) (gq gr)) && wit_ok gr) (fl_grules L) = true;
  fo_clos : closure_sound (s_t (fl_S L)) (fl_hd L) (fl_ks L) = None;
  fo_ks : ks_ok (fl_hd L) (fl_ks L) = true;
  fo_closed : closed_ok (s_t (fl_S L)) = true;
  fo_gen : gen_closed (fl_S L) = true;
  fo_classical : fl_classical L = true ->
      t_des (s_t (fl_S L)) VT = true /\ t_des (s_t (fl_S L)) VF = false /\
      t_des (s_t (fl_S L)) (t_un (s_t (fl_S L)) Negation VT) = false }.

Section Sound.
  Variable L : flogic.
  Hypothesis OK : fsound_ok L.
  Let S := fl_S L.
  Let t := s_t S.

  Lemma eval_comp_at M u : model_ok L M -> compositional t (eval S M u env0).
  Proof.
    intro Hm. constructor.
    - reflexivity.
    - reflexivity.
    - intro s. apply eval_vals; [exact (fo_closed _ OK) | exact (fo_gen _ OK) | exact (mo_wf _ _ Hm)].
  Qed.

  Lemma iwcomp M f : model_ok L M -> wcomp t (fun w => eval S M (f w) env0).
  Proof. intros Hm w. apply eval_comp_at. exact Hm. Qed.

  Lemma ibsat_bsat M f b : ibsat S M f b -> bsat t (fun w => eval S M (f w) env0) b.
  Proof. intros H n Hn. specialize (H n Hn). destruct n; simpl in *; auto. Qed.

  (* closure *)
  Lemma gclosed_unsat M f b : model_ok L M -> des_ok (fl_hd L) b ->
    gclosed L b = true -> ibsat S M f b -> False.
  Proof.
    intros Hm Hdo Hc Hs. unfold gclosed in Hc. apply orb_true_iff in Hc. destruct Hc as [Hc|Hc].
    - eapply (closed_unsat t (fl_hd L) (fl_ks L) (fun w => eval S M (f w) env0) b);
        eauto using iwcomp, ibsat_bsat, fo_clos, fo_ks.
    - apply andb_true_iff in Hc. destruct Hc as [Hcl Hc]. apply existsb_exists in Hc.
      destruct Hc as [n [Hn Hsp]]. specialize (Hs n Hn).
      destruct (fo_classical _ OK Hcl) as [HT [HF HnT]].
      destruct n as [s d w|]; [|discriminate]. simpl in Hsp.
      destruct s as [| |o a| | |]; try discriminate. destruct o; try discriminate.
      destruct a as [|p ts| | | |]; try discriminate.
      destruct p as [|[|p]]; try discriminate.
      + destruct ts as [|t1 [|t2 [|]]]; try discriminate. destruct d; try discriminate.
        apply term_eqb_eq in Hsp. subst t2. simpl in Hs.
        rewrite (mo_ident _ _ Hm Hcl) in Hs. rewrite Nat.eqb_refl in Hs. unfold t, S in *. congruence.
      + destruct ts as [|t1 [|]]; try discriminate. destruct d; try discriminate. simpl in Hs.
        rewrite (mo_exist _ _ Hm Hcl) in Hs. unfold t, S in *. congruence.
  Qed.

  (* ---- matching generalising rules ---- *)
  Definition wrapneg (neg : bool) (s : sent) : sent := if neg then Un Negation s else s.

  Lemma gmatch_spec gr s d x a : gmatch gr s d = Some (x, a) ->
    s = wrapneg (g_neg gr) (mkgen (g_isq gr) (g_univ gr) x a) /\ d = g_d gr.
  Proof.
    unfold gmatch. destruct (Bool.eqb (g_d gr) d) eqn:Ed; [|discriminate].
    apply Bool.eqb_prop in Ed. intro H. split; [|auto].
    unfold strip_neg, wrapneg in *.
    assert (Hcore : forall s0, match s0 with
                    | Qu q x0 a0 => if g_isq gr && Bool.eqb (g_univ gr) (is_univ q) then Some (x0, a0) else None
                    | Mod o a0 => if negb (g_isq gr) && Bool.eqb (g_univ gr) (is_nec o) then Some (0, a0) else None
                    | _ => None end = Some (x, a) -> s0 = mkgen (g_isq gr) (g_univ gr) x a).
    { intros s0 H0. destruct s0 as [| | | |o a0|q x0 a0]; try discriminate.
      - destruct (g_isq gr) eqn:Eq; simpl in H0; [discriminate|].
        destruct (Bool.eqb (g_univ gr) (is_nec o)) eqn:Eu; [|discriminate].
        apply Bool.eqb_prop in Eu. injection H0 as <- <-. unfold mkgen. simpl. rewrite Eu.
        destruct o; reflexivity.
      - destruct (g_isq gr) eqn:Eq; simpl in H0; [|discriminate].
        destruct (Bool.eqb (g_univ gr) (is_univ q)) eqn:Eu; [|discriminate].
        apply Bool.eqb_prop in Eu. injection H0 as <- <-. unfold mkgen. simpl. rewrite Eu.
        destruct q; reflexivity. }
    destruct (g_neg gr).
    - destruct s as [| |o s1| | |]; try discriminate. destruct o; try discriminate.
      f_equal. apply Hcore. exact H.
    - apply Hcore. exact H.
  Qed.

  Lemma find_grule_spec tick rs s d gr p : find_grule tick rs s d = Some (gr, p) ->
    In gr rs /\ g_tick gr = tick /\ gmatch gr s d = Some p.
  Proof.
    induction rs as [|r rs IH]; simpl; [discriminate|].
    destruct (Bool.eqb (g_tick r) tick) eqn:Et.
    - destruct (gmatch r s d) eqn:Em.
      + intro H. injection H as <- <-. apply Bool.eqb_prop in Et. auto.
      + intro H. destruct (IH H) as [? [? ?]]. auto.
    - intro H. destruct (IH H) as [? [? ?]]. auto.
  Qed.

  Lemma has_const_finst_false c f a : has_const c a = false -> has_const c (finst f a) = false.
  Proof.
    intro H. induction f as [|o f IH|o f IHf g IHg]; simpl; auto.
    rewrite IHf, IHg. reflexivity.
  Qed.

  Lemma has_const_mkgen c isq univ x a : has_const c (mkgen isq univ x a) = has_const c a.
  Proof. unfold mkgen. destruct isq; reflexivity. Qed.

  Lemma has_const_wrapneg c neg s : has_const c (wrapneg neg s) = has_const c s.
  Proof. destruct neg; reflexivity. Qed.

  (* ---- changing the interpretation on fresh items ---- *)
  Lemma isat_set_const M f c dd n :
    match n with NS s _ _ => has_const c s = false | NA _ _ => True end ->
    isat S (set_const M c dd) f n <-> isat S M f n.
  Proof.
    destruct n as [s d w|w1 w2]; simpl; intro H.
    - rewrite eval_set_const by exact H. tauto.
    - tauto.
  Qed.

  Lemma ibsat_set_const M f c dd b : fresh_const c b = true ->
    ibsat S M f b -> ibsat S (set_const M c dd) f b.
  Proof.
    intros Hf Hs n Hn. unfold fresh_const in Hf. rewrite forallb_forall in Hf. specialize (Hf n Hn).
    apply isat_set_const; [|exact (Hs n Hn)].
    destruct n; [apply negb_true_iff in Hf; exact Hf | exact I].
  Qed.

  Definition updf (f : nat -> nat) (w u : nat) : nat -> nat := fun z => if Nat.eqb z w then u else f z.

  Lemma ibsat_updf M f w' u b : fresh_world w' b = true ->
    ibsat S M f b -> ibsat S M (updf f w' u) b.
  Proof.
    intros Hf Hs n Hn. unfold fresh_world in Hf. rewrite forallb_forall in Hf. specialize (Hf n Hn).
    apply negb_true_iff in Hf. specialize (Hs n Hn).
    destruct n as [s d w|w1 w2]; simpl in *; unfold updf.
    - rewrite orb_false_r in Hf. rewrite Nat.eqb_sym in Hf. rewrite Hf. exact Hs.
    - apply orb_false_iff in Hf. destruct Hf as [H1 H2]. rewrite orb_false_r in H2.
      rewrite Nat.eqb_sym in H1, H2. rewrite H1, H2. exact Hs.
  Qed.

  Lemma on_branch_not_fresh w w' b : on_branch_world w b = true -> fresh_world w' b = true -> Nat.eqb w w' = false.
  Proof.
    intros H1 H2. unfold on_branch_world in H1. apply existsb_exists in H1. destruct H1 as [n [Hn Hw]].
    unfold fresh_world in H2. rewrite forallb_forall in H2. specialize (H2 n Hn). apply negb_true_iff in H2.
    destruct (Nat.eqb w w') eqn:E; [|reflexivity]. apply Nat.eqb_eq in E. subst. congruence.
  Qed.

  (* ---- the value lists a generalised sentence ranges over ---- *)
  Definition vsQ (M : model) (u x : nat) (a : sent) : list val :=
    map (fun dd => eval S M u (upd env0 x dd) a) (m_dom M).
  Definition vsM (M : model) (u : nat) (a : sent) : list val :=
    map (fun v => eval S M v env0 a) (acc M u).

  Lemma map_fval_id vs : map (fval t FId) vs = vs.
  Proof. induction vs as [|v vs IH]; [reflexivity|]. change (v :: map (fval t FId) vs = v :: vs). rewrite IH. reflexivity. Qed.

  Lemma interp_wrapneg neg s : interp S (wrapneg neg s) = interp S s.
  Proof. destruct neg; reflexivity. Qed.

  Lemma eval_wrapneg M u env neg s :
    eval S M u env (wrapneg neg s) = fval t (if neg then FUn Negation FId else FId) (eval S M u env s).
  Proof. destruct neg; reflexivity. Qed.

  Lemma gen_sel_q (univ : bool) : (match (if univ then Universal else Existential) return gen4 with
                          | Existential => s_ge S | Universal => s_gu S end) = if univ then s_gu S else s_ge S.
  Proof. destruct univ; reflexivity. Qed.
  Lemma gen_sel_m (univ : bool) : (match (if univ then Necessity else Possibility) return gen4 with
                          | Possibility => s_ge S | Necessity => s_gu S end) = if univ then s_gu S else s_ge S.
  Proof. destruct univ; reflexivity. Qed.

  Lemma eval_mkgen_q M u env univ x b : s_quant S = true ->
    eval S M u env (mkgen true univ x b) =
    gapp (if univ then s_gu S else s_ge S) (mem_of (map (fun dd => eval S M u (upd env x dd) b) (m_dom M))).
  Proof. intro Hq. unfold mkgen. simpl. rewrite Hq, gen_sel_q. reflexivity. Qed.

  Lemma eval_mkgen_m M u env univ x b : s_modal S = true ->
    eval S M u env (mkgen false univ x b) =
    gapp (if univ then s_gu S else s_ge S) (mem_of (map (fun v => eval S M v env b) (acc M u))).
  Proof. intro Hq. unfold mkgen. simpl. rewrite Hq, gen_sel_m. reflexivity. Qed.

  Lemma interp_mkgen isq univ x b : interp S (mkgen isq univ x b) = (if isq then s_quant S else s_modal S) && interp S b.
  Proof. unfold mkgen. destruct isq; reflexivity. Qed.

  Lemma interp_finst f a : interp S a = true -> interp S (finst f a) = true.
  Proof. intro H. induction f as [|o f IH|o f IHf g IHg]; simpl; auto. rewrite IHf, IHg. reflexivity. Qed.

  Lemma nobind_finst x f a : nobind x a = true -> nobind x (finst f a) = true.
  Proof. intro H. induction f as [|o f IH|o f IHf g IHg]; simpl; auto. rewrite IHf, IHg. reflexivity. Qed.

  (* the principal node's condition *)
  Lemma principal_condP M u gr x a s d :
    s = wrapneg (g_neg gr) (mkgen (g_isq gr) (g_univ gr) x a) -> d = g_d gr -> interp S s = true ->
    t_des t (eval S M u env0 s) = d ->
    condP t (s_ge S) (s_gu S) (if g_isq gr then vsQ M u x a else vsM M u a) (gr_principal gr).
  Proof.
    intros Es Ed Hi Hs. unfold gr_principal. simpl. rewrite map_fval_id.
    subst s d. rewrite interp_wrapneg, interp_mkgen in Hi. apply andb_true_iff in Hi. destruct Hi as [Hq Hi].
    rewrite eval_wrapneg in Hs. destruct (g_isq gr).
    - rewrite (eval_mkgen_q _ _ _ _ _ _ Hq) in Hs. exact Hs.
    - rewrite (eval_mkgen_m _ _ _ _ _ _ Hq) in Hs. exact Hs.
  Qed.

  (* a whole generalised node of a group (CGen) is satisfied *)
  Lemma cgen_node_q M u x a univ' f outer d' : s_quant S = true ->
    condP t (s_ge S) (s_gu S) (vsQ M u x a) (CGen univ' f outer d') ->
    t_des t (eval S M u env0 (finst outer (mkgen true univ' x (finst f a)))) = d'.
  Proof.
    intros Hq Hc. simpl in Hc. rewrite eval_finst, (eval_mkgen_q _ _ _ _ _ _ Hq).
    unfold vsQ in Hc. rewrite map_map in Hc.
    erewrite map_ext; [exact Hc|]. intro dd. simpl. apply eval_finst.
  Qed.

  Lemma cgen_node_m M u x a univ' f outer d' : s_modal S = true ->
    condP t (s_ge S) (s_gu S) (vsM M u a) (CGen univ' f outer d') ->
    t_des t (eval S M u env0 (finst outer (mkgen false univ' x (finst f a)))) = d'.
  Proof.
    intros Hq Hc. simpl in Hc. rewrite eval_finst, (eval_mkgen_m _ _ _ _ _ _ Hq).
    unfold vsM in Hc. rewrite map_map in Hc.
    erewrite map_ext; [exact Hc|]. intro dd. simpl. apply eval_finst.
  Qed.

  Lemma ex_unique cg c1 c2 : length (filter is_ex cg) <= 1 -> In c1 cg -> In c2 cg ->
    is_ex c1 = true -> is_ex c2 = true -> c1 = c2.
  Proof.
    intros Hl H1 H2 E1 E2.
    assert (F1 : In c1 (filter is_ex cg)) by (apply filter_In; auto).
    assert (F2 : In c2 (filter is_ex cg)) by (apply filter_In; auto).
    destruct (filter is_ex cg) as [|y [|z r]]; simpl in *; try lia; try contradiction.
    destruct F1 as [<-|[]]. destruct F2 as [<-|[]]. reflexivity.
  Qed.

  Lemma set_const_model_ok M c dd : model_ok L M -> In dd (m_dom M) -> model_ok L (set_const M c dd).
  Proof.
    intros [H1 H2 H3 H4 H5 H6 H7] Hd. constructor; simpl; auto.
    apply set_const_wf; assumption.
  Qed.

  Lemma vals_of_eval M : model_ok L M -> forall s u env, In (eval S M u env s) (t_vals t).
  Proof.
    intros Hm s u env. apply eval_vals; [exact (fo_closed _ OK)|exact (fo_gen _ OK)|exact (mo_wf _ _ Hm)].
  Qed.

  Lemma grule_ok gr : In gr (fl_grules L) ->
    q_sound t (s_ge S) (s_gu S) (g_isq gr) (gq gr) = None /\ wit_ok gr = true.
  Proof.
    intro Hin. pose proof (fo_grules _ OK) as H. rewrite forallb_forall in H. specialize (H gr Hin).
    apply andb_true_iff in H. destruct H as [H1 H2]. apply is_none_true in H1. auto.
  Qed.

  (* ---- quantifier witness step ---- *)
  Lemma witC_step M f b i c s d w gr x a :
    model_ok L M -> ibsat S M f b -> nth_error b i = Some (NS s d w) -> fresh_const c b = true ->
    find_grule true (fl_grules L) s d = Some (gr, (x, a)) -> g_isq gr = true ->
    interp S s = true -> nobind x a = true ->
    exists cg M', In cg (q_groups (g_q gr)) /\ model_ok L M' /\ m_worlds M' = m_worlds M /\
      ibsat S M' f b /\ ibsat S M' f (group_nodes true x a (subst x c a) w w cg).
  Proof.
    intros Hm Hs Hn Hfr Hf Hq Hi Hnb.
    apply find_grule_spec in Hf. destruct Hf as [Hin [_ Hg]]. apply gmatch_spec in Hg. destruct Hg as [Es Ed].
    assert (Hnode : In (NS s d w) b) by (eapply nth_error_In; eauto).
    pose proof (Hs _ Hnode) as Hsat. simpl in Hsat.
    pose proof (principal_condP M (f w) gr x a s d Es Ed Hi Hsat) as Hp. rewrite Hq in Hp.
    destruct (grule_ok gr Hin) as [Hqs Hw]. rewrite Hq in Hqs.
    assert (Hvals : forall v, In v (vsQ M (f w) x a) -> In v (t_vals t)).
    { intros v Hv. unfold vsQ in Hv. apply in_map_iff in Hv. destruct Hv as [dd [<- _]]. apply vals_of_eval. exact Hm. }
    assert (Hne : true = true -> vsQ M (f w) x a <> []).
    { intros _ E. unfold vsQ in E. apply map_eq_nil in E. exact (wf_dom _ _ (mo_wf _ _ Hm) E). }
    pose proof (q_sound_lift t (s_ge S) (s_gu S) true (gq gr) Hqs _ Hvals Hne Hp) as [cg [Hcg Hconds]].
    simpl in Hcg.
    (* interpretation facts about s and a *)
    assert (Hia : s_quant S = true /\ interp S a = true).
    { rewrite Es, interp_wrapneg, interp_mkgen, Hq in Hi. apply andb_true_iff in Hi. exact Hi. }
    destruct Hia as [Hsq Hia].
    assert (Hca : has_const c a = false).
    { unfold fresh_const in Hfr. rewrite forallb_forall in Hfr. specialize (Hfr _ Hnode). simpl in Hfr.
      apply negb_true_iff in Hfr. rewrite Es, has_const_wrapneg, has_const_mkgen in Hfr. exact Hfr. }
    (* the witness element *)
    assert (Hdd : exists dd, In dd (m_dom M) /\
              forall cs, In (CEx cs) cg ->
                forall fd, In fd cs -> t_des t (fval t (fst fd) (eval S M (f w) (upd env0 x dd) a)) = snd fd).
    { destruct (find is_ex cg) as [c1|] eqn:Efind.
      - apply List.find_some in Efind. destruct Efind as [Hc1 Hex]. destruct c1 as [cs1| |]; try discriminate.
        pose proof (Hconds _ Hc1) as Hc. simpl in Hc. destruct Hc as [v [Hv Hcs]].
        unfold vsQ in Hv. apply in_map_iff in Hv. destruct Hv as [dd [Ev Hdd]].
        exists dd. split; [exact Hdd|]. intros cs Hcs' fd Hfd.
        unfold wit_ok in Hw. apply andb_true_iff in Hw. destruct Hw as [Hw _].
        rewrite forallb_forall in Hw. specialize (Hw cg Hcg). apply Nat.leb_le in Hw.
        assert (E : CEx cs = CEx cs1) by (apply (ex_unique cg); auto). injection E as ->.
        rewrite Ev. apply Hcs. exact Hfd.
      - exists (m_const M c). split; [apply (wf_const _ _ (mo_wf _ _ Hm))|].
        intros cs Hcs'. exfalso. pose proof (find_none _ _ Efind _ Hcs') as Hx. discriminate. }
    destruct Hdd as [dd [Hdd Hwit]].
    exists cg, (set_const M c dd). split; [exact Hcg|]. split; [apply set_const_model_ok; assumption|].
    split; [reflexivity|]. split; [apply ibsat_set_const; assumption|].
    (* the nodes of the group *)
    assert (Hinst : forall f0, eval S (set_const M c dd) (f w) env0 (finst f0 (subst x c a)) =
                               fval t f0 (eval S M (f w) (upd env0 x dd) a)).
    { intro f0. rewrite eval_finst. rewrite subst_eval by assumption. simpl. rewrite Nat.eqb_refl.
      rewrite eval_set_const by exact Hca. reflexivity. }
    intros n Hn'. unfold group_nodes in Hn'. apply in_flat_map in Hn'. destruct Hn' as [c0 [Hc0 Hn']].
    pose proof (Hconds _ Hc0) as Hc. destruct c0 as [cs|f0 d0|u f0 outer d0]; simpl in Hn'.
    - apply in_map_iff in Hn'. destruct Hn' as [fd [<- Hfd]]. simpl. rewrite Hinst. apply (Hwit cs Hc0 fd Hfd).
    - destruct Hn' as [<-|[]]. simpl. rewrite Hinst. simpl in Hc. apply Hc.
      unfold vsQ. apply in_map_iff. exists dd. auto.
    - destruct Hn' as [<-|[]]. simpl. rewrite eval_set_const.
      + apply cgen_node_q; assumption.
      + apply has_const_finst_false. simpl. apply has_const_finst_false. exact Hca.
  Qed.

  (* ---- modal witness step ---- *)
  Lemma updf_same f w' u : updf f w' u w' = u.
  Proof. unfold updf. rewrite Nat.eqb_refl. reflexivity. Qed.
  Lemma updf_other f w' u z : Nat.eqb z w' = false -> updf f w' u z = f z.
  Proof. unfold updf. intros ->. reflexivity. Qed.

  Lemma acc_in_worlds M u v : In v (acc M u) -> In v (m_worlds M).
  Proof. unfold acc. intro H. apply filter_In in H. tauto. Qed.

  Lemma witW_step M f b i w' s d w gr x a :
    model_ok L M -> fmap_ok M f -> ibsat S M f b -> nth_error b i = Some (NS s d w) ->
    fresh_world w' b = true ->
    find_grule true (fl_grules L) s d = Some (gr, (x, a)) -> g_isq gr = false ->
    interp S s = true ->
    exists cg f', In cg (q_groups (g_q gr)) /\ fmap_ok M f' /\ ibsat S M f' b /\
      ibsat S M f' (acc_node w w' cg ++ group_nodes false x a a w w' cg).
  Proof.
    intros Hm Hfm Hs Hn Hfr Hf Hq Hi.
    apply find_grule_spec in Hf. destruct Hf as [Hin [Htick Hg]]. apply gmatch_spec in Hg. destruct Hg as [Es Ed].
    assert (Hnode : In (NS s d w) b) by (eapply nth_error_In; eauto).
    pose proof (Hs _ Hnode) as Hsat. simpl in Hsat.
    pose proof (principal_condP M (f w) gr x a s d Es Ed Hi Hsat) as Hp. rewrite Hq in Hp.
    destruct (grule_ok gr Hin) as [Hqs Hw]. rewrite Hq in Hqs.
    assert (Hvals : forall v, In v (vsM M (f w) a) -> In v (t_vals t)).
    { intros v Hv. unfold vsM in Hv. apply in_map_iff in Hv. destruct Hv as [dd [<- _]]. apply vals_of_eval. exact Hm. }
    assert (Hne : false = true -> vsM M (f w) a <> []) by discriminate.
    pose proof (q_sound_lift t (s_ge S) (s_gu S) false (gq gr) Hqs _ Hvals Hne Hp) as [cg [Hcg Hconds]].
    simpl in Hcg.
    assert (Hia : s_modal S = true /\ interp S a = true).
    { rewrite Es, interp_wrapneg, interp_mkgen, Hq in Hi. apply andb_true_iff in Hi. exact Hi. }
    destruct Hia as [Hsm Hia].
    assert (Hww' : Nat.eqb w w' = false).
    { apply (on_branch_not_fresh w w' b); [|exact Hfr]. unfold on_branch_world. apply existsb_exists.
      exists (NS s d w). split; [exact Hnode|]. simpl. rewrite Nat.eqb_refl. reflexivity. }
    (* the witness world *)
    assert (Hu : exists u, In u (m_worlds M) /\ (existsb is_ex cg = true -> In u (acc M (f w))) /\
              forall cs, In (CEx cs) cg ->
                forall fd, In fd cs -> t_des t (fval t (fst fd) (eval S M u env0 a)) = snd fd).
    { destruct (find is_ex cg) as [c1|] eqn:Efind.
      - apply List.find_some in Efind. destruct Efind as [Hc1 Hex]. destruct c1 as [cs1| |]; try discriminate.
        pose proof (Hconds _ Hc1) as Hc. simpl in Hc. destruct Hc as [v [Hv Hcs]].
        unfold vsM in Hv. apply in_map_iff in Hv. destruct Hv as [u [Ev Hu]].
        exists u. split; [eapply acc_in_worlds; eauto|]. split; [auto|]. intros cs Hcs' fd Hfd.
        unfold wit_ok in Hw. apply andb_true_iff in Hw. destruct Hw as [Hw _].
        rewrite forallb_forall in Hw. specialize (Hw cg Hcg). apply Nat.leb_le in Hw.
        assert (E : CEx cs = CEx cs1) by (apply (ex_unique cg); auto). injection E as ->.
        rewrite Ev. apply Hcs. exact Hfd.
      - exists (f w'). split; [apply Hfm|]. split.
        + intro Hex. apply existsb_exists in Hex. destruct Hex as [c0 [Hc0 He]].
          pose proof (find_none _ _ Efind _ Hc0) as Hx. congruence.
        + intros cs Hcs'. exfalso. pose proof (find_none _ _ Efind _ Hcs') as Hx. discriminate. }
    destruct Hu as [u [Huw [Hacc Hwit]]].
    exists cg, (updf f w' u). split; [exact Hcg|]. split.
    { intro z. unfold updf. destruct (Nat.eqb z w'); [exact Huw|apply Hfm]. }
    split; [apply ibsat_updf; assumption|].
    intros n Hn'. apply in_app_or in Hn'. destruct Hn' as [Hn'|Hn'].
    - unfold acc_node in Hn'. destruct (existsb is_ex cg) eqn:Eex; [|contradiction].
      destruct Hn' as [<-|[]]. simpl. rewrite updf_same, updf_other by exact Hww'. apply Hacc. reflexivity.
    - unfold group_nodes in Hn'. apply in_flat_map in Hn'. destruct Hn' as [c0 [Hc0 Hn']].
      pose proof (Hconds _ Hc0) as Hc. destruct c0 as [cs|f0 d0|u0 f0 outer d0]; simpl in Hn'.
      + apply in_map_iff in Hn'. destruct Hn' as [fd [<- Hfd]]. simpl. rewrite updf_same, eval_finst.
        apply (Hwit cs Hc0 fd Hfd).
      + (* a witness rule has no per-instance condition *)
        exfalso. unfold wit_ok in Hw. apply andb_true_iff in Hw. destruct Hw as [_ Hw].
        rewrite Htick in Hw. simpl in Hw. rewrite forallb_forall in Hw. specialize (Hw cg Hcg).
        rewrite forallb_forall in Hw. specialize (Hw _ Hc0). discriminate.
      + destruct Hn' as [<-|[]]. simpl. rewrite updf_other by exact Hww'.
        apply (cgen_node_m M (f w) x a); assumption.
  Qed.

  (* ---- per-instance steps ---- *)
  Lemma allC_step M f b i c s d w gr x a f0 d0 :
    model_ok L M -> ibsat S M f b -> nth_error b i = Some (NS s d w) ->
    find_grule false (fl_grules L) s d = Some (gr, (x, a)) -> g_isq gr = true ->
    interp S s = true -> nobind x a = true -> q_groups (g_q gr) = [[CAll f0 d0]] ->
    isat S M f (NS (finst f0 (subst x c a)) d0 w).
  Proof.
    intros Hm Hs Hn Hf Hq Hi Hnb Hgr.
    apply find_grule_spec in Hf. destruct Hf as [Hin [_ Hg]]. apply gmatch_spec in Hg. destruct Hg as [Es Ed].
    assert (Hnode : In (NS s d w) b) by (eapply nth_error_In; eauto).
    pose proof (Hs _ Hnode) as Hsat. simpl in Hsat.
    pose proof (principal_condP M (f w) gr x a s d Es Ed Hi Hsat) as Hp. rewrite Hq in Hp.
    destruct (grule_ok gr Hin) as [Hqs _]. rewrite Hq in Hqs.
    assert (Hvals : forall v, In v (vsQ M (f w) x a) -> In v (t_vals t)).
    { intros v Hv. unfold vsQ in Hv. apply in_map_iff in Hv. destruct Hv as [dd [<- _]]. apply vals_of_eval. exact Hm. }
    assert (Hne : true = true -> vsQ M (f w) x a <> []).
    { intros _ E. unfold vsQ in E. apply map_eq_nil in E. exact (wf_dom _ _ (mo_wf _ _ Hm) E). }
    pose proof (q_sound_lift t (s_ge S) (s_gu S) true (gq gr) Hqs _ Hvals Hne Hp) as [cg [Hcg Hconds]].
    simpl in Hcg. rewrite Hgr in Hcg. destruct Hcg as [<-|[]].
    specialize (Hconds _ (or_introl eq_refl)). simpl in Hconds.
    assert (Hia : s_quant S = true /\ interp S a = true).
    { rewrite Es, interp_wrapneg, interp_mkgen, Hq in Hi. apply andb_true_iff in Hi. exact Hi. }
    destruct Hia as [_ Hia].
    simpl. rewrite eval_finst, subst_eval by assumption. apply Hconds.
    unfold vsQ. apply in_map_iff. exists (m_const M c). split; [reflexivity|]. apply (wf_const _ _ (mo_wf _ _ Hm)).
  Qed.

  Lemma allW_step M f b i j s d w w3 gr x a f0 d0 :
    model_ok L M -> ibsat S M f b -> nth_error b i = Some (NS s d w) -> nth_error b j = Some (NA w w3) ->
    find_grule false (fl_grules L) s d = Some (gr, (x, a)) -> g_isq gr = false ->
    interp S s = true -> q_groups (g_q gr) = [[CAll f0 d0]] ->
    isat S M f (NS (finst f0 a) d0 w3).
  Proof.
    intros Hm Hs Hn Hj Hf Hq Hi Hgr.
    apply find_grule_spec in Hf. destruct Hf as [Hin [_ Hg]]. apply gmatch_spec in Hg. destruct Hg as [Es Ed].
    assert (Hnode : In (NS s d w) b) by (eapply nth_error_In; eauto).
    assert (Hacc : In (NA w w3) b) by (eapply nth_error_In; eauto).
    pose proof (Hs _ Hnode) as Hsat. simpl in Hsat. pose proof (Hs _ Hacc) as Ha. simpl in Ha.
    pose proof (principal_condP M (f w) gr x a s d Es Ed Hi Hsat) as Hp. rewrite Hq in Hp.
    destruct (grule_ok gr Hin) as [Hqs _]. rewrite Hq in Hqs.
    assert (Hvals : forall v, In v (vsM M (f w) a) -> In v (t_vals t)).
    { intros v Hv. unfold vsM in Hv. apply in_map_iff in Hv. destruct Hv as [dd [<- _]]. apply vals_of_eval. exact Hm. }
    assert (Hne : false = true -> vsM M (f w) a <> []) by discriminate.
    pose proof (q_sound_lift t (s_ge S) (s_gu S) false (gq gr) Hqs _ Hvals Hne Hp) as [cg [Hcg Hconds]].
    simpl in Hcg. rewrite Hgr in Hcg. destruct Hcg as [<-|[]].
    specialize (Hconds _ (or_introl eq_refl)). simpl in Hconds.
    simpl. rewrite eval_finst. apply Hconds. unfold vsM. apply in_map_iff. exists (f w3). auto.
  Qed.

  (* ---- frame steps ---- *)
  Lemma acc_intro M u v : In v (m_worlds M) -> m_R M u v = true -> In v (acc M u).
  Proof. intros H1 H2. unfold acc. apply filter_In. auto. Qed.
  Lemma acc_elim M u v : In v (acc M u) -> In v (m_worlds M) /\ m_R M u v = true.
  Proof. unfold acc. intro H. apply filter_In in H. exact H. Qed.

  Lemma refl_step M f w : model_ok L M -> fmap_ok M f -> fl_refl L = true -> isat S M f (NA w w).
  Proof. intros Hm Hf Hr. simpl. apply acc_intro; [apply Hf|]. apply (mo_refl _ _ Hm Hr). apply Hf. Qed.

  Lemma trans_step M f b i j w1 w2 w3 : model_ok L M -> ibsat S M f b -> fl_trans L = true ->
    nth_error b i = Some (NA w1 w2) -> nth_error b j = Some (NA w2 w3) -> isat S M f (NA w1 w3).
  Proof.
    intros Hm Hs Ht Hi Hj. pose proof (Hs _ (nth_error_In _ _ Hi)) as H1. pose proof (Hs _ (nth_error_In _ _ Hj)) as H2.
    simpl in *. apply acc_elim in H1, H2. destruct H1 as [_ H1]. destruct H2 as [Hw H2].
    apply acc_intro; [exact Hw|]. eapply (mo_trans _ _ Hm Ht); eauto.
  Qed.

  Lemma sym_step M f b i w1 w2 : model_ok L M -> fmap_ok M f -> ibsat S M f b -> fl_sym L = true ->
    nth_error b i = Some (NA w1 w2) -> isat S M f (NA w2 w1).
  Proof.
    intros Hm Hf Hs Hy Hi. pose proof (Hs _ (nth_error_In _ _ Hi)) as H1. simpl in *.
    apply acc_elim in H1. destruct H1 as [_ H1]. apply acc_intro; [apply Hf|]. apply (mo_sym _ _ Hm Hy). exact H1.
  Qed.

  Lemma serial_step M f b w w' : model_ok L M -> fmap_ok M f -> ibsat S M f b -> fl_serial L = true ->
    on_branch_world w b = true -> fresh_world w' b = true ->
    exists f', fmap_ok M f' /\ ibsat S M f' b /\ isat S M f' (NA w w').
  Proof.
    intros Hm Hf Hs Hser Hon Hfr. destruct (mo_serial _ _ Hm Hser (f w) (Hf w)) as [v Hv].
    exists (updf f w' v). split; [|split].
    - intro z. unfold updf. destruct (Nat.eqb z w'); [eapply acc_in_worlds; eauto|apply Hf].
    - apply ibsat_updf; assumption.
    - simpl. rewrite updf_same, updf_other by (apply (on_branch_not_fresh w w' b); assumption). exact Hv.
  Qed.

  (* ---- classical identity ---- *)
  Lemma ident_args_tval (tv : term -> nat) ta tb : tv ta = tv tb -> forall a a',
    ident_args ta tb a a' = true -> map tv a' = map tv a.
  Proof.
    intros E. induction a as [|x r IH]; intros [|x' r'] H; simpl in H; try discriminate; [reflexivity|].
    apply andb_true_iff in H. destruct H as [H1 H2]. simpl. rewrite (IH _ H2). f_equal.
    rewrite !orb_true_iff, !andb_true_iff in H1. destruct H1 as [[H1|[H1 H1']]|[H1 H1']];
      apply term_eqb_eq in H1; try apply term_eqb_eq in H1'; subst; auto.
  Qed.

  Lemma ident_step M f b i j ta tb p args args' w : model_ok L M -> ibsat S M f b -> fl_classical L = true ->
    nth_error b i = Some (NS (Pred 0 [ta; tb]) true w) -> nth_error b j = Some (NS (Pred p args) true w) ->
    ident_args ta tb args args' = true ->
    isat S M f (NS (Pred p args') true w).
  Proof.
    intros Hm Hs Hc Hi Hj Hia.
    pose proof (Hs _ (nth_error_In _ _ Hi)) as H1. pose proof (Hs _ (nth_error_In _ _ Hj)) as H2.
    simpl in H1, H2. rewrite (mo_ident _ _ Hm Hc) in H1.
    destruct (fo_classical _ OK Hc) as [HT [HF _]].
    destruct (Nat.eqb (tval M env0 ta) (tval M env0 tb)) eqn:E; [|unfold t, S in *; congruence].
    apply Nat.eqb_eq in E.
    simpl. rewrite (ident_args_tval (tval M env0) ta tb E _ _ Hia). exact H2.
  Qed.

  (* ---- induction principle and child selection ---- *)
  Section GTreeInd.
    Variable P : gtree -> Prop.
    Hypothesis Hc : P GClosed.
    Hypothesis Ho : P GOpen.
    Hypothesis Hst : forall st gs ts, Forall P ts -> P (GStep st gs ts).
    Fixpoint gtree_ind' (t0 : gtree) : P t0 :=
      match t0 with
      | GClosed => Hc
      | GOpen => Ho
      | GStep st gs ts =>
          Hst st gs ts ((fix go (l : list gtree) : Forall P l :=
                           match l with
                           | [] => Forall_nil P
                           | x :: r => Forall_cons x (gtree_ind' x) (go r)
                           end) ts)
      end.
  End GTreeInd.

  Lemma all2_single {A B} (F : A -> B -> bool) ts g : all2 F ts [g] = true ->
    exists t', ts = [t'] /\ F t' g = true.
  Proof.
    destruct ts as [|t' [|x r]]; simpl; intro H; try discriminate.
    - exists t'. apply andb_true_iff in H. tauto.
    - apply andb_true_iff in H. destruct H. discriminate.
  Qed.

  Lemma all2_pick {A B} (F : A -> B -> bool) ts gs g : all2 F ts gs = true -> In g gs ->
    exists t', In t' ts /\ F t' g = true.
  Proof. intros H Hg. apply all2_Forall2 in H. apply (Forall2_in_r _ _ _ _ H Hg). Qed.

  Lemma all3_pick {A B C} (F : A -> B -> C -> bool) ts : forall gs cgs cg,
    all3 F ts gs cgs = true -> In cg cgs -> exists t' g, In t' ts /\ In g gs /\ F t' g cg = true.
  Proof.
    induction ts as [|t' ts IH]; intros gs cgs cg H Hcg; simpl in H.
    - destruct gs, cgs; try discriminate. contradiction.
    - destruct gs as [|g gs]; [discriminate|]. destruct cgs as [|c cgs]; [discriminate|].
      apply andb_true_iff in H. destruct H as [H1 H2]. destruct Hcg as [<-|Hcg].
      + exists t', g. simpl. auto.
      + destruct (IH gs cgs cg H2 Hcg) as [t'' [g' [Ht [Hg HF]]]]. exists t'', g'. simpl. auto.
  Qed.

  Lemma des_ok_group b gs g : des_ok (fl_hd L) b ->
    forallb (forallb (node_des_ok (fl_hd L))) gs = true -> In g gs -> des_ok (fl_hd L) (b ++ g).
  Proof.
    intros Hb Hgs Hg. apply des_ok_app; [exact Hb|]. rewrite forallb_forall in Hgs. apply Hgs. exact Hg.
  Qed.

  Lemma ibsat_sub M f g exp : forallb (has exp) g = true -> ibsat S M f exp -> ibsat S M f g.
  Proof.
    intros H Hs n Hn. rewrite forallb_forall in H. specialize (H n Hn). apply has_In in H. apply Hs. exact H.
  Qed.

  (* MAIN SOUNDNESS THEOREM for the general certificate checker *)
  Theorem gcheck_sound : forall t0 b tk,
    gcheck L t0 b tk = true -> gall_closed t0 = true -> des_ok (fl_hd L) b ->
    forall M f, model_ok L M -> fmap_ok M f -> ~ ibsat S M f b.
  Proof.
    intro t0. induction t0 as [| |st gs ts IH] using gtree_ind'; intros b tk Hck Hac Hdo M f Hm Hf Hs.
    - simpl in Hck. eapply gclosed_unsat; eauto.
    - discriminate.
    - simpl in Hck, Hac. apply andb_true_iff in Hck. destruct Hck as [Hdes Hck].
      rewrite Forall_forall in IH. rewrite forallb_forall in Hac.
      (* a common finisher: child t' with group g satisfied by (M', f') *)
      assert (Fin : forall t' g tk' M' f', In t' ts -> In g gs -> gcheck L t' (b ++ g) tk' = true ->
                 model_ok L M' -> fmap_ok M' f' -> ibsat S M' f' b -> ibsat S M' f' g -> False).
      { intros t' g tk' M' f' Ht Hg Hck' Hm' Hf' Hb Hgsat.
        apply (IH t' Ht (b ++ g) tk' Hck' (Hac t' Ht) (des_ok_group b gs g Hdo Hdes Hg) M' f' Hm' Hf').
        apply ibsat_app. auto. }
      destruct st as [i|w|i j|i|w w'|i w'|i j|i c|i c|i j].
      + (* truth-functional *)
        apply andb_true_iff in Hck. destruct Hck as [_ Hck].
        destruct (nth_error b i) as [[s d w|]|] eqn:En; try discriminate.
        destruct (find_rule (fl_rules L) s d) as [[r p]|] eqn:Ef; [|discriminate].
        apply andb_true_iff in Hck. destruct Hck as [Hg Hall]. apply groups_eqb_eq in Hg.
        apply find_rule_spec in Ef. destruct Ef as [Hr Hmr]. apply match_rule_spec in Hmr. destruct Hmr as [Es Ed].
        pose proof (Hs _ (nth_error_In _ _ En)) as Hsat. simpl in Hsat.
        pose proof (fo_two _ OK) as H2. rewrite forallb_forall in H2. specialize (H2 r Hr).
        pose proof (fo_rules _ OK) as H3. rewrite forallb_forall in H3. specialize (H3 r Hr). apply is_none_true in H3.
        assert (Hns : node_sat t (eval S M (f w) env0) (inst (ops_of p) (ns_s (r_principal r))) (ns_d (r_principal r)) = true).
        { unfold node_sat. rewrite <- Es, <- Ed. unfold t, S in *. rewrite Hsat. apply Bool.eqb_reflx. }
        pose proof (tf_sound_lift _ _ H2 H3 (eval S M (f w) env0) (ops_of p) (eval_comp_at M (f w) Hm) Hns) as Hext.
        apply (inst_ext_sat_groups t (fun w0 => eval S M (f w0) env0) r p w) in Hext. destruct Hext as [g [Hg' Hgs]].
        rewrite <- Hg in Hg'. destruct (all2_pick _ ts gs g Hall Hg') as [t' [Ht' Hck']].
        apply (Fin t' g (i :: tk) M f Ht' Hg' Hck' Hm Hf Hs).
        intros n Hn. specialize (Hgs n Hn). destruct n; simpl in *; auto.
        (* access nodes cannot occur in an instantiated group *)
        rewrite Hg in Hg'. unfold inst_groups in Hg'. apply in_map_iff in Hg'. destruct Hg' as [g0 [<- _]].
        unfold inst_group in Hn. apply in_map_iff in Hn. destruct Hn as [m [Hm0 _]]. discriminate.
      + (* reflexive *)
        rewrite !andb_true_iff in Hck. destruct Hck as [[[Hr Hon] Hg] Hall]. apply groups_eqb_eq in Hg. subst gs.
        destruct (all2_single _ ts _ Hall) as [t' [-> Hck']].
        apply (Fin t' [NA w w] tk M f (or_introl eq_refl) (or_introl eq_refl) Hck' Hm Hf Hs).
        intros n [<-|[]]. apply refl_step; assumption.
      + (* transitive *)
        apply andb_true_iff in Hck. destruct Hck as [Htr Hck].
        destruct (nth_error b i) as [[|w1 w2]|] eqn:Ei; try discriminate.
        destruct (nth_error b j) as [[|w2' w3]|] eqn:Ej; try discriminate.
        rewrite !andb_true_iff in Hck. destruct Hck as [[Hw Hg] Hall]. apply Nat.eqb_eq in Hw. subst w2'.
        apply groups_eqb_eq in Hg. subst gs.
        destruct (all2_single _ ts _ Hall) as [t' [-> Hck']].
        apply (Fin t' [NA w1 w3] tk M f (or_introl eq_refl) (or_introl eq_refl) Hck' Hm Hf Hs).
        intros n [<-|[]]. eapply trans_step; eauto.
      + (* symmetric *)
        apply andb_true_iff in Hck. destruct Hck as [Hsy Hck].
        destruct (nth_error b i) as [[|w1 w2]|] eqn:Ei; try discriminate.
        apply andb_true_iff in Hck. destruct Hck as [Hg Hall]. apply groups_eqb_eq in Hg. subst gs.
        destruct (all2_single _ ts _ Hall) as [t' [-> Hck']].
        apply (Fin t' [NA w2 w1] tk M f (or_introl eq_refl) (or_introl eq_refl) Hck' Hm Hf Hs).
        intros n [<-|[]]. eapply sym_step; eauto.
      + (* serial *)
        rewrite !andb_true_iff in Hck. destruct Hck as [[[[Hser Hon] Hfr] Hg] Hall]. apply groups_eqb_eq in Hg. subst gs.
        destruct (all2_single _ ts _ Hall) as [t' [-> Hck']].
        destruct (serial_step M f b w w' Hm Hf Hs Hser Hon Hfr) as [f' [Hf' [Hb' Hn']]].
        apply (Fin t' [NA w w'] tk M f' (or_introl eq_refl) (or_introl eq_refl) Hck' Hm Hf' Hb').
        intros n [<-|[]]. exact Hn'.
      + (* modal witness *)
        rewrite !andb_true_iff in Hck. destruct Hck as [[_ Hfr] Hck].
        destruct (nth_error b i) as [[s d w|]|] eqn:En; try discriminate.
        destruct (find_grule true (fl_grules L) s d) as [[gr [x a]]|] eqn:Ef; [|discriminate].
        rewrite !andb_true_iff in Hck. destruct Hck as [[Hq Hi] Hall]. apply negb_true_iff in Hq.
        destruct (witW_step M f b i w' s d w gr x a Hm Hf Hs En Hfr Ef Hq Hi) as [cg [f' [Hcg [Hf' [Hb' Hexp]]]]].
        destruct (all3_pick _ ts gs _ cg Hall Hcg) as [t' [g [Ht' [Hg HF]]]].
        apply andb_true_iff in HF. destruct HF as [Hsub Hck'].
        apply (Fin t' g (i :: tk) M f' Ht' Hg Hck' Hm Hf' Hb'). eapply ibsat_sub; eauto.
      + (* modal instance *)
        destruct (nth_error b i) as [[s d w|]|] eqn:En; try discriminate.
        destruct (nth_error b j) as [[|w1 w3]|] eqn:Ej; try discriminate.
        apply andb_true_iff in Hck. destruct Hck as [Hw Hck]. apply Nat.eqb_eq in Hw. subst w1.
        destruct (find_grule false (fl_grules L) s d) as [[gr [x a]]|] eqn:Ef; [|discriminate].
        rewrite !andb_true_iff in Hck. destruct Hck as [[Hq Hi] Hck]. apply negb_true_iff in Hq.
        destruct (q_groups (g_q gr)) as [|[|[|f0 d0|] [|]] [|]] eqn:Egr; try discriminate.
        apply andb_true_iff in Hck. destruct Hck as [Hg Hall]. apply groups_eqb_eq in Hg. subst gs.
        destruct (all2_single _ ts _ Hall) as [t' [-> Hck']].
        apply (Fin t' [NS (finst f0 a) d0 w3] tk M f (or_introl eq_refl) (or_introl eq_refl) Hck' Hm Hf Hs).
        intros n [<-|[]]. eapply allW_step; eauto.
      + (* quantifier witness *)
        rewrite !andb_true_iff in Hck. destruct Hck as [[_ Hfr] Hck].
        destruct (nth_error b i) as [[s d w|]|] eqn:En; try discriminate.
        destruct (find_grule true (fl_grules L) s d) as [[gr [x a]]|] eqn:Ef; [|discriminate].
        rewrite !andb_true_iff in Hck. destruct Hck as [[[Hq Hi] Hnb] Hall].
        destruct (witC_step M f b i c s d w gr x a Hm Hs En Hfr Ef Hq Hi Hnb) as [cg [M' [Hcg [Hm' [Hw' [Hb' Hexp]]]]]].
        destruct (all3_pick _ ts gs _ cg Hall Hcg) as [t' [g [Ht' [Hg HF]]]].
        apply andb_true_iff in HF. destruct HF as [Hsub Hck'].
        assert (Hf' : fmap_ok M' f) by (intro z; rewrite Hw'; apply Hf).
        apply (Fin t' g (i :: tk) M' f Ht' Hg Hck' Hm' Hf' Hb'). eapply ibsat_sub; eauto.
      + (* quantifier instance *)
        destruct (nth_error b i) as [[s d w|]|] eqn:En; try discriminate.
        destruct (find_grule false (fl_grules L) s d) as [[gr [x a]]|] eqn:Ef; [|discriminate].
        rewrite !andb_true_iff in Hck. destruct Hck as [[[Hq Hi] Hnb] Hck].
        destruct (q_groups (g_q gr)) as [|[|[|f0 d0|] [|]] [|]] eqn:Egr; try discriminate.
        apply andb_true_iff in Hck. destruct Hck as [Hg Hall]. apply groups_eqb_eq in Hg. subst gs.
        destruct (all2_single _ ts _ Hall) as [t' [-> Hck']].
        apply (Fin t' [NS (finst f0 (subst x c a)) d0 w] tk M f (or_introl eq_refl) (or_introl eq_refl) Hck' Hm Hf Hs).
        intros n [<-|[]]. eapply allC_step; eauto.
      + (* identity *)
        apply andb_true_iff in Hck. destruct Hck as [Hcl Hck].
        destruct (nth_error b i) as [[s1 d1 w1|]|] eqn:Ei; try discriminate.
        destruct s1 as [|p1 ts1| | | |]; try discriminate. destruct p1 as [|p1]; try discriminate.
        destruct ts1 as [|ta [|tb [|]]]; try discriminate. destruct d1; try discriminate.
        destruct (nth_error b j) as [[s2 d2 w2|]|] eqn:Ej; try discriminate.
        destruct s2 as [|p args| | | |]; try discriminate. destruct d2; try discriminate.
        rewrite !andb_true_iff in Hck. destruct Hck as [[Hw Hg] Hall]. apply Nat.eqb_eq in Hw. subst w2.
        destruct Hg as [Hia Hg]. remember (ident_new gs) as args' eqn:Ea. apply groups_eqb_eq in Hg. subst gs.
        pose proof (ident_step M f b i j ta tb p args args' w1 Hm Hs Hcl Ei Ej Hia) as I1.
        destruct (all2_single _ ts _ Hall) as [t' [-> Hck']].
        apply (Fin t' _ tk M f (or_introl eq_refl) (or_introl eq_refl) Hck' Hm Hf Hs). intros n [<-|[]]. exact I1.
  Qed.
End Sound.

(* ---- argument level ---- *)
Definition fcountermodel (S : sem) (M : model) (u : nat) (prems : list sent) (concl : sent) : Prop :=
  In u (m_worlds M) /\
  (forall p, In p prems -> t_des (s_t S) (eval S M u env0 p) = true) /\
  t_des (s_t S) (eval S M u env0 concl) = false.

Definition neg_flips_t (t : tables) : bool :=
  forallb (fun x => Bool.eqb (t_des t (t_un t Negation x)) (negb (t_des t x))) (t_vals t).

Theorem argument_sound L : fsound_ok L -> (fl_hd L = false -> neg_flips_t (s_t (fl_S L)) = true) ->
  forall t prems concl,
    gcheck L t (trunk (fl_hd L) 0 prems concl) [] = true -> gall_closed t = true ->
    forall M, model_ok L M -> forall u, ~ fcountermodel (fl_S L) M u prems concl.
Proof.
  intros OK Hneg t prems concl Hck Hac M Hm u [Hu [Hp Hc]].
  apply (gcheck_sound L OK t _ [] Hck Hac (PropDecide.trunk_des_ok _ _ _ _) M (fun _ => u) Hm (fun _ => Hu)).
  intros n Hn. unfold trunk in Hn. apply in_app_or in Hn. destruct Hn as [Hn|Hn].
  - apply in_map_iff in Hn. destruct Hn as [p [<- Hin]]. simpl. apply Hp. exact Hin.
  - destruct Hn as [<-|[]]. destruct (fl_hd L) eqn:Eh; simpl; [exact Hc|].
    specialize (Hneg eq_refl). unfold neg_flips_t in Hneg. rewrite forallb_forall in Hneg.
    assert (Hv : In (eval (fl_S L) M u env0 concl) (t_vals (s_t (fl_S L)))).
    { apply eval_vals; [exact (fo_closed _ OK)|exact (fo_gen _ OK)|exact (mo_wf _ _ Hm)]. }
    specialize (Hneg _ Hv). apply Bool.eqb_prop in Hneg. rewrite Hneg, Hc. reflexivity.
Qed.
