(* ParsePolish — executable model of pytableaux/lang/parsing.py:
   ParseContext + DefaultParser + PolishParser, driven by the parse table
   regenerated from /repo's lang/_symdata.py on every run (coq/gen/C13).

   Modelling decisions (each is exercised by the correspondence run, tools/c13.py):
   * the input is a list of code points; the context's (input, pos) is the
     remaining suffix `r` (pos = len input - len r; only its comparison with
     len(input) is observable, apart from message texts);
   * every Python exception source of the modelled code is an explicit result:
     ParseError and its three subclasses are `PErr k`, everything else is
     `OErr k` (KeyError, IndexError, ValueError, TypeError, AttributeError) and
     running out of fuel is `OErr OEFuel`; theorem parse_never_other shows that
     none of the `OErr` is reachable (so the model also terminates within fuel);
   * `ParseContext.__exit__` calls close() whatever happened: an exception that
     leaves unconsumed input is REPLACED by a plain ParseError (`finish`);
   * the bound-variable set is passed down (`B`): bind adds v for the body,
     unbind removes it again after the body, v was not in the set before, so
     the set after a successful _read is the set before it; after an exception
     the context is discarded;
   * the predicate store is threaded and survives errors (Parser.predicates is
     mutated in place by auto-declaration): the result of a parse is
     (outcome, store afterwards);
   * `int(''.join(map(str, digits)) or 0)` is modelled as the positional value
     10*acc+d, exact when every digit value of the table is < 10 (side condition
     `table_ok`, kernel-checked on the regenerated table); CPython's 4300-digit
     limit of int() and its recursion limit are outside the model (known
     findings cpython-int-digit-limit, recursion-depth-masked). *)
From Coq Require Import List Bool Arith NArith Lia.
From PT Require Import Lang.PSyntax.
Import ListNotations.

(* ---- parse table ---------------------------------------------------------- *)

Inductive item :=
| IOper1 (o : uop) | IOper2 (o : bop) | IQuant (q : quant) | ISys (p : syspred)
| IVar (i : nat) | IConst (i : nat) | IPred (i : nat) | IAtom (i : nat)
| IWs | IDigit (d : N) | IParenOpen | IParenClose.

Definition ptable := list (N * item).

Fixpoint tlookup (T : ptable) (c : N) : option item :=
  match T with
  | [] => None
  | (k, it) :: T' => if (k =? c)%N then Some it else tlookup T' c
  end.

Definition item_ok (it : item) : bool :=
  match it with
  | IVar i | IConst i => i <=? maxi_param
  | IPred i => i <=? maxi_pred
  | IAtom i => i <=? maxi_atom
  | IDigit d => (d <? 10)%N
  | _ => true
  end.

(* side condition on the regenerated table: indexes within LexType.maxi, digit values < 10 *)
Definition table_ok (T : ptable) : bool := forallb (fun ce => item_ok (snd ce)) T.

(* ---- results ---------------------------------------------------------------- *)

(* ParseError, UnboundVariableError, BoundVariableError, UndefinedPredicateError *)
Inductive perr := PEParse | PEUnbound | PEBound | PEUndef.
Inductive oerr := OEKey | OEIndex | OEValue | OEType | OEAttr | OEFuel.

Inductive res (A : Type) := OK (a : A) | PErr (e : perr) | OErr (e : oerr).
Arguments OK {A} a.
Arguments PErr {A} e.
Arguments OErr {A} e.

Definition store := list decl.     (* Predicates: insertion-ordered, keyed by bicoords *)

Fixpoint slookup (P : store) (k : pkey) : option nat :=
  match P with
  | [] => None
  | d :: P' => if pkey_eqb (decl_key d) k then Some (decl_arity d) else slookup P' k
  end.

Record cfg := { tab : ptable; auto_preds : bool; frozen : bool }.

Definition bind2 {A B} (x : res A * str) (P : store)
           (f : A -> str -> res B * str * store) : res B * str * store :=
  match x with
  | (OK a, r) => f a r
  | (PErr e, r) => (PErr e, r, P)
  | (OErr e, r) => (OErr e, r, P)
  end.

Definition bind3 {A B} (x : res A * str * store)
           (f : A -> str -> store -> res B * str * store) : res B * str * store :=
  match x with
  | (OK a, r, P) => f a r P
  | (PErr e, r, P) => (PErr e, r, P)
  | (OErr e, r, P) => (OErr e, r, P)
  end.

Definition bind1 {A B} (x : res A * str) (f : A -> str -> res B * str) : res B * str :=
  match x with
  | (OK a, r) => f a r
  | (PErr e, r) => (PErr e, r)
  | (OErr e, r) => (OErr e, r)
  end.

Section Model.
Variable T : ptable.

(* ParseContext.chomp: skip characters whose type is Marking.whitespace *)
Fixpoint chomp (r : str) : str :=
  match r with
  | c :: r' => match tlookup T c with Some IWs => chomp r' | _ => r end
  | [] => []
  end.

(* ParseContext.advance(1): pos += 1; chomp() *)
Definition advance (r : str) : str := chomp (tl r).

(* DefaultParser._read_subscript: digits (whitespace allowed between) -> int *)
Fixpoint read_sub (k : nat) (acc : N) (r : str) : res N * str :=
  match k with
  | 0 => (OErr OEFuel, r)
  | S k' =>
    match r with
    | c :: _ =>
      match tlookup T c with
      | Some (IDigit d) => read_sub k' (10 * acc + d)%N (advance r)
      | _ => (OK acc, r)
      end
    | [] => (OK acc, r)
    end
  end.

(* DefaultParser._read_coords, the index being context.value(current) already
   looked up by the caller: advance, then the subscript *)
Definition read_coords (F : nat) (r : str) : res N * str := read_sub F 0%N (advance r).

(* CoordsItem.__new__: ValueError when index > TYPE.maxi *)
Definition mk_atom (i : nat) (s : N) : res sent :=
  if i <=? maxi_atom then OK (Atom i s) else OErr OEValue.
Definition mk_const (i : nat) (s : N) : res param :=
  if i <=? maxi_param then OK (Const i s) else OErr OEValue.
Definition mk_var (i : nat) (s : N) : res param :=
  if i <=? maxi_param then OK (Var i s) else OErr OEValue.

(* DefaultParser._read_parameter *)
Definition read_parameter (F : nat) (B : list var) (r : str) : res param * str :=
  match r with
  | [] => (PErr PEParse, r)                                  (* assert_current *)
  | c :: _ =>
    match tlookup T c with
    | Some (IConst i) =>
        bind1 (read_coords F r) (fun s r1 => (mk_const i s, r1))
    | Some (IVar i) =>
        bind1 (read_coords F r) (fun s r1 =>
          match mk_var i s with
          | OK p => if vmem (i, s) B then (OK p, r1) else (PErr PEUnbound, r1)   (* check_bound *)
          | e => (e, r1)
          end)
    | _ => (PErr PEParse, r)                                 (* assert_current_in *)
    end
  end.

(* DefaultParser._read_params(num) *)
Fixpoint read_params (F : nat) (B : list var) (n : nat) (r : str) : res (list param) * str :=
  match n with
  | 0 => (OK [], r)
  | S n' =>
    bind1 (read_parameter F B r) (fun p r1 =>
    bind1 (read_params F B n' r1) (fun ps r2 => (OK (p :: ps), r2)))
  end.

(* DefaultParser._read_params_auto: while the current type is Constant/Variable *)
Fixpoint read_params_auto (F k : nat) (B : list var) (r : str) : res (list param) * str :=
  match k with
  | 0 => (OErr OEFuel, r)
  | S k' =>
    match r with
    | c :: _ =>
      match tlookup T c with
      | Some (IConst _) | Some (IVar _) =>
        bind1 (read_parameter F B r) (fun p r1 =>
        bind1 (read_params_auto F k' B r1) (fun ps r2 => (OK (p :: ps), r2)))
      | _ => (OK [], r)
      end
    | [] => (OK [], r)
    end
  end.

End Model.

(* DefaultParser._read with PolishParser._read_operated, _read_atomic,
   _read_quantified, _read_predicated/_read_predicate *)
Fixpoint read (C : cfg) (F k : nat) (B : list var) (r : str) (P : store) {struct k}
  : res sent * str * store :=
  let T := tab C in
  match k with
  | 0 => (OErr OEFuel, r, P)
  | S k' =>
    match r with
    | [] => (PErr PEParse, r, P)                             (* assert_current *)
    | c :: _ =>
      match tlookup T c with
      | Some (IOper1 o) =>
          bind3 (read C F k' B (advance T r) P) (fun a r1 P1 => (OK (Un o a), r1, P1))
      | Some (IOper2 o) =>
          bind3 (read C F k' B (advance T r) P) (fun a r1 P1 =>
          bind3 (read C F k' B r1 P1) (fun b r2 P2 => (OK (Bin o a b), r2, P2)))
      | Some (IAtom i) =>
          bind2 (read_coords T F r) P (fun s r1 => (mk_atom i s, r1, P))
      | Some (IQuant q) =>
          let r1 := advance T r in
          match r1 with
          | [] => (PErr PEParse, r1, P)                      (* assert_current_is(Variable) *)
          | c1 :: _ =>
            match tlookup T c1 with
            | Some (IVar i) =>
                bind2 (read_coords T F r1) P (fun s r2 =>
                  match mk_var i s with
                  | OK _ =>
                    if vmem (i, s) B then (PErr PEBound, r2, P)            (* bind: rebinding *)
                    else
                      bind3 (read C F k' ((i, s) :: B) r2 P) (fun body r3 P3 =>
                        if occurs (i, s) body then (OK (Quant q (i, s) body), r3, P3)
                        else (PErr PEBound, r3, P3))                      (* unbind: unused *)
                  | PErr e => (PErr e, r2, P)
                  | OErr e => (OErr e, r2, P)
                  end)
            | _ => (PErr PEParse, r1, P)
            end
          end
      | Some (ISys p) =>                                     (* Predicate.System *)
          bind2 (read_params T F B (sys_arity p) (advance T r)) P (fun ps r2 =>
            (OK (Pred (PSys p) ps), r2, P))
      | Some (IPred i) =>
          bind2 (read_coords T F r) P (fun s r1 =>
            match slookup P (i, s) with
            | Some a =>                                      (* predicates.get(coords) *)
                bind2 (read_params T F B a r1) P (fun ps r2 =>
                  (OK (Pred (PUser i s a) ps), r2, P))
            | None =>                                        (* UndefinedPredicateError *)
                if auto_preds C then
                  bind2 (read_params_auto T F F B r1) P (fun ps r2 =>
                    let a := length ps in
                    (* Predicate(coords.., arity): ValueError -> ParseError *)
                    if (a =? 0) || negb (i <=? maxi_pred) then (PErr PEParse, r2, P)
                    else if frozen C then (OErr OEAttr, r2, P)   (* Frozen has no .add *)
                    else (OK (Pred (PUser i s a) ps), r2, P ++ [(i, s, a)]))
                else (PErr PEUndef, r1, P)
            end)
      | _ => (PErr PEParse, r, P)                            (* _methodmap KeyError *)
      end
    end
  end.

(* ParseContext.__exit__ -> close(): chomp, assert_end; a ParseError raised here
   replaces whatever the body returned or raised *)
Definition finish {A} (T : ptable) (x : res A * str * store) : res A * store :=
  match x with
  | (v, r, P) => (match chomp T r with [] => v | _ :: _ => PErr PEParse end, P)
  end.

(* PolishParser.__call__(input) on a parser whose store is P *)
Definition parse_polish (C : cfg) (P : store) (input : str) : res sent * store :=
  let F := S (length input) in
  finish (tab C) (read C F F [] (chomp (tab C) input) P).

(* a parser instance is a state machine over its store *)
Fixpoint run_history (C : cfg) (P : store) (inputs : list str) : list (res sent) * store :=
  match inputs with
  | [] => ([], P)
  | i :: rest =>
    let (v, P1) := parse_polish C P i in
    let (vs, P2) := run_history C P1 rest in
    (v :: vs, P2)
  end.
