(* PSyntax — the object language of pytableaux as plain data (parser/writer
   developments, C12/C13).  Mirrors pytableaux/lang/lex.py:

     Constant/Variable (index, subscript)       param
     Predicate (index, subscript, arity)        pred  (PUser) ; Identity / Existence (PSys)
     Atomic / Predicated / Quantified / Operated  sent

   Indexes are `nat` (bounded by LexType.maxi: 3, Atomic 4), subscripts are
   unbounded `N`, characters of strings are Unicode code points (`N`).
   Operators are split by arity (4 unary, 6 binary) so that `Operated` is
   arity-correct by construction; the generator of the parse tables reads
   `Operator.arity` from /repo and fails closed if that ever changes.

   This file is self-contained (another branch develops Lang/Syntax.v; the two
   are to be unified later). *)
From Coq Require Import List Bool Arith NArith Lia.
Import ListNotations.

Definition str := list N.            (* a Python str as its code points *)

Definition var := (nat * N)%type.    (* (index, subscript) *)

Inductive param := Const (i : nat) (s : N) | Var (i : nat) (s : N).

Inductive syspred := Identity | Existence.

Inductive pred := PSys (p : syspred) | PUser (i : nat) (s : N) (a : nat).

Inductive uop := Assertion | Negation | Possibility | Necessity.
Inductive bop := Conjunction | Disjunction | MaterialConditional | MaterialBiconditional
               | Conditional | Biconditional.
Inductive quant := Existential | Universal.

Inductive sent :=
| Atom (i : nat) (s : N)
| Pred (p : pred) (args : list param)
| Quant (q : quant) (v : var) (body : sent)
| Un (o : uop) (a : sent)
| Bin (o : bop) (a b : sent).

Definition all_uops := [Assertion; Negation; Possibility; Necessity].
Definition all_bops := [Conjunction; Disjunction; MaterialConditional; MaterialBiconditional;
                        Conditional; Biconditional].
Definition all_quants := [Existential; Universal].
Definition all_sys := [Identity; Existence].

Lemma all_uops_complete o : In o all_uops. Proof. destruct o; simpl; tauto. Qed.
Lemma all_bops_complete o : In o all_bops. Proof. destruct o; simpl; tauto. Qed.
Lemma all_quants_complete q : In q all_quants. Proof. destruct q; simpl; tauto. Qed.
Lemma all_sys_complete p : In p all_sys. Proof. destruct p; simpl; tauto. Qed.

(* ---- decidable equality ------------------------------------------------- *)

Definition var_eq_dec (a b : var) : {a = b} + {a <> b}.
Proof. decide equality; [apply N.eq_dec | apply Nat.eq_dec]. Defined.

Definition param_eq_dec (a b : param) : {a = b} + {a <> b}.
Proof. decide equality; try apply N.eq_dec; apply Nat.eq_dec. Defined.

Definition syspred_eq_dec (a b : syspred) : {a = b} + {a <> b}.
Proof. decide equality. Defined.

Definition pred_eq_dec (a b : pred) : {a = b} + {a <> b}.
Proof. decide equality; try apply N.eq_dec; try apply Nat.eq_dec; apply syspred_eq_dec. Defined.

Definition uop_eq_dec (a b : uop) : {a = b} + {a <> b}. Proof. decide equality. Defined.
Definition bop_eq_dec (a b : bop) : {a = b} + {a <> b}. Proof. decide equality. Defined.
Definition quant_eq_dec (a b : quant) : {a = b} + {a <> b}. Proof. decide equality. Defined.

Definition sent_eq_dec (a b : sent) : {a = b} + {a <> b}.
Proof.
  decide equality; try apply N.eq_dec; try apply Nat.eq_dec.
  - apply (list_eq_dec param_eq_dec).
  - apply pred_eq_dec.
  - apply var_eq_dec.
  - apply quant_eq_dec.
  - apply uop_eq_dec.
  - apply bop_eq_dec.
Defined.

Definition var_eqb (a b : var) : bool := (fst a =? fst b)%nat && (snd a =? snd b)%N.

Lemma var_eqb_eq a b : var_eqb a b = true <-> a = b.
Proof.
  destruct a as [i s], b as [j t]; unfold var_eqb; simpl.
  rewrite andb_true_iff, Nat.eqb_eq, N.eqb_eq. split.
  - intros [-> ->]; reflexivity.
  - intros H; inversion H; auto.
Qed.

Lemma var_eqb_refl a : var_eqb a a = true.
Proof. apply var_eqb_eq; reflexivity. Qed.

Lemma var_eqb_neq a b : var_eqb a b = false <-> a <> b.
Proof.
  split.
  - intros H E. apply var_eqb_eq in E. congruence.
  - intros H. destruct (var_eqb a b) eqn:E; auto. apply var_eqb_eq in E. contradiction.
Qed.

Fixpoint vmem (v : var) (l : list var) : bool :=
  match l with [] => false | x :: r => var_eqb v x || vmem v r end.

Lemma vmem_In v l : vmem v l = true <-> In v l.
Proof.
  induction l as [|x r IH]; simpl.
  - split; [discriminate | tauto].
  - rewrite orb_true_iff, IH, var_eqb_eq. split; intros [H|H]; auto.
Qed.

(* ---- arities ------------------------------------------------------------ *)

Definition sys_arity (p : syspred) : nat := match p with Identity => 2 | Existence => 1 end.

Definition pred_arity (p : pred) : nat :=
  match p with PSys q => sys_arity q | PUser _ _ a => a end.

(* ---- well-formedness (boolean) ------------------------------------------ *)

(* LexType.maxi: 3 for Predicate/Constant/Variable, 4 for Atomic. *)
Definition maxi_param := 3.
Definition maxi_pred := 3.
Definition maxi_atom := 4.

Definition wf_param (p : param) : bool :=
  match p with Const i _ | Var i _ => i <=? maxi_param end.

Definition wf_pred (p : pred) : bool :=
  match p with PSys _ => true | PUser i _ a => (i <=? maxi_pred) && (1 <=? a) end.

(* items constructible in Python: index bounds, arity >= 1, #params = arity *)
Fixpoint wf_items (s : sent) : bool :=
  match s with
  | Atom i _ => i <=? maxi_atom
  | Pred p args => wf_pred p && forallb wf_param args && (length args =? pred_arity p)
  | Quant _ v b => (fst v <=? maxi_param) && wf_items b
  | Un _ a => wf_items a
  | Bin _ a b => wf_items a && wf_items b
  end.

Definition param_var (p : param) : option var :=
  match p with Var i s => Some (i, s) | Const _ _ => None end.

Definition pvars_ok (B : list var) (p : param) : bool :=
  match p with Var i s => vmem (i, s) B | Const _ _ => true end.

(* every variable occurrence is bound by an enclosing quantifier (or by B) *)
Fixpoint closed_in (B : list var) (s : sent) : bool :=
  match s with
  | Atom _ _ => true
  | Pred _ args => forallb (pvars_ok B) args
  | Quant _ v b => closed_in (v :: B) b
  | Un _ a => closed_in B a
  | Bin _ a b => closed_in B a && closed_in B b
  end.

(* Sentence.variables: all variables occurring as parameters *)
Definition param_is (v : var) (p : param) : bool :=
  match p with Var i s => var_eqb v (i, s) | Const _ _ => false end.

Fixpoint occurs (v : var) (s : sent) : bool :=
  match s with
  | Atom _ _ => false
  | Pred _ args => existsb (param_is v) args
  | Quant _ _ b => occurs v b
  | Un _ a => occurs v a
  | Bin _ a b => occurs v a || occurs v b
  end.

(* each quantifier's variable occurs in its scope *)
Fixpoint nonvacuous (s : sent) : bool :=
  match s with
  | Atom _ _ | Pred _ _ => true
  | Quant _ v b => occurs v b && nonvacuous b
  | Un _ a => nonvacuous a
  | Bin _ a b => nonvacuous a && nonvacuous b
  end.

(* no quantifier re-binds a variable that is already bound around it *)
Fixpoint norebind_in (B : list var) (s : sent) : bool :=
  match s with
  | Atom _ _ | Pred _ _ => true
  | Quant _ v b => negb (vmem v B) && norebind_in (v :: B) b
  | Un _ a => norebind_in B a
  | Bin _ a b => norebind_in B a && norebind_in B b
  end.

Definition closed (s : sent) := closed_in [] s.
Definition norebind (s : sent) := norebind_in [] s.

(* ---- predicates of a sentence, arity consistency ------------------------- *)

Definition pkey := (nat * N)%type.                 (* Predicate.bicoords *)
Definition decl := (nat * N * nat)%type.           (* Predicate.spec *)

Definition pkey_eqb (a b : pkey) : bool := (fst a =? fst b)%nat && (snd a =? snd b)%N.

Lemma pkey_eqb_eq a b : pkey_eqb a b = true <-> a = b.
Proof. exact (var_eqb_eq a b). Qed.

(* user predicates in order of first occurrence, left to right (with repeats) *)
Fixpoint upreds (s : sent) : list decl :=
  match s with
  | Atom _ _ => []
  | Pred (PUser i sub a) _ => [(i, sub, a)]
  | Pred (PSys _) _ => []
  | Quant _ _ b => upreds b
  | Un _ a => upreds a
  | Bin _ a b => upreds a ++ upreds b
  end.

Definition decl_key (d : decl) : pkey := (fst (fst d), snd (fst d)).
Definition decl_arity (d : decl) : nat := snd d.

Definition decls_agree (d e : decl) : bool :=
  negb (pkey_eqb (decl_key d) (decl_key e)) || (decl_arity d =? decl_arity e).

(* no two predicates share a symbol (index, subscript) with different arities *)
Definition consistent_decls (l : list decl) : bool :=
  forallb (fun d => forallb (decls_agree d) l) l.

Definition arity_consistent (s : sent) : bool := consistent_decls (upreds s).

(* the sentences of the parsers' language *)
Definition roundtrippable (s : sent) : bool :=
  wf_items s && closed s && nonvacuous s && norebind s && arity_consistent s.
