(* C14 — executable model of the value semantics of lexical items
   (lang/lex.py: sort_tuple of the nine lexical classes, Lexical.orderitems,
   the rich comparisons, hashitem; lang/collect.py: Argument comparison).

   The numeric TABLES (type ranks `_Ranks`, operator / quantifier `order`s,
   operator arities, LexType.maxi, the system predicates) are a parameter
   [lextab]; tools/c14.py regenerates the instance from /repo on every run
   (coq/gen/C14/Tab.v) and the kernel re-decides [tab_ok] on it. *)
From Coq Require Import List Bool ZArith NArith Lia.
From PT Require Import Sem.Values Lang.Syntax.
Import ListNotations.
Open Scope Z_scope.

Record lextab := {
  r_pred : Z; r_const : Z; r_var : Z; r_quant : Z; r_oper : Z;
  r_atom : Z; r_preded : Z; r_quanted : Z; r_opered : Z;      (* _Ranks *)
  q_order : quant -> Z;                                        (* Quantifier.order *)
  o_order : oper -> Z;                                         (* Operator.order *)
  o_arity : oper -> nat;                                       (* Operator.arity *)
  maxi_coord : N; maxi_atomic : N;                             (* LexType.maxi *)
  sys_preds : list pred }.                                     (* Predicate.System specs *)

Definition ranks (T : lextab) : list Z :=
  [r_pred T; r_const T; r_var T; r_quant T; r_oper T; r_atom T; r_preded T; r_quanted T; r_opered T].

Fixpoint distinctb (l : list Z) : bool :=
  match l with [] => true | x :: r => negb (existsb (Z.eqb x) r) && distinctb r end.

Definition same_preds (a b : list pred) : bool :=
  forallb (fun p => existsb (pred_eqb p) b) a && forallb (fun p => existsb (pred_eqb p) a) b.

(* Side conditions the theorems need (distinctness, injectivity of the orders,
   arities as in Syntax.v) and the ones the documentation promises (ranks
   positive, orders non-negative). *)
Definition tab_ok (T : lextab) : bool :=
  distinctb (ranks T)
  && forallb (fun r => 0 <? r) (ranks T)
  && distinctb (map (q_order T) all_quants)
  && distinctb (map (o_order T) all_opers)
  && forallb (fun o => 0 <=? o_order T o) all_opers
  && forallb (fun q => 0 <=? q_order T q) all_quants
  && forallb (fun o => Nat.eqb (o_arity T o) (arity o)) all_opers
  && N.eqb (maxi_coord T) MAXI_COORD && N.eqb (maxi_atomic T) MAXI_ATOMIC
  && same_preds (sys_preds T) [Identity; Existence].

(* The nine lexical types. *)
Inductive item :=
| IPred (p : pred)            (* Predicate *)
| IParam (p : param)          (* Constant | Variable *)
| IQuant (q : quant)          (* Quantifier *)
| IOper (o : oper)            (* Operator *)
| ISent (s : sent).           (* Atomic | Predicated | Quantified | Operated *)

Definition item_eqb (a b : item) : bool :=
  match a, b with
  | IPred p, IPred q => pred_eqb p q
  | IParam p, IParam q => param_eqb p q
  | IQuant p, IQuant q => quant_eqb p q
  | IOper p, IOper q => oper_eqb p q
  | ISent p, ISent q => sent_eqb p q
  | _, _ => false
  end.

Lemma item_eqb_eq a b : item_eqb a b = true <-> a = b.
Proof.
  destruct a, b; simpl; split; intro H; try discriminate.
  - apply pred_eqb_eq in H. now subst.
  - injection H as ->. now apply pred_eqb_eq.
  - apply param_eqb_eq in H. now subst.
  - injection H as ->. now apply param_eqb_eq.
  - apply quant_eqb_eq in H. now subst.
  - injection H as ->. now apply quant_eqb_eq.
  - apply oper_eqb_eq in H. now subst.
  - injection H as ->. now apply oper_eqb_eq.
  - apply sent_eqb_eq in H. now subst.
  - injection H as ->. now apply sent_eqb_eq.
Qed.

Definition wf_item (a : item) : bool :=
  match a with
  | IPred p => wf_pred p
  | IParam p => wf_param p
  | IQuant _ | IOper _ => true
  | ISent s => wf_sent s
  end.

Section Tab.
Variable T : lextab.

(* CoordsItem.__new__: (TYPE.rank, *spec.sorting()) with sorting =
   (subscript, index[, arity]) *)
Definition st_param (p : param) : list Z :=
  match p with
  | Const i s => [r_const T; Z.of_N s; Z.of_N i]
  | Var i s => [r_var T; Z.of_N s; Z.of_N i]
  end.
Definition st_pred (p : pred) : list Z :=
  [r_pred T; Z.of_N (psub p); pidx p; Z.of_N (parity p)].
(* LexicalEnum.__init__: (_Ranks[type name], order) *)
Definition st_quant (q : quant) : list Z := [r_quant T; q_order T q].
Definition st_oper (o : oper) : list Z := [r_oper T; o_order T o].

(* Atomic: CoordsItem.  Predicated: (rank, *pred.sort_tuple, *(n for p in params
   for n in p.sort_tuple)).  Quantified: (rank, *q.sort_tuple, *v.sort_tuple,
   *s.sort_tuple).  Operated: (rank, *oper.sort_tuple, *(n for s in operands for
   n in s.sort_tuple)). *)
Fixpoint st_sent (s : sent) : list Z :=
  match s with
  | Atom i t => [r_atom T; Z.of_N t; Z.of_N i]
  | Pred p ps => r_preded T :: st_pred p ++ flat_map st_param ps
  | Quant q vi vs b => r_quanted T :: st_quant q ++ st_param (Var vi vs) ++ st_sent b
  | Un o a => r_opered T :: st_oper o ++ st_sent a
  | Bin o a b => r_opered T :: st_oper o ++ st_sent a ++ st_sent b
  end.

Definition sort_tuple (a : item) : list Z :=
  match a with
  | IPred p => st_pred p
  | IParam p => st_param p
  | IQuant q => st_quant q
  | IOper o => st_oper o
  | ISent s => st_sent s
  end.

(* The type rank (TYPE.rank). *)
Definition rank (a : item) : Z :=
  match a with
  | IPred _ => r_pred T
  | IParam (Const _ _) => r_const T
  | IParam (Var _ _) => r_var T
  | IQuant _ => r_quant T
  | IOper _ => r_oper T
  | ISent (Atom _ _) => r_atom T
  | ISent (Pred _ _) => r_preded T
  | ISent (Quant _ _ _ _) => r_quanted T
  | ISent (Un _ _) | ISent (Bin _ _ _) => r_opered T
  end.
End Tab.

(* Lexical.orderitems on the two sort tuples:
     it = zip_longest(lhs.sort_tuple, rhs.sort_tuple, fillvalue=0)
     for cmp in filter(None, starmap(opr.sub, it)): return cmp
     return 0
   i.e. the first non-zero difference, the shorter tuple padded with 0. *)
Fixpoint first_nz (xs : list Z) : Z :=
  match xs with [] => 0 | x :: r => if x =? 0 then first_nz r else x end.

Fixpoint ordz (xs ys : list Z) : Z :=
  match xs, ys with
  | [], _ => - first_nz ys
  | _, [] => first_nz xs
  | x :: xr, y :: yr => if x - y =? 0 then ordz xr yr else x - y
  end.

Definition orderitems (T : lextab) (a b : item) : Z := ordz (sort_tuple T a) (sort_tuple T b).

(* __lt__, __le__, __gt__, __ge__, __eq__ = oper(orderitems(self, other), 0) *)
Definition lt T a b : bool := orderitems T a b <? 0.
Definition le T a b : bool := orderitems T a b <=? 0.
Definition gt T a b : bool := 0 <? orderitems T a b.
Definition ge T a b : bool := 0 <=? orderitems T a b.
Definition eq T a b : bool := orderitems T a b =? 0.
Definition cmp T a b : comparison := orderitems T a b ?= 0.

(* hashitem: hash((<constant>, item.sort_tuple)) — some function of the sort
   tuple alone. *)
Definition hashitem (T : lextab) (H : list Z -> Z) (a : item) : Z := H (sort_tuple T a).

(* ---- Argument (lang/collect.py) ---- *)
(* seq = (conclusion, *premises); the title takes no part in ==, <, hash. *)
Record argument := { a_title : option nat; a_seq : list sent }.

Fixpoint ord_seq (T : lextab) (xs ys : list sent) : Z :=
  match xs, ys with
  | x :: xr, y :: yr =>
      let c := ordz (st_sent T x) (st_sent T y) in if c =? 0 then ord_seq T xr yr else c
  | _, _ => 0
  end.

(* cmp = len(self) - len(other); if cmp: return oper(cmp, 0)
   for cmp in starmap(orderitems, zip(self, other)): if cmp: break
   return oper(cmp, 0) *)
Definition ord_arg (T : lextab) (a b : argument) : Z :=
  let d := Z.of_nat (length (a_seq a)) - Z.of_nat (length (a_seq b)) in
  if d =? 0 then ord_seq T (a_seq a) (a_seq b) else d.

(* Argument.hash = hash(self.seq): a function of the sentences' hashes. *)
Definition hash_arg (T : lextab) (H : list Z -> Z) (HT : list Z -> Z) (a : argument) : Z :=
  HT (map (fun s => hashitem T H (ISent s)) (a_seq a)).

Definition wf_arg (a : argument) : bool :=
  match a_seq a with [] => false | l => forallb wf_sent l end.

(* sorted(): stable insertion sort (any stable comparison sort gives the same
   list when the order is total and antisymmetric). *)
Fixpoint insert_by (T : lextab) (x : item) (l : list item) : list item :=
  match l with
  | [] => [x]
  | y :: r => if le T x y then x :: l else y :: insert_by T x r
  end.
Definition sorted_by (T : lextab) (l : list item) : list item :=
  fold_right (insert_by T) [] l.

(* ---- boolean checks used by the correspondence run (tools/c14.py) ---- *)
Definition check_item (T : lextab) (a : item) (st : list Z) : bool :=
  list_eqb Z.eqb (sort_tuple T a) st.

(* observed on the implementation for a pair: orderitems, ==, !=, <, <=, >, >=,
   hash(a) == hash(b) *)
Definition check_pair (T : lextab) (a b : item) (o : Z) (oeq one olt ole ogt oge ohash : bool)
  : list bool :=
  [ orderitems T a b =? o;
    Bool.eqb (eq T a b) oeq; Bool.eqb (negb (eq T a b)) one;
    Bool.eqb (lt T a b) olt; Bool.eqb (le T a b) ole;
    Bool.eqb (gt T a b) ogt; Bool.eqb (ge T a b) oge;
    Bool.eqb (item_eqb a b) oeq;              (* == is structural identity *)
    implb (item_eqb a b) ohash ].             (* equal items, equal hashes *)

Definition check_sorted (T : lextab) (l obs : list item) : bool :=
  list_eqb item_eqb (sorted_by T l) obs.

Definition check_args (T : lextab) (a b : list sent) (oeq olt ole ogt oge ohash : bool) : list bool :=
  let x := {| a_title := None; a_seq := a |} in
  let y := {| a_title := None; a_seq := b |} in
  let z := ord_arg T x y in
  [ Bool.eqb (z =? 0) oeq; Bool.eqb (z <? 0) olt; Bool.eqb (z <=? 0) ole;
    Bool.eqb (0 <? z) ogt; Bool.eqb (0 <=? z) oge;
    Bool.eqb (list_eqb sent_eqb a b) oeq; implb (list_eqb sent_eqb a b) ohash ].
