(* C14 — theorems about the model in Lex.v. *)
From Coq Require Import List Bool ZArith NArith Lia.
From PT Require Import Sem.Values Lang.Syntax Lang.Lex.
Import ListNotations.
Open Scope Z_scope.

(* ------------------------------------------------------------------ ordz *)
(* A uniform reading of ordz: compare position by position with 0 for a
   missing element, for n >= both lengths. *)
Definition hd0 (l : list Z) : Z := match l with [] => 0 | x :: _ => x end.
Fixpoint ordn (n : nat) (xs ys : list Z) : Z :=
  match n with
  | O => 0
  | S m => let d := hd0 xs - hd0 ys in if d =? 0 then ordn m (tl xs) (tl ys) else d
  end.

Lemma ordz_nil_r xs : ordz xs [] = first_nz xs.
Proof. destruct xs; reflexivity. Qed.
Lemma ordz_nil_l ys : ordz [] ys = - first_nz ys.
Proof. reflexivity. Qed.

Lemma ordz_ordn n : forall xs ys, (length xs <= n)%nat -> (length ys <= n)%nat ->
  ordz xs ys = ordn n xs ys.
Proof.
  induction n as [|n IH]; intros xs ys Hx Hy.
  - destruct xs; [|simpl in Hx; lia]. destruct ys; [reflexivity|simpl in Hy; lia].
  - destruct xs as [|x xr], ys as [|y yr]; cbn [ordn hd0 tl].
    + rewrite <- IH by (simpl; lia). reflexivity.
    + rewrite <- IH by (simpl in *; lia). rewrite !ordz_nil_l. cbn [first_nz].
      destruct (y =? 0) eqn:E; destruct (0 - y =? 0) eqn:E2;
        rewrite ?Z.eqb_eq, ?Z.eqb_neq in *; lia.
    + rewrite <- IH by (simpl in *; lia). rewrite !ordz_nil_r. cbn [first_nz].
      destruct (x =? 0) eqn:E; destruct (x - 0 =? 0) eqn:E2;
        rewrite ?Z.eqb_eq, ?Z.eqb_neq in *; lia.
    + cbn [ordz]. rewrite <- IH by (simpl in *; lia). reflexivity.
Qed.

Lemma ordn_antisym n : forall xs ys, ordn n ys xs = - ordn n xs ys.
Proof.
  induction n as [|n IH]; intros xs ys; cbn [ordn]; [reflexivity|].
  destruct (hd0 ys - hd0 xs =? 0) eqn:E; destruct (hd0 xs - hd0 ys =? 0) eqn:E2;
    rewrite ?Z.eqb_eq, ?Z.eqb_neq in *; try lia. apply IH.
Qed.

Lemma ordn_trans n : forall a b c, ordn n a b <= 0 -> ordn n b c <= 0 ->
  ordn n a c <= 0 /\ (ordn n a b < 0 \/ ordn n b c < 0 -> ordn n a c < 0).
Proof.
  induction n as [|n IH]; intros a b c; cbn [ordn]; [lia|].
  destruct (hd0 a - hd0 b =? 0) eqn:E1; destruct (hd0 b - hd0 c =? 0) eqn:E2;
    destruct (hd0 a - hd0 c =? 0) eqn:E3;
    rewrite ?Z.eqb_eq, ?Z.eqb_neq in *; try lia.
  apply IH.
Qed.

Lemma ordn_refl n : forall a, ordn n a a = 0.
Proof.
  induction n as [|n IH]; intros a; cbn [ordn]; [reflexivity|].
  now rewrite Z.sub_diag, Z.eqb_refl.
Qed.

Lemma ordz_refl xs : ordz xs xs = 0.
Proof. rewrite (ordz_ordn (length xs)) by lia. apply ordn_refl. Qed.

Lemma ordz_antisym xs ys : ordz ys xs = - ordz xs ys.
Proof.
  set (n := Nat.max (length xs) (length ys)).
  rewrite (ordz_ordn n ys xs), (ordz_ordn n xs ys) by lia. apply ordn_antisym.
Qed.

Lemma ordz_trans a b c : ordz a b <= 0 -> ordz b c <= 0 ->
  ordz a c <= 0 /\ (ordz a b < 0 \/ ordz b c < 0 -> ordz a c < 0).
Proof.
  set (n := Nat.max (length a) (Nat.max (length b) (length c))).
  rewrite (ordz_ordn n a b), (ordz_ordn n b c), (ordz_ordn n a c) by lia. apply ordn_trans.
Qed.

Lemma ordz_eq_trans a b c : ordz a b = 0 -> ordz b c = 0 -> ordz a c = 0.
Proof.
  intros H1 H2.
  destruct (ordz_trans a b c) as [L _]; [lia|lia|].
  destruct (ordz_trans c b a) as [L2 _]; [rewrite ordz_antisym; lia|rewrite ordz_antisym; lia|].
  rewrite (ordz_antisym a c) in L2. lia.
Qed.

(* zero result = equal up to trailing zeros *)
Lemma first_nz_zero xs : first_nz xs = 0 -> xs = repeat 0 (length xs).
Proof.
  induction xs as [|x xs IH]; simpl; [reflexivity|].
  destruct (x =? 0) eqn:E; intro H.
  - apply Z.eqb_eq in E. subst. now rewrite <- IH.
  - apply Z.eqb_neq in E. lia.
Qed.

Lemma ordz_zero_pad xs : forall ys, ordz xs ys = 0 ->
  exists k1 k2, xs ++ repeat 0 k1 = ys ++ repeat 0 k2.
Proof.
  induction xs as [|x xs IH]; intros ys H.
  - rewrite ordz_nil_l in H. exists (length ys), 0%nat.
    rewrite (first_nz_zero ys) at 2 by lia. now rewrite app_nil_r.
  - destruct ys as [|y ys].
    + rewrite ordz_nil_r in H. exists 0%nat, (length (x :: xs)).
      rewrite (first_nz_zero (x :: xs) H) at 1. now rewrite app_nil_r.
    + cbn [ordz] in H. destruct (x - y =? 0) eqn:E.
      * apply Z.eqb_eq in E. destruct (IH ys H) as [k1 [k2 K]]. exists k1, k2.
        simpl. rewrite K. f_equal. lia.
      * apply Z.eqb_neq in E. lia.
Qed.

(* --------------------------------------------------- generic injectivity *)
Lemma distinctb_map_inj {A} (f : A -> Z) (l : list A) :
  distinctb (map f l) = true -> forall a b, In a l -> In b l -> f a = f b -> a = b.
Proof.
  induction l as [|x l IH]; simpl; intros D a b Ia Ib E; [contradiction|].
  apply andb_true_iff in D as [D1 D2]. apply negb_true_iff in D1.
  assert (N : forall y, In y l -> f x <> f y).
  { intros y Iy Exy. assert (X : existsb (Z.eqb (f x)) (map f l) = true).
    { apply existsb_exists. exists (f y). split; [now apply in_map|now apply Z.eqb_eq]. }
    congruence. }
  destruct Ia as [<-|Ia], Ib as [<-|Ib]; auto.
  - destruct (N b Ib E).
  - destruct (N a Ia (eq_sym E)).
Qed.

Inductive kind := KPred | KConst | KVar | KQuant | KOper | KAtom | KPreded | KQuanted | KOpered.
Definition all_kinds := [KPred; KConst; KVar; KQuant; KOper; KAtom; KPreded; KQuanted; KOpered].
Definition rank_of (T : lextab) (k : kind) : Z :=
  match k with
  | KPred => r_pred T | KConst => r_const T | KVar => r_var T | KQuant => r_quant T
  | KOper => r_oper T | KAtom => r_atom T | KPreded => r_preded T | KQuanted => r_quanted T
  | KOpered => r_opered T
  end.

Section Inj.
Variable T : lextab.
Hypothesis OK : tab_ok T = true.

Lemma tab_facts :
  distinctb (ranks T) = true /\ distinctb (map (q_order T) all_quants) = true /\
  distinctb (map (o_order T) all_opers) = true /\
  forallb (fun o => Nat.eqb (o_arity T o) (arity o)) all_opers = true.
Proof.
  pose proof OK as K. unfold tab_ok in K. do 9 (apply andb_true_iff in K as [K ?]).
  repeat split; assumption.
Qed.

Lemma rank_of_inj a b : rank_of T a = rank_of T b -> a = b.
Proof.
  destruct tab_facts as [D _].
  apply (distinctb_map_inj (rank_of T) all_kinds D); [destruct a|destruct b]; simpl;
    repeat (first [left; reflexivity | right]).
Qed.

Lemma q_order_inj a b : q_order T a = q_order T b -> a = b.
Proof.
  destruct tab_facts as [_ [D _]].
  apply (distinctb_map_inj _ _ D); [destruct a|destruct b]; simpl;
    repeat (first [left; reflexivity | right]).
Qed.

Lemma o_order_inj a b : o_order T a = o_order T b -> a = b.
Proof.
  destruct tab_facts as [_ [_ [D _]]].
  apply (distinctb_map_inj _ _ D); [destruct a|destruct b]; simpl;
    repeat (first [left; reflexivity | right]).
Qed.

Ltac kof f := lazymatch f with
  | r_pred => constr:(KPred) | r_const => constr:(KConst) | r_var => constr:(KVar)
  | r_quant => constr:(KQuant) | r_oper => constr:(KOper) | r_atom => constr:(KAtom)
  | r_preded => constr:(KPreded) | r_quanted => constr:(KQuanted) | r_opered => constr:(KOpered)
  end.
Ltac rank_absurd H :=
  lazymatch type of H with
  | ?f T = ?g T => let a := kof f in let b := kof g in
                   apply (rank_of_inj a b) in H; discriminate H
  end.

Lemma st_param_inj p q r1 r2 :
  st_param T p ++ r1 = st_param T q ++ r2 -> p = q /\ r1 = r2.
Proof.
  destruct p as [i s|i s], q as [j t|j t]; cbn [st_param app]; intro H.
  - injection H as H1 H2 H3. apply N2Z.inj in H1, H2. subst. now split.
  - injection H as H0 _. rank_absurd H0.
  - injection H as H0 _. rank_absurd H0.
  - injection H as H1 H2 H3. apply N2Z.inj in H1, H2. subst. now split.
Qed.

Lemma st_params_inj ps : forall qs r1 r2, length ps = length qs ->
  flat_map (st_param T) ps ++ r1 = flat_map (st_param T) qs ++ r2 -> ps = qs /\ r1 = r2.
Proof.
  induction ps as [|p ps IH]; destruct qs as [|q qs]; simpl; intros r1 r2 L H; try discriminate.
  - now split.
  - rewrite <- !app_assoc in H. apply st_param_inj in H as [-> H].
    injection L as L. destruct (IH _ _ _ L H) as [-> ->]. now split.
Qed.

Lemma wf_pred_len p ps : wf_sent (Pred p ps) = true -> length ps = N.to_nat (parity p).
Proof.
  simpl. intro H. apply andb_true_iff in H as [H _]. apply andb_true_iff in H as [_ H].
  now apply Nat.eqb_eq in H.
Qed.

Lemma st_sent_inj a : forall b r1 r2, wf_sent a = true -> wf_sent b = true ->
  st_sent T a ++ r1 = st_sent T b ++ r2 -> a = b /\ r1 = r2.
Proof.
  induction a as [i s|p ps|q vi vs x IH|o x IH|o x IHx y IHy]; intros b r1 r2 Wa Wb H;
    destruct b as [j t|p' ps'|q' vi' vs' x'|o' x'|o' x' y'];
    cbn [st_sent st_pred st_quant st_oper st_param app] in H;
    rewrite <- ?app_assoc in H; cbn [app] in H.
  all: try (injection H as H0 _; rank_absurd H0).
  - injection H as H1 H2 H3. apply N2Z.inj in H1, H2. now subst.
  - injection H as H1 H2 H3 H4.
    assert (E : p = p').
    { destruct p as [a1 a2 a3], p' as [b1 b2 b3]; cbn [psub pidx parity] in *.
      apply N2Z.inj in H1, H3. now subst. }
    subst p'. apply st_params_inj in H4 as [-> ->]; [now split|].
    now rewrite (wf_pred_len _ _ Wa), (wf_pred_len _ _ Wb).
  - injection H as H1 H2 H3 H4. apply q_order_inj in H1. apply N2Z.inj in H2, H3. subst.
    simpl in Wa, Wb. apply andb_true_iff in Wa as [_ Wa], Wb as [_ Wb].
    destruct (IH _ _ _ Wa Wb H4) as [-> ->]. now split.
  - injection H as H1 H2. apply o_order_inj in H1. subst.
    simpl in Wa, Wb. apply andb_true_iff in Wa as [_ Wa], Wb as [_ Wb].
    destruct (IH _ _ _ Wa Wb H2) as [-> ->]. now split.
  - injection H as H1 _. apply o_order_inj in H1. subst. exfalso.
    simpl in Wa, Wb. apply andb_true_iff in Wa as [Wa _], Wb as [Wb _].
    apply andb_true_iff in Wb as [Wb _]. apply Nat.eqb_eq in Wa, Wb. congruence.
  - injection H as H1 _. apply o_order_inj in H1. subst. exfalso.
    simpl in Wa, Wb. apply andb_true_iff in Wa as [Wa _], Wb as [Wb _].
    apply andb_true_iff in Wa as [Wa _]. apply Nat.eqb_eq in Wa, Wb. congruence.
  - injection H as H1 H2. apply o_order_inj in H1. subst.
    simpl in Wa, Wb. apply andb_true_iff in Wa as [Wa Wa2], Wb as [Wb Wb2].
    apply andb_true_iff in Wa as [_ Wa1], Wb as [_ Wb1].
    destruct (IHx _ _ _ Wa1 Wb1 H2) as [-> H3].
    destruct (IHy _ _ _ Wa2 Wb2 H3) as [-> ->]. now split.
Qed.

Lemma sort_tuple_head a : exists l, sort_tuple T a = rank T a :: l.
Proof.
  destruct a as [p|[i s|i s]|q|o|[i s|p ps|q vi vs x|o x|o x y]]; simpl; eexists; reflexivity.
Qed.

(* The flattened sort tuples are an instantaneous (self-delimiting) code. *)
Lemma sort_tuple_inj a b r1 r2 : wf_item a = true -> wf_item b = true ->
  sort_tuple T a ++ r1 = sort_tuple T b ++ r2 -> a = b /\ r1 = r2.
Proof.
  intros Wa Wb H.
  assert (R : rank T a = rank T b).
  { destruct (sort_tuple_head a) as [l1 E1], (sort_tuple_head b) as [l2 E2].
    rewrite E1, E2 in H. simpl in H. now injection H. }
  destruct a as [p|p|q|o|s], b as [p'|p'|q'|o'|s']; cbn [sort_tuple] in H.
  all: try (exfalso; try destruct p; try destruct p'; try destruct s; try destruct s';
            cbn [rank] in R; rank_absurd R).
  - cbn [st_pred app] in H. injection H as H1 H2 H3 H4.
    destruct p as [a1 a2 a3], p' as [b1 b2 b3]; cbn [psub pidx parity] in *.
    apply N2Z.inj in H1, H3. now subst.
  - apply st_param_inj in H as [-> ->]. now split.
  - cbn [st_quant app] in H. injection H as H1 H2. apply q_order_inj in H1. now subst.
  - cbn [st_oper app] in H. injection H as H1 H2. apply o_order_inj in H1. now subst.
  - apply st_sent_inj in H as [-> ->]; auto.
Qed.

(* T cmp_eq_iff *)
Theorem orderitems_zero_iff a b : wf_item a = true -> wf_item b = true ->
  (orderitems T a b = 0 <-> a = b).
Proof.
  intros Wa Wb. split.
  - intro H. apply ordz_zero_pad in H as [k1 [k2 K]].
    now destruct (sort_tuple_inj _ _ _ _ Wa Wb K).
  - intros ->. apply ordz_refl.
Qed.

Theorem cmp_eq_iff a b : wf_item a = true -> wf_item b = true ->
  (cmp T a b = Eq <-> a = b).
Proof.
  intros Wa Wb. unfold cmp. rewrite Z.compare_eq_iff. now apply orderitems_zero_iff.
Qed.

Theorem eq_iff a b : wf_item a = true -> wf_item b = true -> (eq T a b = true <-> a = b).
Proof. intros Wa Wb. unfold eq. rewrite Z.eqb_eq. now apply orderitems_zero_iff. Qed.

(* T hash_respects: items that compare equal have equal hashes. *)
Theorem hash_respects H a b : wf_item a = true -> wf_item b = true ->
  eq T a b = true -> hashitem T H a = hashitem T H b.
Proof. intros Wa Wb E. apply (eq_iff a b Wa Wb) in E. now subst. Qed.

(* Arguments *)
Lemma ord_seq_zero xs : forall ys, length xs = length ys ->
  forallb wf_sent xs = true -> forallb wf_sent ys = true -> ord_seq T xs ys = 0 -> xs = ys.
Proof.
  induction xs as [|x xs IH]; destruct ys as [|y ys]; simpl; intros L Wx Wy H;
    try discriminate; [reflexivity|].
  apply andb_true_iff in Wx as [Wx Wxs], Wy as [Wy Wys].
  destruct (ordz (st_sent T x) (st_sent T y) =? 0) eqn:E.
  - apply Z.eqb_eq in E.
    assert (X : ISent x = ISent y) by (apply orderitems_zero_iff; auto).
    injection X as ->. f_equal. apply IH; auto.
  - apply Z.eqb_neq in E. contradiction.
Qed.

Theorem arg_eq_iff a b : wf_arg a = true -> wf_arg b = true ->
  (ord_arg T a b = 0 <-> a_seq a = a_seq b).
Proof.
  unfold wf_arg, ord_arg. intros Wa Wb. split.
  - destruct (Z.of_nat (length (a_seq a)) - Z.of_nat (length (a_seq b)) =? 0) eqn:E.
    + apply Z.eqb_eq in E. intro H. apply ord_seq_zero; auto; try lia.
      * destruct (a_seq a); [discriminate|exact Wa].
      * destruct (a_seq b); [discriminate|exact Wb].
    + apply Z.eqb_neq in E. intro H. contradiction.
  - intros ->. rewrite Z.sub_diag. simpl. clear.
    induction (a_seq b) as [|x xs IH]; simpl; [reflexivity|]. now rewrite ordz_refl.
Qed.
End Inj.

(* --------------------------------------- order laws (no side conditions) *)
Section Order.
Variable T : lextab.

Theorem orderitems_antisym a b : orderitems T b a = - orderitems T a b.
Proof. apply ordz_antisym. Qed.

(* T cmp_antisym *)
Theorem cmp_antisym a b : cmp T b a = CompOpp (cmp T a b).
Proof.
  unfold cmp. rewrite orderitems_antisym.
  destruct (orderitems T a b) eqn:E; reflexivity.
Qed.

(* T cmp_trans *)
Theorem lt_trans a b c : lt T a b = true -> lt T b c = true -> lt T a c = true.
Proof.
  unfold lt, orderitems. rewrite !Z.ltb_lt. intros H1 H2.
  destruct (ordz_trans (sort_tuple T a) (sort_tuple T b) (sort_tuple T c)); lia.
Qed.
Theorem le_trans a b c : le T a b = true -> le T b c = true -> le T a c = true.
Proof.
  unfold le, orderitems. rewrite !Z.leb_le. intros H1 H2.
  destruct (ordz_trans (sort_tuple T a) (sort_tuple T b) (sort_tuple T c)); lia.
Qed.
Theorem le_lt_trans a b c : le T a b = true -> lt T b c = true -> lt T a c = true.
Proof.
  unfold le, lt, orderitems. rewrite Z.leb_le, !Z.ltb_lt. intros H1 H2.
  destruct (ordz_trans (sort_tuple T a) (sort_tuple T b) (sort_tuple T c)); lia.
Qed.
Theorem eq_trans a b c : eq T a b = true -> eq T b c = true -> eq T a c = true.
Proof. unfold eq, orderitems. rewrite !Z.eqb_eq. apply ordz_eq_trans. Qed.
Theorem eq_refl a : eq T a a = true.
Proof. unfold eq, orderitems. rewrite ordz_refl. reflexivity. Qed.
Theorem eq_sym a b : eq T a b = eq T b a.
Proof.
  unfold eq. rewrite (orderitems_antisym a b).
  destruct (orderitems T a b); reflexivity.
Qed.

(* T cmp_total: the five operators are one total order consistent with ==. *)
Theorem cmp_total a b :
  (le T a b = true \/ le T b a = true) /\
  lt T a b = negb (le T b a) /\
  gt T a b = lt T b a /\ ge T a b = le T b a /\
  eq T a b = le T a b && le T b a /\
  lt T a b = le T a b && negb (eq T a b).
Proof.
  unfold le, lt, gt, ge, eq. rewrite (orderitems_antisym a b).
  set (z := orderitems T a b).
  repeat split.
  - destruct (z <=? 0) eqn:E; [now left|right]. apply Z.leb_le. apply Z.leb_gt in E. lia.
  - destruct (z <? 0) eqn:E1; destruct (- z <=? 0) eqn:E2; simpl;
      rewrite ?Z.ltb_lt, ?Z.ltb_ge, ?Z.leb_le, ?Z.leb_gt in *; try reflexivity; lia.
  - destruct (0 <? z) eqn:E1; destruct (- z <? 0) eqn:E2;
      rewrite ?Z.ltb_lt, ?Z.ltb_ge in *; try reflexivity; lia.
  - destruct (0 <=? z) eqn:E1; destruct (- z <=? 0) eqn:E2;
      rewrite ?Z.leb_le, ?Z.leb_gt in *; try reflexivity; lia.
  - destruct (z =? 0) eqn:E0; destruct (z <=? 0) eqn:E1; destruct (- z <=? 0) eqn:E2; simpl;
      rewrite ?Z.eqb_eq, ?Z.eqb_neq, ?Z.leb_le, ?Z.leb_gt in *; try reflexivity; lia.
  - destruct (z =? 0) eqn:E0; destruct (z <=? 0) eqn:E1; destruct (z <? 0) eqn:E2; simpl;
      rewrite ?Z.eqb_eq, ?Z.eqb_neq, ?Z.leb_le, ?Z.leb_gt, ?Z.ltb_lt, ?Z.ltb_ge in *;
      try reflexivity; lia.
Qed.

(* T rank_first *)
Theorem rank_first a b : rank T a < rank T b -> lt T a b = true.
Proof.
  intro H. unfold lt, orderitems.
  destruct (sort_tuple_head T a) as [l1 ->], (sort_tuple_head T b) as [l2 ->].
  cbn [ordz]. destruct (rank T a - rank T b =? 0) eqn:E.
  - apply Z.eqb_eq in E. lia.
  - apply Z.ltb_lt. lia.
Qed.

Theorem hash_function H a b : sort_tuple T a = sort_tuple T b -> hashitem T H a = hashitem T H b.
Proof. unfold hashitem. now intros ->. Qed.

(* ---- arguments ---- *)
Lemma ord_seq_antisym xs : forall ys, ord_seq T ys xs = - ord_seq T xs ys.
Proof.
  induction xs as [|x xs IH]; destruct ys as [|y ys]; simpl; try reflexivity.
  rewrite (ordz_antisym (st_sent T x) (st_sent T y)).
  destruct (ordz (st_sent T x) (st_sent T y) =? 0) eqn:E.
  - apply Z.eqb_eq in E. rewrite E. simpl. apply IH.
  - apply Z.eqb_neq in E.
    destruct (- ordz (st_sent T x) (st_sent T y) =? 0) eqn:E2; [apply Z.eqb_eq in E2; lia|reflexivity].
Qed.

Theorem arg_antisym a b : ord_arg T b a = - ord_arg T a b.
Proof.
  unfold ord_arg.
  set (la := Z.of_nat (length (a_seq a))). set (lb := Z.of_nat (length (a_seq b))).
  destruct (lb - la =? 0) eqn:E1; destruct (la - lb =? 0) eqn:E2;
    rewrite ?Z.eqb_eq, ?Z.eqb_neq in *; try lia.
  apply ord_seq_antisym.
Qed.

Lemma ord_seq_trans xs : forall ys zs, length xs = length ys -> length ys = length zs ->
  ord_seq T xs ys <= 0 -> ord_seq T ys zs <= 0 ->
  ord_seq T xs zs <= 0 /\ (ord_seq T xs ys < 0 \/ ord_seq T ys zs < 0 -> ord_seq T xs zs < 0).
Proof.
  induction xs as [|x xs IH]; destruct ys as [|y ys]; destruct zs as [|z zs]; simpl;
    intros L1 L2; try discriminate; [lia|].
  injection L1 as L1. injection L2 as L2.
  pose proof (ordz_trans (st_sent T x) (st_sent T y) (st_sent T z)) as TR.
  pose proof (ordz_eq_trans (st_sent T x) (st_sent T y) (st_sent T z)) as ET.
  destruct (ordz (st_sent T x) (st_sent T y) =? 0) eqn:E1;
    destruct (ordz (st_sent T y) (st_sent T z) =? 0) eqn:E2;
    destruct (ordz (st_sent T x) (st_sent T z) =? 0) eqn:E3;
    rewrite ?Z.eqb_eq, ?Z.eqb_neq in *; intros H1 H2; try (specialize (IH ys zs L1 L2)); try lia.
Qed.

Theorem arg_trans a b c : ord_arg T a b <= 0 -> ord_arg T b c <= 0 ->
  ord_arg T a c <= 0 /\ (ord_arg T a b < 0 \/ ord_arg T b c < 0 -> ord_arg T a c < 0).
Proof.
  unfold ord_arg.
  set (la := length (a_seq a)). set (lb := length (a_seq b)). set (lc := length (a_seq c)).
  destruct (Z.of_nat la - Z.of_nat lb =? 0) eqn:E1;
    destruct (Z.of_nat lb - Z.of_nat lc =? 0) eqn:E2;
    destruct (Z.of_nat la - Z.of_nat lc =? 0) eqn:E3;
    rewrite ?Z.eqb_eq, ?Z.eqb_neq in *; try lia.
  apply ord_seq_trans; lia.
Qed.

(* length first *)
Theorem arg_length_first a b :
  (length (a_seq a) < length (a_seq b))%nat -> ord_arg T a b < 0.
Proof.
  intro H. unfold ord_arg.
  destruct (Z.of_nat (length (a_seq a)) - Z.of_nat (length (a_seq b)) =? 0) eqn:E;
    rewrite ?Z.eqb_eq, ?Z.eqb_neq in *; lia.
Qed.

Theorem arg_hash_respects H HT a b : a_seq a = a_seq b -> hash_arg T H HT a = hash_arg T H HT b.
Proof. unfold hash_arg. now intros ->. Qed.
End Order.
