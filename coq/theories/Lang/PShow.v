(* PShow — canonical structural serialisation of sentences / parse outcomes used
   by the correspondence runs (tools/c13.py, tools/c12.py; the Python side
   produces the same text from Sentence.ident in tools/probe_parse.py).
   Deliberately independent of the writers under test: numbers are printed in
   binary straight from their representation. *)
From Coq Require Import List Bool Arith NArith String Ascii.
From PT Require Import Lang.PSyntax Lang.ParsePolish.
Import ListNotations.
Open Scope string_scope.

Fixpoint pos_bits (p : positive) (acc : string) : string :=
  match p with
  | xH => String "1" acc
  | xO q => pos_bits q (String "0" acc)
  | xI q => pos_bits q (String "1" acc)
  end.

Definition showN (n : N) : string := match n with N0 => "0" | Npos p => pos_bits p "" end.
Definition shown (n : nat) : string := showN (N.of_nat n).

Definition show_param (p : param) : string :=
  match p with
  | Const i s => "c" ++ shown i ++ "." ++ showN s
  | Var i s => "v" ++ shown i ++ "." ++ showN s
  end.

Definition show_uop (o : uop) : string :=
  match o with Assertion => "As" | Negation => "Ne" | Possibility => "Po" | Necessity => "Nc" end.
Definition show_bop (o : bop) : string :=
  match o with Conjunction => "Cj" | Disjunction => "Dj" | MaterialConditional => "Mc"
             | MaterialBiconditional => "Mb" | Conditional => "Cd" | Biconditional => "Bc" end.
Definition show_quant (q : quant) : string :=
  match q with Existential => "Ex" | Universal => "Un" end.

Definition show_pred (p : pred) : string :=
  match p with
  | PSys Identity => "Id"
  | PSys Existence => "Et"
  | PUser i s a => "P" ++ shown i ++ "." ++ showN s ++ "/" ++ shown a
  end.

Fixpoint show_sent (s : sent) : string :=
  match s with
  | Atom i sub => "A" ++ shown i ++ "." ++ showN sub
  | Pred p args => show_pred p ++ "(" ++ concat "," (map show_param args) ++ ")"
  | Quant q (i, sub) b => show_quant q ++ " v" ++ shown i ++ "." ++ showN sub ++ "[" ++ show_sent b ++ "]"
  | Un o a => show_uop o ++ "[" ++ show_sent a ++ "]"
  | Bin o a b => show_bop o ++ "[" ++ show_sent a ++ "|" ++ show_sent b ++ "]"
  end.

Definition show_perr (e : perr) : string :=
  match e with
  | PEParse => "ParseError" | PEUnbound => "UnboundVariableError"
  | PEBound => "BoundVariableError" | PEUndef => "UndefinedPredicateError"
  end.

Definition show_oerr (e : oerr) : string :=
  match e with
  | OEKey => "KeyError" | OEIndex => "IndexError" | OEValue => "ValueError"
  | OEType => "TypeError" | OEAttr => "AttributeError" | OEFuel => "FUEL"
  end.

Definition show_res (r : res sent) : string :=
  match r with
  | OK s => "OK " ++ show_sent s
  | PErr e => "E " ++ show_perr e
  | OErr e => "E " ++ show_oerr e
  end.

Definition show_decl (d : decl) : string :=
  match d with (i, s, a) => shown i ++ "." ++ showN s ++ "/" ++ shown a end.

Definition show_store (P : store) : string := concat ";" (map show_decl P).

(* one parse on a fresh parser: "<outcome> # <store afterwards>" *)
Definition show_parse (x : res sent * store) : string :=
  show_res (fst x) ++ " # " ++ show_store (snd x).

(* a history on one parser instance: outcomes, then the final store *)
Definition show_history (x : list (res sent) * store) : list string :=
  map show_res (fst x) ++ [show_store (snd x)].

(* compact code for bulk (exhaustive) runs: 0 = ParseError family by kind .. *)
Definition code_res (r : res sent) : string :=
  match r with
  | OK s => show_sent s
  | PErr PEParse => "p" | PErr PEUnbound => "u" | PErr PEBound => "b" | PErr PEUndef => "d"
  | OErr e => "!" ++ show_oerr e
  end.
