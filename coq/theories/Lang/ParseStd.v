(* ParseStd — executable model of pytableaux/lang/parsing.py StandardParser
   (with the DefaultParser methods it inherits and ParseContext), same conventions as
   Lang/ParsePolish.v (remaining-suffix context, explicit exception outcomes, threaded
   predicate store, __exit__ masking).

   Standard-specific code modelled here:
   * _read_operated: only unary operators may be prefix;
   * _read_from_paren_open: scan ahead from the open parenthesis for the matching close
     parenthesis and THE binary operator at depth 1 (two of them, none, or no matching
     close parenthesis: ParseError); read lhs, require that it ends exactly at the operator
     (position comparison = equal remaining length, both being suffixes of the input),
     read rhs, require the close parenthesis;
   * _read_infix_predicated: parameter, then a predicate symbol of arity >= 2 (declared,
     system, or auto-declared from the number of parameters that follow plus one);
   * __call__: on ParseError retry once with the input wrapped in the table's parenthesis
     characters (drop_parens, default on); if the retry fails with ParseError the FIRST error
     is re-raised; the store keeps whatever either attempt auto-declared. *)
From Coq Require Import List Bool Arith NArith Lia.
From PT Require Import Lang.PSyntax Lang.ParsePolish.
Import ListNotations.

Record sopts := { drop_parens : bool; popen : N; pclose : N }.

(* the scan-ahead of _read_from_paren_open over the characters after the open paren;
   found = the binary operator at depth 1 and the length of the suffix that starts at it *)
Fixpoint scan (T : ptable) (r : str) (depth : nat) (found : option (bop * nat))
  : res (option (bop * nat)) :=
  match r with
  | [] => PErr PEParse                                    (* unterminated open paren *)
  | c :: r' =>
    match tlookup T c with
    | Some IParenClose =>
        match depth with
        | 0 => OK found                                   (* unreachable: depth >= 1 *)
        | 1 => OK found
        | S d => scan T r' d found
        end
    | Some IParenOpen => scan T r' (S depth) found
    | Some (IOper2 o) =>
        if depth =? 1 then
          match found with
          | Some _ => PErr PEParse                        (* second binary operator *)
          | None => scan T r' depth (Some (o, length r))
          end
        else scan T r' depth found
    | _ => scan T r' depth found
    end
  end.

Fixpoint read_std (C : cfg) (F k : nat) (B : list var) (r : str) (P : store) {struct k}
  : res sent * str * store :=
  let T := tab C in
  match k with
  | 0 => (OErr OEFuel, r, P)
  | S k' =>
    match r with
    | [] => (PErr PEParse, r, P)
    | c :: _ =>
      match tlookup T c with
      | Some (IOper1 o) =>
          bind3 (read_std C F k' B (advance T r) P) (fun a r1 P1 => (OK (Un o a), r1, P1))
      | Some (IOper2 _) => (PErr PEParse, r, P)           (* non-prefix operator *)
      | Some (IAtom i) =>
          bind2 (read_coords T F r) P (fun s r1 => (mk_atom i s, r1, P))
      | Some (IQuant q) =>
          let r1 := advance T r in
          match r1 with
          | [] => (PErr PEParse, r1, P)
          | c1 :: _ =>
            match tlookup T c1 with
            | Some (IVar i) =>
                bind2 (read_coords T F r1) P (fun s r2 =>
                  match mk_var i s with
                  | OK _ =>
                    if vmem (i, s) B then (PErr PEBound, r2, P)
                    else
                      bind3 (read_std C F k' ((i, s) :: B) r2 P) (fun body r3 P3 =>
                        if occurs (i, s) body then (OK (Quant q (i, s) body), r3, P3)
                        else (PErr PEBound, r3, P3))
                  | PErr e => (PErr e, r2, P)
                  | OErr e => (OErr e, r2, P)
                  end)
            | _ => (PErr PEParse, r1, P)
            end
          end
      | Some (ISys p) =>                                   (* prefix system predicate *)
          bind2 (read_params T F B (sys_arity p) (advance T r)) P (fun ps r2 =>
            (OK (Pred (PSys p) ps), r2, P))
      | Some (IPred i) =>                                  (* prefix user predicate *)
          bind2 (read_coords T F r) P (fun s r1 =>
            match slookup P (i, s) with
            | Some a =>
                bind2 (read_params T F B a r1) P (fun ps r2 =>
                  (OK (Pred (PUser i s a) ps), r2, P))
            | None =>
                if auto_preds C then
                  bind2 (read_params_auto T F F B r1) P (fun ps r2 =>
                    let a := length ps in
                    if (a =? 0) || negb (i <=? maxi_pred) then (PErr PEParse, r2, P)
                    else if frozen C then (OErr OEAttr, r2, P)
                    else (OK (Pred (PUser i s a) ps), r2, P ++ [(i, s, a)]))
                else (PErr PEUndef, r1, P)
            end)
      | Some IParenOpen =>                                 (* _read_from_paren_open *)
          match scan T (tl r) 1 None with
          | OK (Some (o, n)) =>
              bind3 (read_std C F k' B (advance T r) P) (fun lhs r1 P1 =>
                let r1' := chomp T r1 in
                if length r1' =? n then
                  bind3 (read_std C F k' B (advance T r1') P1) (fun rhs r2 P2 =>
                    let r2' := chomp T r2 in
                    match r2' with
                    | [] => (PErr PEParse, r2', P2)
                    | c2 :: _ =>
                      match tlookup T c2 with
                      | Some IParenClose => (OK (Bin o lhs rhs), advance T r2', P2)
                      | _ => (PErr PEParse, r2', P2)
                      end
                    end)
                else (PErr PEParse, r1', P1))
          | OK None => (PErr PEParse, r, P)                (* missing binary operator *)
          | PErr e => (PErr e, r, P)
          | OErr e => (OErr e, r, P)
          end
      | Some (IConst _) | Some (IVar _) =>                 (* _read_infix_predicated *)
          bind2 (read_parameter T F B r) P (fun lhp r1 =>
            match r1 with
            | [] => (PErr PEParse, r1, P)                  (* assert_current_in(pred) *)
            | c1 :: _ =>
              match tlookup T c1 with
              | Some (ISys p) =>
                  let r2 := advance T r1 in
                  if sys_arity p <? 2 then (PErr PEParse, r2, P)
                  else bind2 (read_params T F B (sys_arity p - 1) r2) P (fun ps r3 =>
                         (OK (Pred (PSys p) (lhp :: ps)), r3, P))
              | Some (IPred i) =>
                  bind2 (read_coords T F r1) P (fun s r2 =>
                    match slookup P (i, s) with
                    | Some a =>
                        if a <? 2 then (PErr PEParse, r2, P)
                        else bind2 (read_params T F B (a - 1) r2) P (fun ps r3 =>
                               (OK (Pred (PUser i s a) (lhp :: ps)), r3, P))
                    | None =>
                        if auto_preds C then
                          bind2 (read_params_auto T F F B r2) P (fun ps r3 =>
                            let a := S (length ps) in
                            if (a <? 2) || negb (i <=? maxi_pred) then (PErr PEParse, r3, P)
                            else if frozen C then (OErr OEAttr, r3, P)
                            else (OK (Pred (PUser i s a) (lhp :: ps)), r3, P ++ [(i, s, a)]))
                        else (PErr PEUndef, r2, P)
                    end)
              | _ => (PErr PEParse, r1, P)
              end
            end)
      | _ => (PErr PEParse, r, P)
      end
    end
  end.

(* DefaultParser.__call__ (one context) *)
Definition parse_std_once (C : cfg) (P : store) (input : str) : res sent * store :=
  let F := S (length input) in
  finish (tab C) (read_std C F F [] (chomp (tab C) input) P).

(* StandardParser.__call__ *)
Definition parse_std_opts (C : cfg) (O : sopts) (P : store) (input : str) : res sent * store :=
  match parse_std_once C P input with
  | (PErr e, P1) =>
      if drop_parens O then
        match parse_std_once C P1 (popen O :: input ++ [pclose O]) with
        | (OK s, P2) => (OK s, P2)
        | (PErr _, P2) => (PErr e, P2)
        | (OErr e2, P2) => (OErr e2, P2)
        end
      else (PErr e, P1)
  | x => x
  end.

Fixpoint run_history_std_opts (C : cfg) (O : sopts) (P : store) (inputs : list str)
  : list (res sent) * store :=
  match inputs with
  | [] => ([], P)
  | i :: rest =>
    let (v, P1) := parse_std_opts C O P i in
    let (vs, P2) := run_history_std_opts C O P1 rest in
    (v :: vs, P2)
  end.
