(* C14 — the repaired construction cache is invisible, and every well-formed
   item rebuilds from its spec and its ident.  Model: Lang/Cache.v with
   [sysfix := true] (the current /repo). *)
From Coq Require Import List Bool ZArith NArith String Lia.
From PT Require Import Sem.Values Lang.Syntax Lang.Lex Lang.Cache.
Import ListNotations.
Open Scope string_scope.
Open Scope Z_scope.

(* ------------------------------------------------------------ key equality *)
Lemma pv_eqb_tup l m : pv_eqb (PTup l) (PTup m) = list_eqb pv_eqb l m.
Proof.
  revert m. induction l as [|x l IH]; destruct m as [|y m]; try reflexivity.
  change (pv_eqb (PTup (x :: l)) (PTup (y :: m))) with (pv_eqb x y && pv_eqb (PTup l) (PTup m)).
  now rewrite IH.
Qed.

Fixpoint pvsize (x : pv) : nat :=
  match x with
  | PTup l => S ((fix go (l : list pv) : nat := match l with [] => O | y :: l' => (pvsize y + go l')%nat end) l)
  | _ => 1%nat
  end.
Definition pvsizes (l : list pv) : nat := fold_right (fun y n => (pvsize y + n)%nat) O l.
Lemma pvsize_tup l : pvsize (PTup l) = S (pvsizes l).
Proof. simpl. f_equal. all: induction l as [|x l IH]; simpl; [reflexivity|rewrite IH; reflexivity]. Qed.

Lemma pv_eqb_eq_n n : forall a b, (pvsize a < n)%nat -> pv_eqb a b = true -> a = b.
Proof.
  induction n as [|n IH]; intros a b Hn H; [lia|].
  destruct a as [x|x|l|x], b as [y|y|m|y]; try discriminate H.
  - simpl in H. apply Z.eqb_eq in H. now subst.
  - simpl in H. apply String.eqb_eq in H. now subst.
  - rewrite pv_eqb_tup in H. rewrite pvsize_tup in Hn. f_equal.
    revert m H Hn. induction l as [|a l IHl]; destruct m as [|b m]; simpl; intros H Hn;
      try discriminate; [reflexivity|].
    apply andb_true_iff in H as [H1 H2]. f_equal.
    + apply IH; [lia|exact H1].
    + apply IHl; [exact H2|lia].
  - simpl in H. apply item_eqb_eq in H. now subst.
Qed.

Lemma pv_eqb_eq a b : pv_eqb a b = true -> a = b.
Proof. apply (pv_eqb_eq_n (S (pvsize a))). lia. Qed.

Lemma cls_name_inj a b : cls_name a = cls_name b -> a = b.
Proof. destruct a, b; simpl; intro H; try reflexivity; discriminate H. Qed.

Lemma key_eqb_eq (a b : key) : key_eqb a b = true -> a = b.
Proof.
  destruct a as [n1 a1], b as [n2 a2]. unfold key_eqb, pvs_eqb. simpl fst. simpl snd. intro H.
  apply andb_true_iff in H as [H1 H2]. apply String.eqb_eq in H1. apply pv_eqb_eq in H2.
  injection H2 as ->. now subst.
Qed.

Lemma cls_of_name_some cn C : cls_of_name cn = Some C -> cn = cls_name C /\ concrete C = true.
Proof.
  unfold cls_of_name. intro H. apply find_some in H as [HI H]. apply String.eqb_eq in H.
  split; [now symmetry|]. simpl in HI.
  repeat (destruct HI as [<-|HI]; [reflexivity|]). contradiction.
Qed.

Lemma cls_of_name_name C : concrete C = true -> cls_of_name (cls_name C) = Some C.
Proof. destruct C; simpl; intro H; try discriminate H; reflexivity. Qed.

(* ------------------------------------------------- "for all large enough n" *)
Definition Ev (Q : nat -> Prop) : Prop := exists n0, forall n, (n0 <= n)%nat -> Q n.

Lemma Ev_const (P : Prop) : P -> Ev (fun _ => P).
Proof. intro H. exists O. auto. Qed.
Lemma Ev_and P Q : Ev P -> Ev Q -> Ev (fun n => P n /\ Q n).
Proof.
  intros [a Ha] [b Hb]. exists (Nat.max a b). intros n Hn. split; [apply Ha|apply Hb]; lia.
Qed.
Lemma Ev_imp (P Q : nat -> Prop) : (forall n, P n -> Q n) -> Ev P -> Ev Q.
Proof. intros H [a Ha]. exists a. auto. Qed.
Lemma Ev_shift (Q : nat -> Prop) : Ev (fun n => Q (S n)) -> Ev Q.
Proof.
  intros [a Ha]. exists (S a). intros n Hn. destruct n as [|n]; [lia|]. apply Ha. lia.
Qed.
Lemma Ev_agree {A} (f : nat -> A) (x y : A) : Ev (fun n => f n = x) -> Ev (fun n => f n = y) -> x = y.
Proof.
  intros [a Ha] [b Hb]. rewrite <- (Ha (Nat.max a b)), <- (Hb (Nat.max a b)) by lia. reflexivity.
Qed.

(* The eventual, state-independent, cache-free result of a family of
   computations indexed by fuel. *)
Definition DenM {A} (m : nat -> M A) (r : R A) : Prop :=
  Ev (fun n => forall s, m n s = (r, s)).

(* Den k args r: the cache-free construction of class k on args yields r (for every
   sufficiently large fuel, whatever the state, leaving the state alone). *)
Definition Den (k : cls) (args : list pv) (r : res) : Prop :=
  DenM (fun n => call n nocache k args) r.

Lemma DenM_agree {A} (m : nat -> M A) r1 r2 : DenM m r1 -> DenM m r2 -> r1 = r2.
Proof.
  intros H1 H2.
  assert (E : (r1, empty) = (r2, empty)).
  { apply (Ev_agree (fun n => m n empty)).
    - eapply Ev_imp; [|exact H1]. intros n H. apply H.
    - eapply Ev_imp; [|exact H2]. intros n H. apply H. }
  now injection E.
Qed.

Lemma DenM_lift {A} (r : R A) : DenM (fun _ => lift r) r.
Proof. exists O. intros n _ s. reflexivity. Qed.

Lemma DenM_ext {A} (m m' : nat -> M A) r : (forall n s, m n s = m' n s) -> DenM m r -> DenM m' r.
Proof. intros E. apply Ev_imp. intros n H s. rewrite <- E. apply H. Qed.

Lemma DenM_bind {A B} (m : nat -> M A) (f : nat -> A -> M B) a r :
  DenM m (OK a) -> DenM (fun n => f n a) r -> DenM (fun n => bind (m n) (f n)) r.
Proof.
  intros H1 H2. eapply Ev_imp; [|exact (Ev_and _ _ H1 H2)].
  intros n [E1 E2] s. unfold bind. rewrite E1. apply E2.
Qed.
Lemma DenM_bind_err {A B} (m : nat -> M A) (f : nat -> A -> M B) e :
  DenM m (Err e) -> DenM (fun n => bind (m n) (f n)) (Err e).
Proof. apply Ev_imp. intros n E s. unfold bind. now rewrite E. Qed.

(* ------------------------------------------------------------- simulation *)
(* A (cached) computation m1 preserves the invariant P, returns only results
   satisfying W, and whenever it does not run out of fuel its result is the
   eventual result of the cache-free family m2. *)
Definition Sim {A} (P : cache -> Prop) (W : A -> Prop) (m1 : M A) (m2 : nat -> M A) : Prop :=
  forall s1, P s1 ->
    P (snd (m1 s1)) /\ (forall a, fst (m1 s1) = OK a -> W a) /\
    (fst (m1 s1) <> Fuel -> DenM m2 (fst (m1 s1))).

Lemma Sim_lift {A} P (W : A -> Prop) (r : R A) :
  (forall a, r = OK a -> W a) -> Sim P W (lift r) (fun _ => lift r).
Proof. intros H s1 HP. simpl. repeat split; auto. intros _. apply DenM_lift. Qed.

Lemma Sim_bind {A B} P (W1 : A -> Prop) (W2 : B -> Prop) m1 m2 (f1 : A -> M B) (f2 : nat -> A -> M B) :
  Sim P W1 m1 m2 -> (forall a, W1 a -> Sim P W2 (f1 a) (fun n => f2 n a)) ->
  Sim P W2 (bind m1 f1) (fun n => bind (m2 n) (f2 n)).
Proof.
  intros H1 H2 s1 HP. destruct (H1 s1 HP) as [HP1 [HW1 HD1]].
  destruct (m1 s1) as [[a|e|] s1'] eqn:E; cbn [fst snd] in *.
  - assert (X : bind m1 f1 s1 = f1 a s1') by (unfold bind; now rewrite E). rewrite X.
    destruct (H2 a (HW1 a eq_refl) s1' HP1) as [HP2 [HW2 HD2]].
    split; [exact HP2|]. split; [exact HW2|]. intro NF.
    apply DenM_bind with a; [apply HD1; discriminate|apply HD2; exact NF].
  - assert (X : bind m1 f1 s1 = (Err e, s1')) by (unfold bind; now rewrite E). rewrite X.
    cbn [fst snd].
    split; [exact HP1|]. split; [intros a X0; discriminate X0|]. intros _.
    apply DenM_bind_err. apply HD1. discriminate.
  - assert (X : bind m1 f1 s1 = (Fuel, s1')) by (unfold bind; now rewrite E). rewrite X.
    cbn [fst snd].
    split; [exact HP1|]. split; [intros a X0; discriminate X0|]. intro X0. now destruct X0.
Qed.

Lemma Sim_ext {A} P (W : A -> Prop) m1 m1' (m2 m2' : nat -> M A) :
  (forall s, m1 s = m1' s) -> (forall n s, m2 n s = m2' n s) -> Sim P W m1 m2 -> Sim P W m1' m2'.
Proof.
  intros E1 E2 H s1 HP. rewrite <- E1. destruct (H s1 HP) as [A1 [A2 A3]].
  repeat split; auto. intro NF. eapply DenM_ext; [exact E2|auto].
Qed.

(* ------------------------------------------------------------ well-formed *)
Fixpoint pv_wf (x : pv) : bool :=
  match x with
  | PItem a => wf_item a
  | PTup l => (fix go (l : list pv) : bool := match l with [] => true | y :: l' => pv_wf y && go l' end) l
  | _ => true
  end.
Lemma pv_wf_tup l : pv_wf (PTup l) = forallb pv_wf l.
Proof. simpl. induction l as [|x l IH]; simpl; [reflexivity|]. now rewrite IH. Qed.
Definition args_wf (l : list pv) : bool := forallb pv_wf l.
Definition WI (a : item) : Prop := wf_item a = true.

Lemma call_unfold f c k args :
  call (S f) c k args =
  match k with
  | CQuantifier | COperator => construct (call f c) k args
  | _ =>
      match special c k args with
      | Some r => lift r
      | None =>
          fun st =>
            match lookup c st (cls_name k, args) with
            | Some v => (OK v, st)
            | None =>
                match construct (call f c) k args st with
                | (OK inst, st1) => (OK inst, save2 c st1 (cls_name k, args) inst)
                | (Err ETypeError, st1) => fallback (call f c) c k args st1
                | other => other
                end
            end
      end
  end.
Proof. reflexivity. Qed.

(* --------------------------------------- results of the builders are wf *)
Lemma build_coords_wf k l a : build_coords k l = OK a -> WI a.
Proof.
  unfold build_coords, WI. destruct l as [|[i| | |] [|[s| | |] [|]]]; try discriminate.
  destruct (MAXI k <? i) eqn:E1; try discriminate. destruct (s <? 0) eqn:E2; try discriminate.
  destruct (i <? 0) eqn:E3; try discriminate.
  apply Z.ltb_ge in E1, E2, E3.
  destruct k; try discriminate; intros [= <-]; simpl; unfold MAXI in E1;
    apply N.leb_le; unfold MAXI_COORD, MAXI_ATOMIC; lia.
Qed.

Lemma build_pred_wf l a : build_pred l = OK a -> WI a.
Proof.
  unfold build_pred, WI. destruct l as [|[i| | |] [|[s| | |] [|[n| | |] rest]]]; try discriminate.
  destruct (3 <? i) eqn:E1; try discriminate. destruct (s <? 0) eqn:E2; try discriminate.
  destruct (n <=? 0) eqn:E3; try discriminate. destruct (i <? 0) eqn:E4; try discriminate.
  destruct rest; try discriminate. intros [= <-].
  apply Z.ltb_ge in E1, E2, E4. apply Z.leb_gt in E3.
  simpl. unfold wf_pred, is_system. cbn [pidx parity].
  destruct (i <? 0) eqn:E5; [apply Z.ltb_lt in E5; lia|].
  apply andb_true_iff. split; [apply Z.leb_le; unfold MAXI_COORD; simpl; lia|apply N.ltb_lt; lia].
Qed.

Lemma quant_of_wf x a : quant_of x = OK a -> WI a.
Proof.
  unfold quant_of, WI. destruct x as [| s | |[| |q| |]]; try discriminate.
  - destruct (find _ _); try discriminate. now intros [= <-].
  - now intros [= <-].
Qed.
Lemma oper_of_wf x a : oper_of x = OK a -> WI a.
Proof.
  unfold oper_of, WI. destruct x as [| s | |[| | |o|]]; try discriminate.
  - destruct (find _ _); try discriminate. now intros [= <-].
  - now intros [= <-].
Qed.

Lemma params_of_items_wf items : Forall WI items -> forall ps, params_of_items items = Some ps ->
  forallb wf_param ps = true.
Proof.
  induction 1 as [|a items Wa _ IH]; simpl; intros ps E.
  - now injection E as <-.
  - destruct a as [|p| | |]; try discriminate.
    destruct (params_of_items items) as [r|] eqn:E2; try discriminate.
    injection E as <-. simpl. unfold WI in Wa. simpl in Wa. rewrite Wa. now apply IH.
Qed.
Lemma sents_of_items_wf items : Forall WI items -> forall ss, sents_of_items items = Some ss ->
  forallb wf_sent ss = true.
Proof.
  induction 1 as [|a items Wa _ IH]; simpl; intros ps E.
  - now injection E as <-.
  - destruct a as [| | | |s]; try discriminate.
    destruct (sents_of_items items) as [r|] eqn:E2; try discriminate.
    injection E as <-. simpl. unfold WI in Wa. simpl in Wa. rewrite Wa. now apply IH.
Qed.

Lemma mk_predicated_wf p items a : wf_pred p = true -> Forall WI items ->
  mk_predicated p items = OK a -> WI a.
Proof.
  intros Wp Wi. unfold mk_predicated, WI.
  destruct (params_of_items items) as [ps|] eqn:E; try discriminate.
  destruct (Nat.eqb _ _) eqn:E2; try discriminate. intros [= <-]. simpl.
  now rewrite Wp, E2, (params_of_items_wf _ Wi _ E).
Qed.
Lemma mk_operated_wf o items a : Forall WI items -> mk_operated o items = OK a -> WI a.
Proof.
  intros Wi. unfold mk_operated, WI.
  destruct (sents_of_items items) as [ss|] eqn:E; try discriminate.
  pose proof (sents_of_items_wf _ Wi _ E) as Ws.
  destruct ss as [|x [|y [|]]]; try discriminate.
  - destruct (Nat.eqb _ _) eqn:E2; try discriminate. intros [= <-]. simpl in *.
    apply andb_true_iff in Ws as [Wx _]. now rewrite E2, Wx.
  - destruct (Nat.eqb _ _) eqn:E2; try discriminate. intros [= <-]. simpl in *.
    apply andb_true_iff in Ws as [Wx Ws]. apply andb_true_iff in Ws as [Wy _]. now rewrite E2, Wx, Wy.
Qed.

(* ------------------------------------------------ simulation of construct *)
Section ConstructSim.
Variable P : cache -> Prop.
Variable rec1 : cls -> list pv -> M item.
Hypothesis HREC : forall k a, args_wf a = true ->
  Sim P WI (rec1 k a) (fun n => call n nocache k a).

Lemma map_call_sim k l : forallb pv_wf l = true ->
  Sim P (Forall WI) (map_call rec1 k l) (fun n => map_call (call n nocache) k l).
Proof.
  induction l as [|x l IH]; cbn [map_call]; intro H.
  - apply Sim_lift. intros a [= <-]. constructor.
  - simpl in H. apply andb_true_iff in H as [H1 H2].
    apply (Sim_bind P WI (Forall WI) _ (fun n => call n nocache k [x]) _
             (fun n a0 => bind (map_call (call n nocache) k l) (fun r => lift (OK (a0 :: r))))).
    + apply HREC. unfold args_wf. simpl. now rewrite H1.
    + intros a0 Wa0.
      apply (Sim_bind P (Forall WI) (Forall WI) _ (fun n => map_call (call n nocache) k l) _
               (fun n r => lift (OK (a0 :: r)))).
      * now apply IH.
      * intros r Wr. apply Sim_lift. intros y [= <-]. now constructor.
Qed.

Lemma as_pred_sim a : WI a -> Sim P (fun p => wf_pred p = true) (as_pred a) (fun _ => as_pred a).
Proof.
  intro W. destruct a; cbn [as_pred]; apply Sim_lift; intros y E; try discriminate E.
  injection E as <-. exact W.
Qed.
Lemma as_quant_sim a : Sim P (fun _ => True) (as_quant a) (fun _ => as_quant a).
Proof. destruct a; cbn [as_quant]; apply Sim_lift; auto. Qed.
Lemma as_oper_sim a : Sim P (fun _ => True) (as_oper a) (fun _ => as_oper a).
Proof. destruct a; cbn [as_oper]; apply Sim_lift; auto. Qed.
Lemma as_sent_sim a : WI a -> Sim P (fun s => wf_sent s = true) (as_sent a) (fun _ => as_sent a).
Proof.
  intro W. destruct a; cbn [as_sent]; apply Sim_lift; intros y E; try discriminate E.
  injection E as <-. exact W.
Qed.
Lemma as_var_sim a : WI a ->
  Sim P (fun v => N.leb (fst v) MAXI_COORD = true) (as_var a) (fun _ => as_var a).
Proof.
  intro W. destruct a as [|[i s|i s]| | |]; cbn [as_var]; apply Sim_lift; intros y E; try discriminate E.
  injection E as <-. exact W.
Qed.

(* the parameters / operands argument: an instance, or a tuple of things to convert *)
Lemma items_sim (K : cls) (sel : item -> bool) (x : pv) :
  pv_wf x = true ->
  Sim P (Forall WI) (items_arg rec1 K sel x) (fun n => items_arg (call n nocache) K sel x).
Proof.
  intro W. destruct x as [z|s|l|a]; cbn [items_arg].
  - apply Sim_lift. discriminate.
  - apply Sim_lift. discriminate.
  - apply map_call_sim. now rewrite <- pv_wf_tup.
  - destruct (sel a); apply Sim_lift; try discriminate. intros y [= <-]. constructor; [exact W|constructor].
Qed.

Lemma rest_wf (rest : list pv) : args_wf rest = true ->
  pv_wf (match rest with [x] => x | _ => PTup rest end) = true.
Proof.
  intro W. destruct rest as [|x [|y r]]; try (rewrite pv_wf_tup; exact W).
  unfold args_wf in W. simpl in W. now rewrite andb_true_r in W.
Qed.

Lemma construct_sim k args : args_wf args = true ->
  Sim P WI (construct rec1 k args) (fun n => construct (call n nocache) k args).
Proof.
  intro W. destruct k; cbn [construct].
  - (* Predicate *) apply Sim_lift. intros a E. destruct (unwrap1 args); [now apply build_pred_wf in E|discriminate].
  - apply Sim_lift. intros a E. destruct (unwrap1 args); [now apply build_coords_wf in E|discriminate].
  - apply Sim_lift. intros a E. destruct (unwrap1 args); [now apply build_coords_wf in E|discriminate].
  - (* Quantifier *) apply Sim_lift. intros a E. destruct args as [|x [|]]; try discriminate. now apply quant_of_wf in E.
  - apply Sim_lift. intros a E. destruct args as [|x [|]]; try discriminate. now apply oper_of_wf in E.
  - apply Sim_lift. intros a E. destruct (unwrap1 args); [now apply build_coords_wf in E|discriminate].
  - (* Predicated *)
    destruct args as [|parg rest]; [apply Sim_lift; discriminate|].
    unfold args_wf in W. simpl in W. apply andb_true_iff in W as [W1 W2].
    eapply Sim_bind; [apply HREC; unfold args_wf; simpl; now rewrite W1|].
    intros a Wa. cbv beta. eapply Sim_bind; [apply (as_pred_sim a Wa)|].
    intros p Wp. cbv beta. eapply Sim_bind; [apply items_sim; now apply rest_wf|].
    intros items Wi. cbv beta. apply Sim_lift. intros y E. now apply mk_predicated_wf in E.
  - (* Quantified *)
    destruct args as [|q [|v [|s [|]]]]; try (apply Sim_lift; discriminate).
    unfold args_wf in W. simpl in W. apply andb_true_iff in W as [W1 W]. apply andb_true_iff in W as [W2 W].
    apply andb_true_iff in W as [W3 _].
    eapply Sim_bind; [apply (Sim_lift P WI); intros a E; now apply quant_of_wf in E|].
    intros a Wa. cbv beta. eapply Sim_bind; [apply as_quant_sim|].
    intros qq _. cbv beta. eapply Sim_bind; [apply HREC; unfold args_wf; simpl; now rewrite W2|].
    intros a1 Wa1. cbv beta. eapply Sim_bind; [apply (as_var_sim a1 Wa1)|].
    intros vv Wv. cbv beta. eapply Sim_bind; [apply HREC; unfold args_wf; simpl; now rewrite W3|].
    intros a2 Wa2. cbv beta. eapply Sim_bind; [apply (as_sent_sim a2 Wa2)|].
    intros b Wb. cbv beta. apply Sim_lift. intros y [= <-]. unfold WI. simpl. now rewrite Wv, Wb.
  - (* Operated *)
    destruct args as [|oarg rest]; [apply Sim_lift; discriminate|].
    unfold args_wf in W. simpl in W. apply andb_true_iff in W as [W1 W2].
    eapply Sim_bind; [apply (Sim_lift P WI); intros a E; now apply oper_of_wf in E|].
    intros a Wa. cbv beta. eapply Sim_bind; [apply as_oper_sim|].
    intros o _. cbv beta. eapply Sim_bind; [apply items_sim; now apply rest_wf|].
    intros items Wi. cbv beta. apply Sim_lift. intros y E. now apply mk_operated_wf in E.
  - apply Sim_lift; discriminate.
  - apply Sim_lift; discriminate.
  - apply Sim_lift; discriminate.
  - apply Sim_lift; discriminate.
Qed.
End ConstructSim.

(* ------------------------------------------- the cache-free call, unfolded *)
Definition is_enum (k : cls) : bool := match k with CQuantifier | COperator => true | _ => false end.

Lemma call_nocache_unfold n k args s : is_enum k = false -> special nocache k args = None ->
  call (S n) nocache k args s =
  match construct (call n nocache) k args s with
  | (OK inst, st1) => (OK inst, st1)
  | (Err ETypeError, st1) => fallback (call n nocache) nocache k args st1
  | other => other
  end.
Proof. intros E S0. rewrite call_unfold. destruct k; try discriminate E; rewrite S0; reflexivity. Qed.

Lemma call_nocache_special n k args r s : is_enum k = false -> special nocache k args = Some r ->
  call (S n) nocache k args s = (r, s).
Proof. intros E S0. rewrite call_unfold. destruct k; try discriminate E; rewrite S0; reflexivity. Qed.

Lemma den_special k args r : is_enum k = false -> special nocache k args = Some r -> Den k args r.
Proof.
  intros E S0. exists 1%nat. intros n Hn s. destruct n as [|n]; [lia|].
  now apply call_nocache_special.
Qed.

Lemma den_of_construct k args a : is_enum k = false -> special nocache k args = None ->
  DenM (fun n => construct (call n nocache) k args) (OK a) -> Den k args (OK a).
Proof.
  intros E S0 H. apply Ev_shift. eapply Ev_imp; [|exact H]. intros n Hc s.
  rewrite (call_nocache_unfold n k args s E S0), Hc. reflexivity.
Qed.

Lemma den_of_construct_verr k args : is_enum k = false -> special nocache k args = None ->
  DenM (fun n => construct (call n nocache) k args) (Err EValueError) -> Den k args (Err EValueError).
Proof.
  intros E S0 H. apply Ev_shift. eapply Ev_imp; [|exact H]. intros n Hc s.
  rewrite (call_nocache_unfold n k args s E S0), Hc. reflexivity.
Qed.

Lemma den_of_fallback k args r : is_enum k = false -> special nocache k args = None ->
  DenM (fun n => construct (call n nocache) k args) (Err ETypeError) ->
  DenM (fun n => fallback (call n nocache) nocache k args) r -> Den k args r.
Proof.
  intros E S0 H1 H2. apply Ev_shift. eapply Ev_imp; [|exact (Ev_and _ _ H1 H2)]. intros n [Hc Hf] s.
  rewrite (call_nocache_unfold n k args s E S0), Hc. apply Hf.
Qed.

Lemma den_enum k args r : is_enum k = true ->
  DenM (fun n => construct (call n nocache) k args) r -> Den k args r.
Proof.
  intros E H. apply Ev_shift. eapply Ev_imp; [|exact H]. intros n Hc s.
  rewrite call_unfold. destruct k; try discriminate E; apply Hc.
Qed.

Lemma den_map_call K l items : Forall2 (fun x a => Den K [x] (OK a)) l items ->
  DenM (fun n => map_call (call n nocache) K l) (OK items).
Proof.
  induction 1 as [|x a l items Hx _ IH]; cbn [map_call].
  - apply DenM_lift.
  - apply DenM_bind with a; [exact Hx|].
    apply DenM_bind with items; [exact IH|apply DenM_lift].
Qed.

Lemma abstract_special K l : concrete K = false -> special nocache K [PTup l] = None.
Proof. destruct K; simpl; intro H; try discriminate H; reflexivity. Qed.

(* an abstract class given an ident falls back to the named class *)
Lemma den_fallback_ident K C sp a : concrete K = false -> (is_lexabc K || issub C K) = true ->
  concrete C = true -> Den C sp (OK a) -> Den K [PTup [PStr (cls_name C); PTup sp]] (OK a).
Proof.
  intros HK HS HC HD.
  apply den_of_fallback.
  - destruct K; try discriminate HK; reflexivity.
  - now apply abstract_special.
  - destruct K; try discriminate HK; apply DenM_lift.
  - eapply Ev_imp; [|exact HD]. intros n Hc s. unfold fallback.
    rewrite HK. cbn [List.length Nat.eqb negb orb]. rewrite (cls_of_name_name C HC), HS.
    cbn [negb]. change (lookup nocache s (cls_name C, sp)) with (@None item). rewrite Hc. reflexivity.
Qed.

(* ------------------------------------------------------------------ rebuild *)
Lemma den_param x : wf_param x = true -> Den (param_cls x) (param_spec x) (OK (IParam x)).
Proof.
  intro W. destruct x as [i s|i s]; simpl in W; apply N.leb_le in W; unfold MAXI_COORD in W;
    cbn [param_cls param_spec];
    (apply den_of_construct; [reflexivity|reflexivity|]); cbn [construct unwrap1];
    unfold build_coords; cbn [MAXI];
    (destruct (3 <? Z.of_N i) eqn:E1; [apply Z.ltb_lt in E1; lia|]);
    (destruct (Z.of_N s <? 0) eqn:E2; [apply Z.ltb_lt in E2; lia|]);
    (destruct (Z.of_N i <? 0) eqn:E3; [apply Z.ltb_lt in E3; lia|]);
    rewrite !N2Z.id; apply DenM_lift.
Qed.

Lemma den_var_tuple vi vs : N.leb vi MAXI_COORD = true ->
  Den CVariable [PTup [PInt (Z.of_N vi); PInt (Z.of_N vs)]] (OK (IParam (Var vi vs))).
Proof.
  intro W. apply N.leb_le in W. unfold MAXI_COORD in W.
  apply den_of_construct; [reflexivity|reflexivity|]. cbn [construct unwrap1].
  unfold build_coords; cbn [MAXI].
  destruct (3 <? Z.of_N vi) eqn:E1; [apply Z.ltb_lt in E1; lia|].
  destruct (Z.of_N vs <? 0) eqn:E2; [apply Z.ltb_lt in E2; lia|].
  destruct (Z.of_N vi <? 0) eqn:E3; [apply Z.ltb_lt in E3; lia|].
  rewrite !N2Z.id. apply DenM_lift.
Qed.

Lemma den_atom i t : N.leb i MAXI_ATOMIC = true ->
  Den CAtomic [PInt (Z.of_N i); PInt (Z.of_N t)] (OK (ISent (Atom i t))).
Proof.
  intro W. apply N.leb_le in W. unfold MAXI_ATOMIC in W.
  apply den_of_construct; [reflexivity|reflexivity|]. cbn [construct unwrap1].
  unfold build_coords; cbn [MAXI].
  destruct (4 <? Z.of_N i) eqn:E1; [apply Z.ltb_lt in E1; lia|].
  destruct (Z.of_N t <? 0) eqn:E2; [apply Z.ltb_lt in E2; lia|].
  destruct (Z.of_N i <? 0) eqn:E3; [apply Z.ltb_lt in E3; lia|].
  rewrite !N2Z.id. apply DenM_lift.
Qed.

Lemma wf_pred_cases p : wf_pred p = true ->
  p = Identity \/ p = Existence \/
  (0 <= pidx p <= 3 /\ (0 < parity p)%N).
Proof.
  unfold wf_pred, is_system. destruct (pidx p <? 0) eqn:E.
  - intro H. apply orb_true_iff in H as [H|H]; apply pred_eqb_eq in H; auto.
  - intro H. apply andb_true_iff in H as [H1 H2]. apply Z.ltb_ge in E. apply Z.leb_le in H1.
    apply N.ltb_lt in H2. unfold MAXI_COORD in H1. simpl in H1. right. right. lia.
Qed.

Lemma build_pred_ok i s a : 0 <= i <= 3 -> (0 < a)%N ->
  build_pred [PInt i; PInt (Z.of_N s); PInt (Z.of_N a)] = OK (IPred (mkPred i s a)).
Proof.
  intros Hi Ha. unfold build_pred.
  destruct (3 <? i) eqn:E1; [apply Z.ltb_lt in E1; lia|].
  destruct (Z.of_N s <? 0) eqn:E2; [apply Z.ltb_lt in E2; lia|].
  destruct (Z.of_N a <=? 0) eqn:E3; [apply Z.leb_le in E3; lia|].
  destruct (i <? 0) eqn:E4; [apply Z.ltb_lt in E4; lia|].
  now rewrite !N2Z.id.
Qed.

Lemma den_pred p : wf_pred p = true ->
  Den CPredicate (pred_spec p) (OK (IPred p)) /\ Den CPredicate [PTup (pred_spec p)] (OK (IPred p)).
Proof.
  intro W. destruct (wf_pred_cases p W) as [->|[->|[Hi Ha]]].
  - split; apply den_special; reflexivity.
  - split; apply den_special; reflexivity.
  - destruct p as [i s a]. cbn [pidx psub parity pred_spec] in *.
    assert (S3 : special nocache CPredicate [PInt i; PInt (Z.of_N s); PInt (Z.of_N a)] = None).
    { destruct i as [|q|q]; [reflexivity|reflexivity|lia]. }
    assert (S1 : special nocache CPredicate [PTup [PInt i; PInt (Z.of_N s); PInt (Z.of_N a)]] = None).
    { destruct i as [|q|q]; [reflexivity|reflexivity|lia]. }
    split; (apply den_of_construct; [reflexivity|assumption|]); cbn [construct];
      unfold pred_spec; cbn [pidx psub parity unwrap1];
      rewrite (build_pred_ok i s a Hi Ha); apply DenM_lift.
Qed.

Lemma param_cls_concrete x : concrete (param_cls x) = true.
Proof. now destruct x. Qed.

Lemma den_param_ident K x : wf_param x = true -> concrete K = false ->
  (is_lexabc K || issub (param_cls x) K) = true -> Den K [param_ident x] (OK (IParam x)).
Proof.
  intros W HK HS. unfold param_ident. apply den_fallback_ident; auto using param_cls_concrete.
  now apply den_param.
Qed.

Lemma den_params ps : forallb wf_param ps = true ->
  Forall2 (fun x a => Den CParameter [x] (OK a)) (map param_ident ps) (map IParam ps).
Proof.
  induction ps as [|p ps IH]; simpl; intro W; [constructor|].
  apply andb_true_iff in W as [W1 W2]. constructor; [|now apply IH].
  apply den_param_ident; auto. now destruct p.
Qed.

Lemma params_of_items_map ps : params_of_items (map IParam ps) = Some ps.
Proof. induction ps as [|p ps IH]; [reflexivity|]. unfold params_of_items in *. simpl. now rewrite IH. Qed.

Lemma quant_of_name q : quant_of (PStr (q_name q)) = OK (IQuant q).
Proof. now destruct q. Qed.
Lemma oper_of_name o : oper_of (PStr (o_name o)) = OK (IOper o).
Proof. now destruct o. Qed.

Lemma sent_cls_concrete s : concrete (item_cls (ISent s)) = true.
Proof. now destruct s. Qed.
Lemma sent_cls_issub s : issub (item_cls (ISent s)) CSentence = true.
Proof. now destruct s. Qed.

Definition sent_ident (s : sent) : pv :=
  PTup [PStr (cls_name (item_cls (ISent s))); PTup (sent_spec s)].

Lemma den_sent_ident_of s K : concrete K = false -> (is_lexabc K || issub (item_cls (ISent s)) K) = true ->
  Den (item_cls (ISent s)) (sent_spec s) (OK (ISent s)) -> Den K [sent_ident s] (OK (ISent s)).
Proof. intros HK HS HD. apply den_fallback_ident; auto using sent_cls_concrete. Qed.

(* T rebuild, sentences: type(s)( *s.spec ) rebuilds s *)
Lemma den_sent s : wf_sent s = true -> Den (item_cls (ISent s)) (sent_spec s) (OK (ISent s)).
Proof.
  induction s as [i t|p ps|q vi vs b IH|o a IH|o a IHa b IHb]; intro W.
  - now apply den_atom.
  - simpl in W. apply andb_true_iff in W as [W W3]. apply andb_true_iff in W as [W1 W2].
    apply den_of_construct; [reflexivity|reflexivity|]. cbn [item_cls]; cbn [construct sent_spec].
    eapply DenM_bind; [apply (proj2 (den_pred p W1))|]. cbv beta. cbn [as_pred].
    eapply DenM_bind; [apply DenM_lift|]. cbv beta. cbn [items_arg].
    eapply DenM_bind; [apply den_map_call, den_params, W3|]. cbv beta.
    unfold mk_predicated. rewrite params_of_items_map, W2. apply DenM_lift.
  - simpl in W. apply andb_true_iff in W as [W1 W2].
    apply den_of_construct; [reflexivity|reflexivity|]. cbn [item_cls]; cbn [construct sent_spec].
    rewrite quant_of_name.
    eapply DenM_bind; [apply DenM_lift|]. cbv beta. cbn [as_quant].
    eapply DenM_bind; [apply DenM_lift|]. cbv beta.
    eapply DenM_bind; [apply (den_var_tuple vi vs W1)|]. cbv beta. cbn [as_var].
    eapply DenM_bind; [apply DenM_lift|]. cbv beta.
    eapply DenM_bind; [apply (den_sent_ident_of b CSentence eq_refl); [apply sent_cls_issub|now apply IH]|].
    cbv beta. cbn [as_sent].
    eapply DenM_bind; [apply DenM_lift|]. cbv beta. cbn [fst snd]. apply DenM_lift.
  - simpl in W. apply andb_true_iff in W as [W1 W2].
    apply den_of_construct; [reflexivity|reflexivity|]. cbn [item_cls]; cbn [construct sent_spec].
    rewrite oper_of_name.
    eapply DenM_bind; [apply DenM_lift|]. cbv beta. cbn [as_oper].
    eapply DenM_bind; [apply DenM_lift|]. cbv beta. cbn [items_arg].
    eapply DenM_bind.
    { apply den_map_call. constructor; [|constructor].
      apply (den_sent_ident_of a CSentence eq_refl); [apply sent_cls_issub|now apply IH]. }
    cbv beta. unfold mk_operated. cbn [sents_of_items fold_right]. rewrite W1. apply DenM_lift.
  - simpl in W. apply andb_true_iff in W as [W W3]. apply andb_true_iff in W as [W1 W2].
    apply den_of_construct; [reflexivity|reflexivity|]. cbn [item_cls]; cbn [construct sent_spec].
    rewrite oper_of_name.
    eapply DenM_bind; [apply DenM_lift|]. cbv beta. cbn [as_oper].
    eapply DenM_bind; [apply DenM_lift|]. cbv beta. cbn [items_arg].
    eapply DenM_bind.
    { apply den_map_call. constructor; [|constructor; [|constructor]].
      - apply (den_sent_ident_of a CSentence eq_refl); [apply sent_cls_issub|now apply IHa].
      - apply (den_sent_ident_of b CSentence eq_refl); [apply sent_cls_issub|now apply IHb]. }
    cbv beta. unfold mk_operated. cbn [sents_of_items fold_right]. rewrite W1. apply DenM_lift.
Qed.

Lemma item_cls_concrete a : concrete (item_cls a) = true.
Proof. destruct a as [|[|]| | |[| | | |]]; reflexivity. Qed.

(* T rebuild: every well-formed item of the nine types rebuilds from its spec
   and from its ident, cache-free. *)
Theorem rebuild_spec_den a : wf_item a = true -> Den (item_cls a) (spec_args a) (OK a).
Proof.
  intro W. destruct a as [p|x|q|o|s]; cbn [spec_args].
  - apply (den_pred p W).
  - change (item_cls (IParam x)) with (param_cls x). now apply den_param.
  - apply den_enum; [reflexivity|]. cbn [item_cls construct]. rewrite quant_of_name. apply DenM_lift.
  - apply den_enum; [reflexivity|]. cbn [item_cls construct]. rewrite oper_of_name. apply DenM_lift.
  - now apply den_sent.
Qed.

Theorem rebuild_ident_den a K : wf_item a = true -> concrete K = false ->
  (is_lexabc K || issub (item_cls a) K) = true -> Den K [ident_pv a] (OK a).
Proof.
  intros W HK HS. unfold ident_pv. apply den_fallback_ident; auto using item_cls_concrete.
  now apply rebuild_spec_den.
Qed.

(* --------------------------------------------------------- the invariant *)
(* Every index entry maps a call key to a well-formed item that the cache-free
   construction of that very call yields. *)
Definition inv (st : cache) : Prop :=
  forall key v, In (key, v) (idx st) ->
    WI v /\ exists K, fst key = cls_name K /\ Den K (snd key) (OK v).

Lemma inv_empty : inv empty.
Proof. intros key v []. Qed.

Lemma set_idx_in l k v e : In e (set_idx l k v) -> In e l \/ e = (k, v).
Proof.
  unfold set_idx. destruct (existsb _ l).
  - intro H. apply in_map_iff in H as [x [E Hx]]. destruct (key_eqb (fst x) k); [right; now symmetry|left; now subst].
  - intro H. apply in_app_or in H as [H|[H|[]]]; [now left|right; now symmetry].
Qed.

Lemma inv_save c st K args v : inv st -> WI v -> Den K args (OK v) -> inv (save c st (cls_name K, args) v).
Proof.
  intros HI Wv HD. unfold save. destruct (negb (use_cache c)); [exact HI|].
  assert (NEW : forall key v0, (key, v0) = ((cls_name K, args), v) ->
                  WI v0 /\ exists K0, fst key = cls_name K0 /\ Den K0 (snd key) (OK v0)).
  { intros key v0 [= -> ->]. split; [exact Wv|]. exists K. now split. }
  destruct (existsb (item_eqb v) (queue st)).
  - intros key v0 H. cbn [idx] in H. apply set_idx_in in H as [H|H]; [now apply HI|now apply NEW].
  - intros key v0 H. cbn [idx] in H. apply set_idx_in in H as [H|H]; [|now apply NEW].
    destruct (Nat.leb (maxlen c) (List.length (queue st))); [|now apply HI].
    destruct (queue st); cbn [snd] in H; [now apply HI|].
    apply filter_In in H as [H _]. now apply HI.
Qed.

Lemma inv_save2 c st K args v : inv st -> WI v -> Den K args (OK v) ->
  inv (save2 c st (cls_name K, args) v).
Proof.
  intros HI Wv HD. unfold save2, ident_key. apply inv_save; [now apply inv_save|exact Wv|].
  now apply rebuild_spec_den.
Qed.

(* a hit returns what a miss would build *)
Lemma lookup_inv c st K args v : inv st -> lookup c st (cls_name K, args) = Some v ->
  WI v /\ Den K args (OK v).
Proof.
  intros HI. unfold lookup. destruct (use_cache c); [|discriminate].
  destruct (find _ (idx st)) as [[key v0]|] eqn:E; [|discriminate]. cbn [option_map snd]. intros [= <-].
  apply find_some in E as [HIn HE]. cbn [fst] in HE. apply key_eqb_eq in HE. subst key.
  destruct (HI _ _ HIn) as [Wv [K0 [E0 HD]]]. cbn [fst snd] in *.
  apply cls_name_inj in E0. subst K0. now split.
Qed.

(* ------------------------------------------------------------------ special *)
Lemma special_sysfix c k args : sysfix c = true -> special c k args = special nocache k args.
Proof. intro H. unfold special. rewrite H. reflexivity. Qed.

Lemma sys_lookup_wf key p : sys_lookup key = Some p -> wf_pred p = true.
Proof.
  unfold sys_lookup. intro H. apply find_some in H as [HI _]. simpl in HI.
  destruct HI as [<-|[<-|[]]]; reflexivity.
Qed.

Lemma special_wf k args a : args_wf args = true -> special nocache k args = Some (OK a) -> WI a.
Proof.
  intros W. unfold special.
  destruct (match args with
            | [PItem a0] => if issub (item_cls a0) k then Some (OK a0) else None
            | [PStr s] => match k with CPredicate => Some (sys_pred_of s) | _ => None end
            | _ => None
            end) as [r|] eqn:E.
  - intros [= ->]. destruct args as [|[z|s|l|a0] [|y r0]]; try discriminate E.
    + destruct k; try discriminate E. injection E as E. unfold sys_pred_of in E.
      destruct (find _ system_preds) as [p|] eqn:EF; [|discriminate E]. injection E as <-.
      apply find_some in EF as [HI _]. simpl in HI. destruct HI as [<-|[<-|[]]]; reflexivity.
    + destruct (issub (item_cls a0) k); [|discriminate E]. injection E as ->.
      unfold args_wf in W. simpl in W. now rewrite andb_true_r in W.
  - destruct k; try discriminate. cbn [sysfix nocache].
    destruct (sys_lookup _) as [p|] eqn:EL; [|discriminate]. cbn [option_map]. intros [= <-].
    exact (sys_lookup_wf _ _ EL).
Qed.

(* ---------------------------------------------------------------- fallback *)
Lemma fallback_nocache_run n k C cn sp s r :
  concrete k = false -> cls_of_name cn = Some C -> (is_lexabc k || issub C k) = true ->
  call n nocache C sp s = (r, s) ->
  fallback (call n nocache) nocache k [PTup [PStr cn; PTup sp]] s = (r, s).
Proof.
  intros HK HC HS H. unfold fallback. rewrite HK. cbn [List.length Nat.eqb negb orb].
  rewrite HC, HS. cbn [negb]. change (lookup nocache s (cn, sp)) with (@None item). rewrite H.
  destruct r as [a|e|]; reflexivity.
Qed.

Lemma Sim_const {A} (P : cache -> Prop) (W : A -> Prop) (m1 : M A) (m2 : nat -> M A) e :
  (forall s, m1 s = (Err e, s)) -> (forall n s, m2 n s = (Err e, s)) -> Sim P W m1 m2.
Proof.
  intros H1 H2 s1 HP. rewrite H1. cbn [fst snd]. split; [exact HP|]. split; [discriminate|].
  intros _. exists O. intros n _ s. apply H2.
Qed.

Section CallSim.
Variable c : cfg.
Variable rec1 : cls -> list pv -> M item.
Hypothesis HREC : forall k a, args_wf a = true ->
  Sim inv WI (rec1 k a) (fun n => call n nocache k a).

Lemma fallback_sim k args : args_wf args = true ->
  Sim inv WI (fallback rec1 c k args) (fun n => fallback (call n nocache) nocache k args).
Proof.
  intro W. unfold fallback.
  destruct (concrete k || negb (Nat.eqb (List.length args) 1)) eqn:E0;
    [apply Sim_const with ETypeError; reflexivity|].
  apply orb_false_iff in E0 as [HK HL]. apply negb_false_iff, Nat.eqb_eq in HL.
  destruct args as [|x [|y r0]]; try discriminate HL. clear HL.
  destruct x as [z|s|l|a0]; try (apply Sim_const with ETypeError; reflexivity).
  destruct l as [|a [|b [|d l']]]; try (apply Sim_const with ETypeError; reflexivity);
    try (destruct a; apply Sim_const with ETypeError; reflexivity);
    try (destruct a; destruct b; apply Sim_const with ETypeError; reflexivity).
  destruct a as [z|cn|l|a0]; try (apply Sim_const with EValueError; reflexivity).
  destruct b as [z|s|sp|a0]; try (apply Sim_const with EValueError; reflexivity).
  destruct (cls_of_name cn) as [C|] eqn:EC; [|apply Sim_const with EValueError; reflexivity].
  destruct (is_lexabc k || issub C k) eqn:ES; cbn [negb];
    [|apply Sim_const with ETypeError; reflexivity].
  destruct (cls_of_name_some _ _ EC) as [-> HCc].
  assert (Wsp : args_wf sp = true).
  { unfold args_wf in W. simpl in W. rewrite andb_true_r in W.
    change (pv_wf (PTup [PStr (cls_name C); PTup sp]) = true) in W. rewrite pv_wf_tup in W.
    simpl in W. rewrite andb_true_r in W. change (pv_wf (PTup sp) = true) in W.
    now rewrite pv_wf_tup in W. }
  intros s1 HP.
  assert (RUN : forall r, Den C sp r ->
            DenM (fun n => fallback (call n nocache) nocache k [PTup [PStr (cls_name C); PTup sp]]) r).
  { intros r HD. eapply Ev_imp; [|exact HD]. intros n Hn s.
    apply fallback_nocache_run with C; auto. }
  unfold fallback in RUN. rewrite HK in RUN. cbn [List.length Nat.eqb negb orb] in RUN.
  rewrite EC, ES in RUN. cbn [negb] in RUN.
  destruct (lookup c s1 (cls_name C, sp)) as [v|] eqn:EL.
  - destruct (lookup_inv _ _ _ _ _ HP EL) as [Wv HD]. cbn [fst snd].
    split; [exact HP|]. split; [now intros a [= <-]|]. intros _. now apply RUN.
  - destruct (HREC C sp Wsp s1 HP) as [A1 [A2 A3]].
    destruct (rec1 C sp s1) as [[inst|e|] s2] eqn:ER; cbn [fst snd] in *.
    + split; [apply inv_save2; auto; apply A3; discriminate|].
      split; [intros a [= <-]; now apply A2|]. intros _. apply RUN. apply A3. discriminate.
    + split; [exact A1|]. split; [discriminate|]. intros _. apply RUN. apply A3. discriminate.
    + split; [exact A1|]. split; [discriminate|]. intro X. now destruct X.
Qed.
End CallSim.

(* T: the cached call simulates the cache-free construction — for every
   configuration of the repaired code (any maxlen, cache on or off), every fuel,
   every state satisfying the invariant. *)
Theorem call_sim f : forall c, sysfix c = true -> forall k args, args_wf args = true ->
  Sim inv WI (call f c k args) (fun n => call n nocache k args).
Proof.
  induction f as [|f IH]; intros c HF k args W.
  - intros s1 HP. cbn [call lift fst snd]. split; [exact HP|]. split; [discriminate|].
    intro X. now destruct X.
  - assert (HREC : forall k a, args_wf a = true -> Sim inv WI (call f c k a) (fun n => call n nocache k a))
      by (intros; now apply IH).
    destruct (is_enum k) eqn:EK.
    + intros s1 HP. rewrite call_unfold.
      assert (X : call_unfold f c k args = call_unfold f c k args) by reflexivity. clear X.
      destruct (construct_sim inv (call f c) HREC k args W s1 HP) as [A1 [A2 A3]].
      destruct k; try discriminate EK; (split; [exact A1|]; split; [exact A2|]; intro NF;
        apply den_enum; [reflexivity|now apply A3]).
    + assert (SP : special c k args = special nocache k args) by now apply special_sysfix.
      intros s1 HP. rewrite call_unfold.
      assert (GOAL :
        let m := match special c k args with
                 | Some r => lift r
                 | None => fun st =>
                     match lookup c st (cls_name k, args) with
                     | Some v => (OK v, st)
                     | None =>
                         match construct (call f c) k args st with
                         | (OK inst, st1) => (OK inst, save2 c st1 (cls_name k, args) inst)
                         | (Err ETypeError, st1) => fallback (call f c) c k args st1
                         | other => other
                         end
                     end
                 end in
        inv (snd (m s1)) /\ (forall a, fst (m s1) = OK a -> WI a) /\
        (fst (m s1) <> Fuel -> Den k args (fst (m s1)))).
      { cbv zeta. rewrite SP. destruct (special nocache k args) as [r|] eqn:ES.
        - cbn [lift fst snd]. split; [exact HP|]. split.
          + intros a ->. now apply (special_wf k args).
          + intros _. now apply den_special.
        - destruct (lookup c s1 (cls_name k, args)) as [v|] eqn:EL.
          + destruct (lookup_inv _ _ _ _ _ HP EL) as [Wv HD]. cbn [fst snd].
            split; [exact HP|]. split; [now intros a [= <-]|]. now intros _.
          + destruct (construct_sim inv (call f c) HREC k args W s1 HP) as [A1 [A2 A3]].
            destruct (construct (call f c) k args s1) as [[inst|[|]|] st1] eqn:EC; cbn [fst snd] in *.
            * assert (HD : Den k args (OK inst)) by (apply den_of_construct; [exact EK|exact ES|apply A3; discriminate]).
              split; [apply inv_save2; auto|]. split; [intros a [= <-]; now apply A2|]. now intros _.
            * destruct (fallback_sim c (call f c) HREC k args W st1 A1) as [B1 [B2 B3]].
              split; [exact B1|]. split; [exact B2|]. intro NF.
              apply den_of_fallback; [exact EK|exact ES|apply A3; discriminate|apply B3; exact NF].
            * split; [exact A1|]. split; [discriminate|]. intros _.
              apply den_of_construct_verr; [exact EK|exact ES|apply A3; discriminate].
            * split; [exact A1|]. split; [discriminate|]. intro X. now destruct X. }
      destruct k; try discriminate EK; exact GOAL.
Qed.

(* ------------------------------------------------------ top-level theorems *)
Definition hist_wf (h : list op) : bool := forallb (fun o => args_wf (snd o)) h.

Lemma run_inv fuel c : sysfix c = true -> forall h st, hist_wf h = true -> inv st ->
  inv (snd (run fuel c h st)).
Proof.
  intro HF. induction h as [|[k args] h IH]; intros st W HI; [exact HI|].
  simpl in W. apply andb_true_iff in W as [W1 W2]. cbn [run].
  destruct (call_sim fuel c HF k args W1 st HI) as [A _].
  destruct (call fuel c k args st) as [r st1]. cbn [snd] in A.
  specialize (IH st1 W2 A). destruct (run fuel c h st1) as [rs st2]. exact IH.
Qed.

(* T cache_transparent (repaired code): for every maxlen, every history of
   constructor calls (whose instance arguments are well-formed items, as all
   Python instances are), every call and every fuel: unless the model runs out
   of fuel, the cached call returns exactly the cache-free construction. *)
Theorem cache_transparent_den ml fuel h o : hist_wf h = true -> args_wf (snd o) = true ->
  let st := snd (run fuel (cached ml) h empty) in
  let r := fst (call fuel (cached ml) (fst o) (snd o) st) in
  r <> Fuel -> Den (fst o) (snd o) r.
Proof.
  intros Wh Wo st r NF.
  assert (HI : inv st) by (apply run_inv; auto using inv_empty).
  destruct (call_sim fuel (cached ml) eq_refl (fst o) (snd o) Wo st HI) as [_ [_ A]]. now apply A.
Qed.

Lemma build0_den fuel k args : args_wf args = true -> build0 fuel k args <> Fuel ->
  Den k args (build0 fuel k args).
Proof.
  intros W NF. destruct (call_sim fuel nocache eq_refl k args W empty inv_empty) as [_ [_ A]].
  now apply A.
Qed.

Theorem cache_transparent ml fuel fuel' h o : hist_wf h = true -> args_wf (snd o) = true ->
  let st := snd (run fuel (cached ml) h empty) in
  let r := fst (call fuel (cached ml) (fst o) (snd o) st) in
  r <> Fuel -> build0 fuel' (fst o) (snd o) <> Fuel -> r = build0 fuel' (fst o) (snd o).
Proof.
  intros Wh Wo st r NF NF'.
  apply (DenM_agree (fun n => call n nocache (fst o) (snd o))).
  - now apply cache_transparent_den.
  - now apply build0_den.
Qed.

(* hits return items equal to what a miss would build *)
Theorem cache_hit_sound ml fuel h K args v : hist_wf h = true ->
  lookup (cached ml) (snd (run fuel (cached ml) h empty)) (cls_name K, args) = Some v ->
  wf_item v = true /\ Den K args (OK v).
Proof.
  intros Wh HL. apply (lookup_inv (cached ml) (snd (run fuel (cached ml) h empty))); auto.
  apply run_inv; auto using inv_empty.
Qed.

(* and every cached result is a well-formed item *)
Theorem cached_results_wf ml fuel h o a : hist_wf h = true -> args_wf (snd o) = true ->
  fst (call fuel (cached ml) (fst o) (snd o) (snd (run fuel (cached ml) h empty))) = OK a ->
  wf_item a = true.
Proof.
  intros Wh Wo E.
  assert (HI : inv (snd (run fuel (cached ml) h empty))) by (apply run_inv; auto using inv_empty).
  destruct (call_sim fuel (cached ml) eq_refl (fst o) (snd o) Wo _ HI) as [_ [A _]]. now apply A.
Qed.

(* T rebuild: for every well-formed item i of the nine types,
   type(i)( *i.spec ) and LexicalAbc(i.ident) (also Sentence(...) /
   Parameter(...) where applicable) construct i, for every large enough fuel. *)
Theorem rebuild a : wf_item a = true ->
  exists n0, forall n, (n0 <= n)%nat -> rebuild_spec n a = OK a /\ rebuild_ident n a = OK a.
Proof.
  intro W.
  destruct (rebuild_spec_den a W) as [n1 H1].
  destruct (rebuild_ident_den a CLexicalAbc W eq_refl eq_refl) as [n2 H2].
  exists (Nat.max n1 n2). intros n Hn. unfold rebuild_spec, rebuild_ident, build0.
  rewrite (H1 n) by lia. rewrite (H2 n) by lia. now split.
Qed.

Lemma pv_wf_cons x l : pv_wf (PTup (x :: l)) = pv_wf x && pv_wf (PTup l).
Proof. reflexivity. Qed.
Lemma pv_wf_nil : pv_wf (PTup []) = true.
Proof. reflexivity. Qed.

Lemma params_ident_wf ps : pv_wf (PTup (map param_ident ps)) = true.
Proof.
  induction ps as [|x ps IH]; [reflexivity|]. cbn [map]. rewrite pv_wf_cons, IH. now destruct x.
Qed.

Lemma sent_spec_wf s : pv_wf (PTup (sent_spec s)) = true.
Proof.
  induction s as [i t|p ps|q vi vs b IH|o x IH|o x IHx y IHy]; cbn [sent_spec];
    rewrite ?pv_wf_cons, ?pv_wf_nil, ?params_ident_wf, ?IH, ?IHx, ?IHy; reflexivity.
Qed.

Lemma spec_args_wf a : args_wf (spec_args a) = true.
Proof.
  unfold args_wf. rewrite <- pv_wf_tup.
  destruct a as [p|[i s|i s]|q|o|s]; try reflexivity. apply sent_spec_wf.
Qed.

Lemma ident_args_wf a : args_wf [ident_pv a] = true.
Proof.
  unfold args_wf, ident_pv. cbn [forallb]. rewrite !pv_wf_cons, pv_wf_nil.
  pose proof (spec_args_wf a) as H. unfold args_wf in H. rewrite <- pv_wf_tup in H. now rewrite H.
Qed.

Theorem rebuild_cached ml fuel h a : hist_wf h = true -> wf_item a = true ->
  let st := snd (run fuel (cached ml) h empty) in
  (fst (call fuel (cached ml) (item_cls a) (spec_args a) st) <> Fuel ->
   fst (call fuel (cached ml) (item_cls a) (spec_args a) st) = OK a) /\
  (fst (call fuel (cached ml) CLexicalAbc [ident_pv a] st) <> Fuel ->
   fst (call fuel (cached ml) CLexicalAbc [ident_pv a] st) = OK a).
Proof.
  intros Wh W st.
  pose proof (spec_args_wf a) as W1. pose proof (ident_args_wf a) as W2.
  split; intro NF.
  - apply (DenM_agree (fun n => call n nocache (item_cls a) (spec_args a))).
    + apply (cache_transparent_den ml fuel h (item_cls a, spec_args a) Wh W1 NF).
    + now apply rebuild_spec_den.
  - apply (DenM_agree (fun n => call n nocache CLexicalAbc [ident_pv a])).
    + apply (cache_transparent_den ml fuel h (CLexicalAbc, [ident_pv a]) Wh W2 NF).
    + now apply rebuild_ident_den.
Qed.

(* ------------------------------------------------ the model never starves *)
(* With fuel > size of the arguments + 1 no call returns Fuel, so the
   fuel-exhaustion clause of the theorems above is vacuous for such fuel. *)
Definition NFm {A} (m : M A) : Prop := forall s, fst (m s) <> Fuel.

Lemma nf_lift {A} (r : R A) : r <> Fuel -> NFm (lift r).
Proof. intros H s. exact H. Qed.
Lemma nf_bind {A B} (m : M A) (f : A -> M B) : NFm m -> (forall a, NFm (f a)) -> NFm (bind m f).
Proof.
  intros H1 H2 s. unfold bind. specialize (H1 s). destruct (m s) as [[a|e|] s1]; cbn [fst] in *.
  - apply H2.
  - discriminate.
  - now destruct H1.
Qed.

Lemma build_coords_nf k l : build_coords k l <> Fuel.
Proof.
  unfold build_coords. destruct l as [|[i| | |] [|[s| | |] [|]]]; try discriminate.
  destruct (MAXI k <? i); try discriminate. destruct (s <? 0); try discriminate.
  destruct (i <? 0); try discriminate. destruct k; discriminate.
Qed.
Lemma build_pred_nf l : build_pred l <> Fuel.
Proof.
  unfold build_pred. destruct l as [|[i| | |] [|[s| | |] [|[n| | |] rest]]]; try discriminate.
  destruct (3 <? i); try discriminate. destruct (s <? 0); try discriminate.
  destruct (n <=? 0); try discriminate. destruct (i <? 0); try discriminate. destruct rest; discriminate.
Qed.
Lemma quant_of_nf x : quant_of x <> Fuel.
Proof. unfold quant_of. destruct x as [| s | |[| |q| |]]; try discriminate. destruct (find _ _); discriminate. Qed.
Lemma oper_of_nf x : oper_of x <> Fuel.
Proof. unfold oper_of. destruct x as [| s | |[| | |o|]]; try discriminate. destruct (find _ _); discriminate. Qed.
Lemma mk_predicated_nf p items : mk_predicated p items <> Fuel.
Proof. unfold mk_predicated. destruct (params_of_items items); try discriminate. destruct (Nat.eqb _ _); discriminate. Qed.
Lemma mk_operated_nf o items : mk_operated o items <> Fuel.
Proof.
  unfold mk_operated. destruct (sents_of_items items) as [[|x [|y [|]]]|]; try discriminate;
    destruct (Nat.eqb _ _); discriminate.
Qed.
Lemma sys_pred_of_nf s : sys_pred_of s <> Fuel.
Proof. unfold sys_pred_of. destruct (find _ _); discriminate. Qed.

Lemma pvsize_pos x : (1 <= pvsize x)%nat.
Proof. destruct x; simpl; lia. Qed.
Lemma pvsizes_in x l : In x l -> (pvsize x <= pvsizes l)%nat.
Proof.
  induction l as [|y l IH]; simpl; intros []; [subst; lia|]. specialize (IH H). lia.
Qed.

(* classes whose construction never recurses *)
Definition leaf (k : cls) : bool :=
  match k with CPredicate | CConstant | CVariable | CAtomic | CQuantifier | COperator => true | _ => false end.

Section NF.
Variable rec : cls -> list pv -> M item.
Definition HRec (args : list pv) : Prop :=
  forall k' a', leaf k' = true \/ (pvsizes a' < pvsizes args)%nat -> NFm (rec k' a').

Lemma map_call_nf args K l : HRec args -> (forall x, In x l -> (pvsize x < pvsizes args)%nat) -> NFm (map_call rec K l).
Proof.
  intro HR. induction l as [|x l IH]; cbn [map_call]; intro H.
  - apply nf_lift. discriminate.
  - apply nf_bind.
    + apply HR. right. simpl. specialize (H x (or_introl eq_refl)). lia.
    + intro a. apply nf_bind; [apply IH; intros y Hy; apply H; now right|]. intro r. apply nf_lift. discriminate.
Qed.

Lemma items_arg_nf K sel parg rest : HRec (parg :: rest) ->
  NFm (items_arg rec K sel (match rest with [x] => x | _ => PTup rest end)).
Proof.
  intro HR. pose proof (pvsize_pos parg) as Pp.
  assert (G : forall l, (pvsizes l <= pvsizes rest)%nat -> NFm (items_arg rec K sel (PTup l))).
  { intros l Hl. cbn [items_arg]. apply (map_call_nf (parg :: rest)); [exact HR|]. intros x Hx.
    apply pvsizes_in in Hx. simpl. lia. }
  destruct rest as [|x [|y r]].
  - apply G. lia.
  - destruct x as [z|s|l|a]; cbn [items_arg]; try (apply nf_lift; discriminate).
    + apply G. change (pvsizes [PTup l]) with (pvsize (PTup l) + 0)%nat. rewrite pvsize_tup. lia.
    + destruct (sel a); apply nf_lift; discriminate.
  - apply G. lia.
Qed.

Lemma construct_nf args k : HRec args -> NFm (construct rec k args).
Proof.
  intro HR. destruct k; cbn [construct].
  - apply nf_lift. destruct (unwrap1 args); [apply build_pred_nf|discriminate].
  - apply nf_lift. destruct (unwrap1 args); [apply build_coords_nf|discriminate].
  - apply nf_lift. destruct (unwrap1 args); [apply build_coords_nf|discriminate].
  - apply nf_lift. destruct args as [|x [|]]; try discriminate. apply quant_of_nf.
  - apply nf_lift. destruct args as [|x [|]]; try discriminate. apply oper_of_nf.
  - apply nf_lift. destruct (unwrap1 args); [apply build_coords_nf|discriminate].
  - destruct args as [|parg rest]; [apply nf_lift; discriminate|].
    apply nf_bind; [apply HR; now left|]. intro a.
    apply nf_bind; [destruct a; apply nf_lift; discriminate|]. intro p.
    apply nf_bind; [apply (items_arg_nf _ _ parg rest HR)|]. intro items.
    apply nf_lift, mk_predicated_nf.
  - destruct args as [|q [|v [|s [|]]]]; try (apply nf_lift; discriminate).
    apply nf_bind; [apply nf_lift, quant_of_nf|]. intro a.
    apply nf_bind; [destruct a; apply nf_lift; discriminate|]. intro qq.
    apply nf_bind; [apply HR; now left|]. intro a1.
    apply nf_bind; [destruct a1 as [|[|]| | |]; apply nf_lift; discriminate|]. intro vv.
    apply nf_bind.
    { apply HR. right. simpl. pose proof (pvsize_pos q). lia. }
    intro a2. apply nf_bind; [destruct a2; apply nf_lift; discriminate|]. intro b.
    apply nf_lift. discriminate.
  - destruct args as [|oarg rest]; [apply nf_lift; discriminate|].
    apply nf_bind; [apply nf_lift, oper_of_nf|]. intro a.
    apply nf_bind; [destruct a; apply nf_lift; discriminate|]. intro o.
    apply nf_bind; [apply (items_arg_nf _ _ oarg rest HR)|]. intro items.
    apply nf_lift, mk_operated_nf.
  - apply nf_lift; discriminate.
  - apply nf_lift; discriminate.
  - apply nf_lift; discriminate.
  - apply nf_lift; discriminate.
Qed.

Lemma fallback_nf args c k : HRec args -> NFm (fallback rec c k args).
Proof.
  intros HR s. unfold fallback. destruct (concrete k || _); [discriminate|].
  destruct args as [|x [|y r0]]; try discriminate; try (repeat match goal with |- context [match ?v with _ => _ end] => is_var v; destruct v end; cbn; discriminate).
  destruct x as [z|s0|l|a0]; try discriminate.
  destruct l as [|a [|b [|d l']]]; try discriminate; try (destruct a; discriminate);
    try (destruct a; destruct b; discriminate).
  destruct a as [z|cn|l|a0]; try discriminate.
  destruct b as [z|s0|sp|a0]; try discriminate.
  destruct (cls_of_name cn) as [C|]; [|discriminate].
  destruct (negb _); [discriminate|].
  destruct (lookup c s (cn, sp)); [discriminate|].
  assert (H : NFm (rec C sp)).
  { apply HR. right.
    change (pvsizes [PTup [PStr cn; PTup sp]]) with (pvsize (PTup [PStr cn; PTup sp]) + 0)%nat.
    rewrite pvsize_tup. change (pvsizes [PStr cn; PTup sp]) with (1 + (pvsize (PTup sp) + 0))%nat.
    rewrite pvsize_tup. lia. }
  specialize (H s). destruct (rec C sp s) as [[inst|e|] s2]; cbn [fst] in *; try discriminate.
  now destruct H.
Qed.
End NF.

Lemma special_nf c k args r : special c k args = Some r -> r <> Fuel.
Proof.
  unfold special.
  destruct (match args with
            | [PItem a0] => if issub (item_cls a0) k then Some (OK a0) else None
            | [PStr s] => match k with CPredicate => Some (sys_pred_of s) | _ => None end
            | _ => None
            end) as [r0|] eqn:E.
  - intros [= <-]. destruct args as [|[z|s|l|a0] [|y r1]]; try discriminate E.
    + destruct k; try discriminate E. injection E as <-. apply sys_pred_of_nf.
    + destruct (issub _ _); [|discriminate E]. injection E as <-. discriminate.
  - destruct k; try discriminate. destruct (sysfix c); [|discriminate].
    destruct (sys_lookup _); [|discriminate]. cbn [option_map]. intros [= <-]. discriminate.
Qed.

Lemma call_step_nf f c k args :
  (forall k' a', leaf k' = true \/ (pvsizes a' < pvsizes args)%nat -> NFm (call f c k' a')) ->
  NFm (call (S f) c k args).
Proof.
  intros HR s. rewrite call_unfold.
  assert (G : fst (match special c k args with
                   | Some r => lift r
                   | None => fun st =>
                       match lookup c st (cls_name k, args) with
                       | Some v => (OK v, st)
                       | None =>
                           match construct (call f c) k args st with
                           | (OK inst, st1) => (OK inst, save2 c st1 (cls_name k, args) inst)
                           | (Err ETypeError, st1) => fallback (call f c) c k args st1
                           | other => other
                           end
                       end
                   end s) <> Fuel).
  { destruct (special c k args) as [r|] eqn:ES; [exact (special_nf _ _ _ _ ES)|].
    destruct (lookup c s (cls_name k, args)); [discriminate|].
    pose proof (construct_nf (call f c) args k HR s) as H.
    destruct (construct (call f c) k args s) as [[inst|[|]|] st1]; cbn [fst] in *; try discriminate.
    - now apply (fallback_nf (call f c) args).
    - now destruct H. }
  destruct k; try exact G; now apply (construct_nf (call f c) args).
Qed.

Lemma leaf_nf f c k args : leaf k = true -> NFm (call (S f) c k args).
Proof.
  intros HL s. rewrite call_unfold.
  destruct k; try discriminate HL; cbn [construct];
    try (destruct (special c _ args) as [r|] eqn:ES; [exact (special_nf _ _ _ _ ES)|];
         destruct (lookup c s _); [discriminate|]; cbn [lift];
         match goal with |- context [match ?u with Some l => ?b l | None => ?e end] =>
           destruct u as [l|] end).
  all: try (match goal with |- context [build_pred ?l] =>
              pose proof (build_pred_nf l) as H; destruct (build_pred l) as [x|[|]|]; cbn; try discriminate;
              now destruct H end).
  all: try (match goal with |- context [build_coords ?k ?l] =>
              pose proof (build_coords_nf k l) as H; destruct (build_coords k l) as [x|[|]|]; cbn; try discriminate;
              now destruct H end).
  all: try (cbn; discriminate).
  - destruct args as [|x [|]]; cbn; try discriminate. apply quant_of_nf.
  - destruct args as [|x [|]]; cbn; try discriminate. apply oper_of_nf.
Qed.

(* T: enough fuel is size + 2 *)
Theorem call_nf n : forall c k args, (pvsizes args + 2 <= n)%nat -> NFm (call n c k args).
Proof.
  induction n as [|f IH]; intros c k args H; [lia|].
  apply call_step_nf. intros k' a' [HL|HS].
  - destruct f as [|f']; [lia|]. now apply leaf_nf.
  - apply IH. lia.
Qed.

(* ------------------------------------------- the unconditional statements *)
(* T cache_transparent, full strength: any maxlen, any history, any call; with
   fuel >= size of the call's arguments + 2 (fuel is a device of the model, not
   of the code) the cached call and the cache-free construction return the
   same thing, and neither starves. *)
Theorem cache_transparent_total ml fuel h o : hist_wf h = true -> args_wf (snd o) = true ->
  (pvsizes (snd o) + 2 <= fuel)%nat ->
  let st := snd (run fuel (cached ml) h empty) in
  let r := fst (call fuel (cached ml) (fst o) (snd o) st) in
  r <> Fuel /\ r = build0 fuel (fst o) (snd o) /\ Den (fst o) (snd o) r.
Proof.
  intros Wh Wo Hf st r.
  assert (NF : r <> Fuel) by (apply (call_nf fuel (cached ml) (fst o) (snd o) Hf)).
  assert (NF0 : build0 fuel (fst o) (snd o) <> Fuel) by (apply (call_nf fuel nocache (fst o) (snd o) Hf)).
  split; [exact NF|]. split.
  - now apply cache_transparent.
  - now apply cache_transparent_den.
Qed.

(* T rebuild, full strength *)
Theorem rebuild_total a fuel : wf_item a = true ->
  ((pvsizes (spec_args a) + 2 <= fuel)%nat -> rebuild_spec fuel a = OK a) /\
  ((pvsizes [ident_pv a] + 2 <= fuel)%nat -> rebuild_ident fuel a = OK a).
Proof.
  intro W. split; intro Hf.
  - apply (DenM_agree (fun n => call n nocache (item_cls a) (spec_args a))).
    + apply build0_den; [apply spec_args_wf|apply (call_nf fuel nocache _ _ Hf)].
    + now apply rebuild_spec_den.
  - apply (DenM_agree (fun n => call n nocache CLexicalAbc [ident_pv a])).
    + apply build0_den; [apply ident_args_wf|apply (call_nf fuel nocache _ _ Hf)].
    + now apply rebuild_ident_den.
Qed.

(* ... and through the cache, after any history, with any maxlen *)
Theorem rebuild_cached_total ml fuel h a : hist_wf h = true -> wf_item a = true ->
  let st := snd (run fuel (cached ml) h empty) in
  ((pvsizes (spec_args a) + 2 <= fuel)%nat ->
     fst (call fuel (cached ml) (item_cls a) (spec_args a) st) = OK a) /\
  ((pvsizes [ident_pv a] + 2 <= fuel)%nat ->
     fst (call fuel (cached ml) CLexicalAbc [ident_pv a] st) = OK a).
Proof.
  intros Wh W st. destruct (rebuild_cached ml fuel h a Wh W) as [A B].
  split; intro Hf; [apply A|apply B]; apply (call_nf fuel (cached ml) _ _ Hf).
Qed.

(* Non-vacuity: the witness history of the old defect now rebuilds, warm and
   evicted, and the hypotheses of the theorems hold for it. *)
Definition nv_a : item := IParam (Const 0 0).
Definition nv_s : item := ISent (Pred Identity [Const 0 0; Const 0 0]).
Definition nv_make : op := (CPredicated, [PItem (IPred Identity); PTup [PItem nv_a; PItem nv_a]]).
Definition nv_other : op := (CConstant, [PInt 1; PInt 0]).
Definition nv_rebuild : op := (CSentence, [ident_pv nv_s]).
Example nonvacuous_transparent :
  hist_wf [nv_make; nv_rebuild; nv_other] = true /\ args_wf (snd nv_rebuild) = true /\
  (pvsizes (snd nv_rebuild) + 2 <= 40)%nat /\
  fst (run 40 (cached 1) [nv_make; nv_rebuild; nv_other; nv_rebuild; (CPredicated, spec_args nv_s)] empty)
    = [OK nv_s; OK nv_s; OK (IParam (Const 1 0)); OK nv_s; OK nv_s] /\
  build0 40 CSentence [ident_pv nv_s] = OK nv_s.
Proof. repeat split; vm_compute; try reflexivity. lia. Qed.
Example nonvacuous_rebuild :
  wf_item nv_s = true /\ wf_item (IPred Existence) = true /\
  rebuild_spec 40 nv_s = OK nv_s /\ rebuild_ident 40 nv_s = OK nv_s /\
  rebuild_spec 40 (IPred Existence) = OK (IPred Existence) /\
  rebuild_ident 40 (IPred Identity) = OK (IPred Identity).
Proof. repeat split; vm_compute; reflexivity. Qed.
