(* WriteStd — model of pytableaux/lang/writing.py StandardLexWriter for its DEFAULT
   options (drop_parens=True, identity_infix=True, max_infix=0), driven by a string table
   regenerated from /repo:
   * predicated sentences are prefix (symbol, parameters, nothing between) except Identity,
     which is infix with the table's whitespace string around the symbol;
   * a negated identity is written `a <neq> b` with the table's (Negation, Identity) string;
   * other unary operators: symbol then operand; binary operators: `(lhs ws op ws rhs)`,
     the outermost pair of parentheses dropped when the whole item is a binary operation;
   * quantified: quantifier symbol, variable, body, nothing between.
   Correspondence only (tools/c12.py): no round-trip theorem is proved for this writer. *)
From Coq Require Import List Bool Arith NArith.
From PT Require Import Lang.PSyntax Lang.Dec Lang.WritePolish.
Import ListNotations.

Record swtable := {
  sw : wtable;
  sw_popen : option str;
  sw_pclose : option str;
  sw_ws : option str;
  sw_neqid : option str
}.

Section Writer.
Variable S : swtable.
Local Notation W := (sw S).

Definition oapps (l : list (option str)) : option str := fold_right oapp (Some []) l.

Fixpoint write_std_in (s : sent) : option str :=
  match s with
  | Atom i sub => wcoords W (w_atom W i) sub
  | Pred p args =>
      match p, args with
      | PSys Identity, a :: rest =>
          oapps [wparam W a; sw_ws S; w_sys W Identity; sw_ws S; wparams W rest]
      | PSys Identity, [] => None                         (* s[0]: IndexError *)
      | _, _ => oapp (wpred W p) (wparams W args)
      end
  | Quant q (i, sub) b => oapps [w_quant W q; wcoords W (w_var W i) sub; write_std_in b]
  | Un o a =>
      match o, a with
      | Negation, Pred (PSys Identity) (p1 :: p2 :: _) =>
          oapps [wparam W p1; sw_ws S; sw_neqid S; sw_ws S; wparam W p2]
      | Negation, Pred (PSys Identity) _ => None           (* s[0] / s[1]: IndexError *)
      | _, _ => oapp (w_uop W o) (write_std_in a)
      end
  | Bin o a b =>
      oapps [sw_popen S; write_std_in a; sw_ws S; w_bop W o; sw_ws S; write_std_in b; sw_pclose S]
  end.

(* StandardLexWriter.__call__ *)
Definition write_std (s : sent) : option str :=
  match s with
  | Bin o a b => oapps [write_std_in a; sw_ws S; w_bop W o; sw_ws S; write_std_in b]
  | _ => write_std_in s
  end.

End Writer.

(* ---- every option combination ----------------------------------------------------------------
   StandardLexWriter with arbitrary options: drop_parens, identity_infix, max_infix.
   _write_predicated: infix iff arity > 1 and (arity < max_infix or the predicate is Identity and
   identity_infix); the whitespace string surrounds the symbol only for Identity.
   _write_operated: the `a != b` form only under identity_infix. *)
Record wopts := { wo_drop : bool; wo_idinfix : bool; wo_maxinfix : nat }.
Definition wopts_default : wopts := {| wo_drop := true; wo_idinfix := true; wo_maxinfix := 0 |}.

Definition is_identity (p : pred) : bool := match p with PSys Identity => true | _ => false end.

Definition should_infix (O : wopts) (p : pred) : bool :=
  (1 <? pred_arity p) && ((pred_arity p <? wo_maxinfix O) || (is_identity p && wo_idinfix O)).

Section WriterO.
Variable O : wopts.
Variable S : swtable.
Local Notation W := (sw S).

Fixpoint write_stdo_in (s : sent) : option str :=
  match s with
  | Atom i sub => wcoords W (w_atom W i) sub
  | Pred p args =>
      if should_infix O p then
        match args with
        | a :: rest =>
            let ws := if is_identity p then sw_ws S else Some [] in
            oapps [wparam W a; ws; wpred W p; ws; wparams W rest]
        | [] => None                                         (* s[0]: IndexError *)
        end
      else oapp (wpred W p) (wparams W args)
  | Quant q (i, sub) b => oapps [w_quant W q; wcoords W (w_var W i) sub; write_stdo_in b]
  | Un o a =>
      match o, a with
      | Negation, Pred (PSys Identity) args =>
          if wo_idinfix O then
            match args with
            | p1 :: p2 :: _ => oapps [wparam W p1; sw_ws S; sw_neqid S; sw_ws S; wparam W p2]
            | _ => None                                      (* s[0] / s[1]: IndexError *)
            end
          else oapp (w_uop W o) (write_stdo_in a)
      | _, _ => oapp (w_uop W o) (write_stdo_in a)
      end
  | Bin o a b =>
      oapps [sw_popen S; write_stdo_in a; sw_ws S; w_bop W o; sw_ws S; write_stdo_in b; sw_pclose S]
  end.

Definition write_stdo (s : sent) : option str :=
  match s with
  | Bin o a b =>
      if wo_drop O then oapps [write_stdo_in a; sw_ws S; w_bop W o; sw_ws S; write_stdo_in b]
      else write_stdo_in s
  | _ => write_stdo_in s
  end.

End WriterO.
