(* RoundTrip — C12 for Polish notation: parsing the Polish ASCII rendering of a
   sentence of the parsers' language returns that sentence.

   `agree_b T W` is the kernel-decided side condition on the two regenerated tables
   (parse table T from parse_tables(), string table W from string_tables()): every
   symbol the writer emits is a single character that the parse table maps back to the
   same item, str(int) digits are the table's digit characters with their value, and
   the subscript delimiters are empty.  Any edit of _symdata.py that breaks this breaks
   the obligation with the offending item as witness. *)
From Coq Require Import List Bool Arith NArith Lia.
From PT Require Import Lang.PSyntax Lang.Dec Lang.ParsePolish Lang.ParsePolishProofs Lang.WritePolish.
Import ListNotations.

Definition item_eq_dec (a b : item) : {a = b} + {a <> b}.
Proof.
  decide equality; try apply Nat.eq_dec; try apply N.eq_dec;
    [apply uop_eq_dec | apply bop_eq_dec | apply quant_eq_dec | apply syspred_eq_dec].
Defined.

Definition maps_to (T : ptable) (o : option str) (it : item) : bool :=
  match o with
  | Some [c] => match tlookup T c with
                | Some it' => if item_eq_dec it' it then true else false
                | None => false
                end
  | _ => false
  end.

Lemma maps_to_spec T o it : maps_to T o it = true -> exists c, o = Some [c] /\ tlookup T c = Some it.
Proof.
  unfold maps_to. destruct o as [[|c [|]]|]; try discriminate.
  destruct (tlookup T c) as [it'|] eqn:E; [|discriminate].
  destruct (item_eq_dec it' it); [|discriminate]. subst.
  intros _. exists c. split; [reflexivity | exact E].
Qed.

Definition digit_ok (T : ptable) (d : N) : bool :=
  match tlookup T (48 + d) with Some (IDigit d') => (d' =? d)%N | _ => false end.

Definition is_empty (o : option str) : bool := match o with Some [] => true | _ => false end.

Definition agree_b (T : ptable) (W : wtable) : bool :=
  forallb (fun o => maps_to T (w_uop W o) (IOper1 o)) all_uops &&
  forallb (fun o => maps_to T (w_bop W o) (IOper2 o)) all_bops &&
  forallb (fun q => maps_to T (w_quant W q) (IQuant q)) all_quants &&
  forallb (fun p => maps_to T (w_sys W p) (ISys p)) all_sys &&
  forallb (fun i => maps_to T (w_atom W i) (IAtom i)) (seq 0 (S maxi_atom)) &&
  forallb (fun i => maps_to T (w_var W i) (IVar i)) (seq 0 (S maxi_param)) &&
  forallb (fun i => maps_to T (w_const W i) (IConst i)) (seq 0 (S maxi_param)) &&
  forallb (fun i => maps_to T (w_pred W i) (IPred i)) (seq 0 (S maxi_pred)) &&
  forallb (digit_ok T) [0; 1; 2; 3; 4; 5; 6; 7; 8; 9]%N &&
  is_empty (w_subopen W) && is_empty (w_subclose W).

Record agree (T : ptable) (W : wtable) : Prop := {
  ag_uop : forall o, exists c, w_uop W o = Some [c] /\ tlookup T c = Some (IOper1 o);
  ag_bop : forall o, exists c, w_bop W o = Some [c] /\ tlookup T c = Some (IOper2 o);
  ag_quant : forall q, exists c, w_quant W q = Some [c] /\ tlookup T c = Some (IQuant q);
  ag_sys : forall p, exists c, w_sys W p = Some [c] /\ tlookup T c = Some (ISys p);
  ag_atom : forall i, i <= maxi_atom -> exists c, w_atom W i = Some [c] /\ tlookup T c = Some (IAtom i);
  ag_var : forall i, i <= maxi_param -> exists c, w_var W i = Some [c] /\ tlookup T c = Some (IVar i);
  ag_const : forall i, i <= maxi_param -> exists c, w_const W i = Some [c] /\ tlookup T c = Some (IConst i);
  ag_pred : forall i, i <= maxi_pred -> exists c, w_pred W i = Some [c] /\ tlookup T c = Some (IPred i);
  ag_digit : forall d, (d < 10)%N -> tlookup T (48 + d) = Some (IDigit d);
  ag_open : w_subopen W = Some [];
  ag_close : w_subclose W = Some []
}.

Lemma in_seq0 i n : i < n -> In i (seq 0 n).
Proof. intros. apply in_seq. lia. Qed.

Lemma agree_b_sound T W : agree_b T W = true -> agree T W.
Proof.
  unfold agree_b. rewrite !andb_true_iff.
  intros [[[[[[[[[[H1 H2] H3] H4] H5] H6] H7] H8] H9] H10] H11].
  rewrite forallb_forall in H1, H2, H3, H4, H5, H6, H7, H8, H9.
  constructor.
  - intros o. apply maps_to_spec, H1, all_uops_complete.
  - intros o. apply maps_to_spec, H2, all_bops_complete.
  - intros q. apply maps_to_spec, H3, all_quants_complete.
  - intros p. apply maps_to_spec, H4, all_sys_complete.
  - intros i Hi. apply maps_to_spec, H5, in_seq0. lia.
  - intros i Hi. apply maps_to_spec, H6, in_seq0. lia.
  - intros i Hi. apply maps_to_spec, H7, in_seq0. lia.
  - intros i Hi. apply maps_to_spec, H8, in_seq0. lia.
  - intros d Hd.
    assert (Hin : In d [0; 1; 2; 3; 4; 5; 6; 7; 8; 9]%N).
    { destruct d as [|p]; [simpl; tauto|].
      do 9 (destruct p as [p|p|]; try (simpl; tauto); try (exfalso; lia)). }
    specialize (H9 d Hin). unfold digit_ok in H9.
    destruct (tlookup T (48 + d)) as [[]|]; try discriminate.
    apply N.eqb_eq in H9. subst. reflexivity.
  - unfold is_empty in H10. destruct (w_subopen W) as [[|]|]; try discriminate. reflexivity.
  - unfold is_empty in H11. destruct (w_subclose W) as [[|]|]; try discriminate. reflexivity.
Qed.

(* ------------------------------------------------------------------------ *)

Definition chr (d : N) : N := (48 + d)%N.

Lemma dec_chr n : n <> 0%N -> dec n = map chr (dec_digits n).
Proof. intros H. unfold dec. apply N.eqb_neq in H. rewrite H. reflexivity. Qed.

Section RT.
Variable T : ptable.
Variable W : wtable.
Hypothesis AG : agree T W.

(* what may follow a written item: after whitespace, not a digit, not a parameter *)
Definition stop_ok (rest : str) : bool :=
  match chomp T rest with
  | [] => true
  | c :: _ => match tlookup T c with
              | Some (IDigit _) | Some (IVar _) | Some (IConst _) => false
              | _ => true
              end
  end.

(* weaker: not a digit *)
Definition nodigit (rest : str) : bool :=
  match chomp T rest with
  | [] => true
  | c :: _ => match tlookup T c with Some (IDigit _) => false | _ => true end
  end.

Lemma stop_nodigit rest : stop_ok rest = true -> nodigit rest = true.
Proof.
  unfold stop_ok, nodigit. destruct (chomp T rest) as [|c r]; [auto|].
  destruct (tlookup T c) as [[]|]; auto.
Qed.

Definition nonws (c : N) : Prop := tlookup T c <> Some IWs.

Lemma chomp_nonws c r : nonws c -> chomp T (c :: r) = c :: r.
Proof.
  unfold nonws. intros H. cbn [chomp].
  destruct (tlookup T c) as [[]|]; try reflexivity. congruence.
Qed.

Lemma chomp_idem r : chomp T (chomp T r) = chomp T r.
Proof.
  induction r as [|c r IH]; [reflexivity|].
  cbn [chomp]. destruct (tlookup T c) as [it|] eqn:E.
  - destruct it; try (cbn [chomp]; rewrite E; reflexivity). exact IH.
  - cbn [chomp]. rewrite E. reflexivity.
Qed.

Lemma nodigit_head c r : (forall d, tlookup T c <> Some (IDigit d)) -> nonws c -> nodigit (c :: r) = true.
Proof.
  intros Hd Hw. unfold nodigit. rewrite chomp_nonws by exact Hw.
  destruct (tlookup T c) as [[]|] eqn:E; auto. exfalso. eapply Hd. reflexivity.
Qed.

(* digits *)
Lemma read_digits : forall ds acc rest k,
  (forall d, In d ds -> (d < 10)%N) -> nodigit rest = true ->
  length (ds ++ rest) < k ->
  read_sub T k acc (chomp T (map chr ds ++ rest)) = (OK (valf acc ds), chomp T rest).
Proof.
  induction ds as [|d ds IH]; intros acc rest k Hd Hn Hk.
  - cbn [map app]. destruct k as [|k]; [simpl in Hk; lia|].
    unfold nodigit in Hn. cbn [read_sub valf fold_left].
    destruct (chomp T rest) as [|c r]; [reflexivity|].
    destruct (tlookup T c) as [[]|]; try reflexivity. discriminate.
  - destruct k as [|k]; [simpl in Hk; lia|].
    cbn [map app].
    assert (Hlk : tlookup T (chr d) = Some (IDigit d)) by (apply (ag_digit _ _ AG), Hd; left; reflexivity).
    rewrite chomp_nonws by (unfold nonws; rewrite Hlk; discriminate).
    cbn [read_sub]. rewrite Hlk. unfold advance. cbn [tl].
    rewrite IH.
    + reflexivity.
    + intros d' Hd'. apply Hd. right. exact Hd'.
    + exact Hn.
    + simpl in Hk. lia.
Qed.

Lemma wsub_spec sub w : wsub W sub = Some w ->
  (sub = 0%N /\ w = []) \/ (sub <> 0%N /\ w = map chr (dec_digits sub)).
Proof.
  unfold wsub. destruct (sub =? 0)%N eqn:E.
  - intros H; inversion H. left. apply N.eqb_eq in E. auto.
  - rewrite (ag_open _ _ AG), (ag_close _ _ AG). cbn [oapp app].
    intros H; inversion H. right. apply N.eqb_neq in E. split; [exact E|].
    rewrite app_nil_r. apply dec_chr. exact E.
Qed.

Lemma wsub_total sub : exists w, wsub W sub = Some w.
Proof.
  unfold wsub. destruct (sub =? 0)%N; [eauto|].
  rewrite (ag_open _ _ AG), (ag_close _ _ AG). cbn [oapp]. eauto.
Qed.

Lemma wsub_len sub w : wsub W sub = Some w -> True. Proof. auto. Qed.

(* coordinates: symbol character c already identified by the caller *)
Lemma read_coords_written c sub w rest F :
  wsub W sub = Some w -> nodigit rest = true -> length (c :: w ++ rest) < F ->
  read_coords T F (c :: w ++ rest) = (OK sub, chomp T rest).
Proof.
  intros Hw Hn HF. unfold read_coords, advance. cbn [tl].
  destruct (wsub_spec _ _ Hw) as [[-> ->]|[Hne ->]].
  - change ([] ++ rest) with (map chr [] ++ rest).
    rewrite read_digits; [reflexivity | intros d [] | exact Hn | simpl in *; lia].
  - rewrite read_digits.
    + rewrite dec_digits_value. reflexivity.
    + apply dec_digits_lt10.
    + exact Hn.
    + simpl in HF. rewrite app_length, map_length in HF. rewrite app_length. lia.
Qed.

Lemma wparam_spec p w : wparam W p = Some w -> wf_param p = true ->
  exists c ws sub, w = c :: ws /\ wsub W sub = Some ws /\
    ((exists i, p = Const i sub /\ tlookup T c = Some (IConst i)) \/
     (exists i, p = Var i sub /\ tlookup T c = Some (IVar i))).
Proof.
  destruct p as [i sub|i sub]; cbn [wparam wf_param]; intros Hw Hwf; apply Nat.leb_le in Hwf.
  - destruct (ag_const _ _ AG i Hwf) as [c [Hc Hl]]. unfold wcoords in Hw. rewrite Hc in Hw.
    destruct (wsub W sub) as [ws|] eqn:Es; [|discriminate]. cbn in Hw. inversion Hw; subst.
    exists c, ws, sub. repeat split; auto. left. eauto.
  - destruct (ag_var _ _ AG i Hwf) as [c [Hc Hl]]. unfold wcoords in Hw. rewrite Hc in Hw.
    destruct (wsub W sub) as [ws|] eqn:Es; [|discriminate]. cbn in Hw. inversion Hw; subst.
    exists c, ws, sub. repeat split; auto. right. eauto.
Qed.

Lemma read_parameter_written p w rest F B :
  wparam W p = Some w -> wf_param p = true -> pvars_ok B p = true ->
  nodigit rest = true -> length (w ++ rest) < F ->
  read_parameter T F B (w ++ rest) = (OK p, chomp T rest).
Proof.
  intros Hw Hwf Hb Hn HF.
  destruct (wparam_spec _ _ Hw Hwf) as [c [ws [sub [-> [Hs Hcase]]]]].
  cbn [app]. unfold read_parameter.
  destruct Hcase as [[i [-> Hl]]|[i [-> Hl]]]; rewrite Hl.
  - rewrite (read_coords_written c sub ws rest F Hs Hn HF). cbn [bind1].
    unfold mk_const. cbn [wf_param] in Hwf. rewrite Hwf. reflexivity.
  - rewrite (read_coords_written c sub ws rest F Hs Hn HF). cbn [bind1].
    unfold mk_var. cbn [wf_param] in Hwf. rewrite Hwf.
    cbn [pvars_ok] in Hb. rewrite Hb. reflexivity.
Qed.

Lemma wparam_head p w rest : wparam W p = Some w -> wf_param p = true ->
  chomp T (w ++ rest) = w ++ rest /\ nodigit (w ++ rest) = true /\
  exists c r, w ++ rest = c :: r /\ (exists i, tlookup T c = Some (IConst i) \/ tlookup T c = Some (IVar i)).
Proof.
  intros Hw Hwf.
  destruct (wparam_spec _ _ Hw Hwf) as [c [ws [sub [-> [Hs Hcase]]]]].
  cbn [app].
  assert (Hnw : nonws c) by (unfold nonws; destruct Hcase as [[i [_ Hl]]|[i [_ Hl]]]; rewrite Hl; discriminate).
  split; [apply chomp_nonws; exact Hnw|]. split.
  - apply nodigit_head; [|exact Hnw]. intros d. destruct Hcase as [[i [_ Hl]]|[i [_ Hl]]]; rewrite Hl; discriminate.
  - exists c, (ws ++ rest). split; [reflexivity|].
    destruct Hcase as [[i [_ Hl]]|[i [_ Hl]]]; exists i; auto.
Qed.

Lemma read_params_written F B : forall ps w rest,
  wparams W ps = Some w -> forallb wf_param ps = true -> forallb (pvars_ok B) ps = true ->
  nodigit rest = true -> length (w ++ rest) < F ->
  read_params T F B (length ps) (chomp T (w ++ rest)) = (OK ps, chomp T rest).
Proof.
  induction ps as [|p ps IH]; intros w rest Hw Hwf Hb Hn HF.
  - cbn in Hw. inversion Hw; subst. reflexivity.
  - cbn [wparams] in Hw. destruct (wparam W p) as [wp|] eqn:Ep; [|discriminate].
    destruct (wparams W ps) as [wps|] eqn:Eps; [|discriminate]. cbn in Hw. inversion Hw; subst.
    cbn [forallb] in Hwf, Hb. apply andb_true_iff in Hwf. apply andb_true_iff in Hb.
    destruct Hwf as [Hwf1 Hwf2]. destruct Hb as [Hb1 Hb2].
    rewrite <- app_assoc.
    destruct (wparam_head p wp (wps ++ rest) Ep Hwf1) as [Hc _]. rewrite Hc.
    cbn [length read_params].
    assert (Hn1 : nodigit (wps ++ rest) = true).
    { destruct ps as [|p2 ps2].
      - cbn in Eps. inversion Eps; subst. exact Hn.
      - cbn [wparams] in Eps. destruct (wparam W p2) as [wp2|] eqn:Ep2; [|discriminate].
        destruct (wparams W ps2) as [wps2|]; [|discriminate]. cbn in Eps. inversion Eps; subst.
        cbn [forallb] in Hwf2. apply andb_true_iff in Hwf2. destruct Hwf2 as [Hw2 _].
        rewrite <- app_assoc. apply (wparam_head p2 wp2 (wps2 ++ rest) Ep2 Hw2). }
    rewrite (read_parameter_written p wp (wps ++ rest) F B Ep Hwf1 Hb1 Hn1).
    + cbn [bind1]. rewrite (IH wps rest eq_refl Hwf2 Hb2 Hn).
      * reflexivity.
      * rewrite <- app_assoc in HF. rewrite app_length in HF. lia.
    + rewrite <- app_assoc in HF. exact HF.
Qed.

Lemma read_params_auto_written F B : forall ps w rest k,
  wparams W ps = Some w -> forallb wf_param ps = true -> forallb (pvars_ok B) ps = true ->
  stop_ok rest = true -> length (w ++ rest) < F -> length (w ++ rest) < k ->
  read_params_auto T F k B (chomp T (w ++ rest)) = (OK ps, chomp T rest).
Proof.
  induction ps as [|p ps IH]; intros w rest k Hw Hwf Hb Hs HF Hk.
  - cbn in Hw. inversion Hw; subst. cbn [app].
    destruct k as [|k]; [simpl in Hk; lia|]. cbn [read_params_auto].
    unfold stop_ok in Hs. destruct (chomp T rest) as [|c r]; [reflexivity|].
    destruct (tlookup T c) as [[]|]; try reflexivity; discriminate.
  - cbn [wparams] in Hw. destruct (wparam W p) as [wp|] eqn:Ep; [|discriminate].
    destruct (wparams W ps) as [wps|] eqn:Eps; [|discriminate]. cbn in Hw. inversion Hw; subst.
    cbn [forallb] in Hwf, Hb. apply andb_true_iff in Hwf. apply andb_true_iff in Hb.
    destruct Hwf as [Hwf1 Hwf2]. destruct Hb as [Hb1 Hb2].
    rewrite <- app_assoc in *.
    destruct (wparam_head p wp (wps ++ rest) Ep Hwf1) as [Hc [_ [c [r [Heq [i Hci]]]]]]. rewrite Hc.
    destruct k as [|k]; [simpl in Hk; lia|]. cbn [read_params_auto].
    assert (Hn1 : nodigit (wps ++ rest) = true).
    { destruct ps as [|p2 ps2].
      - cbn in Eps. inversion Eps; subst. apply stop_nodigit. exact Hs.
      - cbn [wparams] in Eps. destruct (wparam W p2) as [wp2|] eqn:Ep2; [|discriminate].
        destruct (wparams W ps2) as [wps2|]; [|discriminate]. cbn in Eps. inversion Eps; subst.
        cbn [forallb] in Hwf2. apply andb_true_iff in Hwf2. destruct Hwf2 as [Hw2 _].
        rewrite <- app_assoc. apply (wparam_head p2 wp2 (wps2 ++ rest) Ep2 Hw2). }
    assert (Hstep : bind1 (read_parameter T F B (wp ++ wps ++ rest)) (fun p0 r1 =>
              bind1 (read_params_auto T F k B r1) (fun ps0 r2 => (OK (p0 :: ps0), r2))) = (OK (p :: ps), chomp T rest)).
    { rewrite (read_parameter_written p wp (wps ++ rest) F B Ep Hwf1 Hb1 Hn1 HF). cbn [bind1].
      rewrite (IH wps rest k eq_refl Hwf2 Hb2 Hs).
      - reflexivity.
      - rewrite app_length in HF. lia.
      - assert (0 < length wp).
        { destruct (wparam_spec _ _ Ep Hwf1) as [c0 [ws [sub [-> _]]]]. simpl; lia. }
        rewrite app_length in Hk. simpl in Hk. lia. }
    rewrite Heq in *. destruct Hci as [Hci|Hci]; rewrite Hci; exact Hstep.
Qed.

End RT.

(* ------------------------------------------------------------------------ *)
(* the store a successful parse of s leaves behind, starting from P *)
Fixpoint acs (auto : bool) (P : store) (s : sent) : option store :=
  match s with
  | Atom _ _ => Some P
  | Pred (PSys _) _ => Some P
  | Pred (PUser i sub a) _ =>
      match slookup P (i, sub) with
      | Some a' => if a' =? a then Some P else None
      | None => if auto then Some (P ++ [(i, sub, a)]) else None
      end
  | Quant _ _ b => acs auto P b
  | Un _ a => acs auto P a
  | Bin _ a b => match acs auto P a with Some P1 => acs auto P1 b | None => None end
  end.

Definition sstart (it : item) : Prop :=
  match it with
  | IOper1 _ | IOper2 _ | IQuant _ | ISys _ | IPred _ | IAtom _ => True
  | _ => False
  end.

Section Main.
Variable C : cfg.
Variable W : wtable.
Local Notation T := (tab C).
Hypothesis AG : agree T W.
Hypothesis Hfz : frozen C = false.

Lemma wparams_nodigit : forall ps wps rest,
  wparams W ps = Some wps -> forallb wf_param ps = true -> nodigit T rest = true ->
  nodigit T (wps ++ rest) = true.
Proof.
  intros [|p ps] wps rest Hw Hwf Hn.
  - cbn in Hw. inversion Hw; subst. exact Hn.
  - cbn [wparams] in Hw. destruct (wparam W p) as [wp|] eqn:Ep; [|discriminate].
    destruct (wparams W ps) as [wps'|]; [|discriminate]. cbn in Hw. inversion Hw; subst.
    cbn [forallb] in Hwf. apply andb_true_iff in Hwf. destruct Hwf as [Hw1 _].
    rewrite <- app_assoc. apply (wparam_head T W AG p wp (wps' ++ rest) Ep Hw1).
Qed.

Lemma wparams_total : forall ps, forallb wf_param ps = true -> exists w, wparams W ps = Some w.
Proof.
  induction ps as [|p ps IH]; intros H; [cbn; eauto|].
  cbn [forallb] in H. apply andb_true_iff in H. destruct H as [H1 H2].
  destruct (IH H2) as [w Hw]. cbn [wparams]. rewrite Hw.
  destruct p as [i sub|i sub]; cbn [wparam wf_param] in *; apply Nat.leb_le in H1.
  - destruct (ag_const _ _ AG i H1) as [c [Hc _]]. destruct (wsub_total T W AG sub) as [ws Hs].
    unfold wcoords. rewrite Hc, Hs. cbn. eauto.
  - destruct (ag_var _ _ AG i H1) as [c [Hc _]]. destruct (wsub_total T W AG sub) as [ws Hs].
    unfold wcoords. rewrite Hc, Hs. cbn. eauto.
Qed.

Lemma write_total : forall s, wf_items s = true -> exists w, write_polish W s = Some w.
Proof.
  induction s as [i sub|p args|q [i sub] b IH|o a IH|o a IHa b IHb]; cbn [wf_items write_polish]; intros H.
  - apply Nat.leb_le in H. destruct (ag_atom _ _ AG i H) as [c [Hc _]].
    destruct (wsub_total T W AG sub) as [ws Hs]. unfold wcoords. rewrite Hc, Hs. cbn. eauto.
  - apply andb_true_iff in H. destruct H as [H H3]. apply andb_true_iff in H. destruct H as [H1 H2].
    destruct (wparams_total args H2) as [wps Hps]. rewrite Hps.
    destruct p as [q|i sub a]; cbn [wpred].
    + destruct (ag_sys _ _ AG q) as [c [Hc _]]. rewrite Hc. cbn. eauto.
    + cbn [wf_pred] in H1. apply andb_true_iff in H1. destruct H1 as [H1 _]. apply Nat.leb_le in H1.
      destruct (ag_pred _ _ AG i H1) as [c [Hc _]]. destruct (wsub_total T W AG sub) as [ws Hs].
      unfold wcoords. rewrite Hc, Hs. cbn. eauto.
  - apply andb_true_iff in H. destruct H as [H1 H2]. cbn [fst] in H1. apply Nat.leb_le in H1.
    destruct (IH H2) as [wb Hb]. rewrite Hb.
    destruct (ag_quant _ _ AG q) as [c [Hc _]]. rewrite Hc.
    destruct (ag_var _ _ AG i H1) as [cv [Hv _]]. destruct (wsub_total T W AG sub) as [ws Hs].
    unfold wcoords. rewrite Hv, Hs. cbn. eauto.
  - destruct (IH H) as [wa Ha]. rewrite Ha. destruct (ag_uop _ _ AG o) as [c [Hc _]]. rewrite Hc. cbn. eauto.
  - apply andb_true_iff in H. destruct H as [H1 H2].
    destruct (IHa H1) as [wa Ha]. destruct (IHb H2) as [wb Hb]. rewrite Ha, Hb.
    destruct (ag_bop _ _ AG o) as [c [Hc _]]. rewrite Hc. cbn. eauto.
Qed.

Lemma write_head : forall s w, write_polish W s = Some w -> wf_items s = true ->
  exists c w' it, w = c :: w' /\ tlookup T c = Some it /\ sstart it.
Proof.
  intros s w Hw Hwf.
  destruct s as [i sub|p args|q [i sub] b|o a|o a b]; cbn [wf_items write_polish] in *.
  - apply Nat.leb_le in Hwf. destruct (ag_atom _ _ AG i Hwf) as [c [Hc Hl]].
    unfold wcoords in Hw. rewrite Hc in Hw. destruct (wsub W sub); [|discriminate].
    cbn in Hw. inversion Hw. exists c, s, (IAtom i). cbn; auto.
  - apply andb_true_iff in Hwf. destruct Hwf as [Hwf _]. apply andb_true_iff in Hwf. destruct Hwf as [H1 _].
    destruct (wparams W args) as [wps|]; [|destruct (wpred W p); discriminate].
    destruct p as [q|i sub a]; cbn [wpred] in Hw.
    + destruct (ag_sys _ _ AG q) as [c [Hc Hl]]. rewrite Hc in Hw. cbn in Hw. inversion Hw.
      exists c, wps, (ISys q). cbn; auto.
    + cbn [wf_pred] in H1. apply andb_true_iff in H1. destruct H1 as [H1 _]. apply Nat.leb_le in H1.
      destruct (ag_pred _ _ AG i H1) as [c [Hc Hl]]. unfold wcoords in Hw. rewrite Hc in Hw.
      destruct (wsub W sub) as [ws|]; [|discriminate]. cbn in Hw. inversion Hw.
      exists c, (ws ++ wps), (IPred i). cbn; auto.
  - destruct (ag_quant _ _ AG q) as [c [Hc Hl]]. rewrite Hc in Hw.
    destruct (oapp (wcoords W (w_var W i) sub) (write_polish W b)) as [x|]; [|discriminate].
    cbn in Hw. inversion Hw. exists c, x, (IQuant q). cbn; auto.
  - destruct (ag_uop _ _ AG o) as [c [Hc Hl]]. rewrite Hc in Hw.
    destruct (write_polish W a) as [x|]; [|discriminate].
    cbn in Hw. inversion Hw. exists c, x, (IOper1 o). cbn; auto.
  - destruct (ag_bop _ _ AG o) as [c [Hc Hl]]. rewrite Hc in Hw.
    destruct (oapp (write_polish W a) (write_polish W b)) as [x|]; [|discriminate].
    cbn in Hw. inversion Hw. exists c, x, (IOper2 o). cbn; auto.
Qed.

Lemma sstart_facts c it r : tlookup T c = Some it -> sstart it ->
  chomp T (c :: r) = c :: r /\ stop_ok T (c :: r) = true.
Proof.
  intros Hl Hs.
  assert (Hnw : nonws T c) by (unfold nonws; rewrite Hl; destruct it; cbn in Hs; try contradiction; discriminate).
  split; [apply chomp_nonws; exact Hnw|].
  unfold stop_ok. rewrite chomp_nonws by exact Hnw. rewrite Hl.
  destruct it; cbn in Hs; try contradiction; reflexivity.
Qed.

Lemma written_facts s w rest : write_polish W s = Some w -> wf_items s = true ->
  chomp T (w ++ rest) = w ++ rest /\ stop_ok T (w ++ rest) = true /\ 0 < length w.
Proof.
  intros Hw Hwf. destruct (write_head s w Hw Hwf) as [c [w' [it [-> [Hl Hs]]]]].
  cbn [app]. destruct (sstart_facts c it (w' ++ rest) Hl Hs) as [H1 H2].
  repeat split; auto. simpl; lia.
Qed.

Lemma read_written F : forall s k B P P' w rest,
  write_polish W s = Some w -> wf_items s = true -> closed_in B s = true ->
  nonvacuous s = true -> norebind_in B s = true ->
  acs (auto_preds C) P s = Some P' -> stop_ok T rest = true ->
  length (w ++ rest) < k -> length (w ++ rest) < F ->
  read C F k B (w ++ rest) P = (OK s, chomp T rest, P').
Proof.
  induction s as [i sub|p args|q [i sub] b IH|o a IH|o a IHa b IHb];
    intros k B P P' w rest Hw Hwf Hcl Hnv Hnr Hac Hst Hk HF;
    (destruct k as [|k]; [simpl in Hk; lia|]);
    cbn [wf_items write_polish closed_in nonvacuous norebind_in acs] in *.
  - (* Atom *)
    apply Nat.leb_le in Hwf. destruct (ag_atom _ _ AG i Hwf) as [c [Hc Hl]].
    unfold wcoords in Hw. rewrite Hc in Hw. destruct (wsub W sub) as [ws|] eqn:Es; [|discriminate].
    cbn in Hw. inversion Hw; subst w. inversion Hac; subst P'. cbn [app] in *.
    cbn [read]. rewrite Hl.
    rewrite (read_coords_written T W AG c sub ws rest F Es (stop_nodigit T _ Hst) HF). cbn [bind2].
    unfold mk_atom. apply Nat.leb_le in Hwf. rewrite Hwf. reflexivity.
  - (* Pred *)
    apply andb_true_iff in Hwf. destruct Hwf as [Hwf Hlen]. apply andb_true_iff in Hwf.
    destruct Hwf as [Hp Hargs]. apply Nat.eqb_eq in Hlen.
    destruct (wparams W args) as [wps|] eqn:Eps; [|destruct (wpred W p); discriminate].
    pose proof (wparams_nodigit args wps rest Eps Hargs (stop_nodigit T _ Hst)) as Hnd.
    destruct p as [q|i sub a]; cbn [wpred pred_arity] in *.
    + destruct (ag_sys _ _ AG q) as [c [Hc Hl]]. rewrite Hc in Hw. cbn in Hw. inversion Hw; subst w.
      inversion Hac; subst P'. cbn [app] in *. cbn [read]. rewrite Hl.
      unfold advance. cbn [tl]. rewrite <- Hlen.
      rewrite (read_params_written T W AG F B args wps rest Eps Hargs Hcl (stop_nodigit T _ Hst)).
      * reflexivity.
      * simpl in HF. lia.
    + cbn [wf_pred] in Hp. apply andb_true_iff in Hp. destruct Hp as [Hi Ha].
      apply Nat.leb_le in Hi. destruct (ag_pred _ _ AG i Hi) as [c [Hc Hl]].
      unfold wcoords in Hw. rewrite Hc in Hw. destruct (wsub W sub) as [ws|] eqn:Es; [|discriminate].
      cbn in Hw. inversion Hw; subst w. cbn [app] in *. rewrite <- app_assoc in *.
      cbn [read]. rewrite Hl.
      rewrite (read_coords_written T W AG c sub ws (wps ++ rest) F Es Hnd HF). cbn [bind2].
      assert (HF2 : length (wps ++ rest) < F) by (simpl in HF; rewrite app_length in HF; lia).
      destruct (slookup P (i, sub)) as [a'|] eqn:El.
      * destruct (a' =? a) eqn:Ea; [|discriminate]. apply Nat.eqb_eq in Ea. inversion Hac; subst.
        rewrite (read_params_written T W AG F B args wps rest Eps Hargs Hcl (stop_nodigit T _ Hst) HF2).
        reflexivity.
      * destruct (auto_preds C); [|discriminate]. inversion Hac; subst P'.
        rewrite (read_params_auto_written T W AG F B args wps rest F Eps Hargs Hcl Hst HF2 HF2).
        cbn [bind2]. rewrite Hlen.
        apply Nat.leb_le in Ha. apply Nat.leb_le in Hi.
        replace (a =? 0) with false by (symmetry; apply Nat.eqb_neq; lia).
        rewrite Hi. cbn [negb orb]. rewrite Hfz. reflexivity.
  - (* Quant *)
    apply andb_true_iff in Hwf. destruct Hwf as [Hi Hwb]. cbn [fst] in Hi.
    apply andb_true_iff in Hnv. destruct Hnv as [Hocc Hnvb].
    apply andb_true_iff in Hnr. destruct Hnr as [Hnb Hnrb]. apply negb_true_iff in Hnb.
    destruct (ag_quant _ _ AG q) as [c [Hc Hl]]. rewrite Hc in Hw.
    pose proof Hi as Hi'. apply Nat.leb_le in Hi'.
    destruct (ag_var _ _ AG i Hi') as [cv [Hv Hlv]].
    unfold wcoords in Hw. rewrite Hv in Hw. destruct (wsub W sub) as [ws|] eqn:Es; [|discriminate].
    destruct (write_polish W b) as [wb|] eqn:Eb; [|discriminate].
    cbn in Hw. inversion Hw; subst w. cbn [app] in *. rewrite <- app_assoc in *.
    destruct (written_facts b wb rest Eb Hwb) as [Hch [Hsb Hlb]].
    cbn [read]. rewrite Hl. unfold advance. cbn [tl].
    rewrite chomp_nonws by (unfold nonws; rewrite Hlv; discriminate).
    rewrite Hlv.
    rewrite (read_coords_written T W AG cv sub ws (wb ++ rest) F Es (stop_nodigit T _ Hsb)) by (cbn [length] in HF |- *; lia).
    cbn [bind2]. unfold mk_var. rewrite Hi. rewrite Hnb. rewrite Hch.
    rewrite (IH k ((i, sub) :: B) P P' wb rest eq_refl Hwb Hcl Hnvb Hnrb Hac Hst).
    + cbn [bind3]. rewrite Hocc. reflexivity.
    + simpl in Hk. rewrite app_length in Hk. lia.
    + simpl in HF. rewrite app_length in HF. lia.
  - (* Un *)
    destruct (ag_uop _ _ AG o) as [c [Hc Hl]]. rewrite Hc in Hw.
    destruct (write_polish W a) as [wa|] eqn:Ea; [|discriminate].
    cbn in Hw. inversion Hw; subst w. cbn [app] in *.
    destruct (written_facts a wa rest Ea Hwf) as [Hch [Hsa Hla]].
    cbn [read]. rewrite Hl. unfold advance. cbn [tl]. rewrite Hch.
    rewrite (IH k B P P' wa rest eq_refl Hwf Hcl Hnv Hnr Hac Hst).
    + reflexivity.
    + simpl in Hk. lia.
    + simpl in HF. lia.
  - (* Bin *)
    apply andb_true_iff in Hwf. destruct Hwf as [Hwa Hwb].
    apply andb_true_iff in Hcl. destruct Hcl as [Hca Hcb].
    apply andb_true_iff in Hnv. destruct Hnv as [Hna Hnb].
    apply andb_true_iff in Hnr. destruct Hnr as [Hra Hrb].
    destruct (acs (auto_preds C) P a) as [P1|] eqn:Eac; [|discriminate].
    destruct (ag_bop _ _ AG o) as [c [Hc Hl]]. rewrite Hc in Hw.
    destruct (write_polish W a) as [wa|] eqn:Ea; [|discriminate].
    destruct (write_polish W b) as [wb|] eqn:Eb; [|discriminate].
    cbn in Hw. inversion Hw; subst w. cbn [app] in *. rewrite <- app_assoc in *.
    destruct (written_facts a wa (wb ++ rest) Ea Hwa) as [Hcha [Hsa Hla]].
    destruct (written_facts b wb rest Eb Hwb) as [Hchb [Hsb Hlb]].
    cbn [read]. rewrite Hl. unfold advance. cbn [tl]. rewrite Hcha.
    rewrite (IHa k B P P1 wa (wb ++ rest) eq_refl Hwa Hca Hna Hra Eac Hsb).
    + cbn [bind3]. rewrite Hchb.
      rewrite (IHb k B P1 P' wb rest eq_refl Hwb Hcb Hnb Hrb Hac Hst).
      * reflexivity.
      * simpl in Hk. rewrite app_length in Hk. lia.
      * simpl in HF. rewrite app_length in HF. lia.
    + simpl in Hk. lia.
    + simpl in HF. lia.
Qed.

(* the rendering of a well-formed sentence parses back, leaving the store acs predicts *)
Theorem parse_written : forall s w P P',
  write_polish W s = Some w -> wf_items s = true -> closed s = true ->
  nonvacuous s = true -> norebind s = true ->
  acs (auto_preds C) P s = Some P' ->
  parse_polish C P w = (OK s, P').
Proof.
  intros s w P P' Hw Hwf Hcl Hnv Hnr Hac.
  unfold parse_polish, finish.
  destruct (written_facts s w [] Hw Hwf) as [Hch _]. rewrite app_nil_r in Hch. rewrite Hch.
  pose proof (read_written (S (length w)) s (S (length w)) [] P P' w [] Hw Hwf Hcl Hnv Hnr Hac eq_refl) as H.
  rewrite app_nil_r in H. rewrite H by lia. reflexivity.
Qed.

End Main.

(* ------------------------------------------------------------------------ *)
(* from the declarative arity consistency to the store threading *)

Definition add_decl (P : store) (d : decl) : store :=
  match slookup P (decl_key d) with Some _ => P | None => P ++ [d] end.

Definition decls_from (P : store) (l : list decl) : store := fold_left add_decl l P.

(* the user predicates of s, each once, in order of first occurrence:
   what Parser.predicates holds after auto-declaring them, and the store
   Predicates(s.predicates) declares *)
Definition decls (s : sent) : store := decls_from [] (upreds s).

Definition cons (l : list decl) : Prop :=
  forall d e, In d l -> In e l -> decl_key d = decl_key e -> decl_arity d = decl_arity e.

Definition compat (P : store) (l : list decl) : Prop :=
  forall d, In d l -> forall a, slookup P (decl_key d) = Some a -> a = decl_arity d.

Lemma consistent_decls_cons l : consistent_decls l = true -> cons l.
Proof.
  unfold consistent_decls, cons. rewrite forallb_forall. intros H d e Hd He Hk.
  specialize (H d Hd). rewrite forallb_forall in H. specialize (H e He).
  unfold decls_agree in H. apply orb_true_iff in H. destruct H as [H|H].
  - apply negb_true_iff in H. rewrite Hk in H.
    assert (pkey_eqb (decl_key e) (decl_key e) = true) by (apply pkey_eqb_eq; reflexivity). congruence.
  - apply Nat.eqb_eq in H. exact H.
Qed.

Lemma slookup_single d k a : slookup [d] k = Some a -> decl_key d = k /\ decl_arity d = a.
Proof.
  cbn [slookup]. destruct (pkey_eqb (decl_key d) k) eqn:E; [|discriminate].
  apply pkey_eqb_eq in E. intros H; inversion H. auto.
Qed.

Lemma slookup_single_self d : slookup [d] (decl_key d) = Some (decl_arity d).
Proof.
  cbn [slookup]. replace (pkey_eqb (decl_key d) (decl_key d)) with true; [reflexivity|].
  symmetry. apply pkey_eqb_eq. reflexivity.
Qed.

Lemma add_decl_ext P e : ext P (add_decl P e).
Proof. unfold add_decl. destruct (slookup P (decl_key e)); [apply ext_refl | apply ext_app]. Qed.

Lemma decls_from_ext : forall l P, ext P (decls_from P l).
Proof.
  induction l as [|e l IH]; intros P; [apply ext_refl|].
  cbn [decls_from fold_left]. eapply ext_trans; [apply add_decl_ext | apply IH].
Qed.

Lemma slookup_decls_from : forall l P k a, slookup (decls_from P l) k = Some a ->
  slookup P k = Some a \/ exists e, In e l /\ decl_key e = k /\ decl_arity e = a.
Proof.
  induction l as [|e l IH]; intros P k a H; [left; exact H|].
  cbn [decls_from fold_left] in H. destruct (IH _ _ _ H) as [H1|[e' [H1 H2]]].
  - unfold add_decl in H1. destruct (slookup P (decl_key e)) eqn:E; [left; exact H1|].
    rewrite slookup_app in H1. destruct (slookup P k) eqn:Ek; [left; exact H1|].
    right. exists e. split; [left; reflexivity|]. apply slookup_single. exact H1.
  - right. exists e'. split; [right; exact H1 | exact H2].
Qed.

Lemma decls_from_declares : forall l P d, In d l -> exists a, slookup (decls_from P l) (decl_key d) = Some a.
Proof.
  induction l as [|e l IH]; intros P d Hd; [destruct Hd|].
  destruct Hd as [<-|Hin].
  - cbn [decls_from fold_left].
    assert (exists a, slookup (add_decl P e) (decl_key e) = Some a) as [a Ha].
    { unfold add_decl. destruct (slookup P (decl_key e)) eqn:E; [eauto|].
      rewrite slookup_app, E, slookup_single_self. eauto. }
    exists a. apply (decls_from_ext l (add_decl P e)). exact Ha.
  - cbn [decls_from fold_left]. apply IH. exact Hin.
Qed.

Lemma decls_from_app P l1 l2 : decls_from P (l1 ++ l2) = decls_from (decls_from P l1) l2.
Proof. unfold decls_from. apply fold_left_app. Qed.

Lemma cons_app_l l1 l2 : cons (l1 ++ l2) -> cons l1.
Proof. intros H d e Hd He. apply H; apply in_or_app; auto. Qed.
Lemma cons_app_r l1 l2 : cons (l1 ++ l2) -> cons l2.
Proof. intros H d e Hd He. apply H; apply in_or_app; auto. Qed.

Lemma acs_auto : forall s P, compat P (upreds s) -> cons (upreds s) ->
  acs true P s = Some (decls_from P (upreds s)).
Proof.
  induction s as [i sub|p args|q v b IH|o a IH|o a IHa b IHb]; intros P Hc Hk; cbn [acs upreds].
  - reflexivity.
  - destruct p as [q|i sub a]; [reflexivity|].
    cbn [decls_from fold_left]. unfold add_decl.
    change (decl_key (i, sub, a)) with (i, sub).
    destruct (slookup P (i, sub)) as [a'|] eqn:E; [|reflexivity].
    assert (a' = a) as ->.
    { apply (Hc (i, sub, a)); [left; reflexivity | exact E]. }
    rewrite Nat.eqb_refl. reflexivity.
  - apply IH; assumption.
  - apply IH; assumption.
  - rewrite (IHa P).
    + rewrite decls_from_app. apply IHb.
      * intros d Hd a' Ha'. destruct (slookup_decls_from _ _ _ _ Ha') as [H1|[e [H1 [H2 H3]]]].
        -- apply (Hc d); [apply in_or_app; right; exact Hd | exact H1].
        -- rewrite <- H3. apply Hk; [apply in_or_app; left; exact H1 | apply in_or_app; right; exact Hd | exact H2].
      * eapply cons_app_r; eauto.
    + intros d Hd. apply Hc. apply in_or_app; left; exact Hd.
    + eapply cons_app_l; eauto.
Qed.

Lemma acs_declared : forall s auto P,
  (forall d, In d (upreds s) -> slookup P (decl_key d) = Some (decl_arity d)) ->
  acs auto P s = Some P.
Proof.
  induction s as [i sub|p args|q v b IH|o a IH|o a IHa b IHb]; intros auto P H; cbn [acs upreds] in *.
  - reflexivity.
  - destruct p as [q|i sub a]; [reflexivity|].
    specialize (H (i, sub, a) (or_introl eq_refl)).
    change (decl_key (i, sub, a)) with (i, sub) in H. change (decl_arity (i, sub, a)) with a in H.
    rewrite H, Nat.eqb_refl. reflexivity.
  - apply IH; assumption.
  - apply IH; assumption.
  - rewrite IHa by (intros d Hd; apply H; apply in_or_app; left; exact Hd).
    apply IHb. intros d Hd; apply H; apply in_or_app; right; exact Hd.
Qed.

Lemma decls_declares s : cons (upreds s) ->
  forall d, In d (upreds s) -> slookup (decls s) (decl_key d) = Some (decl_arity d).
Proof.
  intros Hk d Hd. unfold decls.
  destruct (decls_from_declares (upreds s) [] d Hd) as [a Ha]. rewrite Ha. f_equal.
  destruct (slookup_decls_from _ _ _ _ Ha) as [H1|[e [H1 [H2 H3]]]]; [discriminate|].
  rewrite <- H3. apply Hk; assumption.
Qed.

(* ------------------------------------------------------------------------ *)
(* C12, Polish notation *)

Definition cfg_of (T : ptable) (auto : bool) : cfg := {| tab := T; auto_preds := auto; frozen := false |}.

Theorem polish_roundtrip : forall T W, agree_b T W = true ->
  forall s, roundtrippable s = true ->
  exists w, write_polish W s = Some w /\
            parse_polish (cfg_of T false) (decls s) w = (OK s, decls s) /\
            parse_polish (cfg_of T true) [] w = (OK s, decls s).
Proof.
  intros T W Hag s Hrt. apply agree_b_sound in Hag.
  unfold roundtrippable in Hrt. rewrite !andb_true_iff in Hrt.
  destruct Hrt as [[[[Hwf Hcl] Hnv] Hnr] Hac].
  apply consistent_decls_cons in Hac.
  destruct (write_total (cfg_of T true) W Hag s Hwf) as [w Hw].
  exists w. split; [exact Hw|]. split.
  - apply (parse_written (cfg_of T false) W Hag eq_refl s w (decls s) (decls s) Hw Hwf Hcl Hnv Hnr).
    apply acs_declared. apply decls_declares. exact Hac.
  - apply (parse_written (cfg_of T true) W Hag eq_refl s w [] (decls s) Hw Hwf Hcl Hnv Hnr).
    cbn [auto_preds cfg_of]. apply acs_auto; [|exact Hac].
    intros d _ a H. discriminate.
Qed.

(* distinct sentences of the language never render to the same Polish string *)
Corollary write_polish_injective : forall T W, agree_b T W = true ->
  forall s1 s2 w, roundtrippable s1 = true -> roundtrippable s2 = true ->
  write_polish W s1 = Some w -> write_polish W s2 = Some w -> s1 = s2.
Proof.
  intros T W Hag s1 s2 w H1 H2 W1 W2.
  destruct (polish_roundtrip T W Hag s1 H1) as [w1 [E1 [_ P1]]].
  destruct (polish_roundtrip T W Hag s2 H2) as [w2 [E2 [_ P2]]].
  rewrite W1 in E1. rewrite W2 in E2. inversion E1; inversion E2; subst.
  rewrite P1 in P2. inversion P2. reflexivity.
Qed.
