(* Whitespace — the parsers ignore whitespace characters entirely:
   parse i = parse (i with every whitespace character removed), outcome and store. *)
From Coq Require Import List Bool Arith NArith Lia.
From PT Require Import Lang.PSyntax Lang.ParsePolish Lang.ParsePolishProofs.
Import ListNotations.

Section Ws.
Variable T : ptable.

Definition is_ws (c : N) : bool := match tlookup T c with Some IWs => true | _ => false end.
Definition strip (r : str) : str := filter (fun c => negb (is_ws c)) r.
Definition chomped (r : str) : Prop := chomp T r = r.

Lemma chomp_step c r : chomp T (c :: r) = if is_ws c then chomp T r else c :: r.
Proof. cbn [chomp]. unfold is_ws. destruct (tlookup T c) as [[]|]; reflexivity. Qed.

Lemma strip_chomp r : strip (chomp T r) = strip r.
Proof.
  induction r as [|c r IH]; [reflexivity|].
  rewrite chomp_step. destruct (is_ws c) eqn:E.
  - rewrite IH. cbn [strip filter]. rewrite E. reflexivity.
  - reflexivity.
Qed.

Lemma chomp_strip r : chomp T (strip r) = strip r.
Proof.
  induction r as [|c r IH]; [reflexivity|].
  cbn [strip filter]. destruct (is_ws c) eqn:E; cbn [negb]; [exact IH|].
  rewrite chomp_step, E. reflexivity.
Qed.

Lemma chomped_chomp r : chomped (chomp T r).
Proof.
  unfold chomped. induction r as [|c r IH]; [reflexivity|].
  rewrite chomp_step. destruct (is_ws c) eqn:E; [exact IH|].
  rewrite chomp_step, E. reflexivity.
Qed.

Lemma chomped_cons c r : chomped (c :: r) -> is_ws c = false /\ strip (c :: r) = c :: strip r.
Proof.
  unfold chomped. rewrite chomp_step. destruct (is_ws c) eqn:E.
  - intros H. pose proof (chomp_len T r) as L. rewrite H in L. cbn in L. lia.
  - intros _. split; [reflexivity|]. cbn [strip filter]. rewrite E. reflexivity.
Qed.

Lemma strip_len r : length (strip r) <= length r.
Proof. unfold strip. induction r as [|c r IH]; cbn; [lia|]. destruct (negb (is_ws c)); cbn; lia. Qed.

Lemma advance_strip c r : advance T (c :: strip r) = strip (advance T (c :: r)).
Proof. unfold advance. cbn [tl]. rewrite chomp_strip, strip_chomp. reflexivity. Qed.

Lemma chomped_advance r : chomped (advance T r).
Proof. apply chomped_chomp. Qed.

Lemma chomp_nil_strip r : chomp T r = [] <-> strip r = [].
Proof.
  induction r as [|c r IH]; [tauto|].
  rewrite chomp_step. cbn [strip filter]. destruct (is_ws c); cbn [negb]; [exact IH|].
  split; discriminate.
Qed.

(* ---- the readers commute with strip on chomped inputs ------------------------------- *)

Lemma read_sub_strip : forall k k' acc X, chomped X -> length X < k -> length (strip X) < k' ->
  read_sub T k' acc (strip X) = (fst (read_sub T k acc X), strip (snd (read_sub T k acc X))) /\
  chomped (snd (read_sub T k acc X)).
Proof.
  induction k as [|k IH]; intros k' acc X HX Hk Hk'; [lia|].
  destruct k' as [|k']; [lia|].
  destruct X as [|c X]; [cbn; split; [reflexivity | reflexivity]|].
  destruct (chomped_cons c X HX) as [Hw Hs]. rewrite Hs in Hk'. rewrite Hs at 1.
  cbn [read_sub]. destruct (tlookup T c) as [it|] eqn:E; [|cbn [fst snd]; rewrite Hs; auto].
  destruct it; try (cbn [fst snd]; rewrite Hs; auto; fail).
  rewrite advance_strip.
  pose proof (advance_len T c X) as La.
  apply IH; [apply chomped_advance | cbn in Hk; lia |].
  rewrite <- advance_strip.
  pose proof (advance_len T c (strip X)). cbn in Hk'. lia.
Qed.

Lemma read_coords_strip F F' c X : chomped (c :: X) -> length (c :: X) < F -> length (strip (c :: X)) < F' ->
  read_coords T F' (strip (c :: X)) = (fst (read_coords T F (c :: X)), strip (snd (read_coords T F (c :: X)))) /\
  chomped (snd (read_coords T F (c :: X))).
Proof.
  intros HX HF HF'. destruct (chomped_cons c X HX) as [Hw Hs]. rewrite Hs in *.
  unfold read_coords. rewrite advance_strip.
  pose proof (advance_len T c X) as La.
  apply read_sub_strip; [apply chomped_advance | cbn in HF; lia |].
  rewrite <- advance_strip. pose proof (advance_len T c (strip X)). cbn in HF'. lia.
Qed.

Lemma read_parameter_strip F F' B X : chomped X -> length X < F -> length (strip X) < F' ->
  read_parameter T F' B (strip X) = (fst (read_parameter T F B X), strip (snd (read_parameter T F B X))) /\
  chomped (snd (read_parameter T F B X)).
Proof.
  intros HX HF HF'. destruct X as [|c X]; [cbn; auto|].
  destruct (chomped_cons c X HX) as [Hw Hs].
  unfold read_parameter. rewrite Hs at 1.
  destruct (tlookup T c) as [it|] eqn:E; [|cbn [fst snd]; rewrite Hs; auto].
  destruct it; try (cbn [fst snd]; rewrite Hs; auto; fail).
  - destruct (read_coords_strip F F' c X HX HF HF') as [H1 H2]. rewrite H1.
    destruct (read_coords T F (c :: X)) as [[s|e|e] r1]; cbn [bind1 fst snd] in *; auto.
    destruct (mk_var i s); auto. destruct (vmem (i, s) B); auto.
  - destruct (read_coords_strip F F' c X HX HF HF') as [H1 H2]. rewrite H1.
    destruct (read_coords T F (c :: X)) as [[s|e|e] r1]; cbn [bind1 fst snd] in *; auto.
Qed.


Hypothesis Tok : table_ok T = true.

Lemma read_params_strip F F' B : forall n X, chomped X -> length X < F -> length (strip X) < F' ->
  read_params T F' B n (strip X) = (fst (read_params T F B n X), strip (snd (read_params T F B n X))) /\
  chomped (snd (read_params T F B n X)).
Proof.
  induction n as [|n IH]; intros X HX HF HF'; [cbn; auto|].
  cbn [read_params].
  destruct (read_parameter_strip F F' B X HX HF HF') as [H1 H2]. rewrite H1.
  destruct (read_parameter_ok T Tok F B X HF) as [_ [L1 _]].
  destruct (read_parameter_ok T Tok F' B (strip X) HF') as [_ [L2 _]]. rewrite H1 in L2. cbn [snd] in L2.
  destruct (read_parameter T F B X) as [[p|e|e] r1]; cbn [bind1 fst snd] in *; auto.
  destruct (IH r1 H2) as [H3 H4]; [lia | lia |]. rewrite H3.
  destruct (read_params T F B n r1) as [[ps|e|e] r2]; cbn [bind1 fst snd] in *; auto.
Qed.

Lemma read_params_auto_strip F F' B : forall k k' X, chomped X ->
  length X < k -> length X < F -> length (strip X) < k' -> length (strip X) < F' ->
  read_params_auto T F' k' B (strip X) =
    (fst (read_params_auto T F k B X), strip (snd (read_params_auto T F k B X))) /\
  chomped (snd (read_params_auto T F k B X)).
Proof.
  induction k as [|k IH]; intros k' X HX Hk HF Hk' HF'; [lia|].
  destruct k' as [|k']; [lia|].
  destruct X as [|c X]; [cbn; auto|].
  destruct (chomped_cons c X HX) as [Hw Hs].
  rewrite Hs. cbn [read_params_auto]. rewrite <- Hs.
  assert (Hstep :
    bind1 (read_parameter T F' B (strip (c :: X))) (fun p r1 =>
      bind1 (read_params_auto T F' k' B r1) (fun ps r2 => (OK (p :: ps), r2))) =
    (fst (bind1 (read_parameter T F B (c :: X)) (fun p r1 =>
      bind1 (read_params_auto T F k B r1) (fun ps r2 => (OK (p :: ps), r2)))),
     strip (snd (bind1 (read_parameter T F B (c :: X)) (fun p r1 =>
      bind1 (read_params_auto T F k B r1) (fun ps r2 => (OK (p :: ps), r2)))))) /\
    chomped (snd (bind1 (read_parameter T F B (c :: X)) (fun p r1 =>
      bind1 (read_params_auto T F k B r1) (fun ps r2 => (OK (p :: ps), r2)))))).
  { destruct (read_parameter_strip F F' B (c :: X) HX HF HF') as [H1 H2]. rewrite H1.
    destruct (read_parameter_ok T Tok F B (c :: X) HF) as [_ [L1 L1']].
    destruct (read_parameter_ok T Tok F' B (strip (c :: X)) HF') as [_ [L2 L2']].
    rewrite H1 in L2, L2'. cbn [fst snd] in L2, L2'.
    destruct (read_parameter T F B (c :: X)) as [[p|e|e] r1]; cbn [bind1 fst snd] in *; auto.
    specialize (L1' p eq_refl). specialize (L2' p eq_refl).
    destruct (IH k' r1 H2) as [H3 H4]; [lia | lia | lia | lia |]. rewrite H3.
    destruct (read_params_auto T F k B r1) as [[ps|e|e] r2]; cbn [bind1 fst snd] in *; auto. }
  destruct (tlookup T c) as [[]|]; try exact Hstep; cbn [fst snd]; auto.
Qed.

End Ws.

Section WsPolish.
Variable C : cfg.
Hypothesis Tok : table_ok (tab C) = true.
Hypothesis Hfz : frozen C = false \/ auto_preds C = false.
Local Notation T := (tab C).

Definition smap3 {A} (x : res A * str * store) : res A * str * store :=
  (o_res x, strip T (o_rem x), o_sto x).

Ltac sm := unfold smap3; cbn [o_res o_rem o_sto fst snd bind2 bind3].

Lemma read_strip F F' : forall k k' B X P, chomped T X ->
  length X < k -> length X < F -> length (strip T X) < k' -> length (strip T X) < F' ->
  read C F' k' B (strip T X) P = smap3 (read C F k B X P) /\ chomped T (o_rem (read C F k B X P)).
Proof.
  induction k as [|k IH]; intros k' B X P HX Hk HF Hk' HF'; [lia|].
  destruct k' as [|k']; [lia|].
  destruct X as [|c X]; [cbn; auto|].
  destruct (chomped_cons T c X HX) as [Hw Hs].
  rewrite Hs. cbn [read].
  pose proof (advance_len T c X) as La.
  pose proof (advance_strip T c X) as Has.
  assert (La' : length (strip T (advance T (c :: X))) <= length (strip T X)).
  { rewrite <- Has. apply advance_len. }
  assert (Lk : length (strip T X) < k') by (rewrite Hs in Hk'; cbn in Hk'; lia).
  assert (LF : S (length (strip T X)) < F') by (rewrite Hs in HF'; cbn in HF'; lia).
  cbn [length] in Hk, HF.
  destruct (tlookup T c) as [it|] eqn:E; [|sm; rewrite ?Hs; auto].
  destruct it; try (sm; rewrite ?Hs; auto; fail).
  - (* unary *)
    rewrite Has.
    destruct (IH k' B (advance T (c :: X)) P (chomped_advance T _)) as [H1 H2]; try lia.
    rewrite H1. unfold smap3.
    destruct (read C F k B (advance T (c :: X)) P) as [[[a|e|e] r1] P1]; cbn in *; auto.
  - (* binary *)
    rewrite Has.
    destruct (IH k' B (advance T (c :: X)) P (chomped_advance T _)) as [H1 H2]; try lia.
    destruct (read_ok C Tok Hfz F k B (advance T (c :: X)) P) as [_ [L1 _]]; try lia.
    destruct (read_ok C Tok Hfz F' k' B (strip T (advance T (c :: X))) P) as [_ [L2 _]]; try lia.
    rewrite H1 in L2. rewrite H1. unfold smap3 in *.
    destruct (read C F k B (advance T (c :: X)) P) as [[[a|e|e] r1] P1]; cbn [bind3 o_res o_rem o_sto fst snd] in *; auto.
    destruct (IH k' B r1 P1 H2) as [H3 H4]; try lia.
    rewrite H3. unfold smap3.
    destruct (read C F k B r1 P1) as [[[b|e|e] r2] P2]; cbn in *; auto.
  - (* quantifier *)
    rewrite Has.
    pose proof (chomped_advance T (c :: X)) as Hca.
    destruct (advance T (c :: X)) as [|c1 X1] eqn:Ea; [sm; auto|].
    destruct (chomped_cons T c1 X1 Hca) as [Hw1 Hs1]. rewrite Hs1.
    destruct (tlookup T c1) as [it1|] eqn:E1; [|sm; rewrite ?Hs1; auto].
    destruct it1; try (sm; rewrite ?Hs1; auto; fail).
    rewrite <- Hs1.
    destruct (read_coords_strip T F F' c1 X1 Hca) as [H1 H2]; [cbn in *; lia | cbn in *; lia |].
    rewrite H1.
    destruct (read_coords_ok T F c1 X1) as [_ L1]; [cbn in *; lia|].
    destruct (read_coords_ok T F' c1 (strip T X1)) as [_ L2]; [rewrite Hs1 in La'; cbn in *; lia|].
    rewrite <- Hs1 in L2. rewrite H1 in L2. cbn [snd] in L2.
    destruct (read_coords T F (c1 :: X1)) as [[s|e|e] r2]; cbn [bind2 fst snd] in *;
      try (sm; auto; fail).
    destruct (mk_var i s); try (sm; auto; fail).
    destruct (vmem (i, s) B); [sm; auto|].
    assert (Lx : length (strip T X1) <= length (strip T X)) by (rewrite Hs1 in La'; cbn in La'; lia).
    destruct (IH k' ((i, s) :: B) r2 P H2) as [H3 H4]; try (cbn in *; lia).
    rewrite H3. unfold smap3.
    destruct (read C F k ((i, s) :: B) r2 P) as [[[body|e|e] r3] P3]; cbn in *; auto.
    destruct (occurs (i, s) body); cbn; auto.
  - (* system predicate *)
    rewrite Has.
    destruct (read_params_strip T Tok F F' B (sys_arity p) (advance T (c :: X)) (chomped_advance T _)) as [H1 H2]; try lia.
    rewrite H1. unfold smap3.
    destruct (read_params T F B (sys_arity p) (advance T (c :: X))) as [[ps|e|e] r2]; cbn in *; auto.
  - (* user predicate *)
    rewrite <- Hs.
    destruct (read_coords_strip T F F' c X HX) as [H1 H2]; [cbn; lia | rewrite Hs; cbn; lia |].
    rewrite H1.
    destruct (read_coords_ok T F c X) as [_ L1]; [cbn; lia|].
    destruct (read_coords_ok T F' c (strip T X)) as [_ L2]; [cbn; lia|].
    rewrite <- Hs in L2. rewrite H1 in L2. cbn [snd] in L2.
    destruct (read_coords T F (c :: X)) as [[s|e|e] r1]; cbn [bind2 fst snd] in *;
      try (sm; auto; fail).
    destruct (slookup P (i, s)) as [a|].
    + destruct (read_params_strip T Tok F F' B a r1 H2) as [H3 H4]; try lia.
      rewrite H3. unfold smap3.
      destruct (read_params T F B a r1) as [[ps|e|e] r2]; cbn in *; auto.
    + destruct (auto_preds C); [|sm; auto].
      destruct (read_params_auto_strip T Tok F F' B F F' r1 H2) as [H3 H4]; try lia.
      rewrite H3. unfold smap3.
      destruct (read_params_auto T F F B r1) as [[ps|e|e] r2]; cbn [bind2 fst snd o_res o_rem o_sto] in *; auto.
      destruct ((length ps =? 0) || negb (i <=? maxi_pred)); [cbn; auto|].
      destruct (frozen C); cbn; auto.
  - (* atomic *)
    rewrite <- Hs.
    destruct (read_coords_strip T F F' c X HX) as [H1 H2]; [cbn; lia | rewrite Hs; cbn; lia |].
    rewrite H1. unfold smap3.
    destruct (read_coords T F (c :: X)) as [[s|e|e] r1]; cbn in *; auto.
Qed.

(* the Polish parser ignores whitespace characters *)
Theorem parse_polish_ws : forall P i, parse_polish C P i = parse_polish C P (strip T i).
Proof.
  intros P i. unfold parse_polish, finish.
  rewrite (chomp_strip T i).
  pose proof (chomp_len T i) as Lc. pose proof (strip_len T i) as Ls.
  pose proof (strip_len T (chomp T i)) as Ls2. rewrite (strip_chomp T i) in Ls2.
  destruct (read_strip (S (length i)) (S (length (strip T i))) (S (length i)) (S (length (strip T i)))
              [] (chomp T i) P (chomped_chomp T i)) as [H1 _]; try lia;
    try (rewrite (strip_chomp T i); lia).
  rewrite (strip_chomp T i) in H1. rewrite H1. unfold smap3.
  destruct (read C (S (length i)) (S (length i)) [] (chomp T i) P) as [[v r] P1].
  cbn [o_res o_rem o_sto fst snd]. rewrite (chomp_strip T r).
  destruct (chomp T r) as [|c0 r0] eqn:Ec.
  - apply (chomp_nil_strip T) in Ec. rewrite Ec. reflexivity.
  - destruct (strip T r) eqn:Es; [|reflexivity].
    apply (chomp_nil_strip T) in Es. congruence.
Qed.

End WsPolish.
