(* StdRoundTrip — the standard-notation writer model (Lang/WriteStd.v, default options) composed
   with the standard-notation parser model (Lang/ParseStd.v): for every sentence of the parsers'
   language that contains no negated identity, the writer's rendering is one of the well-formed
   infix strings of StdDenotes.v (after whitespace removal) and therefore parses back to the same
   sentence.  The writer renders a negated identity `a != b` with a symbol the parser's table
   does not have, so that fragment is excluded (and shown not to round-trip on the regenerated
   tables in gen/C12/Obl.v). *)
From Coq Require Import List Bool Arith NArith Lia.
From PT Require Import Lang.PSyntax Lang.Dec Lang.ParsePolish Lang.ParsePolishProofs
  Lang.WritePolish Lang.RoundTrip Lang.WriteStd Lang.ParseStd Lang.Whitespace Lang.WhitespaceStd
  Lang.StdDenotes.
Import ListNotations.

(* no subsentence is the negation of an identity predication *)
Fixpoint no_negid (s : sent) : bool :=
  match s with
  | Atom _ _ => true
  | Pred _ _ => true
  | Quant _ _ b => no_negid b
  | Un o a =>
      match o, a with
      | Negation, Pred (PSys Identity) _ => false
      | _, _ => no_negid a
      end
  | Bin _ a b => no_negid a && no_negid b
  end.

Lemma no_negid_un o a : no_negid (Un o a) = true ->
  no_negid a = true /\ (forall args, o = Negation -> a = Pred (PSys Identity) args -> False).
Proof.
  destruct o; destruct a as [i sub|p args|q v b|o' a'|o' a' b']; cbn [no_negid]; intros H;
    (split; [try exact H; try reflexivity | intros args0 E1 E2; try discriminate]).
  all: try (destruct p as [[]|]; [discriminate| |]; try reflexivity; try discriminate).
  all: try (destruct p as [[]|]; try discriminate; inversion E2).
Qed.

Section SRT.
Variable T : ptable.
Variable S : swtable.
Variables po pc : N.
Variable wsp : str.
Local Notation W := (sw S).
Hypothesis AG : agree T W.
Hypothesis Hso : sw_popen S = Some [po].
Hypothesis Hsc : sw_pclose S = Some [pc].
Hypothesis Hws : sw_ws S = Some wsp.
Hypothesis Hwsp : strip T wsp = [].
Hypothesis Hpo : tlookup T po = Some IParenOpen.
Hypothesis Hpc : tlookup T pc = Some IParenClose.

Lemma strip_app a b : strip T (a ++ b) = strip T a ++ strip T b.
Proof. unfold strip. apply filter_app. Qed.

Lemma strip_sym c it r : tlookup T c = Some it -> it <> IWs -> strip T (c :: r) = c :: strip T r.
Proof.
  intros H Hn. unfold strip. cbn [filter]. unfold is_ws. rewrite H.
  destruct it; try reflexivity. congruence.
Qed.

Lemma strip_digits : forall l, (forall d, In d l -> (d < 10)%N) -> strip T (map chr l) = map chr l.
Proof.
  induction l as [|d l IH]; intros H; [reflexivity|]. cbn [map].
  rewrite (strip_sym (chr d) (IDigit d)).
  - rewrite IH; [reflexivity|]. intros d' Hd'. apply H. right. exact Hd'.
  - apply (ag_digit _ _ AG d). apply H. left. reflexivity.
  - discriminate.
Qed.

Lemma wsub_nw sub : exists w, wsub W sub = Some w /\ strip T w = w.
Proof.
  destruct (wsub_total T W AG sub) as [w Hw]. exists w. split; [exact Hw|].
  destruct (wsub_spec T W AG _ _ Hw) as [[_ ->]|[_ ->]]; [reflexivity|].
  apply strip_digits. intros d Hd. eapply dec_digits_lt10. exact Hd.
Qed.

Lemma wcoords_nw (sym : option str) c it sub : sym = Some [c] -> tlookup T c = Some it -> it <> IWs ->
  exists w, wcoords W sym sub = Some w /\ strip T w = w.
Proof.
  intros -> Hl Hn. destruct (wsub_nw sub) as [ws [Hs Hn']]. exists (c :: ws).
  unfold wcoords. rewrite Hs. cbn [oapp app]. split; [reflexivity|].
  rewrite (strip_sym c it ws Hl Hn), Hn'. reflexivity.
Qed.

Lemma wparam_nw p : wf_param p = true -> exists w, wparam W p = Some w /\ strip T w = w.
Proof.
  destruct p as [i sub|i sub]; cbn [wparam wf_param]; intros H; apply Nat.leb_le in H.
  - destruct (ag_const _ _ AG i H) as [c [Hc Hl]]. eapply wcoords_nw; eauto. discriminate.
  - destruct (ag_var _ _ AG i H) as [c [Hc Hl]]. eapply wcoords_nw; eauto. discriminate.
Qed.

Lemma wparams_nw : forall ps, forallb wf_param ps = true -> exists w, wparams W ps = Some w /\ strip T w = w.
Proof.
  induction ps as [|p ps IH]; intros H; [exists []; split; reflexivity|].
  cbn [forallb] in H. apply andb_true_iff in H. destruct H as [H1 H2].
  destruct (wparam_nw p H1) as [wp [Hp Np]]. destruct (IH H2) as [wps [Hps Nps]].
  exists (wp ++ wps). cbn [wparams]. rewrite Hp, Hps. cbn [oapp]. split; [reflexivity|].
  rewrite strip_app, Np, Nps. reflexivity.
Qed.

Lemma wpred_nw p : wf_pred p = true -> exists w, wpred W p = Some w /\ strip T w = w.
Proof.
  destruct p as [q|i sub a]; cbn [wpred wf_pred]; intros H.
  - destruct (ag_sys _ _ AG q) as [c [Hc Hl]]. exists [c]. split; [exact Hc|].
    rewrite (strip_sym c (ISys q) [] Hl); [reflexivity | discriminate].
  - apply andb_true_iff in H. destruct H as [H _]. apply Nat.leb_le in H.
    destruct (ag_pred _ _ AG i H) as [c [Hc Hl]]. eapply wcoords_nw; eauto. discriminate.
Qed.

Lemma write_std_in_un o a :
  (forall args, o = Negation -> a = Pred (PSys Identity) args -> False) ->
  write_std_in S (Un o a) = oapp (w_uop W o) (write_std_in S a).
Proof.
  intros H. destruct o; destruct a as [i sub|p args|q v b|o' a'|o' a' b']; try reflexivity.
  destruct p as [[]|]; try reflexivity. exfalso. eapply H; reflexivity.
Qed.

(* the rendering of a sentence inside a larger one *)
Lemma write_std_in_rs : forall s, wf_items s = true -> no_negid s = true ->
  exists w, write_std_in S s = Some w /\ Rs W po pc s (strip T w).
Proof.
  induction s as [i sub|p args|q [i sub] b IH|o a IH|o a IHa b IHb]; intros Hwf Hnn.
  - cbn [wf_items] in Hwf. apply Nat.leb_le in Hwf.
    destruct (ag_atom _ _ AG i Hwf) as [c [Hc Hl]].
    destruct (wcoords_nw (w_atom W i) c (IAtom i) sub Hc Hl ltac:(discriminate)) as [w [Hw Nw]].
    exists w. cbn [write_std_in]. split; [exact Hw|]. rewrite Nw. apply Rs_atom. exact Hw.
  - cbn [wf_items] in Hwf. apply andb_true_iff in Hwf. destruct Hwf as [Hwf H3].
    apply andb_true_iff in Hwf. destruct Hwf as [H1 H2]. apply Nat.eqb_eq in H3.
    destruct (wpred_nw p H1) as [wp [Hp Np]].
    assert (Hgen : exists w, oapp (wpred W p) (wparams W args) = Some w /\ Rs W po pc (Pred p args) (strip T w)).
    { destruct (wparams_nw args H2) as [wps [Hps Nps]]. exists (wp ++ wps).
      rewrite Hp, Hps. cbn [oapp]. split; [reflexivity|].
      rewrite strip_app, Np, Nps. apply Rs_pred; assumption. }
    destruct p as [[]|pi psub pa].
    + (* Identity: infix *)
      destruct args as [|a rest]; [cbn in H3; discriminate|].
      cbn [forallb] in H2. apply andb_true_iff in H2. destruct H2 as [Ha Hr].
      destruct (wparam_nw a Ha) as [wa [Ea Na]]. destruct (wparams_nw rest Hr) as [wr [Er Nr]].
      exists (wa ++ wsp ++ wp ++ wsp ++ wr ++ []).
      cbn [write_std_in]. cbn [wpred] in Hp. rewrite Ea, Hws, Hp, Er.
      cbn [oapps fold_right oapp]. split; [reflexivity|].
      rewrite !strip_app, Hwsp, Na, Np, Nr. cbn [app strip filter]. rewrite app_nil_r.
      apply Rs_infix; try assumption. cbn. lia.
    + exact Hgen.
    + exact Hgen.
  - cbn [wf_items fst] in Hwf. apply andb_true_iff in Hwf. destruct Hwf as [H1 H2].
    apply Nat.leb_le in H1. cbn [no_negid] in Hnn.
    destruct (IH H2 Hnn) as [wb [Hb Rb]].
    destruct (ag_quant _ _ AG q) as [cq [Hq Hlq]].
    destruct (ag_var _ _ AG i H1) as [cv [Hv Hlv]].
    destruct (wcoords_nw (w_var W i) cv (IVar i) sub Hv Hlv ltac:(discriminate)) as [wv [Ev Nv]].
    exists ([cq] ++ wv ++ wb ++ []). cbn [write_std_in]. rewrite Hq, Ev, Hb.
    cbn [oapps fold_right oapp]. split; [reflexivity|].
    rewrite !strip_app, Nv. rewrite (strip_sym cq (IQuant q) [] Hlq ltac:(discriminate)).
    cbn [strip filter]. rewrite app_nil_r.
    apply (Rs_quant W po pc q i sub b [cq] wv (strip T wb)); assumption.
  - cbn [wf_items] in Hwf. destruct (no_negid_un o a Hnn) as [Hna Hx].
    destruct (IH Hwf Hna) as [wa [Ha Ra]].
    destruct (ag_uop _ _ AG o) as [co [Ho Hlo]].
    exists ([co] ++ wa). rewrite (write_std_in_un o a Hx), Ho, Ha. cbn [oapp]. split; [reflexivity|].
    rewrite strip_app, (strip_sym co (IOper1 o) [] Hlo ltac:(discriminate)). cbn [strip filter].
    apply (Rs_un W po pc o a [co] (strip T wa)); assumption.
  - cbn [wf_items] in Hwf. apply andb_true_iff in Hwf. destruct Hwf as [H1 H2].
    cbn [no_negid] in Hnn. apply andb_true_iff in Hnn. destruct Hnn as [N1 N2].
    destruct (IHa H1 N1) as [wa [Ha Ra]]. destruct (IHb H2 N2) as [wb [Hb Rb]].
    destruct (ag_bop _ _ AG o) as [co [Ho Hlo]].
    exists ([po] ++ wa ++ wsp ++ [co] ++ wsp ++ wb ++ [pc] ++ []).
    cbn [write_std_in]. rewrite Hso, Ha, Hws, Ho, Hb, Hsc. cbn [oapps fold_right oapp].
    split; [reflexivity|].
    rewrite !strip_app, Hwsp.
    rewrite (strip_sym po IParenOpen [] Hpo ltac:(discriminate)).
    rewrite (strip_sym co (IOper2 o) [] Hlo ltac:(discriminate)).
    rewrite (strip_sym pc IParenClose [] Hpc ltac:(discriminate)).
    cbn [strip filter app].
    apply (Rs_bin W po pc o a b [co] (strip T wa) (strip T wb)); assumption.
Qed.

(* StandardLexWriter.__call__: the outermost parentheses of a binary operation are dropped *)
Lemma write_std_rtop : forall s, wf_items s = true -> no_negid s = true ->
  exists w, write_std S s = Some w /\ Rtop W po pc s (strip T w).
Proof.
  intros s Hwf Hnn.
  destruct s as [i sub|p args|q v b|o a|o a b];
    try (destruct (write_std_in_rs _ Hwf Hnn) as [w [Hw Rw]]; exists w; split;
         [exact Hw | apply Rtop_in; exact Rw]).
  cbn [wf_items] in Hwf. apply andb_true_iff in Hwf. destruct Hwf as [H1 H2].
  cbn [no_negid] in Hnn. apply andb_true_iff in Hnn. destruct Hnn as [N1 N2].
  destruct (write_std_in_rs a H1 N1) as [wa [Ha Ra]]. destruct (write_std_in_rs b H2 N2) as [wb [Hb Rb]].
  destruct (ag_bop _ _ AG o) as [co [Ho Hlo]].
  exists (wa ++ wsp ++ [co] ++ wsp ++ wb ++ []).
  cbn [write_std]. rewrite Ha, Hws, Ho, Hb. cbn [oapps fold_right oapp]. split; [reflexivity|].
  rewrite !strip_app, Hwsp. rewrite (strip_sym co (IOper2 o) [] Hlo ltac:(discriminate)).
  cbn [strip filter app]. rewrite app_nil_r.
  apply (Rtop_drop W po pc o a b [co] (strip T wa) (strip T wb)); assumption.
Qed.

(* ---- every option combination of the writer ------------------------------------------------ *)
Variable OW : wopts.

(* the `a != b` form is only produced under identity_infix *)
Definition negid_ok (s : sent) : bool := negb (wo_idinfix OW) || no_negid s.

Lemma negid_ok_quant q v b : negid_ok (Quant q v b) = true -> negid_ok b = true.
Proof. unfold negid_ok. cbn [no_negid]. auto. Qed.

Lemma negid_ok_bin o a b : negid_ok (Bin o a b) = true -> negid_ok a = true /\ negid_ok b = true.
Proof.
  unfold negid_ok. cbn [no_negid]. destruct (wo_idinfix OW); cbn [negb orb]; [|auto].
  intros H. apply andb_true_iff in H. exact H.
Qed.

Lemma negid_ok_un o a : negid_ok (Un o a) = true ->
  negid_ok a = true /\
  (wo_idinfix OW = true -> forall args, o = Negation -> a = Pred (PSys Identity) args -> False).
Proof.
  unfold negid_ok. destruct (wo_idinfix OW); cbn [negb orb].
  - intros H. destruct (no_negid_un o a H) as [H1 H2]. split; [exact H1 | intros _; exact H2].
  - intros _. split; [reflexivity | discriminate].
Qed.

Lemma write_stdo_in_un o a :
  (wo_idinfix OW = true -> forall args, o = Negation -> a = Pred (PSys Identity) args -> False) ->
  write_stdo_in OW S (Un o a) = oapp (w_uop W o) (write_stdo_in OW S a).
Proof.
  intros H. destruct o; destruct a as [i sub|p args|q v b|o' a'|o' a' b']; try reflexivity.
  destruct p as [[]|]; try reflexivity.
  cbn [write_stdo_in]. destruct (wo_idinfix OW) eqn:E; [|reflexivity].
  exfalso. eapply (H eq_refl); reflexivity.
Qed.

Lemma write_stdo_in_rs : forall s, wf_items s = true -> negid_ok s = true ->
  exists w, write_stdo_in OW S s = Some w /\ Rs W po pc s (strip T w).
Proof.
  induction s as [i sub|p args|q [i sub] b IH|o a IH|o a IHa b IHb]; intros Hwf Hnn.
  - cbn [wf_items] in Hwf. apply Nat.leb_le in Hwf.
    destruct (ag_atom _ _ AG i Hwf) as [c [Hc Hl]].
    destruct (wcoords_nw (w_atom W i) c (IAtom i) sub Hc Hl ltac:(discriminate)) as [w [Hw Nw]].
    exists w. cbn [write_stdo_in]. split; [exact Hw|]. rewrite Nw. apply Rs_atom. exact Hw.
  - cbn [wf_items] in Hwf. apply andb_true_iff in Hwf. destruct Hwf as [Hwf H3].
    apply andb_true_iff in Hwf. destruct Hwf as [H1 H2]. apply Nat.eqb_eq in H3.
    destruct (wpred_nw p H1) as [wp [Hp Np]].
    cbn [write_stdo_in]. destruct (should_infix OW p) eqn:Esi.
    + unfold should_infix in Esi. apply andb_true_iff in Esi. destruct Esi as [Har _].
      apply Nat.ltb_lt in Har.
      destruct args as [|a rest]; [cbn [length] in H3; lia|].
      cbn [forallb] in H2. apply andb_true_iff in H2. destruct H2 as [Ha Hr].
      destruct (wparam_nw a Ha) as [wa [Ea Na]]. destruct (wparams_nw rest Hr) as [wr [Er Nr]].
      assert (Hx : exists wx, (if is_identity p then sw_ws S else Some []) = Some wx /\ strip T wx = []).
      { destruct (is_identity p); [exists wsp; split; assumption | exists []; split; reflexivity]. }
      destruct Hx as [wx [Ex Nx]].
      exists (wa ++ wx ++ wp ++ wx ++ wr ++ []).
      cbv zeta. rewrite Ea, Ex, Hp, Er. cbn [oapps fold_right oapp]. split; [reflexivity|].
      rewrite !strip_app, Nx, Na, Np, Nr. cbn [app strip filter]. rewrite app_nil_r.
      apply Rs_infix; try assumption.
    + destruct (wparams_nw args H2) as [wps [Hps Nps]]. exists (wp ++ wps).
      rewrite Hp, Hps. cbn [oapp]. split; [reflexivity|].
      rewrite strip_app, Np, Nps. apply Rs_pred; assumption.
  - cbn [wf_items fst] in Hwf. apply andb_true_iff in Hwf. destruct Hwf as [H1 H2].
    apply Nat.leb_le in H1. apply negid_ok_quant in Hnn.
    destruct (IH H2 Hnn) as [wb [Hb Rb]].
    destruct (ag_quant _ _ AG q) as [cq [Hq Hlq]].
    destruct (ag_var _ _ AG i H1) as [cv [Hv Hlv]].
    destruct (wcoords_nw (w_var W i) cv (IVar i) sub Hv Hlv ltac:(discriminate)) as [wv [Ev Nv]].
    exists ([cq] ++ wv ++ wb ++ []). cbn [write_stdo_in]. rewrite Hq, Ev, Hb.
    cbn [oapps fold_right oapp]. split; [reflexivity|].
    rewrite !strip_app, Nv. rewrite (strip_sym cq (IQuant q) [] Hlq ltac:(discriminate)).
    cbn [strip filter]. rewrite app_nil_r.
    apply (Rs_quant W po pc q i sub b [cq] wv (strip T wb)); assumption.
  - cbn [wf_items] in Hwf. destruct (negid_ok_un o a Hnn) as [Hna Hx].
    destruct (IH Hwf Hna) as [wa [Ha Ra]].
    destruct (ag_uop _ _ AG o) as [co [Ho Hlo]].
    exists ([co] ++ wa). rewrite (write_stdo_in_un o a Hx), Ho, Ha. cbn [oapp]. split; [reflexivity|].
    rewrite strip_app, (strip_sym co (IOper1 o) [] Hlo ltac:(discriminate)). cbn [strip filter].
    apply (Rs_un W po pc o a [co] (strip T wa)); assumption.
  - cbn [wf_items] in Hwf. apply andb_true_iff in Hwf. destruct Hwf as [H1 H2].
    destruct (negid_ok_bin o a b Hnn) as [N1 N2].
    destruct (IHa H1 N1) as [wa [Ha Ra]]. destruct (IHb H2 N2) as [wb [Hb Rb]].
    destruct (ag_bop _ _ AG o) as [co [Ho Hlo]].
    exists ([po] ++ wa ++ wsp ++ [co] ++ wsp ++ wb ++ [pc] ++ []).
    cbn [write_stdo_in]. rewrite Hso, Ha, Hws, Ho, Hb, Hsc. cbn [oapps fold_right oapp].
    split; [reflexivity|].
    rewrite !strip_app, Hwsp.
    rewrite (strip_sym po IParenOpen [] Hpo ltac:(discriminate)).
    rewrite (strip_sym co (IOper2 o) [] Hlo ltac:(discriminate)).
    rewrite (strip_sym pc IParenClose [] Hpc ltac:(discriminate)).
    cbn [strip filter app].
    apply (Rs_bin W po pc o a b [co] (strip T wa) (strip T wb)); assumption.
Qed.

Lemma write_stdo_rtop : forall s, wf_items s = true -> negid_ok s = true ->
  exists w, write_stdo OW S s = Some w /\ Rtop W po pc s (strip T w).
Proof.
  intros s Hwf Hnn.
  assert (Hin : exists w, write_stdo_in OW S s = Some w /\ Rtop W po pc s (strip T w)).
  { destruct (write_stdo_in_rs _ Hwf Hnn) as [w [Hw Rw]]. exists w. split; [exact Hw | apply Rtop_in; exact Rw]. }
  destruct s as [i sub|p args|q v b|o a|o a b]; try exact Hin.
  cbn [write_stdo]. destruct (wo_drop OW); [|exact Hin].
  cbn [wf_items] in Hwf. apply andb_true_iff in Hwf. destruct Hwf as [H1 H2].
  destruct (negid_ok_bin o a b Hnn) as [N1 N2].
  destruct (write_stdo_in_rs a H1 N1) as [wa [Ha Ra]]. destruct (write_stdo_in_rs b H2 N2) as [wb [Hb Rb]].
  destruct (ag_bop _ _ AG o) as [co [Ho Hlo]].
  exists (wa ++ wsp ++ [co] ++ wsp ++ wb ++ []).
  rewrite Ha, Hws, Ho, Hb. cbn [oapps fold_right oapp]. split; [reflexivity|].
  rewrite !strip_app, Hwsp. rewrite (strip_sym co (IOper2 o) [] Hlo ltac:(discriminate)).
  cbn [strip filter app]. rewrite app_nil_r.
  apply (Rtop_drop W po pc o a b [co] (strip T wa) (strip T wb)); assumption.
Qed.

End SRT.

(* boolean side condition on the regenerated tables *)
Definition std_agree_b (T : ptable) (S : swtable) (O : sopts) : bool :=
  agree_b T (sw S) &&
  match sw_popen S with Some [c] => (c =? popen O)%N | _ => false end &&
  match sw_pclose S with Some [c] => (c =? pclose O)%N | _ => false end &&
  match sw_ws S with Some ws => forallb (is_ws T) ws | None => false end &&
  match tlookup T (popen O) with Some IParenOpen => true | _ => false end &&
  match tlookup T (pclose O) with Some IParenClose => true | _ => false end &&
  drop_parens O.

Lemma strip_all_ws T : forall ws, forallb (is_ws T) ws = true -> strip T ws = [].
Proof.
  induction ws as [|c ws IH]; intros H; [reflexivity|].
  cbn [forallb] in H. apply andb_true_iff in H. destruct H as [H1 H2].
  unfold strip. cbn [filter]. rewrite H1. cbn [negb]. apply IH. exact H2.
Qed.

Theorem std_roundtrip : forall T S O, table_ok T = true -> std_agree_b T S O = true ->
  forall s, roundtrippable s = true -> no_negid s = true ->
  exists w, write_std S s = Some w /\
            parse_std_opts (cfg_of T false) O (decls s) w = (OK s, decls s) /\
            parse_std_opts (cfg_of T true) O [] w = (OK s, decls s).
Proof.
  intros T S O Tok Hag s Hrt Hnn. unfold std_agree_b in Hag. rewrite !andb_true_iff in Hag.
  destruct Hag as [[[[[[Hagb Ho] Hc] Hw] Hpo] Hpc] Hd].
  destruct (sw_popen S) as [[|co [|]]|] eqn:Eo; try discriminate. apply N.eqb_eq in Ho. subst co.
  destruct (sw_pclose S) as [[|cc [|]]|] eqn:Ec; try discriminate. apply N.eqb_eq in Hc. subst cc.
  destruct (sw_ws S) as [ws|] eqn:Ew; [|discriminate]. apply strip_all_ws in Hw.
  destruct (tlookup T (popen O)) as [[]|] eqn:Lo; try discriminate.
  destruct (tlookup T (pclose O)) as [[]|] eqn:Lc; try discriminate.
  assert (Hwf : wf_items s = true).
  { unfold roundtrippable in Hrt. rewrite !andb_true_iff in Hrt. tauto. }
  destruct (write_std_rtop T S (popen O) (pclose O) ws (agree_b_sound _ _ Hagb) Eo Ec Ew Hw Lo Lc s Hwf Hnn)
    as [w [Hw' HR]].
  exists w. split; [exact Hw'|].
  exact (std_denotes_lang T (sw S) O Tok Hagb Lo Lc Hd s (strip T w) w Hrt HR eq_refl).
Qed.

(* hence the standard writer never renders two distinct such sentences to one string *)
Corollary write_std_injective : forall T S O, table_ok T = true -> std_agree_b T S O = true ->
  forall s1 s2 w, roundtrippable s1 = true -> no_negid s1 = true ->
  roundtrippable s2 = true -> no_negid s2 = true ->
  write_std S s1 = Some w -> write_std S s2 = Some w -> s1 = s2.
Proof.
  intros T S O Tok Hag s1 s2 w R1 N1 R2 N2 W1 W2.
  destruct (std_roundtrip T S O Tok Hag s1 R1 N1) as [w1 [E1 [_ P1]]].
  destruct (std_roundtrip T S O Tok Hag s2 R2 N2) as [w2 [E2 [_ P2]]].
  rewrite W1 in E1. rewrite W2 in E2. inversion E1; inversion E2; subst.
  rewrite P1 in P2. inversion P2. reflexivity.
Qed.

(* ---- tables whose Existence symbol is not the parser's ------------------------------------
   The shipped standard string tables write the Existence predicate with a string the parse
   table does not have ("E!" against '!').  For sentences that do not use that predicate the
   entry is never consulted: the theorems above then apply to the table with that one entry
   replaced by the parser's character. *)

Definition patch_exist (S : swtable) (e : option str) : swtable :=
  {| sw := {| w_uop := w_uop (sw S); w_bop := w_bop (sw S); w_quant := w_quant (sw S);
              w_sys := fun p => match p with Existence => e | Identity => w_sys (sw S) Identity end;
              w_atom := w_atom (sw S); w_var := w_var (sw S); w_const := w_const (sw S);
              w_pred := w_pred (sw S); w_subopen := w_subopen (sw S); w_subclose := w_subclose (sw S) |};
     sw_popen := sw_popen S; sw_pclose := sw_pclose S; sw_ws := sw_ws S; sw_neqid := sw_neqid S |}.

Fixpoint no_exist (s : sent) : bool :=
  match s with
  | Atom _ _ => true
  | Pred (PSys Existence) _ => false
  | Pred _ _ => true
  | Quant _ _ b => no_exist b
  | Un _ a => no_exist a
  | Bin _ a b => no_exist a && no_exist b
  end.

Lemma wparam_patch S e p : wparam (sw (patch_exist S e)) p = wparam (sw S) p.
Proof. destruct p; reflexivity. Qed.

Lemma wparams_patch S e : forall ps, wparams (sw (patch_exist S e)) ps = wparams (sw S) ps.
Proof. induction ps as [|p ps IH]; [reflexivity|]. cbn [wparams]. rewrite IH, wparam_patch. reflexivity. Qed.

Lemma write_std_in_patch S e : forall s, no_exist s = true ->
  write_std_in (patch_exist S e) s = write_std_in S s.
Proof.
  induction s as [i sub|p args|q [i sub] b IH|o a IH|o a IHa b IHb]; intros H.
  - reflexivity.
  - destruct p as [[]|pi psub pa]; [| discriminate |].
    + destruct args as [|a rest]; [reflexivity|]. cbn [write_std_in].
      rewrite wparam_patch, wparams_patch. reflexivity.
    + cbn [write_std_in]. rewrite wparams_patch. reflexivity.
  - cbn [no_exist] in H. cbn [write_std_in]. rewrite (IH H). reflexivity.
  - cbn [no_exist] in H. specialize (IH H).
    destruct o; destruct a as [ai asub|p args|q v b|o' a'|o' a' b'];
      try (cbn [write_std_in] in *; rewrite IH; reflexivity).
    all: destruct p as [[]|pi psub pa]; try discriminate;
      try (cbn [write_std_in] in *; rewrite IH; reflexivity).
  - cbn [no_exist] in H. apply andb_true_iff in H. destruct H as [H1 H2].
    cbn [write_std_in]. rewrite (IHa H1), (IHb H2). reflexivity.
Qed.

Lemma write_std_patch S e s : no_exist s = true -> write_std (patch_exist S e) s = write_std S s.
Proof.
  intros H. destruct s as [i sub|p args|q v b|o a|o a b]; try (apply write_std_in_patch; exact H).
  cbn [no_exist] in H. apply andb_true_iff in H. destruct H as [H1 H2].
  cbn [write_std]. rewrite (write_std_in_patch S e a H1), (write_std_in_patch S e b H2). reflexivity.
Qed.

(* the sentences the shipped standard writer and parser agree on *)
Definition std_plain (s : sent) : bool := no_negid s && no_exist s.

Theorem std_roundtrip_plain : forall T S O e, table_ok T = true ->
  std_agree_b T (patch_exist S e) O = true ->
  forall s, roundtrippable s = true -> std_plain s = true ->
  exists w, write_std S s = Some w /\
            parse_std_opts (cfg_of T false) O (decls s) w = (OK s, decls s) /\
            parse_std_opts (cfg_of T true) O [] w = (OK s, decls s).
Proof.
  intros T S O e Tok Hag s Hrt Hp. unfold std_plain in Hp. apply andb_true_iff in Hp.
  destruct Hp as [Hn He].
  destruct (std_roundtrip T (patch_exist S e) O Tok Hag s Hrt Hn) as [w [Hw HP]].
  exists w. rewrite <- (write_std_patch S e s He). split; assumption.
Qed.

Corollary write_std_injective_plain : forall T S O e, table_ok T = true ->
  std_agree_b T (patch_exist S e) O = true ->
  forall s1 s2 w, roundtrippable s1 = true -> std_plain s1 = true ->
  roundtrippable s2 = true -> std_plain s2 = true ->
  write_std S s1 = Some w -> write_std S s2 = Some w -> s1 = s2.
Proof.
  intros T S O e Tok Hag s1 s2 w R1 N1 R2 N2 W1 W2.
  destruct (std_roundtrip_plain T S O e Tok Hag s1 R1 N1) as [w1 [E1 [_ P1]]].
  destruct (std_roundtrip_plain T S O e Tok Hag s2 R2 N2) as [w2 [E2 [_ P2]]].
  rewrite W1 in E1. rewrite W2 in E2. inversion E1; inversion E2; subst.
  rewrite P1 in P2. inversion P2. reflexivity.
Qed.

(* ---- the same for every option combination of the writer --------------------------------------
   drop_parens, identity_infix and max_infix change the spelling, never the sentence: every
   rendering stays inside the renderings of StdDenotes.v.  Without identity_infix the `a != b`
   form is not produced and negated identities round-trip as well (negid_ok). *)

Theorem std_roundtrip_opts : forall T S O OW, table_ok T = true -> std_agree_b T S O = true ->
  forall s, roundtrippable s = true -> negid_ok OW s = true ->
  exists w, write_stdo OW S s = Some w /\
            parse_std_opts (cfg_of T false) O (decls s) w = (OK s, decls s) /\
            parse_std_opts (cfg_of T true) O [] w = (OK s, decls s).
Proof.
  intros T S O OW Tok Hag s Hrt Hnn. unfold std_agree_b in Hag. rewrite !andb_true_iff in Hag.
  destruct Hag as [[[[[[Hagb Ho] Hc] Hw] Hpo] Hpc] Hd].
  destruct (sw_popen S) as [[|co [|]]|] eqn:Eo; try discriminate. apply N.eqb_eq in Ho. subst co.
  destruct (sw_pclose S) as [[|cc [|]]|] eqn:Ec; try discriminate. apply N.eqb_eq in Hc. subst cc.
  destruct (sw_ws S) as [ws|] eqn:Ew; [|discriminate]. apply strip_all_ws in Hw.
  destruct (tlookup T (popen O)) as [[]|] eqn:Lo; try discriminate.
  destruct (tlookup T (pclose O)) as [[]|] eqn:Lc; try discriminate.
  assert (Hwf : wf_items s = true).
  { unfold roundtrippable in Hrt. rewrite !andb_true_iff in Hrt. tauto. }
  destruct (write_stdo_rtop T S (popen O) (pclose O) ws (agree_b_sound _ _ Hagb) Eo Ec Ew Hw Lo Lc OW s Hwf Hnn)
    as [w [Hw' HR]].
  exists w. split; [exact Hw'|].
  exact (std_denotes_lang T (sw S) O Tok Hagb Lo Lc Hd s (strip T w) w Hrt HR eq_refl).
Qed.

Lemma wpred_patch S e p : p <> PSys Existence -> wpred (sw (patch_exist S e)) p = wpred (sw S) p.
Proof. destruct p as [[]|]; try reflexivity. intros H. exfalso. apply H. reflexivity. Qed.

Lemma write_stdo_in_patch OW S e : forall s, no_exist s = true ->
  write_stdo_in OW (patch_exist S e) s = write_stdo_in OW S s.
Proof.
  induction s as [i sub|p args|q [i sub] b IH|o a IH|o a IHa b IHb]; intros H.
  - reflexivity.
  - assert (Hp : p <> PSys Existence). { intros ->. discriminate. }
    cbn [write_stdo_in]. rewrite (wpred_patch S e p Hp), wparams_patch.
    destruct args as [|a rest]; [reflexivity|]. rewrite wparam_patch, wparams_patch. reflexivity.
  - cbn [no_exist] in H. cbn [write_stdo_in]. rewrite (IH H). reflexivity.
  - cbn [no_exist] in H. specialize (IH H).
    destruct o; destruct a as [ai asub|p args|q v b|o' a'|o' a' b'];
      try (cbn [write_stdo_in] in *; rewrite IH; reflexivity).
    all: destruct p as [[]|pi psub pa]; try discriminate;
      try (cbn [write_stdo_in] in *; rewrite IH; reflexivity).
  - cbn [no_exist] in H. apply andb_true_iff in H. destruct H as [H1 H2].
    cbn [write_stdo_in]. rewrite (IHa H1), (IHb H2). reflexivity.
Qed.

Lemma write_stdo_patch OW S e s : no_exist s = true -> write_stdo OW (patch_exist S e) s = write_stdo OW S s.
Proof.
  intros H. destruct s as [i sub|p args|q v b|o a|o a b]; try (apply write_stdo_in_patch; exact H).
  cbn [write_stdo]. destruct (wo_drop OW); [|apply write_stdo_in_patch; exact H].
  cbn [no_exist] in H. apply andb_true_iff in H. destruct H as [H1 H2].
  rewrite (write_stdo_in_patch OW S e a H1), (write_stdo_in_patch OW S e b H2). reflexivity.
Qed.

Theorem std_roundtrip_opts_plain : forall T S O OW e, table_ok T = true ->
  std_agree_b T (patch_exist S e) O = true ->
  forall s, roundtrippable s = true -> negid_ok OW s = true -> no_exist s = true ->
  exists w, write_stdo OW S s = Some w /\
            parse_std_opts (cfg_of T false) O (decls s) w = (OK s, decls s) /\
            parse_std_opts (cfg_of T true) O [] w = (OK s, decls s).
Proof.
  intros T S O OW e Tok Hag s Hrt Hn He.
  destruct (std_roundtrip_opts T (patch_exist S e) O OW Tok Hag s Hrt Hn) as [w [Hw HP]].
  exists w. rewrite <- (write_stdo_patch OW S e s He). split; assumption.
Qed.

Corollary write_stdo_injective_plain : forall T S O OW e, table_ok T = true ->
  std_agree_b T (patch_exist S e) O = true ->
  forall s1 s2 w, roundtrippable s1 = true -> negid_ok OW s1 = true -> no_exist s1 = true ->
  roundtrippable s2 = true -> negid_ok OW s2 = true -> no_exist s2 = true ->
  write_stdo OW S s1 = Some w -> write_stdo OW S s2 = Some w -> s1 = s2.
Proof.
  intros T S O OW e Tok Hag s1 s2 w R1 N1 X1 R2 N2 X2 W1 W2.
  destruct (std_roundtrip_opts_plain T S O OW e Tok Hag s1 R1 N1 X1) as [w1 [E1 [_ P1]]].
  destruct (std_roundtrip_opts_plain T S O OW e Tok Hag s2 R2 N2 X2) as [w2 [E2 [_ P2]]].
  rewrite W1 in E1. rewrite W2 in E2. inversion E1; inversion E2; subst.
  rewrite P1 in P2. inversion P2. reflexivity.
Qed.

Lemma negid_cases o a :
  (exists args, o = Negation /\ a = Pred (PSys Identity) args) \/
  (forall args, o = Negation -> a = Pred (PSys Identity) args -> False).
Proof.
  destruct o; try (right; intros; discriminate).
  destruct a as [i sub|p args|q v b|o' a'|o' a' b']; try (right; intros; discriminate).
  destruct p as [[]|]; try (right; intros ? ? E; discriminate E). left; eauto.
Qed.

(* the default options give the writer of the first part *)
Lemma write_stdo_default_in S : forall s, write_stdo_in wopts_default S s = write_std_in S s.
Proof.
  induction s as [i sub|p args|q [i sub] b IH|o a IH|o a IHa b IHb].
  - reflexivity.
  - destruct p as [[]|pi psub pa]; cbn [write_stdo_in write_std_in].
    + destruct args; reflexivity.
    + reflexivity.
    + unfold should_infix. cbn [wo_maxinfix wopts_default is_identity andb orb].
      rewrite Nat.ltb_irrefl || idtac.
      replace (pred_arity (PUser pi psub pa) <? 0) with false by (symmetry; apply Nat.ltb_ge; lia).
      rewrite andb_false_r. reflexivity.
  - cbn [write_stdo_in write_std_in]. rewrite IH. reflexivity.
  - destruct (negid_cases o a) as [[args [-> ->]]|Hno].
    + cbn [write_stdo_in write_std_in wo_idinfix wopts_default].
      destruct args as [|p1 [|p2 rest]]; reflexivity.
    + rewrite (write_stdo_in_un S wopts_default o a (fun _ => Hno)), (write_std_in_un S o a Hno), IH. reflexivity.
  - cbn [write_stdo_in write_std_in]. rewrite IHa, IHb. reflexivity.
Qed.

Lemma write_stdo_default S s : write_stdo wopts_default S s = write_std S s.
Proof.
  destruct s as [i sub|p args|q v b|o a|o a b]; try apply write_stdo_default_in.
  cbn [write_stdo write_std wo_drop wopts_default]. rewrite !write_stdo_default_in. reflexivity.
Qed.
