(* Dec — CPython's str(int) for non-negative integers as code points, and the
   positional value the parser recomputes from the digit characters. *)
From Coq Require Import List Bool Arith NArith Lia.
From PT Require Import Lang.PSyntax.
Import ListNotations.

(* least significant digit first *)
Fixpoint digs (fuel : nat) (n : N) : list N :=
  match fuel with
  | 0 => []
  | S f => if (n =? 0)%N then [] else (n mod 10)%N :: digs f (n / 10)%N
  end.

Definition dec_digits (n : N) : list N := rev (digs (N.size_nat n) n).

(* str(n): '0' for 0, else the digits, most significant first, no leading zero *)
Definition dec (n : N) : str :=
  if (n =? 0)%N then [48%N] else map (fun d => 48 + d)%N (dec_digits n).

Fixpoint value (l : list N) : N :=
  match l with [] => 0%N | d :: r => (d + 10 * value r)%N end.

Definition valf (acc : N) (ds : list N) : N := fold_left (fun a d => (10 * a + d)%N) ds acc.

Lemma size_nat_mono a b : (a <= b)%N -> N.size_nat a <= N.size_nat b.
Proof.
  intros H. destruct a as [|p], b as [|q].
  - simpl; lia.
  - simpl; lia.
  - exfalso. lia.
  - cbn [N.size_nat]. destruct (Pos.eq_dec p q) as [->|Hne]; [lia|].
    apply Pos.size_nat_monotone. lia.
Qed.

Lemma size_nat_div2 n : n <> 0%N -> S (N.size_nat (N.div2 n)) = N.size_nat n.
Proof. destruct n as [|[p|p|]]; simpl; intros H; congruence. Qed.

Lemma size_nat_div10 n : n <> 0%N -> S (N.size_nat (n / 10)) <= N.size_nat n.
Proof.
  intros H. rewrite <- (size_nat_div2 n H).
  apply le_n_S, size_nat_mono.
  rewrite N.div2_div.
  apply N.div_le_compat_l. lia.
Qed.

Lemma digs_value : forall f n, N.size_nat n <= f -> value (digs f n) = n.
Proof.
  induction f as [|f IH]; intros n H.
  - destruct n; simpl in *; [reflexivity | destruct p; simpl in H; lia].
  - cbn [digs]. destruct (n =? 0)%N eqn:E.
    + apply N.eqb_eq in E. subst. reflexivity.
    + apply N.eqb_neq in E. cbn [value].
      rewrite IH.
      * rewrite N.add_comm. symmetry. apply N.div_mod. lia.
      * pose proof (size_nat_div10 n E). lia.
Qed.

Lemma digs_lt10 : forall f n d, In d (digs f n) -> (d < 10)%N.
Proof.
  induction f as [|f IH]; intros n d; cbn [digs]; [intros []|].
  destruct (n =? 0)%N; [intros []|].
  intros [<-|H]; [apply N.mod_lt; lia | eapply IH; eauto].
Qed.

Lemma digs_nonempty f n : n <> 0%N -> 0 < f -> digs f n <> [].
Proof.
  intros Hn Hf. destruct f; [lia|]. cbn [digs].
  destruct (n =? 0)%N eqn:E; [apply N.eqb_eq in E; contradiction | discriminate].
Qed.

Lemma valf_app acc l d : valf acc (l ++ [d]) = (10 * valf acc l + d)%N.
Proof. unfold valf. rewrite fold_left_app. reflexivity. Qed.

Lemma valf_rev l : valf 0 (rev l) = value l.
Proof.
  induction l as [|d l IH]; [reflexivity|].
  cbn [rev value]. rewrite valf_app, IH. lia.
Qed.

Lemma dec_digits_value n : valf 0 (dec_digits n) = n.
Proof. unfold dec_digits. rewrite valf_rev. apply digs_value. lia. Qed.

Lemma dec_digits_lt10 n d : In d (dec_digits n) -> (d < 10)%N.
Proof. unfold dec_digits. rewrite <- in_rev. apply digs_lt10. Qed.

Lemma dec_digits_nonempty n : n <> 0%N -> dec_digits n <> [].
Proof.
  intros H. unfold dec_digits. intros E.
  assert (digs (N.size_nat n) n = []) as E'.
  { destruct (digs (N.size_nat n) n) as [|x l] eqn:D; [reflexivity|].
    cbn [rev] in E. destruct (rev l); discriminate. }
  revert E'. apply digs_nonempty; [exact H|].
  destruct n; [congruence|]. destruct p; simpl; lia.
Qed.
