(* WritePolish — model of pytableaux/lang/writing.py LexWriter + PolishLexWriter,
   driven by a string table regenerated from /repo (lang/_symdata.py string_tables()).

   LexWriter._write(item): strings[item] if present (operators, quantifiers, the two
   system predicates), else by type: coords items write strings[(type, index)] followed
   by the subscript ('' for 0, else subscript_open + str(n) + subscript_close);
   Predicated = predicate, params; Quantified = quantifier, variable, body;
   PolishLexWriter._write_operated = operator, operands.  A missing key (KeyError) or a
   non-string value (NotImplemented -> TypeError in join) is `None`. *)
From Coq Require Import List Bool Arith NArith Lia.
From PT Require Import Lang.PSyntax Lang.Dec.
Import ListNotations.

Record wtable := {
  w_uop : uop -> option str;
  w_bop : bop -> option str;
  w_quant : quant -> option str;
  w_sys : syspred -> option str;
  w_atom : nat -> option str;
  w_var : nat -> option str;
  w_const : nat -> option str;
  w_pred : nat -> option str;
  w_subopen : option str;
  w_subclose : option str
}.

Definition oapp (a b : option str) : option str :=
  match a, b with Some x, Some y => Some (x ++ y) | _, _ => None end.

Section Writer.
Variable W : wtable.

(* LexWriter._write_subscript *)
Definition wsub (s : N) : option str :=
  if (s =? 0)%N then Some [] else oapp (w_subopen W) (oapp (Some (dec s)) (w_subclose W)).

(* LexWriter._write_coordsitem *)
Definition wcoords (sym : option str) (s : N) : option str := oapp sym (wsub s).

Definition wparam (p : param) : option str :=
  match p with
  | Const i s => wcoords (w_const W i) s
  | Var i s => wcoords (w_var W i) s
  end.

Fixpoint wparams (ps : list param) : option str :=
  match ps with
  | [] => Some []
  | p :: r => oapp (wparam p) (wparams r)
  end.

Definition wpred (p : pred) : option str :=
  match p with
  | PSys q => w_sys W q
  | PUser i s _ => wcoords (w_pred W i) s
  end.

Fixpoint write_polish (s : sent) : option str :=
  match s with
  | Atom i sub => wcoords (w_atom W i) sub
  | Pred p args => oapp (wpred p) (wparams args)
  | Quant q (i, sub) b => oapp (w_quant W q) (oapp (wcoords (w_var W i) sub) (write_polish b))
  | Un o a => oapp (w_uop W o) (write_polish a)
  | Bin o a b => oapp (w_bop W o) (oapp (write_polish a) (write_polish b))
  end.

End Writer.

(* Argument.argstr: ':'.join(map(polish ascii writer, (conclusion, *premises))) *)
Fixpoint join_colon (l : list str) : str :=
  match l with
  | [] => []
  | [x] => x
  | x :: r => x ++ 58%N :: join_colon r
  end.

Fixpoint omap {A B} (f : A -> option B) (l : list A) : option (list B) :=
  match l with
  | [] => Some []
  | x :: r => match f x, omap f r with Some y, Some ys => Some (y :: ys) | _, _ => None end
  end.

Definition argstr (W : wtable) (sents : list sent) : option str :=
  match omap (write_polish W) sents with Some l => Some (join_colon l) | None => None end.
