(* Transfer — injectivity of the Polish writer over ANY string table whose symbols form a prefix
   code, obtained from injectivity over one reference table (Polish ASCII, RoundTrip.v).

   write_polish W s is the concatenation of the renderings of a table-independent token list
   toks s (symbols in prefix order, a subscript token after a coordinate symbol when the
   subscript is not 0).  Over the reference table the writer is injective and total, hence toks is
   injective on the language; over a table W whose token renderings are uniquely decodable
   (code_ok W, decided by computation) equal strings give equal token lists.  Multi-character
   symbols (HTML entities, LaTeX commands) and non-empty subscript delimiters are allowed. *)
From Coq Require Import List Bool Arith NArith Lia.
From PT Require Import Lang.PSyntax Lang.Dec Lang.WritePolish.
Import ListNotations.

Inductive tok :=
| TU (o : uop) | TB (o : bop) | TQ (q : quant) | TSys (p : syspred)
| TAtom (i : nat) | TVar (i : nat) | TConst (i : nat) | TPred (i : nat)
| TSub (n : N).

Definition tok_eq_dec : forall a b : tok, {a = b} + {a <> b}.
Proof. decide equality; try apply Nat.eq_dec; try apply N.eq_dec; decide equality. Defined.

Definition tsub (n : N) : list tok := if (n =? 0)%N then [] else [TSub n].

Definition tparam (p : param) : list tok :=
  match p with Const i s => TConst i :: tsub s | Var i s => TVar i :: tsub s end.

Definition tpred (p : pred) : list tok :=
  match p with PSys q => [TSys q] | PUser i s _ => TPred i :: tsub s end.

Fixpoint toks (s : sent) : list tok :=
  match s with
  | Atom i sub => TAtom i :: tsub sub
  | Pred p args => tpred p ++ flat_map tparam args
  | Quant q (i, sub) b => TQ q :: (TVar i :: tsub sub) ++ toks b
  | Un o a => TU o :: toks a
  | Bin o a b => TB o :: toks a ++ toks b
  end.

Section R.
Variable W : wtable.

Definition rtok (t : tok) : option str :=
  match t with
  | TU o => w_uop W o | TB o => w_bop W o | TQ q => w_quant W q | TSys p => w_sys W p
  | TAtom i => w_atom W i | TVar i => w_var W i | TConst i => w_const W i | TPred i => w_pred W i
  | TSub n => oapp (w_subopen W) (oapp (Some (dec n)) (w_subclose W))
  end.

Fixpoint rtoks (l : list tok) : option str :=
  match l with [] => Some [] | t :: r => oapp (rtok t) (rtoks r) end.

Lemma oapp_assoc a b c : oapp (oapp a b) c = oapp a (oapp b c).
Proof. destruct a, b, c; cbn; try reflexivity. rewrite app_assoc. reflexivity. Qed.

Lemma oapp_nil_r a : oapp a (Some []) = a.
Proof. destruct a; cbn; [rewrite app_nil_r|]; reflexivity. Qed.

Lemma rtoks_app a b : rtoks (a ++ b) = oapp (rtoks a) (rtoks b).
Proof.
  induction a as [|t a IH]; cbn [app rtoks].
  - destruct (rtoks b); reflexivity.
  - rewrite IH, oapp_assoc. reflexivity.
Qed.

Lemma wcoords_toks sym sub t : rtok t = sym -> wcoords W sym sub = rtoks (t :: tsub sub).
Proof.
  intros <-. unfold wcoords, wsub, tsub. cbn [rtoks]. destruct (sub =? 0)%N; cbn [rtoks rtok].
  - reflexivity.
  - rewrite oapp_nil_r. reflexivity.
Qed.

Lemma wparam_toks p : wparam W p = rtoks (tparam p).
Proof. destruct p; cbn [wparam tparam]; apply wcoords_toks; reflexivity. Qed.

Lemma wparams_toks : forall ps, wparams W ps = rtoks (flat_map tparam ps).
Proof.
  induction ps as [|p ps IH]; [reflexivity|].
  cbn [wparams flat_map]. rewrite rtoks_app, IH, wparam_toks. reflexivity.
Qed.

Lemma wpred_toks p : wpred W p = rtoks (tpred p).
Proof.
  destruct p as [q|i s a]; cbn [wpred tpred].
  - cbn [rtoks rtok]. rewrite oapp_nil_r. reflexivity.
  - apply wcoords_toks. reflexivity.
Qed.

Theorem write_toks : forall s, write_polish W s = rtoks (toks s).
Proof.
  induction s as [i sub|p args|q [i sub] b IH|o a IH|o a IHa b IHb]; cbn [write_polish toks].
  - apply wcoords_toks. reflexivity.
  - rewrite rtoks_app, wpred_toks, wparams_toks. reflexivity.
  - cbn [rtoks]. change (TVar i :: tsub sub ++ toks b) with ((TVar i :: tsub sub) ++ toks b).
    rewrite rtoks_app, IH, <- (wcoords_toks (w_var W i) sub (TVar i) eq_refl). reflexivity.
  - cbn [rtoks rtok]. rewrite IH. reflexivity.
  - cbn [rtoks rtok]. rewrite rtoks_app, IHa, IHb. reflexivity.
Qed.

End R.

(* ---- the tokens of constructible sentences ------------------------------------------------- *)

Definition sym_toks : list tok :=
  [TU Assertion; TU Negation; TU Possibility; TU Necessity;
   TB Conjunction; TB Disjunction; TB MaterialConditional; TB MaterialBiconditional;
   TB Conditional; TB Biconditional; TQ Existential; TQ Universal; TSys Identity; TSys Existence]
  ++ map TAtom (seq 0 (S maxi_atom)) ++ map TVar (seq 0 (S maxi_param))
  ++ map TConst (seq 0 (S maxi_param)) ++ map TPred (seq 0 (S maxi_pred)).

Definition tok_wf (t : tok) : Prop :=
  match t with TSub n => n <> 0%N | _ => In t sym_toks end.

Lemma in_sym_seq (f : nat -> tok) i n : i <= n ->
  In (f i) (map f (seq 0 (S n))).
Proof. intros H. apply in_map. apply in_seq. lia. Qed.

Lemma tsub_wf n : Forall tok_wf (tsub n).
Proof.
  unfold tsub. destruct (n =? 0)%N eqn:E; constructor; [|constructor].
  cbn. apply N.eqb_neq. exact E.
Qed.

Lemma sym_in_atom i : i <= maxi_atom -> In (TAtom i) sym_toks.
Proof. intros H. unfold sym_toks. apply in_or_app. right. apply in_or_app. left. apply in_sym_seq. exact H. Qed.
Lemma sym_in_var i : i <= maxi_param -> In (TVar i) sym_toks.
Proof.
  intros H. unfold sym_toks. apply in_or_app. right. apply in_or_app. right. apply in_or_app. left.
  apply in_sym_seq. exact H.
Qed.
Lemma sym_in_const i : i <= maxi_param -> In (TConst i) sym_toks.
Proof.
  intros H. unfold sym_toks. do 3 (apply in_or_app; right). apply in_or_app. left. apply in_sym_seq. exact H.
Qed.
Lemma sym_in_pred i : i <= maxi_pred -> In (TPred i) sym_toks.
Proof. intros H. unfold sym_toks. do 4 (apply in_or_app; right). apply in_sym_seq. exact H. Qed.

Lemma tparam_wf p : wf_param p = true -> Forall tok_wf (tparam p).
Proof.
  destruct p as [i s|i s]; cbn [wf_param tparam]; intros H; apply Nat.leb_le in H;
    (constructor; [|apply tsub_wf]); cbn [tok_wf]; [apply sym_in_const | apply sym_in_var]; exact H.
Qed.

Lemma tparams_wf : forall ps, forallb wf_param ps = true -> Forall tok_wf (flat_map tparam ps).
Proof.
  induction ps as [|p ps IH]; intros H; [constructor|].
  cbn [forallb] in H. apply andb_true_iff in H. destruct H as [H1 H2].
  cbn [flat_map]. apply Forall_app. split; [apply tparam_wf; exact H1 | apply IH; exact H2].
Qed.

Lemma toks_wf : forall s, wf_items s = true -> Forall tok_wf (toks s).
Proof.
  induction s as [i sub|p args|q [i sub] b IH|o a IH|o a IHa b IHb]; cbn [wf_items toks]; intros H.
  - apply Nat.leb_le in H. constructor; [apply sym_in_atom; exact H | apply tsub_wf].
  - apply andb_true_iff in H. destruct H as [H _]. apply andb_true_iff in H. destruct H as [H1 H2].
    apply Forall_app. split; [|apply tparams_wf; exact H2].
    destruct p as [q|pi ps pa]; cbn [tpred wf_pred] in *.
    + constructor; [|constructor]. destruct q; cbn; tauto.
    + apply andb_true_iff in H1. destruct H1 as [H1 _]. apply Nat.leb_le in H1.
      constructor; [apply sym_in_pred; exact H1 | apply tsub_wf].
  - apply andb_true_iff in H. destruct H as [H1 H2]. cbn [fst] in H1. apply Nat.leb_le in H1.
    constructor; [destruct q; cbn; tauto|].
    change (TVar i :: tsub sub ++ toks b) with ((TVar i :: tsub sub) ++ toks b).
    apply Forall_app. split; [|apply IH; exact H2].
    constructor; [apply sym_in_var; exact H1 | apply tsub_wf].
  - constructor; [destruct o; cbn; tauto | apply IH; exact H].
  - apply andb_true_iff in H. destruct H as [H1 H2].
    constructor; [destruct o; cbn; tauto|]. apply Forall_app. split; [apply IHa | apply IHb]; assumption.
Qed.

(* ---- prefix codes -------------------------------------------------------------------------- *)

Fixpoint is_prefix (a b : str) : bool :=
  match a, b with
  | [], _ => true
  | x :: a', y :: b' => (x =? y)%N && is_prefix a' b'
  | _ :: _, [] => false
  end.

Definition comparable (a b : str) : bool := is_prefix a b || is_prefix b a.

Lemma app_eq_comparable : forall (x y r1 r2 : str), x ++ r1 = y ++ r2 -> comparable x y = true.
Proof.
  unfold comparable. induction x as [|c x IH]; intros y r1 r2 H; [reflexivity|].
  destruct y as [|d y]; [reflexivity|].
  cbn [app] in H. inversion H; subst. cbn [is_prefix]. rewrite N.eqb_refl. cbn [andb].
  eapply IH; eassumption.
Qed.

Lemma comparable_app_l : forall (x o z : str), comparable x (o ++ z) = true -> comparable x o = true.
Proof.
  unfold comparable. induction x as [|c x IH]; intros o z H; [reflexivity|].
  destruct o as [|d o]; [reflexivity|]. cbn [app is_prefix] in *.
  rewrite (N.eqb_sym d c) in *. destruct (c =? d)%N; cbn [andb orb] in *; [|discriminate].
  eapply IH. exact H.
Qed.

Definition is_digit (c : N) : bool := (48 <=? c)%N && (c <=? 57)%N.

Lemma digits_split : forall (d1 d2 : str) c1 c2 u1 u2,
  forallb is_digit d1 = true -> forallb is_digit d2 = true ->
  is_digit c1 = false -> is_digit c2 = false ->
  d1 ++ c1 :: u1 = d2 ++ c2 :: u2 -> d1 = d2.
Proof.
  induction d1 as [|x d1 IH]; intros d2 c1 c2 u1 u2 H1 H2 N1 N2 E.
  - destruct d2 as [|y d2]; [reflexivity|]. cbn [app] in E. inversion E; subst.
    cbn [forallb] in H2. apply andb_true_iff in H2. destruct H2 as [H2 _]. congruence.
  - destruct d2 as [|y d2].
    + cbn [app] in E. inversion E; subst.
      cbn [forallb] in H1. apply andb_true_iff in H1. destruct H1 as [H1 _]. congruence.
    + cbn [app] in E. injection E as Exy H3. subst y. f_equal.
      cbn [forallb] in H1, H2. apply andb_true_iff in H1. apply andb_true_iff in H2.
      destruct H1 as [_ H1]. destruct H2 as [_ H2].
      exact (IH d2 c1 c2 u1 u2 H1 H2 N1 N2 H3).
Qed.

Lemma dec_digits_all n : forallb is_digit (dec n) = true.
Proof.
  unfold dec. destruct (n =? 0)%N; [reflexivity|].
  apply forallb_forall. intros c Hc. apply in_map_iff in Hc. destruct Hc as [d [<- Hd]].
  apply dec_digits_lt10 in Hd. unfold is_digit. apply andb_true_iff. split; apply N.leb_le; lia.
Qed.

Lemma map_chr_inj : forall l1 l2 : list N, map (fun d => 48 + d)%N l1 = map (fun d => 48 + d)%N l2 -> l1 = l2.
Proof.
  induction l1 as [|a l1 IH]; intros [|b l2] H; try discriminate; [reflexivity|].
  cbn [map] in H.
  assert (Ha : (48 + a = 48 + b)%N) by exact (f_equal (hd 0%N) H).
  assert (Hl : map (fun d => 48 + d)%N l1 = map (fun d => 48 + d)%N l2) by exact (f_equal (@tl N) H).
  f_equal; [lia | apply IH; exact Hl].
Qed.

Lemma dec_inj n m : n <> 0%N -> m <> 0%N -> dec n = dec m -> n = m.
Proof.
  intros Hn Hm. unfold dec. apply N.eqb_neq in Hn. apply N.eqb_neq in Hm. rewrite Hn, Hm.
  intros H. apply map_chr_inj in H.
  rewrite <- (dec_digits_value n), <- (dec_digits_value m), H. reflexivity.
Qed.

(* ---- the decidable side condition on a table ------------------------------------------------ *)

Definition nonempty_some (o : option str) : bool := match o with Some (_ :: _) => true | _ => false end.

Definition incomparable_o (a b : option str) : bool :=
  match a, b with Some x, Some y => negb (comparable x y) | _, _ => true end.

Definition code_ok (W : wtable) : bool :=
  forallb (fun t => nonempty_some (rtok W t)) sym_toks &&
  forallb (fun t1 => forallb (fun t2 => if tok_eq_dec t1 t2 then true
                                        else incomparable_o (rtok W t1) (rtok W t2)) sym_toks) sym_toks &&
  nonempty_some (w_subopen W) &&
  match w_subclose W with Some (c :: _) => negb (is_digit c) | _ => false end &&
  forallb (fun t => incomparable_o (rtok W t) (w_subopen W)) sym_toks.

Section Code.
Variable W : wtable.
Hypothesis OK : code_ok W = true.

Lemma code_parts :
  (forall t, In t sym_toks -> nonempty_some (rtok W t) = true) /\
  (forall t1 t2, In t1 sym_toks -> In t2 sym_toks -> t1 <> t2 -> incomparable_o (rtok W t1) (rtok W t2) = true) /\
  (exists o0 o, w_subopen W = Some (o0 :: o)) /\
  (exists c cl, w_subclose W = Some (c :: cl) /\ is_digit c = false) /\
  (forall t, In t sym_toks -> incomparable_o (rtok W t) (w_subopen W) = true).
Proof.
  unfold code_ok in OK. rewrite !andb_true_iff in OK. destruct OK as [[[[H1 H2] H3] H4] H5].
  rewrite forallb_forall in H1, H2, H5. repeat split.
  - exact H1.
  - intros t1 t2 I1 I2 Hne. specialize (H2 t1 I1). rewrite forallb_forall in H2. specialize (H2 t2 I2).
    destruct (tok_eq_dec t1 t2); [contradiction | exact H2].
  - destruct (w_subopen W) as [[|o0 o]|]; try discriminate. eauto.
  - destruct (w_subclose W) as [[|c cl]|]; try discriminate. exists c, cl. split; [reflexivity|].
    apply negb_true_iff. exact H4.
  - exact H5.
Qed.

Lemma rtok_nonempty t x : tok_wf t -> rtok W t = Some x -> x <> [].
Proof.
  destruct code_parts as [H1 [_ [[o0 [o Ho]] _]]]. intros Hwf Hx.
  destruct t; try (specialize (H1 _ Hwf); rewrite Hx in H1; destruct x; [discriminate H1 | discriminate]).
  cbn [rtok] in Hx. rewrite Ho in Hx. destruct (w_subclose W); cbn in Hx; [|discriminate].
  inversion Hx. discriminate.
Qed.

Lemma sym_sub_clash t n x y r1 r2 : In t sym_toks -> rtok W t = Some x -> rtok W (TSub n) = Some y ->
  x ++ r1 = y ++ r2 -> False.
Proof.
  destruct code_parts as [H1 [_ [[o0 [o Ho]] [_ H5]]]]. intros Hin Hx Hy E.
  specialize (H5 t Hin). rewrite Hx, Ho in H5. cbn [incomparable_o] in H5. apply negb_true_iff in H5.
  cbn [rtok] in Hy. rewrite Ho in Hy. destruct (w_subclose W) as [cl|]; cbn in Hy; [|discriminate].
  inversion Hy; subst y. clear Hy.
  pose proof (app_eq_comparable _ _ _ _ E) as Hc.
  change (o0 :: o ++ dec n ++ cl) with ((o0 :: o) ++ dec n ++ cl) in Hc.
  pose proof (comparable_app_l x (o0 :: o) (dec n ++ cl) Hc) as H. congruence.
Qed.

(* unique decodability of the token renderings *)
Lemma pcode t1 t2 x y r1 r2 : tok_wf t1 -> tok_wf t2 ->
  rtok W t1 = Some x -> rtok W t2 = Some y -> x ++ r1 = y ++ r2 -> t1 = t2.
Proof.
  intros W1 W2 Hx Hy E.
  destruct code_parts as [_ [H2 [[o0 [o Ho]] [[c [cl [Hcl Hc]]] _]]]].
  destruct (tok_eq_dec t1 t2) as [|Hne]; [assumption|exfalso].
  assert (Hsub : forall n, tok_wf (TSub n) -> n <> 0%N) by (intros n H; exact H).
  destruct t1 as [| | | | | | | |n]; destruct t2 as [| | | | | | | |m];
    try (eapply sym_sub_clash; [| | | exact E]; eassumption);
    try (eapply sym_sub_clash; [| | | symmetry; exact E]; eassumption);
    try (cbn [tok_wf] in W1, W2; specialize (H2 _ _ W1 W2 Hne); rewrite Hx, Hy in H2;
         cbn [incomparable_o] in H2; apply negb_true_iff in H2;
         rewrite (app_eq_comparable _ _ _ _ E) in H2; discriminate).
  (* two subscripts *)
  cbn [rtok] in Hx, Hy. rewrite Ho, Hcl in Hx, Hy. cbn [oapp] in Hx, Hy. inversion Hx; inversion Hy; subst x y.
  cbn [app] in E. inversion E as [E'].
  rewrite <- !app_assoc in E'. apply app_inv_head in E'.
  cbn [app] in E'.
  assert (dec n = dec m).
  { eapply (digits_split (dec n) (dec m) c c); try apply dec_digits_all; try exact Hc. exact E'. }
  apply Hne. f_equal. apply dec_inj; [apply Hsub, W1 | apply Hsub, W2 | assumption].
Qed.

Theorem rtoks_unique : forall l1 l2 w, Forall tok_wf l1 -> Forall tok_wf l2 ->
  rtoks W l1 = Some w -> rtoks W l2 = Some w -> l1 = l2.
Proof.
  induction l1 as [|t1 l1 IH]; intros l2 w F1 F2 R1 R2.
  - cbn in R1. inversion R1; subst w. destruct l2 as [|t2 l2]; [reflexivity|].
    cbn [rtoks] in R2. destruct (rtok W t2) as [y|] eqn:Ey; [|discriminate].
    destruct (rtoks W l2) as [r|]; [|discriminate]. cbn in R2. inversion R2 as [E].
    inversion F2; subst. exfalso. apply (rtok_nonempty t2 y); [assumption | exact Ey |].
    destruct y; [reflexivity | discriminate].
  - destruct l2 as [|t2 l2].
    + cbn in R2. inversion R2; subst w.
      cbn [rtoks] in R1. destruct (rtok W t1) as [x|] eqn:Ex; [|discriminate].
      destruct (rtoks W l1) as [r|]; [|discriminate]. cbn in R1. inversion R1 as [E].
      inversion F1; subst. exfalso. apply (rtok_nonempty t1 x); [assumption | exact Ex |].
      destruct x; [reflexivity | discriminate].
    + cbn [rtoks] in R1, R2.
      destruct (rtok W t1) as [x|] eqn:Ex; [|discriminate].
      destruct (rtoks W l1) as [r1|] eqn:E1; [|discriminate].
      destruct (rtok W t2) as [y|] eqn:Ey; [|discriminate].
      destruct (rtoks W l2) as [r2|] eqn:E2; [|discriminate].
      cbn in R1, R2. inversion R1 as [A1]. inversion R2 as [A2].
      inversion F1; inversion F2; subst.
      assert (E : x ++ r1 = y ++ r2) by congruence.
      assert (t1 = t2) by (eapply pcode; eassumption). subst t2.
      rewrite Ex in Ey. inversion Ey; subst y. apply app_inv_head in E. subst r2.
      f_equal. eapply IH; try eassumption. reflexivity.
Qed.

End Code.

(* ---- transfer ------------------------------------------------------------------------------ *)

Theorem write_polish_injective_transfer : forall (lang : sent -> bool) W0 W,
  (forall s, lang s = true -> wf_items s = true) ->
  (forall s, lang s = true -> exists w, write_polish W0 s = Some w) ->
  (forall s1 s2 w, lang s1 = true -> lang s2 = true ->
     write_polish W0 s1 = Some w -> write_polish W0 s2 = Some w -> s1 = s2) ->
  code_ok W = true ->
  forall s1 s2 w, lang s1 = true -> lang s2 = true ->
    write_polish W s1 = Some w -> write_polish W s2 = Some w -> s1 = s2.
Proof.
  intros lang W0 W Hwf Htot Hinj Hcode s1 s2 w L1 L2 E1 E2.
  rewrite write_toks in E1, E2.
  assert (Ht : toks s1 = toks s2).
  { eapply (rtoks_unique W Hcode); try eassumption; apply toks_wf; apply Hwf; assumption. }
  destruct (Htot s1 L1) as [w0 H0].
  apply (Hinj s1 s2 w0 L1 L2 H0).
  rewrite write_toks in H0 |- *. rewrite <- Ht. exact H0.
Qed.

(* with the reference table of RoundTrip.v: any table that agrees with a parse table *)
From PT Require Import Lang.ParsePolish Lang.RoundTrip.

Corollary write_polish_injective_code : forall T W0 W, agree_b T W0 = true -> code_ok W = true ->
  forall s1 s2 w, roundtrippable s1 = true -> roundtrippable s2 = true ->
  write_polish W s1 = Some w -> write_polish W s2 = Some w -> s1 = s2.
Proof.
  intros T W0 W Hag Hcode.
  apply (write_polish_injective_transfer roundtrippable W0 W).
  - intros s H. unfold roundtrippable in H. rewrite !andb_true_iff in H. tauto.
  - intros s H. destruct (polish_roundtrip T W0 Hag s H) as [w [Hw _]]. exists w. exact Hw.
  - exact (write_polish_injective T W0 Hag).
  - exact Hcode.
Qed.
