(* StdDenotes — C12, standard notation: every well-formed infix string denotes its sentence.
   `Rs`/`Rtop` generate, for a sentence, ALL its whitespace-free standard renderings over the
   alphabet of the parse table: each predication of arity >= 2 infix or prefix, every binary
   operation parenthesised, the outermost parentheses kept or dropped.  Theorem std_denotes:
   the standard parser maps every such rendering to the sentence; with WhitespaceStd.parse_std_ws
   the same holds for every string obtained by inserting whitespace anywhere. *)
From Coq Require Import List Bool Arith NArith Lia.
From PT Require Import Lang.PSyntax Lang.Dec Lang.ParsePolish Lang.ParsePolishProofs Lang.WritePolish
     Lang.RoundTrip Lang.ParseStd Lang.ParseStdProofs Lang.Whitespace Lang.WhitespaceStd.
Import ListNotations.

Section Render.
Variable W : wtable.      (* symbols: the reverse of the standard parse table *)
Variables po pc : N.      (* parenthesis characters *)

Inductive Rs : sent -> str -> Prop :=
| Rs_atom i sub w : wcoords W (w_atom W i) sub = Some w -> Rs (Atom i sub) w
| Rs_pred p args wp wps :
    wpred W p = Some wp -> wparams W args = Some wps -> Rs (Pred p args) (wp ++ wps)
| Rs_infix p a rest wa wp wps :
    2 <= pred_arity p -> wparam W a = Some wa -> wpred W p = Some wp -> wparams W rest = Some wps ->
    Rs (Pred p (a :: rest)) (wa ++ wp ++ wps)
| Rs_quant q i sub b wq wv wb :
    w_quant W q = Some wq -> wcoords W (w_var W i) sub = Some wv -> Rs b wb ->
    Rs (Quant q (i, sub) b) (wq ++ wv ++ wb)
| Rs_un o a wo wa : w_uop W o = Some wo -> Rs a wa -> Rs (Un o a) (wo ++ wa)
| Rs_bin o a b wo wa wb :
    w_bop W o = Some wo -> Rs a wa -> Rs b wb -> Rs (Bin o a b) (po :: wa ++ wo ++ wb ++ [pc]).

Inductive Rtop : sent -> str -> Prop :=
| Rtop_in s w : Rs s w -> Rtop s w
| Rtop_drop o a b wo wa wb :
    w_bop W o = Some wo -> Rs a wa -> Rs b wb -> Rtop (Bin o a b) (wa ++ wo ++ wb).

End Render.

Section Den.
Variable C : cfg.
Variable W : wtable.
Variables po pc : N.
Local Notation T := (tab C).
Hypothesis AG : agree T W.
Hypothesis Hfz : frozen C = false.
Hypothesis Hpo : tlookup T po = Some IParenOpen.
Hypothesis Hpc : tlookup T pc = Some IParenClose.

(* characters the scan-ahead steps over without effect *)
Definition neutral (c : N) : Prop :=
  match tlookup T c with
  | Some IParenOpen | Some IParenClose | Some (IOper2 _) => False
  | _ => True
  end.

Lemma scan_neutral : forall w rest d f, Forall neutral w -> scan T (w ++ rest) d f = scan T rest d f.
Proof.
  induction w as [|c w IH]; intros rest d f H; [reflexivity|].
  inversion H as [|? ? Hc Hw]; subst. cbn [app scan]. unfold neutral in Hc.
  destruct (tlookup T c) as [[]|]; try contradiction; apply IH; exact Hw.
Qed.

Lemma neutral_of c it : tlookup T c = Some it ->
  match it with IParenOpen | IParenClose | IOper2 _ => False | _ => True end -> neutral c.
Proof. intros H Hi. unfold neutral. rewrite H. exact Hi. Qed.

Lemma wsub_neutral sub w : wsub W sub = Some w -> Forall neutral w.
Proof.
  intros H. destruct (wsub_spec T W AG _ _ H) as [[_ ->]|[_ ->]]; [constructor|].
  apply Forall_forall. intros c Hc. apply in_map_iff in Hc. destruct Hc as [d [<- Hd]].
  eapply neutral_of; [apply (ag_digit _ _ AG d (dec_digits_lt10 _ _ Hd)) | exact I].
Qed.

Lemma wparam_neutral p w : wparam W p = Some w -> wf_param p = true -> Forall neutral w.
Proof.
  intros Hw Hwf. destruct (wparam_spec T W AG _ _ Hw Hwf) as [c [ws [sub [-> [Hs Hc]]]]].
  constructor; [|eapply wsub_neutral; eauto].
  destruct Hc as [[i [_ Hl]]|[i [_ Hl]]]; (eapply neutral_of; [exact Hl | exact I]).
Qed.

Lemma wparams_neutral : forall ps w, wparams W ps = Some w -> forallb wf_param ps = true -> Forall neutral w.
Proof.
  induction ps as [|p ps IH]; intros w Hw Hwf.
  - cbn in Hw. inversion Hw. constructor.
  - cbn [wparams] in Hw. destruct (wparam W p) as [wp|] eqn:Ep; [|discriminate].
    destruct (wparams W ps) as [wps|] eqn:Eps; [|discriminate]. cbn in Hw. inversion Hw; subst.
    cbn [forallb] in Hwf. apply andb_true_iff in Hwf. destruct Hwf as [H1 H2].
    apply Forall_app. split; [eapply wparam_neutral; eauto | apply IH; auto].
Qed.

Lemma wpred_spec p w : wpred W p = Some w -> wf_pred p = true ->
  exists c ws, w = c :: ws /\ Forall neutral w /\
   ((exists q, p = PSys q /\ ws = [] /\ tlookup T c = Some (ISys q)) \/
    (exists i sub a, p = PUser i sub a /\ wsub W sub = Some ws /\ tlookup T c = Some (IPred i))).
Proof.
  destruct p as [q|i sub a]; cbn [wpred wf_pred]; intros Hw Hwf.
  - destruct (ag_sys _ _ AG q) as [c [Hc Hl]]. rewrite Hc in Hw. inversion Hw; subst.
    exists c, []. split; [reflexivity|]. split.
    + constructor; [eapply neutral_of; [exact Hl | exact I] | constructor].
    + left. exists q. auto.
  - apply andb_true_iff in Hwf. destruct Hwf as [Hi _]. apply Nat.leb_le in Hi.
    destruct (ag_pred _ _ AG i Hi) as [c [Hc Hl]]. unfold wcoords in Hw. rewrite Hc in Hw.
    destruct (wsub W sub) as [ws|] eqn:Es; [|discriminate]. cbn in Hw. inversion Hw; subst.
    exists c, ws. split; [reflexivity|]. split.
    + constructor; [eapply neutral_of; [exact Hl | exact I] | eapply wsub_neutral; eauto].
    + right. exists i, sub, a. auto.
Qed.

(* the scan-ahead passes over a rendered sentence without noticing it (at depth >= 1) *)
Lemma scan_over : forall s w, Rs W po pc s w -> wf_items s = true ->
  forall rest d f, 1 <= d -> scan T (w ++ rest) d f = scan T rest d f.
Proof.
  induction 1 as [i sub w Hw|p args wp wps Hp Hps|p a rest0 wa wp wps Har Ha Hp Hps
                  |q i sub b wq wv wb Hq Hv Hb IH|o a wo wa Ho Ha IH|o a b wo wa wb Ho Ha IHa Hb IHb];
    intros Hwf rest d f Hd; cbn [wf_items] in Hwf.
  - apply Nat.leb_le in Hwf. destruct (ag_atom _ _ AG i Hwf) as [c [Hc Hl]].
    unfold wcoords in Hw. rewrite Hc in Hw. destruct (wsub W sub) as [ws|] eqn:Es; [|discriminate].
    cbn in Hw. inversion Hw; subst. apply scan_neutral.
    constructor; [eapply neutral_of; [exact Hl | exact I] | eapply wsub_neutral; eauto].
  - apply andb_true_iff in Hwf. destruct Hwf as [Hwf _]. apply andb_true_iff in Hwf. destruct Hwf as [H1 H2].
    destruct (wpred_spec p wp Hp H1) as [c [ws [_ [Hn _]]]].
    apply scan_neutral. apply Forall_app. split; [exact Hn | eapply wparams_neutral; eauto].
  - apply andb_true_iff in Hwf. destruct Hwf as [Hwf _]. apply andb_true_iff in Hwf. destruct Hwf as [H1 H2].
    cbn [forallb] in H2. apply andb_true_iff in H2. destruct H2 as [H2 H3].
    destruct (wpred_spec p wp Hp H1) as [c [ws [_ [Hn _]]]].
    apply scan_neutral. apply Forall_app. split; [eapply wparam_neutral; eauto|].
    apply Forall_app. split; [exact Hn | eapply wparams_neutral; eauto].
  - apply andb_true_iff in Hwf. destruct Hwf as [Hi Hwb]. cbn [fst] in Hi. apply Nat.leb_le in Hi.
    destruct (ag_quant _ _ AG q) as [c [Hc Hl]]. rewrite Hc in Hq. inversion Hq; subst wq.
    destruct (ag_var _ _ AG i Hi) as [cv [Hcv Hlv]]. unfold wcoords in Hv. rewrite Hcv in Hv.
    destruct (wsub W sub) as [ws|] eqn:Es; [|discriminate]. cbn in Hv. inversion Hv; subst wv.
    rewrite <- !app_assoc. rewrite (scan_neutral [c]).
    + rewrite (scan_neutral (cv :: ws)); [apply IH; auto|].
      constructor; [eapply neutral_of; [exact Hlv | exact I] | eapply wsub_neutral; eauto].
    + constructor; [eapply neutral_of; [exact Hl | exact I] | constructor].
  - destruct (ag_uop _ _ AG o) as [c [Hc Hl]]. rewrite Hc in Ho. inversion Ho; subst wo.
    rewrite <- app_assoc. rewrite (scan_neutral [c]); [apply IH; auto|].
    constructor; [eapply neutral_of; [exact Hl | exact I] | constructor].
  - apply andb_true_iff in Hwf. destruct Hwf as [Hwa Hwb].
    destruct (ag_bop _ _ AG o) as [c [Hc Hl]]. rewrite Hc in Ho. inversion Ho; subst wo.
    cbn [app scan]. rewrite Hpo.
    rewrite <- !app_assoc. rewrite IHa by (auto; lia).
    cbn [app scan]. rewrite Hl.
    replace (S d =? 1) with false by (symmetry; apply Nat.eqb_neq; lia).
    rewrite <- ?app_assoc. rewrite IHb by (auto; lia).
    cbn [app scan]. rewrite Hpc. destruct d as [|d]; [lia|]. reflexivity.
Qed.


Definition std_start (it : item) : Prop :=
  match it with
  | IOper1 _ | IQuant _ | ISys _ | IPred _ | IAtom _ | IParenOpen | IConst _ | IVar _ => True
  | _ => False
  end.

Lemma rs_head : forall s w, Rs W po pc s w -> wf_items s = true ->
  exists c w' it, w = c :: w' /\ tlookup T c = Some it /\ std_start it.
Proof.
  intros s w H Hwf. destruct H as [i sub w Hw|p args wp wps Hp Hps|p a rest0 wa wp wps Har Ha Hp Hps
                  |q i sub b wq wv wb Hq Hv Hb|o a wo wa Ho Ha|o a b wo wa wb Ho Ha Hb]; cbn [wf_items] in Hwf.
  - apply Nat.leb_le in Hwf. destruct (ag_atom _ _ AG i Hwf) as [c [Hc Hl]].
    unfold wcoords in Hw. rewrite Hc in Hw. destruct (wsub W sub) as [ws|]; [|discriminate].
    cbn in Hw. inversion Hw. exists c, ws, (IAtom i). cbn; auto.
  - apply andb_true_iff in Hwf. destruct Hwf as [Hwf _]. apply andb_true_iff in Hwf. destruct Hwf as [H1 _].
    destruct (wpred_spec p wp Hp H1) as [c [ws [-> [_ [[q [_ [_ Hl]]]|[i [sub [a [_ [_ Hl]]]]]]]]]].
    + exists c, (ws ++ wps), (ISys q). cbn; auto.
    + exists c, (ws ++ wps), (IPred i). cbn; auto.
  - apply andb_true_iff in Hwf. destruct Hwf as [Hwf _]. apply andb_true_iff in Hwf. destruct Hwf as [_ H2].
    cbn [forallb] in H2. apply andb_true_iff in H2. destruct H2 as [H2 _].
    destruct (wparam_spec T W AG _ _ Ha H2) as [c [ws [sub [-> [_ [[i [_ Hl]]|[i [_ Hl]]]]]]]].
    + exists c, (ws ++ wp ++ wps), (IConst i). cbn; auto.
    + exists c, (ws ++ wp ++ wps), (IVar i). cbn; auto.
  - destruct (ag_quant _ _ AG q) as [c [Hc Hl]]. rewrite Hc in Hq. inversion Hq.
    exists c, (wv ++ wb), (IQuant q). cbn; auto.
  - destruct (ag_uop _ _ AG o) as [c [Hc Hl]]. rewrite Hc in Ho. inversion Ho.
    exists c, wa, (IOper1 o). cbn; auto.
  - exists po, (wa ++ wo ++ wb ++ [pc]), IParenOpen. cbn; auto.
Qed.

Lemma rs_facts s w rest : Rs W po pc s w -> wf_items s = true ->
  chomp T (w ++ rest) = w ++ rest /\ 0 < length w.
Proof.
  intros H Hwf. destruct (rs_head s w H Hwf) as [c [w' [it [-> [Hl Hs]]]]].
  split; [|simpl; lia]. cbn [app]. apply chomp_nonws. unfold nonws. rewrite Hl.
  destruct it; cbn in Hs; try contradiction; discriminate.
Qed.

Lemma stop_ok_head c r it : tlookup T c = Some it ->
  match it with IOper2 _ | IParenClose => True | _ => False end -> stop_ok T (c :: r) = true.
Proof.
  intros Hl Hi. unfold stop_ok.
  rewrite chomp_nonws by (unfold nonws; rewrite Hl; destruct it; try contradiction; discriminate).
  rewrite Hl. destruct it; try contradiction; reflexivity.
Qed.

Lemma read_std_written F : forall s w, Rs W po pc s w -> forall k B P P' rest,
  wf_items s = true -> closed_in B s = true -> nonvacuous s = true -> norebind_in B s = true ->
  acs (auto_preds C) P s = Some P' -> stop_ok T rest = true ->
  length (w ++ rest) < k -> length (w ++ rest) < F ->
  read_std C F k B (w ++ rest) P = (OK s, chomp T rest, P').
Proof.
  induction 1 as [i sub w Hw|p args wp wps Hp Hps|p a rest0 wa wp wps Har Ha Hp Hps
                  |q i sub b wq wv wb Hq Hv Hb IH|o a wo wa Ho Ha IH|o a b wo wa wb Ho Ha IHa Hb IHb];
    intros k B P P' rest Hwf Hcl Hnv Hnr Hac Hst Hk HF;
    (destruct k as [|k]; [simpl in Hk; lia|]);
    cbn [wf_items closed_in nonvacuous norebind_in acs] in *.
  - (* Atom *)
    apply Nat.leb_le in Hwf. destruct (ag_atom _ _ AG i Hwf) as [c [Hc Hl]].
    unfold wcoords in Hw. rewrite Hc in Hw. destruct (wsub W sub) as [ws|] eqn:Es; [|discriminate].
    cbn in Hw. inversion Hw; subst w. inversion Hac; subst P'. cbn [app] in *.
    cbn [read_std]. rewrite Hl.
    rewrite (read_coords_written T W AG c sub ws rest F Es (stop_nodigit T _ Hst) HF). cbn [bind2].
    unfold mk_atom. apply Nat.leb_le in Hwf. rewrite Hwf. reflexivity.
  - (* Pred, prefix *)
    apply andb_true_iff in Hwf. destruct Hwf as [Hwf Hlen]. apply andb_true_iff in Hwf.
    destruct Hwf as [Hpw Hargs]. apply Nat.eqb_eq in Hlen.
    pose proof (wparams_nodigit C W AG args wps rest Hps Hargs (stop_nodigit T _ Hst)) as Hnd.
    destruct p as [q|i sub a]; cbn [wpred pred_arity] in *.
    + destruct (ag_sys _ _ AG q) as [c [Hc Hl]]. rewrite Hc in Hp. inversion Hp; subst wp.
      inversion Hac; subst P'. cbn [app] in *. cbn [read_std]. rewrite Hl.
      unfold advance. cbn [tl]. rewrite <- Hlen.
      rewrite (read_params_written T W AG F B args wps rest Hps Hargs Hcl (stop_nodigit T _ Hst)).
      * reflexivity.
      * simpl in HF. lia.
    + cbn [wf_pred] in Hpw. apply andb_true_iff in Hpw. destruct Hpw as [Hi Ha].
      apply Nat.leb_le in Hi. destruct (ag_pred _ _ AG i Hi) as [c [Hc Hl]].
      unfold wcoords in Hp. rewrite Hc in Hp. destruct (wsub W sub) as [ws|] eqn:Es; [|discriminate].
      cbn in Hp. inversion Hp; subst wp. cbn [app] in *. rewrite <- app_assoc in *.
      cbn [read_std]. rewrite Hl.
      rewrite (read_coords_written T W AG c sub ws (wps ++ rest) F Es Hnd HF). cbn [bind2].
      assert (HF2 : length (wps ++ rest) < F) by (simpl in HF; rewrite app_length in HF; lia).
      destruct (slookup P (i, sub)) as [a'|] eqn:El.
      * destruct (a' =? a) eqn:Ea; [|discriminate]. apply Nat.eqb_eq in Ea. inversion Hac; subst.
        rewrite (read_params_written T W AG F B args wps rest Hps Hargs Hcl (stop_nodigit T _ Hst) HF2).
        reflexivity.
      * destruct (auto_preds C); [|discriminate]. inversion Hac; subst P'.
        rewrite (read_params_auto_written T W AG F B args wps rest F Hps Hargs Hcl Hst HF2 HF2).
        cbn [bind2]. rewrite Hlen.
        apply Nat.leb_le in Ha. apply Nat.leb_le in Hi.
        replace (a =? 0) with false by (symmetry; apply Nat.eqb_neq; lia).
        rewrite Hi. cbn [negb orb]. rewrite Hfz. reflexivity.
  - (* Pred, infix *)
    apply andb_true_iff in Hwf. destruct Hwf as [Hwf Hlen]. apply andb_true_iff in Hwf.
    destruct Hwf as [Hpw Hargs]. apply Nat.eqb_eq in Hlen. cbn [length] in Hlen.
    cbn [forallb] in Hargs, Hcl. apply andb_true_iff in Hargs. apply andb_true_iff in Hcl.
    destruct Hargs as [Hwa Hwr]. destruct Hcl as [Hca Hcr].
    pose proof (wparams_nodigit C W AG rest0 wps rest Hps Hwr (stop_nodigit T _ Hst)) as Hnd.
    destruct (wpred_spec p wp Hp Hpw) as [c1 [ws [Hwp [_ Hcase]]]]. subst wp.
    destruct (wparam_spec T W AG _ _ Ha Hwa) as [c0 [ws0 [sub0 [Hwa0 [Hs0 Hc0]]]]].
    assert (Hnd1 : nodigit T ((c1 :: ws) ++ wps ++ rest) = true).
    { cbn [app]. apply nodigit_head.
      - intros d. destruct Hcase as [[q [_ [_ Hl]]]|[i [sub [ar [_ [_ Hl]]]]]]; rewrite Hl; discriminate.
      - unfold nonws. destruct Hcase as [[q [_ [_ Hl]]]|[i [sub [ar [_ [_ Hl]]]]]]; rewrite Hl; discriminate. }
    assert (Hch1 : chomp T ((c1 :: ws) ++ wps ++ rest) = (c1 :: ws) ++ wps ++ rest).
    { cbn [app]. apply chomp_nonws. unfold nonws.
      destruct Hcase as [[q [_ [_ Hl]]]|[i [sub [ar [_ [_ Hl]]]]]]; rewrite Hl; discriminate. }
    rewrite <- !app_assoc in *.
    assert (Hrp : read_parameter T F B (wa ++ (c1 :: ws) ++ wps ++ rest) = (OK a, (c1 :: ws) ++ wps ++ rest)).
    { rewrite (read_parameter_written T W AG a wa ((c1 :: ws) ++ wps ++ rest) F B Ha Hwa Hca Hnd1 HF).
      rewrite Hch1. reflexivity. }
    assert (Hbody : forall Y : param -> str -> res sent * str * store,
      bind2 (read_parameter T F B (wa ++ (c1 :: ws) ++ wps ++ rest)) P Y = Y a ((c1 :: ws) ++ wps ++ rest)).
    { intros Y. rewrite Hrp. reflexivity. }
    assert (Hlen1 : length (c1 :: ws ++ wps ++ rest) < F).
    { rewrite app_length in HF. cbn [app] in HF. lia. }
    assert (Hgoal : read_std C F (S k) B (wa ++ (c1 :: ws) ++ wps ++ rest) P =
              (OK (Pred p (a :: rest0)), chomp T rest, P')).
    { subst wa. cbn [app read_std].
      assert (Hsame : forall Z1 Z2 : res sent * str * store,
         Z1 = Z2 -> (match tlookup T c0 with Some (IConst _) | Some (IVar _) => Z1 | _ => Z2 end) = Z1).
      { intros Z1 Z2 ->. destruct (tlookup T c0) as [[]|]; reflexivity. }
      destruct Hc0 as [[i0 [_ Hl0]]|[i0 [_ Hl0]]]; rewrite Hl0;
      change (c0 :: ws0 ++ (c1 :: ws) ++ wps ++ rest) with ((c0 :: ws0) ++ (c1 :: ws) ++ wps ++ rest);
      rewrite Hbody; cbn [app];
      (destruct Hcase as [[q [-> [-> Hl]]]|[i [sub [ar [-> [Hs Hl]]]]]]; rewrite Hl;
       [ cbn [pred_arity] in *; cbn [app] in *;
         replace (sys_arity q <? 2) with false by (symmetry; apply Nat.ltb_ge; lia);
         unfold advance; cbn [tl];
         replace (sys_arity q - 1) with (length rest0) by lia;
         rewrite (read_params_written T W AG F B rest0 wps rest Hps Hwr Hcr (stop_nodigit T _ Hst))
           by (cbn in Hlen1; lia);
         inversion Hac; reflexivity
       | cbn [pred_arity wf_pred] in *;
         apply andb_true_iff in Hpw; destruct Hpw as [Hi Har1];
         rewrite (read_coords_written T W AG c1 sub ws (wps ++ rest) F Hs Hnd Hlen1); cbn [bind2];
         assert (HF2 : length (wps ++ rest) < F) by (cbn in Hlen1; rewrite app_length in Hlen1; lia);
         destruct (slookup P (i, sub)) as [a'|] eqn:El;
         [ destruct (a' =? ar) eqn:Ea; [|discriminate]; apply Nat.eqb_eq in Ea; subst a';
           replace (ar <? 2) with false by (symmetry; apply Nat.ltb_ge; lia);
           replace (ar - 1) with (length rest0) by lia;
           rewrite (read_params_written T W AG F B rest0 wps rest Hps Hwr Hcr (stop_nodigit T _ Hst) HF2);
           inversion Hac; reflexivity
         | destruct (auto_preds C); [|discriminate];
           rewrite (read_params_auto_written T W AG F B rest0 wps rest F Hps Hwr Hcr Hst HF2 HF2); cbn [bind2];
           rewrite Hlen;
           replace (ar <? 2) with false by (symmetry; apply Nat.ltb_ge; lia);
           rewrite Hi; cbn [negb orb]; rewrite Hfz; inversion Hac; reflexivity ] ]). }
    exact Hgoal.
  - (* Quant *)
    apply andb_true_iff in Hwf. destruct Hwf as [Hi Hwb]. cbn [fst] in Hi.
    apply andb_true_iff in Hnv. destruct Hnv as [Hocc Hnvb].
    apply andb_true_iff in Hnr. destruct Hnr as [Hnb Hnrb]. apply negb_true_iff in Hnb.
    destruct (ag_quant _ _ AG q) as [c [Hc Hl]]. rewrite Hc in Hq. inversion Hq; subst wq.
    pose proof Hi as Hi'. apply Nat.leb_le in Hi'.
    destruct (ag_var _ _ AG i Hi') as [cv [Hcv Hlv]].
    unfold wcoords in Hv. rewrite Hcv in Hv. destruct (wsub W sub) as [ws|] eqn:Es; [|discriminate].
    cbn in Hv. inversion Hv; subst wv. cbn [app] in *. rewrite <- app_assoc in *.
    destruct (rs_facts b wb rest Hb Hwb) as [Hch Hlb].
    destruct (rs_head b wb Hb Hwb) as [cb [wb' [itb [Hwb' [Hlb' Hsb']]]]].
    assert (Hndb : nodigit T (wb ++ rest) = true).
    { subst wb. cbn [app]. apply nodigit_head.
      - intros d. rewrite Hlb'. destruct itb; cbn in Hsb'; try contradiction; discriminate.
      - unfold nonws. rewrite Hlb'. destruct itb; cbn in Hsb'; try contradiction; discriminate. }
    cbn [read_std]. rewrite Hl. unfold advance. cbn [tl].
    rewrite chomp_nonws by (unfold nonws; rewrite Hlv; discriminate).
    rewrite Hlv.
    rewrite (read_coords_written T W AG cv sub ws (wb ++ rest) F Es Hndb) by (cbn [length] in HF |- *; lia).
    cbn [bind2]. unfold mk_var. rewrite Hi. rewrite Hnb. rewrite Hch.
    rewrite (IH k ((i, sub) :: B) P P' rest Hwb Hcl Hnvb Hnrb Hac Hst).
    + cbn [bind3]. rewrite Hocc. reflexivity.
    + simpl in Hk. rewrite app_length in Hk. lia.
    + simpl in HF. rewrite app_length in HF. lia.
  - (* Un *)
    destruct (ag_uop _ _ AG o) as [c [Hc Hl]]. rewrite Hc in Ho. inversion Ho; subst wo. cbn [app] in *.
    destruct (rs_facts a wa rest Ha Hwf) as [Hch Hla].
    cbn [read_std]. rewrite Hl. unfold advance. cbn [tl]. rewrite Hch.
    rewrite (IH k B P P' rest Hwf Hcl Hnv Hnr Hac Hst).
    + reflexivity.
    + simpl in Hk. lia.
    + simpl in HF. lia.
  - (* Bin *)
    apply andb_true_iff in Hwf. destruct Hwf as [Hwa Hwb].
    apply andb_true_iff in Hcl. destruct Hcl as [Hca Hcb].
    apply andb_true_iff in Hnv. destruct Hnv as [Hna Hnb].
    apply andb_true_iff in Hnr. destruct Hnr as [Hra Hrb].
    destruct (acs (auto_preds C) P a) as [P1|] eqn:Eac; [|discriminate].
    destruct (ag_bop _ _ AG o) as [c [Hc Hl]]. rewrite Hc in Ho. inversion Ho; subst wo.
    cbn [app] in *. rewrite <- !app_assoc in *. cbn [app] in *. rewrite <- ?app_assoc in *. cbn [app] in *.
    destruct (rs_facts a wa (c :: wb ++ pc :: rest) Ha Hwa) as [Hcha Hla].
    destruct (rs_facts b wb (pc :: rest) Hb Hwb) as [Hchb Hlb].
    assert (Hso : stop_ok T (c :: wb ++ pc :: rest) = true) by (eapply stop_ok_head; [exact Hl | exact I]).
    assert (Hsc : stop_ok T (pc :: rest) = true) by (eapply stop_ok_head; [exact Hpc | exact I]).
    assert (Hchc : chomp T (c :: wb ++ pc :: rest) = c :: wb ++ pc :: rest)
      by (apply chomp_nonws; unfold nonws; rewrite Hl; discriminate).
    assert (Hchp : chomp T (pc :: rest) = pc :: rest)
      by (apply chomp_nonws; unfold nonws; rewrite Hpc; discriminate).
    cbn [read_std]. rewrite Hpo. cbn [tl].
    rewrite (scan_over a wa Ha Hwa (c :: wb ++ pc :: rest) 1 None (le_n 1)).
    cbn [scan]. rewrite Hl. cbn [Nat.eqb].
    rewrite (scan_over b wb Hb Hwb (pc :: rest) 1 _ (le_n 1)).
    cbn [scan]. rewrite Hpc.
    unfold advance. cbn [tl]. rewrite Hcha.
    rewrite (IHa k B P P1 (c :: wb ++ pc :: rest) Hwa Hca Hna Hra Eac Hso).
    + cbn [bind3]. rewrite Hchc. rewrite Hchc. rewrite Nat.eqb_refl. cbn [tl]. rewrite Hchb.
      rewrite (IHb k B P1 P' (pc :: rest) Hwb Hcb Hnb Hrb Hac Hsc).
      * cbn [bind3]. rewrite Hchp. rewrite Hchp. rewrite Hpc. cbn [tl]. reflexivity.
      * simpl in Hk. rewrite app_length in Hk. cbn [length] in Hk. lia.
      * simpl in HF. rewrite app_length in HF. cbn [length] in HF. lia.
    + simpl in Hk. lia.
    + simpl in HF. lia.
Qed.


Lemma acs_declares : forall s auto P P1, acs auto P s = Some P1 ->
  ext P P1 /\ forall d, In d (upreds s) -> slookup P1 (decl_key d) = Some (decl_arity d).
Proof.
  induction s as [i sub|p args|q v b IH|o a IH|o a IHa b IHb]; intros auto P P1 H; cbn [acs upreds] in *.
  - inversion H; subst. split; [apply ext_refl | intros d []].
  - destruct p as [q|i sub a].
    + inversion H; subst. split; [apply ext_refl | intros d []].
    + destruct (slookup P (i, sub)) as [a'|] eqn:El.
      * destruct (a' =? a) eqn:Ea; [|discriminate]. apply Nat.eqb_eq in Ea. inversion H; subst.
        split; [apply ext_refl|]. intros d [<-|[]]. exact El.
      * destruct auto; [|discriminate]. inversion H; subst.
        split; [apply ext_app|]. intros d [<-|[]]. apply slookup_snoc. exact El.
  - eapply IH; eauto.
  - eapply IH; eauto.
  - destruct (acs auto P a) as [Pm|] eqn:Ea; [|discriminate].
    destruct (IHa _ _ _ Ea) as [X1 D1]. destruct (IHb _ _ _ H) as [X2 D2].
    split; [eapply ext_trans; eauto|]. intros d Hd. apply in_app_or in Hd. destruct Hd as [Hd|Hd].
    + apply X2. apply D1. exact Hd.
    + apply D2. exact Hd.
Qed.

Lemma acs_idem s auto P P1 : acs auto P s = Some P1 -> acs auto P1 s = Some P1.
Proof. intros H. apply acs_declared. apply (acs_declares s auto P P1 H). Qed.

Variable O : sopts.
Hypothesis HOo : popen O = po.
Hypothesis HOc : pclose O = pc.
Hypothesis HOd : drop_parens O = true.

Lemma parse_once_rs s w P P' : Rs W po pc s w ->
  wf_items s = true -> closed s = true -> nonvacuous s = true -> norebind s = true ->
  acs (auto_preds C) P s = Some P' ->
  parse_std_once C P w = (OK s, P').
Proof.
  intros H Hwf Hcl Hnv Hnr Hac. unfold parse_std_once, finish.
  destruct (rs_facts s w [] H Hwf) as [Hch _]. rewrite app_nil_r in Hch. rewrite Hch.
  pose proof (read_std_written (S (length w)) s w H (S (length w)) [] P P' [] Hwf Hcl Hnv Hnr Hac eq_refl) as R.
  rewrite app_nil_r in R. rewrite R by lia. reflexivity.
Qed.

(* C12, standard notation: every whitespace-free well-formed infix rendering denotes its sentence *)
Theorem std_denotes : forall s w P P', Rtop W po pc s w ->
  wf_items s = true -> closed s = true -> nonvacuous s = true -> norebind s = true ->
  acs (auto_preds C) P s = Some P' ->
  parse_std_opts C O P w = (OK s, P').
Proof.
  intros s w P P' H Hwf Hcl Hnv Hnr Hac. unfold parse_std_opts.
  destruct H as [s w H|o a b wo wa wb Ho Ha Hb].
  - rewrite (parse_once_rs s w P P' H Hwf Hcl Hnv Hnr Hac). reflexivity.
  - unfold closed, norebind in *. cbn [wf_items closed_in nonvacuous norebind_in acs] in *.
    apply andb_true_iff in Hwf. destruct Hwf as [Hwa Hwb].
    apply andb_true_iff in Hcl. destruct Hcl as [Hca Hcb].
    apply andb_true_iff in Hnv. destruct Hnv as [Hna Hnb].
    apply andb_true_iff in Hnr. destruct Hnr as [Hra Hrb].
    destruct (acs (auto_preds C) P a) as [P1|] eqn:Eac; [|discriminate].
    destruct (ag_bop _ _ AG o) as [c [Hc Hl]]. pose proof Ho as Ho'. rewrite Hc in Ho'. inversion Ho'; subst wo.
    (* first attempt: reads a, stops at the operator, input not consumed *)
    assert (E1 : parse_std_once C P (wa ++ [c] ++ wb) = (PErr PEParse, P1)).
    { unfold parse_std_once, finish.
      destruct (rs_facts a wa ([c] ++ wb) Ha Hwa) as [Hch _]. rewrite Hch.
      assert (Hso : stop_ok T ([c] ++ wb) = true) by (eapply stop_ok_head; [exact Hl | exact I]).
      rewrite (read_std_written (S (length (wa ++ [c] ++ wb))) a wa Ha (S (length (wa ++ [c] ++ wb))) [] P P1
                 ([c] ++ wb) Hwa Hca Hna Hra Eac Hso) by lia.
      cbn [app]. rewrite chomp_nonws by (unfold nonws; rewrite Hl; discriminate).
      rewrite chomp_nonws by (unfold nonws; rewrite Hl; discriminate). reflexivity. }
    rewrite E1. rewrite HOd, HOo, HOc.
    assert (E2 : parse_std_once C P1 (po :: (wa ++ [c] ++ wb) ++ [pc]) = (OK (Bin o a b), P')).
    { replace (po :: (wa ++ [c] ++ wb) ++ [pc]) with (po :: wa ++ [c] ++ wb ++ [pc])
        by (rewrite <- !app_assoc; reflexivity).
      apply parse_once_rs.
      - apply Rs_bin; assumption.
      - cbn [wf_items]. rewrite Hwa, Hwb. reflexivity.
      - unfold closed. cbn [closed_in]. rewrite Hca, Hcb. reflexivity.
      - cbn [nonvacuous]. rewrite Hna, Hnb. reflexivity.
      - unfold norebind. cbn [norebind_in]. rewrite Hra, Hrb. reflexivity.
      - cbn [acs]. rewrite (acs_idem a _ P P1 Eac). exact Hac. }
    rewrite E2. reflexivity.
Qed.

End Den.

(* ... and so does every string obtained from such a rendering by inserting whitespace anywhere *)
Theorem std_denotes_ws : forall C W O, table_ok (tab C) = true -> agree (tab C) W -> frozen C = false ->
  tlookup (tab C) (popen O) = Some IParenOpen -> tlookup (tab C) (pclose O) = Some IParenClose ->
  drop_parens O = true ->
  forall s w d P P', Rtop W (popen O) (pclose O) s w -> strip (tab C) d = w ->
  wf_items s = true -> closed s = true -> nonvacuous s = true -> norebind s = true ->
  acs (auto_preds C) P s = Some P' ->
  parse_std_opts C O P d = (OK s, P').
Proof.
  intros C W O Tok AG Hfz Hpo Hpc Hd s w d P P' HR Hs Hwf Hcl Hnv Hnr Hac.
  rewrite (parse_std_ws C Tok (or_introl Hfz) O P d).
  - rewrite Hs. eapply std_denotes; eauto.
  - unfold is_ws. rewrite Hpo. reflexivity.
  - unfold is_ws. rewrite Hpc. reflexivity.
Qed.

(* in terms of the language predicate: sentences that are closed, non-vacuous, re-bind nothing and
   are arity-consistent; with the sentence's predicates declared, or auto-declared from nothing *)
Theorem std_denotes_lang : forall T W O, table_ok T = true -> agree_b T W = true ->
  tlookup T (popen O) = Some IParenOpen -> tlookup T (pclose O) = Some IParenClose ->
  drop_parens O = true ->
  forall s w d, roundtrippable s = true -> Rtop W (popen O) (pclose O) s w -> strip T d = w ->
  parse_std_opts (cfg_of T false) O (decls s) d = (OK s, decls s) /\
  parse_std_opts (cfg_of T true) O [] d = (OK s, decls s).
Proof.
  intros T W O Tok Hag Hpo Hpc Hd s w d Hrt HR Hs. apply agree_b_sound in Hag.
  unfold roundtrippable in Hrt. rewrite !andb_true_iff in Hrt.
  destruct Hrt as [[[[Hwf Hcl] Hnv] Hnr] Hac]. apply consistent_decls_cons in Hac.
  split.
  - apply (std_denotes_ws (cfg_of T false) W O Tok Hag eq_refl Hpo Hpc Hd s w d (decls s) (decls s) HR Hs Hwf Hcl Hnv Hnr).
    apply acs_declared. apply decls_declares. exact Hac.
  - apply (std_denotes_ws (cfg_of T true) W O Tok Hag eq_refl Hpo Hpc Hd s w d [] (decls s) HR Hs Hwf Hcl Hnv Hnr).
    cbn [auto_preds cfg_of]. apply acs_auto; [|exact Hac]. intros d0 _ a H. discriminate.
Qed.
