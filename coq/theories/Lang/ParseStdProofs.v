(* ParseStdProofs — C13 for the standard-notation parser model. *)
From Coq Require Import List Bool Arith NArith Lia.
From PT Require Import Lang.PSyntax Lang.ParsePolish Lang.ParsePolishProofs Lang.ParseStd.
Import ListNotations.

Lemma scan_noo T : forall r d f, noo (scan T r d f).
Proof.
  induction r as [|c r IH]; intros d f; cbn [scan]; [exact I|].
  destruct (tlookup T c) as [[]|]; try apply IH.
  - destruct (d =? 1); [destruct f; [exact I | apply IH] | apply IH].
  - destruct d as [|[|d]]; [exact I | exact I | apply IH].
Qed.

Lemma advance_len_gen T r : length (advance T r) <= length r.
Proof.
  unfold advance. destruct r as [|c r]; cbn [tl]; [cbn; lia|].
  pose proof (chomp_len T r). cbn [length]. lia.
Qed.

Ltac dif := match goal with |- context [if ?b then _ else _] => destruct b eqn:? end.
Ltac fin := cbn; repeat split; auto; try lia; try discriminate.

Section Cfg.
Variable C : cfg.
Hypothesis Tok : table_ok (tab C) = true.
Hypothesis Hfz : frozen C = false \/ auto_preds C = false.
Local Notation T := (tab C).

Lemma read_std_ok F : forall k B r P, length r < k -> length r < F ->
  noo (o_res (read_std C F k B r P)) /\
  length (o_rem (read_std C F k B r P)) <= length r /\
  (forall s, o_res (read_std C F k B r P) = OK s -> length (o_rem (read_std C F k B r P)) < length r).
Proof.
  induction k as [|k IH]; intros B r P Hk Hl; [lia|].
  cbn [read_std]. destruct r as [|c r]; [fin|].
  pose proof (advance_len T c r) as Ha.
  destruct (tlookup T c) as [it|] eqn:E; [|fin].
  pose proof (tlookup_ok T Tok _ _ E) as Hit.
  destruct it; try (fin; fail).
  - (* unary *)
    destruct (IH B (advance T (c :: r)) P) as [H1 [H2 H3]]; [cbn in Hk; lia | cbn in Hl; lia |].
    destruct (read_std C F k B (advance T (c :: r)) P) as [[[a|e|e] r1] P1]; cbn in *; fin.
  - (* quantifier *)
    destruct (advance T (c :: r)) as [|c1 r1] eqn:Er1; [fin|].
    destruct (tlookup T c1) as [it1|] eqn:E1; [|cbn in *; fin].
    pose proof (tlookup_ok T Tok _ _ E1) as Hit1.
    destruct it1; try (cbn in *; fin; fail).
    destruct (read_coords_ok T F c1 r1) as [G1 G2]; [cbn in *; lia|].
    destruct (read_coords T F (c1 :: r1)) as [[s|e|e] r2]; cbn in *; try (fin; fail).
    unfold mk_var. rewrite Hit1.
    destruct (vmem (i, s) B); [fin|].
    destruct (IH ((i, s) :: B) r2 P) as [H1 [H2 H3]]; [lia | lia |].
    destruct (read_std C F k ((i, s) :: B) r2 P) as [[[body|e|e] r3] P3]; cbn in *; try (fin; fail).
    destruct (occurs (i, s) body); fin.
  - (* prefix system predicate *)
    destruct (read_params_ok T Tok F B (sys_arity p) (advance T (c :: r))) as [H1 H2]; [cbn in Hl; lia|].
    destruct (read_params T F B (sys_arity p) (advance T (c :: r))) as [[ps|e|e] r2]; cbn in *; fin.
  - (* infix, variable first *)
    destruct (read_parameter_ok T Tok F B (c :: r) Hl) as [Q1 [Q2 Q3]].
    destruct (read_parameter T F B (c :: r)) as [[lhp|e|e] r1]; cbn [bind2 fst snd] in *; try (fin; fail).
    specialize (Q3 lhp eq_refl).
    destruct r1 as [|c1 r1]; [fin|].
    destruct (tlookup T c1) as [it1|] eqn:E1; [|cbn in *; fin].
    destruct it1; try (cbn in *; fin; fail).
    + pose proof (advance_len T c1 r1) as Ha1.
      dif; [cbn in *; fin|].
      destruct (read_params_ok T Tok F B (sys_arity p - 1) (advance T (c1 :: r1))) as [H1 H2]; [cbn in *; lia|].
      destruct (read_params T F B (sys_arity p - 1) (advance T (c1 :: r1))) as [[ps|e|e] r3]; cbn in *; fin.
    + destruct (read_coords_ok T F c1 r1) as [G1 G2]; [cbn in *; lia|].
      destruct (read_coords T F (c1 :: r1)) as [[s|e|e] r2]; cbn in *; try (fin; fail).
      destruct (slookup P (i0, s)) as [a|].
      * dif; [fin|].
        destruct (read_params_ok T Tok F B (a - 1) r2) as [H1 H2]; [lia|].
        destruct (read_params T F B (a - 1) r2) as [[ps|e|e] r3]; cbn in *; fin.
      * destruct (auto_preds C) eqn:Ea; [|fin].
        destruct (read_params_auto_ok T Tok F B F r2) as [H1 H2]; [lia | lia |].
        destruct (read_params_auto T F F B r2) as [[ps|e|e] r3]; cbn in *; try (fin; fail).
        dif; [fin|].
        destruct Hfz as [Hf|Hf]; [|congruence]. rewrite Hf. fin.
  - (* infix, constant first *)
    destruct (read_parameter_ok T Tok F B (c :: r) Hl) as [Q1 [Q2 Q3]].
    destruct (read_parameter T F B (c :: r)) as [[lhp|e|e] r1]; cbn [bind2 fst snd] in *; try (fin; fail).
    specialize (Q3 lhp eq_refl).
    destruct r1 as [|c1 r1]; [fin|].
    destruct (tlookup T c1) as [it1|] eqn:E1; [|cbn in *; fin].
    destruct it1; try (cbn in *; fin; fail).
    + pose proof (advance_len T c1 r1) as Ha1.
      dif; [cbn in *; fin|].
      destruct (read_params_ok T Tok F B (sys_arity p - 1) (advance T (c1 :: r1))) as [H1 H2]; [cbn in *; lia|].
      destruct (read_params T F B (sys_arity p - 1) (advance T (c1 :: r1))) as [[ps|e|e] r3]; cbn in *; fin.
    + destruct (read_coords_ok T F c1 r1) as [G1 G2]; [cbn in *; lia|].
      destruct (read_coords T F (c1 :: r1)) as [[s|e|e] r2]; cbn in *; try (fin; fail).
      destruct (slookup P (i0, s)) as [a|].
      * dif; [fin|].
        destruct (read_params_ok T Tok F B (a - 1) r2) as [H1 H2]; [lia|].
        destruct (read_params T F B (a - 1) r2) as [[ps|e|e] r3]; cbn in *; fin.
      * destruct (auto_preds C) eqn:Ea; [|fin].
        destruct (read_params_auto_ok T Tok F B F r2) as [H1 H2]; [lia | lia |].
        destruct (read_params_auto T F F B r2) as [[ps|e|e] r3]; cbn in *; try (fin; fail).
        dif; [fin|].
        destruct Hfz as [Hf|Hf]; [|congruence]. rewrite Hf. fin.
  - (* prefix user predicate *)
    destruct (read_coords_ok T F c r Hl) as [G1 G2].
    destruct (read_coords T F (c :: r)) as [[s|e|e] r1]; cbn in *; try (fin; fail).
    destruct (slookup P (i, s)) as [a|].
    + destruct (read_params_ok T Tok F B a r1) as [H1 H2]; [lia|].
      destruct (read_params T F B a r1) as [[ps|e|e] r2]; cbn in *; fin.
    + destruct (auto_preds C) eqn:Ea; [|fin].
      destruct (read_params_auto_ok T Tok F B F r1) as [H1 H2]; [lia | lia |].
      destruct (read_params_auto T F F B r1) as [[ps|e|e] r2]; cbn in *; try (fin; fail).
      destruct ((length ps =? 0) || negb (i <=? maxi_pred)); [fin|].
      destruct Hfz as [Hf|Hf]; [|congruence]. rewrite Hf. fin.
  - (* atomic *)
    destruct (read_coords_ok T F c r Hl) as [G1 G2].
    destruct (read_coords T F (c :: r)) as [[s|e|e] r1]; cbn in *; try (fin; fail).
    unfold mk_atom. cbn in Hit. rewrite Hit. fin.
  - (* open parenthesis *)
    cbn [tl]. pose proof (scan_noo T r 1 None) as Hs.
    destruct (scan T r 1 None) as [[[o n]|]|e|e]; try (fin; fail); try contradiction.
    destruct (IH B (advance T (c :: r)) P) as [H1 [H2 H3]]; [cbn in Hk; lia | cbn in Hl; lia |].
    destruct (read_std C F k B (advance T (c :: r)) P) as [[[lhs|e|e] r1] P1]; cbn [bind3 o_res o_rem fst snd] in *;
      try (fin; fail).
    pose proof (chomp_len T r1) as Hc1.
    destruct (length (chomp T r1) =? n); [|fin].
    pose proof (advance_len_gen T (chomp T r1)) as Ha1.
    destruct (IH B (advance T (chomp T r1)) P1) as [H4 [H5 H6]]; [cbn in Hk; lia | cbn in Hl; lia |].
    destruct (read_std C F k B (advance T (chomp T r1)) P1) as [[[rhs|e|e] r2] P2];
      cbn [bind3 o_res o_rem fst snd] in *; try (fin; fail).
    pose proof (chomp_len T r2) as Hc2.
    destruct (chomp T r2) as [|c2 r2'] eqn:E2; [fin|].
    pose proof (advance_len T c2 r2') as Ha2.
    destruct (tlookup T c2) as [[]|]; cbn [o_res o_rem fst snd length] in *; repeat split; auto; try lia; try discriminate.
Qed.

Lemma parse_std_once_noo : forall P i, noo (fst (parse_std_once C P i)).
Proof.
  intros P i. unfold parse_std_once, finish.
  pose proof (chomp_len T i) as Hc.
  destruct (read_std_ok (S (length i)) (S (length i)) [] (chomp T i) P) as [H1 _]; [lia | lia |].
  destruct (read_std C (S (length i)) (S (length i)) [] (chomp T i) P) as [[v r] P'].
  cbn in *. destruct (chomp T r); [exact H1 | exact I].
Qed.

(* C13 for standard notation: ParseError (or a sentence), never anything else; terminates *)
Theorem parse_std_never_other : forall O P i k, fst (parse_std_opts C O P i) <> OErr k.
Proof.
  intros O P i k. unfold parse_std_opts.
  pose proof (parse_std_once_noo P i) as H1.
  destruct (parse_std_once C P i) as [[s|e|e] P1]; cbn in *; try discriminate; try contradiction.
  destruct (drop_parens O); [|discriminate].
  pose proof (parse_std_once_noo P1 (popen O :: i ++ [pclose O])) as H2.
  destruct (parse_std_once C P1 (popen O :: i ++ [pclose O])) as [[s|e2|e2] P2]; cbn in *;
    try discriminate; contradiction.
Qed.

End Cfg.

(* ------------------------------------------------------------------------ *)
Section Wf.
Variable C : cfg.
Hypothesis Tok : table_ok (tab C) = true.
Local Notation T := (tab C).

Lemma store_ok_snoc P i s a : store_ok P = true -> (i <=? maxi_pred) = true -> 1 <= a ->
  store_ok (P ++ [(i, s, a)]) = true.
Proof.
  intros HP Hi Ha. rewrite store_ok_app, HP. unfold store_ok, decl_arity. cbn [forallb fst snd andb].
  rewrite Hi. apply Nat.leb_le in Ha. rewrite Ha. reflexivity.
Qed.

Lemma wf_infix_sys B P p lhp ps :
  (sys_arity p <? 2) = false -> wf_param lhp = true -> pvars_ok B lhp = true ->
  forallb wf_param ps = true -> forallb (pvars_ok B) ps = true -> length ps = sys_arity p - 1 ->
  wf_in B P (Pred (PSys p) (lhp :: ps)).
Proof.
  intros Ha W1 W2 A1 A2 A3. apply Nat.ltb_ge in Ha.
  unfold wf_in. cbn [wf_items wf_pred closed_in nonvacuous norebind_in pred_arity forallb length].
  rewrite W1, W2, A1, A2, A3.
  replace (S (sys_arity p - 1) =? sys_arity p) with true by (symmetry; apply Nat.eqb_eq; lia).
  repeat split; auto.
Qed.

Lemma wf_infix_user B P i s a lhp ps :
  slookup P (i, s) = Some a -> (i <=? maxi_pred) = true -> 2 <= a ->
  wf_param lhp = true -> pvars_ok B lhp = true ->
  forallb wf_param ps = true -> forallb (pvars_ok B) ps = true -> S (length ps) = a ->
  wf_in B P (Pred (PUser i s a) (lhp :: ps)).
Proof.
  intros El Hi Ha W1 W2 A1 A2 A3.
  unfold wf_in. cbn [wf_items wf_pred closed_in nonvacuous norebind_in pred_arity forallb length].
  rewrite W1, W2, A1, A2, A3, Hi, Nat.eqb_refl.
  replace (1 <=? a) with true by (symmetry; apply Nat.leb_le; lia).
  repeat split; auto. apply arity_ok_pred. exact El.
Qed.

Lemma read_std_wf F : forall k B r P s r' P',
  store_ok P = true ->
  read_std C F k B r P = (OK s, r', P') ->
  wf_in B P' s /\ store_ok P' = true /\ ext P P'.
Proof.
  induction k as [|k IH]; intros B r P s r' P' HP; cbn [read_std]; [discriminate|].
  destruct r as [|c r]; [discriminate|].
  destruct (tlookup T c) as [it|] eqn:E; [|discriminate].
  pose proof (tlookup_ok T Tok _ _ E) as Hit.
  destruct it; try discriminate.
  - (* unary *)
    destruct (read_std C F k B (advance T (c :: r)) P) as [[[a|e|e] r1] P1] eqn:E1; cbn [bind3]; try discriminate.
    intros H; inversion H; subst.
    destruct (IH _ _ _ _ _ _ HP E1) as [[W1 [W2 [W3 [W4 W5]]]] [S1 X1]].
    split; [|split; [exact S1 | exact X1]].
    unfold wf_in; cbn. repeat split; auto.
  - (* quantifier *)
    destruct (advance T (c :: r)) as [|c1 r1] eqn:Er1; [discriminate|].
    destruct (tlookup T c1) as [it1|] eqn:E1; [|discriminate].
    pose proof (tlookup_ok T Tok _ _ E1) as Hit1.
    destruct it1; try discriminate.
    destruct (read_coords T F (c1 :: r1)) as [[sb|e|e] r2]; cbn [bind2]; try discriminate.
    unfold mk_var. cbn in Hit1. rewrite Hit1.
    destruct (vmem (i, sb) B) eqn:Ev; [discriminate|].
    destruct (read_std C F k ((i, sb) :: B) r2 P) as [[[body|e|e] r3] P3] eqn:E3; cbn [bind3]; try discriminate.
    destruct (occurs (i, sb) body) eqn:Eo; [|discriminate].
    intros H; inversion H; subst.
    destruct (IH _ _ _ _ _ _ HP E3) as [[W1 [W2 [W3 [W4 W5]]]] [S1 X1]].
    split; [|split; [exact S1 | exact X1]].
    unfold wf_in; cbn [wf_items closed_in nonvacuous norebind_in fst].
    split; [rewrite Hit1, W1; reflexivity|].
    split; [exact W2|].
    split; [rewrite Eo, W3; reflexivity|].
    split; [rewrite Ev; cbn; exact W4|].
    exact W5.
  - (* prefix system predicate *)
    destruct (read_params T F B (sys_arity p) (advance T (c :: r))) as [[ps|e|e] r2] eqn:E2;
      cbn [bind2]; try discriminate.
    intros H; inversion H; subst.
    destruct (read_params_wf C Tok _ _ _ _ _ _ E2) as [A1 [A2 A3]].
    split; [|split; [exact HP | apply ext_refl]].
    unfold wf_in; cbn [wf_items wf_pred closed_in nonvacuous norebind_in pred_arity].
    rewrite A1, A2, A3, Nat.eqb_refl. repeat split; auto.
  - (* infix, variable first *)
    destruct (read_parameter T F B (c :: r)) as [[lhp|e|e] r1] eqn:Ep; cbn [bind2]; try discriminate.
    destruct (read_parameter_wf C Tok _ _ _ _ _ Ep) as [Wl1 Wl2].
    destruct r1 as [|c1 r1]; [discriminate|].
    destruct (tlookup T c1) as [it1|] eqn:E1; [|discriminate].
    pose proof (tlookup_ok T Tok _ _ E1) as Hit1.
    destruct it1; try discriminate.
    + destruct (sys_arity p <? 2) eqn:Ea; [discriminate|].
      destruct (read_params T F B (sys_arity p - 1) (advance T (c1 :: r1))) as [[ps|e|e] r3] eqn:E3;
        cbn [bind2]; try discriminate.
      intros H; inversion H; subst.
      destruct (read_params_wf C Tok _ _ _ _ _ _ E3) as [A1 [A2 A3]].
      split; [|split; [exact HP | apply ext_refl]].
      apply wf_infix_sys; auto.
    + destruct (read_coords T F (c1 :: r1)) as [[sb|e|e] r2]; cbn [bind2]; try discriminate.
      destruct (slookup P (i0, sb)) as [a|] eqn:El.
      * destruct (a <? 2) eqn:Ea; [discriminate|]. apply Nat.ltb_ge in Ea.
        destruct (read_params T F B (a - 1) r2) as [[ps|e|e] r3] eqn:E3; cbn [bind2]; try discriminate.
        intros H; inversion H; subst.
        destruct (read_params_wf C Tok _ _ _ _ _ _ E3) as [A1 [A2 A3]].
        destruct (slookup_store_ok _ _ _ HP El) as [K1 K2]. cbn in K1.
        split; [|split; [exact HP | apply ext_refl]].
        apply wf_infix_user; auto. lia.
      * destruct (auto_preds C); [|discriminate].
        destruct (read_params_auto T F F B r2) as [[ps|e|e] r3] eqn:E3; cbn [bind2]; try discriminate.
        destruct ((S (length ps) <? 2) || negb (i0 <=? maxi_pred)) eqn:Eg; [discriminate|].
        destruct (frozen C); [discriminate|].
        intros H; inversion H; subst.
        apply orb_false_iff in Eg. destruct Eg as [G1 G2].
        apply negb_false_iff in G2. apply Nat.ltb_ge in G1.
        destruct (read_params_auto_wf C Tok _ _ _ _ _ _ E3) as [A1 A2].
        split; [|split; [apply store_ok_snoc; auto; lia | apply ext_app]].
        apply wf_infix_user; auto. apply slookup_snoc. exact El.
  - (* infix, constant first *)
    destruct (read_parameter T F B (c :: r)) as [[lhp|e|e] r1] eqn:Ep; cbn [bind2]; try discriminate.
    destruct (read_parameter_wf C Tok _ _ _ _ _ Ep) as [Wl1 Wl2].
    destruct r1 as [|c1 r1]; [discriminate|].
    destruct (tlookup T c1) as [it1|] eqn:E1; [|discriminate].
    pose proof (tlookup_ok T Tok _ _ E1) as Hit1.
    destruct it1; try discriminate.
    + destruct (sys_arity p <? 2) eqn:Ea; [discriminate|].
      destruct (read_params T F B (sys_arity p - 1) (advance T (c1 :: r1))) as [[ps|e|e] r3] eqn:E3;
        cbn [bind2]; try discriminate.
      intros H; inversion H; subst.
      destruct (read_params_wf C Tok _ _ _ _ _ _ E3) as [A1 [A2 A3]].
      split; [|split; [exact HP | apply ext_refl]].
      apply wf_infix_sys; auto.
    + destruct (read_coords T F (c1 :: r1)) as [[sb|e|e] r2]; cbn [bind2]; try discriminate.
      destruct (slookup P (i0, sb)) as [a|] eqn:El.
      * destruct (a <? 2) eqn:Ea; [discriminate|]. apply Nat.ltb_ge in Ea.
        destruct (read_params T F B (a - 1) r2) as [[ps|e|e] r3] eqn:E3; cbn [bind2]; try discriminate.
        intros H; inversion H; subst.
        destruct (read_params_wf C Tok _ _ _ _ _ _ E3) as [A1 [A2 A3]].
        destruct (slookup_store_ok _ _ _ HP El) as [K1 K2]. cbn in K1.
        split; [|split; [exact HP | apply ext_refl]].
        apply wf_infix_user; auto. lia.
      * destruct (auto_preds C); [|discriminate].
        destruct (read_params_auto T F F B r2) as [[ps|e|e] r3] eqn:E3; cbn [bind2]; try discriminate.
        destruct ((S (length ps) <? 2) || negb (i0 <=? maxi_pred)) eqn:Eg; [discriminate|].
        destruct (frozen C); [discriminate|].
        intros H; inversion H; subst.
        apply orb_false_iff in Eg. destruct Eg as [G1 G2].
        apply negb_false_iff in G2. apply Nat.ltb_ge in G1.
        destruct (read_params_auto_wf C Tok _ _ _ _ _ _ E3) as [A1 A2].
        split; [|split; [apply store_ok_snoc; auto; lia | apply ext_app]].
        apply wf_infix_user; auto. apply slookup_snoc. exact El.
  - (* prefix user predicate *)
    destruct (read_coords T F (c :: r)) as [[sb|e|e] r1]; cbn [bind2]; try discriminate.
    destruct (slookup P (i, sb)) as [a|] eqn:El.
    + destruct (read_params T F B a r1) as [[ps|e|e] r2] eqn:E2; cbn [bind2]; try discriminate.
      intros H; inversion H; subst.
      destruct (read_params_wf C Tok _ _ _ _ _ _ E2) as [A1 [A2 A3]].
      destruct (slookup_store_ok _ _ _ HP El) as [K1 K2]. cbn in K1.
      split; [|split; [exact HP | apply ext_refl]].
      unfold wf_in; cbn [wf_items wf_pred closed_in nonvacuous norebind_in pred_arity].
      rewrite A1, A2, A3, K1, K2, Nat.eqb_refl. repeat split; auto.
      apply arity_ok_pred. exact El.
    + destruct (auto_preds C); [|discriminate].
      destruct (read_params_auto T F F B r1) as [[ps|e|e] r2] eqn:E2; cbn [bind2]; try discriminate.
      destruct ((length ps =? 0) || negb (i <=? maxi_pred)) eqn:Eg; [discriminate|].
      destruct (frozen C); [discriminate|].
      intros H; inversion H; subst.
      apply orb_false_iff in Eg. destruct Eg as [G1 G2].
      apply negb_false_iff in G2. apply Nat.eqb_neq in G1.
      destruct (read_params_auto_wf C Tok _ _ _ _ _ _ E2) as [A1 A2].
      assert (K2 : (1 <=? length ps) = true) by (apply Nat.leb_le; lia).
      split; [|split; [apply store_ok_snoc; auto; lia | apply ext_app]].
      unfold wf_in; cbn [wf_items wf_pred closed_in nonvacuous norebind_in pred_arity].
      rewrite A1, A2, G2, K2, Nat.eqb_refl. repeat split; auto.
      apply arity_ok_pred. apply slookup_snoc. exact El.
  - (* atomic *)
    destruct (read_coords T F (c :: r)) as [[sb|e|e] r1]; cbn [bind2]; try discriminate.
    unfold mk_atom. cbn in Hit. rewrite Hit.
    intros H; inversion H; subst.
    split; [|split; [exact HP | apply ext_refl]].
    unfold wf_in; cbn. rewrite Hit. repeat split; auto.
  - (* open parenthesis *)
    cbn [tl]. destruct (scan T r 1 None) as [[[o n]|]|e|e]; try discriminate.
    destruct (read_std C F k B (advance T (c :: r)) P) as [[[lhs|e|e] r1] P1] eqn:E1; cbn [bind3]; try discriminate.
    destruct (length (chomp T r1) =? n); [|discriminate].
    destruct (read_std C F k B (advance T (chomp T r1)) P1) as [[[rhs|e|e] r2] P2] eqn:E2; cbn [bind3]; try discriminate.
    destruct (chomp T r2) as [|c2 r2']; [discriminate|].
    destruct (tlookup T c2) as [[]|]; try discriminate.
    intros H; inversion H; subst.
    destruct (IH _ _ _ _ _ _ HP E1) as [[W1 [W2 [W3 [W4 W5]]]] [S1 X1]].
    destruct (IH _ _ _ _ _ _ S1 E2) as [[V1 [V2 [V3 [V4 V5]]]] [S2 X2]].
    split; [|split; [exact S2 | eapply ext_trans; eauto]].
    unfold wf_in; cbn. rewrite W1, W2, W3, W4, V1, V2, V3, V4. repeat split; auto.
    unfold arity_ok in *. cbn. rewrite forallb_app. rewrite V5. rewrite andb_true_r.
    apply (arity_ok_ext P1 P' lhs X2 W5).
Qed.

(* whatever the outcome, the store stays well formed *)
Lemma read_std_store_ok F : forall k B r P, store_ok P = true -> store_ok (o_sto (read_std C F k B r P)) = true.
Proof.
  induction k as [|k IH]; intros B r P HP; cbn [read_std]; [exact HP|].
  destruct r as [|c r]; [exact HP|].
  destruct (tlookup T c) as [[]|]; try exact HP.
  - pose proof (IH B (advance T (c :: r)) P HP) as HX.
    destruct (read_std C F k B (advance T (c :: r)) P) as [[[a|e|e] r1] P1]; cbn in *; exact HX.
  - destruct (advance T (c :: r)) as [|c1 r1]; [exact HP|].
    destruct (tlookup T c1) as [[]|]; try exact HP.
    destruct (read_coords T F (c1 :: r1)) as [[sb|e|e] r2]; cbn [bind2]; try exact HP.
    destruct (mk_var i sb); try exact HP.
    destruct (vmem (i, sb) B); [exact HP|].
    pose proof (IH ((i, sb) :: B) r2 P HP) as HX.
    destruct (read_std C F k ((i, sb) :: B) r2 P) as [[[body|e|e] r3] P3]; cbn in *; try exact HX.
    destruct (occurs (i, sb) body); cbn; exact HX.
  - destruct (read_params T F B (sys_arity p) (advance T (c :: r))) as [[ps|e|e] r2]; exact HP.
  - destruct (read_parameter T F B (c :: r)) as [[lhp|e|e] r1]; cbn [bind2]; try exact HP.
    destruct r1 as [|c1 r1]; [exact HP|].
    destruct (tlookup T c1) as [[]|]; try exact HP.
    + destruct (sys_arity p <? 2); [exact HP|].
      destruct (read_params T F B (sys_arity p - 1) (advance T (c1 :: r1))) as [[ps|e|e] r3]; exact HP.
    + destruct (read_coords T F (c1 :: r1)) as [[sb|e|e] r2]; cbn [bind2]; try exact HP.
      destruct (slookup P (i0, sb)).
      * destruct (n <? 2); [exact HP|].
        destruct (read_params T F B (n - 1) r2) as [[ps|e|e] r3]; exact HP.
      * destruct (auto_preds C); [|exact HP].
        destruct (read_params_auto T F F B r2) as [[ps|e|e] r3]; cbn [bind2]; try exact HP.
        destruct ((S (length ps) <? 2) || negb (i0 <=? maxi_pred)) eqn:Eg; [exact HP|].
        destruct (frozen C); [exact HP|].
        apply orb_false_iff in Eg. destruct Eg as [_ G2]. apply negb_false_iff in G2.
        cbn. apply store_ok_snoc; auto. lia.
  - destruct (read_parameter T F B (c :: r)) as [[lhp|e|e] r1]; cbn [bind2]; try exact HP.
    destruct r1 as [|c1 r1]; [exact HP|].
    destruct (tlookup T c1) as [[]|]; try exact HP.
    + destruct (sys_arity p <? 2); [exact HP|].
      destruct (read_params T F B (sys_arity p - 1) (advance T (c1 :: r1))) as [[ps|e|e] r3]; exact HP.
    + destruct (read_coords T F (c1 :: r1)) as [[sb|e|e] r2]; cbn [bind2]; try exact HP.
      destruct (slookup P (i0, sb)).
      * destruct (n <? 2); [exact HP|].
        destruct (read_params T F B (n - 1) r2) as [[ps|e|e] r3]; exact HP.
      * destruct (auto_preds C); [|exact HP].
        destruct (read_params_auto T F F B r2) as [[ps|e|e] r3]; cbn [bind2]; try exact HP.
        destruct ((S (length ps) <? 2) || negb (i0 <=? maxi_pred)) eqn:Eg; [exact HP|].
        destruct (frozen C); [exact HP|].
        apply orb_false_iff in Eg. destruct Eg as [_ G2]. apply negb_false_iff in G2.
        cbn. apply store_ok_snoc; auto. lia.
  - destruct (read_coords T F (c :: r)) as [[sb|e|e] r1]; cbn [bind2]; try exact HP.
    destruct (slookup P (i, sb)).
    + destruct (read_params T F B n r1) as [[ps|e|e] r2]; exact HP.
    + destruct (auto_preds C); [|exact HP].
      destruct (read_params_auto T F F B r1) as [[ps|e|e] r2]; cbn [bind2]; try exact HP.
      destruct ((length ps =? 0) || negb (i <=? maxi_pred)) eqn:Eg; [exact HP|].
      destruct (frozen C); [exact HP|].
      apply orb_false_iff in Eg. destruct Eg as [G1 G2]. apply negb_false_iff in G2.
      apply Nat.eqb_neq in G1. cbn. apply store_ok_snoc; auto. lia.
  - destruct (read_coords T F (c :: r)) as [[sb|e|e] r1]; cbn [bind2]; try exact HP.
  - cbn [tl]. destruct (scan T r 1 None) as [[[o n]|]|e|e]; try exact HP.
    pose proof (IH B (advance T (c :: r)) P HP) as HX.
    destruct (read_std C F k B (advance T (c :: r)) P) as [[[lhs|e|e] r1] P1]; cbn [bind3 o_sto snd] in *; try exact HX.
    destruct (length (chomp T r1) =? n); [|exact HX].
    pose proof (IH B (advance T (chomp T r1)) P1 HX) as HY.
    destruct (read_std C F k B (advance T (chomp T r1)) P1) as [[[rhs|e|e] r2] P2]; cbn [bind3 o_sto snd] in *; try exact HY.
    destruct (chomp T r2) as [|c2 r2']; [exact HY|].
    destruct (tlookup T c2) as [[]|]; exact HY.
Qed.

Lemma parse_std_once_wf P i s P' : store_ok P = true ->
  parse_std_once C P i = (OK s, P') ->
  wf_items s = true /\ closed s = true /\ nonvacuous s = true /\ norebind s = true /\ arity_ok P' s = true.
Proof.
  intros HP. unfold parse_std_once, finish.
  destruct (read_std C (S (length i)) (S (length i)) [] (chomp T i) P) as [[v r] P1] eqn:E.
  destruct (chomp T r); [|discriminate].
  intros H; inversion H; subst.
  destruct (read_std_wf _ _ _ _ _ _ _ _ HP E) as [W _]. exact W.
Qed.

Lemma parse_std_once_store_ok P i : store_ok P = true -> store_ok (snd (parse_std_once C P i)) = true.
Proof.
  intros HP. unfold parse_std_once, finish.
  pose proof (read_std_store_ok (S (length i)) (S (length i)) [] (chomp T i) P HP) as H.
  destruct (read_std C (S (length i)) (S (length i)) [] (chomp T i) P) as [[v r] P1]. exact H.
Qed.

Theorem parse_std_wf : forall O P i s P', store_ok P = true ->
  parse_std_opts C O P i = (OK s, P') ->
  wf_items s = true /\ closed s = true /\ nonvacuous s = true /\ norebind s = true /\ arity_ok P' s = true.
Proof.
  intros O P i s P' HP. unfold parse_std_opts.
  pose proof (parse_std_once_store_ok P i HP) as HP1.
  destruct (parse_std_once C P i) as [[s1|e|e] P1] eqn:E1.
  - intros H; inversion H; subst. eapply parse_std_once_wf; [exact HP | exact E1].
  - destruct (drop_parens O); [|discriminate].
    destruct (parse_std_once C P1 (popen O :: i ++ [pclose O])) as [[s2|e2|e2] P2] eqn:E2; try discriminate.
    intros H; inversion H; subst. cbn in HP1. eapply parse_std_once_wf; [exact HP1 | exact E2].
  - discriminate.
Qed.

End Wf.

(* the standard parser instance as a state machine over its store *)
Theorem parse_std_pure : forall C O P hist i,
  run_history_std_opts C O P (hist ++ [i]) =
  (fst (run_history_std_opts C O P hist) ++ [fst (parse_std_opts C O (snd (run_history_std_opts C O P hist)) i)],
   snd (parse_std_opts C O (snd (run_history_std_opts C O P hist)) i)).
Proof.
  intros C O P hist. revert P.
  induction hist as [|h hist IH]; intros P i; cbn [run_history_std_opts app].
  - cbn [fst snd app]. destruct (parse_std_opts C O P i) as [v P1]. reflexivity.
  - destruct (parse_std_opts C O P h) as [v P1].
    rewrite IH.
    destruct (run_history_std_opts C O P1 hist) as [vs P2]. cbn [fst snd app].
    destruct (parse_std_opts C O P2 i) as [w P3]. reflexivity.
Qed.
