(* WhitespaceStd — the standard parser ignores whitespace characters entirely. *)
From Coq Require Import List Bool Arith NArith Lia.
From PT Require Import Lang.PSyntax Lang.ParsePolish Lang.ParsePolishProofs Lang.ParseStd
     Lang.ParseStdProofs Lang.Whitespace.
Import ListNotations.

Definition suffix (a b : str) : Prop := exists p, b = p ++ a.

Lemma suffix_refl a : suffix a a. Proof. exists []. reflexivity. Qed.
Lemma suffix_trans a b c : suffix a b -> suffix b c -> suffix a c.
Proof. intros [p ->] [q ->]. exists (q ++ p). rewrite app_assoc. reflexivity. Qed.
Lemma suffix_cons a c b : suffix a b -> suffix a (c :: b).
Proof. intros [p ->]. exists (c :: p). reflexivity. Qed.
Lemma suffix_tl b : suffix (tl b) b.
Proof. destruct b as [|c b]; [apply suffix_refl | apply suffix_cons, suffix_refl]. Qed.
Lemma suffix_len a b : suffix a b -> length a <= length b.
Proof. intros [p ->]. rewrite app_length. lia. Qed.

Lemma suffix_same_len a b X : suffix a X -> suffix b X -> length a = length b -> a = b.
Proof.
  intros [p ->] [q H] L.
  assert (length p = length q).
  { apply (f_equal (@length N)) in H. rewrite !app_length in H. lia. }
  revert q H H0. induction p as [|x p IH]; intros [|y q] H H0; cbn in *; try lia; auto.
  inversion H. eapply IH; eauto.
Qed.

(* of two suffixes of the same string, the shorter is a suffix of the longer *)
Lemma suffix_total a b X : suffix a X -> suffix b X -> length a <= length b -> suffix a b.
Proof.
  intros [p ->] [q H] L. revert q H. induction p as [|x p IH]; intros q H.
  - cbn in H. subst. destruct q as [|y q]; [apply suffix_refl|].
    cbn in L. rewrite app_length in L. lia.
  - destruct q as [|y q].
    + cbn in H. subst b. exists (x :: p). reflexivity.
    + cbn in H. inversion H. eapply IH; eassumption.
Qed.

Section S.
Variable T : ptable.

Lemma suffix_chomp r : suffix (chomp T r) r.
Proof.
  induction r as [|c r IH]; [apply suffix_refl|].
  cbn [chomp]. destruct (tlookup T c) as [[]|]; try apply suffix_refl.
  apply suffix_cons, IH.
Qed.

Lemma suffix_advance r : suffix (advance T r) r.
Proof. unfold advance. eapply suffix_trans; [apply suffix_chomp | apply suffix_tl]. Qed.

Lemma read_sub_suffix : forall k acc r, suffix (snd (read_sub T k acc r)) r.
Proof.
  induction k as [|k IH]; intros acc r; cbn [read_sub]; [apply suffix_refl|].
  destruct r as [|c r]; [apply suffix_refl|].
  destruct (tlookup T c) as [[]|]; try apply suffix_refl.
  eapply suffix_trans; [apply IH | apply suffix_advance].
Qed.

Lemma read_coords_suffix F r : suffix (snd (read_coords T F r)) r.
Proof. unfold read_coords. eapply suffix_trans; [apply read_sub_suffix | apply suffix_advance]. Qed.

Lemma read_parameter_suffix F B r : suffix (snd (read_parameter T F B r)) r.
Proof.
  unfold read_parameter. destruct r as [|c r]; [apply suffix_refl|].
  destruct (tlookup T c) as [[]|]; try apply suffix_refl.
  - pose proof (read_coords_suffix F (c :: r)) as H.
    destruct (read_coords T F (c :: r)) as [[s|e|e] r1]; cbn [bind1 snd] in *; auto.
    destruct (mk_var i s); auto. destruct (vmem (i, s) B); auto.
  - pose proof (read_coords_suffix F (c :: r)) as H.
    destruct (read_coords T F (c :: r)) as [[s|e|e] r1]; cbn [bind1 snd] in *; auto.
Qed.

Lemma read_params_suffix F B : forall n r, suffix (snd (read_params T F B n r)) r.
Proof.
  induction n as [|n IH]; intros r; cbn [read_params]; [apply suffix_refl|].
  pose proof (read_parameter_suffix F B r) as H.
  destruct (read_parameter T F B r) as [[p|e|e] r1]; cbn [bind1 snd] in *; auto.
  pose proof (IH r1) as H2.
  destruct (read_params T F B n r1) as [[ps|e|e] r2]; cbn [bind1 snd] in *; eapply suffix_trans; eauto.
Qed.

Lemma read_params_auto_suffix F B : forall k r, suffix (snd (read_params_auto T F k B r)) r.
Proof.
  induction k as [|k IH]; intros r; cbn [read_params_auto]; [apply suffix_refl|].
  destruct r as [|c r]; [apply suffix_refl|].
  assert (Hstep : suffix (snd (bind1 (read_parameter T F B (c :: r)) (fun p r1 =>
              bind1 (read_params_auto T F k B r1) (fun ps r2 => (OK (p :: ps), r2))))) (c :: r)).
  { pose proof (read_parameter_suffix F B (c :: r)) as H.
    destruct (read_parameter T F B (c :: r)) as [[p|e|e] r1]; cbn [bind1 snd] in *; auto.
    pose proof (IH r1) as H2.
    destruct (read_params_auto T F k B r1) as [[ps|e|e] r2]; cbn [bind1 snd] in *; eapply suffix_trans; eauto. }
  destruct (tlookup T c) as [[]|]; try exact Hstep; apply suffix_refl.
Qed.

End S.

Lemma read_std_suffix C F : forall k B r P, suffix (o_rem (read_std C F k B r P)) r.
Proof.
  induction k as [|k IH]; intros B r P; cbn [read_std]; [apply suffix_refl|].
  destruct r as [|c r]; [apply suffix_refl|].
  pose proof (suffix_advance (tab C) (c :: r)) as Sa.
  destruct (tlookup (tab C) c) as [[]|]; try apply suffix_refl.
  - pose proof (IH B (advance (tab C) (c :: r)) P) as H.
    destruct (read_std C F k B (advance (tab C) (c :: r)) P) as [[[a|e|e] r1] P1]; cbn in *; eapply suffix_trans; eauto.
  - destruct (advance (tab C) (c :: r)) as [|c1 r1] eqn:Ea; [cbn; exact Sa|].
    destruct (tlookup (tab C) c1) as [[]|]; try (cbn; exact Sa).
    pose proof (read_coords_suffix (tab C) F (c1 :: r1)) as H.
    destruct (read_coords (tab C) F (c1 :: r1)) as [[s|e|e] r2]; cbn [bind2 snd] in *;
      try (cbn; eapply suffix_trans; eauto; fail).
    destruct (mk_var i s); try (cbn; eapply suffix_trans; eauto; fail).
    destruct (vmem (i, s) B); [cbn; eapply suffix_trans; eauto|].
    pose proof (IH ((i, s) :: B) r2 P) as H2.
    destruct (read_std C F k ((i, s) :: B) r2 P) as [[[body|e|e] r3] P3]; cbn in *;
      try (eapply suffix_trans; [eauto | eapply suffix_trans; eauto]; fail).
    destruct (occurs (i, s) body); cbn; (eapply suffix_trans; [eauto | eapply suffix_trans; eauto]).
  - pose proof (read_params_suffix (tab C) F B (sys_arity p) (advance (tab C) (c :: r))) as H.
    destruct (read_params (tab C) F B (sys_arity p) (advance (tab C) (c :: r))) as [[ps|e|e] r2]; cbn in *;
      eapply suffix_trans; eauto.
  - pose proof (read_parameter_suffix (tab C) F B (c :: r)) as H.
    destruct (read_parameter (tab C) F B (c :: r)) as [[lhp|e|e] r1]; cbn [bind2 snd] in *; try (cbn; exact H).
    destruct r1 as [|c1 r1]; [cbn; exact H|].
    pose proof (suffix_advance (tab C) (c1 :: r1)) as Sa1.
    destruct (tlookup (tab C) c1) as [[]|]; try (cbn; exact H).
    + destruct (sys_arity p <? 2); [cbn; eapply suffix_trans; eauto|].
      pose proof (read_params_suffix (tab C) F B (sys_arity p - 1) (advance (tab C) (c1 :: r1))) as H2.
      destruct (read_params (tab C) F B (sys_arity p - 1) (advance (tab C) (c1 :: r1))) as [[ps|e|e] r3]; cbn in *;
        (eapply suffix_trans; [eauto | eapply suffix_trans; eauto]).
    + pose proof (read_coords_suffix (tab C) F (c1 :: r1)) as H2.
      destruct (read_coords (tab C) F (c1 :: r1)) as [[s|e|e] r2]; cbn [bind2 snd] in *;
        try (cbn; eapply suffix_trans; eauto; fail).
      destruct (slookup P (i0, s)).
      * destruct (n <? 2); [cbn; eapply suffix_trans; eauto|].
        pose proof (read_params_suffix (tab C) F B (n - 1) r2) as H3.
        destruct (read_params (tab C) F B (n - 1) r2) as [[ps|e|e] r3]; cbn in *;
          (eapply suffix_trans; [eauto | eapply suffix_trans; eauto]).
      * destruct (auto_preds C); [|cbn; eapply suffix_trans; eauto].
        pose proof (read_params_auto_suffix (tab C) F B F r2) as H3.
        destruct (read_params_auto (tab C) F F B r2) as [[ps|e|e] r3]; cbn [bind2 snd] in *;
          try (cbn; eapply suffix_trans; [eauto | eapply suffix_trans; eauto]; fail).
        destruct ((S (length ps) <? 2) || negb (i0 <=? maxi_pred));
          [cbn; eapply suffix_trans; [eauto | eapply suffix_trans; eauto]|].
        destruct (frozen C); cbn; (eapply suffix_trans; [eauto | eapply suffix_trans; eauto]).
  - pose proof (read_parameter_suffix (tab C) F B (c :: r)) as H.
    destruct (read_parameter (tab C) F B (c :: r)) as [[lhp|e|e] r1]; cbn [bind2 snd] in *; try (cbn; exact H).
    destruct r1 as [|c1 r1]; [cbn; exact H|].
    pose proof (suffix_advance (tab C) (c1 :: r1)) as Sa1.
    destruct (tlookup (tab C) c1) as [[]|]; try (cbn; exact H).
    + destruct (sys_arity p <? 2); [cbn; eapply suffix_trans; eauto|].
      pose proof (read_params_suffix (tab C) F B (sys_arity p - 1) (advance (tab C) (c1 :: r1))) as H2.
      destruct (read_params (tab C) F B (sys_arity p - 1) (advance (tab C) (c1 :: r1))) as [[ps|e|e] r3]; cbn in *;
        (eapply suffix_trans; [eauto | eapply suffix_trans; eauto]).
    + pose proof (read_coords_suffix (tab C) F (c1 :: r1)) as H2.
      destruct (read_coords (tab C) F (c1 :: r1)) as [[s|e|e] r2]; cbn [bind2 snd] in *;
        try (cbn; eapply suffix_trans; eauto; fail).
      destruct (slookup P (i0, s)).
      * destruct (n <? 2); [cbn; eapply suffix_trans; eauto|].
        pose proof (read_params_suffix (tab C) F B (n - 1) r2) as H3.
        destruct (read_params (tab C) F B (n - 1) r2) as [[ps|e|e] r3]; cbn in *;
          (eapply suffix_trans; [eauto | eapply suffix_trans; eauto]).
      * destruct (auto_preds C); [|cbn; eapply suffix_trans; eauto].
        pose proof (read_params_auto_suffix (tab C) F B F r2) as H3.
        destruct (read_params_auto (tab C) F F B r2) as [[ps|e|e] r3]; cbn [bind2 snd] in *;
          try (cbn; eapply suffix_trans; [eauto | eapply suffix_trans; eauto]; fail).
        destruct ((S (length ps) <? 2) || negb (i0 <=? maxi_pred));
          [cbn; eapply suffix_trans; [eauto | eapply suffix_trans; eauto]|].
        destruct (frozen C); cbn; (eapply suffix_trans; [eauto | eapply suffix_trans; eauto]).
  - pose proof (read_coords_suffix (tab C) F (c :: r)) as H.
    destruct (read_coords (tab C) F (c :: r)) as [[s|e|e] r1]; cbn [bind2 snd] in *; try (cbn; exact H).
    destruct (slookup P (i, s)).
    + pose proof (read_params_suffix (tab C) F B n r1) as H2.
      destruct (read_params (tab C) F B n r1) as [[ps|e|e] r2]; cbn in *; eapply suffix_trans; eauto.
    + destruct (auto_preds C); [|cbn; exact H].
      pose proof (read_params_auto_suffix (tab C) F B F r1) as H2.
      destruct (read_params_auto (tab C) F F B r1) as [[ps|e|e] r2]; cbn [bind2 snd] in *;
        try (cbn; eapply suffix_trans; eauto; fail).
      destruct ((length ps =? 0) || negb (i <=? maxi_pred)); [cbn; eapply suffix_trans; eauto|].
      destruct (frozen C); cbn; eapply suffix_trans; eauto.
  - pose proof (read_coords_suffix (tab C) F (c :: r)) as H.
    destruct (read_coords (tab C) F (c :: r)) as [[s|e|e] r1]; cbn [bind2 snd] in *; try (cbn; exact H).
  - cbn [tl]. destruct (scan (tab C) r 1 None) as [[[o n]|]|e|e]; try apply suffix_refl.
    pose proof (IH B (advance (tab C) (c :: r)) P) as H1.
    destruct (read_std C F k B (advance (tab C) (c :: r)) P) as [[[lhs|e|e] r1] P1]; cbn [bind3 o_rem fst snd] in *;
      try (eapply suffix_trans; eauto; fail).
    pose proof (suffix_chomp (tab C) r1) as Sc1.
    assert (S1 : suffix (chomp (tab C) r1) (c :: r)) by (eapply suffix_trans; [eauto | eapply suffix_trans; eauto]).
    destruct (length (chomp (tab C) r1) =? n); [|exact S1].
    pose proof (IH B (advance (tab C) (chomp (tab C) r1)) P1) as H2.
    pose proof (suffix_advance (tab C) (chomp (tab C) r1)) as Sa2.
    destruct (read_std C F k B (advance (tab C) (chomp (tab C) r1)) P1) as [[[rhs|e|e] r2] P2]; cbn [bind3 o_rem fst snd] in *;
      try (eapply suffix_trans; [eauto | eapply suffix_trans; eauto]; fail).
    pose proof (suffix_chomp (tab C) r2) as Sc2.
    assert (S2 : suffix (chomp (tab C) r2) (c :: r)).
    { eapply suffix_trans; [eauto|]. eapply suffix_trans; [eauto|]. eapply suffix_trans; eauto. }
    destruct (chomp (tab C) r2) as [|c2 r2'] eqn:E2; [exact S2|].
    destruct (tlookup (tab C) c2) as [[]|]; try exact S2.
    cbn [o_rem fst snd]. eapply suffix_trans; [apply suffix_advance | exact S2].
Qed.

(* ---- the scan-ahead, recording the suffix itself ------------------------------------ *)

Fixpoint scanp (T : ptable) (r : str) (depth : nat) (found : option (bop * str))
  : res (option (bop * str)) :=
  match r with
  | [] => PErr PEParse
  | c :: r' =>
    match tlookup T c with
    | Some IParenClose =>
        match depth with
        | 0 => OK found
        | 1 => OK found
        | S d => scanp T r' d found
        end
    | Some IParenOpen => scanp T r' (S depth) found
    | Some (IOper2 o) =>
        if depth =? 1 then
          match found with
          | Some _ => PErr PEParse
          | None => scanp T r' depth (Some (o, r))
          end
        else scanp T r' depth found
    | _ => scanp T r' depth found
    end
  end.

Definition fmap {A B} (f : A -> B) (x : option (bop * A)) : option (bop * B) :=
  match x with Some (o, a) => Some (o, f a) | None => None end.

Definition rmap {A B} (f : A -> B) (x : res A) : res B :=
  match x with OK a => OK (f a) | PErr e => PErr e | OErr e => OErr e end.

Lemma scan_scanp T : forall r d f, scan T r d (fmap (@length N) f) = rmap (fmap (@length N)) (scanp T r d f).
Proof.
  induction r as [|c r IH]; intros d f; cbn [scan scanp]; [reflexivity|].
  destruct (tlookup T c) as [[]|]; try apply IH.
  - destruct (d =? 1); [|apply IH]. destruct f as [[o9 s9]|]; [reflexivity|]. apply (IH d (Some (o, c :: r))).
  - destruct d as [|[|d]]; try reflexivity. apply IH.
Qed.

Lemma scanp_strip T : forall r d f,
  scanp T (strip T r) d (fmap (strip T) f) = rmap (fmap (strip T)) (scanp T r d f).
Proof.
  induction r as [|c r IH]; intros d f; [reflexivity|].
  cbn [strip filter]. destruct (is_ws T c) eqn:Ew; cbn [negb].
  - unfold is_ws in Ew. cbn [scanp]. destruct (tlookup T c) as [[]|]; try discriminate. apply IH.
  - assert (Hs : strip T (c :: r) = c :: strip T r) by (cbn [strip filter]; rewrite Ew; reflexivity).
    cbn [scanp]. fold (strip T r).
    destruct (tlookup T c) as [[]|]; try apply IH.
    + destruct (d =? 1); [|apply IH]. destruct f as [[o9 s9]|]; [reflexivity|].
      rewrite <- Hs. apply (IH d (Some (o, c :: r))).
    + destruct d as [|[|d]]; try reflexivity. apply IH.
Qed.

(* what scanp finds is a suffix of the scanned string and starts with a non-whitespace char *)
Definition good_found T (X : str) (f : option (bop * str)) : Prop :=
  match f with
  | Some (_, s) => suffix s X /\ exists c s', s = c :: s' /\ is_ws T c = false
  | None => True
  end.

Lemma scanp_good T X : forall r d f, suffix r X -> good_found T X f ->
  forall g, scanp T r d f = OK g -> good_found T X g.
Proof.
  induction r as [|c r IH]; intros d f Sr Gf g; cbn [scanp]; [discriminate|].
  assert (Sr' : suffix r X) by (eapply suffix_trans; [apply (suffix_tl (c :: r)) | exact Sr]).
  destruct (tlookup T c) as [it|] eqn:E; [|apply IH; auto].
  destruct it; try (apply IH; auto; fail).
  - destruct (d =? 1); [|apply IH; auto]. destruct f as [[o0 s]|]; [discriminate|].
    apply IH; auto. cbn. split; [exact Sr|]. exists c, r. split; [reflexivity|].
    unfold is_ws. rewrite E. reflexivity.
  - destruct d as [|[|d]]; try (intros H; inversion H; subst; exact Gf). apply IH; auto.
Qed.

(* position comparison = comparison after stripping *)
Lemma len_eq_strip T X s1 s2 : suffix s1 X -> suffix s2 X -> chomped T s1 ->
  (exists c s', s2 = c :: s' /\ is_ws T c = false) ->
  (length s1 =? length s2) = (length (strip T s1) =? length (strip T s2)).
Proof.
  intros S1 S2 C1 [c [s' [-> Hc]]].
  destruct (length s1 =? length (c :: s')) eqn:E.
  - apply Nat.eqb_eq in E. rewrite (suffix_same_len _ _ _ S1 S2 E). symmetry. apply Nat.eqb_refl.
  - symmetry. apply Nat.eqb_neq. apply Nat.eqb_neq in E. intros L. apply E. clear E.
    assert (Hstrip_nil : forall p, strip T p = [] -> forall x q, p = x :: q -> is_ws T x = true).
    { intros p Hp x q ->. cbn [strip filter] in Hp. destruct (is_ws T x); [reflexivity | discriminate]. }
    destruct (Nat.le_ge_cases (length s1) (length (c :: s'))) as [Hle|Hge].
    + destruct (suffix_total _ _ _ S1 S2 Hle) as [p Hp].
      destruct p as [|x p]; [cbn in Hp; rewrite Hp; reflexivity|].
      exfalso. cbn in Hp. inversion Hp; subst x.
      assert (strip T (c :: p) = []).
      { rewrite H1 in L. change (c :: p ++ s1) with ((c :: p) ++ s1) in L.
        unfold strip in L. rewrite filter_app, app_length in L.
        destruct (filter (fun c0 => negb (is_ws T c0)) (c :: p)) eqn:Ef; [exact Ef|]. cbn in L. lia. }
      pose proof (Hstrip_nil _ H c p eq_refl). congruence.
    + destruct (suffix_total _ _ _ S2 S1 Hge) as [p Hp].
      destruct p as [|x p]; [cbn in Hp; rewrite Hp; reflexivity|].
      exfalso. subst s1.
      assert (strip T (x :: p) = []).
      { unfold strip in L. rewrite filter_app, app_length in L.
        destruct (filter (fun c0 => negb (is_ws T c0)) (x :: p)) eqn:Ef; [exact Ef|]. cbn in L. lia. }
      pose proof (Hstrip_nil _ H x p eq_refl) as Hx.
      destruct (chomped_cons T x (p ++ c :: s') C1) as [Hx' _]. congruence.
Qed.

Section WsStd.
Variable C : cfg.
Hypothesis Tok : table_ok (tab C) = true.
Hypothesis Hfz : frozen C = false \/ auto_preds C = false.
Local Notation T := (tab C).

Ltac sm := unfold smap3; cbn [o_res o_rem o_sto fst snd bind2 bind3].

Lemma chomped_id r : chomped T r -> chomp T r = r. Proof. intros H; exact H. Qed.

Lemma read_std_strip F F' : forall k k' B X P, chomped T X ->
  length X < k -> length X < F -> length (strip T X) < k' -> length (strip T X) < F' ->
  read_std C F' k' B (strip T X) P = smap3 C (read_std C F k B X P) /\
  chomped T (o_rem (read_std C F k B X P)).
Proof.
  induction k as [|k IH]; intros k' B X P HX Hk HF Hk' HF'; [lia|].
  destruct k' as [|k']; [lia|].
  destruct X as [|c X]; [cbn; auto|].
  destruct (chomped_cons T c X HX) as [Hw Hs].
  rewrite Hs. cbn [read_std].
  pose proof (advance_len T c X) as La.
  pose proof (advance_strip T c X) as Has.
  assert (La' : length (strip T (advance T (c :: X))) <= length (strip T X)).
  { rewrite <- Has. apply advance_len. }
  assert (Lk : length (strip T X) < k') by (rewrite Hs in Hk'; cbn in Hk'; lia).
  assert (LF : S (length (strip T X)) < F') by (rewrite Hs in HF'; cbn in HF'; lia).
  cbn [length] in Hk, HF.
  destruct (tlookup T c) as [it|] eqn:E; [|sm; rewrite ?Hs; auto].
  destruct it; try (sm; rewrite ?Hs; auto; fail).
  - (* unary *)
    rewrite Has.
    destruct (IH k' B (advance T (c :: X)) P (chomped_advance T _)) as [H1 H2]; try lia.
    rewrite H1. unfold smap3.
    destruct (read_std C F k B (advance T (c :: X)) P) as [[[a|e|e] r1] P1]; cbn in *; auto.
  - (* quantifier *)
    rewrite Has.
    pose proof (chomped_advance T (c :: X)) as Hca.
    destruct (advance T (c :: X)) as [|c1 X1] eqn:Ea; [sm; auto|].
    destruct (chomped_cons T c1 X1 Hca) as [Hw1 Hs1]. rewrite Hs1.
    destruct (tlookup T c1) as [it1|] eqn:E1; [|sm; rewrite ?Hs1; auto].
    destruct it1; try (sm; rewrite ?Hs1; auto; fail).
    rewrite <- Hs1.
    destruct (read_coords_strip T F F' c1 X1 Hca) as [H1 H2]; [cbn in *; lia | cbn in *; lia |].
    rewrite H1.
    destruct (read_coords_ok T F c1 X1) as [_ L1]; [cbn in *; lia|].
    destruct (read_coords_ok T F' c1 (strip T X1)) as [_ L2]; [rewrite Hs1 in La'; cbn in *; lia|].
    rewrite <- Hs1 in L2. rewrite H1 in L2. cbn [snd] in L2.
    destruct (read_coords T F (c1 :: X1)) as [[s|e|e] r2]; cbn [bind2 fst snd] in *;
      try (sm; auto; fail).
    destruct (mk_var i s); try (sm; auto; fail).
    destruct (vmem (i, s) B); [sm; auto|].
    assert (Lx : length (strip T X1) <= length (strip T X)) by (rewrite Hs1 in La'; cbn in La'; lia).
    destruct (IH k' ((i, s) :: B) r2 P H2) as [H3 H4]; try (cbn in *; lia).
    rewrite H3. unfold smap3.
    destruct (read_std C F k ((i, s) :: B) r2 P) as [[[body|e|e] r3] P3]; cbn in *; auto.
    destruct (occurs (i, s) body); cbn; auto.
  - (* prefix system predicate *)
    rewrite Has.
    destruct (read_params_strip T Tok F F' B (sys_arity p) (advance T (c :: X)) (chomped_advance T _)) as [H1 H2]; try lia.
    rewrite H1. unfold smap3.
    destruct (read_params T F B (sys_arity p) (advance T (c :: X))) as [[ps|e|e] r2]; cbn in *; auto.
  - (* infix, variable first *)
    rewrite <- Hs.
    destruct (read_parameter_strip T F F' B (c :: X) HX) as [Q1 Q2]; [cbn; lia | rewrite Hs; cbn; lia |].
    rewrite Q1.
    destruct (read_parameter_ok T Tok F B (c :: X)) as [_ [L1 L1']]; [cbn; lia|].
    destruct (read_parameter_ok T Tok F' B (strip T (c :: X))) as [_ [L2 L2']]; [rewrite Hs; cbn; lia|].
    rewrite Q1 in L2, L2'. cbn [fst snd] in L2, L2'. rewrite Hs in L2, L2'. cbn [length] in L1, L1', L2, L2'.
    destruct (read_parameter T F B (c :: X)) as [[lhp|e|e] r1]; cbn [bind2 fst snd] in *; try (sm; auto; fail).
    specialize (L1' lhp eq_refl). specialize (L2' lhp eq_refl).
    destruct r1 as [|c1 X1]; [sm; auto|].
    destruct (chomped_cons T c1 X1 Q2) as [Hw1 Hs1]. rewrite Hs1.
    pose proof (advance_strip T c1 X1) as Has1.
    pose proof (advance_len T c1 X1) as La1.
    pose proof (advance_len T c1 (strip T X1)) as La1'.
    rewrite Hs1 in L2, L2'. cbn [length] in L1, L1', L2, L2'.
    destruct (tlookup T c1) as [it1|] eqn:E1; [|sm; rewrite ?Hs1; auto].
    destruct it1; try (sm; rewrite ?Hs1; auto; fail).
    + rewrite Has1.
      destruct (sys_arity p <? 2); [sm; auto using chomped_advance|].
      destruct (read_params_strip T Tok F F' B (sys_arity p - 1) (advance T (c1 :: X1)) (chomped_advance T _)) as [H1 H2];
        try lia; [rewrite <- Has1; lia|].
      rewrite H1. unfold smap3.
      destruct (read_params T F B (sys_arity p - 1) (advance T (c1 :: X1))) as [[ps|e|e] r3]; cbn in *; auto.
    + rewrite <- Hs1.
      destruct (read_coords_strip T F F' c1 X1 Q2) as [H1 H2]; [cbn; lia | rewrite Hs1; cbn; lia |].
      rewrite H1.
      destruct (read_coords_ok T F c1 X1) as [_ M1]; [cbn; lia|].
      destruct (read_coords_ok T F' c1 (strip T X1)) as [_ M2]; [cbn; lia|].
      rewrite <- Hs1 in M2. rewrite H1 in M2. cbn [snd] in M2.
      destruct (read_coords T F (c1 :: X1)) as [[s|e|e] r2]; cbn [bind2 fst snd] in *; try (sm; auto; fail).
      destruct (slookup P (i0, s)) as [a|].
      * destruct (a <? 2); [sm; auto|].
        destruct (read_params_strip T Tok F F' B (a - 1) r2 H2) as [H3 H4]; try lia.
        rewrite H3. unfold smap3.
        destruct (read_params T F B (a - 1) r2) as [[ps|e|e] r3]; cbn in *; auto.
      * destruct (auto_preds C); [|sm; auto].
        destruct (read_params_auto_strip T Tok F F' B F F' r2 H2) as [H3 H4]; try lia.
        rewrite H3. unfold smap3.
        destruct (read_params_auto T F F B r2) as [[ps|e|e] r3]; cbn [bind2 fst snd o_res o_rem o_sto] in *; auto.
        destruct ((S (length ps) <? 2) || negb (i0 <=? maxi_pred)); [cbn; auto|].
        destruct (frozen C); cbn; auto.
  - (* infix, constant first *)
    rewrite <- Hs.
    destruct (read_parameter_strip T F F' B (c :: X) HX) as [Q1 Q2]; [cbn; lia | rewrite Hs; cbn; lia |].
    rewrite Q1.
    destruct (read_parameter_ok T Tok F B (c :: X)) as [_ [L1 L1']]; [cbn; lia|].
    destruct (read_parameter_ok T Tok F' B (strip T (c :: X))) as [_ [L2 L2']]; [rewrite Hs; cbn; lia|].
    rewrite Q1 in L2, L2'. cbn [fst snd] in L2, L2'. rewrite Hs in L2, L2'. cbn [length] in L1, L1', L2, L2'.
    destruct (read_parameter T F B (c :: X)) as [[lhp|e|e] r1]; cbn [bind2 fst snd] in *; try (sm; auto; fail).
    specialize (L1' lhp eq_refl). specialize (L2' lhp eq_refl).
    destruct r1 as [|c1 X1]; [sm; auto|].
    destruct (chomped_cons T c1 X1 Q2) as [Hw1 Hs1]. rewrite Hs1.
    pose proof (advance_strip T c1 X1) as Has1.
    pose proof (advance_len T c1 X1) as La1.
    pose proof (advance_len T c1 (strip T X1)) as La1'.
    rewrite Hs1 in L2, L2'. cbn [length] in L1, L1', L2, L2'.
    destruct (tlookup T c1) as [it1|] eqn:E1; [|sm; rewrite ?Hs1; auto].
    destruct it1; try (sm; rewrite ?Hs1; auto; fail).
    + rewrite Has1.
      destruct (sys_arity p <? 2); [sm; auto using chomped_advance|].
      destruct (read_params_strip T Tok F F' B (sys_arity p - 1) (advance T (c1 :: X1)) (chomped_advance T _)) as [H1 H2];
        try lia; [rewrite <- Has1; lia|].
      rewrite H1. unfold smap3.
      destruct (read_params T F B (sys_arity p - 1) (advance T (c1 :: X1))) as [[ps|e|e] r3]; cbn in *; auto.
    + rewrite <- Hs1.
      destruct (read_coords_strip T F F' c1 X1 Q2) as [H1 H2]; [cbn; lia | rewrite Hs1; cbn; lia |].
      rewrite H1.
      destruct (read_coords_ok T F c1 X1) as [_ M1]; [cbn; lia|].
      destruct (read_coords_ok T F' c1 (strip T X1)) as [_ M2]; [cbn; lia|].
      rewrite <- Hs1 in M2. rewrite H1 in M2. cbn [snd] in M2.
      destruct (read_coords T F (c1 :: X1)) as [[s|e|e] r2]; cbn [bind2 fst snd] in *; try (sm; auto; fail).
      destruct (slookup P (i0, s)) as [a|].
      * destruct (a <? 2); [sm; auto|].
        destruct (read_params_strip T Tok F F' B (a - 1) r2 H2) as [H3 H4]; try lia.
        rewrite H3. unfold smap3.
        destruct (read_params T F B (a - 1) r2) as [[ps|e|e] r3]; cbn in *; auto.
      * destruct (auto_preds C); [|sm; auto].
        destruct (read_params_auto_strip T Tok F F' B F F' r2 H2) as [H3 H4]; try lia.
        rewrite H3. unfold smap3.
        destruct (read_params_auto T F F B r2) as [[ps|e|e] r3]; cbn [bind2 fst snd o_res o_rem o_sto] in *; auto.
        destruct ((S (length ps) <? 2) || negb (i0 <=? maxi_pred)); [cbn; auto|].
        destruct (frozen C); cbn; auto.
  - (* prefix user predicate *)
    rewrite <- Hs.
    destruct (read_coords_strip T F F' c X HX) as [H1 H2]; [cbn; lia | rewrite Hs; cbn; lia |].
    rewrite H1.
    destruct (read_coords_ok T F c X) as [_ L1]; [cbn; lia|].
    destruct (read_coords_ok T F' c (strip T X)) as [_ L2]; [cbn; lia|].
    rewrite <- Hs in L2. rewrite H1 in L2. cbn [snd] in L2.
    destruct (read_coords T F (c :: X)) as [[s|e|e] r1]; cbn [bind2 fst snd] in *; try (sm; auto; fail).
    destruct (slookup P (i, s)) as [a|].
    + destruct (read_params_strip T Tok F F' B a r1 H2) as [H3 H4]; try lia.
      rewrite H3. unfold smap3.
      destruct (read_params T F B a r1) as [[ps|e|e] r2]; cbn in *; auto.
    + destruct (auto_preds C); [|sm; auto].
      destruct (read_params_auto_strip T Tok F F' B F F' r1 H2) as [H3 H4]; try lia.
      rewrite H3. unfold smap3.
      destruct (read_params_auto T F F B r1) as [[ps|e|e] r2]; cbn [bind2 fst snd o_res o_rem o_sto] in *; auto.
      destruct ((length ps =? 0) || negb (i <=? maxi_pred)); [cbn; auto|].
      destruct (frozen C); cbn; auto.
  - (* atomic *)
    rewrite <- Hs.
    destruct (read_coords_strip T F F' c X HX) as [H1 H2]; [cbn; lia | rewrite Hs; cbn; lia |].
    rewrite H1. unfold smap3.
    destruct (read_coords T F (c :: X)) as [[s|e|e] r1]; cbn in *; auto.
  - (* open parenthesis *)
    cbn [tl].
    change (@None (bop * nat)) with (fmap (@length N) (@None (bop * str))).
    rewrite !scan_scanp.
    change (@None (bop * str)) with (fmap (strip T) (@None (bop * str))) at 1.
    rewrite scanp_strip.
    pose proof (scanp_good T X X 1 None (suffix_refl X) I) as Gd.
    destruct (scanp T X 1 None) as [[[o sfx]|]|e|e]; cbn [rmap fmap]; try (sm; rewrite ?Hs; auto; fail).
    destruct (Gd _ eq_refl) as [Ssfx Hsfx].
    rewrite Has.
    destruct (IH k' B (advance T (c :: X)) P (chomped_advance T _)) as [H1 H2]; try lia.
    destruct (read_std_ok C Tok Hfz F k B (advance T (c :: X)) P) as [_ [L1 _]]; try lia.
    destruct (read_std_ok C Tok Hfz F' k' B (strip T (advance T (c :: X))) P) as [_ [L2 _]]; try lia.
    pose proof (read_std_suffix C F k B (advance T (c :: X)) P) as Sf.
    rewrite H1 in L2. rewrite H1. unfold smap3 in L2 |- *.
    destruct (read_std C F k B (advance T (c :: X)) P) as [[[lhs|e|e] r1] P1]; cbn [bind3 o_res o_rem o_sto fst snd] in *; auto.
    rewrite (chomp_strip T r1). rewrite (chomped_id r1 H2).
    assert (Sr1 : suffix r1 X).
    { eapply suffix_trans; [exact Sf|]. unfold advance. cbn [tl]. apply suffix_chomp. }
    rewrite <- (len_eq_strip T X r1 sfx Sr1 Ssfx H2 Hsfx).
    destruct (length r1 =? length sfx) eqn:El; [|sm; auto].
    destruct r1 as [|c1 X1].
    { apply Nat.eqb_eq in El. destruct Hsfx as [c0 [s0 [-> _]]]. cbn in El. lia. }
    destruct (chomped_cons T c1 X1 H2) as [Hw1 Hs1]. rewrite Hs1.
    rewrite (advance_strip T c1 X1).
    pose proof (advance_len T c1 X1) as La1.
    pose proof (advance_len T c1 (strip T X1)) as La1'. rewrite (advance_strip T c1 X1) in La1'.
    rewrite Hs1 in L2. cbn [length] in L1, L2.
    destruct (IH k' B (advance T (c1 :: X1)) P1 (chomped_advance T _)) as [H3 H4]; try lia.
    rewrite H3. unfold smap3.
    destruct (read_std C F k B (advance T (c1 :: X1)) P1) as [[[rhs|e|e] r2] P2]; cbn [bind3 o_res o_rem o_sto fst snd] in *; auto.
    rewrite (chomp_strip T r2). rewrite (chomped_id r2 H4).
    destruct r2 as [|c2 X2]; [cbn; auto|].
    destruct (chomped_cons T c2 X2 H4) as [Hw2 Hs2]. rewrite Hs2.
    destruct (tlookup T c2) as [[]|]; cbn [o_res o_rem o_sto fst snd]; rewrite ?Hs2; auto.
    rewrite (advance_strip T c2 X2). split; [reflexivity | apply chomped_advance].
Qed.

Lemma parse_std_once_ws P i : parse_std_once C P i = parse_std_once C P (strip T i).
Proof.
  unfold parse_std_once, finish.
  rewrite (chomp_strip T i).
  pose proof (chomp_len T i) as Lc. pose proof (strip_len T i) as Ls.
  pose proof (strip_len T (chomp T i)) as Ls2. rewrite (strip_chomp T i) in Ls2.
  destruct (read_std_strip (S (length i)) (S (length (strip T i))) (S (length i)) (S (length (strip T i)))
              [] (chomp T i) P (chomped_chomp T i)) as [H1 _]; try lia;
    try (rewrite (strip_chomp T i); lia).
  rewrite (strip_chomp T i) in H1. rewrite H1. unfold smap3.
  destruct (read_std C (S (length i)) (S (length i)) [] (chomp T i) P) as [[v r] P1].
  cbn [o_res o_rem o_sto fst snd]. rewrite (chomp_strip T r).
  destruct (chomp T r) as [|c0 r0] eqn:Ec.
  - apply (chomp_nil_strip T) in Ec. rewrite Ec. reflexivity.
  - destruct (strip T r) eqn:Es; [|reflexivity].
    apply (chomp_nil_strip T) in Es. congruence.
Qed.

Lemma strip_idem i : strip T (strip T i) = strip T i.
Proof.
  induction i as [|c i IH]; [reflexivity|]. cbn [strip filter].
  destruct (is_ws T c) eqn:E; cbn [negb]; [exact IH|]. cbn [filter]. rewrite E. cbn [negb]. f_equal. exact IH.
Qed.

Lemma strip_wrap po pc i : is_ws T po = false -> is_ws T pc = false ->
  strip T (po :: i ++ [pc]) = po :: strip T i ++ [pc].
Proof.
  intros Ho Hc. cbn [strip filter]. rewrite Ho. cbn [negb]. f_equal.
  rewrite filter_app. cbn [filter]. rewrite Hc. reflexivity.
Qed.

(* the standard parser ignores whitespace characters (the parenthesis characters used by
   the drop_parens retry must not themselves be whitespace) *)
Theorem parse_std_ws : forall O P i, is_ws T (popen O) = false -> is_ws T (pclose O) = false ->
  parse_std_opts C O P i = parse_std_opts C O P (strip T i).
Proof.
  intros O P i Ho Hc. unfold parse_std_opts.
  rewrite <- (parse_std_once_ws P i).
  destruct (parse_std_once C P i) as [[s|e|e] P1]; try reflexivity.
  destruct (drop_parens O); [|reflexivity].
  rewrite (parse_std_once_ws P1 (popen O :: i ++ [pclose O])).
  rewrite (parse_std_once_ws P1 (popen O :: strip T i ++ [pclose O])).
  rewrite !strip_wrap by assumption. rewrite strip_idem. reflexivity.
Qed.

End WsStd.
