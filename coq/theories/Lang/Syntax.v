(* Shared sentence syntax of pytableaux (lang/lex.py), for reuse by every
   property.  Light file: datatypes, boolean equality with its specification,
   well-formedness as boolean predicates.  No heavy proofs here.

   Correspondence with the code:
     Constant(i, s) / Variable(i, s)      ~  Const i s / Var i s
     Predicate(i, s, arity)               ~  mkPred i s arity   (index is a Z:
         the two system predicates live at negative index,
         Predicate.System = Existence (-2,0,1), Identity (-1,0,2))
     Atomic(i, s)                         ~  Atom i s
     Predicated(pred, params)             ~  Pred p ps
     Quantified(q, Variable(vi,vs), body) ~  Quant q vi vs body
     Operated(o, (a,))  / (a, b)          ~  Un o a / Bin o a b
   The ten operators are ONE type [oper] whose constructors are in the order of
   the `Operator` enum; `Un`/`Bin` carry any operator and well-formedness
   ([wf_sent]) demands the right arity, which is what the Operated constructor
   enforces (ArityMismatch otherwise).  Quantifiers are [Sem.Values.quant]
   (Existential | Universal, the order of the `Quantifier` enum). *)
From Coq Require Import List Bool ZArith NArith Lia.
From PT Require Import Sem.Values.
Import ListNotations.

Inductive param := Const (i s : N) | Var (i s : N).

Record pred := mkPred { pidx : Z; psub : N; parity : N }.

Definition Identity : pred := mkPred (-1) 0 2.
Definition Existence : pred := mkPred (-2) 0 1.

Inductive oper :=
| OAssertion | ONegation | OConjunction | ODisjunction | OMaterialConditional
| OMaterialBiconditional | OConditional | OBiconditional | OPossibility | ONecessity.

Definition all_opers : list oper :=
  [OAssertion; ONegation; OConjunction; ODisjunction; OMaterialConditional;
   OMaterialBiconditional; OConditional; OBiconditional; OPossibility; ONecessity].
Definition all_quants : list quant := [Existential; Universal].

(* Operator.arity *)
Definition arity (o : oper) : nat :=
  match o with
  | OAssertion | ONegation | OPossibility | ONecessity => 1
  | _ => 2
  end.

(* Bridge to the semantic split used by Sem/Values.v. *)
Inductive oclass := CUn (u : uop) | CBin (b : bop) | CMod (m : mop).
Definition oper_class (o : oper) : oclass :=
  match o with
  | OAssertion => CUn Assertion | ONegation => CUn Negation
  | OConjunction => CBin Conjunction | ODisjunction => CBin Disjunction
  | OMaterialConditional => CBin MaterialConditional
  | OMaterialBiconditional => CBin MaterialBiconditional
  | OConditional => CBin Conditional | OBiconditional => CBin Biconditional
  | OPossibility => CMod Possibility | ONecessity => CMod Necessity
  end.

Inductive sent :=
| Atom (i s : N)
| Pred (p : pred) (ps : list param)
| Quant (q : quant) (vi vs : N) (body : sent)
| Un (o : oper) (a : sent)
| Bin (o : oper) (a b : sent).

(* ---------------------------------------------------------------- equality *)

Definition param_eqb (a b : param) : bool :=
  match a, b with
  | Const i s, Const j t => N.eqb i j && N.eqb s t
  | Var i s, Var j t => N.eqb i j && N.eqb s t
  | _, _ => false
  end.

Definition pred_eqb (a b : pred) : bool :=
  Z.eqb (pidx a) (pidx b) && N.eqb (psub a) (psub b) && N.eqb (parity a) (parity b).

Definition oper_idx (o : oper) : nat :=
  match o with
  | OAssertion => 0 | ONegation => 1 | OConjunction => 2 | ODisjunction => 3
  | OMaterialConditional => 4 | OMaterialBiconditional => 5 | OConditional => 6
  | OBiconditional => 7 | OPossibility => 8 | ONecessity => 9
  end.
Definition oper_eqb (a b : oper) : bool := Nat.eqb (oper_idx a) (oper_idx b).

Fixpoint list_eqb {A} (eqb : A -> A -> bool) (l m : list A) : bool :=
  match l, m with
  | [], [] => true
  | x :: l', y :: m' => eqb x y && list_eqb eqb l' m'
  | _, _ => false
  end.

Fixpoint sent_eqb (a b : sent) : bool :=
  match a, b with
  | Atom i s, Atom j t => N.eqb i j && N.eqb s t
  | Pred p ps, Pred p' ps' => pred_eqb p p' && list_eqb param_eqb ps ps'
  | Quant q vi vs x, Quant q' vi' vs' x' =>
      quant_eqb q q' && N.eqb vi vi' && N.eqb vs vs' && sent_eqb x x'
  | Un o x, Un o' x' => oper_eqb o o' && sent_eqb x x'
  | Bin o x y, Bin o' x' y' => oper_eqb o o' && sent_eqb x x' && sent_eqb y y'
  | _, _ => false
  end.

Lemma param_eqb_eq a b : param_eqb a b = true <-> a = b.
Proof.
  destruct a, b; simpl; split; intro H; try discriminate.
  - apply andb_true_iff in H as [H1 H2]. apply N.eqb_eq in H1, H2. now subst.
  - injection H as -> ->. now rewrite !N.eqb_refl.
  - apply andb_true_iff in H as [H1 H2]. apply N.eqb_eq in H1, H2. now subst.
  - injection H as -> ->. now rewrite !N.eqb_refl.
Qed.

Lemma param_eqb_refl a : param_eqb a a = true.
Proof. now apply param_eqb_eq. Qed.

Lemma pred_eqb_eq a b : pred_eqb a b = true <-> a = b.
Proof.
  destruct a as [i s n], b as [j t m]; unfold pred_eqb; cbn [pidx psub parity]; split; intro H.
  - apply andb_true_iff in H as [H H3]. apply andb_true_iff in H as [H1 H2].
    apply Z.eqb_eq in H1. apply N.eqb_eq in H2, H3. now subst.
  - injection H as -> -> ->. now rewrite Z.eqb_refl, !N.eqb_refl.
Qed.

Lemma oper_eqb_eq a b : oper_eqb a b = true <-> a = b.
Proof. destruct a, b; unfold oper_eqb; simpl; split; intro H; try reflexivity; discriminate. Qed.

Lemma list_eqb_eq {A} (eqb : A -> A -> bool) :
  (forall x y, eqb x y = true <-> x = y) ->
  forall l m, list_eqb eqb l m = true <-> l = m.
Proof.
  intros E l. induction l as [|x l IH]; destruct m as [|y m]; simpl; split; intro H;
    try reflexivity; try discriminate.
  - apply andb_true_iff in H as [H1 H2]. apply E in H1. apply IH in H2. now subst.
  - injection H as -> ->. apply andb_true_iff. split; [now apply E | now apply IH].
Qed.

Lemma sent_eqb_eq a : forall b, sent_eqb a b = true <-> a = b.
Proof.
  induction a as [i s|p ps|q vi vs x IH|o x IH|o x IHx y IHy]; destruct b; simpl;
    split; intro H; try discriminate.
  - apply andb_true_iff in H as [H1 H2]. apply N.eqb_eq in H1, H2. now subst.
  - injection H as -> ->. now rewrite !N.eqb_refl.
  - apply andb_true_iff in H as [H1 H2]. apply pred_eqb_eq in H1.
    apply (list_eqb_eq _ param_eqb_eq) in H2. now subst.
  - injection H as -> ->. apply andb_true_iff. split;
      [now apply pred_eqb_eq | now apply (list_eqb_eq _ param_eqb_eq)].
  - apply andb_true_iff in H as [H H4]. apply andb_true_iff in H as [H H3].
    apply andb_true_iff in H as [H1 H2]. apply quant_eqb_eq in H1.
    apply N.eqb_eq in H2, H3. apply IH in H4. now subst.
  - injection H as -> -> -> ->. rewrite !N.eqb_refl.
    rewrite (proj2 (quant_eqb_eq _ _) eq_refl), (proj2 (IH _) eq_refl). reflexivity.
  - apply andb_true_iff in H as [H1 H2]. apply oper_eqb_eq in H1. apply IH in H2. now subst.
  - injection H as -> ->. rewrite (proj2 (oper_eqb_eq _ _) eq_refl), (proj2 (IH _) eq_refl).
    reflexivity.
  - apply andb_true_iff in H as [H H3]. apply andb_true_iff in H as [H1 H2].
    apply oper_eqb_eq in H1. apply IHx in H2. apply IHy in H3. now subst.
  - injection H as -> -> ->. rewrite (proj2 (oper_eqb_eq _ _) eq_refl),
      (proj2 (IHx _) eq_refl), (proj2 (IHy _) eq_refl). reflexivity.
Qed.

Definition param_eq_dec (a b : param) : {a = b} + {a <> b}.
Proof.
  destruct (param_eqb a b) eqn:E; [left; now apply param_eqb_eq|right].
  intro H. apply param_eqb_eq in H. congruence.
Defined.

Definition pred_eq_dec (a b : pred) : {a = b} + {a <> b}.
Proof.
  destruct (pred_eqb a b) eqn:E; [left; now apply pred_eqb_eq|right].
  intro H. apply pred_eqb_eq in H. congruence.
Defined.

Definition sent_eq_dec (a b : sent) : {a = b} + {a <> b}.
Proof.
  destruct (sent_eqb a b) eqn:E; [left; now apply sent_eqb_eq|right].
  intro H. apply sent_eqb_eq in H. congruence.
Defined.

(* ---------------------------------------------------------- well-formedness *)
(* What the constructors of lex.py accept (CoordsItem.__new__: index <=
   TYPE.maxi, subscript >= 0; Predicate.__init__: arity > 0, negative index only
   for the two system predicates; Predicated: len(params) == arity; Operated:
   len(operands) == arity).  maxi = 3 for parameters and predicates, 4 for
   atomics (LexType.__init__); C14 re-checks these two numbers against /repo. *)
Definition MAXI_COORD : N := 3.
Definition MAXI_ATOMIC : N := 4.

Definition is_const (p : param) : bool := match p with Const _ _ => true | _ => false end.
Definition is_var (p : param) : bool := match p with Var _ _ => true | _ => false end.

Definition wf_param (p : param) : bool :=
  match p with Const i _ | Var i _ => N.leb i MAXI_COORD end.

Definition is_system (p : pred) : bool := Z.ltb (pidx p) 0.

Definition wf_pred (p : pred) : bool :=
  if is_system p then pred_eqb p Identity || pred_eqb p Existence
  else Z.leb (pidx p) (Z.of_N MAXI_COORD) && N.ltb 0 (parity p).

Fixpoint wf_sent (s : sent) : bool :=
  match s with
  | Atom i _ => N.leb i MAXI_ATOMIC
  | Pred p ps => wf_pred p && Nat.eqb (length ps) (N.to_nat (parity p)) && forallb wf_param ps
  | Quant _ vi _ b => N.leb vi MAXI_COORD && wf_sent b
  | Un o a => Nat.eqb (arity o) 1 && wf_sent a
  | Bin o a b => Nat.eqb (arity o) 2 && wf_sent a && wf_sent b
  end.

(* Depth, for generators and measures. *)
Fixpoint depth (s : sent) : nat :=
  match s with
  | Atom _ _ | Pred _ _ => 0
  | Quant _ _ _ b => S (depth b)
  | Un _ a => S (depth a)
  | Bin _ a b => S (Nat.max (depth a) (depth b))
  end.

(* Free occurrence of variable (vi, vs) in s: an occurrence among the
   parameters of a predication not under a quantifier binding the same
   variable.  [closed]: no free variable.  (Used by the parser properties; the
   Quantified constructor itself does not demand any of this.) *)
Fixpoint free_vars (s : sent) : list param :=
  match s with
  | Atom _ _ => []
  | Pred _ ps => filter is_var ps
  | Quant _ vi vs b => filter (fun p => negb (param_eqb p (Var vi vs))) (free_vars b)
  | Un _ a => free_vars a
  | Bin _ a b => free_vars a ++ free_vars b
  end.
Definition closed (s : sent) : bool := match free_vars s with [] => true | _ => false end.

(* Every quantifier binds a variable that occurs free in its body. *)
Fixpoint nonvacuous (s : sent) : bool :=
  match s with
  | Atom _ _ | Pred _ _ => true
  | Quant _ vi vs b => existsb (param_eqb (Var vi vs)) (free_vars b) && nonvacuous b
  | Un _ a => nonvacuous a
  | Bin _ a b => nonvacuous a && nonvacuous b
  end.

(* No quantifier rebinds a variable already bound above it. *)
Fixpoint norebind_in (bound : list param) (s : sent) : bool :=
  match s with
  | Atom _ _ | Pred _ _ => true
  | Quant _ vi vs b => negb (existsb (param_eqb (Var vi vs)) bound)
                       && norebind_in (Var vi vs :: bound) b
  | Un _ a => norebind_in bound a
  | Bin _ a b => norebind_in bound a && norebind_in bound b
  end.
Definition norebind (s : sent) : bool := norebind_in [] s.
