(* C14 — what the faithful cache model says about transparency and
   rebuilding: both are REFUTED, with concrete witnesses that tools/c14.py
   replays on the implementation. *)
From Coq Require Import List Bool ZArith NArith String Lia.
From PT Require Import Sem.Values Lang.Syntax Lang.Lex Lang.Cache.
Import ListNotations.
Open Scope string_scope.
Open Scope Z_scope.

(* "The bounded construction cache is invisible": after any history of
   constructor calls, with any maxlen >= 1, a call returns what the
   cache-free construction returns (runs that exhaust the fuel excluded). *)
Definition cache_transparent_old : Prop :=
  forall (ml fuel : nat) (h : list op) (o : op), (1 <= ml)%nat ->
    let st := snd (run fuel (cached_old ml) h empty) in
    let r := fst (call fuel (cached_old ml) (fst o) (snd o) st) in
    r <> Fuel -> build0_old fuel (fst o) (snd o) <> Fuel -> r = build0_old fuel (fst o) (snd o).

(* "Rebuilding an item from its published identifier or spec yields an equal
   item", for the cache-free constructors. *)
Definition rebuild_ok_old : Prop :=
  forall (fuel : nat) (a : item), wf_item a = true ->
    (rebuild_spec_old fuel a <> Fuel -> rebuild_spec_old fuel a = OK a) /\
    (rebuild_ident_old fuel a <> Fuel -> rebuild_ident_old fuel a = OK a).

(* witness: the sentence  a = a  over the system predicate Identity *)
Definition w_a : item := IParam (Const 0 0).
Definition w_s : item := ISent (Pred Identity [Const 0 0; Const 0 0]).
Definition w_make : op := (CPredicated, [PItem (IPred Identity); PTup [PItem w_a; PItem w_a]]).
Definition w_rebuild : op := (CSentence, [ident_pv w_s]).
Definition w_rebuild_spec_old : op := (CPredicated, spec_args w_s).
Definition w_other : op := (CConstant, [PInt 1; PInt 0]).

(* T cache_transparent — refuted: one earlier construction is enough. *)
Theorem cache_transparent_old_refuted : ~ cache_transparent_old.
Proof.
  intro H. specialize (H 1%nat 20%nat [w_make] w_rebuild (le_n 1)).
  vm_compute in H.
  assert (X : OK w_s = Err EValueError) by (apply H; discriminate).
  discriminate X.
Qed.

(* ... for EVERY maxlen >= 1, and for both rebuild forms. *)
Theorem cache_visible_every_maxlen_old ml : (1 <= ml)%nat ->
  transparent_old_b 20 ml [w_make] w_rebuild = false /\
  transparent_old_b 20 ml [w_make] w_rebuild_spec_old = false.
Proof. destruct ml as [|m]; [lia|]. intros _. split; vm_compute; reflexivity. Qed.

(* The same call gives different answers after different histories (cache
   warm vs evicted), here with maxlen = 1 and one unrelated construction. *)
Theorem rebuild_depends_on_history_old :
  fst (run 20 (cached_old 1) [w_make; w_rebuild] empty) = [OK w_s; OK w_s] /\
  fst (run 20 (cached_old 1) [w_make; w_other; w_rebuild] empty)
    = [OK w_s; OK (IParam (Const 1 0)); Err EValueError].
Proof. split; vm_compute; reflexivity. Qed.

(* With maxlen = n the eviction needs n unrelated constructions: the shape of
   the witness reproduced with the default 1000. *)
Definition fillers (n : nat) : list op :=
  map (fun k => (CConstant, [PInt 0; PInt (Z.of_nat (S k))])) (seq 0 n).
Theorem eviction_witness_small_old :
  forall ml, In ml [1; 2; 3; 5]%nat ->
    last (fst (run 20 (cached_old ml) ([w_make] ++ fillers (ml - 1) ++ [w_rebuild]) empty)) Fuel = OK w_s /\
    last (fst (run 20 (cached_old ml) ([w_make] ++ fillers ml ++ [w_rebuild]) empty)) Fuel = Err EValueError.
Proof.
  intros ml H. simpl in H.
  repeat (destruct H as [<-|H]; [split; vm_compute; reflexivity|]). contradiction.
Qed.

(* T rebuild — refuted even without any cache: neither a system predicate nor a
   sentence over one can be constructed from its own spec / ident. *)
Theorem rebuild_old_refuted : ~ rebuild_ok_old.
Proof.
  intro H. destruct (H 20%nat w_s eq_refl) as [H1 _].
  vm_compute in H1. assert (X : Err EValueError = OK w_s) by (apply H1; discriminate).
  discriminate X.
Qed.

Theorem rebuild_old_refuted_witnesses :
  wf_item w_s = true /\ rebuild_spec_old 20 w_s = Err EValueError /\ rebuild_ident_old 20 w_s = Err EValueError /\
  wf_item (IPred Identity) = true /\ rebuild_spec_old 20 (IPred Identity) = Err EValueError /\
  rebuild_ident_old 20 (IPred Identity) = Err EValueError /\
  rebuild_ident_old 20 (IPred Existence) = Err EValueError.
Proof. repeat split; vm_compute; reflexivity. Qed.

(* Non-vacuity of the positive reading: items without system predicates do
   rebuild, with and without cache (examples; the general statement is checked
   by correspondence only, see the manifest entry). *)
Definition ex_sent : item :=
  ISent (Bin OConjunction (Quant Existential 0 0 (Pred (mkPred 0 0 1) [Var 0 0]))
                          (Un ONegation (Atom 4 2))).
Example rebuild_example_old :
  rebuild_spec_old 20 ex_sent = OK ex_sent /\ rebuild_ident_old 20 ex_sent = OK ex_sent /\
  transparent_old_b 20 2 [(CSentence, [ident_pv ex_sent]); w_other] (CLexicalAbc, [ident_pv ex_sent]) = true.
Proof. repeat split; vm_compute; reflexivity. Qed.
