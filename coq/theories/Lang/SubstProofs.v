(* C15 — theorems about the model in Subst.v; all by structural induction, for
   every sentence (no well-formedness needed). *)
From Coq Require Import List Bool ZArith NArith Lia.
From PT Require Import Sem.Values Lang.Syntax Lang.Subst.
Import ListNotations.

Lemma subst_param_same p q : subst_param p p q = q.
Proof.
  unfold subst_param. destruct (param_eqb q p) eqn:E; [|reflexivity].
  apply param_eqb_eq in E. now subst.
Qed.

Lemma map_id_ext {A} (f : A -> A) l : (forall x, f x = x) -> map f l = l.
Proof. intro H. induction l as [|x l IH]; simpl; [reflexivity|]. now rewrite H, IH. Qed.

Lemma map_params_id f s : (forall p, f p = p) -> map_params f s = s.
Proof.
  intro H. induction s as [i t|p ps|q vi vs b IH|o a IH|o a IHa b IHb]; simpl.
  - reflexivity.
  - now rewrite (map_id_ext f ps H).
  - now rewrite IH.
  - now rewrite IH.
  - now rewrite IHa, IHb.
Qed.

(* T substitute_pointwise: the implementation's four substitute methods
   together compute exactly the structural map that replaces each parameter
   occurrence p by (if p = old then new else p) and leaves everything else
   (atoms, predicates, operators, quantifiers, binders) in place. *)
Theorem substitute_pointwise pnew pold s :
  substitute pnew pold s = map_params (subst_param pnew pold) s.
Proof.
  destruct (param_eqb pnew pold) eqn:E.
  - apply param_eqb_eq in E. subst pold.
    rewrite (map_params_id _ s (subst_param_same pnew)).
    destruct s; simpl; rewrite ?param_eqb_refl; reflexivity.
  - induction s as [i t|p ps|q vi vs b IH|o a IH|o a IHa b IHb]; simpl; rewrite ?E.
    + reflexivity.
    + reflexivity.
    + now rewrite IH.
    + now rewrite IH.
    + now rewrite IHa, IHb.
Qed.

(* T shortcut_sound: returning `self` when pnew == pold is what the full walk
   would have produced. *)
Theorem shortcut_sound p s :
  substitute p p s = s /\ map_params (subst_param p p) s = s.
Proof.
  split.
  - rewrite substitute_pointwise. apply map_params_id, subst_param_same.
  - apply map_params_id, subst_param_same.
Qed.

Lemma shape_map_params f s : shape_of (map_params f s) = shape_of s.
Proof.
  induction s as [i t|p ps|q vi vs b IH|o a IH|o a IHa b IHb]; simpl;
    rewrite ?map_length, ?IH, ?IHa, ?IHb; reflexivity.
Qed.

Lemma params_map_params f s : params_of (map_params f s) = map f (params_of s).
Proof.
  induction s as [i t|p ps|q vi vs b IH|o a IH|o a IHa b IHb]; simpl;
    rewrite ?map_app, ?IH, ?IHa, ?IHb; reflexivity.
Qed.

(* skeleton unchanged, parameters replaced position by position *)
Theorem substitute_skeleton pnew pold s :
  shape_of (substitute pnew pold s) = shape_of s /\
  params_of (substitute pnew pold s) = map (subst_param pnew pold) (params_of s).
Proof.
  rewrite substitute_pointwise. split; [apply shape_map_params|apply params_map_params].
Qed.

Lemma app_inj_len {A} (l1 : list A) : forall l2 m1 m2,
  length l1 = length l2 -> l1 ++ m1 = l2 ++ m2 -> l1 = l2 /\ m1 = m2.
Proof.
  induction l1 as [|x l1 IH]; destruct l2 as [|y l2]; simpl; intros m1 m2 L H;
    try discriminate; [now split|].
  injection H as -> H. injection L as L. destruct (IH _ _ _ L H) as [-> ->]. now split.
Qed.

Lemma shape_params_length a : forall b, shape_of a = shape_of b ->
  length (params_of a) = length (params_of b).
Proof.
  induction a as [i t|p ps|q vi vs x IH|o x IH|o x IHx y IHy]; destruct b; simpl; intro H;
    try discriminate; try reflexivity.
  - now injection H.
  - injection H as _ _ _ H. now apply IH.
  - injection H as _ H. now apply IH.
  - injection H as _ H1 H2. rewrite !app_length. now rewrite (IHx _ H1), (IHy _ H2).
Qed.

(* ... and skeleton + parameter list determine the sentence, so the two
   equations of [substitute_skeleton] characterise the result completely. *)
Theorem shape_params_inj a : forall b, shape_of a = shape_of b -> params_of a = params_of b -> a = b.
Proof.
  induction a as [i t|p ps|q vi vs x IH|o x IH|o x IHx y IHy]; destruct b; simpl; intros H P;
    try discriminate.
  - now injection H as -> ->.
  - injection H as -> _. now subst.
  - injection H as -> -> -> H. now rewrite (IH _ H P).
  - injection H as -> H. now rewrite (IH _ H P).
  - injection H as -> H1 H2.
    apply app_inj_len in P as [P1 P2]; [|now apply shape_params_length].
    now rewrite (IHx _ H1 P1), (IHy _ H2 P2).
Qed.

(* nothing else: the old parameter is gone (when new <> old), and a parameter
   different from old and new occurs after exactly where it occurred before *)
Theorem subst_removes_old pnew pold s :
  pnew <> pold -> ~ In pold (params_of (substitute pnew pold s)).
Proof.
  intros N H. rewrite (proj2 (substitute_skeleton _ _ _)) in H.
  apply in_map_iff in H as [p [H _]]. unfold subst_param in H.
  destruct (param_eqb p pold) eqn:E; [congruence|].
  subst p. now rewrite param_eqb_refl in E.
Qed.

(* T unquantify_is_subst: `c >> Quantified(q, v, body)` is the pointwise
   substitution of c for the bound variable in the body. *)
Theorem unquantify_is_subst c q vi vs b :
  unquantify c (Quant q vi vs b) = Some (map_params (subst_param c (Var vi vs)) b).
Proof. simpl. now rewrite substitute_pointwise. Qed.

Corollary unquantify_no_bound_var c q vi vs b r :
  c <> Var vi vs -> unquantify c (Quant q vi vs b) = Some r -> ~ In (Var vi vs) (params_of r).
Proof. simpl. intros N [= <-]. now apply subst_removes_old. Qed.

(* T negative_negate *)
Theorem negative_negate s : negative (negate s) = s.
Proof. reflexivity. Qed.

Theorem negative_other s : (forall a, s <> Un ONegation a) -> negative s = negate s.
Proof.
  intro H. destruct s as [| | |o a|]; try reflexivity.
  destruct o; try reflexivity. now destruct (H a).
Qed.

(* ---- attributes are walks ---- *)
Lemma pick_app {A} (f : token -> option A) l m : pick f (l ++ m) = pick f l ++ pick f m.
Proof. unfold pick. apply flat_map_app. Qed.

Lemma pick_params_const ps : pick tk_const (map TParam ps) = filter is_const ps.
Proof. induction ps as [|[i s|i s] ps IH]; simpl; [reflexivity| |]; now rewrite <- IH. Qed.
Lemma pick_params_var ps : pick tk_var (map TParam ps) = filter is_var ps.
Proof. induction ps as [|[i s|i s] ps IH]; simpl; [reflexivity| |]; now rewrite <- IH. Qed.
Lemma pick_params_none {A} (f : token -> option A) ps :
  (forall p, f (TParam p) = None) -> pick f (map TParam ps) = [].
Proof. intro H. induction ps as [|p ps IH]; simpl; [reflexivity|]. now rewrite H. Qed.

Lemma pick_cons {A} (f : token -> option A) t ts :
  pick f (t :: ts) = match f t with Some a => [a] | None => [] end ++ pick f ts.
Proof. reflexivity. Qed.

Ltac walk_tac s :=
  induction s as [i t|p ps|q vi vs b IH|o a IH|o a IHa b IHb];
  cbn [tokens constants variables predicates atomics operators quantifiers];
  rewrite ?pick_cons, ?pick_app;
  cbn [tk_const tk_var tk_pred tk_atom tk_oper tk_quant app];
  rewrite <- ?IH, <- ?IHa, <- ?IHb;
  rewrite ?pick_params_const, ?pick_params_var;
  rewrite ?pick_params_none by reflexivity;
  try reflexivity.

Lemma constants_walk s : constants s = pick tk_const (tokens s).
Proof. walk_tac s. Qed.
Lemma variables_walk s : variables s = pick tk_var (tokens s).
Proof. walk_tac s. Qed.
Lemma predicates_walk s : predicates s = pick tk_pred (tokens s).
Proof. walk_tac s. Qed.
Lemma atomics_walk s : atomics s = pick tk_atom (tokens s).
Proof. walk_tac s. Qed.
Lemma operators_walk s : operators s = pick tk_oper (tokens s).
Proof. walk_tac s. Qed.
Lemma quantifiers_walk s : quantifiers s = pick tk_quant (tokens s).
Proof. walk_tac s. Qed.

(* T attrs_are_walks: the four published sets equal (as sets) what one
   prefix-order walk of the structure collects, and the two published
   sequences equal the walk exactly, in prefix order. *)
Theorem attrs_are_walks s :
  same_set (constants s) (pick tk_const (tokens s)) /\
  same_set (variables s) (pick tk_var (tokens s)) /\
  same_set (predicates s) (pick tk_pred (tokens s)) /\
  same_set (atomics s) (pick tk_atom (tokens s)) /\
  operators s = pick tk_oper (tokens s) /\
  quantifiers s = pick tk_quant (tokens s).
Proof.
  rewrite <- constants_walk, <- variables_walk, <- predicates_walk, <- atomics_walk,
    <- operators_walk, <- quantifiers_walk.
  unfold same_set. repeat split; auto.
Qed.

(* The walk itself is faithful: tokens determine the sentence (Polish notation
   is uniquely readable) is a C12 matter; here: the parameter tokens are exactly
   params_of, so constants/variables are the constant/variable occurrences. *)
Lemma constants_are_params s : constants s = filter is_const (params_of s).
Proof.
  induction s as [i t|p ps|q vi vs b IH|o a IH|o a IHa b IHb]; simpl; auto.
  now rewrite filter_app, IHa, IHb.
Qed.
Lemma variables_are_params s : variables s = filter is_var (params_of s).
Proof.
  induction s as [i t|p ps|q vi vs b IH|o a IH|o a IHa b IHb]; simpl; auto.
  now rewrite filter_app, IHa, IHb.
Qed.

(* Non-vacuity examples: a sentence with nested quantifiers sharing
   parameters, substituting for a bound variable's name, and a parameter for
   itself. *)
Definition ex_s : sent :=
  Quant Universal 0 0 (Bin OConjunction (Pred (mkPred 0 0 2) [Var 0 0; Const 1 0])
     (Quant Existential 1 0 (Un ONegation (Pred Identity [Var 1 0; Var 0 0])))).
Example ex_subst : substitute (Const 2 0) (Var 0 0) ex_s =
  Quant Universal 0 0 (Bin OConjunction (Pred (mkPred 0 0 2) [Const 2 0; Const 1 0])
     (Quant Existential 1 0 (Un ONegation (Pred Identity [Var 1 0; Const 2 0])))).
Proof. reflexivity. Qed.
Example ex_attrs : constants ex_s = [Const 1 0] /\ variables ex_s = [Var 0 0; Var 1 0; Var 0 0]
  /\ operators ex_s = [OConjunction; ONegation] /\ quantifiers ex_s = [Universal; Existential].
Proof. repeat split. Qed.
