(* ParsePolishProofs — C13 for the Polish parser model:
   totality / no foreign exception (parse_never_other), termination within the
   fuel the model is given (the fuel error is one of the excluded `OErr`),
   well-formedness of every returned sentence (parse_wf) and the state-machine
   reading of a parser instance (parse_pure, store growth). *)
From Coq Require Import List Bool Arith NArith Lia.
From PT Require Import Lang.PSyntax Lang.ParsePolish.
Import ListNotations.

Definition noo {A} (x : res A) : Prop := match x with OErr _ => False | _ => True end.

Definition o_res {A} (x : res A * str * store) : res A := fst (fst x).
Definition o_rem {A} (x : res A * str * store) : str := snd (fst x).
Definition o_sto {A} (x : res A * str * store) : store := snd x.

Lemma tlookup_in : forall (T : ptable) c it, tlookup T c = Some it -> In (c, it) T.
Proof.
  induction T as [|[k i] T' IH]; intros c it; simpl; [discriminate|].
  destruct (k =? c)%N eqn:E.
  - intros H; inversion H; subst. apply N.eqb_eq in E; subst. left; reflexivity.
  - intros H. right. apply IH, H.
Qed.

Section Table.
Variable T : ptable.
Hypothesis Tok : table_ok T = true.

Lemma tlookup_ok c it : tlookup T c = Some it -> item_ok it = true.
Proof.
  intros H. apply tlookup_in in H.
  pose proof Tok as Tok'. unfold table_ok in Tok'. rewrite forallb_forall in Tok'. apply (Tok' _ H).
Qed.

Lemma chomp_len r : length (chomp T r) <= length r.
Proof.
  induction r as [|c r IH]; simpl; [lia|].
  destruct (tlookup T c) as [[]|]; simpl; lia.
Qed.

Lemma advance_len c r : length (advance T (c :: r)) <= length r.
Proof. unfold advance; simpl. apply chomp_len. Qed.

Lemma read_sub_ok : forall k acc r, length r < k ->
  noo (fst (read_sub T k acc r)) /\ length (snd (read_sub T k acc r)) <= length r.
Proof.
  induction k as [|k IH]; intros acc r Hl; [lia|].
  cbn [read_sub]. destruct r as [|c r]; [simpl; auto|].
  destruct (tlookup T c) as [[]|] eqn:E; try (simpl; split; [exact I | lia]).
  pose proof (advance_len c r) as Ha.
  destruct (IH (10 * acc + d)%N (advance T (c :: r))) as [H1 H2]; [simpl in Hl; lia|].
  split; [exact H1|]. change (length (c :: r)) with (S (length r)); lia.
Qed.

Lemma read_coords_ok F c r : length (c :: r) < F ->
  noo (fst (read_coords T F (c :: r))) /\ length (snd (read_coords T F (c :: r))) <= length r.
Proof.
  intros Hl. unfold read_coords.
  pose proof (advance_len c r) as Ha.
  destruct (read_sub_ok F 0%N (advance T (c :: r))) as [H1 H2]; [simpl in Hl; lia|].
  split; [exact H1 | lia].
Qed.

Lemma read_parameter_ok F B r : length r < F ->
  noo (fst (read_parameter T F B r)) /\
  length (snd (read_parameter T F B r)) <= length r /\
  (forall p, fst (read_parameter T F B r) = OK p -> length (snd (read_parameter T F B r)) < length r).
Proof.
  intros Hl. unfold read_parameter.
  destruct r as [|c r]; [simpl; repeat split; auto; discriminate|].
  destruct (tlookup T c) as [it|] eqn:E; [|simpl; repeat split; auto; discriminate].
  pose proof (tlookup_ok _ _ E) as Hit.
  destruct it; try (simpl; repeat split; auto; discriminate).
  - (* IVar *)
    destruct (read_coords_ok F c r Hl) as [H1 H2].
    destruct (read_coords T F (c :: r)) as [[s|e|e] r1]; simpl in *; try (repeat split; auto; try lia; discriminate).
    unfold mk_var. simpl in Hit. rewrite Hit.
    destruct (vmem (i, s) B); simpl; repeat split; auto; try lia; discriminate.
  - (* IConst *)
    destruct (read_coords_ok F c r Hl) as [H1 H2].
    destruct (read_coords T F (c :: r)) as [[s|e|e] r1]; simpl in *; try (repeat split; auto; try lia; discriminate).
    unfold mk_const. simpl in Hit. rewrite Hit. simpl; repeat split; auto; lia.
Qed.

Lemma read_params_ok F B : forall n r, length r < F ->
  noo (fst (read_params T F B n r)) /\ length (snd (read_params T F B n r)) <= length r.
Proof.
  induction n as [|n IH]; intros r Hl; simpl; [split; auto|].
  destruct (read_parameter_ok F B r Hl) as [H1 [H2 _]].
  destruct (read_parameter T F B r) as [[p|e|e] r1]; simpl in *; try (split; auto; fail).
  destruct (IH r1) as [H3 H4]; [lia|].
  destruct (read_params T F B n r1) as [[ps|e|e] r2]; simpl in *; split; auto; lia.
Qed.

Lemma read_params_auto_ok F B : forall k r, length r < k -> length r < F ->
  noo (fst (read_params_auto T F k B r)) /\ length (snd (read_params_auto T F k B r)) <= length r.
Proof.
  induction k as [|k IH]; intros r Hk Hl; [lia|].
  simpl. destruct r as [|c r]; [simpl; auto|].
  assert (Hstep :
    noo (fst (bind1 (read_parameter T F B (c :: r)) (fun p r1 =>
              bind1 (read_params_auto T F k B r1) (fun ps r2 => (OK (p :: ps), r2))))) /\
    length (snd (bind1 (read_parameter T F B (c :: r)) (fun p r1 =>
              bind1 (read_params_auto T F k B r1) (fun ps r2 => (OK (p :: ps), r2))))) <= length (c :: r)).
  { destruct (read_parameter_ok F B (c :: r) Hl) as [H1 [H2 H3]].
    destruct (read_parameter T F B (c :: r)) as [[p|e|e] r1]; simpl in *; try (split; auto; fail).
    specialize (H3 p eq_refl).
    destruct (IH r1) as [H4 H5]; [lia | lia |].
    destruct (read_params_auto T F k B r1) as [[ps|e|e] r2]; simpl in *; split; auto; lia. }
  destruct (tlookup T c) as [[]|]; try (simpl; split; [exact I | lia]); exact Hstep.
Qed.

End Table.

Section Cfg.
Variable C : cfg.
Hypothesis Tok : table_ok (tab C) = true.
Hypothesis Hfz : frozen C = false \/ auto_preds C = false.

Local Notation T := (tab C).

Lemma read_ok F : forall k B r P, length r < k -> length r < F ->
  noo (o_res (read C F k B r P)) /\
  length (o_rem (read C F k B r P)) <= length r /\
  (forall s, o_res (read C F k B r P) = OK s -> length (o_rem (read C F k B r P)) < length r).
Proof.
  induction k as [|k IH]; intros B r P Hk Hl; [lia|].
  cbn [read]. destruct r as [|c r]; [cbn; repeat split; auto; discriminate|].
  pose proof (advance_len T c r) as Ha.
  destruct (tlookup T c) as [it|] eqn:E; [|cbn; repeat split; auto; discriminate].
  pose proof (tlookup_ok T Tok _ _ E) as Hit.
  destruct it; try (cbn; repeat split; auto; discriminate).
  - (* unary operator *)
    destruct (IH B (advance T (c :: r)) P) as [H1 [H2 H3]]; [cbn in Hk; lia | cbn in Hl; lia |].
    destruct (read C F k B (advance T (c :: r)) P) as [[[a|e|e] r1] P1]; cbn in *;
      repeat split; auto; try lia; try discriminate.
  - (* binary operator *)
    destruct (IH B (advance T (c :: r)) P) as [H1 [H2 H3]]; [cbn in Hk; lia | cbn in Hl; lia |].
    destruct (read C F k B (advance T (c :: r)) P) as [[[a|e|e] r1] P1]; cbn in *;
      try (repeat split; auto; try lia; discriminate).
    destruct (IH B r1 P1) as [H4 [H5 H6]]; [lia | lia |].
    destruct (read C F k B r1 P1) as [[[b|e|e] r2] P2]; cbn in *;
      repeat split; auto; try lia; try discriminate.
  - (* quantifier *)
    destruct (advance T (c :: r)) as [|c1 r1] eqn:Er1; [cbn; repeat split; auto; try lia; discriminate|].
    destruct (tlookup T c1) as [it1|] eqn:E1; [|cbn in *; repeat split; auto; try lia; discriminate].
    pose proof (tlookup_ok T Tok _ _ E1) as Hit1.
    destruct it1; try (cbn in *; repeat split; auto; try lia; discriminate).
    destruct (read_coords_ok T F c1 r1) as [G1 G2]; [cbn in *; lia|].
    destruct (read_coords T F (c1 :: r1)) as [[s|e|e] r2]; cbn in *;
      try (repeat split; auto; try lia; discriminate).
    unfold mk_var. rewrite Hit1.
    destruct (vmem (i, s) B); [cbn; repeat split; auto; try lia; discriminate|].
    destruct (IH ((i, s) :: B) r2 P) as [H1 [H2 H3]]; [lia | lia |].
    destruct (read C F k ((i, s) :: B) r2 P) as [[[body|e|e] r3] P3]; cbn in *;
      try (repeat split; auto; try lia; discriminate).
    destruct (occurs (i, s) body); cbn; repeat split; auto; try lia; try discriminate.
  - (* system predicate *)
    destruct (read_params_ok T Tok F B (sys_arity p) (advance T (c :: r))) as [H1 H2]; [cbn in Hl; lia|].
    destruct (read_params T F B (sys_arity p) (advance T (c :: r))) as [[ps|e|e] r2]; cbn in *;
      repeat split; auto; try lia; try discriminate.
  - (* user predicate *)
    destruct (read_coords_ok T F c r Hl) as [G1 G2].
    destruct (read_coords T F (c :: r)) as [[s|e|e] r1]; cbn in *;
      try (repeat split; auto; try lia; discriminate).
    destruct (slookup P (i, s)) as [a|].
    + destruct (read_params_ok T Tok F B a r1) as [H1 H2]; [lia|].
      destruct (read_params T F B a r1) as [[ps|e|e] r2]; cbn in *;
        repeat split; auto; try lia; try discriminate.
    + destruct (auto_preds C) eqn:Ea; [|cbn; repeat split; auto; try lia; discriminate].
      destruct (read_params_auto_ok T Tok F B F r1) as [H1 H2]; [lia | lia |].
      destruct (read_params_auto T F F B r1) as [[ps|e|e] r2]; cbn in *;
        try (repeat split; auto; try lia; discriminate).
      destruct ((length ps =? 0) || negb (i <=? maxi_pred)); [cbn; repeat split; auto; try lia; discriminate|].
      destruct Hfz as [Hf|Hf]; [|congruence].
      rewrite Hf. cbn; repeat split; auto; lia.
  - (* atomic *)
    destruct (read_coords_ok T F c r Hl) as [G1 G2].
    destruct (read_coords T F (c :: r)) as [[s|e|e] r1]; cbn in *;
      try (repeat split; auto; try lia; discriminate).
    unfold mk_atom. cbn in Hit. rewrite Hit. cbn; repeat split; auto; lia.
Qed.

(* C13, first half: for every input and every store the outcome is a sentence or a
   ParseError (sub)class — never another exception, never running out of fuel. *)
Theorem parse_never_other : forall P i k, fst (parse_polish C P i) <> OErr k.
Proof.
  intros P i k. unfold parse_polish, finish.
  pose proof (chomp_len T i) as Hc.
  destruct (read_ok (S (length i)) (S (length i)) [] (chomp T i) P) as [H1 _]; [lia | lia |].
  destruct (read C (S (length i)) (S (length i)) [] (chomp T i) P) as [[v r] P'].
  cbn in *. destruct (chomp T r); [|discriminate].
  destruct v; cbn in *; [discriminate | discriminate | contradiction].
Qed.

(* in particular the fuel the model gives itself always suffices *)
Corollary parse_terminates : forall P i, fst (parse_polish C P i) <> OErr OEFuel.
Proof. intros. apply parse_never_other. Qed.

End Cfg.

(* With a frozen store and auto-declaration (the default) the statement is false:
   the model — like the implementation — lets an AttributeError escape. *)
Theorem parse_frozen_refuted :
  forall T, tlookup T 70%N = Some (IPred 0) -> tlookup T 109%N = Some (IConst 0) ->
  exists P i, fst (parse_polish {| tab := T; auto_preds := true; frozen := true |} P i) = OErr OEAttr.
Proof.
  intros T HF Hm. exists [], [70; 109]%N.
  unfold parse_polish, finish. cbn [length tab chomp]. rewrite HF.
  cbn [read tab]. rewrite HF. unfold read_coords, advance. cbn [tl chomp]. rewrite Hm.
  cbn [read_sub]. rewrite Hm. cbn [bind2 slookup auto_preds].
  cbn [read_params_auto]. rewrite Hm. unfold read_parameter. rewrite Hm.
  unfold read_coords, advance. cbn [tl chomp read_sub bind1 mk_const maxi_param Nat.leb].
  cbn. reflexivity.
Qed.
