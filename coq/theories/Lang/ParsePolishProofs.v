(* ParsePolishProofs — C13 for the Polish parser model:
   totality / no foreign exception (parse_never_other), termination within the
   fuel the model is given (the fuel error is one of the excluded `OErr`),
   well-formedness of every returned sentence (parse_wf) and the state-machine
   reading of a parser instance (parse_pure, store growth). *)
From Coq Require Import List Bool Arith NArith Lia.
From PT Require Import Lang.PSyntax Lang.ParsePolish.
Import ListNotations.

Definition noo {A} (x : res A) : Prop := match x with OErr _ => False | _ => True end.

Definition o_res {A} (x : res A * str * store) : res A := fst (fst x).
Definition o_rem {A} (x : res A * str * store) : str := snd (fst x).
Definition o_sto {A} (x : res A * str * store) : store := snd x.

Lemma tlookup_in : forall (T : ptable) c it, tlookup T c = Some it -> In (c, it) T.
Proof.
  induction T as [|[k i] T' IH]; intros c it; simpl; [discriminate|].
  destruct (k =? c)%N eqn:E.
  - intros H; inversion H; subst. apply N.eqb_eq in E; subst. left; reflexivity.
  - intros H. right. apply IH, H.
Qed.

Section Table.
Variable T : ptable.
Hypothesis Tok : table_ok T = true.

Lemma tlookup_ok c it : tlookup T c = Some it -> item_ok it = true.
Proof.
  intros H. apply tlookup_in in H.
  pose proof Tok as Tok'. unfold table_ok in Tok'. rewrite forallb_forall in Tok'. apply (Tok' _ H).
Qed.

Lemma chomp_len r : length (chomp T r) <= length r.
Proof.
  induction r as [|c r IH]; simpl; [lia|].
  destruct (tlookup T c) as [[]|]; simpl; lia.
Qed.

Lemma advance_len c r : length (advance T (c :: r)) <= length r.
Proof. unfold advance; simpl. apply chomp_len. Qed.

Lemma read_sub_ok : forall k acc r, length r < k ->
  noo (fst (read_sub T k acc r)) /\ length (snd (read_sub T k acc r)) <= length r.
Proof.
  induction k as [|k IH]; intros acc r Hl; [lia|].
  cbn [read_sub]. destruct r as [|c r]; [simpl; auto|].
  destruct (tlookup T c) as [[]|] eqn:E; try (simpl; split; [exact I | lia]).
  pose proof (advance_len c r) as Ha.
  destruct (IH (10 * acc + d)%N (advance T (c :: r))) as [H1 H2]; [simpl in Hl; lia|].
  split; [exact H1|]. change (length (c :: r)) with (S (length r)); lia.
Qed.

Lemma read_coords_ok F c r : length (c :: r) < F ->
  noo (fst (read_coords T F (c :: r))) /\ length (snd (read_coords T F (c :: r))) <= length r.
Proof.
  intros Hl. unfold read_coords.
  pose proof (advance_len c r) as Ha.
  destruct (read_sub_ok F 0%N (advance T (c :: r))) as [H1 H2]; [simpl in Hl; lia|].
  split; [exact H1 | lia].
Qed.

Lemma read_parameter_ok F B r : length r < F ->
  noo (fst (read_parameter T F B r)) /\
  length (snd (read_parameter T F B r)) <= length r /\
  (forall p, fst (read_parameter T F B r) = OK p -> length (snd (read_parameter T F B r)) < length r).
Proof.
  intros Hl. unfold read_parameter.
  destruct r as [|c r]; [simpl; repeat split; auto; discriminate|].
  destruct (tlookup T c) as [it|] eqn:E; [|simpl; repeat split; auto; discriminate].
  pose proof (tlookup_ok _ _ E) as Hit.
  destruct it; try (simpl; repeat split; auto; discriminate).
  - (* IVar *)
    destruct (read_coords_ok F c r Hl) as [H1 H2].
    destruct (read_coords T F (c :: r)) as [[s|e|e] r1]; simpl in *; try (repeat split; auto; try lia; discriminate).
    unfold mk_var. simpl in Hit. rewrite Hit.
    destruct (vmem (i, s) B); simpl; repeat split; auto; try lia; discriminate.
  - (* IConst *)
    destruct (read_coords_ok F c r Hl) as [H1 H2].
    destruct (read_coords T F (c :: r)) as [[s|e|e] r1]; simpl in *; try (repeat split; auto; try lia; discriminate).
    unfold mk_const. simpl in Hit. rewrite Hit. simpl; repeat split; auto; lia.
Qed.

Lemma read_params_ok F B : forall n r, length r < F ->
  noo (fst (read_params T F B n r)) /\ length (snd (read_params T F B n r)) <= length r.
Proof.
  induction n as [|n IH]; intros r Hl; simpl; [split; auto|].
  destruct (read_parameter_ok F B r Hl) as [H1 [H2 _]].
  destruct (read_parameter T F B r) as [[p|e|e] r1]; simpl in *; try (split; auto; fail).
  destruct (IH r1) as [H3 H4]; [lia|].
  destruct (read_params T F B n r1) as [[ps|e|e] r2]; simpl in *; split; auto; lia.
Qed.

Lemma read_params_auto_ok F B : forall k r, length r < k -> length r < F ->
  noo (fst (read_params_auto T F k B r)) /\ length (snd (read_params_auto T F k B r)) <= length r.
Proof.
  induction k as [|k IH]; intros r Hk Hl; [lia|].
  simpl. destruct r as [|c r]; [simpl; auto|].
  assert (Hstep :
    noo (fst (bind1 (read_parameter T F B (c :: r)) (fun p r1 =>
              bind1 (read_params_auto T F k B r1) (fun ps r2 => (OK (p :: ps), r2))))) /\
    length (snd (bind1 (read_parameter T F B (c :: r)) (fun p r1 =>
              bind1 (read_params_auto T F k B r1) (fun ps r2 => (OK (p :: ps), r2))))) <= length (c :: r)).
  { destruct (read_parameter_ok F B (c :: r) Hl) as [H1 [H2 H3]].
    destruct (read_parameter T F B (c :: r)) as [[p|e|e] r1]; simpl in *; try (split; auto; fail).
    specialize (H3 p eq_refl).
    destruct (IH r1) as [H4 H5]; [lia | lia |].
    destruct (read_params_auto T F k B r1) as [[ps|e|e] r2]; simpl in *; split; auto; lia. }
  destruct (tlookup T c) as [[]|]; try (simpl; split; [exact I | lia]); exact Hstep.
Qed.

End Table.

Section Cfg.
Variable C : cfg.
Hypothesis Tok : table_ok (tab C) = true.
Hypothesis Hfz : frozen C = false \/ auto_preds C = false.

Local Notation T := (tab C).

Lemma read_ok F : forall k B r P, length r < k -> length r < F ->
  noo (o_res (read C F k B r P)) /\
  length (o_rem (read C F k B r P)) <= length r /\
  (forall s, o_res (read C F k B r P) = OK s -> length (o_rem (read C F k B r P)) < length r).
Proof.
  induction k as [|k IH]; intros B r P Hk Hl; [lia|].
  cbn [read]. destruct r as [|c r]; [cbn; repeat split; auto; discriminate|].
  pose proof (advance_len T c r) as Ha.
  destruct (tlookup T c) as [it|] eqn:E; [|cbn; repeat split; auto; discriminate].
  pose proof (tlookup_ok T Tok _ _ E) as Hit.
  destruct it; try (cbn; repeat split; auto; discriminate).
  - (* unary operator *)
    destruct (IH B (advance T (c :: r)) P) as [H1 [H2 H3]]; [cbn in Hk; lia | cbn in Hl; lia |].
    destruct (read C F k B (advance T (c :: r)) P) as [[[a|e|e] r1] P1]; cbn in *;
      repeat split; auto; try lia; try discriminate.
  - (* binary operator *)
    destruct (IH B (advance T (c :: r)) P) as [H1 [H2 H3]]; [cbn in Hk; lia | cbn in Hl; lia |].
    destruct (read C F k B (advance T (c :: r)) P) as [[[a|e|e] r1] P1]; cbn in *;
      try (repeat split; auto; try lia; discriminate).
    destruct (IH B r1 P1) as [H4 [H5 H6]]; [lia | lia |].
    destruct (read C F k B r1 P1) as [[[b|e|e] r2] P2]; cbn in *;
      repeat split; auto; try lia; try discriminate.
  - (* quantifier *)
    destruct (advance T (c :: r)) as [|c1 r1] eqn:Er1; [cbn; repeat split; auto; try lia; discriminate|].
    destruct (tlookup T c1) as [it1|] eqn:E1; [|cbn in *; repeat split; auto; try lia; discriminate].
    pose proof (tlookup_ok T Tok _ _ E1) as Hit1.
    destruct it1; try (cbn in *; repeat split; auto; try lia; discriminate).
    destruct (read_coords_ok T F c1 r1) as [G1 G2]; [cbn in *; lia|].
    destruct (read_coords T F (c1 :: r1)) as [[s|e|e] r2]; cbn in *;
      try (repeat split; auto; try lia; discriminate).
    unfold mk_var. rewrite Hit1.
    destruct (vmem (i, s) B); [cbn; repeat split; auto; try lia; discriminate|].
    destruct (IH ((i, s) :: B) r2 P) as [H1 [H2 H3]]; [lia | lia |].
    destruct (read C F k ((i, s) :: B) r2 P) as [[[body|e|e] r3] P3]; cbn in *;
      try (repeat split; auto; try lia; discriminate).
    destruct (occurs (i, s) body); cbn; repeat split; auto; try lia; try discriminate.
  - (* system predicate *)
    destruct (read_params_ok T Tok F B (sys_arity p) (advance T (c :: r))) as [H1 H2]; [cbn in Hl; lia|].
    destruct (read_params T F B (sys_arity p) (advance T (c :: r))) as [[ps|e|e] r2]; cbn in *;
      repeat split; auto; try lia; try discriminate.
  - (* user predicate *)
    destruct (read_coords_ok T F c r Hl) as [G1 G2].
    destruct (read_coords T F (c :: r)) as [[s|e|e] r1]; cbn in *;
      try (repeat split; auto; try lia; discriminate).
    destruct (slookup P (i, s)) as [a|].
    + destruct (read_params_ok T Tok F B a r1) as [H1 H2]; [lia|].
      destruct (read_params T F B a r1) as [[ps|e|e] r2]; cbn in *;
        repeat split; auto; try lia; try discriminate.
    + destruct (auto_preds C) eqn:Ea; [|cbn; repeat split; auto; try lia; discriminate].
      destruct (read_params_auto_ok T Tok F B F r1) as [H1 H2]; [lia | lia |].
      destruct (read_params_auto T F F B r1) as [[ps|e|e] r2]; cbn in *;
        try (repeat split; auto; try lia; discriminate).
      destruct ((length ps =? 0) || negb (i <=? maxi_pred)); [cbn; repeat split; auto; try lia; discriminate|].
      destruct Hfz as [Hf|Hf]; [|congruence].
      rewrite Hf. cbn; repeat split; auto; lia.
  - (* atomic *)
    destruct (read_coords_ok T F c r Hl) as [G1 G2].
    destruct (read_coords T F (c :: r)) as [[s|e|e] r1]; cbn in *;
      try (repeat split; auto; try lia; discriminate).
    unfold mk_atom. cbn in Hit. rewrite Hit. cbn; repeat split; auto; lia.
Qed.

(* C13, first half: for every input and every store the outcome is a sentence or a
   ParseError (sub)class — never another exception, never running out of fuel. *)
Theorem parse_never_other : forall P i k, fst (parse_polish C P i) <> OErr k.
Proof.
  intros P i k. unfold parse_polish, finish.
  pose proof (chomp_len T i) as Hc.
  destruct (read_ok (S (length i)) (S (length i)) [] (chomp T i) P) as [H1 _]; [lia | lia |].
  destruct (read C (S (length i)) (S (length i)) [] (chomp T i) P) as [[v r] P'].
  cbn in *. destruct (chomp T r); [|discriminate].
  destruct v; cbn in *; [discriminate | discriminate | contradiction].
Qed.

(* in particular the fuel the model gives itself always suffices *)
Corollary parse_terminates : forall P i, fst (parse_polish C P i) <> OErr OEFuel.
Proof. intros. apply parse_never_other. Qed.

End Cfg.

(* With a frozen store and auto-declaration (the default) the statement is false:
   the model — like the implementation — lets an AttributeError escape. *)
Theorem parse_frozen_refuted :
  forall T, tlookup T 70%N = Some (IPred 0) -> tlookup T 109%N = Some (IConst 0) ->
  exists P i, fst (parse_polish {| tab := T; auto_preds := true; frozen := true |} P i) = OErr OEAttr.
Proof.
  intros T HF Hm. exists [], [70; 109]%N.
  unfold parse_polish, finish. cbn [length tab chomp]. rewrite HF.
  cbn [read tab]. rewrite HF. unfold read_coords, advance. cbn [tl chomp]. rewrite Hm.
  cbn [read_sub]. rewrite Hm. cbn [bind2 slookup auto_preds].
  cbn [read_params_auto]. rewrite Hm. unfold read_parameter. rewrite Hm.
  unfold read_coords, advance. cbn [tl chomp read_sub bind1 mk_const maxi_param Nat.leb].
  cbn. reflexivity.
Qed.

(* ------------------------------------------------------------------------ *)
(* parse_wf: every returned sentence is constructible, closed, non-vacuous,
   re-binds nothing and applies every predicate to exactly the arity the store
   (after the parse) records for its symbol.                                  *)

Definition store_ok (P : store) : bool :=
  forallb (fun d => (fst (fst d) <=? maxi_pred) && (1 <=? decl_arity d)) P.

Definition decl_in_store (P : store) (d : decl) : bool :=
  match slookup P (decl_key d) with Some a => a =? decl_arity d | None => false end.

Definition arity_ok (P : store) (s : sent) : bool := forallb (decl_in_store P) (upreds s).

Definition ext (P P' : store) : Prop := forall k a, slookup P k = Some a -> slookup P' k = Some a.

Lemma ext_refl P : ext P P. Proof. intros k a H; exact H. Qed.
Lemma ext_trans P Q R : ext P Q -> ext Q R -> ext P R.
Proof. intros H1 H2 k a H. apply H2, H1, H. Qed.

Lemma slookup_app P X k : slookup (P ++ X) k =
  match slookup P k with Some a => Some a | None => slookup X k end.
Proof.
  induction P as [|d P IH]; simpl; [reflexivity|].
  destruct (pkey_eqb (decl_key d) k); auto.
Qed.

Lemma ext_app P X : ext P (P ++ X).
Proof. intros k a H. rewrite slookup_app, H. reflexivity. Qed.

Lemma decl_in_store_ext P P' d : ext P P' -> decl_in_store P d = true -> decl_in_store P' d = true.
Proof.
  unfold decl_in_store. intros He H.
  destruct (slookup P (decl_key d)) as [a|] eqn:E; [|discriminate].
  rewrite (He _ _ E). exact H.
Qed.

Lemma arity_ok_ext P P' s : ext P P' -> arity_ok P s = true -> arity_ok P' s = true.
Proof.
  unfold arity_ok. rewrite !forallb_forall. intros He H d Hd.
  eapply decl_in_store_ext; eauto.
Qed.

Lemma slookup_store_ok P k a : store_ok P = true -> slookup P k = Some a ->
  (fst k <=? maxi_pred) = true /\ (1 <=? a) = true.
Proof.
  induction P as [|d P IH]; simpl; [discriminate|].
  rewrite andb_true_iff. intros [Hd HP].
  destruct (pkey_eqb (decl_key d) k) eqn:E.
  - intros H; inversion H; subst. apply pkey_eqb_eq in E. subst k.
    apply andb_true_iff in Hd. destruct Hd as [H1 H2]. split; assumption.
  - intros H. apply IH; assumption.
Qed.

Lemma store_ok_app P X : store_ok (P ++ X) = store_ok P && store_ok X.
Proof. unfold store_ok. apply forallb_app. Qed.

Lemma arity_ok_pred P i sb a ps : slookup P (i, sb) = Some a -> arity_ok P (Pred (PUser i sb a) ps) = true.
Proof.
  intros H. unfold arity_ok, decl_in_store. cbn [upreds forallb].
  change (decl_key (i, sb, a)) with (i, sb). change (decl_arity (i, sb, a)) with a.
  rewrite H, Nat.eqb_refl. reflexivity.
Qed.

Lemma slookup_snoc P i sb a : slookup P (i, sb) = None -> slookup (P ++ [(i, sb, a)]) (i, sb) = Some a.
Proof.
  intros H. rewrite slookup_app, H. cbn [slookup].
  change (decl_key (i, sb, a)) with (i, sb). change (decl_arity (i, sb, a)) with a.
  replace (pkey_eqb (i, sb) (i, sb)) with true; [reflexivity|].
  symmetry. apply pkey_eqb_eq. reflexivity.
Qed.

Section Wf.
Variable C : cfg.
Hypothesis Tok : table_ok (tab C) = true.
Local Notation T := (tab C).

Lemma read_parameter_wf F B r p r' :
  read_parameter T F B r = (OK p, r') -> wf_param p = true /\ pvars_ok B p = true.
Proof.
  unfold read_parameter. destruct r as [|c r]; [discriminate|].
  destruct (tlookup T c) as [it|] eqn:E; [|discriminate].
  pose proof (tlookup_ok T Tok _ _ E) as Hit.
  destruct it; try discriminate.
  - destruct (read_coords T F (c :: r)) as [[s|e|e] r1]; cbn [bind1]; try discriminate.
    unfold mk_var. cbn in Hit. rewrite Hit.
    destruct (vmem (i, s) B) eqn:Ev; intros H; inversion H; subst.
    cbn. rewrite Hit, Ev. auto.
  - destruct (read_coords T F (c :: r)) as [[s|e|e] r1]; cbn [bind1]; try discriminate.
    unfold mk_const. cbn in Hit. rewrite Hit.
    intros H; inversion H; subst. cbn. rewrite Hit. auto.
Qed.

Lemma read_params_wf F B : forall n r ps r',
  read_params T F B n r = (OK ps, r') ->
  forallb wf_param ps = true /\ forallb (pvars_ok B) ps = true /\ length ps = n.
Proof.
  induction n as [|n IH]; intros r ps r'; cbn [read_params].
  - intros H; inversion H; subst. auto.
  - destruct (read_parameter T F B r) as [[p|e|e] r1] eqn:E1; cbn [bind1]; try discriminate.
    destruct (read_params T F B n r1) as [[qs|e|e] r2] eqn:E2; cbn [bind1]; try discriminate.
    intros H; inversion H; subst.
    destruct (read_parameter_wf _ _ _ _ _ E1) as [A1 A2].
    destruct (IH _ _ _ E2) as [B1 [B2 B3]].
    cbn. rewrite A1, A2, B1, B2, B3. auto.
Qed.

Lemma read_params_auto_wf F B : forall k r ps r',
  read_params_auto T F k B r = (OK ps, r') ->
  forallb wf_param ps = true /\ forallb (pvars_ok B) ps = true.
Proof.
  induction k as [|k IH]; intros r ps r'; cbn [read_params_auto]; [discriminate|].
  destruct r as [|c r]; [intros H; inversion H; subst; auto|].
  assert (Hstep : bind1 (read_parameter T F B (c :: r)) (fun p r1 =>
              bind1 (read_params_auto T F k B r1) (fun ps r2 => (OK (p :: ps), r2))) = (OK ps, r') ->
              forallb wf_param ps = true /\ forallb (pvars_ok B) ps = true).
  { destruct (read_parameter T F B (c :: r)) as [[p|e|e] r1] eqn:E1; cbn [bind1]; try discriminate.
    destruct (read_params_auto T F k B r1) as [[qs|e|e] r2] eqn:E2; cbn [bind1]; try discriminate.
    intros H; inversion H; subst.
    destruct (read_parameter_wf _ _ _ _ _ E1) as [A1 A2].
    destruct (IH _ _ _ E2) as [B1 B2].
    cbn. rewrite A1, A2, B1, B2. auto. }
  destruct (tlookup T c) as [[]|]; try exact Hstep; intros H; inversion H; subst; auto.
Qed.

Definition wf_in (B : list var) (P' : store) (s : sent) : Prop :=
  wf_items s = true /\ closed_in B s = true /\ nonvacuous s = true /\
  norebind_in B s = true /\ arity_ok P' s = true.

Lemma read_wf F : forall k B r P s r' P',
  store_ok P = true ->
  read C F k B r P = (OK s, r', P') ->
  wf_in B P' s /\ store_ok P' = true /\ ext P P' /\ (exists X, P' = P ++ X).
Proof.
  induction k as [|k IH]; intros B r P s r' P' HP; cbn [read]; [discriminate|].
  destruct r as [|c r]; [discriminate|].
  destruct (tlookup T c) as [it|] eqn:E; [|discriminate].
  pose proof (tlookup_ok T Tok _ _ E) as Hit.
  destruct it; try discriminate.
  - (* unary *)
    destruct (read C F k B (advance T (c :: r)) P) as [[[a|e|e] r1] P1] eqn:E1; cbn [bind3]; try discriminate.
    intros H; inversion H; subst.
    destruct (IH _ _ _ _ _ _ HP E1) as [[W1 [W2 [W3 [W4 W5]]]] [S1 [X1 X2]]].
    split; [|split; [exact S1 | split; [exact X1 | exact X2]]].
    unfold wf_in; cbn. repeat split; auto.
  - (* binary *)
    destruct (read C F k B (advance T (c :: r)) P) as [[[a|e|e] r1] P1] eqn:E1; cbn [bind3]; try discriminate.
    destruct (read C F k B r1 P1) as [[[b|e|e] r2] P2] eqn:E2; cbn [bind3]; try discriminate.
    intros H; inversion H; subst.
    destruct (IH _ _ _ _ _ _ HP E1) as [[W1 [W2 [W3 [W4 W5]]]] [S1 [X1 [Y1 Z1]]]].
    destruct (IH _ _ _ _ _ _ S1 E2) as [[V1 [V2 [V3 [V4 V5]]]] [S2 [X2 [Y2 Z2]]]].
    split; [|split; [exact S2 | split; [eapply ext_trans; eauto |]]].
    + unfold wf_in; cbn. rewrite W1, W2, W3, W4, V1, V2, V3, V4. repeat split; auto.
      unfold arity_ok in *. cbn. rewrite forallb_app.
      rewrite V5. rewrite andb_true_r.
      apply (arity_ok_ext P1 P' a X2 W5).
    + subst. exists (Y1 ++ Y2). rewrite app_assoc. reflexivity.
  - (* quantifier *)
    destruct (advance T (c :: r)) as [|c1 r1] eqn:Er1; [discriminate|].
    destruct (tlookup T c1) as [it1|] eqn:E1; [|discriminate].
    pose proof (tlookup_ok T Tok _ _ E1) as Hit1.
    destruct it1; try discriminate.
    destruct (read_coords T F (c1 :: r1)) as [[sb|e|e] r2]; cbn [bind2]; try discriminate.
    unfold mk_var. cbn in Hit1. rewrite Hit1.
    destruct (vmem (i, sb) B) eqn:Ev; [discriminate|].
    destruct (read C F k ((i, sb) :: B) r2 P) as [[[body|e|e] r3] P3] eqn:E3; cbn [bind3]; try discriminate.
    destruct (occurs (i, sb) body) eqn:Eo; [|discriminate].
    intros H; inversion H; subst.
    destruct (IH _ _ _ _ _ _ HP E3) as [[W1 [W2 [W3 [W4 W5]]]] [S1 [X1 X2]]].
    split; [|split; [exact S1 | split; [exact X1 | exact X2]]].
    unfold wf_in; cbn [wf_items closed_in nonvacuous norebind_in fst].
    split; [rewrite Hit1, W1; reflexivity|].
    split; [exact W2|].
    split; [rewrite Eo, W3; reflexivity|].
    split; [rewrite Ev; cbn; exact W4|].
    exact W5.
  - (* system predicate *)
    destruct (read_params T F B (sys_arity p) (advance T (c :: r))) as [[ps|e|e] r2] eqn:E2;
      cbn [bind2]; try discriminate.
    intros H; inversion H; subst.
    destruct (read_params_wf _ _ _ _ _ _ E2) as [A1 [A2 A3]].
    split; [|split; [exact HP | split; [apply ext_refl | exists []; rewrite app_nil_r; reflexivity]]].
    unfold wf_in; cbn [wf_items wf_pred closed_in nonvacuous norebind_in pred_arity]. rewrite A1, A2, A3, Nat.eqb_refl. repeat split; auto.
  - (* user predicate *)
    destruct (read_coords T F (c :: r)) as [[sb|e|e] r1]; cbn [bind2]; try discriminate.
    destruct (slookup P (i, sb)) as [a|] eqn:El.
    + destruct (read_params T F B a r1) as [[ps|e|e] r2] eqn:E2; cbn [bind2]; try discriminate.
      intros H; inversion H; subst.
      destruct (read_params_wf _ _ _ _ _ _ E2) as [A1 [A2 A3]].
      destruct (slookup_store_ok _ _ _ HP El) as [K1 K2]. cbn in K1.
      split; [|split; [exact HP | split; [apply ext_refl | exists []; rewrite app_nil_r; reflexivity]]].
      unfold wf_in; cbn [wf_items wf_pred closed_in nonvacuous norebind_in pred_arity]. rewrite A1, A2, A3, K1, K2, Nat.eqb_refl. repeat split; auto.
      apply arity_ok_pred. exact El.
    + destruct (auto_preds C); [|discriminate].
      destruct (read_params_auto T F F B r1) as [[ps|e|e] r2] eqn:E2; cbn [bind2]; try discriminate.
      destruct ((length ps =? 0) || negb (i <=? maxi_pred)) eqn:Eg; [discriminate|].
      destruct (frozen C); [discriminate|].
      intros H; inversion H; subst.
      apply orb_false_iff in Eg. destruct Eg as [G1 G2].
      apply negb_false_iff in G2. apply Nat.eqb_neq in G1.
      destruct (read_params_auto_wf _ _ _ _ _ _ E2) as [A1 A2].
      assert (K2 : (1 <=? length ps) = true) by (apply Nat.leb_le; lia).
      split; [|split; [|split; [apply ext_app | exists [(i, sb, length ps)]; reflexivity]]].
      * unfold wf_in; cbn [wf_items wf_pred closed_in nonvacuous norebind_in pred_arity]. rewrite A1, A2, G2, K2, Nat.eqb_refl. repeat split; auto.
        apply arity_ok_pred. apply slookup_snoc. exact El.
      * rewrite store_ok_app, HP. unfold store_ok, decl_arity. cbn [forallb fst snd andb]. rewrite G2, K2. reflexivity.
  - (* atomic *)
    destruct (read_coords T F (c :: r)) as [[sb|e|e] r1]; cbn [bind2]; try discriminate.
    unfold mk_atom. cbn in Hit. rewrite Hit.
    intros H; inversion H; subst.
    split; [|split; [exact HP | split; [apply ext_refl | exists []; rewrite app_nil_r; reflexivity]]].
    unfold wf_in; cbn. rewrite Hit. repeat split; auto.
Qed.

(* C13, second half. *)
Theorem parse_wf : forall P i s P', store_ok P = true ->
  parse_polish C P i = (OK s, P') ->
  wf_items s = true /\ closed s = true /\ nonvacuous s = true /\ norebind s = true /\
  arity_ok P' s = true.
Proof.
  intros P i s P' HP. unfold parse_polish, finish.
  destruct (read C (S (length i)) (S (length i)) [] (chomp T i) P) as [[v r] P1] eqn:E.
  destruct (chomp T r); [|discriminate].
  intros H; inversion H; subst.
  destruct (read_wf _ _ _ _ _ _ _ _ HP E) as [W _]. exact W.
Qed.

(* the store only grows, by appending, whatever the outcome *)
Lemma read_store_grows F : forall k B r P, exists X, o_sto (read C F k B r P) = P ++ X.
Proof.
  induction k as [|k IH]; intros B r P; cbn [read]; [exists []; cbn; rewrite app_nil_r; reflexivity|].
  assert (Hnil : forall (v : res sent) r0, exists X, o_sto (v, r0, P) = P ++ X)
    by (intros; exists []; cbn; rewrite app_nil_r; reflexivity).
  destruct r as [|c r]; [apply Hnil|].
  destruct (tlookup T c) as [[]|]; try apply Hnil.
  - destruct (IH B (advance T (c :: r)) P) as [X HX].
    destruct (read C F k B (advance T (c :: r)) P) as [[[a|e|e] r1] P1]; cbn in *; exists X; exact HX.
  - destruct (IH B (advance T (c :: r)) P) as [X HX].
    destruct (read C F k B (advance T (c :: r)) P) as [[[a|e|e] r1] P1]; cbn in *; try (exists X; exact HX).
    destruct (IH B r1 P1) as [Y HY].
    destruct (read C F k B r1 P1) as [[[b|e|e] r2] P2]; cbn in *; subst;
      exists (X ++ Y); rewrite app_assoc; reflexivity.
  - destruct (advance T (c :: r)) as [|c1 r1]; [apply Hnil|].
    destruct (tlookup T c1) as [[]|]; try apply Hnil.
    destruct (read_coords T F (c1 :: r1)) as [[sb|e|e] r2]; cbn [bind2]; try apply Hnil.
    destruct (mk_var i sb); try apply Hnil.
    destruct (vmem (i, sb) B); [apply Hnil|].
    destruct (IH ((i, sb) :: B) r2 P) as [X HX].
    destruct (read C F k ((i, sb) :: B) r2 P) as [[[body|e|e] r3] P3]; cbn in *; try (exists X; exact HX).
    destruct (occurs (i, sb) body); cbn; exists X; exact HX.
  - destruct (read_params T F B (sys_arity p) (advance T (c :: r))) as [[ps|e|e] r2]; cbn [bind2]; apply Hnil.
  - destruct (read_coords T F (c :: r)) as [[sb|e|e] r1]; cbn [bind2]; try apply Hnil.
    destruct (slookup P (i, sb)).
    + destruct (read_params T F B n r1) as [[ps|e|e] r2]; cbn [bind2]; apply Hnil.
    + destruct (auto_preds C); [|apply Hnil].
      destruct (read_params_auto T F F B r1) as [[ps|e|e] r2]; cbn [bind2]; try apply Hnil.
      destruct ((length ps =? 0) || negb (i <=? maxi_pred)); [apply Hnil|].
      destruct (frozen C); [apply Hnil|].
      exists [(i, sb, length ps)]. reflexivity.
  - destruct (read_coords T F (c :: r)) as [[sb|e|e] r1]; cbn [bind2]; try apply Hnil.
Qed.

Theorem parse_store_grows : forall P i, exists X, snd (parse_polish C P i) = P ++ X.
Proof.
  intros P i. unfold parse_polish, finish.
  destruct (read_store_grows (S (length i)) (S (length i)) [] (chomp T i) P) as [X HX].
  destruct (read C (S (length i)) (S (length i)) [] (chomp T i) P) as [[v r] P1].
  exists X. exact HX.
Qed.

End Wf.

(* ------------------------------------------------------------------------ *)
(* parse_pure: a parser instance is a state machine whose only state is its
   predicate store; the n-th outcome on an instance is the outcome of a fresh
   parser created with the store the earlier parses left behind.              *)

Theorem parse_pure : forall C P hist i,
  run_history C P (hist ++ [i]) =
  (fst (run_history C P hist) ++ [fst (parse_polish C (snd (run_history C P hist)) i)],
   snd (parse_polish C (snd (run_history C P hist)) i)).
Proof.
  intros C P hist. revert P.
  induction hist as [|h hist IH]; intros P i; cbn [run_history app].
  - cbn [fst snd app]. destruct (parse_polish C P i) as [v P1]. reflexivity.
  - destruct (parse_polish C P h) as [v P1].
    rewrite IH.
    destruct (run_history C P1 hist) as [vs P2]. cbn [fst snd app].
    destruct (parse_polish C P2 i) as [w P3]. reflexivity.
Qed.

(* two histories that leave the same declarations behind cannot be told apart *)
Corollary parse_history_independent : forall C P Q h1 h2 i,
  snd (run_history C P h1) = snd (run_history C Q h2) ->
  last (fst (run_history C P (h1 ++ [i]))) (OErr OEFuel) =
  last (fst (run_history C Q (h2 ++ [i]))) (OErr OEFuel).
Proof.
  intros C P Q h1 h2 i H. rewrite !parse_pure. cbn [fst].
  rewrite !last_last. rewrite H. reflexivity.
Qed.

(* without auto-declaration a parse never touches the store *)
Section NoAuto.
Variable C : cfg.
Hypothesis Hauto : auto_preds C = false.
Local Notation T := (tab C).

Lemma read_store_same F : forall k B r P, o_sto (read C F k B r P) = P.
Proof.
  induction k as [|k IH]; intros B r P; cbn [read]; [reflexivity|].
  destruct r as [|c r]; [reflexivity|].
  destruct (tlookup T c) as [[]|]; try reflexivity.
  - pose proof (IH B (advance T (c :: r)) P) as HX.
    destruct (read C F k B (advance T (c :: r)) P) as [[[a|e|e] r1] P1]; cbn in *; exact HX.
  - pose proof (IH B (advance T (c :: r)) P) as HX.
    destruct (read C F k B (advance T (c :: r)) P) as [[[a|e|e] r1] P1]; cbn in *; try exact HX.
    pose proof (IH B r1 P1) as HY.
    destruct (read C F k B r1 P1) as [[[b|e|e] r2] P2]; cbn in *; congruence.
  - destruct (advance T (c :: r)) as [|c1 r1]; [reflexivity|].
    destruct (tlookup T c1) as [[]|]; try reflexivity.
    destruct (read_coords T F (c1 :: r1)) as [[sb|e|e] r2]; cbn [bind2]; try reflexivity.
    destruct (mk_var i sb); try reflexivity.
    destruct (vmem (i, sb) B); [reflexivity|].
    pose proof (IH ((i, sb) :: B) r2 P) as HX.
    destruct (read C F k ((i, sb) :: B) r2 P) as [[[body|e|e] r3] P3]; cbn in *; try exact HX.
    destruct (occurs (i, sb) body); cbn; exact HX.
  - destruct (read_params T F B (sys_arity p) (advance T (c :: r))) as [[ps|e|e] r2]; reflexivity.
  - destruct (read_coords T F (c :: r)) as [[sb|e|e] r1]; cbn [bind2]; try reflexivity.
    destruct (slookup P (i, sb)).
    + destruct (read_params T F B n r1) as [[ps|e|e] r2]; reflexivity.
    + rewrite Hauto. reflexivity.
  - destruct (read_coords T F (c :: r)) as [[sb|e|e] r1]; cbn [bind2]; try reflexivity.
Qed.

Theorem parse_noauto_store : forall P i, snd (parse_polish C P i) = P.
Proof.
  intros P i. unfold parse_polish, finish.
  pose proof (read_store_same (S (length i)) (S (length i)) [] (chomp T i) P) as HX.
  destruct (read C (S (length i)) (S (length i)) [] (chomp T i) P) as [[v r] P1]. exact HX.
Qed.
End NoAuto.
