(* PRun — evaluation helpers of the C12 correspondence run (tools/c12.py). *)
From Coq Require Import List Bool Arith NArith String.
From PT Require Import Lang.PSyntax Lang.ParsePolish Lang.ParsePolishProofs Lang.WritePolish
     Lang.RoundTrip Lang.ArgStr Lang.PShow.
Import ListNotations.
Open Scope string_scope.

(* code points in binary, space separated *)
Definition show_str (w : str) : string := concat " " (map showN w).

Definition show_bool (b : bool) : string := if b then "T" else "F".

(* written string; is the sentence in the parsers' language; model parse of the written
   string with the empty store under auto-declaration; with the sentence's predicates
   declared and auto-declaration off *)
Definition rt_case (T : ptable) (W : wtable) (s : sent) : list string :=
  match write_polish W s with
  | Some w => [show_str w; show_bool (roundtrippable s);
               show_parse (parse_polish (cfg_of T true) [] w);
               show_parse (parse_polish (cfg_of T false) (decls s) w)]
  | None => ["WERR"; show_bool (roundtrippable s); ""; ""]
  end.

Definition show_seq (r : res (list sent)) : string :=
  match r with
  | OK l => "OK " ++ concat ";" (map show_sent l)
  | PErr e => "E " ++ show_perr e
  | OErr e => "E " ++ show_oerr e
  end.

Definition argstr_case (T : ptable) (W : wtable) (ss : list sent) : list string :=
  match argstr W ss with
  | Some w => [show_str w; show_seq (from_argstr T w)]
  | None => ["WERR"; ""]
  end.

From PT Require Import Lang.WriteStd Lang.ParseStd.

Definition show_ostr (o : option str) : string :=
  match o with Some w => show_str w | None => "WERR" end.

(* writer-only cases, any table *)
Definition wp_case (W : wtable) (s : sent) : string := show_ostr (write_polish W s).
Definition ws_case (S : swtable) (s : sent) : string := show_ostr (write_std S s).

(* model standard parser on a decorated rendering (empty store, auto-declaration) *)
Definition sp_case (T : ptable) (O : sopts) (i : str) : string :=
  show_parse (parse_std_opts (cfg_of T true) O [] i).

(* the standard writer under an option combination *)
Definition wso_case (O : wopts) (S : swtable) (s : sent) : string := show_ostr (write_stdo O S s).
