(* C14 — the construction cache of lexical items as a state machine
   (lang/lex.py `metacall`: LexicalAbcMeta.__call__ + DequeCache), together with
   the constructors it wraps, on Python-like argument values.

   One function [call] models BOTH the cached and the cache-free semantics
   ([use_cache] switches lookups and saves off), so that transparency is a
   statement about one definition.  [sysfix] selects the CURRENT code
   (/repo 581cf1c: `Predicate` given a system-predicate spec / ident /
   bicoords returns the Predicate.System member before anything else) or, when
   false, the code before that repair (kept so that the `_old_refuted`
   theorems document that the statements discriminate).

   Modelled call shapes (others return Err and are not claimed to
   correspond): coordinates as ints or one tuple of ints; components given as
   instances, as specs or as idents; abstract classes (Sentence, Parameter,
   CoordsItem, LexicalAbc) given an ident; Predicate given a system-predicate
   name.  Error kinds: TypeError / ValueError only.
   Not modelled: index keys that are the items themselves (idx[value] = value;
   never looked up by `call`), negative indexes of Constant/Variable/Atomic
   (accepted by the code, not representable in Syntax.v: the model answers
   ValueError), the content of error messages. *)
From Coq Require Import List Bool ZArith NArith String Lia.
From PT Require Import Sem.Values Lang.Syntax Lang.Lex.
Import ListNotations.
Open Scope string_scope.
Open Scope Z_scope.

Inductive pv := PInt (z : Z) | PStr (s : string) | PTup (l : list pv) | PItem (i : item).

(* Python == on these values as dict keys: an enum member / system predicate
   equals its name string but hashes differently, so as KEYS they differ. *)
Fixpoint pv_eqb (a b : pv) : bool :=
  match a, b with
  | PInt x, PInt y => Z.eqb x y
  | PStr x, PStr y => String.eqb x y
  | PItem x, PItem y => item_eqb x y
  | PTup l, PTup m =>
      (fix go (l m : list pv) : bool :=
         match l, m with
         | [], [] => true
         | x :: l', y :: m' => pv_eqb x y && go l' m'
         | _, _ => false
         end) l m
  | _, _ => false
  end.
Definition pvs_eqb (l m : list pv) : bool := pv_eqb (PTup l) (PTup m).

Inductive cls :=
| CPredicate | CConstant | CVariable | CQuantifier | COperator
| CAtomic | CPredicated | CQuantified | COperated
| CParameter | CSentence | CCoordsItem | CLexicalAbc.

Definition cls_name (c : cls) : string :=
  match c with
  | CPredicate => "Predicate" | CConstant => "Constant" | CVariable => "Variable"
  | CQuantifier => "Quantifier" | COperator => "Operator" | CAtomic => "Atomic"
  | CPredicated => "Predicated" | CQuantified => "Quantified" | COperated => "Operated"
  | CParameter => "Parameter" | CSentence => "Sentence" | CCoordsItem => "CoordsItem"
  | CLexicalAbc => "LexicalAbc"
  end.
Definition concrete_classes :=
  [CPredicate; CConstant; CVariable; CQuantifier; COperator; CAtomic; CPredicated; CQuantified; COperated].
(* LexType(clsname) *)
Definition cls_of_name (s : string) : option cls :=
  find (fun c => String.eqb (cls_name c) s) concrete_classes.
Definition concrete (c : cls) : bool :=
  match c with CParameter | CSentence | CCoordsItem | CLexicalAbc => false | _ => true end.
Definition is_lexabc (c : cls) : bool := match c with CLexicalAbc => true | _ => false end.

(* issubclass(C, c) for concrete C *)
Definition issub (C c : cls) : bool :=
  match C, c with
  | CConstant, (CConstant | CParameter | CCoordsItem | CLexicalAbc) => true
  | CVariable, (CVariable | CParameter | CCoordsItem | CLexicalAbc) => true
  | CPredicate, (CPredicate | CCoordsItem | CLexicalAbc) => true
  | CAtomic, (CAtomic | CSentence | CCoordsItem | CLexicalAbc) => true
  | CPredicated, (CPredicated | CSentence | CLexicalAbc) => true
  | CQuantified, (CQuantified | CSentence | CLexicalAbc) => true
  | COperated, (COperated | CSentence | CLexicalAbc) => true
  | CQuantifier, CQuantifier => true
  | COperator, COperator => true
  | _, _ => false
  end.

Definition item_cls (a : item) : cls :=
  match a with
  | IPred _ => CPredicate
  | IParam (Const _ _) => CConstant
  | IParam (Var _ _) => CVariable
  | IQuant _ => CQuantifier
  | IOper _ => COperator
  | ISent (Atom _ _) => CAtomic
  | ISent (Pred _ _) => CPredicated
  | ISent (Quant _ _ _ _) => CQuantified
  | ISent (Un _ _) | ISent (Bin _ _ _) => COperated
  end.

Definition q_name (q : quant) : string :=
  match q with Existential => "Existential" | Universal => "Universal" end.
Definition o_name (o : oper) : string :=
  match o with
  | OAssertion => "Assertion" | ONegation => "Negation" | OConjunction => "Conjunction"
  | ODisjunction => "Disjunction" | OMaterialConditional => "MaterialConditional"
  | OMaterialBiconditional => "MaterialBiconditional" | OConditional => "Conditional"
  | OBiconditional => "Biconditional" | OPossibility => "Possibility" | ONecessity => "Necessity"
  end.

(* ---- spec / ident (Lexical.spec, Lexical.identitem) ---- *)
Definition param_spec (p : param) : list pv :=
  match p with Const i s | Var i s => [PInt (Z.of_N i); PInt (Z.of_N s)] end.
Definition param_cls (p : param) : cls := match p with Const _ _ => CConstant | Var _ _ => CVariable end.
Definition param_ident (p : param) : pv := PTup [PStr (cls_name (param_cls p)); PTup (param_spec p)].
Definition pred_spec (p : pred) : list pv :=
  [PInt (pidx p); PInt (Z.of_N (psub p)); PInt (Z.of_N (parity p))].

Fixpoint sent_spec (s : sent) : list pv :=
  match s with
  | Atom i t => [PInt (Z.of_N i); PInt (Z.of_N t)]
  | Pred p ps => [PTup (pred_spec p); PTup (map param_ident ps)]
  | Quant q vi vs b =>
      [PStr (q_name q); PTup [PInt (Z.of_N vi); PInt (Z.of_N vs)];
       PTup [PStr (cls_name (item_cls (ISent b))); PTup (sent_spec b)]]
  | Un o a => [PStr (o_name o); PTup [PTup [PStr (cls_name (item_cls (ISent a))); PTup (sent_spec a)]]]
  | Bin o a b => [PStr (o_name o);
                  PTup [PTup [PStr (cls_name (item_cls (ISent a))); PTup (sent_spec a)];
                        PTup [PStr (cls_name (item_cls (ISent b))); PTup (sent_spec b)]]]
  end.

Definition spec_args (a : item) : list pv :=
  match a with
  | IPred p => pred_spec p
  | IParam p => param_spec p
  | IQuant q => [PStr (q_name q)]
  | IOper o => [PStr (o_name o)]
  | ISent s => sent_spec s
  end.
Definition ident_pv (a : item) : pv := PTup [PStr (cls_name (item_cls a)); PTup (spec_args a)].

(* ---- the cache ---- *)
Record cfg := { use_cache : bool; maxlen : nat; sysfix : bool }.
Definition key := (string * list pv)%type.
Record cache := { queue : list item; idx : list (key * item) }.
Definition empty : cache := {| queue := []; idx := [] |}.

Definition key_eqb (a b : key) : bool := String.eqb (fst a) (fst b) && pvs_eqb (snd a) (snd b).
Definition ident_key (a : item) : key := (cls_name (item_cls a), spec_args a).

(* cache[key] *)
Definition lookup (c : cfg) (st : cache) (k : key) : option item :=
  if use_cache c then option_map snd (find (fun e => key_eqb (fst e) k) (idx st)) else None.

Definition set_idx (l : list (key * item)) (k : key) (v : item) : list (key * item) :=
  if existsb (fun e => key_eqb (fst e) k) l
  then map (fun e => if key_eqb (fst e) k then (k, v) else e) l
  else l ++ [(k, v)].

(* DequeCache.__setitem__(key, value):
     if value in rev: value = idx[value]
     else:
        if len(rev) >= queue.maxlen:
            old = queue.popleft(); for k in rev.pop(old): del idx[k]
        idx[value] = value; rev[value] = {value}; queue.append(value)
     idx[key] = value; rev[value].add(key)
   rev[v] is exactly the set of keys mapped to v, so evicting v removes the
   idx entries whose value is v.  (maxlen = 0 makes popleft raise IndexError at
   import time; the theorems assume maxlen >= 1.) *)
Definition save (c : cfg) (st : cache) (k : key) (v : item) : cache :=
  if negb (use_cache c) then st
  else if existsb (item_eqb v) (queue st)
  then {| queue := queue st; idx := set_idx (idx st) k v |}
  else
    let qi :=
      if Nat.leb (maxlen c) (List.length (queue st)) then
        match queue st with
        | [] => ([], idx st)
        | old :: q' => (q', filter (fun e => negb (item_eqb (snd e) old)) (idx st))
        end
      else (queue st, idx st) in
    {| queue := fst qi ++ [v]; idx := set_idx (snd qi) k v |}.

Inductive ekind := ETypeError | EValueError.
Inductive R (A : Type) := OK (a : A) | Err (e : ekind) | Fuel.
Arguments OK {A} a.
Arguments Err {A} e.
Arguments Fuel {A}.
Definition res := R item.

(* state monad over the cache *)
Definition M (A : Type) := cache -> R A * cache.
Definition lift {A} (r : R A) : M A := fun st => (r, st).
Definition bind {A B} (m : M A) (f : A -> M B) : M B :=
  fun st => match m st with
            | (OK a, s) => f a s
            | (Err e, s) => (Err e, s)
            | (Fuel, s) => (Fuel, s)
            end.

Definition MAXI (k : cls) : Z := match k with CAtomic => 4 | _ => 3 end.

(* CoordsItem.__new__ for Constant / Variable / Atomic *)
Definition build_coords (k : cls) (l : list pv) : res :=
  match l with
  | [PInt i; PInt s] =>
      if MAXI k <? i then Err EValueError
      else if s <? 0 then Err EValueError
      else if i <? 0 then Err EValueError   (* accepted by the code; not representable *)
      else match k with
           | CConstant => OK (IParam (Const (Z.to_N i) (Z.to_N s)))
           | CVariable => OK (IParam (Var (Z.to_N i) (Z.to_N s)))
           | CAtomic => OK (ISent (Atom (Z.to_N i) (Z.to_N s)))
           | _ => Err ETypeError
           end
  | _ => Err ETypeError
  end.

(* Predicate.__new__ / __init__: index > maxi, subscript < 0 (CoordsItem),
   arity <= 0, index < 0 ("`index` must be >= 0": Predicate.System is set),
   len(spec) != 3 *)
Definition build_pred (l : list pv) : res :=
  match l with
  | PInt i :: PInt s :: PInt a :: rest =>
      if 3 <? i then Err EValueError
      else if s <? 0 then Err EValueError
      else if a <=? 0 then Err EValueError
      else if i <? 0 then Err EValueError
      else match rest with
           | [] => OK (IPred (mkPred i (Z.to_N s) (Z.to_N a)))
           | _ => Err ETypeError
           end
  | _ => Err ETypeError
  end.

Definition unwrap1 (args : list pv) : option (list pv) :=
  match args with
  | [PTup l] => Some l
  | [_] => None
  | _ => Some args
  end.

Definition quant_of (x : pv) : res :=
  match x with
  | PItem (IQuant q) => OK (IQuant q)
  | PStr s => match find (fun q => String.eqb (q_name q) s) all_quants with
              | Some q => OK (IQuant q) | None => Err EValueError end
  | _ => Err EValueError
  end.
Definition oper_of (x : pv) : res :=
  match x with
  | PItem (IOper o) => OK (IOper o)
  | PStr s => match find (fun o => String.eqb (o_name o) s) all_opers with
              | Some o => OK (IOper o) | None => Err EValueError end
  | _ => Err EValueError
  end.

Definition sys_name (p : pred) : string :=
  if Z.eqb (pidx p) (-1) then "Identity" else "Existence".
Definition system_preds : list pred := [Existence; Identity].

(* Predicate.System(arg) for a string *)
Definition sys_pred_of (s : string) : res :=
  match find (fun p => String.eqb (sys_name p) s) system_preds with
  | Some p => OK (IPred p)
  | None => Err EValueError
  end.

(* Predicate.System[key]: the member lookup keys of a system predicate are its
   name, (name,), spec, ident, bicoords and the member itself
   (EnumLookup._default_keys + SystemPredicate._member_keys = pred.refs | {pred}) *)
Definition sys_keys (p : pred) : list pv :=
  [PStr (sys_name p); PTup [PStr (sys_name p)]; PTup (pred_spec p);
   PTup [PStr "Predicate"; PTup (pred_spec p)];
   PTup [PInt (pidx p); PInt (Z.of_N (psub p))]; PItem (IPred p)].
Definition sys_lookup (key : pv) : option pred :=
  find (fun p => existsb (pv_eqb key) (sys_keys p)) system_preds.

Definition as_pred (a : item) : M pred :=
  match a with IPred p => lift (OK p) | _ => lift (Err ETypeError) end.
Definition as_quant (a : item) : M quant :=
  match a with IQuant q => lift (OK q) | _ => lift (Err ETypeError) end.
Definition as_oper (a : item) : M oper :=
  match a with IOper o => lift (OK o) | _ => lift (Err ETypeError) end.
Definition as_sent (a : item) : M sent :=
  match a with ISent s => lift (OK s) | _ => lift (Err ETypeError) end.
Definition as_var (a : item) : M (N * N) :=
  match a with IParam (Var i s) => lift (OK (i, s)) | _ => lift (Err ETypeError) end.

Definition params_of_items (l : list item) : option (list param) :=
  fold_right (fun a acc => match a, acc with IParam p, Some r => Some (p :: r) | _, _ => None end)
             (Some []) l.
Definition sents_of_items (l : list item) : option (list sent) :=
  fold_right (fun a acc => match a, acc with ISent s, Some r => Some (s :: r) | _, _ => None end)
             (Some []) l.

Definition mk_predicated (p : pred) (items : list item) : res :=
  match params_of_items items with
  | Some ps => if Nat.eqb (List.length ps) (N.to_nat (parity p))
               then OK (ISent (Pred p ps)) else Err ETypeError
  | None => Err ETypeError
  end.
Definition mk_operated (o : oper) (items : list item) : res :=
  match sents_of_items items with
  | Some [a] => if Nat.eqb (arity o) 1 then OK (ISent (Un o a)) else Err EValueError
  | Some [a; b] => if Nat.eqb (arity o) 2 then OK (ISent (Bin o a b)) else Err EValueError
  | Some _ => Err EValueError                (* Emsg.ArityMismatch *)
  | None => Err ETypeError
  end.

Definition is_param_item (a : item) : bool := match a with IParam _ => true | _ => false end.
Definition is_sent_item (a : item) : bool := match a with ISent _ => true | _ => false end.

Section Rec.
(* the metaclass call one level down *)
Variable rec : cls -> list pv -> M item.

Fixpoint map_call (k : cls) (l : list pv) : M (list item) :=
  match l with
  | [] => lift (OK [])
  | x :: l' => bind (rec k [x]) (fun a => bind (map_call k l') (fun r => lift (OK (a :: r))))
  end.

(* the parameters / operands argument: one instance, or an iterable whose
   elements are converted by Parameter(...) / Sentence(...) *)
Definition items_arg (K : cls) (sel : item -> bool) (x : pv) : M (list item) :=
  match x with
  | PItem a => if sel a then lift (OK [a]) else lift (Err ETypeError)
  | PTup l => map_call K l
  | _ => lift (Err ETypeError)
  end.

(* supercall(cls, *spec): __new__ + __init__ of the invoked class *)
Definition construct (k : cls) (args : list pv) : M item :=
  match k with
  | CConstant | CVariable | CAtomic =>
      lift (match unwrap1 args with Some l => build_coords k l | None => Err ETypeError end)
  | CPredicate =>
      lift (match unwrap1 args with Some l => build_pred l | None => Err ETypeError end)
  | CPredicated =>
      match args with
      | [] => lift (Err ETypeError)
      | parg :: rest =>
          let params := match rest with [x] => x | _ => PTup rest end in
          bind (rec CPredicate [parg]) (fun a =>
          bind (as_pred a) (fun p =>
          bind (items_arg CParameter is_param_item params)
               (fun items => lift (mk_predicated p items))))
      end
  | CQuantified =>
      match args with
      | [q; v; s] =>
          bind (lift (quant_of q)) (fun a =>
          bind (as_quant a) (fun qq =>
          bind (rec CVariable [v]) (fun a1 =>
          bind (as_var a1) (fun vv =>
          bind (rec CSentence [s]) (fun a2 =>
          bind (as_sent a2) (fun b => lift (OK (ISent (Quant qq (fst vv) (snd vv) b)))))))))
      | _ => lift (Err ETypeError)
      end
  | COperated =>
      match args with
      | [] => lift (Err ETypeError)
      | oarg :: rest =>
          let operands := match rest with [x] => x | _ => PTup rest end in
          bind (lift (oper_of oarg)) (fun a =>
          bind (as_oper a) (fun o =>
          bind (items_arg CSentence is_sent_item operands)
               (fun items => lift (mk_operated o items))))
      end
  | CQuantifier => lift (match args with [x] => quant_of x | _ => Err ETypeError end)
  | COperator => lift (match args with [x] => oper_of x | _ => Err ETypeError end)
  | CParameter | CSentence | CCoordsItem | CLexicalAbc => lift (Err ETypeError)   (* abstract *)
  end.
End Rec.

(* The special cases at the top of metacall.call: passthrough of an instance,
   system predicate by name, and (current code) system predicate by any of its
   lookup keys. *)
Definition special (c : cfg) (k : cls) (args : list pv) : option res :=
  let s1 := match args with
            | [PItem a] => if issub (item_cls a) k then Some (OK a) else None
            | [PStr s] => match k with CPredicate => Some (sys_pred_of s) | _ => None end
            | _ => None
            end in
  match s1 with
  | Some r => Some r
  | None =>
      match k with
      | CPredicate =>
          if sysfix c
          then option_map (fun p => OK (IPred p))
                          (sys_lookup (match args with [x] => x | _ => PTup args end))
          else None
      | _ => None
      end
  end.

Definition save2 (c : cfg) (st : cache) (ky : key) (inst : item) : cache :=
  save c (save c st ky inst) (ident_key inst) inst.

(* the `except TypeError` branch: an abstract class given an ident *)
Definition fallback (rec : cls -> list pv -> M item) (c : cfg) (k : cls) (args : list pv) : M item :=
  fun st1 =>
  if concrete k || negb (Nat.eqb (List.length args) 1) then (Err ETypeError, st1)
  else
    match args with
    | [PTup [PStr cn; PTup sp]] =>
        match cls_of_name cn with
        | None => (Err EValueError, st1)
        | Some C =>
            if negb (is_lexabc k || issub C k) then (Err ETypeError, st1)
            else match lookup c st1 (cn, sp) with
                 | Some v => (OK v, st1)
                 | None =>
                     match rec C sp st1 with
                     | (OK inst, st2) => (OK inst, save2 c st2 (cn, sp) inst)
                     | other => other
                     end
                 end
        end
    | [PTup [_; _]] => (Err EValueError, st1)
    | _ => (Err ETypeError, st1)
    end.

(* metacall.call(cls, *spec) *)
Fixpoint call (fuel : nat) (c : cfg) (k : cls) (args : list pv) : M item :=
  match fuel with
  | O => lift Fuel
  | S f =>
    match k with
    | CQuantifier | COperator => construct (call f c) k args     (* Enum call: no cache *)
    | _ =>
      match special c k args with
      | Some r => lift r
      | None =>
        fun st =>
        let ky := (cls_name k, args) in
        match lookup c st ky with
        | Some v => (OK v, st)
        | None =>
          match construct (call f c) k args st with
          | (OK inst, st1) => (OK inst, save2 c st1 ky inst)
          | (Err ETypeError, st1) => fallback (call f c) c k args st1
          | other => other
          end
        end
      end
    end
  end.

Definition cached (ml : nat) : cfg := {| use_cache := true; maxlen := ml; sysfix := true |}.
Definition nocache : cfg := {| use_cache := false; maxlen := 0; sysfix := true |}.
(* the code before /repo 581cf1c *)
Definition cached_old (ml : nat) : cfg := {| use_cache := true; maxlen := ml; sysfix := false |}.
Definition nocache_old : cfg := {| use_cache := false; maxlen := 0; sysfix := false |}.

(* A history of constructor calls, from some state. *)
Definition op := (cls * list pv)%type.
Fixpoint run (fuel : nat) (c : cfg) (h : list op) (st : cache) : list res * cache :=
  match h with
  | [] => ([], st)
  | (k, args) :: h' =>
      let '(r, st1) := call fuel c k args st in
      let '(rs, st2) := run fuel c h' st1 in (r :: rs, st2)
  end.

(* The cache-free meaning of a call. *)
Definition build0 (fuel : nat) (k : cls) (args : list pv) : res := fst (call fuel nocache k args empty).
Definition build0_old (fuel : nat) (k : cls) (args : list pv) : res :=
  fst (call fuel nocache_old k args empty).

Definition res_eqb (a b : res) : bool :=
  match a, b with
  | OK x, OK y => item_eqb x y
  | Err ETypeError, Err ETypeError | Err EValueError, Err EValueError => true
  | Fuel, Fuel => true
  | _, _ => false
  end.

(* cache transparency of one history + final call, as a boolean *)
Definition transparent_b (fuel ml : nat) (h : list op) (o : op) : bool :=
  let st := snd (run fuel (cached ml) h empty) in
  res_eqb (fst (call fuel (cached ml) (fst o) (snd o) st)) (build0 fuel (fst o) (snd o)).
Definition transparent_old_b (fuel ml : nat) (h : list op) (o : op) : bool :=
  let st := snd (run fuel (cached_old ml) h empty) in
  res_eqb (fst (call fuel (cached_old ml) (fst o) (snd o) st)) (build0_old fuel (fst o) (snd o)).

(* rebuilding an item from its spec / its ident, cache-free *)
Definition rebuild_spec (fuel : nat) (a : item) : res := build0 fuel (item_cls a) (spec_args a).
Definition rebuild_ident (fuel : nat) (a : item) : res := build0 fuel CLexicalAbc [ident_pv a].
Definition rebuild_spec_old (fuel : nat) (a : item) : res := build0_old fuel (item_cls a) (spec_args a).
Definition rebuild_ident_old (fuel : nat) (a : item) : res := build0_old fuel CLexicalAbc [ident_pv a].

(* ---- correspondence helpers (tools/c14.py) ---- *)
Fixpoint trace (fuel : nat) (c : cfg) (h : list op) (st : cache) : list (res * list item) :=
  match h with
  | [] => []
  | (k, args) :: h' =>
      let '(r, st1) := call fuel c k args st in (r, queue st1) :: trace fuel c h' st1
  end.

Definition obs_eqb (a b : res * list item) : list bool :=
  [res_eqb (fst a) (fst b); list_eqb item_eqb (snd a) (snd b)].

Fixpoint zip_obs (l m : list (res * list item)) : list (list bool) :=
  match l, m with
  | x :: l', y :: m' => obs_eqb x y :: zip_obs l' m'
  | _, _ => []
  end.

(* pre: the flushing prefix (fillers) whose results are not compared *)
Definition check_trace (fuel ml : nat) (pre h : list op) (obs : list (res * list item))
  : list (list bool) :=
  zip_obs (trace fuel (cached ml) h (snd (run fuel (cached ml) pre empty))) obs.

(* every call of the history against its cache-free meaning *)
Definition check_free (fuel : nat) (h : list op) (obs : list res) : list bool :=
  map (fun p => res_eqb (build0 fuel (fst (fst p)) (snd (fst p))) (snd p)) (combine h obs).

(* results only (large maxlen: the queue is not compared) *)
Definition check_results (fuel ml : nat) (h : list op) (obs : list res) : list bool :=
  map (fun p => res_eqb (fst (fst p)) (snd p)) (combine (trace fuel (cached ml) h empty) obs).
