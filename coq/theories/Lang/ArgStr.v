(* ArgStr — C12, canonical argument string: Argument.argstr() joins the Polish ASCII
   renderings of conclusion and premises with ':'; Argument.from_argstr splits on ':' and
   parses the pieces in order with ONE fresh Polish parser (auto_preds=True), so the
   predicates auto-declared by earlier pieces constrain later ones. *)
From Coq Require Import List Bool Arith NArith Lia.
From PT Require Import Lang.PSyntax Lang.Dec Lang.ParsePolish Lang.ParsePolishProofs Lang.WritePolish
     Lang.RoundTrip.
Import ListNotations.

Definition colon : N := 58%N.

(* str.split(':') *)
Fixpoint split58 (w : str) : list str :=
  match w with
  | [] => [[]]
  | c :: r =>
    if (c =? colon)%N then [] :: split58 r
    else match split58 r with x :: xs => (c :: x) :: xs | [] => [[c]] end
  end.

(* first failure, else all sentences *)
Fixpoint sequence (l : list (res sent)) : res (list sent) :=
  match l with
  | [] => OK []
  | OK s :: r => match sequence r with OK ss => OK (s :: ss) | PErr e => PErr e | OErr e => OErr e end
  | PErr e :: _ => PErr e
  | OErr e :: _ => OErr e
  end.

(* Argument.from_argstr / Argument(argstr) *)
Definition from_argstr (T : ptable) (w : str) : res (list sent) :=
  sequence (fst (run_history (cfg_of T true) [] (split58 w))).

Lemma split58_nocolon x : ~ In colon x -> split58 x = [x].
Proof.
  induction x as [|c x IH]; intros H; [reflexivity|].
  cbn [split58]. destruct (c =? colon)%N eqn:E.
  - apply N.eqb_eq in E. exfalso. apply H. left. exact E.
  - rewrite IH; [reflexivity|]. intros Hin. apply H. right. exact Hin.
Qed.

Lemma split58_app x rest : ~ In colon x -> split58 (x ++ colon :: rest) = x :: split58 rest.
Proof.
  induction x as [|c x IH]; intros H.
  - cbn [app split58]. rewrite N.eqb_refl. reflexivity.
  - cbn [app split58]. destruct (c =? colon)%N eqn:E.
    + apply N.eqb_eq in E. exfalso. apply H. left. exact E.
    + rewrite IH; [reflexivity|]. intros Hin. apply H. right. exact Hin.
Qed.

Lemma split_join : forall ws, ws <> [] -> (forall w, In w ws -> ~ In colon w) ->
  split58 (join_colon ws) = ws.
Proof.
  induction ws as [|x ws IH]; intros Hne H; [congruence|].
  destruct ws as [|y ws].
  - cbn [join_colon]. apply split58_nocolon. apply H. left; reflexivity.
  - change (join_colon (x :: y :: ws)) with (x ++ colon :: join_colon (y :: ws)).
    rewrite split58_app by (apply H; left; reflexivity).
    rewrite IH; [reflexivity | discriminate |]. intros w Hw. apply H. right. exact Hw.
Qed.

Section Chars.
Variable T : ptable.
Variable W : wtable.
Hypothesis AG : agree T W.

Definition known (w : str) : Prop := forall c, In c w -> tlookup T c <> None.

Lemma known_app a b : known a -> known b -> known (a ++ b).
Proof. intros Ha Hb c Hc. apply in_app_or in Hc. destruct Hc; auto. Qed.

Lemma known_single c it : tlookup T c = Some it -> known [c].
Proof. intros H c' [<-|[]]. congruence. Qed.

Lemma known_cons c it w : tlookup T c = Some it -> known w -> known (c :: w).
Proof. intros H Hw c' [<-|Hin]; [congruence | apply Hw; exact Hin]. Qed.

Lemma wsub_known sub w : wsub W sub = Some w -> known w.
Proof.
  intros H. destruct (wsub_spec T W AG _ _ H) as [[_ ->]|[_ ->]]; [intros c []|].
  intros c Hc. apply in_map_iff in Hc. destruct Hc as [d [<- Hd]].
  unfold chr. rewrite (ag_digit _ _ AG d (dec_digits_lt10 _ _ Hd)). discriminate.
Qed.

Lemma wparam_known p w : wparam W p = Some w -> wf_param p = true -> known w.
Proof.
  intros Hw Hwf. destruct (wparam_spec T W AG _ _ Hw Hwf) as [c [ws [sub [-> [Hs Hc]]]]].
  destruct Hc as [[i [_ Hl]]|[i [_ Hl]]]; (eapply known_cons; [eauto | eapply wsub_known; eauto]).
Qed.

Lemma wparams_known : forall ps w, wparams W ps = Some w -> forallb wf_param ps = true -> known w.
Proof.
  induction ps as [|p ps IH]; intros w Hw Hwf.
  - cbn in Hw. inversion Hw. intros c [].
  - cbn [wparams] in Hw. destruct (wparam W p) as [wp|] eqn:Ep; [|discriminate].
    destruct (wparams W ps) as [wps|] eqn:Eps; [|discriminate]. cbn in Hw. inversion Hw; subst.
    cbn [forallb] in Hwf. apply andb_true_iff in Hwf. destruct Hwf as [H1 H2].
    apply known_app; [eapply wparam_known; eauto | apply IH; auto].
Qed.

Lemma write_known : forall s w, write_polish W s = Some w -> wf_items s = true -> known w.
Proof.
  induction s as [i sub|p args|q [i sub] b IH|o a IH|o a IHa b IHb]; intros w Hw Hwf;
    cbn [wf_items write_polish] in *.
  - apply Nat.leb_le in Hwf. destruct (ag_atom _ _ AG i Hwf) as [c [Hc Hl]].
    unfold wcoords in Hw. rewrite Hc in Hw. destruct (wsub W sub) as [ws|] eqn:Es; [|discriminate].
    cbn in Hw. inversion Hw; subst.
    eapply known_cons; [eauto | eapply wsub_known; eauto].
  - apply andb_true_iff in Hwf. destruct Hwf as [Hwf _]. apply andb_true_iff in Hwf. destruct Hwf as [H1 H2].
    destruct (wparams W args) as [wps|] eqn:Eps; [|destruct (wpred W p); discriminate].
    pose proof (wparams_known _ _ Eps H2) as Hk.
    destruct p as [q|i sub a]; cbn [wpred] in Hw.
    + destruct (ag_sys _ _ AG q) as [c [Hc Hl]]. rewrite Hc in Hw. cbn in Hw. inversion Hw; subst.
      eapply known_cons; eauto.
    + cbn [wf_pred] in H1. apply andb_true_iff in H1. destruct H1 as [H1 _]. apply Nat.leb_le in H1.
      destruct (ag_pred _ _ AG i H1) as [c [Hc Hl]]. unfold wcoords in Hw. rewrite Hc in Hw.
      destruct (wsub W sub) as [ws|] eqn:Es; [|discriminate]. cbn in Hw. inversion Hw; subst.
      eapply known_cons; [eauto|]. apply known_app; [eapply wsub_known; eauto | exact Hk].
  - apply andb_true_iff in Hwf. destruct Hwf as [Hi Hwb]. cbn [fst] in Hi. apply Nat.leb_le in Hi.
    destruct (ag_quant _ _ AG q) as [c [Hc Hl]]. rewrite Hc in Hw.
    destruct (ag_var _ _ AG i Hi) as [cv [Hv Hlv]].
    unfold wcoords in Hw. rewrite Hv in Hw. destruct (wsub W sub) as [ws|] eqn:Es; [|discriminate].
    destruct (write_polish W b) as [wb|] eqn:Eb; [|discriminate].
    cbn in Hw. inversion Hw; subst.
    eapply known_cons; [eauto|]. eapply known_cons; [eauto|].
    apply known_app; [eapply wsub_known; eauto | apply IH; auto].
  - destruct (ag_uop _ _ AG o) as [c [Hc Hl]]. rewrite Hc in Hw.
    destruct (write_polish W a) as [wa|] eqn:Ea; [|discriminate].
    cbn in Hw. inversion Hw; subst.
    eapply known_cons; [eauto | apply IH; auto].
  - apply andb_true_iff in Hwf. destruct Hwf as [Hwa Hwb].
    destruct (ag_bop _ _ AG o) as [c [Hc Hl]]. rewrite Hc in Hw.
    destruct (write_polish W a) as [wa|] eqn:Ea; [|discriminate].
    destruct (write_polish W b) as [wb|] eqn:Eb; [|discriminate].
    cbn in Hw. inversion Hw; subst.
    eapply known_cons; [eauto|]. apply known_app; [apply IHa | apply IHb]; auto.
Qed.

End Chars.

(* the sentences of an argument: each in the language, jointly arity-consistent *)
Definition sent_ok (s : sent) : bool := wf_items s && closed s && nonvacuous s && norebind s.

Definition argument_ok (ss : list sent) : bool :=
  negb (match ss with [] => true | _ => false end) &&
  forallb sent_ok ss && consistent_decls (flat_map upreds ss).

Section Arg.
Variable T : ptable.
Variable W : wtable.
Hypothesis AG : agree T W.

Lemma run_written : forall ss ws P,
  omap (write_polish W) ss = Some ws -> forallb sent_ok ss = true ->
  compat P (flat_map upreds ss) -> cons (flat_map upreds ss) ->
  run_history (cfg_of T true) P ws = (map OK ss, decls_from P (flat_map upreds ss)).
Proof.
  induction ss as [|s ss IH]; intros ws P Hw Hok Hc Hk.
  - cbn in Hw. inversion Hw. reflexivity.
  - cbn [omap] in Hw. destruct (write_polish W s) as [w|] eqn:Ew; [|discriminate].
    destruct (omap (write_polish W) ss) as [ws'|] eqn:Ews; [|discriminate]. inversion Hw; subst ws.
    cbn [forallb] in Hok. apply andb_true_iff in Hok. destruct Hok as [Hs Hss].
    unfold sent_ok in Hs. rewrite !andb_true_iff in Hs. destruct Hs as [[[Hwf Hcl] Hnv] Hnr].
    cbn [flat_map] in *.
    assert (Hp : parse_polish (cfg_of T true) P w = (OK s, decls_from P (upreds s))).
    { apply (parse_written (cfg_of T true) W AG eq_refl s w P _ Ew Hwf Hcl Hnv Hnr).
      cbn [auto_preds cfg_of]. apply acs_auto.
      - intros d Hd. apply Hc. apply in_or_app; left; exact Hd.
      - eapply cons_app_l; eauto. }
    cbn [run_history]. rewrite Hp.
    rewrite (IH ws' (decls_from P (upreds s)) eq_refl Hss).
    + cbn [map]. rewrite decls_from_app. reflexivity.
    + intros d Hd a' Ha'. destruct (slookup_decls_from _ _ _ _ Ha') as [H1|[e [H1 [H2 H3]]]].
      * apply (Hc d); [apply in_or_app; right; exact Hd | exact H1].
      * rewrite <- H3. apply Hk; [apply in_or_app; left; exact H1 | apply in_or_app; right; exact Hd | exact H2].
    + eapply cons_app_r; eauto.
Qed.

Lemma sequence_map_OK ss : sequence (map OK ss) = OK ss.
Proof. induction ss as [|s ss IH]; [reflexivity|]. cbn [map sequence]. rewrite IH. reflexivity. Qed.

Lemma omap_total : forall ss, forallb sent_ok ss = true -> exists ws, omap (write_polish W) ss = Some ws.
Proof.
  induction ss as [|s ss IH]; intros H; [cbn; eauto|].
  cbn [forallb] in H. apply andb_true_iff in H. destruct H as [Hs Hss].
  unfold sent_ok in Hs. rewrite !andb_true_iff in Hs. destruct Hs as [[[Hwf _] _] _].
  destruct (write_total (cfg_of T true) W AG s Hwf) as [w Hw]. destruct (IH Hss) as [ws Hws].
  cbn [omap]. rewrite Hw, Hws. eauto.
Qed.

Lemma omap_In : forall ss ws w, omap (write_polish W) ss = Some ws -> In w ws ->
  exists s, In s ss /\ write_polish W s = Some w.
Proof.
  induction ss as [|s ss IH]; intros ws w H Hin.
  - cbn in H. inversion H; subst. destruct Hin.
  - cbn [omap] in H. destruct (write_polish W s) as [w0|] eqn:E; [|discriminate].
    destruct (omap (write_polish W) ss) as [ws'|] eqn:E2; [|discriminate]. inversion H; subst.
    destruct Hin as [<-|Hin].
    + exists s. split; [left; reflexivity | exact E].
    + destruct (IH ws' w eq_refl Hin) as [s' [H1 H2]]. exists s'. split; [right; exact H1 | exact H2].
Qed.

Lemma omap_nonempty ss ws : omap (write_polish W) ss = Some ws -> ss <> [] -> ws <> [].
Proof.
  destruct ss as [|s ss]; [congruence|]. cbn [omap].
  destruct (write_polish W s); [|discriminate]. destruct (omap (write_polish W) ss); [|discriminate].
  intros H _. inversion H. discriminate.
Qed.

(* C12: the canonical argument string rebuilds an equal argument *)
Theorem argstr_roundtrip : tlookup T colon = None ->
  forall ss, argument_ok ss = true ->
  exists w, argstr W ss = Some w /\ from_argstr T w = OK ss.
Proof.
  intros Hcolon ss Hok. unfold argument_ok in Hok. rewrite !andb_true_iff in Hok.
  destruct Hok as [[Hne Hss] Hk]. apply consistent_decls_cons in Hk.
  assert (Hne' : ss <> []) by (destruct ss; [discriminate | discriminate]).
  destruct (omap_total ss Hss) as [ws Hws].
  exists (join_colon ws). split; [unfold argstr; rewrite Hws; reflexivity|].
  unfold from_argstr. rewrite split_join.
  - rewrite (run_written ss ws [] Hws Hss); [apply sequence_map_OK | | exact Hk].
    intros d _ a H. discriminate.
  - eapply omap_nonempty; eauto.
  - intros w Hw Hin. destruct (omap_In ss ws w Hws Hw) as [s [Hs1 Hs2]].
    rewrite forallb_forall in Hss. specialize (Hss s Hs1).
    unfold sent_ok in Hss. rewrite !andb_true_iff in Hss. destruct Hss as [[[Hwf _] _] _].
    apply (write_known T W AG s w Hs2 Hwf colon Hin). exact Hcolon.
Qed.

End Arg.
