(* C15 — executable model of substitution and the derived attributes of
   sentences, mirroring lang/lex.py class by class.

   Sentence.substitute      (Atomic inherits it)  : return self
   Predicated.substitute    : if pnew == pold: return self
                              predicate(pnew if p == pold else p for p in self)
   Quantified.substitute    : if pnew == pold: return self
                              quantifier(variable, sentence.substitute(pnew, pold))
                              -- the bound variable itself is never touched
   Operated.substitute      : if pnew == pold: return self
                              operator(s.substitute(pnew, pold) for s in self)
   Quantified.unquantify(c) : sentence.substitute(Constant(c), variable)
   Sentence.negative        : lhs if Operated with operator Negation, else Negation(self)
   Sentence.negate          : Negation(self)

   Derived attributes (class attributes / lazy props), sets as lists in the
   order in which the code's generator expressions produce the elements:
     Atomic     : atomics = {self}; everything else empty
     Predicated : predicates = {pred}; constants / variables = params filtered
                  by type; operators = quantifiers = (), atomics = {}
     Quantified : everything delegated to the body, except
                  quantifiers = (quantifier, *body.quantifiers)
     Operated   : union / concatenation over the operands, operators =
                  (operator, *concat operands' operators)                    *)
From Coq Require Import List Bool ZArith NArith.
From PT Require Import Sem.Values Lang.Syntax.
Import ListNotations.

Definition subst_param (pnew pold p : param) : param :=
  if param_eqb p pold then pnew else p.

Fixpoint substitute (pnew pold : param) (s : sent) : sent :=
  match s with
  | Atom _ _ => s
  | Pred p ps =>
      if param_eqb pnew pold then s else Pred p (map (subst_param pnew pold) ps)
  | Quant q vi vs b =>
      if param_eqb pnew pold then s else Quant q vi vs (substitute pnew pold b)
  | Un o a =>
      if param_eqb pnew pold then s else Un o (substitute pnew pold a)
  | Bin o a b =>
      if param_eqb pnew pold then s
      else Bin o (substitute pnew pold a) (substitute pnew pold b)
  end.

(* `c >> s` / s.unquantify(c); None: s is not Quantified (AttributeError /
   NotImplemented in the code). *)
Definition unquantify (c : param) (s : sent) : option sent :=
  match s with
  | Quant _ vi vs b => Some (substitute c (Var vi vs) b)
  | _ => None
  end.

Definition negate (s : sent) : sent := Un ONegation s.

Definition negative (s : sent) : sent :=
  match s with
  | Un ONegation a => a
  | _ => Un ONegation s
  end.

(* ---- derived attributes, as the classes compute them ---- *)
Fixpoint constants (s : sent) : list param :=
  match s with
  | Atom _ _ => []
  | Pred _ ps => filter is_const ps
  | Quant _ _ _ b => constants b
  | Un _ a => constants a
  | Bin _ a b => constants a ++ constants b
  end.

Fixpoint variables (s : sent) : list param :=
  match s with
  | Atom _ _ => []
  | Pred _ ps => filter is_var ps
  | Quant _ _ _ b => variables b
  | Un _ a => variables a
  | Bin _ a b => variables a ++ variables b
  end.

Fixpoint predicates (s : sent) : list pred :=
  match s with
  | Atom _ _ => []
  | Pred p _ => [p]
  | Quant _ _ _ b => predicates b
  | Un _ a => predicates a
  | Bin _ a b => predicates a ++ predicates b
  end.

(* atomics: the set of Atomic sentences, as their coordinates *)
Fixpoint atomics (s : sent) : list (N * N) :=
  match s with
  | Atom i t => [(i, t)]
  | Pred _ _ => []
  | Quant _ _ _ b => atomics b
  | Un _ a => atomics a
  | Bin _ a b => atomics a ++ atomics b
  end.

Fixpoint operators (s : sent) : list oper :=
  match s with
  | Atom _ _ | Pred _ _ => []
  | Quant _ _ _ b => operators b
  | Un o a => o :: operators a
  | Bin o a b => o :: operators a ++ operators b
  end.

Fixpoint quantifiers (s : sent) : list quant :=
  match s with
  | Atom _ _ | Pred _ _ => []
  | Quant q _ _ b => q :: quantifiers b
  | Un _ a => quantifiers a
  | Bin _ a b => quantifiers a ++ quantifiers b
  end.

(* ---- the specification side: one structural walk ---- *)

(* Apply f to every parameter occurrence of every predication; nothing else
   changes (in particular not the binders). *)
Fixpoint map_params (f : param -> param) (s : sent) : sent :=
  match s with
  | Atom _ _ => s
  | Pred p ps => Pred p (map f ps)
  | Quant q vi vs b => Quant q vi vs (map_params f b)
  | Un o a => Un o (map_params f a)
  | Bin o a b => Bin o (map_params f a) (map_params f b)
  end.

(* The skeleton: the sentence with its parameter occurrences erased. *)
Inductive shape :=
| SAtom (i s : N) | SPred (p : pred) (n : nat) | SQuant (q : quant) (vi vs : N) (b : shape)
| SUn (o : oper) (a : shape) | SBin (o : oper) (a b : shape).

Fixpoint shape_of (s : sent) : shape :=
  match s with
  | Atom i t => SAtom i t
  | Pred p ps => SPred p (length ps)
  | Quant q vi vs b => SQuant q vi vs (shape_of b)
  | Un o a => SUn o (shape_of a)
  | Bin o a b => SBin o (shape_of a) (shape_of b)
  end.

(* Parameter occurrences in prefix (Polish) order. *)
Fixpoint params_of (s : sent) : list param :=
  match s with
  | Atom _ _ => []
  | Pred _ ps => ps
  | Quant _ _ _ b => params_of b
  | Un _ a => params_of a
  | Bin _ a b => params_of a ++ params_of b
  end.

(* The prefix-order token stream of a sentence (its Polish notation). *)
Inductive token :=
| TAtom (i s : N) | TPred (p : pred) | TParam (p : param)
| TQuant (q : quant) | TBind (vi vs : N) | TOper (o : oper).

Fixpoint tokens (s : sent) : list token :=
  match s with
  | Atom i t => [TAtom i t]
  | Pred p ps => TPred p :: map TParam ps
  | Quant q vi vs b => TQuant q :: TBind vi vs :: tokens b
  | Un o a => TOper o :: tokens a
  | Bin o a b => TOper o :: tokens a ++ tokens b
  end.

Definition pick {A} (f : token -> option A) (ts : list token) : list A :=
  flat_map (fun t => match f t with Some a => [a] | None => [] end) ts.

Definition tk_const t := match t with TParam (Const i s) => Some (Const i s) | _ => None end.
Definition tk_var t := match t with TParam (Var i s) => Some (Var i s) | _ => None end.
Definition tk_pred t := match t with TPred p => Some p | _ => None end.
Definition tk_atom t := match t with TAtom i s => Some (i, s) | _ => None end.
Definition tk_oper t := match t with TOper o => Some o | _ => None end.
Definition tk_quant t := match t with TQuant q => Some q | _ => None end.

(* Sets are compared by mutual inclusion. *)
Definition same_set {A} (l m : list A) : Prop := forall x, In x l <-> In x m.

(* ---- boolean helpers for the correspondence run ---- *)
Definition subset_b {A} (eqb : A -> A -> bool) (l m : list A) : bool :=
  forallb (fun x => existsb (eqb x) m) l.
Definition same_set_b {A} (eqb : A -> A -> bool) (l m : list A) : bool :=
  subset_b eqb l m && subset_b eqb m l.
Definition pair_eqb (a b : N * N) : bool := N.eqb (fst a) (fst b) && N.eqb (snd a) (snd b).
Definition opt_sent_eqb (a b : option sent) : bool :=
  match a, b with Some x, Some y => sent_eqb x y | None, None => true | _, _ => false end.

(* What the implementation reported for one sentence (probe_c15.py). *)
Record observed := {
  o_constants : list param; o_variables : list param; o_predicates : list pred;
  o_atomics : list (N * N); o_operators : list oper; o_quantifiers : list quant;
  o_negative : sent; o_negate : sent }.

(* Bit list: constants variables predicates atomics operators quantifiers negative negate *)
Definition check_attrs (s : sent) (o : observed) : list bool :=
  [ same_set_b param_eqb (constants s) (o_constants o);
    same_set_b param_eqb (variables s) (o_variables o);
    same_set_b pred_eqb (predicates s) (o_predicates o);
    same_set_b pair_eqb (atomics s) (o_atomics o);
    list_eqb oper_eqb (operators s) (o_operators o);
    list_eqb quant_eqb (quantifiers s) (o_quantifiers o);
    sent_eqb (negative s) (o_negative o);
    sent_eqb (negate s) (o_negate o) ].

(* substitute(new, old) and, for quantified sentences, unquantify(c). *)
Definition check_subst (s : sent) (pnew pold : param) (r : sent) : bool :=
  sent_eqb (substitute pnew pold s) r.
Definition check_unq (s : sent) (c : param) (r : option sent) : bool :=
  opt_sent_eqb (unquantify c s) r.
Definition all_true (l : list bool) : bool := forallb (fun b => b) l.
