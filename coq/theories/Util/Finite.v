(* Finite search with witnesses: the bridge between a complete enumeration
   decided by vm_compute and a universally quantified statement. *)
From Coq Require Import List Bool.
Import ListNotations.

Section FindSome.
  Context {A B : Type}.
  Fixpoint find_some (f : A -> option B) (l : list A) : option B :=
    match l with
    | [] => None
    | x :: r => match f x with Some b => Some b | None => find_some f r end
    end.

  Lemma find_some_none f l : find_some f l = None -> forall x, In x l -> f x = None.
  Proof.
    induction l as [|y r IH]; simpl; intros H x Hx; [contradiction|].
    destruct (f y) eqn:E; [discriminate|].
    destruct Hx as [<-|Hx]; [exact E|]. apply IH; assumption.
  Qed.

  Lemma find_some_some f l b : find_some f l = Some b -> exists x, In x l /\ f x = Some b.
  Proof.
    induction l as [|y r IH]; simpl; intros H; [discriminate|].
    destruct (f y) eqn:E.
    - injection H as <-. exists y. auto.
    - destruct (IH H) as [x [Hx Hf]]. exists x. auto.
  Qed.

  Lemma find_some_none_iff f l : find_some f l = None <-> forall x, In x l -> f x = None.
  Proof.
    split; [apply find_some_none|].
    induction l as [|y r IH]; simpl; intros H; [reflexivity|].
    rewrite (H y (or_introl eq_refl)). apply IH. intros x Hx. apply H. auto.
  Qed.
End FindSome.

Definition is_none {A} (o : option A) : bool := match o with None => true | Some _ => false end.
Lemma is_none_true {A} (o : option A) : is_none o = true <-> o = None.
Proof. destruct o; simpl; split; intro H; try reflexivity; discriminate. Qed.

(* guard b w = None iff b holds; otherwise the witness w. *)
Definition guard {W} (b : bool) (w : W) : option W := if b then None else Some w.
Lemma guard_none {W} b (w : W) : guard b w = None <-> b = true.
Proof. destruct b; simpl; split; intro H; try reflexivity; discriminate. Qed.
Lemma guard_some {W} b (w w' : W) : guard b w = Some w' -> b = false /\ w' = w.
Proof. destruct b; simpl; intro H; [discriminate|]. injection H as <-. auto. Qed.

Definition orelse {W} (a b : option W) : option W := match a with Some w => Some w | None => b end.
Lemma orelse_none {W} (a b : option W) : orelse a b = None <-> a = None /\ b = None.
Proof. destruct a, b; simpl; split; intro H; try tauto; try discriminate; destruct H; discriminate. Qed.

Lemma existsb_ext_in {A} (f g : A -> bool) (l : list A) :
  (forall x, In x l -> f x = g x) -> existsb f l = existsb g l.
Proof.
  induction l as [|x r IH]; simpl; intro H; [reflexivity|].
  rewrite (H x (or_introl eq_refl)), IH; [reflexivity|]. intros y Hy. apply H. auto.
Qed.

Lemma forallb_ext_in {A} (f g : A -> bool) (l : list A) :
  (forall x, In x l -> f x = g x) -> forallb f l = forallb g l.
Proof.
  induction l as [|x r IH]; simpl; intro H; [reflexivity|].
  rewrite (H x (or_introl eq_refl)), IH; [reflexivity|]. intros y Hy. apply H. auto.
Qed.
