(* _complete_frames: every atom / opaque / predicate known anywhere is assigned
   (the unassigned value unless already set) in every frame. *)
From Coq Require Import List Bool Arith Lia.
From PT Require Import Sem.Values Sem.MSyntax Sem.LimitBest Sem.Access Sem.PyModel.
Import ListNotations.

Definition memn' (x : nat) (l : list nat) : bool := existsb (Nat.eqb x) l.

Lemma get_atom_app l1 l2 w a :
  get_atom (l1 ++ l2) w a = match get_atom l1 w a with Some v => Some v | None => get_atom l2 w a end.
Proof.
  induction l1 as [|[[w' a'] v] r IH]; simpl; [reflexivity|].
  destruct (Nat.eqb w w' && Nat.eqb a a'); [reflexivity|exact IH].
Qed.
Lemma get_opaq_app l1 l2 w s :
  get_opaq (l1 ++ l2) w s = match get_opaq l1 w s with Some v => Some v | None => get_opaq l2 w s end.
Proof.
  induction l1 as [|[[w' s'] v] r IH]; simpl; [reflexivity|].
  destruct (Nat.eqb w w' && sent_eqb s s'); [reflexivity|exact IH].
Qed.

(* ---- atoms ---------------------------------------------------------------- *)
Lemma fill_atoms_inner un w as_ : forall l w' a',
  get_atom (fold_left (fun l a => match get_atom l w a with Some _ => l | None => l ++ [(w, a, un)] end) as_ l) w' a' =
  match get_atom l w' a' with
  | Some v => Some v
  | None => if Nat.eqb w' w && memn' a' as_ then Some un else None
  end.
Proof.
  induction as_ as [|a r IH]; intros l w' a'; simpl.
  - destruct (get_atom l w' a'); [reflexivity|]. rewrite andb_false_r. reflexivity.
  - rewrite IH. destruct (get_atom l w a) eqn:G.
    + destruct (get_atom l w' a') eqn:G'; [reflexivity|].
      destruct (Nat.eqb w' w) eqn:Ew; simpl; [|reflexivity].
      destruct (Nat.eqb a' a) eqn:Ea; simpl; [|reflexivity].
      apply Nat.eqb_eq in Ew, Ea. subst. rewrite G in G'. discriminate.
    + rewrite get_atom_app. destruct (get_atom l w' a') eqn:G'; [reflexivity|].
      simpl. destruct (Nat.eqb w' w) eqn:Ew; simpl; [|reflexivity].
      destruct (Nat.eqb a' a) eqn:Ea; simpl; [reflexivity|reflexivity].
Qed.

Lemma fill_atoms_get un ws as_ : forall l w a,
  get_atom (fill_atoms un ws as_ l) w a =
  match get_atom l w a with
  | Some v => Some v
  | None => if memn' w ws && memn' a as_ then Some un else None
  end.
Proof.
  unfold fill_atoms. induction ws as [|w0 r IH]; intros l w a; simpl.
  - destruct (get_atom l w a); reflexivity.
  - rewrite IH, fill_atoms_inner. destruct (get_atom l w a); [reflexivity|].
    destruct (Nat.eqb w w0); simpl; [|reflexivity].
    destruct (memn' a as_); simpl; [reflexivity|].
    rewrite andb_false_r. reflexivity.
Qed.

(* ---- opaques --------------------------------------------------------------- *)
Definition mems (x : sent) (l : list sent) : bool := existsb (sent_eqb x) l.

Lemma fill_opaqs_inner un w ss : forall l w' s',
  get_opaq (fold_left (fun l s => match get_opaq l w s with Some _ => l | None => l ++ [(w, s, un)] end) ss l) w' s' =
  match get_opaq l w' s' with
  | Some v => Some v
  | None => if Nat.eqb w' w && mems s' ss then Some un else None
  end.
Proof.
  induction ss as [|s r IH]; intros l w' s'; simpl.
  - destruct (get_opaq l w' s'); [reflexivity|]. rewrite andb_false_r. reflexivity.
  - rewrite IH. destruct (get_opaq l w s) eqn:G.
    + destruct (get_opaq l w' s') eqn:G'; [reflexivity|].
      destruct (Nat.eqb w' w) eqn:Ew; simpl; [|reflexivity].
      destruct (sent_eqb s' s) eqn:Es; simpl; [|reflexivity].
      apply Nat.eqb_eq in Ew. apply sent_eqb_eq in Es. subst. rewrite G in G'. discriminate.
    + rewrite get_opaq_app. destruct (get_opaq l w' s') eqn:G'; [reflexivity|].
      simpl. destruct (Nat.eqb w' w) eqn:Ew; simpl; [|reflexivity].
      destruct (sent_eqb s' s) eqn:Es; simpl; reflexivity.
Qed.

Lemma fill_opaqs_get un ws ss : forall l w s,
  get_opaq (fill_opaqs un ws ss l) w s =
  match get_opaq l w s with
  | Some v => Some v
  | None => if memn' w ws && mems s ss then Some un else None
  end.
Proof.
  unfold fill_opaqs. induction ws as [|w0 r IH]; intros l w s; simpl.
  - destruct (get_opaq l w s); reflexivity.
  - rewrite IH, fill_opaqs_inner. destruct (get_opaq l w s); [reflexivity|].
    destruct (Nat.eqb w w0); simpl; [|reflexivity].
    destruct (mems s ss); simpl; [reflexivity|].
    rewrite andb_false_r. reflexivity.
Qed.

(* ---- predicate keys -------------------------------------------------------- *)
Lemma addpk_in x l y : In y (addpk x l) <-> In y l \/ y = x.
Proof.
  unfold addpk. destruct (existsb _ l) eqn:E.
  - split; [auto|]. intros [H| ->]; [exact H|].
    apply existsb_exists in E. destruct E as [z [Hz Ez]].
    apply andb_true_iff in Ez. destruct Ez as [E1 E2].
    apply Nat.eqb_eq in E1. apply pred_eqb_eq in E2.
    destruct x, z; simpl in *; subst; exact Hz.
  - rewrite in_app_iff. simpl. split; [intros [H|[H|[]]]; auto|intros [H| ->]; auto].
Qed.

Lemma fill_pkeys_in ws ps : forall l y,
  In y (fill_pkeys ws ps l) <-> In y l \/ (In (fst y) ws /\ In (snd y) ps).
Proof.
  unfold fill_pkeys. induction ws as [|w r IH]; intros l y; simpl.
  - tauto.
  - rewrite IH.
    assert (Inner : forall ps l, In y (fold_left (fun l p => addpk (w, p) l) ps l) <->
                                 In y l \/ (fst y = w /\ In (snd y) ps)).
    { clear. induction ps as [|p t IHp]; intro l; simpl; [tauto|].
      rewrite IHp, addpk_in. destruct y as [yw yp]; simpl. split.
      - intros [[H|H]|[H1 H2]]; auto. injection H as -> ->. auto.
      - intros [H|[H1 [H2|H2]]]; auto. subst. auto. }
    rewrite Inner. destruct y as [yw yp]; simpl. split.
    + intros [[H|[H1 H2]]|[H1 H2]]; auto.
    + intros [H|[[H1|H1] H2]]; auto.
Qed.

Lemma addn_in x l y : In y (addn x l) <-> In y l \/ y = x.
Proof.
  unfold addn. destruct (existsb (Nat.eqb x) l) eqn:E.
  - split; [auto|]. intros [H| ->]; [exact H|].
    apply existsb_exists in E. destruct E as [z [Hz Ez]]. apply Nat.eqb_eq in Ez. subst. exact Hz.
  - rewrite in_app_iff. simpl. split; [intros [H|[H|[]]]; auto|intros [H| ->]; auto].
Qed.
Lemma fold_addn_in ws : forall l y, In y (fold_left (fun l w => addn w l) ws l) <-> In y l \/ In y ws.
Proof.
  induction ws as [|w r IH]; intros l y; simpl; [tauto|].
  rewrite IH, addn_in. split; [intros [[H|H]|H]|intros [H|[H|H]]]; auto.
Qed.

Lemma memn'_In x l : memn' x l = true <-> In x l.
Proof.
  unfold memn'. rewrite existsb_exists. split.
  - intros [y [Hy E]]. apply Nat.eqb_eq in E. subst; exact Hy.
  - intro H. exists x. split; [exact H|apply Nat.eqb_refl].
Qed.
Lemma mems_In x l : mems x l = true <-> In x l.
Proof.
  unfold mems. rewrite existsb_exists. split.
  - intros [y [Hy E]]. apply sent_eqb_eq in E. subst; exact Hy.
  - intro H. exists x. split; [exact H|apply sent_eqb_refl].
Qed.

(* what "known anywhere" means *)
Lemma addsent_in x l y : In y (addsent x l) <-> In y l \/ y = x.
Proof.
  unfold addsent. destruct (existsb (sent_eqb x) l) eqn:E.
  - split; [auto|]. intros [H| ->]; [exact H|].
    apply existsb_exists in E. destruct E as [z [Hz Ez]]. apply sent_eqb_eq in Ez. subst. exact Hz.
  - rewrite in_app_iff. simpl. split; [intros [H|[H|[]]]; auto|intros [H| ->]; auto].
Qed.

Lemma known_atoms_assigned st w a v : In (w, a, v) (s_atoms st) -> In a (known_atoms st).
Proof.
  unfold known_atoms. generalize (fold_left (fun l s => atoms_acc s l) (s_sents st) []).
  induction (s_atoms st) as [|e r IH]; intros l0 H; [contradiction|]. simpl.
  destruct H as [->|H].
  - simpl. clear IH.
    assert (G : forall (r : list (nat * nat * val)) l, In a l -> In a (fold_left (fun l e => addn (snd (fst e)) l) r l)).
    { clear. induction r as [|e r IH]; intros l H; simpl; [exact H|]. apply IH. apply addn_in. auto. }
    apply G. apply addn_in. auto.
  - apply IH. exact H.
Qed.
Lemma known_opaques_assigned st w s v : In (w, s, v) (s_opaqs st) -> In s (known_opaques st).
Proof.
  unfold known_opaques. generalize (@nil sent).
  induction (s_opaqs st) as [|e r IH]; intros l0 H; [contradiction|]. simpl.
  destruct H as [->|H].
  - simpl. clear IH.
    assert (G : forall (r : list (nat * sent * val)) l, In s l -> In s (fold_left (fun l e => addsent (snd (fst e)) l) r l)).
    { clear. induction r as [|e r IH]; intros l H; simpl; [exact H|]. apply IH. apply addsent_in. auto. }
    apply G. apply addsent_in. auto.
  - apply IH. exact H.
Qed.

Lemma atoms_acc_mono s : forall l a, In a l -> In a (atoms_acc s l).
Proof.
  induction s; intros l a H; simpl; auto.
  apply addn_in. auto.
Qed.
Lemma atoms_acc_own s : forall l a, In a (atoms_of s) -> In a (atoms_acc s l).
Proof.
  unfold atoms_of.
  assert (G : forall s l0 l a, In a (atoms_acc s l0) -> In a l0 \/ In a (atoms_acc s l)).
  { induction s0; intros l0 l a H; simpl in *; auto.
    - apply addn_in in H. destruct H as [H| ->]; [auto|right; apply addn_in; auto].
    - apply IHs0_2 with (l := atoms_acc s0_1 l) in H. destruct H as [H|H]; [|auto].
      apply IHs0_1 with (l := l) in H. destruct H as [H|H]; [auto|].
      right. apply atoms_acc_mono. exact H. }
  intros l a H. destruct (G s [] l a H) as [[]|H']. exact H'.
Qed.
Lemma known_atoms_sentence st s a : In s (s_sents st) -> In a (atoms_of s) -> In a (known_atoms st).
Proof.
  intros Hs Ha. unfold known_atoms.
  assert (G : forall (r : list (nat * nat * val)) l, In a l -> In a (fold_left (fun l e => addn (snd (fst e)) l) r l)).
  { clear. induction r as [|e r IH]; intros l H; simpl; [exact H|]. apply IH. apply addn_in. auto. }
  apply G. clear G. generalize (@nil nat).
  induction (s_sents st) as [|x r IH]; intros l0; [contradiction|]. simpl.
  destruct Hs as [->|Hs].
  - assert (G : forall r l, In a l -> In a (fold_left (fun l s => atoms_acc s l) r l)).
    { clear. induction r as [|e r IH]; intros l H; simpl; [exact H|]. apply IH. apply atoms_acc_mono. exact H. }
    apply G. apply atoms_acc_own. exact Ha.
  - apply IH. exact Hs.
Qed.

(* ---- complete_frames_total -------------------------------------------------- *)
Theorem complete_frames_total L st st' :
  s_complete st = false -> complete_frames L st = Some st' ->
  (* frames and R know the same worlds afterwards *)
  (forall w, In w (s_fkeys st') <-> In w (s_fkeys st) \/ In w (aw (s_R st))) /\
  (forall w, In w (s_fkeys st') -> frame_ok L w = true) /\
  forall w, In w (s_fkeys st') ->
    (forall a, In a (known_atoms st) ->
       get_atom (s_atoms st') w a =
       Some (match get_atom (s_atoms st) w a with Some v => v | None => ml_unass L end)) /\
    (forall s, In s (known_opaques st) ->
       get_opaq (s_opaqs st') w s =
       Some (match get_opaq (s_opaqs st) w s with Some v => v | None => ml_unass L end)) /\
    (forall p, In p (known_preds st) -> In (w, p) (s_pkeys st')).
Proof.
  intros HC H. unfold complete_frames in H. rewrite HC in H.
  destruct (s_finished st); [discriminate|].
  set (fk := fold_left (fun l w => addn w l) (aw (s_R st)) (s_fkeys st)) in *.
  destruct (forallb (frame_ok L) fk) eqn:FO; simpl in H; [|discriminate].
  injection H as <-. cbn [s_fkeys s_atoms s_opaqs s_pkeys].
  split; [intro w; unfold fk; apply fold_addn_in|].
  split; [intros w Hw; rewrite forallb_forall in FO; apply FO; exact Hw|].
  intros w Hw. split; [|split].
  - intros a Ha. rewrite fill_atoms_get. destruct (get_atom (s_atoms st) w a); [reflexivity|].
    apply memn'_In in Hw. apply memn'_In in Ha. rewrite Hw, Ha. reflexivity.
  - intros s Hs. rewrite fill_opaqs_get. destruct (get_opaq (s_opaqs st) w s); [reflexivity|].
    apply memn'_In in Hw. apply mems_In in Hs. rewrite Hw, Hs. reflexivity.
  - intros p Hp. apply fill_pkeys_in. right. simpl. auto.
Qed.

(* after completion value_of's lookups never fall back on the default *)
Corollary complete_frames_assigns L st st' w a :
  s_complete st = false -> complete_frames L st = Some st' ->
  In w (s_fkeys st') -> In a (known_atoms st) ->
  get_atom (s_atoms st') w a = Some (atom_val L st w a).
Proof.
  intros HC H Hw Ha. destruct (complete_frames_total L st st' HC H) as [_ [_ T]].
  destruct (T w Hw) as [TA _]. rewrite (TA a Ha). unfold atom_val, dflt.
  destruct (get_atom (s_atoms st) w a); reflexivity.
Qed.

(* evaluation is not changed by the completion: it only materialises defaults *)
Lemma complete_frames_same_values L st st' :
  s_complete st = false -> complete_frames L st = Some st' ->
  forall w a, atom_val L st' w a = atom_val L st w a.
Proof.
  intros HC H w a. unfold complete_frames in H. rewrite HC in H.
  destruct (s_finished st); [discriminate|].
  destruct (forallb _ _); simpl in H; [|discriminate]. injection H as <-.
  unfold atom_val. cbn [s_atoms]. rewrite fill_atoms_get.
  destruct (get_atom (s_atoms st) w a); [reflexivity|].
  destruct (_ && _); reflexivity.
Qed.
