(* BaseModel.get_data / Frame.get_data / PredicateInterpretation.having
   (models/__init__.py l.389-422, 591-638, 705-712) as a function from the
   PyModel state to a canonical tree.  `sorted(...)` is modelled by a stable
   insertion sort on the package's lexical order: Lexical.orderitems compares
   the flat integer sort_tuple of two items position by position, padding the
   shorter one with zeros. *)
From Coq Require Import List Bool Arith ZArith Lia.
From PT Require Import Sem.Values Sem.MSyntax Sem.LimitBest Sem.Access Sem.PyModel Sem.Classical.
Import ListNotations.
Open Scope Z_scope.

(* ---- sort_tuple ------------------------------------------------------------ *)
Definition zn (n : nat) : Z := Z.of_nat n.
Definition atom_key (n : nat) : list Z := [60; zn (n / 5); zn (n mod 5)].
Definition param_key (p : param) : list Z :=
  match p with
  | PC n => [20; zn (n / 4); zn (n mod 4)]
  | PV n => [30; zn (n / 4); zn (n mod 4)]
  end.
Definition pred_key (p : pred) : list Z :=
  match p with
  | PExistence => [10; 0; -2; 1]
  | PIdentity => [10; 0; -1; 2]
  | PUser n k => [10; zn (n / 4); zn (n mod 4); zn k]
  end.
Definition params_key (ps : list param) : list Z := flat_map param_key ps.
Definition uop_key (o : uop) : list Z := match o with Assertion => [50; 10] | Negation => [50; 20] end.
Definition bop_key (o : bop) : list Z :=
  match o with
  | Conjunction => [50; 30] | Disjunction => [50; 40] | MaterialConditional => [50; 50]
  | MaterialBiconditional => [50; 60] | Conditional => [50; 70] | Biconditional => [50; 80]
  end.
Definition mop_key (o : mop) : list Z := match o with Possibility => [50; 90] | Necessity => [50; 100] end.
Definition quant_key (q : quant) : list Z := match q with Existential => [40; 0] | Universal => [40; 1] end.

Fixpoint sent_key (s : sent) : list Z :=
  match s with
  | SAtom n => atom_key n
  | SPred p ps => 70 :: pred_key p ++ params_key ps
  | SQuant q v b => 80 :: quant_key q ++ param_key (PV v) ++ sent_key b
  | SUn o a => 90 :: uop_key o ++ sent_key a
  | SBin o a b => 90 :: bop_key o ++ sent_key a ++ sent_key b
  | SMod o a => 90 :: mop_key o ++ sent_key a
  end.

(* Lexical.orderitems on two sort tuples: <= *)
Fixpoint le0 (l : list Z) : bool :=      (* zeros <= l *)
  match l with [] => true | x :: r => if x =? 0 then le0 r else 0 <? x end.
Fixpoint ge0 (l : list Z) : bool :=      (* l <= zeros *)
  match l with [] => true | x :: r => if x =? 0 then ge0 r else x <? 0 end.
Fixpoint key_leb (a b : list Z) : bool :=
  match a, b with
  | [], _ => le0 b
  | _, [] => ge0 a
  | x :: r, y :: t => if x =? y then key_leb r t else x <? y
  end.

(* tuple.__lt__ on tuples of parameters: lexicographic, a proper prefix first *)
Fixpoint tuple_leb (a b : list param) : bool :=
  match a, b with
  | [], _ => true
  | _ :: _, [] => false
  | x :: r, y :: t =>
      if param_eqb x y then tuple_leb r t
      else key_leb (param_key x) (param_key y)
  end.

Close Scope Z_scope.

Section Sort.
  Context {A : Type} (leb : A -> A -> bool).
  Fixpoint insert (x : A) (l : list A) : list A :=
    match l with
    | [] => [x]
    | y :: r => if leb x y then x :: l else y :: insert x r
    end.
  (* stable: later equal elements stay behind earlier ones *)
  Definition isort (l : list A) : list A := fold_right insert [] l.
End Sort.

Definition sort_nat : list nat -> list nat := isort Nat.leb.

(* ---- the exported tree ------------------------------------------------------- *)
Record xframe := {
  x_atoms : list (nat * val);
  x_opaqs : list (sent * val);
  x_preds : list (pred * bool * list (list param)) }.   (* bool: true = P / P+, false = P- *)

Record xdata := {
  x_worlds : list nat;
  x_access : list (nat * nat);
  x_frames : list (nat * xframe) }.

(* interp.having(values...): values outside the logic's value set are dropped *)
Definition having (L : mlogic) (st : state) (w : nat) (p : pred) (vs : list val) : list (list param) :=
  let vs := filter (val_ok L) vs in
  map (fun e => snd (fst e))
      (filter (fun e => match e with
                        | (w', p', _, v) => Nat.eqb w w' && pred_eqb p p' && vmem v vs
                        end) (s_preds st)).

Definition frame_atoms (st : state) (w : nat) : list (nat * val) :=
  map (fun e => (snd (fst e), snd e)) (filter (fun e => Nat.eqb (fst (fst e)) w) (s_atoms st)).
Definition frame_opaqs (st : state) (w : nat) : list (sent * val) :=
  map (fun e => (snd (fst e), snd e)) (filter (fun e => Nat.eqb (fst (fst e)) w) (s_opaqs st)).

Definition export_frame (L : mlogic) (st : state) (w : nat) : xframe :=
  {| x_atoms := isort (fun a b => Nat.leb (fst a) (fst b)) (frame_atoms st w);
     x_opaqs := isort (fun a b => key_leb (sent_key (fst a)) (sent_key (fst b))) (frame_opaqs st w);
     x_preds :=
       flat_map (fun p =>
         (p, true, isort tuple_leb (having L st w p [VT; VB])) ::
         (if ml_many L then [(p, false, isort tuple_leb (having L st w p [VB; VF]))] else []))
         (isort (fun a b => key_leb (pred_key a) (pred_key b)) (pkeys_of st w)) |}.

(* BaseModel.get_data; the non modal case returns frames[0].get_data() only *)
Definition export (L : mlogic) (st : state) : xdata :=
  if ml_modal L then
    let ws := sort_nat (s_fkeys st) in
    {| x_worlds := ws;
       x_access := flat_map (fun w1 => map (fun w2 => (w1, w2)) (sort_nat (succs (s_R st) w1))) ws;
       x_frames := map (fun w => (w, export_frame L st w)) ws |}
  else
    {| x_worlds := [0]; x_access := []; x_frames := [(0, export_frame L st 0)] |}.

Definition vcode (v : val) : nat := match v with VF => 0 | VN => 1 | VB => 2 | VT => 3 end.
