(* Entry points evaluated by vm_compute in the correspondence runs of C08/C20
   and the boolean side conditions decided per logic on regenerated data. *)
From Coq Require Import List Bool Arith.
From PT Require Import Sem.Values Sem.MSyntax Sem.LimitBest Sem.Access Sem.PyModel Sem.Classical Sem.ClassicalFix.
Import ListNotations.

Definition pord_of (l : list (nat * list pred)) (w : nat) : list pred :=
  match find (fun e => Nat.eqb (fst e) w) l with Some e => snd e | None => [] end.

(* status 0 = built and finished, 1 = some call raised *)
Definition run_case (L : mlogic) (os : list op) (cord : list nat)
           (pordl : list (nat * list pred)) (ss : list sent) (ws : list nat) :=
  match run L cord (pord_of pordl) os with
  | None => (1, ([], []), ([], []), [])
  | Some st =>
      (0, (aw (s_R st), ap (s_R st)), (s_fkeys st, s_consts st),
       map (fun s => map (fun w => res_code (value_of L st s w)) ws) ss)
  end.

(* generaliser behaviour observed on the implementation: rows (values in
   iteration order, result); None = all rows reproduced *)
Definition gen_rows_bad (L : mlogic) (g : gen) (side : bool) (rows : list (list val * val))
  : option (list val * val) :=
  find (fun r => negb (Nat.eqb (res_code (gen_code_r L g side (map Val (fst r))))
                               (res_code (Val (snd r))))) rows.

Definition bounds_ok (L : mlogic) : bool :=
  is_min_of (ml_min L) (t_vals (ml_tab L)) && is_max_of (ml_max L) (t_vals (ml_tab L)) &&
  val_eqb (ml_min L) VF && val_eqb (ml_max L) VT.

Definition vals_closed (L : mlogic) : bool :=
  let vs := t_vals (ml_tab L) in
  vmem (ml_unass L) vs && vmem (ml_first L) vs && vmem (ml_last L) vs &&
  forallb (fun o => forallb (fun a => vmem (t_un (ml_tab L) o a) vs) vs) all_uops &&
  forallb (fun o => forallb (fun a => forallb (fun b => vmem (t_bin (ml_tab L) o a b) vs) vs) vs) all_bops.

(* the folded operator of a CFold generaliser is associative and commutative
   on the value set (order independence of reduce) *)
Definition fold_ac (L : mlogic) (o : bop) : bool :=
  let vs := t_vals (ml_tab L) in
  let f := t_bin (ml_tab L) o in
  forallb (fun a => forallb (fun b => val_eqb (f a b) (f b a) &&
     forallb (fun c => val_eqb (f (f a b) c) (f a (f b c))) vs) vs) vs.
