(* Functional model of pytableaux.models.BaseModel.Access and its subclasses
   SerialAccess / ReflexiveAccess / ReflexiveTransitiveAccesss / GlobalAccess
   (models/__init__.py l.657-786), written as the code is.

   Access is a defaultdict world -> set of worlds.  Model: the key set [aw]
   (known worlds) and the set of pairs [ap]; both kept duplicate free in
   insertion order.  The `while True` loops are fuelled iterations that return
   None when the fuel runs out; AccessProofs.v shows that the stated fuel
   always suffices. *)
From Coq Require Import List Bool Arith Lia.
Import ListNotations.

Definition pair_eqb (p q : nat * nat) : bool :=
  Nat.eqb (fst p) (fst q) && Nat.eqb (snd p) (snd q).
Definition memn (x : nat) (l : list nat) : bool := existsb (Nat.eqb x) l.
Definition memp (p : nat * nat) (l : list (nat * nat)) : bool := existsb (pair_eqb p) l.

Record access := { aw : list nat; ap : list (nat * nat) }.

(* BaseModel.__init__: self.R = Access(); self.R[0] *)
Definition acc_init : access := {| aw := [0]; ap := [] |}.

Definition addw (w : nat) (l : list nat) : list nat := if memn w l then l else l ++ [w].
Definition addp (p : nat * nat) (l : list (nat * nat)) : list (nat * nat) :=
  if memp p l then l else l ++ [p].

(* self.R[w] on a defaultdict: registers the key *)
Definition acc_touch (a : access) (w : nat) : access :=
  {| aw := addw w (aw a); ap := ap a |}.

(* Access.add: self[w1].add(w2); self[w2] *)
Definition acc_add (a : access) (p : nat * nat) : access :=
  {| aw := addw (snd p) (addw (fst p) (aw a)); ap := addp p (ap a) |}.

(* self[w] *)
Definition succs (a : access) (w : nat) : list nat :=
  map snd (filter (fun p => Nat.eqb (fst p) w) (ap a)).

Definition acc_has (a : access) (p : nat * nat) : bool := memp p (ap a).

(* ReflexiveAccess.enforce: for w in self: self.add((w, w)) *)
Definition refl_enforce (a : access) : access :=
  fold_left (fun a w => acc_add a (w, w)) (aw a) a.

(* the to_add set of one round of ReflexiveTransitiveAccesss.enforce *)
Definition trans_missing (a : access) : list (nat * nat) :=
  flat_map (fun w1 =>
    flat_map (fun w2 =>
      flat_map (fun w3 => if memn w3 (succs a w1) then [] else [(w1, w3)])
               (succs a w2))
             (succs a w1))
           (aw a).

Fixpoint rt_loop (fuel : nat) (a : access) : option access :=
  match fuel with
  | 0 => None
  | S n =>
      let a1 := refl_enforce a in
      match trans_missing a1 with
      | [] => Some a1
      | ps => rt_loop n (fold_left acc_add ps a1)
      end
  end.

Definition rt_fuel (a : access) : nat := length (aw a) * length (aw a) + 1.
Definition rt_enforce (a : access) : option access := rt_loop (rt_fuel a) a.

(* the to_add set of one round of GlobalAccess.enforce *)
Definition sym_missing (a : access) : list (nat * nat) :=
  flat_map (fun w1 =>
    flat_map (fun w2 => if memn w1 (succs a w2) then [] else [(w2, w1)])
             (succs a w1))
           (aw a).

Fixpoint gl_loop (fuel : nat) (a : access) : option access :=
  match fuel with
  | 0 => None
  | S n =>
      match rt_enforce a with
      | None => None
      | Some a1 =>
          match sym_missing a1 with
          | [] => Some a1
          | ps => gl_loop n (fold_left acc_add ps a1)
          end
      end
  end.

Definition global_enforce (a : access) : option access := gl_loop (rt_fuel a) a.

(* SerialAccess.enforce *)
Definition dead_end (a : access) (w : nat) : bool :=
  match succs a w with [] => true | _ => false end.

Definition serial_enforce (a : access) : access :=
  match filter (dead_end a) (aw a) with
  | [] => a
  | needs =>
      let w2 := S (list_max (aw a)) in
      acc_add (fold_left (fun a w1 => acc_add a (w1, w2)) needs a) (w2, w2)
  end.

(* Which class a logic uses (regenerated from Model.Access.__name__). *)
Inductive akind := AKAny | AKSerial | AKRefl | AKReflTrans | AKGlobal.

Definition enforce (k : akind) (a : access) : option access :=
  match k with
  | AKAny => Some a
  | AKSerial => Some (serial_enforce a)
  | AKRefl => Some (refl_enforce a)
  | AKReflTrans => rt_enforce a
  | AKGlobal => global_enforce a
  end.

(* every pair is between known worlds (invariant of add) *)
Definition acc_wf (a : access) : Prop :=
  forall x y, In (x, y) (ap a) -> In x (aw a) /\ In y (aw a).
