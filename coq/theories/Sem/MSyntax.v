(* Sentence syntax used by the model-evaluation properties (C08, C20).
   A deliberately small mirror of pytableaux.lang: parameters are constants or
   variables, predicates are the two system predicates or a user predicate,
   sentences are atomic / predicated / quantified / operated (the ten
   operators split by how the evaluator treats them).  Index and subscript of
   an item are packed in one nat (n = subscript * K + index, K = maxi + 1:
   5 for atomics, 4 for constants, variables and user predicates), which is
   order preserving for the package's lexical order (subscript first).
   `subst` is Quantified.unquantify / Sentence.substitute exactly as coded:
   a blind replacement of the variable, also below a quantifier that rebinds
   it. *)
From Coq Require Import List Bool Arith Lia.
From PT Require Import Sem.Values.
Import ListNotations.

Inductive param := PC (n : nat) | PV (n : nat).
Inductive pred := PExistence | PIdentity | PUser (n : nat) (arity : nat).

Inductive sent :=
| SAtom (n : nat)
| SPred (p : pred) (ps : list param)
| SQuant (q : quant) (v : nat) (s : sent)
| SUn (o : uop) (s : sent)
| SBin (o : bop) (a b : sent)
| SMod (o : mop) (s : sent).

Definition param_eqb (a b : param) : bool :=
  match a, b with
  | PC x, PC y => Nat.eqb x y
  | PV x, PV y => Nat.eqb x y
  | _, _ => false
  end.

Definition pred_eqb (a b : pred) : bool :=
  match a, b with
  | PExistence, PExistence => true
  | PIdentity, PIdentity => true
  | PUser n k, PUser m j => Nat.eqb n m && Nat.eqb k j
  | _, _ => false
  end.

Fixpoint params_eqb (a b : list param) : bool :=
  match a, b with
  | [], [] => true
  | x :: r, y :: t => param_eqb x y && params_eqb r t
  | _, _ => false
  end.

Fixpoint sent_eqb (a b : sent) : bool :=
  match a, b with
  | SAtom n, SAtom m => Nat.eqb n m
  | SPred p ps, SPred q qs => pred_eqb p q && params_eqb ps qs
  | SQuant q v s, SQuant q' v' s' => quant_eqb q q' && Nat.eqb v v' && sent_eqb s s'
  | SUn o s, SUn o' s' => uop_eqb o o' && sent_eqb s s'
  | SBin o s t, SBin o' s' t' => bop_eqb o o' && sent_eqb s s' && sent_eqb t t'
  | SMod o s, SMod o' s' => mop_eqb o o' && sent_eqb s s'
  | _, _ => false
  end.

Lemma param_eqb_eq a b : param_eqb a b = true <-> a = b.
Proof.
  destruct a, b; simpl; rewrite ?Nat.eqb_eq; split; intro H;
    try discriminate; try (injection H as ->); try subst; reflexivity.
Qed.

Lemma pred_eqb_eq a b : pred_eqb a b = true <-> a = b.
Proof.
  destruct a, b; simpl; try (split; intro H; try reflexivity; discriminate).
  rewrite andb_true_iff, !Nat.eqb_eq. split.
  - intros [-> ->]; reflexivity.
  - intro H; injection H as -> ->; auto.
Qed.

Lemma params_eqb_eq a : forall b, params_eqb a b = true <-> a = b.
Proof.
  induction a as [|x r IH]; intros [|y t]; simpl; try (split; intro H; try reflexivity; discriminate).
  rewrite andb_true_iff, param_eqb_eq, IH. split.
  - intros [-> ->]; reflexivity.
  - intro H; injection H as -> ->; auto.
Qed.

Lemma sent_eqb_eq a : forall b, sent_eqb a b = true <-> a = b.
Proof.
  induction a as [n|p ps|q v s IH|o s IH|o s IHs t IHt|o s IH]; intros b; destruct b;
    simpl; try (split; intro H; discriminate).
  - rewrite Nat.eqb_eq. split; [intros ->; reflexivity|intro H; injection H; auto].
  - rewrite andb_true_iff, pred_eqb_eq, params_eqb_eq. split.
    + intros [-> ->]; reflexivity.
    + intro H; injection H as -> ->; auto.
  - rewrite !andb_true_iff, quant_eqb_eq, Nat.eqb_eq, IH. split.
    + intros [[-> ->] ->]; reflexivity.
    + intro H; injection H as -> -> ->; auto.
  - rewrite andb_true_iff, uop_eqb_eq, IH. split.
    + intros [-> ->]; reflexivity.
    + intro H; injection H as -> ->; auto.
  - rewrite !andb_true_iff, bop_eqb_eq, IHs, IHt. split.
    + intros [[-> ->] ->]; reflexivity.
    + intro H; injection H as -> -> ->; auto.
  - rewrite andb_true_iff, mop_eqb_eq, IH. split.
    + intros [-> ->]; reflexivity.
    + intro H; injection H as -> ->; auto.
Qed.

Lemma sent_eqb_refl a : sent_eqb a a = true.
Proof. apply sent_eqb_eq; reflexivity. Qed.
Lemma params_eqb_refl a : params_eqb a a = true.
Proof. apply params_eqb_eq; reflexivity. Qed.
Lemma pred_eqb_refl a : pred_eqb a a = true.
Proof. apply pred_eqb_eq; reflexivity. Qed.

(* Sentence.substitute(Constant c, Variable v) *)
Definition subst_param (c v : nat) (p : param) : param :=
  match p with
  | PV u => if Nat.eqb u v then PC c else p
  | PC _ => p
  end.

Fixpoint subst (c v : nat) (s : sent) : sent :=
  match s with
  | SAtom n => SAtom n
  | SPred p ps => SPred p (map (subst_param c v) ps)
  | SQuant q u b => SQuant q u (subst c v b)
  | SUn o a => SUn o (subst c v a)
  | SBin o a b => SBin o (subst c v a) (subst c v b)
  | SMod o a => SMod o (subst c v a)
  end.

Fixpoint depth (s : sent) : nat :=
  match s with
  | SAtom _ | SPred _ _ => 0
  | SQuant _ _ b => S (depth b)
  | SUn _ a => S (depth a)
  | SBin _ a b => S (Nat.max (depth a) (depth b))
  | SMod _ a => S (depth a)
  end.

Lemma depth_subst c v s : depth (subst c v s) = depth s.
Proof. induction s; simpl; congruence. Qed.

Definition addn (x : nat) (l : list nat) : list nat :=
  if existsb (Nat.eqb x) l then l else l ++ [x].
Definition addpred (x : pred) (l : list pred) : list pred :=
  if existsb (pred_eqb x) l then l else l ++ [x].

(* s.constants, s.atomics, s.predicates (as duplicate-free lists), variables *)
Definition param_consts (ps : list param) : list nat :=
  fold_left (fun l p => match p with PC c => addn c l | PV _ => l end) ps [].
Definition has_var (ps : list param) : bool :=
  existsb (fun p => match p with PV _ => true | PC _ => false end) ps.

Fixpoint consts_acc (s : sent) (l : list nat) : list nat :=
  match s with
  | SAtom _ => l
  | SPred _ ps => fold_left (fun l p => match p with PC c => addn c l | PV _ => l end) ps l
  | SQuant _ _ b => consts_acc b l
  | SUn _ a => consts_acc a l
  | SBin _ a b => consts_acc b (consts_acc a l)
  | SMod _ a => consts_acc a l
  end.
Definition consts_of (s : sent) : list nat := consts_acc s [].

Fixpoint atoms_acc (s : sent) (l : list nat) : list nat :=
  match s with
  | SAtom n => addn n l
  | SPred _ _ => l
  | SQuant _ _ b => atoms_acc b l
  | SUn _ a => atoms_acc a l
  | SBin _ a b => atoms_acc b (atoms_acc a l)
  | SMod _ a => atoms_acc a l
  end.
Definition atoms_of (s : sent) : list nat := atoms_acc s [].

Fixpoint preds_acc (s : sent) (l : list pred) : list pred :=
  match s with
  | SAtom _ => l
  | SPred p _ => addpred p l
  | SQuant _ _ b => preds_acc b l
  | SUn _ a => preds_acc a l
  | SBin _ a b => preds_acc b (preds_acc a l)
  | SMod _ a => preds_acc a l
  end.
Definition preds_of (s : sent) : list pred := preds_acc s [].

(* no quantifier rebinds a variable that an enclosing quantifier (or the
   context [bound]) already binds *)
Fixpoint nb (bound : list nat) (s : sent) : bool :=
  match s with
  | SAtom _ | SPred _ _ => true
  | SQuant _ u b => negb (existsb (Nat.eqb u) bound) && nb (u :: bound) b
  | SUn _ a => nb bound a
  | SBin _ a b => nb bound a && nb bound b
  | SMod _ a => nb bound a
  end.
Definition norebind (s : sent) : bool := nb [] s.
