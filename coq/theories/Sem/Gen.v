(* Generalisers (quantifiers, modal operators) as functions of the SET of
   values present, and a reflective condition language over that set.  A
   statement about value lists of every length is decided by the 16 subsets of
   the value set. *)
From Coq Require Import List Bool Arith.
From PT Require Import Util.Finite Sem.Values Sem.Lit.
Import ListNotations.

Definition vset := val -> bool.
Definition mem_of (vs : list val) : vset := fun v => vmem v vs.
Definition vset_eq (m m' : vset) : Prop := forall v, m v = m' v.

(* A generaliser is given by its value on each of the 16 subsets. *)
Definition gen4 := bool -> bool -> bool -> bool -> val.   (* F N B T present? *)
Definition gapp (g : gen4) (m : vset) : val := g (m VF) (m VN) (m VB) (m VT).

Lemma gapp_ext g m m' : vset_eq m m' -> gapp g m = gapp g m'.
Proof. intro H. unfold gapp. rewrite !H. reflexivity. Qed.

(* Documented generalisers. *)
Definition g_max : gen4 := fun f n b t => if t then VT else if b then VB else if n then VN else VF.
Definition g_min : gen4 := fun f n b t => if f then VF else if n then VN else if b then VB else VT.
(* Belnap lattice join / meet (told-true, told-false) *)
Definition g_join : gen4 := fun f n b t => mk (b || t) (negb n && negb t).
Definition g_meet : gen4 := fun f n b t => mk (negb f && negb n) (f || b).
(* Weak Kleene generalised disjunction / conjunction (K3WQ): N is infectious *)
Definition g_wk_or : gen4 := fun f n b t => if n then VN else if t then VT else VF.
Definition g_wk_and : gen4 := fun f n b t => if n then VN else if f then VF else VT.

(* Value functions built from the tables, applied to one element value. *)
Inductive vfun := FId | FUn (o : uop) (f : vfun) | FBin (o : bop) (f g : vfun).
Fixpoint fval (t : tables) (f : vfun) (v : val) : val :=
  match f with
  | FId => v
  | FUn o f => t_un t o (fval t f v)
  | FBin o f g => t_bin t o (fval t f v) (fval t g v)
  end.

Definition image (t : tables) (f : vfun) (m : vset) : vset :=
  fun u => existsb (fun v => m v && val_eqb (fval t f v) u) all_vals.

Inductive cond :=
| CEx (cs : list (vfun * bool))                  (* some element meets all (f, designation) constraints *)
| CAll (f : vfun) (d : bool)                     (* every element meets the constraint *)
| CGen (univ : bool) (f outer : vfun) (d : bool). (* des (outer (gen (image f))) = d *)

Section Eval.
  Variable t : tables.
  Variables ge gu : gen4.

  Definition elem_ok (v : val) (fd : vfun * bool) : bool :=
    Bool.eqb (t_des t (fval t (fst fd) v)) (snd fd).

  Definition evalc (m : vset) (c : cond) : bool :=
    match c with
    | CEx cs => existsb (fun v => m v && forallb (elem_ok v) cs) all_vals
    | CAll f d => forallb (fun v => implb (m v) (elem_ok v (f, d))) all_vals
    | CGen u f outer d =>
        Bool.eqb (t_des t (fval t outer (gapp (if u then gu else ge) (image t f m)))) d
    end.

  Lemma image_ext f m m' : vset_eq m m' -> vset_eq (image t f m) (image t f m').
  Proof. intros H u. unfold image. apply existsb_ext_in. intros v _. rewrite H. reflexivity. Qed.

  Lemma evalc_ext m m' c : vset_eq m m' -> evalc m c = evalc m' c.
  Proof.
    intro H. destruct c as [cs|f d|u f outer d]; cbn [evalc].
    - apply existsb_ext_in. intros v _. rewrite H. reflexivity.
    - apply forallb_ext_in. intros v _. rewrite H. reflexivity.
    - rewrite (gapp_ext _ _ _ (image_ext f m m' H)). reflexivity.
  Qed.

  (* Meaning of a condition on an actual list of values. *)
  Definition condP (vs : list val) (c : cond) : Prop :=
    match c with
    | CEx cs => exists v, In v vs /\ forall fd, In fd cs -> t_des t (fval t (fst fd) v) = snd fd
    | CAll f d => forall v, In v vs -> t_des t (fval t f v) = d
    | CGen u f outer d =>
        t_des t (fval t outer (gapp (if u then gu else ge) (mem_of (map (fval t f) vs)))) = d
    end.

  Lemma image_mem_of f vs : vset_eq (image t f (mem_of vs)) (mem_of (map (fval t f) vs)).
  Proof.
    intro u. unfold image, mem_of.
    destruct (vmem u (map (fval t f) vs)) eqn:E.
    - apply vmem_In in E. apply in_map_iff in E. destruct E as [v [Hv Hin]].
      apply existsb_exists. exists v. split; [apply all_vals_complete|].
      apply andb_true_iff. split; [apply vmem_In; exact Hin | apply val_eqb_eq; exact Hv].
    - destruct (existsb _ all_vals) eqn:E2; [|reflexivity].
      apply existsb_exists in E2. destruct E2 as [v [_ Hv]]. apply andb_true_iff in Hv.
      destruct Hv as [H1 H2]. apply vmem_In in H1. apply val_eqb_eq in H2.
      assert (In u (map (fval t f) vs)) by (apply in_map_iff; exists v; auto).
      apply vmem_In in H. congruence.
  Qed.

  Lemma evalc_condP vs c : evalc (mem_of vs) c = true <-> condP vs c.
  Proof.
    destruct c as [cs|f d|u f outer d]; cbn [evalc condP].
    - rewrite existsb_exists. split.
      + intros [v [_ H]]. apply andb_true_iff in H. destruct H as [H1 H2].
        exists v. split; [apply vmem_In; exact H1|]. rewrite forallb_forall in H2.
        intros fd Hfd. apply Bool.eqb_prop. apply (H2 fd Hfd).
      + intros [v [Hv H]]. exists v. split; [apply all_vals_complete|].
        apply andb_true_iff. split; [apply vmem_In; exact Hv|].
        apply forallb_forall. intros fd Hfd. unfold elem_ok. rewrite (H fd Hfd). apply Bool.eqb_reflx.
    - rewrite forallb_forall. split.
      + intros H v Hv. specialize (H v (all_vals_complete v)).
        unfold mem_of in H. apply vmem_In in Hv. rewrite Hv in H. simpl in H.
        apply Bool.eqb_prop. exact H.
      + intros H v _. unfold mem_of. destruct (vmem v vs) eqn:E; [|reflexivity]. simpl.
        apply vmem_In in E. unfold elem_ok. simpl. rewrite (H v E). apply Bool.eqb_reflx.
    - rewrite (gapp_ext _ _ _ (image_mem_of f vs)). split; intro H.
      + apply Bool.eqb_prop. exact H.
      + rewrite H. apply Bool.eqb_reflx.
  Qed.
End Eval.

(* Sublists of the value set: the canonical representatives. *)
Fixpoint sublists {A} (l : list A) : list (list A) :=
  match l with
  | [] => [[]]
  | x :: r => map (cons x) (sublists r) ++ sublists r
  end.

Definition canon (vals vs : list val) : list val := filter (fun v => vmem v vs) vals.

Lemma canon_in_sublists vals vs : In (canon vals vs) (sublists vals).
Proof.
  unfold canon. induction vals as [|x r IH]; simpl; [auto|].
  apply in_or_app. destruct (vmem x vs).
  - left. apply in_map. exact IH.
  - right. exact IH.
Qed.

Lemma canon_mem vals vs : (forall v, In v vs -> In v vals) ->
  vset_eq (mem_of vs) (mem_of (canon vals vs)).
Proof.
  intros H v. unfold mem_of, canon.
  destruct (vmem v vs) eqn:E.
  - symmetry. apply vmem_In. apply filter_In. split; [apply H; apply vmem_In; exact E | exact E].
  - destruct (vmem v (filter _ vals)) eqn:E2; [|reflexivity].
    apply vmem_In in E2. apply filter_In in E2. destruct E2 as [_ E2]. congruence.
Qed.

Lemma canon_nonempty vals vs : (forall v, In v vs -> In v vals) -> vs <> [] -> canon vals vs <> [].
Proof.
  intros H Hne. destruct vs as [|v r]; [congruence|].
  intro E. assert (Hv : In v (canon vals (v :: r))).
  { unfold canon. apply filter_In. split; [apply H; left; reflexivity|].
    apply vmem_In. left. reflexivity. }
  rewrite E in Hv. contradiction.
Qed.

(* A generalising rule at the list level. *)
Record qrule := { q_principal : cond; q_groups : list (list cond) }.

Definition q_ext t ge gu (m : vset) (r : qrule) : bool :=
  existsb (forallb (evalc t ge gu m)) (q_groups r).

Definition is_nil {A} (l : list A) : bool := match l with [] => true | _ => false end.

(* domain = true: the element list is a quantifier domain (non-empty);
   domain = false: a set of accessible worlds (possibly empty). *)
Definition q_sound t ge gu (domain : bool) (r : qrule) : option (list val) :=
  find_some (fun sub => guard ((domain && is_nil sub) ||
       implb (evalc t ge gu (mem_of sub) (q_principal r)) (q_ext t ge gu (mem_of sub) r)) sub)
    (sublists (t_vals t)).
Definition q_complete t ge gu (domain : bool) (r : qrule) : option (list val) :=
  find_some (fun sub => guard ((domain && is_nil sub) ||
       implb (q_ext t ge gu (mem_of sub) r) (evalc t ge gu (mem_of sub) (q_principal r))) sub)
    (sublists (t_vals t)).

Definition groupsP t ge gu (vs : list val) (r : qrule) : Prop :=
  exists g, In g (q_groups r) /\ forall c, In c g -> condP t ge gu vs c.

Lemma q_ext_groupsP t ge gu vs r : q_ext t ge gu (mem_of vs) r = true <-> groupsP t ge gu vs r.
Proof.
  unfold q_ext, groupsP. rewrite existsb_exists. split.
  - intros [g [Hg H]]. exists g. split; [exact Hg|]. rewrite forallb_forall in H.
    intros c Hc. apply evalc_condP. apply H. exact Hc.
  - intros [g [Hg H]]. exists g. split; [exact Hg|]. apply forallb_forall.
    intros c Hc. apply evalc_condP. apply H. exact Hc.
Qed.

Lemma q_ext_ext t ge gu m m' r : vset_eq m m' -> q_ext t ge gu m r = q_ext t ge gu m' r.
Proof.
  intro H. unfold q_ext. apply existsb_ext_in. intros g _. apply forallb_ext_in. intros c _.
  apply evalc_ext. exact H.
Qed.

(* THE LIST-LEVEL LIFTING THEOREMS: lists of every length. *)
Theorem q_sound_lift t ge gu domain r : q_sound t ge gu domain r = None ->
  forall vs, (forall v, In v vs -> In v (t_vals t)) -> (domain = true -> vs <> []) ->
    condP t ge gu vs (q_principal r) -> groupsP t ge gu vs r.
Proof.
  intros H vs Hin Hne Hp.
  apply q_ext_groupsP. apply evalc_condP in Hp.
  pose proof (find_some_none _ _ H (canon (t_vals t) vs) (canon_in_sublists _ _)) as G.
  apply guard_none in G.
  pose proof (canon_mem _ _ Hin) as Hm.
  rewrite (q_ext_ext _ _ _ _ _ r Hm). rewrite (evalc_ext _ _ _ _ _ _ Hm) in Hp.
  apply orb_true_iff in G. destruct G as [G|G].
  - apply andb_true_iff in G. destruct G as [Hd Hn]. exfalso.
    apply (canon_nonempty (t_vals t) vs Hin (Hne Hd)).
    destruct (canon (t_vals t) vs); [reflexivity|discriminate].
  - rewrite Hp in G. exact G.
Qed.

Theorem q_complete_lift t ge gu domain r : q_complete t ge gu domain r = None ->
  forall vs, (forall v, In v vs -> In v (t_vals t)) -> (domain = true -> vs <> []) ->
    groupsP t ge gu vs r -> condP t ge gu vs (q_principal r).
Proof.
  intros H vs Hin Hne Hp.
  apply q_ext_groupsP in Hp. apply evalc_condP.
  pose proof (find_some_none _ _ H (canon (t_vals t) vs) (canon_in_sublists _ _)) as G.
  apply guard_none in G.
  pose proof (canon_mem _ _ Hin) as Hm.
  rewrite (evalc_ext _ _ _ _ _ _ Hm). rewrite (q_ext_ext _ _ _ _ _ r Hm) in Hp.
  apply orb_true_iff in G. destruct G as [G|G].
  - apply andb_true_iff in G. destruct G as [Hd Hn]. exfalso.
    apply (canon_nonempty (t_vals t) vs Hin (Hne Hd)).
    destruct (canon (t_vals t) vs); [reflexivity|discriminate].
  - rewrite Hp in G. exact G.
Qed.

(* MH: T if T present; N if both F and N are present (no T); F otherwise. *)
Definition g_mh_or : gen4 := fun f n b t => if t then VT else if f && n then VN else VF.
(* NH: F if F present; B if both B and T are present (no F); T otherwise. *)
Definition g_nh_and : gen4 := fun f n b t => if f then VF else if b && t then VB else VT.
(* GO: generalisation over crunched values. *)
Definition g_go_or : gen4 := fun f n b t => if t then VT else VF.
Definition g_go_and : gen4 := fun f n b t => if f || n || b then VF else VT.

From Coq Require Import String.
Open Scope string_scope.

(* Documented generalised disjunction (existential, possibility) and conjunction
   (universal, necessity) of each registered logic. *)
Definition lit_gens (name : string) : option (gen4 * gen4) :=
  if existsb (String.eqb name) ["FDE"; "KFDE"; "TFDE"; "S4FDE"; "S5FDE"] then Some (g_join, g_meet)
  else if existsb (String.eqb name) ["K3WQ"; "KK3WQ"; "TK3WQ"; "S4K3WQ"; "S5K3WQ"] then Some (g_wk_or, g_wk_and)
  else if String.eqb name "MH" then Some (g_mh_or, g_min)
  else if String.eqb name "NH" then Some (g_max, g_nh_and)
  else if existsb (String.eqb name) ["GO"; "S4GO"] then Some (g_go_or, g_go_and)
  else match lit_prims name with Some _ => Some (g_max, g_min) | None => None end.
